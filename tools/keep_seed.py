#!/usr/bin/env python3
"""tools/keep_seed.py <outdir> <i> <Cxx> <id> <caught-by text>  – store a confirmed seeded change under seeded/<id>/"""
import json, shutil, sys
from pathlib import Path
out, i, pid, sid, caught = sys.argv[1:6]
d = Path(__file__).resolve().parent.parent / "seeded" / sid
d.mkdir(parents=True, exist_ok=True)
shutil.copy("%s/patch%s.diff" % (out, i), d / "patch.diff")
shutil.copy("%s/demo%s.py" % (out, i), d / "demo.py")
meta = json.load(open("%s/meta%s.json" % (out, i)))
meta.update(property=pid, id=sid, caught_by=caught,
            confirmed=("applied in a scratch worktree of /repo: pytest 42 passed with the change; demo.py exits non-zero "
                       "with it and 0 without (tools/confirm_seed.sh); then `tools/try_patch.sh seeded/%s/patch.diff %s`" % (sid, pid)))
json.dump(meta, open(d / "meta.json", "w"), indent=1)
print("kept", d)
