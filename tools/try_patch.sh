#!/bin/sh
# tools/try_patch.sh <patch.diff> <Cxx> [more Cxx…]  – apply a seeded change to /repo, run the named
# checks (quick), and undo it straight afterwards.  Prints one line per check.
PATCH="$1"; shift
HERE="$(cd "$(dirname "$0")/.." && pwd)"
cd /repo || exit 2
if ! git diff --quiet; then echo "/repo has uncommitted changes; refusing"; exit 2; fi
git apply "$PATCH" || { echo "patch does not apply"; exit 2; }
cd "$HERE"
for p in "$@"; do
  out=$(./check "$p" --tier quick 2>&1); rc=$?
  echo "$p exit=$rc $(echo "$out" | grep -m1 VIOLATION)"
done
git -C /repo checkout -- .
git -C /repo status --short
# the Generated/*.lean files were regenerated from the patched source: bring them back
PYTHONPATH="$HERE/harness" PYTHONDONTWRITEBYTECODE=1 /venv/bin/python -m ptv.translate >/dev/null 2>&1
