#!/bin/sh
# Build the framework from files on disk only (offline).  Regenerates the data modules from
# /repo's working tree, then builds every model, proof and property module and the driver.
set -e
HERE="$(cd "$(dirname "$0")/.." && pwd)"
cd "$HERE"
PYTHONPATH="$HERE/harness" PYTHONDONTWRITEBYTECODE=1 /venv/bin/python -m ptv.translate
cd lean
lake build PtVerif ptdriver
