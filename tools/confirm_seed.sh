#!/bin/sh
# tools/confirm_seed.sh <outdir> <i> <Cxx> – confirm a seeded change independently in a scratch worktree
# (tests 42 passed with it, demo fails with it and passes without), then run our check against it.
OUT="$1"; I="$2"; P="$3"
W=/tmp/confirm-$$
git -C /repo worktree add -q --detach "$W" HEAD || exit 2
cd "$W"
echo "== demo on clean tree:"; PYTHONPATH="$W" /venv/bin/python "$OUT/demo$I.py" >/dev/null 2>&1; echo "  exit=$?"
git apply "$OUT/patch$I.diff" || { echo "patch does not apply"; cd /; git -C /repo worktree remove --force "$W"; exit 2; }
echo "== tests with change:"; PYTHONPATH="$W" /venv/bin/python -m pytest -q -p no:cacheprovider 2>&1 | tail -1
echo "== demo with change:"; PYTHONPATH="$W" /venv/bin/python "$OUT/demo$I.py" >/dev/null 2>&1; echo "  exit=$?"
cd /verif
git -C /repo worktree remove --force "$W"
echo "== our check:"
./tools/try_patch.sh "$OUT/patch$I.diff" "$P"
