#!/bin/sh
# tools/batch_confirm.sh <outroot> Cxx…   – for every <outroot>/Cxx-out/patch{1,2,3}.diff:
#   phase 1 (parallel): independent confirmation in a scratch worktree (demo passes clean, 42 tests pass and
#                       the demo fails with the change);  phase 2 (serial): our quick check against the change.
ROOT="$1"; shift
HERE="$(cd "$(dirname "$0")/.." && pwd)"
confirm_one() {
  OUT="$1"; I="$2"; W="/tmp/bconf-$$-$(basename $OUT)-$I"
  git -C /repo worktree add -q --detach "$W" HEAD 2>/dev/null || { echo "$OUT $I worktree-failed"; return; }
  cd "$W"
  PYTHONPATH="$W" timeout 300 /venv/bin/python "$OUT/demo$I.py" >/dev/null 2>&1; c0=$?
  if git apply "$OUT/patch$I.diff" 2>/dev/null; then
    t=$(PYTHONPATH="$W" timeout 900 /venv/bin/python -m pytest -q -p no:cacheprovider 2>&1 | tail -1 | cut -d, -f1)
    PYTHONPATH="$W" timeout 300 /venv/bin/python "$OUT/demo$I.py" >/dev/null 2>&1; c1=$?
  else t="patch-does-not-apply"; c1=-1; fi
  cd /; git -C /repo worktree remove --force "$W" 2>/dev/null
  echo "$(basename $OUT | sed s/-out//) $I clean=$c0 tests='$t' mutated=$c1"
}
for P in "$@"; do for I in 1 2 3; do confirm_one "$ROOT/$P-out" $I & done; wait; done | sort
echo "--- our checks"
for P in "$@"; do for I in 1 2 3; do
  printf "%s %s: " "$P" "$I"; PTV_TIMEOUT=400 "$HERE/tools/try_patch.sh" "$ROOT/$P-out/patch$I.diff" "$P" 2>&1 | tr '\n' ' ' | cut -c1-150; echo
done; done
git -C /repo worktree prune
