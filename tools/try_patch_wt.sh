#!/bin/sh
# tools/try_patch_wt.sh <worktree of /repo> <patch.diff> <Cxx> [more Cxx…] – like try_patch.sh, but the
# seeded change is applied in a scratch worktree and the checks are pointed at it (PTV_REPO), so that
# /repo itself stays untouched (needed while a long run is reading /repo).
WT="$1"; PATCH="$2"; shift 2
HERE="$(cd "$(dirname "$0")/.." && pwd)"
git -C "$WT" checkout -q -- . || exit 2
git -C "$WT" apply "$PATCH" || { echo "patch does not apply"; exit 2; }
cd "$HERE"
for p in "$@"; do
  out=$(PTV_REPO="$WT" ./check "$p" --tier quick 2>&1); rc=$?
  echo "$p exit=$rc $(echo "$out" | grep -m1 VIOLATION)"
done
git -C "$WT" checkout -q -- .
PYTHONPATH="$HERE/harness" PYTHONDONTWRITEBYTECODE=1 /venv/bin/python -m ptv.translate >/dev/null 2>&1
