#!/usr/bin/env python3
"""Validate MANIFEST.json and every evidence file against the schemas (run with python3-vt)."""
import json, sys
from pathlib import Path
import jsonschema
HERE = Path(__file__).resolve().parent.parent
man = json.load(open(HERE / "MANIFEST.json"))
jsonschema.validate(man, json.load(open("/root/.vp/MANIFEST.schema.json")))
es = json.load(open("/root/.vp/EVIDENCE.schema.json"))
bad = 0
for c in man["checks"]:
    p = HERE / c["evidence_file"]
    try:
        ev = json.load(open(p))
        jsonschema.validate(ev, es)
        cov = ev["coverage"]
        assert ev["property_id"] == c["property_id"]
        assert cov["obligations"] == cov["discharged"], "obligations != discharged"
        print("ok  %s level=%s tier=%s thm=%d eval=%d nontrivial=%d" % (c["property_id"], ev["level"], ev["tier"],
              cov["discharged"], cov.get("evaluations", 0), cov.get("distinct_nontrivial", 0)))
    except Exception as e:  # noqa
        bad += 1
        print("BAD %s: %s" % (c["property_id"], str(e)[:200]))
sys.exit(1 if bad else 0)
