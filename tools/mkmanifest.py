#!/usr/bin/env python3
"""Writes /verif/MANIFEST.json from tools/manifest.d/Cxx.json (one file per claimed property)
and validates it against the schema when jsonschema is available."""
import json
import sys
from pathlib import Path

HERE = Path(__file__).resolve().parent.parent
entries = {p.stem: json.loads(p.read_text()) for p in sorted((HERE / "tools" / "manifest.d").glob("C*.json"))}
props = [json.loads(l)["id"] for l in (HERE / "properties.jsonl").read_text().splitlines() if l.strip()]

checks, na = [], []
for pid in props:
    e = entries.get(pid)
    if e is None or e.get("not_applicable"):
        na.append(dict(property_id=pid, reason=(e or {}).get(
            "not_applicable", "check not built yet in this session; the design (DESIGN.md §5) applies the technique to it")))
        continue
    checks.append(dict(
        property_id=pid,
        quick_cmd="./check %s --tier quick" % pid,
        thorough_cmd="./check %s --tier thorough" % pid,
        evidence_file="evidence/%s.json" % pid,
        replay_cmd_template="./check %s --replay {path}" % pid,
        engine="lean4-proof+correspondence",
        level_claimed=dict(category="proof", text=e["level_text"], design_ref=e.get("design_ref", "DESIGN.md §5 " + pid)),
        level_note=e["level_note"],
        technique=e.get("technique", "Lean 4 theorems over an executable model + model/implementation correspondence"),
    ))

manifest = dict(
    version=1,
    setup_cmd="./tools/setup.sh",
    hooks=dict(
        guard="PERIODICTABLE_VERIF",
        enable="none needed: the harness imports /repo in place, patches module attributes from its own process and uses fork for fresh-interpreter histories; the variable is set by the harness but no source line reads it",
        baseline_off_cmd="cd /repo && /venv/bin/python -m pytest -ra -q -p no:cacheprovider --timeout=900 --continue-on-collection-errors",
        source_commits=[],
        add_only=True,
    ),
    engines=[dict(
        name="lean4-proof+correspondence",
        path="lean/ (model, proofs, properties, driver) + harness/ptv/ (translator, correspondence, oracles)",
        serves_properties=[c["property_id"] for c in checks],
        kind_free_text="Lean 4.33 theorems about an executable model; model tied to /repo on every run by (a) a translator "
                       "that regenerates data/configuration modules from the source literals and (b) a differential "
                       "correspondence between the compiled model driver and the real code",
    )],
    checks=checks,
    notes="See DESIGN.md.  known_findings.json lists recorded defects (known) and repaired ones (fixed).",
    not_applicable=na,
)
(HERE / "MANIFEST.json").write_text(json.dumps(manifest, indent=1) + "\n")
try:
    import jsonschema
    jsonschema.validate(manifest, json.load(open("/root/.vp/MANIFEST.schema.json")))
    print("MANIFEST.json valid: %d checks, %d not_applicable" % (len(checks), len(na)))
except ImportError:
    print("MANIFEST.json written (jsonschema not available to validate)")
