#!/bin/sh
# tools/runall.sh [tier] [seeds…] – run every claimed check; prints one line each
HERE="$(cd "$(dirname "$0")/.." && pwd)"; cd "$HERE"
TIER="${1:-quick}"; shift
SEEDS="${*:-0}"
for p in $(python3 -c "import json;print(' '.join(c['property_id'] for c in json.load(open('MANIFEST.json'))['checks']))"); do
  for s in $SEEDS; do
    out=$(VERIF_SEED=$s ./check "$p" --tier "$TIER" 2>&1); rc=$?
    echo "exit=$rc $(echo "$out" | tail -1)"
    echo "$out" | grep -E "VIOLATION|KNOWN-FINDING|INFRA" 
  done
done
