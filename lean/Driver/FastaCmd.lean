import Driver.Proto
import PtVerif.Model.Fasta
import Std.Data.HashMap
/-! Driver sub-command `fasta`: biomolecule sequences and FASTA reading (C18) at `Float`.

Strings cross the protocol as the hex digits of their UTF-8 bytes (`-` = empty string). -/
namespace Driver.FastaCmd
open PtModel PtModel.Fasta PtNum Driver

structure St where
  mass : Std.HashMap (Nat × Nat) Float := {}
  me : Float := 0

def init : St := {}

def St.massFn (st : St) (z a : Nat) : Float := (st.mass.get? (z, a)).getD (0.0 / 0.0)
def St.am (st : St) : Atom → Float := atomMass st.massFn st.me

def unhex (s : String) : Option (List Char) :=
  if s = "-" then some [] else
  let cs := s.toList
  if cs.length % 2 ≠ 0 then none else
  let rec go : List Char → ByteArray → Option ByteArray
    | a :: b :: r, acc => do
        let x ← hexVal a; let y ← hexVal b
        go r (acc.push (UInt8.ofNat (x * 16 + y)))
    | [], acc => some acc
    | _, _ => none
  match go cs ByteArray.empty with
  | some bytes => (String.fromUTF8? bytes).map String.toList
  | none => none

def hexOf (cs : List Char) : String :=
  if cs.isEmpty then "-" else
  let bytes := (String.ofList cs).toUTF8
  String.join (bytes.toList.map fun b =>
    String.ofList [Nat.digitChar (b.toNat / 16), Nat.digitChar (b.toNat % 16)])

def tableOf (ty : String) : Option (Table Float) :=
  match ty with
  | "aa" => aaTable
  | "dna" => dnaTable
  | "rna" => rnaTable
  | _ => none

def typeName : SeqType → String
  | .aa => "aa" | .dna => "dna" | .rna => "rna"

def showRecs (rs : List (List Char × List Char)) : String :=
  "recs" ++ String.join (rs.map fun (n, s) => " " ++ hexOf n ++ " " ++ hexOf s)

def handle (st : St) : Toks → IO St
  | ["mass", z, a, m] =>
    match natTok z, natTok a, readF m with
    | some z, some a, some m => pure { st with mass := st.mass.insert (z, a) m }
    | _, _, _ => do reply "ERR bad-op"; pure st
  | ["me", m] =>
    match readF m with
    | some m => pure { st with me := m }
    | none => do reply "ERR bad-op"; pure st
  | ["seq", ty, hx] => do
    match tableOf ty, unhex hx with
    | some t, some s =>
      match sequence st.am t s with
      | some m =>
        reply s!"ok {showF m.vol} {showF m.charge} {showF m.mass} {showF m.dmass} {showF m.density} | {showItems m.labile} | {showItems m.natural}"
      | none => reply "ERR KeyError"
    | _, _ => reply "ERR bad-op"
    pure st
  | ["code", ty, hx] => do
    match tableOf ty, unhex hx with
    | some t, some [c] =>
      match t.find c with
      | some r => reply s!"ok {showF r.vol} {showF r.charge} | {showItems r.struct}"
      | none => reply "ERR KeyError"
    | _, _ => reply "ERR bad-op"
    pure st
  | ["codes", ty] => do
    match tableOf ty with
    | some t => reply ("codes " ++ hexOf (t.map (·.1)))
    | none => reply "ERR bad-op"
    pure st
  | ["formula", hx] => do
    match unhex hx with
    | some s =>
      match dispatch s with
      | .seq t rest => reply s!"seq {typeName t} {hexOf rest}"
      | .chem _ => reply "chem"
    | none => reply "ERR bad-op"
    pure st
  | ["fasta", hx] => do
    match unhex hx with
    | some text => reply (showRecs (readFasta (splitLines text)))
    | none => reply "ERR bad-op"
    pure st
  | "lines" :: hxs => do
    match hxs.mapM unhex with
    | some ls => reply (showRecs (readFasta ls))
    | none => reply "ERR bad-op"
    pure st
  | ["ftype", fn, ty] => do
    match unhex fn, (if ty = "none" then some none else (unhex ty).map some) with
    | some f, some t => reply (hexOf (guessType f t))
    | _, _ => reply "ERR bad-op"
    pure st
  | _ => do reply "ERR bad-op"; pure st

end Driver.FastaCmd
