import Driver.Proto
/-! Driver sub-command `fasta` (stub – filled in by its cluster). -/
namespace Driver.FastaCmd
open Driver

structure St where
  dummy : Unit := ()

def init : St := {}

def handle (st : St) : Toks → IO St
  | _ => do reply "ERR bad-op"; pure st

end Driver.FastaCmd
