import Driver.Proto
import PtVerif.Model.Neutron
import PtVerif.Model.NeutronD2O
import Std.Data.HashMap
/-! Driver sub-command `neutron`: the neutron models (C03, C04, C16, C17) at `Float`.

Table lines (no reply): `me f` · `mass z a f` · `rec z a bc absorption total nd` ·
`tab z a n (λ re im)*`.  Every other line gets exactly one `R …` reply. -/
namespace Driver.NeutronCmd
open PtModel PtModel.Neutron PtNum Driver

structure St where
  mass : Std.HashMap (Nat × Nat) Float := {}
  recs : Std.HashMap (Nat × Nat) (NRec Float) := {}
  me : Float := 0

def init : St := {}

def St.tbl (st : St) : Tbl Float :=
  { recOf := fun z a => st.recs.get? (z, a)
    mass := fun z a => (st.mass.get? (z, a)).getD (0.0 / 0.0)
    me := st.me }

/-! a tiny token parser -/
abbrev P := StateT Toks Option

def tok : P String := fun ts => match ts with | t :: r => some (t, r) | [] => none
def pF : P Float := do let t ← tok; (readF t : Option Float)
def pN : P Nat := do let t ← tok; (natTok t : Option Nat)
def pI : P Int := do let t ← tok; (intTok t : Option Int)
def kw (s : String) : P Unit := do let t ← tok; if t == s then pure () else failure
def pEnd : P Unit := fun ts => match ts with | [] => some ((), []) | _ => none

def pRep {β : Type} (n : Nat) (p : P β) : P (List β) :=
  match n with
  | 0 => pure []
  | n + 1 => do let x ← p; let r ← pRep n p; pure (x :: r)

def pAtom : P Atom := do let z ← pN; let a ← pN; let q ← pI; pure ⟨z, a, q⟩
def pEntry : P (Atom × Float) := do let x ← pAtom; let c ← pF; pure (x, c)
/-- `n (z a q c)*n` -/
def pAtoms : P (List (Atom × Float)) := do let n ← pN; pRep n pEntry
def pNode : P (Float × Cx Float) := do let x ← pF; let re ← pF; let im ← pF; pure (x, (re, im))
def pNodes : P (List (Float × Cx Float)) := do let n ← pN; pRep n pNode
def pFloats : P (List Float) := do let n ← pN; pRep n pF
def pCompound : P (Compound Float) := do let d ← pF; let a ← pAtoms; pure ⟨a, d⟩

def showScat (s : Scat Float) : String :=
  " ".intercalate ([s.sldRe, s.sldIm, s.sldInc, s.coh, s.abs, s.inc, s.pen].map showF)

def showOutcome : Outcome Float → String
  | .missing => "missing"
  | .vacuum => "vacuum"
  | .ok s => "ok " ++ showScat s

def showNodes (l : List (Float × Cx Float)) : String :=
  s!"nodes {l.length} " ++ " ".intercalate (l.map fun n => s!"{showF n.1} {showF n.2.1} {showF n.2.2}")

def showSld3 : Option (Sld3 Float) → String
  | none => "none"
  | some (a, b, c) => s!"ok {showF a} {showF b} {showF c}"

def showCompound (c : Compound Float) : String :=
  s!"cmp {showF c.density} {c.atoms.length} " ++ showAList c.atoms

/-- run a parser on the rest of the line and reply with its result -/
def answer (st : St) (ts : Toks) (p : P String) : IO St := do
  match (do let r ← p; pEnd; pure r).run ts with
  | some (s, _) => reply s
  | none => reply "ERR bad-op"
  pure st

def handle (st : St) : Toks → IO St
  | ["reset"] => pure {}
  | ["me", m] =>
    match readF m with
    | some m => pure { st with me := m }
    | none => do reply "ERR bad-op"; pure st
  | ["mass", z, a, m] =>
    match natTok z, natTok a, readF m with
    | some z, some a, some m => pure { st with mass := st.mass.insert (z, a) m }
    | _, _, _ => do reply "ERR bad-op"; pure st
  | "rec" :: ts =>
    match (do let z ← pN; let a ← pN; let bc ← pF; let ab ← pF; let tot ← pF; let nd ← pF; pEnd
              pure (z, a, (⟨bc, ab, tot, nd, none⟩ : NRec Float))).run ts with
    | some ((z, a, r), _) => pure { st with recs := st.recs.insert (z, a) r }
    | none => do reply "ERR bad-op"; pure st
  | "tab" :: ts =>
    match (do let z ← pN; let a ← pN; let l ← pNodes; pEnd; pure (z, a, l)).run ts with
    | some ((z, a, l), _) =>
      match st.recs.get? (z, a), gridOfList l with
      | some r, some g => pure { st with recs := st.recs.insert (z, a) { r with table := some g } }
      | _, _ => do reply "ERR bad-op"; pure st
    | none => do reply "ERR bad-op"; pure st
  | "consts" :: ts => answer st ts do
      pure s!"consts {showF (PtGen.ABSORPTION_WAVELENGTH : Float)} {showF (PtGen.ENERGY_FACTOR : Float)} {showF (PtGen.VELOCITY_FACTOR : Float)} {showF (PtGen.FOUR_PI_100 : Float)} {showF (PtGen.avogadro_number : Float)}"
  | "conv" :: "wl" :: ts => answer st ts do let e ← pF; pure (showF (neutronWavelength e))
  | "conv" :: "en" :: ts => answer st ts do let w ← pF; pure (showF (neutronEnergy w))
  | "conv" :: "wv" :: ts => answer st ts do let v ← pF; pure (showF (neutronWavelengthFromVelocity v))
  | "interp" :: ts => answer st ts do
      let x ← pF; let l ← pNodes
      match gridOfList l with
      | some g => let y := interpClamp g x; pure s!"{showF y.1} {showF y.2}"
      | none => pure "ERR empty"
  | "edtab" :: ts => answer st ts do
      let n ← pN
      let rows ← pRep n (do let e ← pF; let re ← pF; let im ← pF; pure (e, re, im))
      pure (showNodes (edNodes rows))
  | "lunat" :: ts => answer st ts do
      let re ← pF; let im ← pF; let a5 ← pF; let a6 ← pF; let l ← pNodes
      pure (showNodes (luNatural (re, im) a5 a6 l))
  | "bcc" :: ts => answer st ts do
      let z ← pN; let a ← pN
      match st.recs.get? (z, a) with
      | some r => pure s!"{showF r.bcComplex.1} {showF r.bcComplex.2}"
      | none => pure "missing"
  | "sbw" :: ts => answer st ts do
      let z ← pN; let a ← pN; let w ← pF
      match st.recs.get? (z, a) with
      | some r => let bs := scatteringByWavelength r w; pure s!"{showF bs.1.1} {showF bs.1.2} {showF bs.2}"
      | none => pure "missing"
  | "scat" :: ts => answer st ts do
      let d ← pF; let w ← pF; let ats ← pAtoms
      pure (showOutcome (neutronScattering st.tbl ats d w))
  | "scats" :: d :: w :: rest =>
    -- nested structure: `Items.atoms` (C02's model of `Formula.atoms`) then the calculation
    match readF d, readF w, readItems rest with
    | some d, some w, some (s, []) => do
      reply (showOutcome (neutronScattering st.tbl s.atoms d w)); pure st
    | _, _, _ => do reply "ERR bad-op"; pure st
  | "scate" :: ts => answer st ts do
      let d ← pF; let e ← pF; let ats ← pAtoms
      pure (showOutcome (neutronScatteringE st.tbl ats d e))
  | "scatd" :: ts => answer st ts do
      let d ← pF; let ats ← pAtoms
      pure (showOutcome (neutronScatteringDefault st.tbl ats d))
  | "scatv" :: ts => answer st ts do
      let d ← pF; let ws ← pFloats; let ats ← pAtoms
      match neutronScatteringV st.tbl ats d ws with
      | .missing => pure "missing"
      | .vacuum => pure "vacuum"
      | .ok l => pure (s!"okv {l.length} " ++ " ".intercalate (l.map showScat))
  | "atom" :: ts => answer st ts do
      let z ← pN; let a ← pN; let w ← pF
      match atomScattering st.tbl z a w with
      | some s => pure ("ok " ++ showScat s)
      | none => pure "missing"
  | "ndens" :: ts => answer st ts do let r ← pF; let m ← pF; pure (showF (numberDensityOf r m))
  | "isodens" :: ts => answer st ts do
      let r ← pF; let mi ← pF; let m ← pF; pure (showF (isotopeDensity r mi m))
  | "comp" :: ts => answer st ts do
      let d ← pF; let w ← pF; let wts ← pFloats; let k ← pN; let ms ← pRep k pAtoms
      match compositeSld st.tbl ms w wts d with
      | .missing => pure "missing"
      | .zeros => pure "zeros"
      | .ok a b c => pure s!"ok {showF a} {showF b} {showF c}"
  | "compv" :: ts => answer st ts do
      let d ← pF; let ws ← pFloats; let wts ← pFloats; let k ← pN; let ms ← pRep k pAtoms
      match compositeSldV st.tbl ms ws wts d with
      | .missing => pure "missing"
      | .zeros => pure "zeros"
      | .ok l =>
        pure (s!"okv {l.length} " ++ " ".intercalate (l.map fun (a, b, c) => s!"{showF a} {showF b} {showF c}"))
  | "replace" :: ts => answer st ts do
      let s ← pAtom; let t ← pAtom; let p ← pF; let c ← pCompound
      pure (showCompound (replace st.tbl.atomMass c s t p))
  | "replace2" :: ts => answer st ts do
      let d ← pF; let c ← pCompound
      pure (showCompound (substituted st.tbl.atomMass c d))
  | "water" :: ts => answer st ts do
      let h ← pAtom; let nd ← pF
      pure (showCompound (water st.tbl h nd))
  | "d2oslds" :: ts => answer st ts do
      let w ← pF; let c ← pCompound
      match d2oSlds st.tbl c w with
      | none => pure "none"
      | some (a, b, h, d) =>
        pure ("ok " ++ " ".intercalate ([a, b, h, d].map fun (x, y, z) => s!"{showF x} {showF y} {showF z}"))
  | "d2osld" :: ts => answer st ts do
      let w ← pF; let vf ← pF; let f ← pF; let c ← pCompound
      pure (showSld3 (d2oSld st.tbl c w vf f))
  | "d2omatch" :: ts => answer st ts do
      let w ← pF; let c ← pCompound
      match d2oMatch st.tbl c w with
      | none => pure "none"
      | some (f, s) => pure s!"ok {showF f} {showF s}"
  | "moldens" :: ts => answer st ts do let m ← pF; let v ← pF; pure (showF (moleculeDensity m v))
  | "mol" :: ts => answer st ts do
      let c ← pCompound
      match molecule st.tbl c with
      | none => pure "none"
      | some m => pure s!"ok {showF m.sld} {showF m.dsld} {showF m.d2oMatch}"
  | "mold2o" :: ts => answer st ts do
      let vf ← pF; let f ← pF; let c ← pCompound
      match moleculeD2Osld st.tbl c vf f with
      | none => pure "none"
      | some x => pure s!"ok {showF x}"
  | _ => do reply "ERR bad-op"; pure st

end Driver.NeutronCmd
