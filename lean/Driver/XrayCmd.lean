import Driver.Proto
import PtVerif.Model.Xray
import PtVerif.Generated.F0Table
import PtVerif.Generated.ElementBase
import Std.Data.HashMap
/-! Driver sub-command `xray`: scattering factors, SLD, refraction, mirror, f0 (C05) at `Float`.

The `.nff` tables are streamed in (`row z eV f1 f2` … `load z`), not compiled in. -/
namespace Driver.XrayCmd
open PtModel PtModel.Xray PtNum Driver

structure St where
  raw : Std.HashMap Nat (List (Float × Float × Float)) := {}
  tables : Std.HashMap Nat (List (Node Float)) := {}
  /-- `f1Nodes t`, `f2Nodes t` of each loaded table, computed once (same lists that
      `scatteringFactors t e` maps out on every call) -/
  nodes : Std.HashMap Nat (List (Float × Option Float) × List (Float × Option Float)) := {}
  mass : Std.HashMap (Nat × Nat) Float := {}
  nd : Std.HashMap Nat Float := {}
  me : Float := 0

def init : St := {}

def St.massFn (st : St) (z a : Nat) : Float := (st.mass.get? (z, a)).getD (0.0 / 0.0)
def St.am (st : St) : Atom → Float := atomMass st.massFn st.me

def showO : Option Float → String
  | some v => showF v
  | none => "nan"

/-- numpy's principal complex square root (re ≥ 0), cancellation-free form -/
def csqrtF (z : Float × Float) : Float × Float :=
  let (a, b) := z
  let r := Float.sqrt (a * a + b * b)
  if a == 0 && b == 0 then (0, b)
  else if a >= 0 then
    let t := Float.sqrt ((r + a) / 2)
    (t, b / (2 * t))
  else
    let t := Float.sqrt ((r - a) / 2)
    (Float.abs b / (2 * t), if b < 0 then -t else t)

/-- energy of a request: `e v` = energy given, `w v` = wavelength given -/
def energyOf (kind : String) (v : Float) : Option Float :=
  match kind with
  | "e" => some v
  | "w" => some (xrayEnergy v)
  | _ => none

/-- `scatteringFactors t e` with the node lists cached at load time -/
def St.sfz (st : St) (z : Nat) (e : Float) : Option (Option Float × Option Float) :=
  (st.nodes.get? z).map fun n => (interpNaN n.1 e, interpNaN n.2 e)

def St.sf (st : St) (e : Float) (a : Atom) : Option (Option Float × Option Float) := st.sfz a.z e

def symbolOf (z : Nat) : Option String :=
  (PtGen.elementBase.find? (fun r => r.1 = z)).map fun r => r.2.2.1

def f0Lookup (smbl : String) : Option PtGen.F0Row := PtGen.f0Rows.find? fun r => r.sym = smbl

def rowCoeffsF (r : PtGen.F0Row) : List (Float × Float) × Float :=
  rowCoeffs PtGen.f0Scale r.a r.b r.c

def optF (s : String) : Option (Option Float) :=
  if s = "none" then some none else (readF s).map some

def showErr : Err → String
  | .noTable => "ERR noTable"
  | .noDensity => "ERR noDensity"
  | .noEnergy => "ERR noEnergy"

/-- `formula(compound, natural_density=nd).density`: the natural partner of an atom is its
    element with the ion charge kept (`formulas._natural_atom`) -/
def densityOfNaturalF (st : St) (atoms : List (Atom × Float)) (nd : Float) : Float :=
  densityOfNatural st.am (fun a => st.am ⟨a.z, 0, a.q⟩) atoms nd

def handle (st : St) : Toks → IO St
  | ["row", z, ev, f1, f2] =>
    match natTok z, readF ev, readF f1, readF f2 with
    | some z, some ev, some f1, some f2 =>
      pure { st with raw := st.raw.insert z ((ev, f1, f2) :: (st.raw.get? z).getD []) }
    | _, _, _, _ => do reply "ERR bad-op"; pure st
  | ["load", z] =>
    match natTok z with
    | some z => do
      let rows := ((st.raw.get? z).getD []).reverse
      let t := loadTable rows
      let inc := strictlyIncreasing t
      let rawInc := strictlyIncreasing (loadTableUnsorted rows)
      reply s!"ok {t.length} {if inc then 1 else 0} {if rawInc then 1 else 0}"
      pure { st with tables := st.tables.insert z t, nodes := st.nodes.insert z (f1Nodes t, f2Nodes t),
                     raw := st.raw.erase z }
    | none => do reply "ERR bad-op"; pure st
  | ["mass", z, a, m] =>
    match natTok z, natTok a, readF m with
    | some z, some a, some m => pure { st with mass := st.mass.insert (z, a) m }
    | _, _, _ => do reply "ERR bad-op"; pure st
  | ["nd", z, v] =>
    match natTok z, readF v with
    | some z, some v => pure { st with nd := st.nd.insert z v }
    | _, _ => do reply "ERR bad-op"; pure st
  | ["me", m] =>
    match readF m with
    | some m => pure { st with me := m }
    | none => do reply "ERR bad-op"; pure st
  | ["sf", z, kind, v] => do
    match natTok z, readF v >>= energyOf kind with
    | some z, some e =>
      match st.sfz z e with
      | some (f1, f2) => reply s!"{showO f1} {showO f2}"
      | none => reply "notable"
    | _, _ => reply "ERR bad-op"
    pure st
  | ["e2w", v] => do
    match readF v with
    | some v => reply (showF (xrayWavelength v))
    | none => reply "ERR bad-op"
    pure st
  | ["w2e", v] => do
    match readF v with
    | some v => reply (showF (xrayEnergy v))
    | none => reply "ERR bad-op"
    pure st
  | "sld" :: dk :: d :: kind :: v :: rest => do
    match optF d, readF v >>= energyOf kind, readItems rest with
    | some d, some e, some (s, []) =>
      let atoms := s.atoms
      let dens := if dk = "n" then d.map (densityOfNaturalF st atoms) else d
      match xraySld st.am (st.sf e) atoms dens with
      | .ok (r, i) => reply s!"ok {showO r} {showO i}"
      | .error err => reply (showErr err)
    | _, _, _ => reply "ERR bad-op"
    pure st
  | ["esld", z, kind, v] => do
    match natTok z, readF v >>= energyOf kind with
    | some z, some e =>
      match st.sfz z e with
      | none => reply "none"
      | some sf =>
        match elementSld sf (st.nd.get? z) with
        | some (r, i) => reply s!"ok {showO r} {showO i}"
        | none => reply "none"
    | _, _ => reply "ERR bad-op"
    pure st
  | "ior" :: d :: kind :: v :: rest => do
    match optF d, readF v, readItems rest with
    | some d, some v, some (s, []) =>
      -- index_of_refraction: the wavelength is computed from energy=, the scattering factors are looked up
      -- at the energy given (at the converted wavelength's energy for wavelength=)
      let w := if kind = "e" then xrayWavelength v else v
      let e := if kind = "e" then v else xrayEnergy w
      match xraySld st.am (st.sf e) s.atoms d with
      | .ok sld =>
        match indexOfRefraction w sld with
        | some (re, im) => reply s!"ok {showF re} {showF im}"
        | none => reply "ok nan nan"
      | .error err => reply (showErr err)
    | _, _, _ => reply "ERR bad-op"
    pure st
  | "mirror" :: d :: kind :: v :: ang :: rough :: rest => do
    match optF d, readF v, readF ang, readF rough, readItems rest with
    | some d, some v, some ang, some rough, some (s, []) =>
      let w := if kind = "e" then xrayWavelength v else v
      let e := if kind = "e" then v else xrayEnergy w
      match xraySld st.am (st.sf e) s.atoms d with
      | .ok sld => reply ("ok " ++ showO (mirrorReflectivity csqrtF w ang rough (indexOfRefraction w sld)))
      | .error err => reply (showErr err)
    | _, _, _, _, _ => reply "ERR bad-op"
    pure st
  | ["f0", z, q, qq] => do
    match natTok z, intTok q, readF qq with
    | some z, some q, some qq =>
      match symbolOf z with
      | none => reply "ERR KeyError"
      | some sym =>
        match f0Lookup (String.ofList (resolveSymbol sym.toList (some q))) with
        | none => reply "ERR KeyError"
        | some r => let (ab, c) := rowCoeffsF r; reply ("ok " ++ showO (f0 ab c qq))
    | _, _, _ => reply "ERR bad-op"
    pure st
  | ["f0sym", sym, q, stol] => do
    let qo : Option (Option Int) := if q = "none" then some none else (intTok q).map some
    match qo, readF stol with
    | some qo, some stol =>
      let smbl := String.ofList (resolveSymbol sym.toList qo)
      match f0Lookup smbl with
      | none => reply s!"ERR KeyError {smbl}"
      | some r => let (ab, c) := rowCoeffsF r; reply ("ok " ++ showO (atstol ab c stol))
    | _, _ => reply "ERR bad-op"
    pure st
  | _ => do reply "ERR bad-op"; pure st

end Driver.XrayCmd
