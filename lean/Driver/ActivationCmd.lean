import Driver.Proto
import PtVerif.Model.Activation
import PtVerif.Generated.ActivationDat
/-! Driver sub-command `activation`: the activation model (C14, C15) at `Float`.

Requests (floats as 16 hex digits):
* `consts`                                    → `ok ln2 uCi nrows`
* `expm1 x`                                   → `ok expm1(x)`
* `row i`                                     → `ok z a fast reaction ab xs res th thp xsp resp` (generated table)
* `line <hex of the utf-8 bytes>`             → `skip` | `bad` | `ok …` (string-level reader of one file line)
* `iso z a mass fluence cd fast T n t1 … tn`  → `ok (k amp v1 … vn)*` | `err <Exception>`   (`activity()`)
* `calc mass fluence cd fast T n t1 … tn p (frac m (z a share|-)^m)^p` → `ok` | `err …`  (`calculate_activation`; tally kept)
* `removal` / `table`                         → `ok (k amp v…)*` of the kept tally
* `decay target`                              → `ok t` | `err <Exception>`  (`decay_time` on the kept tally)
* `decaydata target n (ia thalf)^n`           → same on explicit data (products given directly)

`amp` is a conditioning estimate of the row's formula at that input (≥ 1; how much a one-ulp
change of an intermediate can move the result).  It is used by the harness only to widen the
comparison tolerance where the code subtracts nearly equal numbers. -/
namespace Driver.ActivationCmd
open Driver PtNum PtModel.Activation

abbrev F := Float

def consts : Consts F := PtGen.ActivationDat.consts

def tableArr : Array DRow := PtGen.ActivationDat.table.toArray

def rowsOf (z a : Nat) : List (Nat × Row F) := rowsOfIsotope PtGen.ActivationDat.table z a

def thalfOf (k : Nat) : F :=
  match tableArr[k]? with
  | some r => r.thalf.toNum
  | none => 0

structure St where
  tally : Tally F := {}
  env : Env F := ⟨0, 0, 0⟩
  exposure : F := 0

def init : St := {}

def floats (ts : Toks) : Option (List F) := ts.mapM readF

def showFs (xs : List F) : String := " ".intercalate (xs.map showF)

def showReaction : Reaction → String
  | .act => "act" | .b => "b" | .twoN => "2n"

def showRow (r : DRow) : String :=
  let x : Row F := r.toRow
  s!"ok {r.z} {r.a} {if r.fast then "y" else "n"} {showReaction r.reaction} " ++
    showFs [x.abundance, x.thermalXS, x.resonance, x.thalf, x.thalfParent, x.thermalXSParent, x.resonanceParent]

def ratio (x y : F) : F := if y == 0 then 1e300 else Float.abs x / Float.abs y
def fmax (x y : F) : F := if x < y then y else x

/-- conditioning estimate of one row's formula (Float only; not part of the model) -/
def amp (r : Row F) (env : Env F) (T : F) : F :=
  let xs := initialXS env r
  let flux := fluxOf env r
  let lam := consts.ln2 / r.thalf
  match r.reaction with
  | .b =>
    let plam := consts.ln2 / r.thalfParent
    let t1 := lam * ActNum.expm1 (-plam * T)
    let t2 := plam * ActNum.expm1 (-lam * T)
    1 + ratio (Float.abs t1 + Float.abs t2) (t1 - t2) + ratio (fmax plam lam) (plam - lam)
  | .twoN =>
    let plam := consts.ln2 / r.thalfParent
    let exs := effectiveXS env r
    let l2 := flux * xs * 1e-24 * 3.6e3
    let pa := env.fluence * 1e-24 * 3.6e3 * exs + plam
    let t1 := Float.exp (-l2 * T) / twoNDen1 l2 pa lam
    let t2 := Float.exp (-pa * T) / twoNDen2 l2 pa lam
    let t3 := Float.exp (-lam * T) / twoNDen3 l2 pa lam
    1 + ratio (Float.abs t1 + Float.abs t2 + Float.abs t3) (t1 + t2 + t3)
      + ratio pa (pa - plam) + ratio (fmax pa l2) (pa - l2) + ratio (fmax lam l2) (lam - l2)
      + ratio (fmax lam pa) (lam - pa)
  | .act =>
    let exs := effectiveXS env r
    let U := actU flux xs T
    let V := actV lam env.fluence exs T
    let x := Float.abs (V - U)
    1 + fmax U V * (if x < 1 then 1 else 1 / x)

def hexVal2 (a b : Char) : Option Char := do
  let x ← hexVal a
  let y ← hexVal b
  pure (Char.ofNat (x * 16 + y))

def unhex : List Char → Option (List Char)
  | [] => some []
  | a :: b :: r => do
    let c ← hexVal2 a b
    let rest ← unhex r
    pure (c :: rest)
  | _ => none

def showErr (e : Err) : String := "err " ++ e.name

def readParts : Nat → Toks → Option (List (Part F) × Toks)
  | 0, ts => some ([], ts)
  | p + 1, frac :: m :: ts => do
    let frac ← readF frac
    let m ← natTok m
    let rec isos : Nat → Toks → Option (List (IsoPart F) × Toks)
      | 0, ts => some ([], ts)
      | k + 1, z :: a :: sh :: ts => do
        let z ← natTok z
        let a ← natTok a
        let share ← if sh == "-" then some none else (readF sh).map some
        let (rest, ts') ← isos k ts
        pure (⟨z, a, share⟩ :: rest, ts')
      | _, _ => none
    let (is, ts1) ← isos m ts
    let (rest, ts2) ← readParts p ts1
    pure (⟨frac, is⟩ :: rest, ts2)
  | _, _ => none

def readPairs : Nat → Toks → Option (List (F × F))
  | 0, [] => some []
  | n + 1, a :: b :: ts => do
    let a ← readF a
    let b ← readF b
    let rest ← readPairs n ts
    pure ((a, b) :: rest)
  | _, _ => none

def handle (st : St) : Toks → IO St
  | ["consts"] => do
    reply s!"ok {showF consts.ln2} {showF consts.uCi} {tableArr.size}"; pure st
  | ["expm1", x] => do
    match readF x with
    | some x => reply ("ok " ++ showF (ActNum.expm1 x))
    | none => reply "ERR bad-op"
    pure st
  | ["row", i] => do
    match natTok i >>= (tableArr[·]?) with
    | some r => reply (showRow r)
    | none => reply "ERR no-row"
    pure st
  | ["line", h] => do
    match unhex h.toList with
    | some cs =>
      match parseLine cs with
      | .skipped => reply "skip"
      | .unreadable => reply "bad"
      | .row r => reply (showRow r)
    | none => reply "ERR bad-hex"
    pure st
  | ["line"] => do reply "skip"; pure st
  | "iso" :: z :: a :: mass :: fl :: cd :: fr :: t :: n :: rests => do
    match natTok z, natTok a, floats [mass, fl, cd, fr, t], natTok n, floats rests with
    | some z, some a, some [mass, fl, cd, fr, t], some n, some rests =>
      if rests.length != n then reply "ERR bad-count" else
      let env : Env F := ⟨fl, cd, fr⟩
      let rows := rowsOf z a
      match activity consts rows mass env t rests with
      | .error e => reply (showErr e)
      | .ok out =>
        let body := out.map fun (k, vs) =>
          let r : Row F := (tableArr[k]!).toRow
          s!"{k} {showF (amp r env t)} {showFs vs}"
        reply (" ".intercalate ("ok" :: body))
    | _, _, _, _, _ => reply "ERR bad-op"
    pure st
  | "calc" :: mass :: fl :: cd :: fr :: t :: n :: more => do
    match floats [mass, fl, cd, fr, t], natTok n with
    | some [mass, fl, cd, fr, t], some n =>
      match floats (more.take n), more.drop n with
      | some rests, p :: ptoks =>
        match natTok p >>= (readParts · ptoks) with
        | some (parts, []) =>
          match calcActivation consts rowsOf mass ⟨fl, cd, fr⟩ t rests parts with
          | .error e => reply (showErr e); pure st
          | .ok tally => reply "ok"; pure { st with tally := tally, env := ⟨fl, cd, fr⟩, exposure := t }
        | _ => reply "ERR bad-parts"; pure st
      | _, _ => reply "ERR bad-op"; pure st
    | _, _ => reply "ERR bad-op"; pure st
  | ["removal"] => do
    reply (" ".intercalate ("ok" :: st.tally.removal.map fun (k, v) =>
      s!"{k} {showF (amp (tableArr[k]!).toRow st.env st.exposure)} {showF v}")); pure st
  | ["table"] => do
    reply (" ".intercalate ("ok" :: st.tally.table.map fun (k, vs) =>
      s!"{k} {showF (amp (tableArr[k]!).toRow st.env st.exposure)} {showFs vs}")); pure st
  | ["decay", target] => do
    match readF target with
    | some target =>
      match decayTime consts thalfOf st.tally.removal target with
      | .error e => reply (showErr e)
      | .ok t => reply ("ok " ++ showF t)
    | none => reply "ERR bad-op"
    pure st
  | "decaydata" :: target :: n :: more => do
    match readF target, natTok n >>= (readPairs · more) with
    | some target, some pairs =>
      -- products given directly as (activity at removal, half-life): same path as `decay`
      let removal := pairs.zipIdx.map fun ((ia, _), i) => (i, ia)
      let th := fun k => match pairs[k]? with | some (_, th) => th | none => 0
      match decayTime consts th removal target with
      | .error e => reply (showErr e)
      | .ok t => reply ("ok " ++ showF t)
    | _, _ => reply "ERR bad-op"
    pure st
  | _ => do reply "ERR bad-op"; pure st

end Driver.ActivationCmd
