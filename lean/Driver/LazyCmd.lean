import Driver.Proto
import PtVerif.Model.Lazy
import PtVerif.Generated.LazyConfig
import Std.Data.HashSet
/-! Driver sub-command `lazy`: the lazy-loading machine (C09, C10) on `PtGen.lazyConfig`.

Event text (requests and generated histories use the same syntax):
  `read t chain p` | `has t chain p` | `init m t` | `import m` | `assign t chain p v` | `mutate t chain p n`
  chain = node(`/`node)*, node = `E|I|N` `:` atom `:` rows, rows = `-` or `i.k` joined by `+`.
Requests: `reset`, an event (reply: what it served), `canon <event>` (what a fresh interpreter
serves), `atom <chain>` (adds a chain to the univ used by `closure`), `closure g T` (one shortest
history per reachable state × event of group g with private tables 1..T; replies `H ev;ev;…` lines
then `end n`). -/
namespace Driver.LazyCmd
open Driver PtLazy

def cfg : Config := PtGen.lazyConfig

structure St where
  s : State := cfg.init
  univ : Array (List Node) := #[]

def init : St := {}

def clsTok : String → Option Cls
  | "E" => some .element | "I" => some .isotope | "N" => some .ion | _ => none

def showCls : Cls → String
  | .element => "E" | .isotope => "I" | .ion => "N"

def rowsTok (t : String) : Option (List (Nat × Nat)) :=
  if t = "-" then some [] else
    (t.splitOn "+").foldr (fun p acc =>
      match acc, p.splitOn "." with
      | some l, [i, k] => match i.toNat?, k.toNat? with
        | some i, some k => some ((i, k) :: l)
        | _, _ => none
      | _, _ => none) (some [])

def nodeTok (t : String) : Option Node :=
  match t.splitOn ":" with
  | [c, a, r] => do
    let c ← clsTok c; let a ← a.toNat?; let r ← rowsTok r
    some ⟨c, a, r⟩
  | _ => none

def chainTok (t : String) : Option (List Node) :=
  (t.splitOn "/").foldr (fun p acc => match acc, nodeTok p with
    | some l, some n => some (n :: l)
    | _, _ => none) (some [])

def showRows (r : List (Nat × Nat)) : String :=
  if r.isEmpty then "-" else "+".intercalate (r.map fun (i, k) => s!"{i}.{k}")

def showChain (c : List Node) : String :=
  "/".intercalate (c.map fun n => s!"{showCls n.cls}:{n.atom}:{showRows n.rows}")

def eventTok : Toks → Option Event
  | ["read", t, c, p] => do some (.read (← t.toNat?) (← chainTok c) (← p.toNat?))
  | ["has", t, c, p] => do some (.has (← t.toNat?) (← chainTok c) (← p.toNat?))
  | ["init", m, t] => do some (.init (← m.toNat?) (← t.toNat?))
  | ["import", m] => do some (.importMod (← m.toNat?))
  | ["assign", t, c, p, v] => do some (.assign (← t.toNat?) (← chainTok c) (← p.toNat?) (← v.toNat?))
  | ["mutate", t, c, p, n] => do some (.mutate (← t.toNat?) (← chainTok c) (← p.toNat?) (← n.toNat?))
  | _ => none

def showEvent : Event → String
  | .read t c p => s!"read {t} {showChain c} {p}"
  | .has t c p => s!"has {t} {showChain c} {p}"
  | .init m t => s!"init {m} {t}"
  | .importMod m => s!"import {m}"
  | .assign t c p v => s!"assign {t} {showChain c} {p} {v}"
  | .mutate t c p n => s!"mutate {t} {showChain c} {p} {n}"

def showMarks (l : List Nat) : String := "[" ++ ",".intercalate (l.map toString) ++ "]"

def showServed : Served → String
  | .data i k m => s!"data {i} {k} {showMarks m}"
  | .user v => s!"user {v}"
  | .dflt i k m => s!"dflt {i} {k} {showMarks m}"
  | .computed i k pos m => s!"computed {i} {k} {pos} {showMarks m}"
  | .attrError => "attrError"
  | .otherError => "otherError"
  | .bool b => s!"bool {b}"
  | .done => "done"
  | .outOfFuel => "outOfFuel"

/-- the events of group gi over the univ, for tables 0..T -/
def groupEvents (u : Array (List Node)) (gi : Nat) (T : Nat) : List Event :=
  match cfg.groups[gi]? with
  | none => []
  | some g =>
    let tables := List.range (T + 1)
    let chains := u.toList
    let reads := tables.flatMap fun t => chains.flatMap fun c => g.attrs.flatMap fun p =>
      [Event.read t c p, Event.has t c p]
    let inits := tables.flatMap fun t => g.inits.map fun (m, _) => Event.init m t
    let imports := (cfg.importReads.filter fun (_, rs) => rs.any fun (_, p) => g.attrs.contains p).map
      fun (m, _) => Event.importMod m
    let writes := (tables.filter (· ≠ 0)).flatMap fun t => chains.flatMap fun c => g.attrs.flatMap fun p =>
      [Event.assign t c p 1, Event.mutate t c p 1]
    reads ++ inits ++ imports ++ writes

/-- breadth-first closure over the *control* state (class dictionaries, properties, executed
    effects; the log of user values is not part of the key); returns (state count, histories: one per reachable state × event) -/
partial def closure (events : List Event) (limit : Nat) : Nat × List (List Event) := Id.run do
  let mut seen : Std.HashSet (List GS) := {}
  let mut queue : Array (State × List Event) := #[(cfg.init, [])]
  seen := seen.insert cfg.init.gs
  let mut hist : List (List Event) := []
  let mut qi := 0
  while qi < queue.size && seen.size < limit do
    let (s, path) := queue[qi]?.getD (cfg.init, [])
    qi := qi + 1
    for e in events do
      hist := (e :: path) :: hist
      let s' := (step cfg s e).1
      if !seen.contains s'.gs then
        seen := seen.insert s'.gs
        queue := queue.push (s', e :: path)
  return (seen.size, hist)

def handle (st : St) : Toks → IO St
  | ["reset"] => pure { st with s := cfg.init }
  | ["atom", c] => match chainTok c with
    | some c => pure { st with univ := st.univ.push c }
    | none => do reply "ERR bad-chain"; pure st
  | "canon" :: rest => match eventTok rest with
    | some e => do reply (showServed (canon cfg e)); pure st
    | none => do reply "ERR bad-event"; pure st
  | ["closure", g, t, limit] => match g.toNat?, t.toNat?, limit.toNat? with
    | some g, some t, some limit => do
      let (n, hs) := closure (groupEvents st.univ g t) limit
      for h in hs do
        reply ("H " ++ ";".intercalate (h.reverse.map showEvent))
      reply s!"end {n}"
      pure st
    | _, _, _ => do reply "ERR bad-op"; pure st
  | toks => match eventTok toks with
    | some e => do
      let (s', v) := step cfg st.s e
      reply (showServed v)
      pure { st with s := s' }
    | none => do reply "ERR bad-op"; pure st

end Driver.LazyCmd
