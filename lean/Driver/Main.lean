import Driver.Proto
import Driver.FormulaCmd
import Driver.GrammarCmd
import Driver.LoaderCmd
import Driver.CoreCmd
import Driver.LazyCmd
import Driver.NeutronCmd
import Driver.XrayCmd
import Driver.ActivationCmd
import Driver.FastaCmd
/-! `ptdriver <sub-command>`: one operation per input line, one `R …` line per reply.
Each sub-command module exports `St`, `init : St` and `handle : St → Toks → IO St`. -/
open Driver

partial def loop {σ : Type} (h : IO.FS.Stream) (step : σ → Toks → IO σ) (st : σ) : IO Unit := do
  let line ← h.getLine
  if line.isEmpty then return ()
  let st' ← step st (tokens line)
  loop h step st'

def main (args : List String) : IO UInt32 := do
  let stdin ← IO.getStdin
  match args with
  | ["formula"] => loop stdin FormulaCmd.handle FormulaCmd.init; pure 0
  | ["grammar"] => loop stdin GrammarCmd.handle GrammarCmd.init; pure 0
  | ["loader"] => loop stdin LoaderCmd.handle LoaderCmd.init; pure 0
  | ["core"] => loop stdin CoreCmd.handle CoreCmd.init; pure 0
  | ["lazy"] => loop stdin LazyCmd.handle LazyCmd.init; pure 0
  | ["neutron"] => loop stdin NeutronCmd.handle NeutronCmd.init; pure 0
  | ["xray"] => loop stdin XrayCmd.handle XrayCmd.init; pure 0
  | ["activation"] => loop stdin ActivationCmd.handle ActivationCmd.init; pure 0
  | ["fasta"] => loop stdin FastaCmd.handle FastaCmd.init; pure 0
  | _ => IO.eprintln "usage: ptdriver <formula|grammar|loader|core|lazy|neutron|xray|activation|fasta>"; pure 2
