import Driver.Proto
import Driver.FormulaCmd
/-! `ptdriver <sub-command>`: one operation per input line, one `R …` line per reply. -/
open Driver

partial def loop {σ : Type} (h : IO.FS.Stream) (step : σ → Toks → IO σ) (st : σ) : IO Unit := do
  let line ← h.getLine
  if line.isEmpty then return ()
  let st' ← step st (tokens line)
  loop h step st'

def main (args : List String) : IO UInt32 := do
  let stdin ← IO.getStdin
  match args with
  | ["formula"] => loop stdin FormulaCmd.handle {}; pure 0
  | _ => IO.eprintln "usage: ptdriver <formula|…>"; pure 2
