import Driver.Proto
import PtVerif.Model.Loaders
import PtVerif.Model.LoaderTables
import PtVerif.Generated.ElementBase
import PtVerif.Generated.Constants
import PtVerif.Generated.MassTables
import PtVerif.Generated.Density
import PtVerif.Model.LoadersNsf
import PtVerif.Generated.NsfTables
/-! Driver sub-command `loader`: the table loaders (C06, C07, C20) at `Float`.

Raw table text crosses the protocol hex-encoded (two digits per byte, one token), so that blanks,
tabs and newlines inside the tables survive the line/token protocol.

    mass_iso <hex> | mass_el <hex> | mass_ab <hex>     set the raw text of a mass table      (no reply)
    dens_clear | dens <symhex> <m> <e> | dens <symhex> N    `element_densities` entries       (no reply)
    mass_load              run `mass.init` + `density.init`      R ok | R ERR
    q_el <z>               R mass unc density number_density interatomic_distance
    q_iso <z> <a>          R exists mass unc abundance abundance_unc density
    q_isotopes <z>         R a1 a2 …
    mass_selfcheck         string-level parse of the raw text = Generated rows?   R ok n | R MISMATCH …
    pu <hex>               parse_uncertainty                      R value unc | R N N | R ERR

Numbers: 16 hex digits (bit pattern), `N` = None, `X` = the access raises. -/
namespace Driver.LoaderCmd
open Driver PtNum PtLoad

def hexNib (c : Char) : Option Nat := PtNum.hexVal c

partial def unhexGo : List Char → Array UInt8 → Option (Array UInt8)
  | [], acc => some acc
  | a :: b :: r, acc =>
    match hexNib a, hexNib b with
    | some x, some y => unhexGo r (acc.push (UInt8.ofNat (x * 16 + y)))
    | _, _ => none
  | _, _ => none

/-- hex token → text (UTF-8) -/
def unhex (s : String) : Option Str :=
  if s == "-" then some [] else
  match unhexGo s.toList #[] with
  | some bytes => (String.fromUTF8? (ByteArray.mk bytes)).map String.toList
  | none => none

structure St where
  isoText : Str := []
  elText : Str := []
  abText : Str := []
  densRows : List DensityRow := []
  mass : Option (MassState Float) := none
  dens : List (Nat × Option Float) := []
  nsfMain : Str := []
  nsfImag : Str := []
  ed : List EDTable := []
  nsf : Option (NsfState Float) := none

def init : St := {}

def showO : Option Float → String
  | some x => showF x
  | none => "N"

/-- `X` when the attribute does not exist / the access raises -/
def showOO : Option (Option Float) → String
  | some x => showO x
  | none => "X"

def na : Float := PtGen.avogadro_number

def elMassV (ms : MassState Float) (z : Nat) : Option (Option Float) :=
  (ms.elMassOf z).map fun vu => vu.map (·.1)
def elMassU (ms : MassState Float) (z : Nat) : Option (Option Float) :=
  (ms.elMassOf z).map fun vu => vu.map (·.2)
def isoMassV (ms : MassState Float) (z a : Nat) : Option (Option Float) :=
  (ms.isoMassOf z a).map fun vu => vu.map (·.1)
def isoMassU (ms : MassState Float) (z a : Nat) : Option (Option Float) :=
  (ms.isoMassOf z a).map fun vu => vu.map (·.2)

def qEl (st : St) (ms : MassState Float) (z : Nat) : String :=
  let m := elMassV ms z
  let rho := elDensity st.dens z
  let nd := elNumberDensity na rho m
  let dist := elInteratomicDistance na rho m
  s!"{showOO m} {showOO (elMassU ms z)} {showOO rho} {showOO nd} {showOO dist}"

def showX : Option Float → String
  | some x => showF x
  | none => "X"

def qIso (st : St) (ms : MassState Float) (z a : Nat) : String :=
  if !ms.hasIsotope z a then "0" else
  let ab := ms.isoAbOf z a
  let dens := isoDensity (elDensity st.dens z) (isoMassV ms z a) (elMassV ms z)
  s!"1 {showOO (isoMassV ms z a)} {showOO (isoMassU ms z a)} {showX (ab.map (·.1))} {showX (ab.map (·.2))} {showOO dens}"

def sameIso (a b : IsoRow) : Bool :=
  a.z == b.z && a.sym == b.sym && a.a == b.a && a.m.same b.m && a.avg.same b.avg
def sameEl (a b : ElRow) : Bool :=
  a.z == b.z && (match a.value, b.value with
    | none, none => true
    | some x, some y => x.same y
    | _, _ => false)
def sameAb : AbLine → AbLine → Bool
  | .header a, .header b => a == b
  | .entry a u, .entry b w => a == b && u.same w
  | _, _ => false

def firstDiff {β : Type} (same : β → β → Bool) : Nat → List β → List β → Option Nat
  | _, [], [] => none
  | i, x :: xs, y :: ys => if same x y then firstDiff same (i + 1) xs ys else some i
  | i, _, _ => some i

def massSelfcheck (st : St) : String :=
  match parseMassTables st.isoText st.elText st.abText with
  | none => "MISMATCH model-cannot-parse"
  | some t =>
    match firstDiff sameIso 0 t.iso PtGen.isoMassRows, firstDiff sameEl 0 t.el PtGen.elMassRows,
          firstDiff sameAb 0 t.ab PtGen.abLines with
    | none, none, none => s!"ok {t.iso.length + t.el.length + t.ab.length}"
    | some i, _, _ => s!"MISMATCH isotope_mass row {i}"
    | _, some i, _ => s!"MISMATCH element_mass row {i}"
    | _, _, some i => s!"MISMATCH isotope_abundance line {i}"

def sameDens (a b : DensityRow) : Bool :=
  a.sym == b.sym && (match a.value, b.value with
    | none, none => true
    | some x, some y => x.same y
    | _, _ => false)


/-! ### C07 -/

def efF : Float :=
  energyFactor PtGen.plancks_constant PtGen.electron_volt PtGen.neutron_mass PtGen.atomic_mass_constant

def nsfEnv (st : St) (ms : MassState Float) : NsfEnv Float :=
  { symOf := symOf, zOf := zOf
    nd := fun z => ((elNumberDensity na (elDensity st.dens z) (elMassV ms z)).getD none)
    hasIso := fun z a => ms.hasIsotope z a
    ab175 := (ms.isoAbOf 71 175).map (·.1)
    ab176 := (ms.isoAbOf 71 176).map (·.1)
    lam0 := PtGen.absorptionWavelength.toNum
    ef := efF }

def showRec (id : Nat) (r : NRec Float) : String :=
  let bcc := match r.bcc with
    | none => "N N"
    | some (re, im) => s!"{showF (re.getD (0.0 / 0.0))} {showF im}"
  let tl := match r.table with
    | none => "N"
    | some t => toString t.length
  s!"{id} {showO r.b_c} {showO r.bp} {showO r.bm} {showO r.coherent} {showO r.incoherent} {showO r.total} {showO r.absorption} {showO r.abundance} {if r.isE then 1 else 0} {bcc} {showO r.b_c_i} {showO r.bp_i} {showO r.bm_i} {if r.hasSld then 1 else 0} {tl}"

def hexOfStr (s : String) : String :=
  if s.isEmpty then "-" else
  String.join (s.toUTF8.toList.map fun b =>
    String.ofList [Nat.digitChar (b.toNat / 16), Nat.digitChar (b.toNat % 16)])

def readDecs : Toks → Option (List Dec)
  | [] => some []
  | m :: e :: r => match intTok m, natTok e, readDecs r with
    | some m, some e, some l => some (⟨m, e⟩ :: l)
    | _, _, _ => none
  | _ => none

def triples : List Dec → List (Dec × Dec × Dec)
  | a :: b :: c :: r => (a, b, c) :: triples r
  | _ => []

def uncValSame (a b : Unc) : Bool :=
  match a.val (α := Rat), b.val (α := Rat) with
  | none, none => true
  | some x, some y => x == y
  | _, _ => false

def sameNsf (a b : NsfRow) : Bool :=
  a.z == b.z && a.sym == b.sym && a.a == b.a && a.spin == b.spin && a.isE == b.isE
  && (match a.p, b.p with
      | none, none => true
      | some x, some y => uncValSame x y
      | _, _ => false)
  && uncValSame a.b_c b.b_c && uncValSame a.bp b.bp && uncValSame a.bm b.bm
  && uncValSame a.coh b.coh && uncValSame a.inc b.inc && uncValSame a.tot b.tot && uncValSame a.abs b.abs

def sameNsfI (a b : NsfIRow) : Bool :=
  a.z == b.z && a.a == b.a && uncValSame a.b_c_i b.b_c_i && uncValSame a.bp_i b.bp_i
  && uncValSame a.bm_i b.bm_i

def sameED (a b : EDTable) : Bool :=
  a.sym == b.sym && a.a == b.a && a.rows.length == b.rows.length
  && (a.rows.zip b.rows).all fun (x, y) => x.1.same y.1 && x.2.1.same y.2.1 && x.2.2.same y.2.2

def nsfSelfcheck (st : St) : String :=
  match mapM? parseNsfLine (lines st.nsfMain), mapM? parseNsfILine (lines st.nsfImag) with
  | some rows, some irows =>
    match firstDiff sameNsf 0 rows PtGen.nsfRows, firstDiff sameNsfI 0 irows PtGen.nsfIRows,
          firstDiff sameED 0 st.ed PtGen.edTables with
    | none, none, none => s!"ok {rows.length + irows.length + st.ed.length}"
    | some i, _, _ => s!"MISMATCH nsftable row {i}"
    | _, some i, _ => s!"MISMATCH nsftableI row {i}"
    | _, _, some i => s!"MISMATCH ENERGY_DEPENDENT_TABLES entry {i}"
  | _, _ => "MISMATCH model-cannot-parse"

def handleNsf (st : St) : Toks → IO (Option St)
  | ["nsf_main", h] => match unhex h with
    | some t => pure (some { st with nsfMain := t })
    | none => do reply "ERR bad-hex"; pure (some st)
  | ["nsf_imag", h] => match unhex h with
    | some t => pure (some { st with nsfImag := t })
    | none => do reply "ERR bad-hex"; pure (some st)
  | ["ed_clear"] => pure (some { st with ed := [] })
  | "ed" :: s :: a :: rest =>
    match unhex s, natTok a, readDecs rest with
    | some s, some a, some ds => pure (some { st with ed := st.ed ++ [⟨symCode s, a, triples ds⟩] })
    | _, _, _ => do reply "ERR bad-op"; pure (some st)
  | ["nsf_load"] =>
    match st.mass with
    | none => do reply "ERR mass-not-loaded"; pure (some st)
    | some ms =>
      match Nsf.loadText (nsfEnv st ms) st.nsfMain st.nsfImag st.ed with
      | some ns => do reply "ok"; pure (some { st with nsf := some ns })
      | none => do reply "ERR"; pure (some { st with nsf := none })
  | ["n_el", z] => do
    match st.nsf, natTok z with
    | some ns, some z => reply (showRec (ns.elId z) (ns.elNeutron z))
    | _, _ => reply "ERR not-loaded"
    pure (some st)
  | ["n_iso", z, a] => do
    match st.nsf, st.mass, natTok z, natTok a with
    | some ns, some ms, some z, some a =>
      if !(ms.hasIsotope z a || ns.isotopes.contains (z, a)) then reply "0" else
      let spin := match aget (z, a) ns.spin with
        | some s => hexOfStr s
        | none => "X"
      reply s!"1 {showRec (ns.isoId z a) (ns.isoNeutron z a)} {spin}"
    | _, _, _, _ => reply "ERR not-loaded"
    pure (some st)
  | ["n_table", z, a] => do
    match st.nsf, natTok z, natTok a with
    | some ns, some z, some a =>
      let r := if a == 0 then ns.elNeutron z else ns.isoNeutron z a
      match r.table with
      | none => reply "N"
      | some t => reply (" ".intercalate (t.map fun p => s!"{showF p.1} {showF p.2.1} {showF p.2.2}"))
    | _, _, _ => reply "ERR not-loaded"
    pure (some st)
  | ["n_at", z, a, lam] => do
    match st.nsf, natTok z, natTok a, readF lam with
    | some ns, some z, some a, some lam =>
      let r := if a == 0 then ns.elNeutron z else ns.isoNeutron z a
      match r.bcAt lam with
      | some c => reply s!"{showF c.1} {showF c.2}"
      | none => reply "N"
    | _, _, _, _ => reply "ERR not-loaded"
    pure (some st)
  | ["nsf_selfcheck"] => do reply (nsfSelfcheck st); pure (some st)
  | _ => pure none

def handle (st : St) : Toks → IO St
  | ["mass_iso", h] => match unhex h with
    | some t => pure { st with isoText := t }
    | none => do reply "ERR bad-hex"; pure st
  | ["mass_el", h] => match unhex h with
    | some t => pure { st with elText := t }
    | none => do reply "ERR bad-hex"; pure st
  | ["mass_ab", h] => match unhex h with
    | some t => pure { st with abText := t }
    | none => do reply "ERR bad-hex"; pure st
  | ["dens_clear"] => pure { st with densRows := [] }
  | ["dens", s, "N"] => match unhex s with
    | some t => pure { st with densRows := st.densRows ++ [⟨symCode t, none⟩] }
    | none => do reply "ERR bad-hex"; pure st
  | ["dens", s, m, e] => match unhex s, intTok m, natTok e with
    | some t, some m, some e => pure { st with densRows := st.densRows ++ [⟨symCode t, some ⟨m, e⟩⟩] }
    | _, _, _ => do reply "ERR bad-op"; pure st
  | ["mass_load"] =>
    let nm : Float := PtGen.neutronMass.toNum
    let nmu : Float := PtGen.neutronMassUnc.toNum
    match Mass.loadText symOf nm nmu st.isoText st.elText st.abText with
    | some ms =>
      if Density.loadOk zOf st.densRows then do
        reply "ok"
        pure { st with mass := some ms, dens := Density.loadRows zOf st.densRows }
      else do reply "ERR"; pure { st with mass := none }
    | none => do reply "ERR"; pure { st with mass := none }
  | ["q_el", z] => do
    match st.mass, natTok z with
    | some ms, some z => reply (qEl st ms z)
    | _, _ => reply "ERR not-loaded"
    pure st
  | ["q_iso", z, a] => do
    match st.mass, natTok z, natTok a with
    | some ms, some z, some a => reply (qIso st ms z a)
    | _, _, _ => reply "ERR not-loaded"
    pure st
  | ["q_isotopes", z] => do
    match st.mass, natTok z with
    | some ms, some z =>
      let l := (ms.isotopes.filter (·.1 == z)).map (·.2)
      reply (" ".intercalate ((l.eraseDups.mergeSort (· ≤ ·)).map toString))
    | _, _ => reply "ERR not-loaded"
    pure st
  | ["mass_selfcheck"] => do
    let d := firstDiff sameDens 0 st.densRows PtGen.densityRows
    match d with
    | some i => reply s!"MISMATCH element_densities entry {i}"
    | none => reply (massSelfcheck st)
    pure st
  | ["pu", h] => do
    match unhex h with
    | none => reply "ERR bad-hex"
    | some t =>
      match parseUncertainty t with
      | none => reply "ERR"
      | some u =>
        match (u.eval : VU Float) with
        | none => reply "N N"
        | some (v, d) => reply s!"{showF v} {showF d}"
    pure st
  | toks => do
    match ← handleNsf st toks with
    | some st' => pure st'
    | none => do reply "ERR bad-op"; pure st

end Driver.LoaderCmd
