import Driver.Proto
/-! Driver sub-command `loader` (stub – filled in by its cluster). -/
namespace Driver.LoaderCmd
open Driver

structure St where
  dummy : Unit := ()

def init : St := {}

def handle (st : St) : Toks → IO St
  | _ => do reply "ERR bad-op"; pure st

end Driver.LoaderCmd
