import Driver.Proto
import PtVerif.Model.Loaders
import PtVerif.Model.LoaderTables
import PtVerif.Generated.ElementBase
import PtVerif.Generated.Constants
import PtVerif.Generated.MassTables
import PtVerif.Generated.Density
import PtVerif.Model.LoadersNsf
import PtVerif.Generated.NsfTables
import PtVerif.Model.Ancillary
import PtVerif.Generated.Ancillary
/-! Driver sub-command `loader`: the table loaders (C06, C07, C20) at `Float`.

Raw table text crosses the protocol hex-encoded (two digits per byte, one token), so that blanks,
tabs and newlines inside the tables survive the line/token protocol.

    mass_iso <hex> | mass_el <hex> | mass_ab <hex>     set the raw text of a mass table      (no reply)
    dens_clear | dens <symhex> <m> <e> | dens <symhex> N    `element_densities` entries       (no reply)
    mass_load              run `mass.init` + `density.init`      R ok | R ERR
    q_el <z>               R mass unc density number_density interatomic_distance
    q_iso <z> <a>          R exists mass unc abundance abundance_unc density
    q_isotopes <z>         R a1 a2 …
    mass_selfcheck         string-level parse of the raw text = Generated rows?   R ok n | R MISMATCH …
    pu <hex>               parse_uncertainty                      R value unc | R N N | R ERR

Numbers: 16 hex digits (bit pattern), `N` = None, `X` = the access raises. -/
namespace Driver.LoaderCmd
open Driver PtNum PtLoad

def hexNib (c : Char) : Option Nat := PtNum.hexVal c

partial def unhexGo : List Char → Array UInt8 → Option (Array UInt8)
  | [], acc => some acc
  | a :: b :: r, acc =>
    match hexNib a, hexNib b with
    | some x, some y => unhexGo r (acc.push (UInt8.ofNat (x * 16 + y)))
    | _, _ => none
  | _, _ => none

/-- hex token → text (UTF-8) -/
def unhex (s : String) : Option Str :=
  if s == "-" then some [] else
  match unhexGo s.toList #[] with
  | some bytes => (String.fromUTF8? (ByteArray.mk bytes)).map String.toList
  | none => none

structure St where
  isoText : Str := []
  elText : Str := []
  abText : Str := []
  densRows : List DensityRow := []
  mass : Option (MassState Float) := none
  dens : List (Nat × Option Float) := []
  nsfMain : Str := []
  nsfImag : Str := []
  ed : List EDTable := []
  nsf : Option (NsfState Float) := none
  covText : Str := []
  cov : Option (List (Nat × (Float × Option Float))) := none
  crystIn : List (Option Crystal) := []
  cryst : Option (List (Nat × Option Crystal)) := none
  linesText : Str := []
  xlines : Option (List (Nat × (Dec × Dec))) := none
  magText : Str := []
  mag : Option (List ((Nat × Nat) × MagRec)) := none
  cmText : Str := []
  cm : Option (List (String × CMEntry)) := none

def init : St := {}

def showO : Option Float → String
  | some x => showF x
  | none => "N"

/-- `X` when the attribute does not exist / the access raises -/
def showOO : Option (Option Float) → String
  | some x => showO x
  | none => "X"

def na : Float := PtGen.avogadro_number

def elMassV (ms : MassState Float) (z : Nat) : Option (Option Float) :=
  (ms.elMassOf z).map fun vu => vu.map (·.1)
def elMassU (ms : MassState Float) (z : Nat) : Option (Option Float) :=
  (ms.elMassOf z).map fun vu => vu.map (·.2)
def isoMassV (ms : MassState Float) (z a : Nat) : Option (Option Float) :=
  (ms.isoMassOf z a).map fun vu => vu.map (·.1)
def isoMassU (ms : MassState Float) (z a : Nat) : Option (Option Float) :=
  (ms.isoMassOf z a).map fun vu => vu.map (·.2)

def qEl (st : St) (ms : MassState Float) (z : Nat) : String :=
  let m := elMassV ms z
  let rho := elDensity st.dens z
  let nd := elNumberDensity na rho m
  let dist := elInteratomicDistance na rho m
  s!"{showOO m} {showOO (elMassU ms z)} {showOO rho} {showOO nd} {showOO dist}"

def showX : Option Float → String
  | some x => showF x
  | none => "X"

def qIso (st : St) (ms : MassState Float) (z a : Nat) : String :=
  if !ms.hasIsotope z a then "0" else
  let ab := ms.isoAbOf z a
  let dens := isoDensity (elDensity st.dens z) (isoMassV ms z a) (elMassV ms z)
  s!"1 {showOO (isoMassV ms z a)} {showOO (isoMassU ms z a)} {showX (ab.map (·.1))} {showX (ab.map (·.2))} {showOO dens}"

def sameIso (a b : IsoRow) : Bool :=
  a.z == b.z && a.sym == b.sym && a.a == b.a && a.m.same b.m && a.avg.same b.avg
def sameEl (a b : ElRow) : Bool :=
  a.z == b.z && (match a.value, b.value with
    | none, none => true
    | some x, some y => x.same y
    | _, _ => false)
def sameAb : AbLine → AbLine → Bool
  | .header a, .header b => a == b
  | .entry a u, .entry b w => a == b && u.same w
  | _, _ => false

def firstDiff {β : Type} (same : β → β → Bool) : Nat → List β → List β → Option Nat
  | _, [], [] => none
  | i, x :: xs, y :: ys => if same x y then firstDiff same (i + 1) xs ys else some i
  | i, _, _ => some i

def massSelfcheck (st : St) : String :=
  match parseMassTables st.isoText st.elText st.abText with
  | none => "MISMATCH model-cannot-parse"
  | some t =>
    match firstDiff sameIso 0 t.iso PtGen.isoMassRows, firstDiff sameEl 0 t.el PtGen.elMassRows,
          firstDiff sameAb 0 t.ab PtGen.abLines with
    | none, none, none => s!"ok {t.iso.length + t.el.length + t.ab.length}"
    | some i, _, _ => s!"MISMATCH isotope_mass row {i}"
    | _, some i, _ => s!"MISMATCH element_mass row {i}"
    | _, _, some i => s!"MISMATCH isotope_abundance line {i}"

def sameDens (a b : DensityRow) : Bool :=
  a.sym == b.sym && (match a.value, b.value with
    | none, none => true
    | some x, some y => x.same y
    | _, _ => false)


/-! ### C07 -/

def efF : Float :=
  energyFactor PtGen.plancks_constant PtGen.electron_volt PtGen.neutron_mass PtGen.atomic_mass_constant

def nsfEnv (st : St) (ms : MassState Float) : NsfEnv Float :=
  { symOf := symOf, zOf := zOf
    nd := fun z => ((elNumberDensity na (elDensity st.dens z) (elMassV ms z)).getD none)
    hasIso := fun z a => ms.hasIsotope z a
    ab175 := (ms.isoAbOf 71 175).map (·.1)
    ab176 := (ms.isoAbOf 71 176).map (·.1)
    lam0 := PtGen.absorptionWavelength.toNum
    ef := efF }

def showRec (id : Nat) (r : NRec Float) : String :=
  let bcc := match r.bcc with
    | none => "N N"
    | some (re, im) => s!"{showF (re.getD (0.0 / 0.0))} {showF im}"
  let tl := match r.table with
    | none => "N"
    | some t => toString t.length
  s!"{id} {showO r.b_c} {showO r.bp} {showO r.bm} {showO r.coherent} {showO r.incoherent} {showO r.total} {showO r.absorption} {showO r.abundance} {if r.isE then 1 else 0} {bcc} {showO r.b_c_i} {showO r.bp_i} {showO r.bm_i} {if r.hasSld then 1 else 0} {tl} {showO r.nd}"

def hexOfStr (s : String) : String :=
  if s.isEmpty then "-" else
  String.join (s.toUTF8.toList.map fun b =>
    String.ofList [Nat.digitChar (b.toNat / 16), Nat.digitChar (b.toNat % 16)])

def readDecs : Toks → Option (List Dec)
  | [] => some []
  | m :: e :: r => match intTok m, natTok e, readDecs r with
    | some m, some e, some l => some (⟨m, e⟩ :: l)
    | _, _, _ => none
  | _ => none

def triples : List Dec → List (Dec × Dec × Dec)
  | a :: b :: c :: r => (a, b, c) :: triples r
  | _ => []

def uncValSame (a b : Unc) : Bool :=
  match a.val (α := Rat), b.val (α := Rat) with
  | none, none => true
  | some x, some y => x == y
  | _, _ => false

def sameNsf (a b : NsfRow) : Bool :=
  a.z == b.z && a.sym == b.sym && a.a == b.a && a.spin == b.spin && a.isE == b.isE
  && (match a.p, b.p with
      | none, none => true
      | some x, some y => uncValSame x y
      | _, _ => false)
  && uncValSame a.b_c b.b_c && uncValSame a.bp b.bp && uncValSame a.bm b.bm
  && uncValSame a.coh b.coh && uncValSame a.inc b.inc && uncValSame a.tot b.tot && uncValSame a.abs b.abs

def sameNsfI (a b : NsfIRow) : Bool :=
  a.z == b.z && a.a == b.a && uncValSame a.b_c_i b.b_c_i && uncValSame a.bp_i b.bp_i
  && uncValSame a.bm_i b.bm_i

def sameED (a b : EDTable) : Bool :=
  a.sym == b.sym && a.a == b.a && a.rows.length == b.rows.length
  && (a.rows.zip b.rows).all fun (x, y) => x.1.same y.1 && x.2.1.same y.2.1 && x.2.2.same y.2.2

def nsfSelfcheck (st : St) : String :=
  match mapM? parseNsfLine (lines st.nsfMain), mapM? parseNsfILine (lines st.nsfImag) with
  | some rows, some irows =>
    match firstDiff sameNsf 0 rows PtGen.nsfRows, firstDiff sameNsfI 0 irows PtGen.nsfIRows,
          firstDiff sameED 0 st.ed PtGen.edTables with
    | none, none, none => s!"ok {rows.length + irows.length + st.ed.length}"
    | some i, _, _ => s!"MISMATCH nsftable row {i}"
    | _, some i, _ => s!"MISMATCH nsftableI row {i}"
    | _, _, some i => s!"MISMATCH ENERGY_DEPENDENT_TABLES entry {i}"
  | _, _ => "MISMATCH model-cannot-parse"

def handleNsf (st : St) : Toks → IO (Option St)
  | ["nsf_main", h] => match unhex h with
    | some t => pure (some { st with nsfMain := t })
    | none => do reply "ERR bad-hex"; pure (some st)
  | ["nsf_imag", h] => match unhex h with
    | some t => pure (some { st with nsfImag := t })
    | none => do reply "ERR bad-hex"; pure (some st)
  | ["ed_clear"] => pure (some { st with ed := [] })
  | "ed" :: s :: a :: rest =>
    match unhex s, natTok a, readDecs rest with
    | some s, some a, some ds => pure (some { st with ed := st.ed ++ [⟨symCode s, a, triples ds⟩] })
    | _, _, _ => do reply "ERR bad-op"; pure (some st)
  | ["nsf_load"] =>
    match st.mass with
    | none => do reply "ERR mass-not-loaded"; pure (some st)
    | some ms =>
      match Nsf.loadText (nsfEnv st ms) st.nsfMain st.nsfImag st.ed with
      | some ns => do reply "ok"; pure (some { st with nsf := some ns })
      | none => do reply "ERR"; pure (some { st with nsf := none })
  | ["n_el", z] => do
    match st.nsf, natTok z with
    | some ns, some z => reply (showRec (ns.elId z) (ns.elNeutron z))
    | _, _ => reply "ERR not-loaded"
    pure (some st)
  | ["n_iso", z, a] => do
    match st.nsf, st.mass, natTok z, natTok a with
    | some ns, some ms, some z, some a =>
      if !(ms.hasIsotope z a || ns.isotopes.contains (z, a)) then reply "0" else
      let spin := match aget (z, a) ns.spin with
        | some s => hexOfStr s
        | none => "X"
      reply s!"1 {showRec (ns.isoId z a) (ns.isoNeutron z a)} {spin}"
    | _, _, _, _ => reply "ERR not-loaded"
    pure (some st)
  | ["n_table", z, a] => do
    match st.nsf, natTok z, natTok a with
    | some ns, some z, some a =>
      let r := if a == 0 then ns.elNeutron z else ns.isoNeutron z a
      match r.table with
      | none => reply "N"
      | some t => reply (" ".intercalate (t.map fun p => s!"{showF p.1} {showF p.2.1} {showF p.2.2}"))
    | _, _, _ => reply "ERR not-loaded"
    pure (some st)
  | ["n_at", z, a, lam] => do
    match st.nsf, natTok z, natTok a, readF lam with
    | some ns, some z, some a, some lam =>
      let r := if a == 0 then ns.elNeutron z else ns.isoNeutron z a
      match r.bcAt lam with
      | some c => reply s!"{showF c.1} {showF c.2}"
      | none => reply "N"
    | _, _, _, _ => reply "ERR not-loaded"
    pure (some st)
  | ["nsf_selfcheck"] => do reply (nsfSelfcheck st); pure (some st)
  | _ => pure none


/-! ### C20 -/

def decF (d : Dec) : Float := d.toNum

def readStrDecs : Toks → Option (List (String × Dec))
  | [] => some []
  | k :: m :: e :: r => match unhex k, intTok m, natTok e, readStrDecs r with
    | some k, some m, some e, some l => some ((String.ofList k, ⟨m, e⟩) :: l)
    | _, _, _, _ => none
  | _ => none

def sameCov : CovRow → CovRow → Bool
  | .skip, .skip => true
  | .row z r d, .row z' r' d' => z == z' && r.same r' && d.same d'
  | _, _ => false

def sameLine (a b : LineRow) : Bool := a.sym == b.sym && a.kAlpha.same b.kAlpha && a.kBeta1.same b.kBeta1

def sameDecs (a b : List Dec) : Bool := a.length == b.length && (a.zip b).all fun (x, y) => x.same y

def sameMag (a b : MagRow) : Bool :=
  a.jn == b.jn && a.sym == b.sym && a.charge == b.charge && sameDecs a.values b.values

def sameCM (a b : CMEntry) : Bool :=
  a.symbol == b.symbol && sameDecs a.a b.a && a.c.same b.c && sameDecs a.b b.b

def sameCrystal : Option Crystal → Option Crystal → Bool
  | none, none => true
  | some a, some b => a.symmetry == b.symmetry && a.params.length == b.params.length
      && (a.params.zip b.params).all fun (x, y) => x.1 == y.1 && x.2.same y.2
  | _, _ => false

def ancSelfcheck (st : St) : String :=
  match mapM? parseCovLine (lines st.covText), mapM? parseLineRow (lines st.linesText),
        parseMag st.magText, parseCM st.cmText with
  | some cov, some ln, some mg, some cm =>
    match firstDiff sameCov 0 cov PtGen.corderoRows, firstDiff sameLine 0 ln PtGen.lineRows,
          firstDiff sameMag 0 mg PtGen.magRows, firstDiff sameCM 0 cm PtGen.cmEntries,
          firstDiff sameCrystal 0 st.crystIn PtGen.crystalList with
    | none, none, none, none, none =>
      s!"ok {cov.length + ln.length + mg.length + cm.length + st.crystIn.length}"
    | some i, _, _, _, _ => s!"MISMATCH Cordero line {i}"
    | _, some i, _, _, _ => s!"MISMATCH spectral_lines_data row {i}"
    | _, _, some i, _, _ => s!"MISMATCH CFML_DATA entry {i}"
    | _, _, _, some i, _ => s!"MISMATCH f0_WaasKirf entry {i}"
    | _, _, _, _, some i => s!"MISMATCH crystal_structures slot {i}"
  | none, _, _, _ => "MISMATCH model-cannot-parse Cordero"
  | _, none, _, _ => "MISMATCH model-cannot-parse spectral_lines_data"
  | _, _, none, _ => "MISMATCH model-cannot-parse CFML_DATA"
  | _, _, _, none => "MISMATCH model-cannot-parse f0_WaasKirf"

def jnOfTok : String → Option Jn
  | "j0" => some .j0 | "J" => some .J | "j2" => some .j2 | "j4" => some .j4 | "j6" => some .j6
  | _ => none

def showDecs (l : List Dec) : String := " ".intercalate (l.map fun d => showF (decF d))

def setText (st : St) (which : String) (t : Str) : St :=
  match which with
  | "cov" => { st with covText := t }
  | "lines" => { st with linesText := t }
  | "mag" => { st with magText := t }
  | _ => { st with cmText := t }

def handleAnc (st : St) : Toks → IO (Option St)
  | ["anc_text", which, h] => match unhex h with
    | some t => pure (some (setText st which t))
    | none => do reply "ERR bad-hex"; pure (some st)
  | ["cr_clear"] => pure (some { st with crystIn := [] })
  | ["cr", "N"] => pure (some { st with crystIn := st.crystIn ++ [none] })
  | "cr" :: sym :: rest =>
    match unhex sym, readStrDecs rest with
    | some s, some ps => pure (some { st with crystIn := st.crystIn ++ [some ⟨String.ofList s, ps⟩] })
    | _, _ => do reply "ERR bad-op"; pure (some st)
  | ["cov_load"] =>
    match mapM? parseCovLine (lines st.covText) with
    | some rows =>
      if Cov.rowsOk symOf rows then do reply "ok"; pure (some { st with cov := some (Cov.loadRows rows) })
      else do reply "ERR"; pure (some { st with cov := none })
    | none => do reply "ERR"; pure (some { st with cov := none })
  | ["cov_q", z] => do
    match st.cov, natTok z with
    | some t, some z =>
      match aget z t with
      | some (r, dr) => reply s!"{showF r} {showO dr}"
      | none => reply "N N"
    | _, _ => reply "ERR not-loaded"
    pure (some st)
  | ["cr_load"] =>
    if Crystal.ok symOf st.crystIn then do reply "ok"; pure (some { st with cryst := some (Crystal.load st.crystIn) })
    else do reply "ERR"; pure (some { st with cryst := none })
  | ["cr_q", z] => do
    match st.cryst, natTok z with
    | some t, some z =>
      match aget z t with
      | none => reply "X"
      | some none => reply "N"
      | some (some c) =>
        reply (hexOfStr c.symmetry ++ String.join (c.params.map fun p => s!" {hexOfStr p.1} {showF (decF p.2)}"))
    | _, _ => reply "ERR not-loaded"
    pure (some st)
  | ["lines_load"] =>
    match mapM? parseLineRow (lines st.linesText) with
    | some rows =>
      if Lines.rowsOk zOf rows then do reply "ok"; pure (some { st with xlines := some (Lines.loadRows zOf rows) })
      else do reply "ERR"; pure (some { st with xlines := none })
    | none => do reply "ERR"; pure (some { st with xlines := none })
  | ["lines_q", z] => do
    match st.xlines, natTok z with
    | some t, some z =>
      match aget z t with
      | some (a, b) => reply s!"{showF (decF a)} {showF (decF b)}"
      | none => reply "X X"
    | _, _ => reply "ERR not-loaded"
    pure (some st)
  | ["mag_load"] =>
    match parseMag st.magText with
    | some rows =>
      if Mag.rowsOk zOf rows then do reply "ok"; pure (some { st with mag := some (Mag.loadRows zOf rows) })
      else do reply "ERR"; pure (some { st with mag := none })
    | none => do reply "ERR"; pure (some { st with mag := none })
  | ["mag_charges", z] => do
    match st.mag, natTok z with
    | some t, some z =>
      let qs := ((t.filter fun p => p.1.1 == z).map fun p => p.1.2).eraseDups.mergeSort (· ≤ ·)
      if qs.isEmpty then reply "X" else reply (" ".intercalate (qs.map toString))
    | _, _ => reply "ERR not-loaded"
    pure (some st)
  | ["mag_q", z, q, jn] => do
    match st.mag, natTok z, natTok q, jnOfTok jn with
    | some t, some z, some q, some jn =>
      match aget (z, q) t with
      | none => reply "X"
      | some r => match r.get jn with
        | none => reply "X"
        | some v => reply (showDecs v)
    | _, _, _, _ => reply "ERR not-loaded"
    pure (some st)
  | ["mag_ff", z, q, jn, qq] => do
    match st.mag, natTok z, natTok q, jnOfTok jn, readF qq with
    | some t, some z, some q, some jn, some qq =>
      match (aget (z, q) t).bind (fun r => r.get jn) with
      | none => reply "X"
      | some v =>
        let vf := v.map decF
        let r := match jn with
          | .j0 | .J => formfactor0 vf qq
          | _ => formfactorN vf qq
        match r with
        | some x => reply (showF x)
        | none => reply "X"
    | _, _, _, _, _ => reply "ERR not-loaded"
    pure (some st)
  | ["cm_load"] =>
    match parseCM st.cmText with
    | some es => do reply s!"ok {es.length}"; pure (some { st with cm := some (CM.load es) })
    | none => do reply "ERR"; pure (some { st with cm := none })
  | ["cm_q", sym] => do
    match st.cm, unhex sym with
    | some t, some s =>
      match aget (String.ofList s) t with
      | some e => reply s!"{showDecs e.a} {showF (decF e.c)} {showDecs e.b}"
      | none => reply "X"
    | _, _ => reply "ERR not-loaded"
    pure (some st)
  | ["cm_key", sym, q] => do
    match unhex sym with
    | some s =>
      let charge : Option (Option Int) := if q == "N" then some none else (intTok q).map some
      match charge with
      | some c => reply (hexOfStr (String.ofList (cmKey s c)))
      | none => reply "ERR bad-op"
    | none => reply "ERR bad-hex"
    pure (some st)
  | ["cm_f0", sym, q, stol] => do
    match st.cm, unhex sym, readF stol with
    | some t, some s, some x =>
      let charge : Option Int := if q == "N" then none else intTok q
      match aget (String.ofList (cmKey s charge)) t with
      | some e =>
        if x > 6 then reply (showF (0.0 / 0.0))
        else reply (showF (cmAtStol (e.a.map decF) (e.b.map decF) (decF e.c) x))
      | none => reply "X"
    | _, _, _ => reply "ERR not-loaded"
    pure (some st)
  | ["anc_selfcheck"] => do reply (ancSelfcheck st); pure (some st)
  | _ => pure none

def handle (st : St) : Toks → IO St
  | ["mass_iso", h] => match unhex h with
    | some t => pure { st with isoText := t }
    | none => do reply "ERR bad-hex"; pure st
  | ["mass_el", h] => match unhex h with
    | some t => pure { st with elText := t }
    | none => do reply "ERR bad-hex"; pure st
  | ["mass_ab", h] => match unhex h with
    | some t => pure { st with abText := t }
    | none => do reply "ERR bad-hex"; pure st
  | ["dens_clear"] => pure { st with densRows := [] }
  | ["dens", s, "N"] => match unhex s with
    | some t => pure { st with densRows := st.densRows ++ [⟨symCode t, none⟩] }
    | none => do reply "ERR bad-hex"; pure st
  | ["dens", s, m, e] => match unhex s, intTok m, natTok e with
    | some t, some m, some e => pure { st with densRows := st.densRows ++ [⟨symCode t, some ⟨m, e⟩⟩] }
    | _, _, _ => do reply "ERR bad-op"; pure st
  | ["mass_load"] =>
    let nm : Float := PtGen.neutronMass.toNum
    let nmu : Float := PtGen.neutronMassUnc.toNum
    match Mass.loadText symOf nm nmu st.isoText st.elText st.abText with
    | some ms =>
      if Density.loadOk zOf st.densRows then do
        reply "ok"
        pure { st with mass := some ms, dens := Density.loadRows zOf st.densRows }
      else do reply "ERR"; pure { st with mass := none }
    | none => do reply "ERR"; pure { st with mass := none }
  | ["q_el", z] => do
    match st.mass, natTok z with
    | some ms, some z => reply (qEl st ms z)
    | _, _ => reply "ERR not-loaded"
    pure st
  | ["q_iso", z, a] => do
    match st.mass, natTok z, natTok a with
    | some ms, some z, some a => reply (qIso st ms z a)
    | _, _, _ => reply "ERR not-loaded"
    pure st
  | ["q_isotopes", z] => do
    match st.mass, natTok z with
    | some ms, some z =>
      let l := (ms.isotopes.filter (·.1 == z)).map (·.2)
      reply (" ".intercalate ((l.eraseDups.mergeSort (· ≤ ·)).map toString))
    | _, _ => reply "ERR not-loaded"
    pure st
  | ["mass_selfcheck"] => do
    let d := firstDiff sameDens 0 st.densRows PtGen.densityRows
    match d with
    | some i => reply s!"MISMATCH element_densities entry {i}"
    | none => reply (massSelfcheck st)
    pure st
  | ["pu", h] => do
    match unhex h with
    | none => reply "ERR bad-hex"
    | some t =>
      match parseUncertainty t with
      | none => reply "ERR"
      | some u =>
        match (u.eval : VU Float) with
        | none => reply "N N"
        | some (v, d) => reply s!"{showF v} {showF d}"
    pure st
  | toks => do
    match ← handleNsf st toks with
    | some st' => pure st'
    | none =>
      match ← handleAnc st toks with
      | some st' => pure st'
      | none => do reply "ERR bad-op"; pure st

end Driver.LoaderCmd
