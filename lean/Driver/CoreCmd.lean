import Driver.Proto
import PtVerif.Model.Core
import PtVerif.Generated.ElementBase
/-! Driver sub-command `core`: the table-core state machine (C08).

Strings cross the protocol as comma-separated code points (`-` = empty string).
Requests: `reset`, `newtable T`, `define T`, `getz T z`, `symbol T s`, `name T s`, `isotope T s`,
`attr T s`, `modattr s`, `iso o a`, `addiso o a`, `ion o q`, `element o`, `isotopes o`,
`itertable T`, `iteriso o`, `reduce o`, `changetable o T`, `info o`.
Replies: `obj i` | `objs i…` | `nats n…` | `unit` | `err <class>` | `info T z a q sym name`. -/
namespace Driver.CoreCmd
open Driver PtCore

def base : Base := baseOfRaw PtGen.elementBase

structure St where
  s : State := {}
  /-- every object returned so far, in order (object arguments are indices into this list) -/
  res : Array Nat := #[]
  /-- saved (state, results) for `rewind` -/
  saved : Option (State × Array Nat) := none

def init : St := {}

def strTok (t : String) : Option String :=
  if t = "-" then some "" else
    (t.splitOn ",").foldl (fun acc p =>
      match acc, p.toNat? with
      | some s, some n => some (s.push (Char.ofNat n))
      | _, _ => none) (some "")

def encStr (s : String) : String :=
  if s.isEmpty then "-" else ",".intercalate (s.toList.map fun c => toString c.toNat)

def showErr : Err → String
  | .key => "key" | .value => "value" | .type => "type" | .attribute => "attribute"

def showRes : Res → String
  | .obj i => s!"obj {i}"
  | .objs l => "objs " ++ " ".intercalate (l.map toString)
  | .nats l => "nats " ++ " ".intercalate (l.map toString)
  | .unit => "unit"
  | .err e => "err " ++ showErr e

def doOp (st : St) (op : Op) : IO St := do
  let (s', r) := step base st.s op
  reply (showRes r)
  let res := match r with
    | .obj i => st.res.push i
    | .objs l => l.foldl (fun a i => a.push i) st.res
    | _ => st.res
  pure { st with s := s', res := res }

/-- object argument: index into the results -/
def objTok (st : St) (t : String) : Option Nat := natTok t >>= fun k => st.res[k]?

def bad (st : St) : IO St := do reply "ERR bad-op"; pure st

def handle (st : St) : Toks → IO St
  | ["reset"] => pure {}
  | ["mark"] => pure { st with saved := some (st.s, st.res) }
  | ["rewind"] => match st.saved with
    | some (s, r) => pure { st with s := s, res := r }
    | none => bad st
  | ["addisokey", t, z, a] => match strTok t, natTok z, natTok a with
    -- `table[z].add_isotope(a)` without recording a result (bulk loaders)
    | some t, some z, some a =>
      match st.s.getZ t z with
      | .obj e => do
        let (s', _) := step base st.s (.addIsotope e a)
        reply "unit"; pure { st with s := s' }
      | _ => do reply "err key"; pure st
    | _, _, _ => bad st
  | ["newtable", t] => match strTok t with
    | some t => doOp st (.newTable t) | none => bad st
  | ["define", t] => match strTok t with
    | some t => doOp st (.defineElements t) | none => bad st
  | ["getz", t, z] => match strTok t, natTok z with
    | some t, some z => doOp st (.getZ t z) | _, _ => bad st
  | ["symbol", t, x] => match strTok t, strTok x with
    | some t, some x => doOp st (.symbol t x) | _, _ => bad st
  | ["name", t, x] => match strTok t, strTok x with
    | some t, some x => doOp st (.name t x) | _, _ => bad st
  | ["isotope", t, x] => match strTok t, strTok x with
    | some t, some x => doOp st (.isotope t x) | _, _ => bad st
  | ["attr", t, x] => match strTok t, strTok x with
    | some t, some x => doOp st (.attr t x) | _, _ => bad st
  | ["modattr", x] => match strTok x with
    | some x => doOp st (.modAttr x) | none => bad st
  | ["iso", o, a] => match objTok st o, natTok a with
    | some o, some a => doOp st (.iso o a) | _, _ => bad st
  | ["addiso", o, a] => match objTok st o, natTok a with
    | some o, some a => doOp st (.addIsotope o a) | _, _ => bad st
  | ["ion", o, q] => match objTok st o, intTok q with
    | some o, some q => doOp st (.ion o q) | _, _ => bad st
  | ["element", o] => match objTok st o with
    | some o => doOp st (.element o) | none => bad st
  | ["isotopes", o] => match objTok st o with
    | some o => doOp st (.isotopes o) | none => bad st
  | ["itertable", t] => match strTok t with
    | some t => doOp st (.iterTable t) | none => bad st
  | ["iteriso", o] => match objTok st o with
    | some o => doOp st (.iterIso o) | none => bad st
  | ["reduce", o] => match objTok st o with
    | some o => doOp st (.reduce o) | none => bad st
  | ["changetable", o, t] => match objTok st o, strTok t with
    | some o, some t => doOp st (.changeTable o t) | _, _ => bad st
  | ["info", o] => match objTok st o with
    | some o => do
      match st.s.keyOf o, st.s.symName base o with
      | some k, some (sym, nm) =>
        let a := match k.a with | some a => toString a | none => "n"
        let q := match k.q with | some q => toString q | none => "n"
        reply s!"info {encStr k.table} {k.z} {a} {q} {encStr sym} {encStr nm}"
      | _, _ => reply "err attribute"
      pure st
    | none => bad st
  | _ => bad st

end Driver.CoreCmd
