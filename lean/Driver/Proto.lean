import PtVerif.Num
import PtVerif.Model.Formula
/-! Line-protocol helpers shared by the driver's sub-commands. -/
namespace Driver
open PtModel PtNum

abbrev Toks := List String

def tokens (line : String) : Toks :=
  (line.trimAscii.toString.splitOn " ").filter (· ≠ "")

def reply (s : String) : IO Unit := IO.println ("R " ++ s)

def natTok (s : String) : Option Nat := s.toNat?
def intTok (s : String) : Option Int := s.toInt?

/-- items := "[" (c "a" z A q | c "g" items)* "]" -/
partial def readItems : Toks → Option (Items Float × Toks)
  | "[" :: r => go r
  | _ => none
where
  go : Toks → Option (Items Float × Toks)
    | "]" :: r => some (.nil, r)
    | c :: "a" :: z :: a :: q :: r => do
        let c ← readF c; let z ← natTok z; let a ← natTok a; let q ← intTok q
        let (rest, r') ← go r
        some (.cons c (.atom ⟨z, a, q⟩) rest, r')
    | c :: "g" :: r => do
        let c ← readF c
        let (inner, r1) ← readItems r
        let (rest, r2) ← go r1
        some (.cons c (.group inner) rest, r2)
    | _ => none

mutual
partial def showFrag : Frag Float → String
  | .atom x => s!"a {x.z} {x.a} {x.q}"
  | .group is => "g " ++ showItems is
partial def showItems (is : Items Float) : String :=
  "[ " ++ String.join (is.toList.map fun (c, f) => showF c ++ " " ++ showFrag f ++ " ") ++ "]"
end

def showAList (t : List (Atom × Float)) : String :=
  " ".intercalate (t.map fun (x, c) => s!"{x.z} {x.a} {x.q} {showF c}")

/-- `(z A q c)*` -/
partial def readAList : Toks → Option (List (Atom × Float))
  | [] => some []
  | z :: a :: q :: c :: r => do
      let z ← natTok z; let a ← natTok a; let q ← intTok q; let c ← readF c
      let rest ← readAList r
      some ((⟨z, a, q⟩, c) :: rest)
  | _ => none

end Driver
