import Driver.Proto
import PtVerif.Model.FormulaOps
import PtVerif.Model.Symbols
import PtVerif.Model.Density
import PtVerif.Model.Mix
import PtVerif.Generated.FormulaConsts
import Std.Data.HashMap
/-! Driver sub-command `formula`: the formula algebra (C02, C19) at `Float`. -/
namespace Driver.FormulaCmd
open PtModel PtNum Driver

structure St where
  mass : Std.HashMap (Nat × Nat) Float := {}
  sym : Std.HashMap (Nat × Nat) Nat := {}
  me : Float := 0
  edens : Std.HashMap Nat Float := {}
  radius : Std.HashMap Nat Float := {}
  heap : Heap Float := Heap.empty

def init : St := {}

def St.massFn (st : St) (z a : Nat) : Float := (st.mass.get? (z, a)).getD (0.0 / 0.0)
def St.symFn (st : St) (z a : Nat) : Nat :=
  -- `sym` lines (a private table's symbols) override the generated table
  if st.sym.isEmpty then symOf z a else
  match st.sym.get? (z, a) with
  | some s => s
  | none => (st.sym.get? (z, 0)).getD 0
def St.am (st : St) : Atom → Float := atomMass st.massFn st.me

def St.atomDens (st : St) : Atom → Option Float := atomDensity st.massFn (fun z => st.edens.get? z)
def St.radiusFn (st : St) (x : Atom) : Float := (st.radius.get? x.z).getD (0.0 / 0.0)

def optF (s : String) : Option (Option Float) :=
  if s = "-" then some none else (readF s).map some
def showOptF : Option Float → String
  | none => "-"
  | some x => showF x

/-- split `… <items> rest` -/
def itemsThen (t : Toks) : Option (Items Float × Toks) := readItems t


/-- result of evaluating a mixture expression: value, `.total_mass`, `.thickness` -/
structure MixRes where
  f : FVal Float
  totalMass : Option Float := none
  thickness : Option Float := none

def unitFactor (tbl : List (String × Nat × Nat)) (u : String) : Option Float :=
  (tbl.find? (·.1 = u)).map fun e => Float.ofNat e.2.1 / Float.ofNat e.2.2

def readTag (tag : String) : Option (Option (Float × Bool)) :=
  if tag = "-" then some none
  else if tag.startsWith "n" then (readF (tag.drop 1).toString).map fun v => some (v, true)
  else if tag.startsWith "i" then (readF (tag.drop 1).toString).map fun v => some (v, false)
  else none

/-- the mixture expression evaluator: the tree walk only; every semantic action is a total
    function of `Model/Mix.lean` / `Model/Density.lean`.
    `none` = protocol error; `some none` = the real code raises ValueError. -/
partial def evalMix (st : St) : Toks → Option (Option MixRes × Toks)
  | "C" :: rest => do
      let (s, r) ← readItems rest
      match r with
      | tag :: r' =>
        let tg ← readTag tag
        let d := stringDensity st.am st.atomDens s.atoms tg none none
        some (some { f := ⟨s, d⟩ }, r')
      | [] => none
  | "P" :: rest => do
      let (inner, r) ← evalMix st rest
      match r with
      | tag :: r' =>
        let tg ← readTag tag
        match inner with
        | none => some (none, r')
        | some m =>
          -- convert_mixture: formula.natural_density = v / formula.density = v
          let d := match tg with
            | none => m.f.density
            | some (v, true) => some (setNaturalDensity st.am m.f.s.atoms v)
            | some (v, false) => some v
          some (some { m with f := ⟨m.f.s, d⟩ }, r')
      | [] => none
  | kind :: n :: rest => do
      let n ← natTok n
      if kind = "W" ∨ kind = "V" then
        let rec parts (k : Nat) (t : Toks) (acc : List (Float × FVal Float)) (bad : Bool) :
            Option (List (Float × FVal Float) × Bool × Toks) :=
          match k with
          | 0 => some (acc.reverse, bad, t)
          | k + 1 =>
            match t with
            | q :: t' => do
              let q ← readF q
              let (m, t'') ← evalMix st t'
              match m with
              | some m => parts k t'' ((q, m.f) :: acc) bad
              | none => parts k t'' acc true
            | [] => none
        let (ps, bad, r) ← parts n rest [] false
        let (base, r') ← evalMix st r
        match base, bad with
        | some b, false =>
          let res := if kind = "W" then byWeightPercent st.am ps b.f else byVolumePercent st.am ps b.f
          some (res.map fun f => { f := f }, r')
        | _, _ => some (none, r')
      else if kind = "L" ∨ kind = "A" then
        let rec parts2 (k : Nat) (t : Toks) (acc : List (Option (Float × FVal Float))) :
            Option (List (Option (Float × FVal Float)) × Toks) :=
          match k with
          | 0 => some (acc.reverse, t)
          | k + 1 =>
            match t with
            | "T" :: v :: u :: t' => do            -- layer: thickness unit mixture
              let v ← readF v
              let fac ← unitFactor PtGen.lengthUnits u
              let (m, t'') ← evalMix st t'
              parts2 k t'' ((m.map fun m => (v * fac, m.f)) :: acc)
            | "Q" :: v :: u :: t' => do            -- absolute mass or volume
              let v ← readF v
              let (m, t'') ← evalMix st t'
              match unitFactor PtGen.massUnits u, unitFactor PtGen.volumeUnits u with
              | some fac, _ =>
                parts2 k t'' ((m.bind fun m => (absMassOf m.f v fac false).map fun q => (q, m.f)) :: acc)
              | none, some fac =>
                parts2 k t'' ((m.bind fun m => (absMassOf m.f v fac true).map fun q => (q, m.f)) :: acc)
              | none, none => none
            | "G" :: c :: t' => do                 -- ( same-kind mixture ) count
              let c ← readF c
              let (m, t'') ← evalMix st t'
              let q := m.bind fun m =>
                (if kind = "L" then m.thickness else m.totalMass).map fun x => (x * c, m.f)
              parts2 k t'' (q :: acc)
            | _ => none
        let (ps, r) ← parts2 n rest []
        if ps.any Option.isNone then some (none, r) else
        let ps := ps.filterMap id
        if kind = "L" then
          some ((byLayer st.am ps).map fun (f, t) => { f := f, thickness := some t }, r)
        else
          let (f, t) := byAbsMass st.am ps
          some (some { f := f, totalMass := some t }, r)
      else none
  | _ => none

def withObj (st : St) (r : String) (k : Items Float → IO Unit) : IO Unit :=
  match natTok r >>= st.heap.obj with
  | some s => k s
  | none => reply "ERR unbound"

def stepOp (st : St) (op : Op Float) : IO St :=
  match st.heap.step st.symFn op with
  | some h => do reply "ok"; pure { st with heap := h }
  | none => do reply "ERR unbound"; pure st

def handle (st : St) : Toks → IO St
  | ["mass", z, a, m] =>
    match natTok z, natTok a, readF m with
    | some z, some a, some m => pure { st with mass := st.mass.insert (z, a) m }
    | _, _, _ => do reply "ERR bad-op"; pure st
  | ["sym", z, a, code] =>
    match natTok z, natTok a, natTok code with
    | some z, some a, some c => pure { st with sym := st.sym.insert (z, a) c }
    | _, _, _ => do reply "ERR bad-op"; pure st
  | ["me", m] =>
    match readF m with
    | some m => pure { st with me := m }
    | none => do reply "ERR bad-op"; pure st
  | ["reset"] => pure { st with heap := Heap.empty }
  | "new" :: r :: rest =>
    match natTok r, readItems rest with
    | some r, some (s, []) => stepOp st (.new r s)
    | _, _ => do reply "ERR bad-op"; pure st
  | "dict" :: r :: rest =>
    match natTok r, readAList rest with
    | some r, some t => stepOp st (.dict r t)
    | _, _ => do reply "ERR bad-op"; pure st
  | ["copy", r, r2] =>
    match natTok r, natTok r2 with
    | some r, some r2 => stepOp st (.copy r r2)
    | _, _ => do reply "ERR bad-op"; pure st
  | ["same", r, r2] =>
    match natTok r, natTok r2 with
    | some r, some r2 => stepOp st (.same r r2)
    | _, _ => do reply "ERR bad-op"; pure st
  | ["add", r, r1, r2] =>
    match natTok r, natTok r1, natTok r2 with
    | some r, some r1, some r2 => stepOp st (.add r r1 r2)
    | _, _, _ => do reply "ERR bad-op"; pure st
  | ["mul", r, n, r1] =>
    match natTok r, readF n, natTok r1 with
    | some r, some n, some r1 => stepOp st (.mul r n r1)
    | _, _, _ => do reply "ERR bad-op"; pure st
  | ["iadd", r1, r2] =>
    match natTok r1, natTok r2 with
    | some r1, some r2 => stepOp st (.iadd r1 r2)
    | _, _ => do reply "ERR bad-op"; pure st
  | ["hill", r, r1] =>
    match natTok r, natTok r1 with
    | some r, some r1 => stepOp st (.hill r r1)
    | _, _ => do reply "ERR bad-op"; pure st
  | ["edens", z, d] =>
    match natTok z, readF d with
    | some z, some d => pure { st with edens := st.edens.insert z d }
    | _, _ => do reply "ERR bad-op"; pure st
  | ["radius", z, d] =>
    match natTok z, readF d with
    | some z, some d => pure { st with radius := st.radius.insert z d }
    | _, _ => do reply "ERR bad-op"; pure st
  | "nmr" :: rest => do
    match itemsThen rest with
    | some (s, []) => reply (showF (naturalMassRatio st.am s.atoms))
    | _ => reply "ERR bad-op"
    pure st
  | "ctor" :: rest => do
    match itemsThen rest with
    | some (s, [d, n]) =>
      match optF d, optF n with
      | some d, some n => reply (showOptF (ctorDensity st.am st.atomDens s.atoms d n))
      | _, _ => reply "ERR bad-op"
    | _ => reply "ERR bad-op"
    pure st
  | "strdens" :: rest => do
    match itemsThen rest with
    | some (s, [tag, d, n]) =>
      let tg : Option (Option (Float × Bool)) :=
        if tag = "-" then some none
        else if tag.startsWith "n" then (readF (tag.drop 1).toString).map fun v => some (v, true)
        else if tag.startsWith "i" then (readF (tag.drop 1).toString).map fun v => some (v, false)
        else none
      match tg, optF d, optF n with
      | some tg, some d, some n => reply (showOptF (stringDensity st.am st.atomDens s.atoms tg d n))
      | _, _, _ => reply "ERR bad-op"
    | _ => reply "ERR bad-op"
    pure st
  | "getnat" :: rest => do
    match itemsThen rest with
    | some (s, [d]) =>
      match readF d with
      | some d => reply (showF (getNaturalDensity st.am s.atoms d))
      | none => reply "ERR bad-op"
    | _ => reply "ERR bad-op"
    pure st
  | "setnat" :: rest => do
    match itemsThen rest with
    | some (s, [d]) =>
      match readF d with
      | some d => reply (showF (setNaturalDensity st.am s.atoms d))
      | none => reply "ERR bad-op"
    | _ => reply "ERR bad-op"
    pure st
  | "replace" :: rest => do
    match itemsThen rest with
    | some (s, [d, sz, sa, sq, tz, ta, tq, p]) =>
      match optF d, natTok sz, natTok sa, intTok sq, natTok tz, natTok ta, intTok tq, readF p with
      | some d, some sz, some sa, some sq, some tz, some ta, some tq, some p =>
        let (t2, d2) := substitute st.am s.atoms d ⟨sz, sa, sq⟩ ⟨tz, ta, tq⟩ p
        reply (showOptF d2 ++ " | " ++ showItems (hillS st.symFn t2))
      | _, _, _, _, _, _, _, _ => reply "ERR bad-op"
    | _ => reply "ERR bad-op"
    pure st
  | "volume" :: rest => do
    match itemsThen rest with
    | some (s, [pf]) =>
      match readF pf with
      | some pf => reply (showF (sphereVolume st.radiusFn s.atoms pf))
      | none => reply "ERR bad-op"
    | _ => reply "ERR bad-op"
    pure st
  | "volumen" :: rest => do
    match itemsThen rest with
    | some (s, [name]) =>
      match (PtGen.packingFactors (α := Float)).find? (·.1 = name) with
      | some (_, pf) => reply (showF (sphereVolume st.radiusFn s.atoms pf))
      | none => reply "ERR KeyError"
    | _ => reply "ERR bad-op"
    pure st
  | ["cellvol", a, b, c, al, be, ga] => do
    match readF a, optF b, optF c, optF al, optF be, optF ga with
    | some a, some b, some c, some al, some be, some ga => reply (showF (latticeVolume a b c al be ga))
    | _, _, _, _, _, _ => reply "ERR bad-op"
    pure st
  | "mix" :: rest => do
    match evalMix st rest with
    | some (some m, []) =>
      reply ("OK " ++ showItems m.f.s ++ " | " ++ showOptF m.f.density ++ " | " ++ showOptF m.totalMass
        ++ " | " ++ showOptF m.thickness)
    | some (none, []) => reply "ERR ValueError"
    | _ => reply "ERR bad-op"
    pure st
  | ["struct", r] => do withObj st r (fun s => reply (showItems s)); pure st
  | ["atoms", r] => do withObj st r (fun s => reply ("atoms " ++ showAList s.atoms)); pure st
  | ["mass", r] => do withObj st r (fun s => reply (showF (massOf st.am s.atoms))); pure st
  | ["charge", r] => do withObj st r (fun s => reply (showF (chargeOf s.atoms))); pure st
  | ["massfrac", r] => do
      withObj st r (fun s => reply ("atoms " ++ showAList (massFraction st.am s.atoms))); pure st
  | ["objid", r] => do
      match natTok r >>= st.heap.reg with
      | some i => reply s!"{i}"
      | none => reply "ERR unbound"
      pure st
  | _ => do reply "ERR bad-op"; pure st

end Driver.FormulaCmd
