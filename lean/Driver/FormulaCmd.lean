import Driver.Proto
import PtVerif.Model.FormulaOps
import PtVerif.Model.Symbols
import PtVerif.Model.Density
import PtVerif.Generated.FormulaConsts
import Std.Data.HashMap
/-! Driver sub-command `formula`: the formula algebra (C02, C19) at `Float`. -/
namespace Driver.FormulaCmd
open PtModel PtNum Driver

structure St where
  mass : Std.HashMap (Nat × Nat) Float := {}
  sym : Std.HashMap (Nat × Nat) Nat := {}
  me : Float := 0
  edens : Std.HashMap Nat Float := {}
  radius : Std.HashMap Nat Float := {}
  heap : Heap Float := Heap.empty

def init : St := {}

def St.massFn (st : St) (z a : Nat) : Float := (st.mass.get? (z, a)).getD (0.0 / 0.0)
def St.symFn (st : St) (z a : Nat) : Nat :=
  -- `sym` lines (a private table's symbols) override the generated table
  if st.sym.isEmpty then symOf z a else
  match st.sym.get? (z, a) with
  | some s => s
  | none => (st.sym.get? (z, 0)).getD 0
def St.am (st : St) : Atom → Float := atomMass st.massFn st.me

def St.atomDens (st : St) : Atom → Option Float := atomDensity st.massFn (fun z => st.edens.get? z)
def St.radiusFn (st : St) (x : Atom) : Float := (st.radius.get? x.z).getD (0.0 / 0.0)

def optF (s : String) : Option (Option Float) :=
  if s = "-" then some none else (readF s).map some
def showOptF : Option Float → String
  | none => "-"
  | some x => showF x

/-- split `… <items> rest` -/
def itemsThen (t : Toks) : Option (Items Float × Toks) := readItems t

def withObj (st : St) (r : String) (k : Items Float → IO Unit) : IO Unit :=
  match natTok r >>= st.heap.obj with
  | some s => k s
  | none => reply "ERR unbound"

def stepOp (st : St) (op : Op Float) : IO St :=
  match st.heap.step st.symFn op with
  | some h => do reply "ok"; pure { st with heap := h }
  | none => do reply "ERR unbound"; pure st

def handle (st : St) : Toks → IO St
  | ["mass", z, a, m] =>
    match natTok z, natTok a, readF m with
    | some z, some a, some m => pure { st with mass := st.mass.insert (z, a) m }
    | _, _, _ => do reply "ERR bad-op"; pure st
  | ["sym", z, a, code] =>
    match natTok z, natTok a, natTok code with
    | some z, some a, some c => pure { st with sym := st.sym.insert (z, a) c }
    | _, _, _ => do reply "ERR bad-op"; pure st
  | ["me", m] =>
    match readF m with
    | some m => pure { st with me := m }
    | none => do reply "ERR bad-op"; pure st
  | ["reset"] => pure { st with heap := Heap.empty }
  | "new" :: r :: rest =>
    match natTok r, readItems rest with
    | some r, some (s, []) => stepOp st (.new r s)
    | _, _ => do reply "ERR bad-op"; pure st
  | "dict" :: r :: rest =>
    match natTok r, readAList rest with
    | some r, some t => stepOp st (.dict r t)
    | _, _ => do reply "ERR bad-op"; pure st
  | ["copy", r, r2] =>
    match natTok r, natTok r2 with
    | some r, some r2 => stepOp st (.copy r r2)
    | _, _ => do reply "ERR bad-op"; pure st
  | ["same", r, r2] =>
    match natTok r, natTok r2 with
    | some r, some r2 => stepOp st (.same r r2)
    | _, _ => do reply "ERR bad-op"; pure st
  | ["add", r, r1, r2] =>
    match natTok r, natTok r1, natTok r2 with
    | some r, some r1, some r2 => stepOp st (.add r r1 r2)
    | _, _, _ => do reply "ERR bad-op"; pure st
  | ["mul", r, n, r1] =>
    match natTok r, readF n, natTok r1 with
    | some r, some n, some r1 => stepOp st (.mul r n r1)
    | _, _, _ => do reply "ERR bad-op"; pure st
  | ["iadd", r1, r2] =>
    match natTok r1, natTok r2 with
    | some r1, some r2 => stepOp st (.iadd r1 r2)
    | _, _ => do reply "ERR bad-op"; pure st
  | ["hill", r, r1] =>
    match natTok r, natTok r1 with
    | some r, some r1 => stepOp st (.hill r r1)
    | _, _ => do reply "ERR bad-op"; pure st
  | ["edens", z, d] =>
    match natTok z, readF d with
    | some z, some d => pure { st with edens := st.edens.insert z d }
    | _, _ => do reply "ERR bad-op"; pure st
  | ["radius", z, d] =>
    match natTok z, readF d with
    | some z, some d => pure { st with radius := st.radius.insert z d }
    | _, _ => do reply "ERR bad-op"; pure st
  | "nmr" :: rest => do
    match itemsThen rest with
    | some (s, []) => reply (showF (naturalMassRatio st.am s.atoms))
    | _ => reply "ERR bad-op"
    pure st
  | "ctor" :: rest => do
    match itemsThen rest with
    | some (s, [d, n]) =>
      match optF d, optF n with
      | some d, some n => reply (showOptF (ctorDensity st.am st.atomDens s.atoms d n))
      | _, _ => reply "ERR bad-op"
    | _ => reply "ERR bad-op"
    pure st
  | "strdens" :: rest => do
    match itemsThen rest with
    | some (s, [tag, d, n]) =>
      let tg : Option (Option (Float × Bool)) :=
        if tag = "-" then some none
        else if tag.startsWith "n" then (readF (tag.drop 1).toString).map fun v => some (v, true)
        else if tag.startsWith "i" then (readF (tag.drop 1).toString).map fun v => some (v, false)
        else none
      match tg, optF d, optF n with
      | some tg, some d, some n => reply (showOptF (stringDensity st.am st.atomDens s.atoms tg d n))
      | _, _, _ => reply "ERR bad-op"
    | _ => reply "ERR bad-op"
    pure st
  | "getnat" :: rest => do
    match itemsThen rest with
    | some (s, [d]) =>
      match readF d with
      | some d => reply (showF (getNaturalDensity st.am s.atoms d))
      | none => reply "ERR bad-op"
    | _ => reply "ERR bad-op"
    pure st
  | "setnat" :: rest => do
    match itemsThen rest with
    | some (s, [d]) =>
      match readF d with
      | some d => reply (showF (setNaturalDensity st.am s.atoms d))
      | none => reply "ERR bad-op"
    | _ => reply "ERR bad-op"
    pure st
  | "replace" :: rest => do
    match itemsThen rest with
    | some (s, [d, sz, sa, sq, tz, ta, tq, p]) =>
      match optF d, natTok sz, natTok sa, intTok sq, natTok tz, natTok ta, intTok tq, readF p with
      | some d, some sz, some sa, some sq, some tz, some ta, some tq, some p =>
        let (t2, d2) := substitute st.am s.atoms d ⟨sz, sa, sq⟩ ⟨tz, ta, tq⟩ p
        reply (showOptF d2 ++ " | " ++ showItems (hillS st.symFn t2))
      | _, _, _, _, _, _, _, _ => reply "ERR bad-op"
    | _ => reply "ERR bad-op"
    pure st
  | "volume" :: rest => do
    match itemsThen rest with
    | some (s, [pf]) =>
      match readF pf with
      | some pf => reply (showF (sphereVolume st.radiusFn s.atoms pf))
      | none => reply "ERR bad-op"
    | _ => reply "ERR bad-op"
    pure st
  | "volumen" :: rest => do
    match itemsThen rest with
    | some (s, [name]) =>
      match (PtGen.packingFactors (α := Float)).find? (·.1 = name) with
      | some (_, pf) => reply (showF (sphereVolume st.radiusFn s.atoms pf))
      | none => reply "ERR KeyError"
    | _ => reply "ERR bad-op"
    pure st
  | ["cellvol", a, b, c, al, be, ga] => do
    match readF a, optF b, optF c, optF al, optF be, optF ga with
    | some a, some b, some c, some al, some be, some ga => reply (showF (latticeVolume a b c al be ga))
    | _, _, _, _, _, _ => reply "ERR bad-op"
    pure st
  | ["struct", r] => do withObj st r (fun s => reply (showItems s)); pure st
  | ["atoms", r] => do withObj st r (fun s => reply ("atoms " ++ showAList s.atoms)); pure st
  | ["mass", r] => do withObj st r (fun s => reply (showF (massOf st.am s.atoms))); pure st
  | ["charge", r] => do withObj st r (fun s => reply (showF (chargeOf s.atoms))); pure st
  | ["massfrac", r] => do
      withObj st r (fun s => reply ("atoms " ++ showAList (massFraction st.am s.atoms))); pure st
  | ["objid", r] => do
      match natTok r >>= st.heap.reg with
      | some i => reply s!"{i}"
      | none => reply "ERR unbound"
      pure st
  | _ => do reply "ERR bad-op"; pure st

end Driver.FormulaCmd
