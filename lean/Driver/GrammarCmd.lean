import Driver.Proto
import PtVerif.Model.Print
import PtVerif.Model.GrammarTable
/-! Driver sub-command `grammar`: the formula grammar (C01) and the printer (C13).

Texts cross the protocol as comma-separated code points (`-` = empty text).
Requests:
* `tblgen` / `tblnew` / `ent c1,c2 z alias isos ions` – select the generated table, or define one
* `tbldump` – the current table
* `parse <text>` → `OK <items> <dens>` | `FAIL` | `ABORT`
* `print <qitems>` / `str <name> <qitems>` / `repr <name> <qitems>` → `S <text>`
* `fmtg n d` / `strcount n d` → `S <text>`;  `round6 n d` → `C num dec`
* `roundtrip <qitems>` → `OK <items> <dens>` of parsing the printed text, and `EXP <items>` =
  `norm (roundItems …)` on a second token group
-/
namespace Driver.GrammarCmd
open Driver PtModel PtModel.Grammar PtModel.Print

structure St where
  table : Table := genTable

def init : St := {}

def encText (cs : List Char) : String :=
  if cs.isEmpty then "-" else ",".intercalate (cs.map fun c => toString c.toNat)

def decText (s : String) : Option (List Char) :=
  if s = "-" then some [] else
  (s.splitOn ",").foldr (fun t acc => do
    let r ← acc
    let n ← t.toNat?
    pure (Char.ofNat n :: r)) (some [])

def natList (s : String) : Option (List Nat) :=
  if s = "-" then some [] else (s.splitOn ",").mapM String.toNat?
def intList (s : String) : Option (List Int) :=
  if s = "-" then some [] else (s.splitOn ",").mapM String.toInt?

mutual
partial def showFragC : Frag Cnt → String
  | .atom x => s!"a {x.z} {x.a} {x.q}"
  | .group is => "g " ++ showItemsC is
partial def showItemsC (is : Items Cnt) : String :=
  "[ " ++ String.join (is.toList.map fun (c, f) => s!"{c.num} {c.dec} " ++ showFragC f ++ " ") ++ "]"
end

def showDens : Option Dens → String
  | none => "-"
  | some (.iso c) => s!"i {c.num} {c.dec}"
  | some (.nat c) => s!"n {c.num} {c.dec}"

def readQ (s : String) : Option Q :=
  match s.splitOn "/" with
  | [n, d] => do let n ← n.toNat?; let d ← d.toNat?; some ⟨n, d⟩
  | _ => none

/-- qitems := "[" (n/d "a" z A q | n/d "g" qitems)* "]" -/
partial def readQItems : Toks → Option (Items Q × Toks)
  | "[" :: r => go r
  | _ => none
where
  go : Toks → Option (Items Q × Toks)
    | "]" :: r => some (.nil, r)
    | c :: "a" :: z :: a :: q :: r => do
        let c ← readQ c; let z ← natTok z; let a ← natTok a; let q ← intTok q
        let (rest, r') ← go r
        some (.cons c (.atom ⟨z, a, q⟩) rest, r')
    | c :: "g" :: r => do
        let c ← readQ c
        let (inner, r1) ← readQItems r
        let (rest, r2) ← go r1
        some (.cons c (.group inner) rest, r2)
    | _ => none

def showParse : Except Err (Items Cnt × Option Dens) → String
  | .ok (fs, d) => "OK " ++ showItemsC fs ++ " " ++ showDens d
  | .error .fail => "FAIL"
  | .error .abort => "ABORT"

def bad (st : St) : IO St := do reply "ERR bad-op"; pure st

def handle (st : St) : Toks → IO St
  | ["tblgen"] => do reply "ok"; pure { st with table := genTable }
  | ["tblnew"] => do reply "ok"; pure { st with table := [] }
  | ["ent", sym, z, al, isos, ions] =>
    match decText sym, natTok z, natTok al, natList isos, intList ions with
    | some sym, some z, some al, some isos, some ions => do
      reply "ok"
      pure { st with table := st.table ++ [{ sym := sym, z := z, alias := al, isos := isos, ions := ions }] }
    | _, _, _, _, _ => bad st
  | ["tbldump"] => do
    reply (" ".intercalate (st.table.map fun e =>
      s!"{encText e.sym}|{e.z}|{e.alias}|{",".intercalate (e.isos.map toString)}|{",".intercalate (e.ions.map toString)}"))
    pure st
  | ["parse", t] =>
    match decText t with
    | some cs => do reply (showParse (parse st.table cs)); pure st
    | none => bad st
  | "print" :: rest =>
    match readQItems rest with
    | some (s, []) => do reply ("S " ++ encText (strItems st.table s)); pure st
    | _ => bad st
  | "str" :: name :: rest =>
    match decText name, readQItems rest with
    | some nm, some (s, []) => do
      reply ("S " ++ encText (strFormula st.table (if nm.isEmpty then none else some nm) s)); pure st
    | _, _ => bad st
  | "repr" :: name :: rest =>
    match decText name, readQItems rest with
    | some nm, some (s, []) => do
      reply ("S " ++ encText (reprFormula st.table (if nm.isEmpty then none else some nm) s)); pure st
    | _, _ => bad st
  | ["fmtg", n, d] =>
    match natTok n, natTok d with
    | some n, some d => do reply ("S " ++ encText (fmtG6 ⟨n, d⟩)); pure st
    | _, _ => bad st
  | ["strcount", n, d] =>
    match natTok n, natTok d with
    | some n, some d => do reply ("S " ++ encText (strCount ⟨n, d⟩)); pure st
    | _, _ => bad st
  | ["round6", n, d] =>
    match natTok n, natTok d with
    | some n, some d => do let c := round6 ⟨n, d⟩; reply s!"C {c.num} {c.dec}"; pure st
    | _, _ => bad st
  | "roundtrip" :: rest =>
    match readQItems rest with
    | some (s, []) => do
      reply (showParse (parse st.table (strItems st.table s)) ++ " EXP " ++ showItemsC (norm (roundItems s)))
      pure st
    | _ => bad st
  | _ => bad st

end Driver.GrammarCmd
