import Driver.Proto
import PtVerif.Model.Print
import PtVerif.Model.GrammarTable
import PtVerif.Model.GrammarSpec
import PtVerif.Model.GrammarMix
/-! Driver sub-command `grammar`: the formula grammar (C01) and the printer (C13).

Texts cross the protocol as comma-separated code points (`-` = empty text).
Requests:
* `tblgen` / `tblnew` / `ent c1,c2 z alias isos ions` – select the generated table, or define one
* `tbldump` – the current table
* `parse <text>` → `OK <items> <dens>` | `FAIL` | `ABORT`
* `parsemix <text>` → `OK <mixture term>` | `FAIL` | `ABORT`: the whole top-level grammar (Model/GrammarMix.lean);
  term := ( C items dens ) | ( G term dens ) | ( W (p num dec term)* term ) | ( V … ) |
  ( L (q num dec unit term | r num dec term)* ) | ( M … )
* `print <qitems>` / `str <name> <qitems>` / `repr <name> <qitems>` → `S <text>`
* `fmtg n d` / `strcount n d` → `S <text>`;  `round6 n d` → `C num dec`
* `deriv <derivation>` → `D <canon 0|1> <text> (OK <items> <dens> | NONE)`: the yield of a derivation of
  Model/GrammarSpec.lean, whether it is canonical, and what it denotes in the current table
* `roundtrip <qitems>` → `OK <items> <dens>` of parsing the printed text, and `EXP <items>` =
  `norm (roundItems …)` on a second token group
-/
namespace Driver.GrammarCmd
open Driver PtModel PtModel.Grammar PtModel.Print

structure St where
  table : Table := genTable

def init : St := {}

def encText (cs : List Char) : String :=
  if cs.isEmpty then "-" else ",".intercalate (cs.map fun c => toString c.toNat)

def decText (s : String) : Option (List Char) :=
  if s = "-" then some [] else
  (s.splitOn ",").foldr (fun t acc => do
    let r ← acc
    let n ← t.toNat?
    pure (Char.ofNat n :: r)) (some [])

def natList (s : String) : Option (List Nat) :=
  if s = "-" then some [] else (s.splitOn ",").mapM String.toNat?
def intList (s : String) : Option (List Int) :=
  if s = "-" then some [] else (s.splitOn ",").mapM String.toInt?

mutual
partial def showFragC : Frag Cnt → String
  | .atom x => s!"a {x.z} {x.a} {x.q}"
  | .group is => "g " ++ showItemsC is
partial def showItemsC (is : Items Cnt) : String :=
  "[ " ++ String.join (is.toList.map fun (c, f) => s!"{c.num} {c.dec} " ++ showFragC f ++ " ") ++ "]"
end

def showDens : Option Dens → String
  | none => "-"
  | some (.iso c) => s!"i {c.num} {c.dec}"
  | some (.nat c) => s!"n {c.num} {c.dec}"

def readQ (s : String) : Option Q :=
  match s.splitOn "/" with
  | [n, d] => do let n ← n.toNat?; let d ← d.toNat?; some ⟨n, d⟩
  | _ => none

/-- qitems := "[" (n/d "a" z A q | n/d "g" qitems)* "]" -/
partial def readQItems : Toks → Option (Items Q × Toks)
  | "[" :: r => go r
  | _ => none
where
  go : Toks → Option (Items Q × Toks)
    | "]" :: r => some (.nil, r)
    | c :: "a" :: z :: a :: q :: r => do
        let c ← readQ c; let z ← natTok z; let a ← natTok a; let q ← intTok q
        let (rest, r') ← go r
        some (.cons c (.atom ⟨z, a, q⟩) rest, r')
    | c :: "g" :: r => do
        let c ← readQ c
        let (inner, r1) ← readQItems r
        let (rest, r2) ← go r1
        some (.cons c (.group inner) rest, r2)
    | _ => none

mutual
partial def showMix : Mix → String
  | .compound fs d => "( C " ++ showItemsC fs ++ " " ++ showDens d ++ " )"
  | .grouped m d => "( G " ++ showMix m ++ " " ++ showDens d ++ " )"
  | .byWeight ps b => "( W " ++ showPct ps ++ showMix b ++ " )"
  | .byVolume ps b => "( V " ++ showPct ps ++ showMix b ++ " )"
  | .byLayer ps => "( L " ++ showQty ps ++ ")"
  | .byMass ps => "( M " ++ showQty ps ++ ")"
partial def showPct : PctParts → String
  | .nil => ""
  | .cons c m r => s!"p {c.num} {c.dec} " ++ showMix m ++ " " ++ showPct r
partial def showQty : QtyParts → String
  | .nil => ""
  | .qty c u m r => s!"q {c.num} {c.dec} {u} " ++ showMix m ++ " " ++ showQty r
  | .rep i c r => s!"r {c.num} {c.dec} " ++ showMix i ++ " " ++ showQty r
end

def showParse : Except Err (Items Cnt × Option Dens) → String
  | .ok (fs, d) => "OK " ++ showItemsC fs ++ " " ++ showDens d
  | .error .fail => "FAIL"
  | .error .abort => "ABORT"

def bad (st : St) : IO St := do reply "ERR bad-op"; pure st

/-! reading a derivation (Model/GrammarSpec.lean) from tokens:
  cnt   := c0 | cw <ds> | cf <i> <f>
  elem  := e <pre> <sym> (i0 | i1 <b1> <ds> <b2>) (q0 | q1 <b1> <mag> <0|1 neg> <b2>) cnt
  group := I cnt <k> elem*k | X <b0> <b1> comp <b2> <b3> cnt
  comp  := [ group (s <b1> <0|1 plus> <b2> group)* ]
  whole := E <b> | F <lead> comp (d0 | d1 <b0> cnt <b1> <n|i|->) <trail> -/
def rdCnt : Toks → Option (CntTok × Toks)
  | "c0" :: r => some (.none, r)
  | "cw" :: ds :: r => do let ds ← decText ds; some (.whole ds, r)
  | "cf" :: i :: f :: r => do let i ← decText i; let f ← decText f; some (.fract i f, r)
  | _ => none

def rdElem : Toks → Option (Elem × Toks)
  | "e" :: pre :: sym :: r => do
    let pre ← decText pre
    let sym ← decText sym
    let (iso, r) ← (match r with
      | "i0" :: r => some (none, r)
      | "i1" :: b1 :: ds :: b2 :: r => do
        let b1 ← decText b1; let ds ← decText ds; let b2 ← decText b2
        some (some (⟨b1, ds, b2⟩ : IsoTok), r)
      | _ => none)
    let (ion, r) ← (match r with
      | "q0" :: r => some (none, r)
      | "q1" :: b1 :: mag :: neg :: b2 :: r => do
        let b1 ← decText b1; let mag ← decText mag; let b2 ← decText b2
        some (some (⟨b1, mag, neg == "1", b2⟩ : IonTok), r)
      | _ => none)
    let (cnt, r) ← rdCnt r
    some (⟨pre, sym, iso, ion, cnt⟩, r)
  | _ => none

def rdElems : Nat → Toks → Option (List Elem × Toks)
  | 0, r => some ([], r)
  | k + 1, r => do
    let (e, r) ← rdElem r
    let (es, r) ← rdElems k r
    some (e :: es, r)

mutual
partial def rdGroup : Toks → Option (Group × Toks)
  | "I" :: r => do
    let (lead, r) ← rdCnt r
    match r with
    | k :: r => do
      let k ← k.toNat?
      let (es, r) ← rdElems k r
      some (.implicit lead es, r)
    | _ => none
  | "X" :: b0 :: b1 :: r => do
    let b0 ← decText b0; let b1 ← decText b1
    let (inner, r) ← rdComp r
    match r with
    | b2 :: b3 :: r => do
      let b2 ← decText b2; let b3 ← decText b3
      let (cnt, r) ← rdCnt r
      some (.explicit b0 b1 inner b2 b3 cnt, r)
    | _ => none
  | _ => none
partial def rdComp : Toks → Option (Comp × Toks)
  | "[" :: r => do
    let (g, r) ← rdGroup r
    rdMore g r
  | _ => none
partial def rdMore (g : Group) : Toks → Option (Comp × Toks)
  | "]" :: r => some (.one g, r)
  | "s" :: b1 :: plus :: b2 :: r => do
    let b1 ← decText b1; let b2 ← decText b2
    let (g2, r) ← rdGroup r
    let (rest, r) ← rdMore g2 r
    some (.more g ⟨b1, plus == "1", b2⟩ rest, r)
  | _ => none
end

def rdCompound : Toks → Option Compound
  | ["E", b] => do let b ← decText b; some (.empty b)
  | "F" :: lead :: r => do
    let lead ← decText lead
    let (comp, r) ← rdComp r
    let (dens, r) ← (match r with
      | "d0" :: r => some (none, r)
      | "d1" :: b0 :: r => do
        let b0 ← decText b0
        let (cnt, r) ← rdCnt r
        match r with
        | b1 :: tag :: r => do
          let b1 ← decText b1
          some (some (⟨b0, cnt, b1, if tag == "n" then some true else if tag == "i" then some false else none⟩ : DensTok), r)
        | _ => none
      | _ => none)
    match r with
    | [trail] => do let trail ← decText trail; some (.full lead comp dens trail)
    | _ => none
  | _ => none

def handle (st : St) : Toks → IO St
  | ["tblgen"] => do reply "ok"; pure { st with table := genTable }
  | ["tblnew"] => do reply "ok"; pure { st with table := [] }
  | ["ent", sym, z, al, isos, ions] =>
    match decText sym, natTok z, natTok al, natList isos, intList ions with
    | some sym, some z, some al, some isos, some ions => do
      reply "ok"
      pure { st with table := st.table ++ [{ sym := sym, z := z, alias := al, isos := isos, ions := ions }] }
    | _, _, _, _, _ => bad st
  | ["tbldump"] => do
    reply (" ".intercalate (st.table.map fun e =>
      s!"{encText e.sym}|{e.z}|{e.alias}|{",".intercalate (e.isos.map toString)}|{",".intercalate (e.ions.map toString)}"))
    pure st
  | ["parse", t] =>
    match decText t with
    | some cs => do reply (showParse (parse st.table cs)); pure st
    | none => bad st
  | ["parsemix", t] =>
    match decText t with
    | some cs => do
      reply (match parseTop st.table cs with
        | .ok m => "OK " ++ showMix m
        | .error .fail => "FAIL"
        | .error .abort => "ABORT")
      pure st
    | none => bad st
  | "print" :: rest =>
    match readQItems rest with
    | some (s, []) => do reply ("S " ++ encText (strItems st.table s)); pure st
    | _ => bad st
  | "str" :: name :: rest =>
    match decText name, readQItems rest with
    | some nm, some (s, []) => do
      reply ("S " ++ encText (strFormula st.table (if nm.isEmpty then none else some nm) s)); pure st
    | _, _ => bad st
  | "repr" :: name :: rest =>
    match decText name, readQItems rest with
    | some nm, some (s, []) => do
      reply ("S " ++ encText (reprFormula st.table (if nm.isEmpty then none else some nm) s)); pure st
    | _, _ => bad st
  | ["fmtg", n, d] =>
    match natTok n, natTok d with
    | some n, some d => do reply ("S " ++ encText (fmtG6 ⟨n, d⟩)); pure st
    | _, _ => bad st
  | ["strcount", n, d] =>
    match natTok n, natTok d with
    | some n, some d => do reply ("S " ++ encText (strCount ⟨n, d⟩)); pure st
    | _, _ => bad st
  | ["round6", n, d] =>
    match natTok n, natTok d with
    | some n, some d => do let c := round6 ⟨n, d⟩; reply s!"C {c.num} {c.dec}"; pure st
    | _, _ => bad st
  | "deriv" :: rest =>
    match rdCompound rest with
    | some D => do
      let res := match D.result st.table with
        | some (fs, d) => "OK " ++ showItemsC fs ++ " " ++ showDens d
        | none => "NONE"
      reply s!"D {if D.canon then 1 else 0} {encText D.text} {res}"
      pure st
    | none => bad st
  | "roundtrip" :: rest =>
    match readQItems rest with
    | some (s, []) => do
      reply (showParse (parse st.table (strItems st.table s)) ++ " EXP " ++ showItemsC (norm (roundItems s)))
      pure st
    | _ => bad st
  | _ => bad st

end Driver.GrammarCmd
