/-! # C18 — (stub: property theorems go here; see docs/BUILDING.md) -/
namespace PtVerif.C18
end PtVerif.C18
