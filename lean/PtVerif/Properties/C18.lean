import PtVerif.Proofs.Fasta
/-!
# C18 — biomolecule sequences are the sum of their residues; FASTA reading

Model: `PtVerif.Model.Fasta` (tied to fasta.py / formulas.py by `harness/ptv/props/C18.py`).
-/
namespace PtVerif.C18
open PtModel PtModel.Fasta

variable {α : Type}

/-- a sequence that is accepted is built from the table entries of its cleaned code string; its
    atoms, cell volume and charge are the sums over those residues – for *every* code table -/
theorem sequence_is_sum [Field α] [LinearOrder α] (am : Atom → α) (t : Table α) (s : List Char)
    (m : Mol α) (h : sequence am t s = some m) :
    ∃ parts, lookupAll t (clean s) = some parts ∧
      (∀ b, lookupD m.labile.atoms b = (parts.map (·.struct.cnt b)).sum) ∧
      m.vol = (parts.map (·.vol)).sum ∧ m.charge = (parts.map (·.charge)).sum := by
  unfold sequence at h
  cases hl : lookupAll t (clean s) with
  | none => simp [hl] at h
  | some parts =>
    simp only [hl, Option.some.injEq] at h
    subst h
    refine ⟨parts, rfl, ?_, ?_, ?_⟩
    · intro b
      simp only [molecule]
      rw [lookup_hill_atoms, joinStruct_cnt]
    · simp only [molecule]; exact sumVol_eq parts
    · simp only [molecule]; exact sumCharge_eq parts

end PtVerif.C18
