import PtVerif.Proofs.Fasta
/-!
# C18 — biomolecule sequences are the sum of their residues; FASTA reading

Model: `PtVerif.Model.Fasta` (tied to fasta.py / formulas.py on every run by
`harness/ptv/props/C18.py`: translator for the code tables, differential correspondence with
`ptdriver fasta`, exact oracle over the residue entries of the real tables).

The sequence theorems hold for *every* code table, every code string (any length) and every
linearly ordered field of numbers; the FASTA theorems for every list of lines.  An unknown code
(`KeyError`) is `none`.  Floating-point rounding of the sums is not covered.
-/
namespace PtVerif.C18
open PtModel PtModel.Fasta

variable {α : Type}

/-! ## a sequence is the sum of its residues -/

/-- an accepted sequence is built from the table entries of its cleaned code string; formula
    (atom counts), cell volume, charge, mass (H form) and Dmass are the sums over those residues
    of the residue's own value (the residue's mass being the mass of its `Molecule`) -/
theorem sequence_is_sum [Field α] [LinearOrder α] (am : Atom → α) (t : Table α) (s : List Char)
    (m : Mol α) (h : sequence am t s = some m) :
    ∃ parts, lookupAll t (clean s) = some parts ∧
      (∀ b, lookupD m.labile.atoms b = (parts.map (·.struct.cnt b)).sum) ∧
      m.vol = (parts.map (·.vol)).sum ∧ m.charge = (parts.map (·.charge)).sum ∧
      m.mass = (parts.map fun p => (molecule am p.struct p.vol p.charge).mass).sum ∧
      m.dmass = (parts.map fun p => (molecule am p.struct p.vol p.charge).dmass).sum := by
  obtain ⟨parts, hl, rfl⟩ := sequence_some am t s m h
  refine ⟨parts, hl, ?_, sumVol_eq parts, sumCharge_eq parts, ?_, ?_⟩
  · intro b
    simp only [molecule]
    rw [lookup_hill_atoms, joinStruct_cnt]
  · rw [molecule_mass, seq_flatMass]
    congr 1
    apply List.map_congr_left
    intro p _; rw [molecule_mass]
  · rw [molecule_dmass, seq_flatMass]
    congr 1
    apply List.map_congr_left
    intro p _; rw [molecule_dmass]

/-- the natural formula (labile H[1] written as H) is likewise the sum of the residues' natural
    formulas -/
theorem natural_formula_is_sum [Field α] [LinearOrder α] (am : Atom → α) (t : Table α)
    (s : List Char) (m : Mol α) (h : sequence am t s = some m) :
    ∃ parts, lookupAll t (clean s) = some parts ∧
      ∀ b, lookupD m.natural.atoms b
        = (parts.map fun p => lookupD (molecule am p.struct p.vol p.charge).natural.atoms b).sum := by
  obtain ⟨parts, hl, rfl⟩ := sequence_some am t s m h
  refine ⟨parts, hl, fun b => ?_⟩
  rw [natural_counts, seq_flatMass]
  congr 1
  apply List.map_congr_left
  intro p _; rw [natural_counts]

/-- a code that is not in the table makes the constructor raise (`KeyError`), and only that -/
theorem sequence_rejects_iff_unknown_code [Field α] [LinearOrder α] (am : Atom → α) (t : Table α)
    (s : List Char) : sequence am t s = none ↔ ∃ c ∈ clean s, t.find c = none := by
  unfold sequence
  rw [lookupAll_eq]
  by_cases hall : ∀ c ∈ clean s, (t.find c).isSome
  · rw [if_pos hall]
    simp only [reduceCtorEq, false_iff, not_exists, not_and]
    intro c hc hn
    have := hall c hc
    simp [hn] at this
  · rw [if_neg hall]
    simp only [true_iff]
    push_neg at hall
    obtain ⟨c, hc, hn⟩ := hall
    exact ⟨c, hc, by simpa using hn⟩

/-- independent of residue order: any permutation of the (cleaned) codes gives the same cell
    volume, charge, masses, density and atom counts -/
theorem perm_invariant [Field α] [LinearOrder α] (am : Atom → α) (t : Table α) (s s' : List Char)
    (m : Mol α) (h : sequence am t s = some m) (hp : (clean s).Perm (clean s')) :
    ∃ m', sequence am t s' = some m' ∧ m'.vol = m.vol ∧ m'.charge = m.charge ∧
      m'.mass = m.mass ∧ m'.dmass = m.dmass ∧ m'.density = m.density ∧
      ∀ b, lookupD m'.labile.atoms b = lookupD m.labile.atoms b := by
  obtain ⟨parts, hl, rfl⟩ := sequence_some am t s m h
  obtain ⟨parts', hl', hpp⟩ := lookupAll_perm t _ _ parts hl hp
  refine ⟨_, sequence_of_parts am t s' parts' hl', ?_, ?_, ?_, ?_, ?_, ?_⟩
  · show sumVol parts' = sumVol parts
    rw [sumVol_eq, sumVol_eq]; exact ((hpp.map _).sum_eq).symm
  · show sumCharge parts' = sumCharge parts
    rw [sumCharge_eq, sumCharge_eq]; exact ((hpp.map _).sum_eq).symm
  · rw [molecule_mass, molecule_mass, seq_flatMass, seq_flatMass]; exact ((hpp.map _).sum_eq).symm
  · rw [molecule_dmass, molecule_dmass, seq_flatMass, seq_flatMass]; exact ((hpp.map _).sum_eq).symm
  · rw [molecule_density, molecule_density, seq_flatMass, seq_flatMass, sumVol_eq, sumVol_eq,
      (hpp.map (·.vol)).sum_eq, (hpp.map (·.struct.flatMass am)).sum_eq]
  · intro b
    simp only [molecule]
    rw [lookup_hill_atoms, lookup_hill_atoms, joinStruct_cnt, joinStruct_cnt]
    exact ((hpp.map _).sum_eq).symm

/-- a permutation of a string without `*` is a permutation of its cleaned codes -/
theorem perm_of_raw_strings (s s' : List Char) (h : '*' ∉ s) (hp : s.Perm s') :
    (clean s).Perm (clean s') := clean_perm s s' h hp

/-- everything after the first `*` is dropped and blanks are ignored -/
theorem star_and_spaces (s t : List Char) :
    ('*' ∉ s → clean (s ++ '*' :: t) = clean s) ∧
    (∀ s' : List Char, s.filter notBlank = s'.filter notBlank → clean s = clean s') ∧
    (∀ c ∈ clean s, c ≠ ' ' ∧ c ≠ '*') := by
  refine ⟨clean_append_star s t, clean_blank_invariant s, ?_⟩
  intro c hc
  unfold clean at hc
  rw [List.mem_filter] at hc
  refine ⟨by simpa using hc.2, ?_⟩
  have := mem_tw _ _ _ hc.1
  simpa using this

/-- … hence two strings with the same cleaned codes are the same sequence -/
theorem sequence_depends_on_clean [Field α] [LinearOrder α] (am : Atom → α) (t : Table α)
    (s s' : List Char) (h : clean s = clean s') : sequence am t s = sequence am t s' := by
  unfold sequence; rw [h]

/-! ## ambiguity codes -/

/-- `_code_average` over `n > 0` residues: atom counts, volume and charge are the equal-weight
    average (sum divided by `n`) of the residues' -/
theorem average_code [Field α] [LinearOrder α] (t : Table α) (bases : List Char)
    (f : Items α) (v c : α) (h : codeAverage t bases = some (f, v, c)) (hn : 0 < bases.length) :
    ∃ parts, lookupAll t bases = some parts ∧
      (∀ b, f.cnt b = (parts.map (·.struct.cnt b)).sum * (1 / (bases.length : α))) ∧
      v = (parts.map (·.vol)).sum / (bases.length : α) ∧
      c = (parts.map (·.charge)).sum / (bases.length : α) := by
  unfold codeAverage at h
  cases hl : lookupAll t bases with
  | none => simp [hl] at h
  | some parts =>
    simp only [hl, gt_iff_lt, hn, if_true, Option.some.injEq, Prod.mk.injEq] at h
    obtain ⟨rfl, rfl, rfl⟩ := h
    refine ⟨parts, rfl, ?_, ?_, ?_⟩
    · intro b; rw [cnt_rmulS, joinStruct_cnt]
    · rw [sumVol_eq]
    · rw [sumCharge_eq]

/-- with no residue (`-`, `X` of the nucleotide tables) the average is the empty molecule -/
theorem average_code_empty [Field α] [LinearOrder α] (t : Table α) :
    codeAverage t [] = some (Items.nil, 0, 0) := by
  simp [codeAverage, lookupAll, joinStruct, sumVol, sumCharge]

/-- an averaged code is stored under its own key (and leaves the other entries alone) -/
theorem average_is_stored (t : Table α) (c d : Char) (r : Residue α) :
    (t.insert c r).find c = some r ∧ (c ≠ d → (t.insert c r).find d = t.find d) :=
  ⟨Table.find_insert_self t c r, Table.find_insert_ne t c d r⟩

/-! ## density -/

/-- density is mass over cell volume: `density·V = 1e24·(mass/N_A)` for `V > 0`, and `0` for an
    empty sequence (`V = 0`); the mass is that of the labile formula -/
theorem density_is_mass_over_volume [Field α] [LinearOrder α] [IsStrictOrderedRing α]
    (am : Atom → α) (s : Items α) (V c : α) :
    (0 < V → (molecule am s V c).density * V = e24 * (s.flatMass am / PtGen.avogadro_number)) ∧
    (V ≤ 0 → (molecule am s V c).density = 0) := by
  rw [molecule_density]
  constructor
  · intro hV; rw [if_pos hV]; field_simp
  · intro hV; rw [if_neg (not_lt.mpr hV)]

/-! ## `aa:` / `dna:` / `rna:` prefixes -/

/-- `formula("aa:<codes>")` is `Sequence(<codes>, type="aa").labile_formula`, for any code string
    (further colons included); likewise `dna:` and `rna:` -/
theorem prefix_eq_class (s : List Char) :
    dispatch (['a', 'a'] ++ ':' :: s) = .seq .aa s ∧
    dispatch (['d', 'n', 'a'] ++ ':' :: s) = .seq .dna s ∧
    dispatch (['r', 'n', 'a'] ++ ':' :: s) = .seq .rna s := by
  refine ⟨?_, ?_, ?_⟩ <;>
  · unfold dispatch
    rw [splitColon_append _ _ (by decide)]
    simp [typeOfPrefix]

/-- … and nothing else is read as a sequence -/
theorem only_prefixes_dispatch (s r : List Char) (ty : SeqType) (h : dispatch s = .seq ty r) :
    ∃ p, typeOfPrefix p = some ty ∧ s = p ++ ':' :: r ∧ ':' ∉ p := by
  unfold dispatch at h
  cases hs : splitColon s with
  | none => simp [hs] at h
  | some pq =>
    obtain ⟨p, q⟩ := pq
    simp only [hs] at h
    cases ht : typeOfPrefix p with
    | none => simp [ht] at h
    | some ty' =>
      simp only [ht, Dispatch.seq.injEq] at h
      obtain ⟨rfl, rfl⟩ := h
      obtain ⟨e1, e2⟩ := splitColon_some s p q hs
      exact ⟨p, ht, e1, e2⟩

/-! ## FASTA reading -/

/-- one record per header line (a line that, stripped, starts with `>`), whose sequence is the
    concatenation of the stripped lines that follow it up to the next header; lines before the
    first header are dropped -/
theorem readFasta_groups (pre : List (List Char)) (blocks : List (List Char × List (List Char)))
    (hpre : ∀ l ∈ pre, headerLine l = false)
    (hh : ∀ b ∈ blocks, headerLine b.1 = true)
    (hb : ∀ b ∈ blocks, ∀ l ∈ b.2, headerLine l = false) :
    readFasta (pre ++ render blocks) = blocks.map recordOf :=
  readFasta_blocks pre blocks hpre hh hb

/-- every list of lines has that shape, so the statement above covers every input -/
theorem readFasta_covers_all_inputs (ls : List (List Char)) :
    ∃ pre blocks, ls = pre ++ render blocks ∧ (∀ l ∈ pre, headerLine l = false) ∧
      (∀ b ∈ blocks, headerLine b.1 = true) ∧ (∀ b ∈ blocks, ∀ l ∈ b.2, headerLine l = false) :=
  lines_decompose ls

/-- the number of records is the number of header lines -/
theorem readFasta_one_record_per_header (ls : List (List Char)) :
    (readFasta ls).length = (ls.filter headerLine).length := readFasta_length ls

/-- typed by the file extension unless a type is given -/
theorem type_from_extension (f : List Char) :
    (∀ ty, guessType f (some ty) = ty) ∧
    (endsWith f ['.', 'f', 'n', 'a'] = true ∨ endsWith f ['.', 'f', 'f', 'n'] = true →
      guessType f none = ['d', 'n', 'a']) ∧
    (endsWith f ['.', 'f', 'a', 'a'] = true → guessType f none = ['a', 'a']) ∧
    (endsWith f ['.', 'f', 'r', 'n'] = true → guessType f none = ['r', 'n', 'a']) ∧
    (endsWith f ['.', 'f', 'n', 'a'] = false → endsWith f ['.', 'f', 'f', 'n'] = false →
      endsWith f ['.', 'f', 'r', 'n'] = false → guessType f none = ['a', 'a']) := by
  have hdisj : ∀ (a b : List Char), a.length = b.length → a ≠ b →
      endsWith f a = true → endsWith f b = false := by
    intro a b hlen hne ha
    by_contra hb
    have hb' : endsWith f b = true := by simpa using hb
    unfold endsWith at ha hb'
    rw [List.isSuffixOf_iff_suffix] at ha hb'
    rcases List.suffix_or_suffix_of_suffix ha hb' with h | h
    · exact hne (h.eq_of_length hlen)
    · exact hne (h.eq_of_length hlen.symm).symm
  refine ⟨fun ty => rfl, ?_, ?_, ?_, ?_⟩
  · rintro (h | h)
    · simp [guessType, h]
    · unfold guessType; simp only [h]; split <;> rfl
  · intro h
    have h1 := hdisj ['.', 'f', 'a', 'a'] ['.', 'f', 'n', 'a'] rfl (by decide) h
    have h2 := hdisj ['.', 'f', 'a', 'a'] ['.', 'f', 'f', 'n'] rfl (by decide) h
    simp [guessType, h, h1, h2]
  · intro h
    have h1 := hdisj ['.', 'f', 'r', 'n'] ['.', 'f', 'n', 'a'] rfl (by decide) h
    have h2 := hdisj ['.', 'f', 'r', 'n'] ['.', 'f', 'f', 'n'] rfl (by decide) h
    have h3 := hdisj ['.', 'f', 'r', 'n'] ['.', 'f', 'a', 'a'] rfl (by decide) h
    simp [guessType, h, h1, h2, h3]
  · intro h1 h2 h3
    unfold guessType
    simp only [h1, h2, h3]
    split <;> simp_all

/-! ## the regenerated code tables (kernel-checked on every run) -/

/-- all three tables of fasta.py build (every averaged code refers to residues that exist) -/
theorem tables_build :
    (aaTable (α := ℚ)).isSome = true ∧ (rnaTable (α := ℚ)).isSome = true ∧
    (dnaTable (α := ℚ)).isSome = true := by decide +kernel

/-- no table formula contains tritium (the deprecated labile-hydrogen marker that
    `Molecule.__init__` would rewrite), so the model's `molecule` applies to every entry -/
theorem tables_have_no_tritium :
    ∀ row ∈ PtGen.aaBase ++ PtGen.rnaBases ++ PtGen.dnaBases,
      ∀ x ∈ row.2.2.2.1, ¬ (x.1 = 1 ∧ x.2.1 = 3) := by decide +kernel

/-! ## non-vacuity -/

section
/-- unit masses, except H[1] = 1, H = 1, D = 2 -/
private def am1 (a : Atom) : ℚ := if a = atomD then 2 else 1

-- a real dipeptide "G A" from the regenerated table, with a blank and text after '*'
example : ∃ t, aaTable (α := ℚ) = some t ∧
    (sequence am1 t ['G', ' ', 'A', '*', 'W']).isSome = true ∧
    ((sequence am1 t ['G', ' ', 'A', '*', 'W']).map (·.vol)) = some (664 / 10 + 915 / 10) := by
  refine ⟨_, rfl, ?_, ?_⟩ <;> decide +kernel
-- an unknown code is rejected
example : ∃ t, aaTable (α := ℚ) = some t ∧ sequence am1 t ['G', 'O'] = none := by
  refine ⟨_, rfl, ?_⟩; decide +kernel
-- the averaged code B is stored and has half the charge of D (−1) plus N (0)
example : ∃ t, aaTable (α := ℚ) = some t ∧ ((t.find 'B').map (·.charge)) = some (-1 / 2) := by
  refine ⟨_, rfl, ?_⟩; decide +kernel
-- FASTA: junk, two headers, an empty record
example : readFasta [['j'], ['>', 'a', ' '], ['A', 'C'], [], ['G'], ['>', 'b']]
    = [(['>', 'a'], ['A', 'C', 'G']), (['>', 'b'], [])] := by decide +kernel
example : guessType ['x', '.', 'f', 'r', 'n'] none = ['r', 'n', 'a'] := by decide +kernel
end

end PtVerif.C18
