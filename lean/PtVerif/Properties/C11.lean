/-! # C11 — (stub: property theorems go here; see docs/BUILDING.md) -/
namespace PtVerif.C11
end PtVerif.C11
