import PtVerif.Proofs.Mix
import PtVerif.Generated.FormulaConsts
/-!
# C11 — mixtures keep the requested mass or volume proportions and a consistent density

Model: `Model/Mix.lean` (`_mix_by_weight_pairs`, `_mix_by_volume_pairs`, and the parse actions
of the mixture sub-grammars).  `α` is any linearly ordered field (ℚ, ℝ).  `kept pairs` are
the components with positive quantity; `am` gives atomic masses.

Hypotheses `0 < mass` / `0 < density` are the guards of the real code's divisions
(a component with zero mass or density makes the real code raise ZeroDivisionError / ValueError).
-/
namespace PtVerif.C11
open PtModel

variable {α : Type} [Field α] [LinearOrder α] [IsStrictOrderedRing α]

/-- by weight, component `p` enters with multiplier `(q/m)/scale`, so its mass inside the mixture
    is `q/scale`: masses are in the ratio of the given quantities -/
theorem weight_masses_in_ratio (am : Atom → α) (sc : α) (p₁ p₂ : FVal α × α)
    (h₁ : p₁.1.mass am ≠ 0) (h₂ : p₂.1.mass am ≠ 0) (hs : sc ≠ 0) :
    (rmulS ((p₁.2 / p₁.1.mass am) / sc) p₁.1.s).flatMass am * p₂.2
      = (rmulS ((p₂.2 / p₂.1.mass am) / sc) p₂.1.s).flatMass am * p₁.2 := by
  rw [weight_component_mass am sc p₁ h₁ hs, weight_component_mass am sc p₂ h₂ hs]; ring

/-- by volume, its volume (mass/density) is `q/scale`: volumes are in the ratio of the quantities -/
theorem volume_volumes_in_ratio (am : Atom → α) (sc : α) (p₁ p₂ : FVal α × α)
    (h₁ : p₁.1.mass am ≠ 0) (h₂ : p₂.1.mass am ≠ 0) (d₁ : p₁.1.dens ≠ 0) (d₂ : p₂.1.dens ≠ 0) (hs : sc ≠ 0) :
    (rmulS ((p₁.2 * p₁.1.dens / p₁.1.mass am) / sc) p₁.1.s).flatMass am / p₁.1.dens * p₂.2
      = (rmulS ((p₂.2 * p₂.1.dens / p₂.1.mass am) / sc) p₂.1.s).flatMass am / p₂.1.dens * p₁.2 := by
  rw [volume_component_volume am sc p₁ h₁ d₁ hs, volume_component_volume am sc p₂ h₂ d₂ hs]; ring

/-- the mixture by weight is exactly the accumulation of those multiples, its total mass `Σq/scale`
    and its atom counts the multiplier-weighted sums of the components' counts -/
theorem weight_mixture (am : Atom → α) (pairs : List (FVal α × α)) (hne : kept pairs ≠ [])
    (hm : ∀ p ∈ kept pairs, 0 < p.1.mass am) :
    (mixByWeight am pairs).s = weightStruct am (kept pairs) ∧
    (mixByWeight am pairs).mass am = ((kept pairs).map (·.2)).sum / weightScale am (kept pairs) ∧
    ∀ a, lookupD (mixByWeight am pairs).s.atoms a =
      ((kept pairs).map fun p => p.1.s.cnt a *
        ((p.2 / p.1.mass am) / weightScale am (kept pairs))).sum := by
  have hs := (weightScale_pos am (kept pairs) hne (kept_pos pairs) hm).ne'
  rw [mixByWeight_of_ne am pairs hne]
  refine ⟨rfl, ?_, fun a => weightStruct_counts am _ a⟩
  exact weightStruct_mass am _ hs (fun p hp => (hm p hp).ne')

/-- the scale is positive (so every multiplier is defined and the smallest one is 1) -/
theorem weight_scale_pos (am : Atom → α) (pairs : List (FVal α × α)) (hne : kept pairs ≠ [])
    (hm : ∀ p ∈ kept pairs, 0 < p.1.mass am) : 0 < weightScale am (kept pairs) :=
  weightScale_pos am (kept pairs) hne (kept_pos pairs) hm

/-- components with zero quantity vanish (by weight and by volume) -/
theorem zero_quantity_vanishes (am : Atom → α) (pairs : List (FVal α × α)) :
    mixByWeight am pairs = mixByWeight am (kept pairs) ∧
    mixByVolume am pairs = mixByVolume am (kept pairs) :=
  ⟨mixByWeight_drops_zero am pairs, mixByVolume_drops_zero am pairs⟩

/-- when all component densities are known the density by weight is total mass over total
    volume, `Σ qᵢ / Σ (qᵢ/ρᵢ)`; otherwise it is left unknown -/
theorem weight_density (am : Atom → α) (pairs : List (FVal α × α)) (hne : kept pairs ≠ [])
    (hm : ∀ p ∈ kept pairs, 0 < p.1.mass am) :
    ((kept pairs).all (fun p => p.1.hasDensity) = true →
      (mixByWeight am pairs).density =
        some (((kept pairs).map (·.2)).sum / ((kept pairs).map fun p => p.2 / p.1.dens).sum)) ∧
    ((kept pairs).all (fun p => p.1.hasDensity) = false → (mixByWeight am pairs).density = none) := by
  have hs := (weightScale_pos am (kept pairs) hne (kept_pos pairs) hm).ne'
  rw [mixByWeight_of_ne am pairs hne]
  exact ⟨fun hd => weightDensity_eq am _ hs (fun p hp => (hm p hp).ne') hd,
         fun hd => weightDensity_unknown am _ hd⟩

/-- by volume: every density must be known (else ValueError), and the mixture density is total
    mass over total volume, `Σ qᵢρᵢ / Σ qᵢ` -/
theorem volume_mixture (am : Atom → α) (pairs : List (FVal α × α)) (hne : kept pairs ≠ [])
    (hm : ∀ p ∈ kept pairs, 0 < p.1.mass am) (hρ : ∀ p ∈ kept pairs, 0 < p.1.dens)
    (hd : (kept pairs).all (fun p => p.1.hasDensity) = true) :
    mixByVolume am pairs = some ⟨volumeStruct am (kept pairs),
      some (((kept pairs).map fun p => p.2 * p.1.dens).sum / ((kept pairs).map (·.2)).sum)⟩ := by
  have hs := (volumeScale_pos am (kept pairs) hne (kept_pos pairs) hm hρ).ne'
  rw [mixByVolume_of_ne am pairs hne hd, volumeDensity_eq am _ hs (fun p hp => (hm p hp).ne')]

theorem volume_needs_every_density (am : Atom → α) (pairs : List (FVal α × α))
    (hd : (kept pairs).all (fun p => p.1.hasDensity) = false) : mixByVolume am pairs = none :=
  mixByVolume_needs_density am pairs hd

/-- the result does not depend on how a component's formula unit is scaled: what a component
    contributes per unit mass (`counts/mass`) is the same for `k*f` as for `f`, and the density
    formulas above do not mention the structure at all -/
theorem formula_unit_scaling_invariant (am : Atom → α) (k : α) (hk : k ≠ 0) (f : FVal α)
    (hm : f.mass am ≠ 0) (a : Atom) :
    (f.scaled k).s.cnt a / (f.scaled k).mass am = f.s.cnt a / f.mass am ∧
    (f.scaled k).density = f.density :=
  ⟨per_mass_composition_invariant am k hk f hm a, rfl⟩

/-- only proportions matter: the absolute-mass and layer forms convert their quantities to
    percentages (a common factor `100/total`), which changes nothing -/
theorem common_factor_invariant (am : Atom → α) (c : α) (hc : 0 < c) (pairs : List (FVal α × α))
    (hne : kept pairs ≠ []) (hm : ∀ p ∈ kept pairs, 0 < p.1.mass am) :
    mixByWeight am (scaleQ c pairs) = mixByWeight am pairs :=
  mixByWeight_scaleQ am c hc pairs (weightScale_pos am (kept pairs) hne (kept_pos pairs) hm).ne'

/-- percentages leave the remainder to the last component; a negative remainder is rejected -/
theorem percent_remainder_to_last (parts : List (α × FVal α)) (base : FVal α) :
    percentPairs parts base =
      if ((100 : Nat) : α) - (parts.map (·.1)).sum < 0 then none
      else some (parts.map (fun p => (p.2, p.1)) ++ [(base, ((100 : Nat) : α) - (parts.map (·.1)).sum)]) := by
  unfold percentPairs; rw [sumOf_eq]

/-- `total_mass` and `thickness` record the stated absolute amount -/
theorem absolute_amount_recorded (am : Atom → α) (parts : List (α × FVal α)) :
    (byAbsMass am parts).2 = (parts.map (·.1)).sum ∧
    ∀ r, byLayer am parts = some r → r.2 = (parts.map (·.1)).sum := by
  refine ⟨by unfold byAbsMass; rw [sumOf_eq], ?_⟩
  intro r hr
  unfold byLayer at hr
  rw [Option.map_eq_some_iff] at hr
  obtain ⟨x, _, rfl⟩ := hr
  rw [sumOf_eq]

/-- every documented unit (kg g mg ug ng; L mL uL nL; cm mm um nm) is in the tables
    regenerated from formulas.py, with its SI factor -/
theorem all_units_present :
    PtGen.massUnits = [("ng", 1, 1000000000), ("ug", 1, 1000000), ("mg", 1, 1000), ("g", 1, 1), ("kg", 1000, 1)] ∧
    PtGen.volumeUnits = [("nL", 1, 1000000000), ("uL", 1, 1000000), ("mL", 1, 1000), ("L", 1, 1)] ∧
    PtGen.lengthUnits = [("nm", 1, 1000000000), ("um", 1, 1000000), ("mm", 1, 1000), ("cm", 1, 100)] := by
  decide

/-! non-vacuity: two components with positive mass and quantity -/
example : kept [((⟨Items.cons 1 (.atom ⟨26,0,0⟩) .nil, some 7⟩ : FVal ℚ), (2 : ℚ)),
    (⟨Items.cons 1 (.atom ⟨28,0,0⟩) .nil, some 8⟩, 0), (⟨Items.cons 1 (.atom ⟨24,0,0⟩) .nil, none⟩, 3)] ≠ [] := by
  decide

end PtVerif.C11
