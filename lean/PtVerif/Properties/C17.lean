import PtVerif.Proofs.NeutronComposite
/-!
# C17 — the composite SLD calculator equals the direct calculation on the weighted sum

Two independently modelled code paths of nsf.py: `neutron_composite_sld` (`sumPiece`,
`compositeCompute`, `compositeSld`, `compositeSldV`: `_sum_piece`, `_compute` with its
"duplicated from _calculate_scattering" block) and `neutron_scattering` on the formula
`Σ wᵢ·mᵢ` built with `__rmul__`/`__add__` (`weighted`, C02's `rmulS`/`addS`, `Items.atoms`).
Tie: `harness/ptv/props/C17.py`.
-/
namespace PtVerif.C17
open PtModel PtModel.Neutron PtProofs.Neutron

/-- **calculator = direct**, for every list of materials (any nesting), every weight vector of
    the same length (any sign, zeros included), every density and wavelength: the three SLDs of
    the calculator are those of `neutron_scattering(Σ wᵢ·mᵢ, density)`; `0, 0, 0` where the
    direct calculation gives the vacuum tuple; `(None, None, None)` where it does (a material
    with an atom whose SLD is unknown – behaviour after fixes/composite-missing-data.patch). -/
theorem composite_eq_direct (t : Tbl ℝ) (ms : List (Items ℝ)) (ws : List ℝ) (ρ w : ℝ)
    (hlen : ws.length = ms.length) :
    compositeSld t (ms.map Items.atoms) w ws ρ
      = compOf (neutronScattering t (weighted ws ms).atoms ρ w) :=
  PtProofs.Neutron.composite_eq_direct t ms ws ρ w hlen

/-- **zeros**: zero density or all weights zero gives `0, 0, 0` – from the calculator and from
    the direct calculation -/
theorem zero_gives_zeros (t : Tbl ℝ) (ms : List (Items ℝ)) (ws : List ℝ) (ρ w : ℝ)
    (hlen : ws.length = ms.length) (hd : ∀ m ∈ ms, AllData t m.atoms)
    (hz : ρ = 0 ∨ ∀ x ∈ ws, x = 0) :
    compositeSld t (ms.map Items.atoms) w ws ρ = .zeros ∧
      neutronSld t (weighted ws ms).atoms ρ w = some (0, 0, 0) :=
  PtProofs.Neutron.zero_gives_zeros t ms ws ρ w hlen hd hz

/-- **vector wavelength**: entry `i` of the calculator built for a wavelength vector is the
    calculator built for the `i`-th wavelength … -/
theorem vector_is_map (t : Tbl ℝ) (mats : List (List (Atom × ℝ))) (ws weights : List ℝ)
    (ρ : ℝ) (i : Nat) (hi : i < ws.length) :
    (compositeSldV t mats ws weights ρ).get? i = some (compositeSld t mats ws[i] weights ρ) :=
  PtProofs.Neutron.composite_vector_is_map t mats ws weights ρ i hi

/-- … and the outputs are shaped like the wavelength argument -/
theorem shape_follows_wavelength (t : Tbl ℝ) (mats : List (List (Atom × ℝ))) (ws weights : List ℝ)
    (ρ : ℝ) (l : List (ℝ × ℝ × ℝ)) (h : compositeSldV t mats ws weights ρ = .ok l) :
    l.length = ws.length :=
  PtProofs.Neutron.composite_vector_length t mats ws weights ρ l h

/-! ### non-vacuity: two materials over the example table of C03 -/

noncomputable def exTbl : Tbl ℝ where
  recOf := fun z a =>
    if z = 1 ∧ a = 0 then some ⟨-3.739, 0.3326, 82.02, 4.2e22, none⟩
    else if z = 8 ∧ a = 0 then some ⟨5.803, 0.00019, 4.232, 4.3e22, none⟩
    else none
  mass := fun z _ => if z = 1 then 1.008 else 15.999
  me := 0.00054858

def exWater : Items ℝ := .cons 2 (.atom ⟨1, 0, 0⟩) (.cons 1 (.atom ⟨8, 0, 0⟩) .nil)
def exO2 : Items ℝ := .cons 2 (.atom ⟨8, 0, 0⟩) .nil

example : ∀ m ∈ [exWater, exO2], AllData exTbl m.atoms := by
  intro m hm
  rw [allData_atoms_iff]
  intro a ha
  simp at hm
  rcases hm with rfl | rfl
  · simp [exWater, itemsOccurs, fragOccurs] at ha
    rcases ha with rfl | rfl <;> simp [exTbl, Tbl.neutron]
  · simp [exO2, itemsOccurs, fragOccurs] at ha
    subst ha; simp [exTbl, Tbl.neutron]

example : ([0.5, 3] : List ℝ).length = [exWater, exO2].length := rfl

end PtVerif.C17
