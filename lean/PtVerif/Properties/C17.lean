/-! # C17 — (stub: property theorems go here; see docs/BUILDING.md) -/
namespace PtVerif.C17
end PtVerif.C17
