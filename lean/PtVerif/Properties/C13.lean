import PtVerif.Proofs.GrammarPrint
import PtVerif.Proofs.PrintReal
import PtVerif.Proofs.GrammarSound
import PtVerif.Model.GrammarTable
/-!
# C13 — printing a formula and parsing it back gives the same formula

Models: `Model/Print.lean` (`_str_atoms` = `strItems`, `_str_count` = `strCount`, `%g` = `fmtG6`,
`__str__`/`__repr__`) and `Model/Grammar.lean` (the pyparsing grammar, `parse`); both tied to
formulas.py on every run by `harness/ptv/props/C13.py`.  Counts are the exact rational values of
the Python numbers; `round6` is the count at the printed precision of six significant digits.

The statement "same nesting" fails for a group whose multiplier prints as `1` (known finding D17):
the full statement is `parse_print_full`, refuted by `parse_print_full_counterexample`; what is
proved is `parse_print` (nesting up to `norm`, which splices exactly those groups) and
`parse_print_same_nesting` (the full conclusion where no such group occurs).
-/
namespace PtVerif.C13
open PtModel PtModel.Grammar PtModel.Print

/-- **print then parse**, for every table serving each entry under its own symbol, every nesting
    depth, every structure over atoms the grammar can name with positive counts of any magnitude:
    `str(f)` is a string of the grammar and parses back to the same atoms in the same order and
    nesting, each count rounded to six significant digits, groups whose printed count is 1 spliced
    into their parent; no density tag is invented. -/
theorem parse_print (T : Table) (hT : T.wf = true) (s : Items Q) (hs : okItems T s = true) :
    parse T (strItems T s) = .ok (norm (roundItems s), none) :=
  parse_strItems T hT s hs

/-- **`str(formula)` is itself a string of the grammar**: the printed text is the yield of a
    derivation of the documented grammar (Model/GrammarSpec.lean) that denotes the rounded formula -/
theorem printed_is_grammar_string (T : Table) (hT : T.wf = true) (s : Items Q) (hs : okItems T s = true) :
    ∃ D : Compound, D.wf = true ∧ D.text = strItems T s ∧ D.result T = some (norm (roundItems s), none) :=
  Grammar.parse_sound T _ _ _ (parse_print T hT s hs)

/-- the full statement of the property: the *same* nesting -/
def parse_print_full : Prop :=
  ∀ (T : Table) (s : Items Q), T.wf = true → okItems T s = true →
    parse T (strItems T s) = .ok (roundItems s, none)

/-- the same nesting, wherever no group's printed count is 1 -/
theorem parse_print_same_nesting (T : Table) (hT : T.wf = true) (s : Items Q) (hs : okItems T s = true)
    (hu : noUnit (roundItems s) = true) :
    parse T (strItems T s) = .ok (roundItems s, none) := by
  rw [parse_print T hT s hs, norm_id _ hu]

/-- the public table, as the translator reads it from core.py / mass.py on this run, serves every
    entry under its own symbol (so the theorems above apply to it) -/
theorem genTable_wf : genTable.wf = true := by decide +kernel

/-- every element `Z ≥ 1` of the regenerated table, and D and T, has a symbol the grammar reads -/
theorem genTable_symbols_readable : genTable.all (fun e => e.z = 0 || symOK e.sym) = true := by
  decide +kernel

/-- D17: `1.0000001 * formula("H2O")` prints `(H2O)1` and parses back without the group -/
def d17 : Items Q :=
  .cons ⟨10000001, 10000000⟩ (.group (.cons ⟨2, 1⟩ (.atom ⟨1, 0, 0⟩) (.cons ⟨1, 1⟩ (.atom ⟨8, 0, 0⟩) .nil))) .nil

theorem parse_print_full_counterexample : ¬ parse_print_full := by
  intro h
  have h1 := h genTable d17 genTable_wf (by decide +kernel)
  have h2 : parse genTable (strItems genTable d17) ≠ .ok (roundItems d17, none) := by decide +kernel
  exact h2 h1

/-- a positive count is printed as a positive count -/
theorem printed_count_positive (q : Q) (hn : 0 < q.num) (hd : 0 < q.den) : 0 < (round6 q).num :=
  round6_pos q hn hd

/-- six significant digits: the mantissa of the printed count has exactly six digits -/
theorem six_digits (n d : Nat) (hn : 0 < n) (hd : 0 < d) :
    10 ^ 5 ≤ (sig6 n d).1 ∧ (sig6 n d).1 < 10 ^ 6 := sig6_range n d hn hd

/-- **every count equal to the printed precision**: for a positive count `q` with
    `10^e ≤ q < 10^(e+1)` the printed count is `m · 10^(e-5)` for an integer `10^5 ≤ m ≤ 10^6`
    (six significant digits) and lies within half a unit of the sixth digit of `q` -/
theorem printed_count_is_six_digit_rounding (q : Q) (hn : 0 < q.num) (hd : 0 < q.den) :
    ∃ (m : ℕ) (e : ℤ), (10 : ℚ) ^ e ≤ q.val ∧ q.val < (10 : ℚ) ^ (e + 1) ∧
      10 ^ 5 ≤ m ∧ m ≤ 10 ^ 6 ∧ (round6 q).toRat = (m : ℚ) * (10 : ℚ) ^ (e - 5) ∧
      |(round6 q).toRat - q.val| ≤ (10 : ℚ) ^ (e - 5) / 2 := round6_spec q hn hd

/-- **exactly for counts that need no more**: a count `k · 10^p` with at most six significant
    digits (`0 < k < 10^6`, any magnitude `p`) is printed – and parsed back – exactly -/
theorem printed_count_exact (q : Q) (hd : 0 < q.den) (k : ℕ) (p : ℤ) (hk : 0 < k) (hk6 : k < 10 ^ 6)
    (hq : q.val = (k : ℚ) * (10 : ℚ) ^ p) : (round6 q).toRat = q.val :=
  round6_exact q hd k p hk hk6 hq

/-- the count 1, in any representation, is the printed count 1 (and is not written) -/
theorem round6_unit (n : Nat) (hn : 0 < n) : round6 ⟨n, n⟩ = Cnt.one := round6_one n hn

/-- the printed count is read back as itself by the count token of the grammar -/
theorem printed_count_reads_back (q : Q) (hn : 0 < q.num) (hd : 0 < q.den) (rest : List Char)
    (hr : NoNumHead rest) : pCount (strCount q ++ rest) = .ok (round6 q, rest) :=
  pCount_showCnt (round6 q) (fun _ => round6_pos q hn hd) rest hr

/-- `repr` shows `formula('<str>')` -/
theorem repr_eq (T : Table) (name : Option (List Char)) (s : Items Q) :
    reprFormula T name s = "formula('".toList ++ strFormula T name s ++ "')".toList := rfl

/-- a named formula prints its name -/
theorem named_prints_name (T : Table) (c : Char) (cs : List Char) (s : Items Q) :
    strFormula T (some (c :: cs)) s = c :: cs := rfl

/-- an unnamed formula prints its atoms -/
theorem unnamed_prints_atoms (T : Table) (s : Items Q) :
    strFormula T none s = strItems T s ∧ strFormula T (some []) s = strItems T s := ⟨rfl, rfl⟩

/-- `%g` switches to exponent form exactly where six digits round up to 10^6 … -/
theorem fmtG6_high_switch :
    fmtG6 ⟨1999999, 2⟩ = "1e+06".toList ∧ fmtG6 ⟨9999994, 10⟩ = "999999".toList := by decide +kernel

/-- … and below 10^-4; ties go to the even digit -/
theorem fmtG6_low_switch :
    fmtG6 ⟨1, 10000⟩ = "0.0001".toList ∧ fmtG6 ⟨999999, 10000000000⟩ = "9.99999e-05".toList ∧
    fmtG6 ⟨200001, 2⟩ = "100000".toList ∧ fmtG6 ⟨200003, 2⟩ = "100002".toList := by
  decide +kernel

/-- the repaired printer never writes an exponent: `2e+06` is `2000000`, `1e-05` is `0.00001` -/
theorem strCount_positional :
    strCount ⟨2000000, 1⟩ = "2000000".toList ∧ strCount ⟨1, 100000⟩ = "0.00001".toList := by
  decide +kernel

/-! non-vacuity: a nested structure with an isotope ion, a D ion, a decimal and a large count
    satisfies the hypotheses of `parse_print`, and its round trip is as stated -/
def sample : Items Q :=
  .cons ⟨2, 1⟩ (.atom ⟨1, 2, 1⟩) (.cons ⟨3, 2⟩ (.group (.cons ⟨1, 1⟩ (.atom ⟨26, 56, 3⟩)
    (.cons ⟨12345678, 1⟩ (.atom ⟨8, 0, -2⟩) .nil))) .nil)

example : okItems genTable sample = true := by decide +kernel
example : strItems genTable sample = "D{+}2(Fe[56]{3+}O{2-}12345700)1.5".toList := by decide +kernel
example : noUnit (roundItems sample) = true := by decide +kernel
example : okItems genTable d17 = true ∧ strItems genTable d17 = "(H2O)1".toList := by decide +kernel

end PtVerif.C13
