import PtVerif.Model.Print
import PtVerif.Model.GrammarTable
/-! # C13 — printing a formula and parsing it back (first cut: definitional clauses and `%g` boundary facts) -/
namespace PtVerif.C13
open PtModel PtModel.Grammar PtModel.Print

/-- `repr` shows `formula('<str>')` -/
theorem repr_eq (T : Table) (name : Option (List Char)) (s : Items Q) :
    reprFormula T name s = "formula('".toList ++ strFormula T name s ++ "')".toList := rfl

/-- a named formula prints its name -/
theorem named_prints_name (T : Table) (c : Char) (cs : List Char) (s : Items Q) :
    strFormula T (some (c :: cs)) s = c :: cs := rfl

/-- `%g` switches to exponent form exactly where six digits round up to 10^6 … -/
theorem fmtG6_high_switch :
    fmtG6 ⟨1999999, 2⟩ = "1e+06".toList ∧ fmtG6 ⟨9999994, 10⟩ = "999999".toList := by decide +kernel

/-- … and below 10^-4 -/
theorem fmtG6_low_switch :
    fmtG6 ⟨1, 10000⟩ = "0.0001".toList ∧ fmtG6 ⟨999999, 10000000000⟩ = "9.99999e-05".toList := by
  decide +kernel

end PtVerif.C13
