/-! # C13 — (stub: property theorems go here; see docs/BUILDING.md) -/
namespace PtVerif.C13
end PtVerif.C13
