import PtVerif.Proofs.Activation
/-!
# C14 — activation equals the solution of the documented capture/decay chains

(first end-to-end version: single-capture branch; extended below as the proofs grow)
-/
namespace PtVerif.C14
open PtModel.Activation

/-- single capture with burn-up: the closed form solves `N_t' = -a N_t`, `N_p' = a N_t - c N_p`
    with `N_t(0) = N0`, `N_p(0) = 0` -/
theorem act_solves (N0 a c t : ℝ) :
    HasDerivAt (actNt N0 a) (-a * actNt N0 a t) t ∧
    HasDerivAt (actNp N0 a c) (a * actNt N0 a t - c * actNp N0 a c t) t ∧
    actNt N0 a 0 = N0 ∧ actNp N0 a c 0 = 0 :=
  ⟨actNt_deriv N0 a t, actNp_deriv N0 a c t, actNt_zero N0 a, actNp_zero N0 a c⟩

/-- … and `activity()` returns `λ·N_p(T)` of that chain, never negative, never an error, for
    physical inputs -/
theorem nonneg_act {c : Consts ℝ} {r : Row ℝ} {mass : ℝ} {env : Env ℝ} {T : ℝ}
    (h : Physical c r mass env T) (hr : r.reaction = .act)
    (hin : ¬ (r.fast = true ∧ env.fastRatio = 0)) :
    activityRow c r mass env T =
      .ok (some (rateLam c r * actNp (atoms0 c r mass) (rateA env r) (rateLam c r + rateB env r) T))
    ∧ 0 ≤ rateLam c r * actNp (atoms0 c r mass) (rateA env r) (rateLam c r + rateB env r) T :=
  activityRow_act_ok h hr hin

end PtVerif.C14
