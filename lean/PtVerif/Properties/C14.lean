import PtVerif.Proofs.ActivationTable
import PtVerif.Proofs.ActivationData
import PtVerif.Proofs.ActivationUnique
/-!
# C14 — activation equals the solution of the documented capture/decay chains

Model: `PtVerif.Model.Activation` (`activityRow`, `activity`, `calcActivation`), the code of
`periodictable/activation.py` **with `fixes/activation-1-burnup-expm1.patch` applied**, tied to the
source on every run by `harness/ptv/props/C14.py` (translator for `activation.dat` and the
constants; differential correspondence of the compiled model with `activity()` /
`Sample.calculate_activation`; 60-digit chain-ODE oracle on the real code).

All statements are about the real-number reading (`ℝ`, `Real.exp`) of the same polymorphic terms
the driver runs at `Float`.

Clauses of the property and where they are:

* "each product's activity is the decay rate given by the exact solution of its reaction chain":
  `act_solves` + `act_is_chain_solution`, `b_solves` + `b_is_chain_solution`,
  `twoN_solves` + `twoN_is_chain_solution` (closed forms solve the ODE systems with the stated
  initial values; `activityRow` returns `λ·N(T)` of that solution); `act_solution_unique`,
  `b_solution_unique`, `twoN_solution_unique` (they are *the* solutions)
* "never negative, never fail to compute for physical inputs": `nonneg_act`, `nonneg_b`,
  `nonneg_2n`, and over the regenerated table `table_act_never_fails`, `table_b_never_fails`,
  `table_2n_never_fails_off_coincidence`;
  for `'2n'` rows only off the set where two of the three rates coincide
  (`never_fails_full` / `never_fails_partial` / `twoN_fails_at_coinciding_rates`)
* "proportional to sample mass": `linear_in_mass`, `linear_in_mass_list`
* "do not decrease with exposure by more than the depletion of the target":
  `exposure_monotone_mod_depletion` (single capture), `_b`, `_2n`
* "fall by exactly 2^(-t/T½) over a rest time t": `rest_decay`
* "fast reactions omitted when the fast ratio is 0": `fast_omitted`, `fast_omitted_iff`,
  `result_rows_are_the_kept_rows`
* "epithermal capture omitted when the cadmium ratio is below 1": `epithermal_omitted`,
  `epithermal_factor`
* "a natural element contributes the abundance-weighted sum of its isotopes":
  `sample_is_sum_over_isotope_calls`, `sample_table_is_sum_over_isotope_calls`,
  `natural_is_abundance_weighted_sum`
* "with the tabulated cross sections and half-lives": data facts `table_rows_well_formed`,
  `ln2_is_log_two`, `barn_literal`, `uCi_literal_is_avogadro_per_microcurie` over
  `Generated.ActivationDat` (kernel-checked against the current files on every run)

**Partial** (not a theorem here): "to within double-precision rounding of that solution".
`Float` is opaque to the kernel and no floating-point error analysis is attempted; the rounding of
the real code is confronted, on every run, with the chain ODE solved in 60-digit `Decimal`
(tolerance 1e-9).  That comparison holds for every single-capture row on the whole range after the
repair, and fails for the `'2n'` rows (catastrophic cancellation, finding D12b) and for `'b'` rows
at very small `λ·T` (finding D12c).
-/
namespace PtVerif.C14
open PtModel.Activation

/-! ## the three chains: closed forms solve the ODE systems -/

/-- single capture with burn-up of target (`a`) and product (`c = λ + b`):
    `N_t' = -a N_t`, `N_p' = a N_t - c N_p`, `N_t(0) = N0`, `N_p(0) = 0` — for every `a`, `c`
    (also `c = a`) -/
theorem act_solves (N0 a c t : ℝ) :
    HasDerivAt (actNt N0 a) (-a * actNt N0 a t) t ∧
    HasDerivAt (actNp N0 a c) (a * actNt N0 a t - c * actNp N0 a c t) t ∧
    actNt N0 a 0 = N0 ∧ actNp N0 a c 0 = 0 :=
  ⟨actNt_deriv N0 a t, actNp_deriv N0 a c t, actNt_zero N0 a, actNp_zero N0 a c⟩

/-- `'b'`: parent made at the constant rate `R`, `P' = R - λp P`, `D' = λp P - λ D`, `P(0) = D(0) = 0` -/
theorem b_solves (R lp lam t : ℝ) (hlp : lp ≠ 0) (hlam : lam ≠ 0) (hne : lp - lam ≠ 0) :
    HasDerivAt (bP R lp) (R - lp * bP R lp t) t ∧
    HasDerivAt (bD R lp lam) (lp * bP R lp t - lam * bD R lp lam t) t ∧
    bP R lp 0 = 0 ∧ bD R lp lam 0 = 0 :=
  ⟨bP_deriv R lp t hlp, bD_deriv R lp lam t hlp hlam hne, bP_zero R lp, bD_zero R lp lam hne⟩

example : (2:ℝ) ≠ 0 ∧ (1:ℝ) ≠ 0 ∧ (2:ℝ) - 1 ≠ 0 := by norm_num

/-- `'2n'`: `x = l2·N₁`, `x' = -l2 x`, `N₂' = x - pa N₂`, `N₃' = cap N₂ - p2 N₃`,
    `x(0) = R`, `N₂(0) = N₃(0) = 0` (three-stage Bateman chain, distinct rates) -/
theorem twoN_solves (R cap l2 pa p2 t : ℝ) (h12 : pa - l2 ≠ 0) (h13 : p2 - l2 ≠ 0) (h23 : p2 - pa ≠ 0) :
    HasDerivAt (nX R l2) (-l2 * nX R l2 t) t ∧
    HasDerivAt (nN2 R l2 pa) (nX R l2 t - pa * nN2 R l2 pa t) t ∧
    HasDerivAt (nN3 R cap l2 pa p2) (cap * nN2 R l2 pa t - p2 * nN3 R cap l2 pa p2 t) t ∧
    nX R l2 0 = R ∧ nN2 R l2 pa 0 = 0 ∧ nN3 R cap l2 pa p2 0 = 0 :=
  ⟨nX_deriv R l2 t, nN2_deriv R l2 pa t h12, nN3_deriv R cap l2 pa p2 t h12 h13 h23,
   nX_zero R l2, nN2_zero R l2 pa, nN3_zero R cap l2 pa p2 h12 h13 h23⟩

example : (2:ℝ) - 1 ≠ 0 ∧ (3:ℝ) - 1 ≠ 0 ∧ (3:ℝ) - 2 ≠ 0 := by norm_num

/-! ### … and they are *the* solutions -/

/-- single capture: whatever differentiable `(N_t, N_p)` satisfies the system and the initial
    values is the closed form, at every time -/
theorem act_solution_unique (N0 a c : ℝ) (Nt Np : ℝ → ℝ)
    (hNt : ∀ t, HasDerivAt Nt (-a * Nt t) t) (hNp : ∀ t, HasDerivAt Np (a * Nt t - c * Np t) t)
    (h0t : Nt 0 = N0) (h0p : Np 0 = 0) :
    (∀ t, Nt t = actNt N0 a t) ∧ (∀ t, Np t = actNp N0 a c t) :=
  PtModel.Activation.act_solution_unique N0 a c Nt Np hNt hNp h0t h0p

theorem b_solution_unique (R lp lam : ℝ) (hlp : lp ≠ 0) (hlam : lam ≠ 0) (hne : lp - lam ≠ 0)
    (P D : ℝ → ℝ) (hP : ∀ t, HasDerivAt P (R - lp * P t) t) (hD : ∀ t, HasDerivAt D (lp * P t - lam * D t) t)
    (h0P : P 0 = 0) (h0D : D 0 = 0) :
    (∀ t, P t = bP R lp t) ∧ (∀ t, D t = bD R lp lam t) :=
  PtModel.Activation.b_solution_unique R lp lam hlp hlam hne P D hP hD h0P h0D

theorem twoN_solution_unique (R cap l2 pa p2 : ℝ) (h12 : pa - l2 ≠ 0) (h13 : p2 - l2 ≠ 0) (h23 : p2 - pa ≠ 0)
    (x N2 N3 : ℝ → ℝ) (hx : ∀ t, HasDerivAt x (-l2 * x t) t) (hN2 : ∀ t, HasDerivAt N2 (x t - pa * N2 t) t)
    (hN3 : ∀ t, HasDerivAt N3 (cap * N2 t - p2 * N3 t) t) (h0x : x 0 = R) (h02 : N2 0 = 0) (h03 : N3 0 = 0) :
    (∀ t, x t = nX R l2 t) ∧ (∀ t, N2 t = nN2 R l2 pa t) ∧ (∀ t, N3 t = nN3 R cap l2 pa p2 t) :=
  PtModel.Activation.twoN_solution_unique R cap l2 pa p2 h12 h13 h23 x N2 N3 hx hN2 hN3 h0x h02 h03

/-! ## `activity()` returns `λ·N(T)` of those solutions; never negative; never fails -/

/-- single capture: for **every** physical input the result is `λ·N_p(T)` of the chain with
    `a = flux·σ·3600·10⁻²⁴`, `c = λ + fluence·σ'·3600·10⁻²⁴`, `N0 = mass/A·1.6278·10¹⁹/3600`,
    it is ≥ 0, and neither exception site is reached -/
theorem nonneg_act {c : Consts ℝ} {r : Row ℝ} {mass : ℝ} {env : Env ℝ} {T : ℝ}
    (h : Physical c r mass env T) (hr : r.reaction = .act)
    (hin : ¬ (r.fast = true ∧ env.fastRatio = 0)) :
    activityRow c r mass env T =
      .ok (some (rateLam c r * actNp (atoms0 c r mass) (rateA env r) (rateLam c r + rateB env r) T))
    ∧ 0 ≤ rateLam c r * actNp (atoms0 c r mass) (rateA env r) (rateLam c r + rateB env r) T :=
  activityRow_act_ok h hr hin

/-- the value clause alone, without sign conditions on the inputs -/
theorem act_is_chain_solution (c : Consts ℝ) (r : Row ℝ) (mass : ℝ) (env : Env ℝ) (T : ℝ)
    (hr : r.reaction = .act) (hin : ¬ (r.fast = true ∧ env.fastRatio = 0)) (hth : r.thalf ≠ 0) :
    activityRow c r mass env T =
      if rateLam c r * actNp (atoms0 c r mass) (rateA env r) (rateLam c r + rateB env r) T < 0
      then .error .runtime
      else .ok (some (rateLam c r * actNp (atoms0 c r mass) (rateA env r) (rateLam c r + rateB env r) T)) :=
  activityRow_act c r mass env T hr hin hth

/-- `'b'` rows: `λ·D(T)` of the parent/daughter chain fed at the rate `root` -/
theorem b_is_chain_solution (c : Consts ℝ) (r : Row ℝ) (mass : ℝ) (env : Env ℝ) (T : ℝ)
    (hr : r.reaction = .b) (hin : ¬ (r.fast = true ∧ env.fastRatio = 0)) (hth : r.thalf ≠ 0)
    (hthp : r.thalfParent ≠ 0) (hlam : rateLam c r ≠ 0) (hne : ratePlam c r - rateLam c r ≠ 0) :
    activityRow c r mass env T =
      .ok (some (rateLam c r * bD (rateA env r * atoms0 c r mass) (ratePlam c r) (rateLam c r) T)) :=
  activityRow_b c r mass env T hr hin hth hthp hlam hne

/-- `'b'`: never negative -/
theorem nonneg_b (R lp lam T : ℝ) (hR : 0 ≤ R) (hlp : 0 < lp) (hlam : 0 < lam)
    (hne : lp - lam ≠ 0) (hT : 0 ≤ T) : 0 ≤ lam * bD R lp lam T :=
  bActivity_nonneg R lp lam T hR hlp hlam hne hT

example : (0:ℝ) ≤ 5 ∧ (0:ℝ) < 2 ∧ (0:ℝ) < 1 ∧ (2:ℝ) - 1 ≠ 0 ∧ (0:ℝ) ≤ 3 := by norm_num

/-- `'2n'` rows: `λ·N₃(T)` of the two-capture chain, when the three rates are pairwise different -/
theorem twoN_is_chain_solution (c : Consts ℝ) (r : Row ℝ) (mass : ℝ) (env : Env ℝ) (T : ℝ)
    (hr : r.reaction = .twoN) (hin : ¬ (r.fast = true ∧ env.fastRatio = 0)) (hth : r.thalf ≠ 0)
    (hthp : r.thalfParent ≠ 0)
    (h12 : (rateB env r + ratePlam c r) - rateA env r ≠ 0) (h13 : rateLam c r - rateA env r ≠ 0)
    (h23 : rateLam c r - (rateB env r + ratePlam c r) ≠ 0) :
    activityRow c r mass env T =
      .ok (some (rateLam c r * nN3 (rateA env r * atoms0 c r mass) (rateB env r) (rateA env r)
        (rateB env r + ratePlam c r) (rateLam c r) T)) :=
  activityRow_2n c r mass env T hr hin hth hthp h12 h13 h23

/-- `'2n'`: never negative (divided-difference argument carried by the monotone quantity
    `e^{l2 t}·N₃(t)`) -/
theorem nonneg_2n (R cap l2 pa p2 T : ℝ) (hRc : 0 ≤ R * cap)
    (h12 : pa - l2 ≠ 0) (h13 : p2 - l2 ≠ 0) (h23 : p2 - pa ≠ 0) (hT : 0 ≤ T) :
    0 ≤ nN3 R cap l2 pa p2 T :=
  nN3_nonneg R cap l2 pa p2 T hRc h12 h13 h23 hT

/-! ### "never fail to compute for physical inputs" over the regenerated table -/

/-- every single-capture row of activation.dat, every physical input: omitted, or a value ≥ 0 -/
theorem table_act_never_fails (r : DRow) (hr : r ∈ PtGen.ActivationDat.table) (hact : r.reaction = .act)
    {mass : ℝ} {env : Env ℝ} {T : ℝ} (h : PhysicalEnv mass env T) :
    activityRow (PtGen.ActivationDat.consts) (r.toRow : Row ℝ) mass env T = .ok none ∨
    ∃ v, activityRow (PtGen.ActivationDat.consts) (r.toRow : Row ℝ) mass env T = .ok (some v) ∧ 0 ≤ v :=
  table_act_row r hr hact h

/-- every `'b'` row of activation.dat, every physical input: omitted, or a value ≥ 0 -/
theorem table_b_never_fails (r : DRow) (hr : r ∈ PtGen.ActivationDat.table) (hb : r.reaction = .b)
    {mass : ℝ} {env : Env ℝ} {T : ℝ} (h : PhysicalEnv mass env T) :
    activityRow (PtGen.ActivationDat.consts) (r.toRow : Row ℝ) mass env T = .ok none ∨
    ∃ v, activityRow (PtGen.ActivationDat.consts) (r.toRow : Row ℝ) mass env T = .ok (some v) ∧ 0 ≤ v :=
  table_b_row r hr hb h

/-- every `'2n'` row of activation.dat, every physical input at which the three rates are pairwise
    different: omitted, or a value ≥ 0 -/
theorem table_2n_never_fails_off_coincidence (r : DRow) (hr : r ∈ PtGen.ActivationDat.table)
    (h2n : r.reaction = .twoN) {mass : ℝ} {env : Env ℝ} {T : ℝ} (h : PhysicalEnv mass env T)
    (h12 : (rateB env (r.toRow : Row ℝ) + ratePlam (PtGen.ActivationDat.consts) (r.toRow : Row ℝ))
      - rateA env (r.toRow : Row ℝ) ≠ 0)
    (h13 : rateLam (PtGen.ActivationDat.consts) (r.toRow : Row ℝ) - rateA env (r.toRow : Row ℝ) ≠ 0)
    (h23 : rateLam (PtGen.ActivationDat.consts) (r.toRow : Row ℝ)
      - (rateB env (r.toRow : Row ℝ) + ratePlam (PtGen.ActivationDat.consts) (r.toRow : Row ℝ)) ≠ 0) :
    activityRow (PtGen.ActivationDat.consts) (r.toRow : Row ℝ) mass env T = .ok none ∨
    ∃ v, activityRow (PtGen.ActivationDat.consts) (r.toRow : Row ℝ) mass env T = .ok (some v) ∧ 0 ≤ v :=
  table_2n_row r hr h2n h h12 h13 h23

example : (∃ r ∈ PtGen.ActivationDat.table, r.reaction = .act) ∧
    (∃ r ∈ PtGen.ActivationDat.table, r.reaction = .b) ∧
    (∃ r ∈ PtGen.ActivationDat.table, r.reaction = .twoN) := by decide +kernel

example : PhysicalEnv (1:ℝ) ⟨1e5, 70, 50⟩ 10 := by constructor <;> norm_num

/-- non-vacuity of `nonneg_act`: the first row of the table (H-2 → H-3) in the doctest's environment -/
example : Physical (PtGen.ActivationDat.consts)
    ((⟨1, 2, false, .act, ⟨15, -3⟩, ⟨519, -6⟩, ⟨6298, -7⟩, ⟨10815096, -2⟩, ⟨0, 0⟩, ⟨0, 0⟩, ⟨0, 0⟩⟩ : DRow).toRow : Row ℝ)
    1 ⟨1e5, 70, 50⟩ 10 :=
  table_row_physical _ (by decide +kernel) (by constructor <;> norm_num)

/-- the full clause: no row of the table raises for any physical input -/
def never_fails_full : Prop :=
  ∀ r ∈ PtGen.ActivationDat.table, ∀ (mass : ℝ) (env : Env ℝ) (T : ℝ), PhysicalEnv mass env T →
    ∃ v, activityRow (PtGen.ActivationDat.consts) (r.toRow : Row ℝ) mass env T = .ok v

/-- proved part: all rows that are not `'2n'`.  Missing: `'2n'` rows at inputs where two of the
    three rates `flux·σ`, `fluence·σ' + λ_parent`, `λ` coincide – there the three-exponential sum
    divides by zero (`twoN_fails_at_coinciding_rates`); off that set `twoN_is_chain_solution`
    and `nonneg_2n` apply. -/
theorem never_fails_partial (r : DRow) (hr : r ∈ PtGen.ActivationDat.table) (hnot2n : r.reaction ≠ .twoN)
    (mass : ℝ) (env : Env ℝ) (T : ℝ) (h : PhysicalEnv mass env T) :
    ∃ v, activityRow (PtGen.ActivationDat.consts) (r.toRow : Row ℝ) mass env T = .ok v :=
  table_not_2n_row_ok r hr hnot2n mass env T h

/-- a row used only by the non-vacuity example below -/
noncomputable def exampleRow2n : Row ℝ :=
  { z := 1, a := 2, fast := false, reaction := .twoN, abundance := 1, thermalXS := 7, resonance := 0,
    thalf := 5, thalfParent := 3, thermalXSParent := 1, resonanceParent := 0 }

/-- the error branch of the `'2n'` formula: when the target burns exactly as fast as the product
    decays the first denominator is 0 and Python raises ZeroDivisionError -/
theorem twoN_fails_at_coinciding_rates (c : Consts ℝ) (r : Row ℝ) (mass : ℝ) (env : Env ℝ) (T : ℝ)
    (hr : r.reaction = .twoN) (hin : ¬ (r.fast = true ∧ env.fastRatio = 0)) (hth : r.thalf ≠ 0)
    (hthp : r.thalfParent ≠ 0) (hco : rateA env r = rateLam c r) :
    activityRow c r mass env T = .error .zeroDivision :=
  activityRow_2n_zeroDivision c r mass env T hr hin hth hthp hco

/-- non-vacuity of `twoN_fails_at_coinciding_rates`: such an environment exists for a row with
    positive cross section and half-life (fluence `λ/(σ·3600·10⁻²⁴)`, Cd ratio 0) -/
example : rateA ⟨(Real.log 2 / 5) / (7 * 3.6e3 * 1e-24), 0, 0⟩ exampleRow2n = rateLam ⟨Real.log 2, 1⟩ exampleRow2n := by
  simp only [rateA, rateLam, fluxOf, initialXS, epithermal, exampleRow2n]
  norm_num
  ring

/-! ## proportional to the sample mass -/

/-- each product's activity is proportional to the mass (omission and exceptions unchanged) -/
theorem linear_in_mass (c : Consts ℝ) (r : Row ℝ) (mass : ℝ) (env : Env ℝ) (T k : ℝ) (hk : 0 < k) :
    activityRow c r (k * mass) env T = scaleRow k (activityRow c r mass env T) :=
  activityRow_linear_in_mass c r mass env T k hk

/-- … and so is every entry of what `activity()` returns, at every rest time -/
theorem linear_in_mass_list (c : Consts ℝ) (rows : List (Nat × Row ℝ)) (mass : ℝ) (env : Env ℝ)
    (T : ℝ) (rests : List ℝ) (k : ℝ) (hk : 0 < k) (out : List (Nat × List ℝ))
    (h : activity c rows mass env T rests = .ok out) :
    activity c rows (k * mass) env T rests = .ok (scaleOut k out) :=
  activity_linear_in_mass c rows mass env T rests k hk out h

/-! ## exposure: no decrease beyond the depletion of the target -/

/-- single capture: `A(T₂) ≥ A(T₁)·exp(-a (T₂-T₁))` for `T₁ ≤ T₂` -/
theorem exposure_monotone_mod_depletion (N0 a c T1 T2 : ℝ) (hN : 0 ≤ a * N0) (h : T1 ≤ T2) :
    actNp N0 a c T1 * Real.exp (-(a * (T2 - T1))) ≤ actNp N0 a c T2 :=
  actNp_monotone_mod_depletion N0 a c T1 T2 hN h

/-- `'b'` (no depletion in this chain): the daughter's activity never decreases with exposure -/
theorem exposure_monotone_b (R lp lam : ℝ) (hR : 0 ≤ R) (hlp : 0 < lp) (hlam : 0 < lam)
    (hne : lp - lam ≠ 0) : MonotoneOn (fun t => lam * bD R lp lam t) (Set.Ici 0) :=
  bActivity_monotone R lp lam hR hlp hlam hne

/-- `'2n'`: `N₃(T₂) ≥ N₃(T₁)·exp(-l2 (T₂-T₁))` -/
theorem exposure_monotone_mod_depletion_2n (R cap l2 pa p2 T1 T2 : ℝ) (hRc : 0 ≤ R * cap)
    (h12 : pa - l2 ≠ 0) (h13 : p2 - l2 ≠ 0) (h23 : p2 - pa ≠ 0) (h1 : 0 ≤ T1) (h2 : T1 ≤ T2) :
    nN3 R cap l2 pa p2 T1 * Real.exp (-(l2 * (T2 - T1))) ≤ nN3 R cap l2 pa p2 T2 :=
  nN3_monotone_mod_depletion R cap l2 pa p2 T1 T2 hRc h12 h13 h23 h1 h2

/-! ## rest time -/

/-- the activities listed for the rest times are `A·2^(-t/T½)` (with `LN2 = log 2`,
    `ln2_is_log_two`) -/
theorem rest_decay (thalf act : ℝ) (rests : List ℝ) :
    restDecay (Real.log 2 / thalf) act rests = rests.map fun t => act * (2:ℝ) ^ (-t / thalf) :=
  restDecay_eq thalf act rests

/-- every value list `activity()` returns is `restDecay` of the row's activity at removal -/
theorem activity_lists_are_rest_decay (c : Consts ℝ) (rows : List (Nat × Row ℝ)) (mass : ℝ) (env : Env ℝ)
    (T : ℝ) (rests : List ℝ) (out : List (Nat × List ℝ)) (h : activity c rows mass env T rests = .ok out) :
    ∀ kv ∈ out, ∃ r act, (kv.1, r) ∈ rows ∧ activityRow c r mass env T = .ok (some act) ∧
      kv.2 = restDecay (c.ln2 / r.thalf) act rests :=
  activity_values c rows mass env T rests out h

/-! ## omission of fast and epithermal reactions -/

theorem fast_omitted (c : Consts ℝ) (r : Row ℝ) (mass : ℝ) (env : Env ℝ) (T : ℝ)
    (hf : r.fast = true) (h0 : env.fastRatio = 0) : activityRow c r mass env T = .ok none :=
  activityRow_fast_omitted c r mass env T hf h0

/-- nothing else is ever omitted -/
theorem fast_omitted_iff (c : Consts ℝ) (r : Row ℝ) (mass : ℝ) (env : Env ℝ) (T : ℝ) :
    activityRow c r mass env T = .ok none ↔ (r.fast = true ∧ env.fastRatio = 0) :=
  activityRow_none_iff c r mass env T

/-- the products listed by `activity()` are exactly the rows that are not omitted, in table order -/
theorem result_rows_are_the_kept_rows (c : Consts ℝ) (rows : List (Nat × Row ℝ)) (mass : ℝ) (env : Env ℝ)
    (T : ℝ) (rests : List ℝ) (out : List (Nat × List ℝ)) (h : activity c rows mass env T rests = .ok out) :
    out.map Prod.fst = (rows.filter fun kr => !(kr.2.fast && env.fastRatio == 0)).map Prod.fst :=
  activity_keys c rows mass env T rests out h

/-- below a cadmium ratio of 1 the resonance integrals do not enter -/
theorem epithermal_omitted (c : Consts ℝ) (r : Row ℝ) (mass : ℝ) (env : Env ℝ) (T : ℝ)
    (x y : ℝ) (hcd : env.cdRatio < 1) :
    activityRow c { r with resonance := x, resonanceParent := y } mass env T = activityRow c r mass env T :=
  activityRow_epithermal_omitted c r mass env T x y hcd

/-- the factor on the resonance integral: `0` below 1, `1/Cd` from 1 on -/
theorem epithermal_factor (cd : ℝ) :
    (cd < 1 → epithermal cd = 0) ∧ (1 ≤ cd → epithermal cd = 1 / cd) :=
  ⟨epithermal_lt_one cd, epithermal_ge_one cd⟩

/-! ## samples: sum over isotopes, natural abundance -/

/-- the sample's activity at removal, row by row, is the sum over the `activity()` calls made for
    its isotopes (`isoJobs`: isotope named by the formula → `mass·fraction`; isotope of a natural
    element → `mass·fraction·abundance·0.01`, skipped when that is 0) -/
theorem sample_is_sum_over_isotope_calls (c : Consts ℝ) (rowsOf : Nat → Nat → List (Nat × Row ℝ))
    (mass : ℝ) (env : Env ℝ) (T : ℝ) (rests : List ℝ) (parts : List (PtModel.Activation.Part ℝ)) (tally : Tally ℝ)
    (h : calcActivation c rowsOf mass env T rests parts = .ok tally) :
    ∃ results, List.Forall₂
        (fun job res => activity c (rowsOf job.1 job.2.1) job.2.2 env T (0 :: rests) = .ok res)
        (isoJobs mass parts) results ∧
      ∀ k, lookR tally.removal k = (results.map fun res => headSum res k).sum :=
  calcActivation_removal c rowsOf mass env T rests parts tally h

/-- the same for `Sample.activity`, the table for the requested rest times: column `j` of row `k` is
    the sum of the corresponding entries of those calls -/
theorem sample_table_is_sum_over_isotope_calls (c : Consts ℝ) (rowsOf : Nat → Nat → List (Nat × Row ℝ))
    (mass : ℝ) (env : Env ℝ) (T : ℝ) (rests : List ℝ) (parts : List (PtModel.Activation.Part ℝ)) (tally : Tally ℝ)
    (h : calcActivation c rowsOf mass env T rests parts = .ok tally) :
    ∃ results, List.Forall₂
        (fun job res => activity c (rowsOf job.1 job.2.1) job.2.2 env T (0 :: rests) = .ok res)
        (isoJobs mass parts) results ∧
      ∀ k j, j < rests.length →
        (lookT tally.table k).getD j 0 = (results.map fun res => colSum res k j).sum :=
  calcActivation_table c rowsOf mass env T rests parts tally h

/-- a natural element contributes `Σ_A abundance_A/100 · (activity of isotope A at the element's
    whole mass)` -/
theorem natural_is_abundance_weighted_sum (c : Consts ℝ) (rowsOf : Nat → Nat → List (Nat × Row ℝ))
    (mass frac : ℝ) (env : Env ℝ) (T : ℝ) (rests : List ℝ) (z : Nat) (isos : List (Nat × ℝ))
    (hm : 0 < mass * frac) (hab : ∀ ia ∈ isos, 0 ≤ ia.2)
    (pure : Nat → List (Nat × List ℝ))
    (hpure : ∀ ia ∈ isos, activity c (rowsOf z ia.1) (mass * frac) env T (0 :: rests) = .ok (pure ia.1)) :
    ∃ tally, calcActivation c rowsOf mass env T rests [naturalPart frac z isos] = .ok tally ∧
      ∀ k, lookR tally.removal k = (isos.map fun ia => ia.2 * 0.01 * headSum (pure ia.1) k).sum :=
  natural_is_weighted_sum c rowsOf mass frac env T rests z isos hm hab pure hpure

example (c : Consts ℝ) (rowsOf : Nat → Nat → List (Nat × Row ℝ)) (mass : ℝ) (env : Env ℝ) (T : ℝ) :
    calcActivation c rowsOf mass env T [0, 24] [] = .ok {} := rfl

/-! ## the tabulated data and the constants (regenerated from the source on every run) -/

/-- every row of activation.dat has a mass number and a positive half-life; `'b'` and `'2n'` rows a
    positive parent half-life; `'b'` rows a parent half-life different from the daughter's -/
theorem table_rows_well_formed : PtGen.ActivationDat.table.all rowOk = true := table_rows_ok

/-- `LN2 = log(2)` -/
theorem ln2_is_log_two : (PtGen.ActivationDat.consts : Consts ℝ).ln2 = Real.log 2 := consts_ln2

/-- the `1e-24` of `root` (cm² per barn) -/
theorem barn_literal : PtGen.ActivationDat.barn = ⟨1, -24⟩ := barn_eq

/-- the `1.6278e19` of `root` is N_A / 3.7·10⁴ (atoms per mol over decays per second per µCi),
    with `constants.avogadro_number`, to 2·10⁻⁴ -/
theorem uCi_literal_is_avogadro_per_microcurie :
    |(PtGen.ActivationDat.consts : Consts ℝ).uCi * 3.7e4 - PtGen.avogadro_number|
      ≤ 2e-4 * PtGen.avogadro_number := consts_uCi_is_avogadro_per_microcurie

end PtVerif.C14
