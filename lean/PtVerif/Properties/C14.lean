/-! # C14 — (stub: property theorems go here; see docs/BUILDING.md) -/
namespace PtVerif.C14
end PtVerif.C14
