/-! # C10 — (stub: property theorems go here; see docs/BUILDING.md) -/
namespace PtVerif.C10
end PtVerif.C10
