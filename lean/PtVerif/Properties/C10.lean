import PtVerif.Proofs.Lazy
import PtVerif.Generated.LazyConfig
/-!
# C10 — private tables are isolated from the public table and from each other

Model and configuration as in C09 (`PtVerif.Model.Lazy`, `PtGen.lazyConfig`, regenerated from the
source on every run).  Histories range over the public table (0) and two private tables (1, 2):
table creation (no effect on the lazy state), `module.init(T)` for the nine inits in any order
relative to any use of the public table, reads / `hasattr` on any table, assignment and in-place
mutation on atoms of private tables – `runOK`.  Excluded by `runOK` (finding D20): in-place
mutation of a class-level default object (the `Neutron()` placeholder that `Element.neutron` /
`Isotope.neutron` point to is one object for all tables); the full statement without that
exclusion is `public_unchanged_full`, refuted by `public_unchanged_counterexample`.

Clauses carried elsewhere: "pickled atoms of T are restored into T" is C08 `pickle_roundtrip_id`
(the restored object is the very same object, hence in T); "formulas parsed with table=T contain
only atoms of T" is judged by the oracle of `harness/ptv/props/C10.py` only (the grammar is C01's).
-/
namespace PtVerif.C10
open PtLazy

def cfg : Config := PtGen.lazyConfig

/-- the current source satisfies the isolation condition -/
theorem safe_generated3 : SafeIso3 tables3 cfg = true := by decide +kernel

theorem safe_generated2 : SafeIso2 tables3 cfg = true := (safeIso3_at safe_generated3).1

theorem safe_generated : SafeIso tables3 cfg = true := (safeIso2_at safe_generated2).1

/-- **public_unchanged**: whatever happens on private tables – inits before or after the first
    public touch, assignments, in-place mutation of their per-atom data – and in whatever order
    the public table is used, a read of the public table serves what a fresh interpreter serves -/
theorem public_unchanged (c : Config) (hsafe : SafeCfg tables3 c = true) (hsh : NoSharedCfg c)
    (h : List Event) (hok : runOK tables3 c c.init h) (chain : List Node) (hch : ChainOK chain) (p : Nat) :
    (step c (run c c.init h) (.read 0 chain p)).2 = canon c (.read 0 chain p) :=
  public_read_canon hsafe (ginv_run hsafe h _ (ginv_init hsafe) hok (fun _ _ _ => hsh)) chain hch p

theorem public_unchanged_hasattr (c : Config) (hsafe : SafeCfg tables3 c = true) (hsh : NoSharedCfg c)
    (h : List Event) (hok : runOK tables3 c c.init h) (chain : List Node) (hch : ChainOK chain) (p : Nat) :
    (step c (run c c.init h) (.has 0 chain p)).2 = canon c (.has 0 chain p) :=
  public_has_canon hsafe (ginv_run hsafe h _ (ginv_init hsafe) hok (fun _ _ _ => hsh)) chain hch p

theorem public_unchanged_generated (h : List Event) (hok : runOK tables3 cfg cfg.init h) (chain : List Node)
    (hch : ChainOK chain) (p : Nat) :
    (step cfg (run cfg cfg.init h) (.read 0 chain p)).2 = canon cfg (.read 0 chain p) :=
  public_unchanged cfg (safeIso_at safe_generated).1 (safeIso_at safe_generated).2.2.2 h hok chain hch p

/-- **private_fresh_equals_public**: after any history, initialise the attribute's group on a
    private table that carries no user values; that table then serves, for every atom and route,
    what the public table serves (in a fresh interpreter) -/
theorem private_fresh_equals_public (c : Config) (hsafe : SafeIso tables3 c = true) (h : List Event)
    (hok : runOK tables3 c c.init h) (t : Nat) (ht : t ∈ privTables)
    (hclean : TableClean t (run c c.init h).log)
    (chain : List Node) (hch : ChainOK chain) (p gi : Nat) (g : GroupCfg)
    (hgi : c.groupOf p = some gi) (hg : c.groups[gi]? = some g) :
    (step c (step c (run c c.init h) (.init g.loader t)).1 (.read t chain p)).2
      = canon c (.read 0 chain p) := by
  obtain ⟨h1, h2, h3, h4⟩ := safeIso_at hsafe
  exact private_fresh_canon h1 h2 (ginv_run h1 h _ (ginv_init h1) hok (fun _ _ _ => h4)) ht hclean chain hch p gi g hgi hg
    (h3 g (List.mem_of_getElem? hg)) (by
      unfold privTables at ht; unfold tables3
      rcases List.mem_cons.mp ht with rfl | h'
      · simp
      · rcases List.mem_cons.mp h' with rfl | h''
        · simp
        · cases h'')

/-- the same in state form: after *any* history, a private table t on which the attribute's group
    has been initialised at some point (`inited`) and that carries no user values serves the public
    values – whatever happened on the public table or on the other private table before or after -/
theorem private_initialised_equals_public (c : Config) (hsafe : SafeIso2 tables3 c = true) (h : List Event)
    (hok : runOK tables3 c c.init h) (t : Nat) (ht : t ∈ privTables)
    (hclean : TableClean t (run c c.init h).log)
    (chain : List Node) (hch : ChainOK chain) (p : Nat)
    (hin : ∀ gi g cs, c.groupOf p = some gi → c.groups[gi]? = some g →
      (run c c.init h).gs[gi]? = some cs → inited g cs t = true) :
    (step c (run c c.init h) (.read t chain p)).2 = canon c (.read 0 chain p) := by
  obtain ⟨h0, h5⟩ := safeIso2_at hsafe
  obtain ⟨h1, _, _, h4⟩ := safeIso_at h0
  exact private_inited_canon h1 h5 (ginv_run h1 h _ (ginv_init h1) hok (fun _ _ _ => h4)) ht hclean
    chain hch p hin

/-- **objects_disjoint**: the per-atom objects of two tables are different objects – a fresh
    in-place mutation mark made through table t is never seen through any other table (public or
    private), whatever is read there -/
theorem objects_disjoint (c : Config) (hsafe : SafeCfg tables3 c = true) (hsh : NoSharedCfg c) (h : List Event)
    (hok : runOK tables3 c c.init h) (t : Nat) (chain : List Node) (p n : Nat)
    (hev : evOK tables3 c (run c c.init h) (.mutate t chain p n))
    (hfresh : ∀ e ∈ (run c c.init h).log, ∀ sc a p' src, e ≠ LEntry.mark sc a p' src n)
    (t' : Nat) (ht' : t' ≠ t) (chain' : List Node) (p' : Nat) :
    n ∉ (step c (step c (run c c.init h) (.mutate t chain p n)).1 (.read t' chain' p')).2.marks :=
  mark_not_seen_elsewhere hsafe hsh (ginv_run hsafe h _ (ginv_init hsafe) hok (fun _ _ _ => hsh)) t chain p n hev hfresh
    t' ht' chain' p'

/-- **private tables are isolated from each other (and the public one) under assignment**: after
    `x.p = v` on an atom of table t, any other table serves exactly what it served before -/
theorem assignment_isolated (c : Config) (hsafe : SafeIso3 tables3 c = true) (h : List Event)
    (hok : runOK tables3 c c.init h) (t : Nat) (chain : List Node) (p v : Nat)
    (hev : evOK tables3 c (run c c.init h) (.assign t chain p v))
    (t' : Nat) (ht' : t' ∈ tables3) (hne : t' ≠ t) (chain' : List Node) (hch : ChainOK chain') (p' : Nat) :
    (step c (step c (run c c.init h) (.assign t chain p v)).1 (.read t' chain' p')).2
      = (step c (run c c.init h) (.read t' chain' p')).2 := by
  obtain ⟨h2, hf, htr⟩ := safeIso3_at hsafe
  obtain ⟨h1, _, _, h4⟩ := safeIso_at (safeIso2_at h2).1
  exact assign_isolated h1 hf htr (ginv_run h1 h _ (ginv_init h1) hok (fun _ _ _ => h4)) t chain p v hev
    ht' hne chain' hch p'

/-- … and under in-place mutation (of anything but a class-level default object) -/
theorem mutation_isolated (c : Config) (hsafe : SafeIso3 tables3 c = true) (h : List Event)
    (hok : runOK tables3 c c.init h) (t : Nat) (chain : List Node) (p n : Nat)
    (hev : evOK tables3 c (run c c.init h) (.mutate t chain p n))
    (t' : Nat) (ht' : t' ∈ tables3) (hne : t' ≠ t) (chain' : List Node) (hch : ChainOK chain') (p' : Nat) :
    (step c (step c (run c c.init h) (.mutate t chain p n)).1 (.read t' chain' p')).2
      = (step c (run c c.init h) (.read t' chain' p')).2 := by
  obtain ⟨h2, hf, htr⟩ := safeIso3_at hsafe
  obtain ⟨h1, _, _, h4⟩ := safeIso_at (safeIso2_at h2).1
  exact mutate_isolated h1 h4 hf htr (ginv_run h1 h _ (ginv_init h1) hok (fun _ _ _ => h4)) t chain p n hev
    ht' hne chain' hch p'

/-- assignments are local as well: the log never holds a user value of the public table -/
theorem no_public_user_values (c : Config) (hsafe : SafeCfg tables3 c = true) (hsh : NoSharedCfg c)
    (h : List Event) (hok : runOK tables3 c c.init h) (node : Node) (p : Nat) :
    userVal (run c c.init h).log 0 node p = none :=
  userVal_public (ginv_run hsafe h _ (ginv_init hsafe) hok (fun _ _ _ => hsh)).log node p

/-! ## the full statement, and why it is only proved with the exclusion (finding D20) -/

/-- events without the D20 exclusion -/
def evOKFull : Event → Prop
  | .read t _ _ => t ∈ tables3
  | .has t _ _ => t ∈ tables3
  | .init _ t => t ∈ tables3
  | .importMod _ => True
  | .assign t _ _ _ => t ∈ tables3 ∧ t ≠ 0
  | .mutate t _ _ _ => t ∈ tables3 ∧ t ≠ 0

def public_unchanged_full : Prop :=
  ∀ (h : List Event), (∀ e ∈ h, evOKFull e) → ∀ (chain : List Node), ChainOK chain → ∀ p,
    (step cfg (run cfg cfg.init h) (.read 0 chain p)).2 = canon cfg (.read 0 chain p)

/-- an element without a neutron record (Og) – attribute 4 = `neutron` -/
def og : List Node := [⟨.element, 118, []⟩]

/-- mutating in place what a private table serves for an atom without a neutron record (the
    class-level placeholder) changes what the public table serves for every such atom -/
theorem public_unchanged_counterexample : ¬ public_unchanged_full := by
  intro hfull
  have := hfull [.mutate 1 og 4 7] (by intro e he; simp at he; subst he; simp [evOKFull, tables3]) og
    (by decide) 4
  revert this
  decide +kernel

/-! ## non-vacuity, and the pinned tree -/

/-- Fe with a structure record; init 3 = `crystal_structure.init`, attribute 3 = `crystal_structure` -/
def fe : List Node := [⟨.element, 26, [(3, 1)]⟩]

def hist1 : List Event := [.init 3 1, .mutate 1 fe 3 5, .assign 2 fe 3 9, .init 3 2]

example : runOK tables3 cfg cfg.init hist1 := runOK_of_b (by decide +kernel)
example : (step cfg (run cfg cfg.init hist1) (.read 0 fe 3)).2 = .data 3 1 [] := by decide +kernel
example : (step cfg (run cfg cfg.init hist1) (.read 1 fe 3)).2 = .data 3 1 [5] := by decide +kernel
example : (step cfg (run cfg cfg.init hist1) (.read 2 fe 3)).2 = .data 3 1 [] := by decide +kernel
example : TableClean 2 (run cfg cfg.init [.init 3 1, .mutate 1 fe 3 5]).log := tableClean_of_b (by decide +kernel)

/-- the pinned tree: structure records stored by reference, setter without the load, `nsf.init`
    without the forcing read -/
def cfgPinned : Config :=
  { cfg with groups := cfg.groups.map fun g =>
      { g with
        setter := [.clear, .set]
        inits := g.inits.map fun mi => (mi.1, (mi.2.filter (· ≠ .probe .element 4 true)).map fun e =>
          match e with
          | .instWrite c 3 sel _ => .instWrite c 3 sel true
          | e => e) } }

theorem pinned_unsafe : SafeIso tables3 cfgPinned = false := by decide +kernel

/-- D13 / D14 on the pinned tree: `nsf.init(T)` first disables the public neutron data; a record
    mutated through T is the public table's record -/
theorem pinned_counterexamples :
    (step cfgPinned (run cfgPinned cfgPinned.init [.init 4 1]) (.read 0 [⟨.element, 26, [(4, 3), (4, 7)]⟩] 4)).2
      ≠ canon cfgPinned (.read 0 [⟨.element, 26, [(4, 3), (4, 7)]⟩] 4) ∧
    (step cfgPinned (run cfgPinned cfgPinned.init [.read 0 fe 3, .init 3 1, .mutate 1 fe 3 5])
      (.read 0 fe 3)).2 = .data 3 1 [5] := by decide +kernel

end PtVerif.C10
