import PtVerif.Model.Lazy
import PtVerif.Generated.LazyConfig
/-! # C10 — private tables are isolated (work in progress) -/
namespace PtVerif.C10
open PtLazy

theorem nine_inits : PtGen.lazyInitNames.length = 9 := by decide

end PtVerif.C10
