import PtVerif.Proofs.Hill
/-!
# C19 — Hill form is a canonical, composition-preserving normal form

Model: `hillKey`, `sortBy`, `hillS` in `Model/Formula.lean` (`_hill_key`,
`_convert_to_hill_notation`, `Formula.hill`) with the symbol table generated from
core.py (`Generated/ElementBase`, `Model/Symbols.lean`).  `t` is the atoms dict of the
formula (`Items.atoms`, distinct keys by `C02.atoms_keys_distinct`).
-/
namespace PtVerif.C19
open PtModel

variable {α : Type}

/-- data fact over the regenerated `element_base`: atomic numbers are distinct, and the
    symbols – together with `D` and `T` – are pairwise distinct -/
theorem generated_symbols_distinct :
    (genSyms.map Prod.fst).Nodup ∧ (genSyms.map Prod.snd ++ [codeD, codeT]).Nodup := by
  decide +kernel

/-- hence the sort key `(class, symbol, isotope, charge)` distinguishes all atoms of the table -/
theorem key_injective : KeyInjective symOf (fun x => x.z ∈ genSyms.map Prod.fst) :=
  symOfTable_injective genSyms generated_symbols_distinct.1 generated_symbols_distinct.2

/-- the Hill form has exactly the same atom counts -/
theorem hill_same_counts [CommSemiring α] (sym : Nat → Nat → Nat) (s : Items α) (b : Atom) :
    lookupD (hillS sym s.atoms).atoms b = lookupD s.atoms b :=
  hill_counts sym s.atoms (Items.keysNodup_countAcc s (by simp [KeysNodup])) b

/-- it is one flat list of the same (atom, count) entries … -/
theorem hill_is_permutation (sym : Nat → Nat → Nat) (t : List (Atom × α)) :
    (hillSorted sym t).Perm t ∧
    hillS sym t = Items.ofList ((hillSorted sym t).map fun e => (e.2, Frag.atom e.1)) :=
  ⟨hillSorted_perm sym t, hillS_eq sym t⟩

/-- … ordered by the key: earlier entries never have a larger key -/
theorem hill_sorted (sym : Nat → Nat → Nat) (t : List (Atom × α)) :
    (hillSorted sym t).Pairwise fun x y => (hillKey sym x.1).le (hillKey sym y.1) = true :=
  hillSorted_pairwise sym t

/-- what the key order means: carbon and hydrogen (class 0, and "C" < "H") first, then all
    other atoms by symbol; atoms with one symbol by mass number; ions of one atom by charge -/
theorem key_order (sym : Nat → Nat → Nat) (x y : Atom) :
    (hillKey sym x).le (hillKey sym y) = true ↔
      (hillKey sym x).cls < (hillKey sym y).cls ∨ ((hillKey sym x).cls = (hillKey sym y).cls ∧
        (sym x.z x.a < sym y.z y.a ∨ (sym x.z x.a = sym y.z y.a ∧
          (x.a < y.a ∨ (x.a = y.a ∧ x.q ≤ y.q))))) := HillKey.le_iff _ _

theorem key_class (sym : Nat → Nat → Nat) (x : Atom) :
    (hillKey sym x).cls = if sym x.z x.a = symC ∨ sym x.z x.a = symH then 0 else 1 := rfl

/-- **canonical**: formulas with equal atom dicts (same atoms and counts, in any order –
    i.e. any regrouping or reordering of the same composition) have equal Hill forms -/
theorem hill_canonical (t₁ t₂ : List (Atom × α)) (hd : ∀ e ∈ t₁, e.1.z ∈ genSyms.map Prod.fst)
    (hk : KeysNodup t₁) (hp : t₁.Perm t₂) : hillS symOf t₁ = hillS symOf t₂ := by
  rw [hillS_eq, hillS_eq, hillSorted_canonical symOf _ key_injective t₁ t₂ hd hk hp]

/-- taking the Hill form twice changes nothing -/
theorem hill_twice [CommSemiring α] (sym : Nat → Nat → Nat) (s : Items α) :
    hillS sym (hillS sym s.atoms).atoms = hillS sym s.atoms :=
  hill_idempotent sym s.atoms (Items.keysNodup_countAcc s (by simp [KeysNodup]))

/-- a flat formula already written in Hill order (as a parsed string is) equals its own Hill form -/
theorem written_in_hill_order_is_own_hill [CommSemiring α] (sym : Nat → Nat → Nat)
    (l : List (Atom × α)) (hk : KeysNodup l)
    (hs : l.Pairwise fun x y => (hillKey sym x.1).le (hillKey sym y.1) = true) :
    hillS sym (Items.ofList (l.map fun e => (e.2, Frag.atom e.1))).atoms
      = Items.ofList (l.map fun e => (e.2, Frag.atom e.1)) := hill_of_sorted sym l hk hs

/-! non-vacuity: C H4 O in Hill order; O C H4 sorts to it -/
example : hillSorted symOf [((⟨8,0,0⟩ : Atom), (1:Int)), (⟨6,0,0⟩, 1), (⟨1,0,0⟩, 4)]
    = [(⟨6,0,0⟩, 1), (⟨1,0,0⟩, 4), (⟨8,0,0⟩, 1)] := by decide +kernel

end PtVerif.C19
