/-! # C19 — (stub: property theorems go here; see docs/BUILDING.md) -/
namespace PtVerif.C19
end PtVerif.C19
