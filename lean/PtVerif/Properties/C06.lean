import PtVerif.Model.Loaders
import PtVerif.Generated.MassTables
import PtVerif.Generated.Density
/-! # C06 — placeholder while the pipeline is brought up -/
namespace PtVerif.C06
open PtLoad

theorem placeholder : parseUncertainty "[289]".toList = some (.nominal ⟨289, 0⟩) := by decide

end PtVerif.C06
