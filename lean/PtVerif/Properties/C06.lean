import PtVerif.Proofs.LoadersField
import PtVerif.Proofs.ParseUnc
import PtVerif.Model.LoaderTables
import PtVerif.Generated.MassTables
import PtVerif.Generated.Density
import PtVerif.Generated.Constants
/-!
# C06 — mass, abundance and density of every nuclide are those of the embedded tables

Model: `PtVerif.Model.Loaders` (`parseUncertainty`, `Mass.loadText = parseMassTables ≫ Mass.load`,
`loadRows` = the three passes of `mass.init` as folds, `Density.*`), tied to mass.py / density.py /
util.py by `harness/ptv/props/C06.py`.

Part 1 states the loader theorems for **every** table triple (any rows, any number type).
Part 2 are kernel-checked facts about the tables embedded in the source *today*
(`Generated.MassTables`, `Generated.Density`, regenerated on every run).  Part 3 instantiates
part 1 on those tables.

Not covered by theorems: floating-point rounding of `100·v/Σv`, `(hi+lo)/2`, `ρ·mᵢ/m` (compared
at 1e-9 / 1e-13 by the correspondence and the oracle); that the string-level parse of the raw
text equals the generated rows is checked by the compiled driver on every run, not by the kernel.
-/
namespace PtVerif.C06
open PtLoad

/-! ## Part 1 — every table -/

section generic
variable {α : Type} [Add α] [Sub α] [Mul α] [Div α] [OfNat α 0] [NatCast α] [IntCast α] [Transc α]
  [BEq α]

/-- every isotope is served the mass and uncertainty of *its* row of `isotope_mass`
    (keys distinct); the neutron's isotope is fixed by constants.py -/
theorem iso_mass_is_row (nm nmu : α) (t : MassTables) (hnd : (t.iso.map isoKey).Nodup)
    (r : IsoRow) (hr : r ∈ t.iso) (hn : isoKey r ≠ (0, 1)) :
    (loadRows nm nmu t).isoMassOf r.z r.a = some (r.m.eval : VU α) :=
  PtLoad.iso_mass_is_row nm nmu t hnd r hr hn

/-- without the distinctness assumption: the last row of a key wins -/
theorem iso_mass_last_row (nm nmu : α) (t : MassTables) (pre post : List IsoRow) (r : IsoRow)
    (ht : t.iso = pre ++ r :: post) (hlast : ∀ x ∈ post, isoKey x ≠ isoKey r)
    (hn : isoKey r ≠ (0, 1)) :
    (loadRows nm nmu t).isoMassOf r.z r.a = some (r.m.eval : VU α) :=
  PtLoad.iso_mass_last_row nm nmu t pre post r ht hlast hn

theorem neutron_iso_mass (nm nmu : α) (t : MassTables) :
    (loadRows nm nmu t).isoMassOf 0 1 = some (some (nm, nmu)) := PtLoad.neutron_iso_mass nm nmu t

/-- the isotopes of a loaded table are exactly those of the rows, the neutron, D and T -/
theorem isotopes_are_rows (nm nmu : α) (t : MassTables) (z a : Nat) :
    (loadRows nm nmu t).hasIsotope z a = true
      ↔ (∃ r ∈ t.iso, r.z = z ∧ r.a = a) ∨ (z, a) = (0, 1) ∨ (z, a) = (1, 2) ∨ (z, a) = (1, 3) :=
  has_isotope_iff nm nmu t z a

/-- an element with a standard atomic weight in `element_mass` (not `-`) is served it -/
theorem el_mass_is_override (nm nmu : α) (t : MassTables)
    (hnd : ((overrides t.el).map Prod.fst).Nodup) (z : Nat) (u : Unc) (h : (z, u) ∈ overrides t.el) :
    (loadRows nm nmu t).elMassOf z = some (u.eval : VU α) := el_mass_override nm nmu t hnd z u h

/-- otherwise it is served the element-mass column of its last isotope row -/
theorem el_mass_is_last_row (nm nmu : α) (t : MassTables) (pre post : List IsoRow) (r : IsoRow)
    (ht : t.iso = pre ++ r :: post) (hlast : ∀ x ∈ post, x.z ≠ r.z) (hz : r.z ≠ 0)
    (hno : ∀ p ∈ overrides t.el, p.1 ≠ r.z) :
    (loadRows nm nmu t).elMassOf r.z = some (r.avg.eval : VU α) :=
  el_mass_last_row nm nmu t pre post r ht hlast hz hno

theorem el_mass_of_neutron (nm nmu : α) (t : MassTables) (hno : ∀ p ∈ overrides t.el, p.1 ≠ 0) :
    (loadRows nm nmu t).elMassOf 0 = some (some (nm, nmu)) := el_mass_neutron nm nmu t hno

/-- an element no table mentions has no mass (it is not served a neighbour's) -/
theorem el_mass_absent (nm nmu : α) (t : MassTables) (z : Nat) (hz : z ≠ 0)
    (hno : ∀ p ∈ overrides t.el, p.1 ≠ z) (hrows : ∀ r ∈ t.iso, r.z ≠ z) :
    (loadRows nm nmu t).elMassOf z = none := PtLoad.el_mass_absent nm nmu t z hz hno hrows

/-- an isotope listed in its element's section of the composition table is served
    `100·v/Σv ± 100·u/Σv` (sum over the section) -/
theorem abundance_normalised (nm nmu : α) (t : MassTables)
    (pre post : List (Nat × List (Nat × Unc))) (z : Nat) (entries : List (Nat × Unc))
    (hs : sectionsU t.ab = pre ++ (z, entries) :: post) (hlast : ∀ s ∈ post, s.1 ≠ z) (hz : z ≠ 0)
    (a : Nat) (u : Unc) (hu : (a, u) ∈ entries) :
    (loadRows nm nmu t).isoAbOf z a
      = some (((100 : Nat) : α) * ((u.eval (α := α)).getD (0, 0)).1 / sectionTotal (α := α) entries,
              ((100 : Nat) : α) * ((u.eval (α := α)).getD (0, 0)).2 / sectionTotal (α := α) entries) :=
  PtLoad.abundance_normalised nm nmu t pre post z entries hs hlast hz a u hu

/-- isotopes absent from the composition table have abundance 0 -/
theorem abundance_zero_if_unlisted (nm nmu : α) (t : MassTables) (z a : Nat)
    (hrow : ∃ r ∈ t.iso, r.z = z ∧ r.a = a) (hn : (z, a) ≠ (0, 1))
    (hun : ∀ s ∈ sectionsU t.ab, s.1 = z → s.1 = 0 ∨ ∀ p ∈ s.2, p.1 ≠ a) :
    (loadRows nm nmu t).isoAbOf z a = some ((0 : α), (0 : α)) :=
  PtLoad.abundance_zero_if_unlisted nm nmu t z a hrow hn hun

/-- pass 3 writes every section, *including the last one* (this is the statement the pinned
    tree violated: uranium, D1) -/
theorem every_section_is_written (st : MassState α) (ls : List AbLine) :
    pass3 st ls = (sections (α := α) ls).foldl (fun st s => flush st s.1 s.2) st := pass3_eq st ls

end generic

/-- the abundances written for one element sum to 100 % (raw sum not zero; a zero sum is a
    ZeroDivisionError in the real code and `loadOk = false` in the model) -/
theorem abundances_sum_to_100 {α : Type} [Field α] (value : List (Nat × (α × α)))
    (h : abTotal value ≠ 0) :
    (value.map fun p => ((100 : Nat) : α) * p.2.1 / abTotal value).sum = 100 := normalised_sum value h

/-- the element is served the entry of `element_densities` under its symbol -/
theorem density_is_entry {α : Type} [Div α] [NatCast α] [IntCast α] (zOf : Nat → Option Nat)
    (pre post : List DensityRow) (r : DensityRow) (z : Nat)
    (hz : zOf r.sym = some z) (hlast : ∀ x ∈ post, zOf x.sym ≠ some z) :
    elDensity (Density.loadRows (α := α) zOf (pre ++ r :: post)) z = some (r.value.map Dec.toNum) :=
  PtLoad.density_is_entry zOf pre post r z hz hlast

theorem density_absent {α : Type} [Div α] [NatCast α] [IntCast α] (zOf : Nat → Option Nat)
    (rows : List DensityRow) (z : Nat) (h : ∀ x ∈ rows, zOf x.sym ≠ some z) :
    elDensity (Density.loadRows (α := α) zOf rows) z = none := PtLoad.density_absent zOf rows z h

/-- `n = ρ·N_A/m` -/
theorem n_eq_rho_NA_over_m {α : Type} [Field α] [Transc α] (na rho m : α) :
    numberDensityVal na rho m = rho * na / m := number_density_eq na rho m

/-- `n·d³ = 10²⁴` -/
theorem n_mul_d_cubed (na rho m : ℝ) (hna : 0 < na) (hrho : 0 < rho) (hm : 0 < m) :
    numberDensityVal na rho m * interatomicDistanceVal na rho m ^ 3 = 10 ^ 24 :=
  PtLoad.n_mul_d_cubed na rho m hna hrho hm

/-- isotope density = element density × mass ratio -/
theorem isotope_density_is_scaled {α : Type} [Field α] [Transc α] (rho mi me : α) :
    isoDensityVal rho mi me = rho * mi / me := isotope_density_ratio rho mi me

/-- … and it is unknown (`None`), not an error, when the element's density is unknown -/
theorem isotope_density_unknown {α : Type} [Mul α] [Div α] [OfNat α 0] [BEq α] (mi me : Option (Option α)) :
    isoDensity (some none) mi me = some none := rfl

/-- number density and interatomic distance are unknown when the density is -/
theorem derived_unknown {α : Type} (bad : α → α → Bool) (f : α → α → α) (m : Option (Option α)) :
    elDerived bad f (some none) m = some none := rfl

/-! ### the three notations, read as documented – for digit strings of any length -/

/-- **`value(unc)`**: `ip.fp(u)` (and `ip.fp(u)#`, …) is the value `ip.fp` with the uncertainty
    `u` in units of the last digit of the value: `23.0035(12)` is `23.0035 ± 0.0012` -/
theorem parseUncertainty_value_unc (ip fp u tail : Str) (hip : Digits ip) (hfp : Digits fp) (hu : Digits u)
    (hine : ip ≠ []) (hlen : u.length ≤ fp.length) :
    parseUncertainty (ip ++ '.' :: fp ++ '(' :: u ++ ')' :: tail)
      = some (.valUnc ⟨(natOf (ip ++ fp) : Int), fp.length⟩ ⟨(natOf u : Int), fp.length⟩) :=
  parseUncertainty_valunc ip fp u tail hip hfp hu hine hlen

/-- **`[nominal]`** has uncertainty zero -/
theorem parseUncertainty_nominal (ip : Str) (hip : Digits ip) (hne : ip ≠ []) :
    parseUncertainty ('[' :: (ip ++ [']'])) = some (.nominal ⟨(natOf ip : Int), 0⟩) :=
  parseUncertainty_nominal_int ip hip hne

theorem parseUncertainty_nominal_decimal (ip fp : Str) (hip : Digits ip) (hfp : Digits fp)
    (hne : ip ≠ [] ∨ fp ≠ []) :
    parseUncertainty ('[' :: ((ip ++ '.' :: fp) ++ [']']))
      = some (.nominal ⟨(natOf (ip ++ fp) : Int), fp.length⟩) := PtLoad.parseUncertainty_nominal ip fp hip hfp hne

/-- **`[low,high]`**: both ends are read exactly … -/
theorem parseUncertainty_range (ip1 fp1 ip2 fp2 : Str) (h1 : Digits ip1) (h2 : Digits fp1)
    (h3 : Digits ip2) (h4 : Digits fp2) (hne1 : ip1 ≠ [] ∨ fp1 ≠ []) (hne2 : ip2 ≠ [] ∨ fp2 ≠ []) :
    parseUncertainty ('[' :: (((ip1 ++ '.' :: fp1) ++ ',' :: (ip2 ++ '.' :: fp2)) ++ [']']))
      = some (.range ⟨(natOf (ip1 ++ fp1) : Int), fp1.length⟩ ⟨(natOf (ip2 ++ fp2) : Int), fp2.length⟩) :=
  PtLoad.parseUncertainty_range ip1 fp1 ip2 fp2 h1 h2 h3 h4 hne1 hne2

/-- … and a range stands for its mean with the 1-sigma width of a rectangular distribution -/
theorem range_is_mean_and_width {α : Type} [Field α] [Transc α] (lo hi : Dec) :
    (Unc.range lo hi).eval (α := α)
      = some ((hi.toNum + lo.toNum) / 2, (hi.toNum - lo.toNum) / Transc.sqrt 12) := by
  simp [Unc.eval, Unc.val, Unc.unc]

/-- a bare value has uncertainty zero, a blank field is `(None, None)` -/
theorem parseUncertainty_bare (ip fp : Str) (hip : Digits ip) (hfp : Digits fp) (hine : ip ≠ []) :
    parseUncertainty (ip ++ '.' :: fp) = some (.plain ⟨(natOf (ip ++ fp) : Int), fp.length⟩) :=
  parseUncertainty_plain ip fp hip hfp hine

theorem parseUncertainty_blank : parseUncertainty [] = some .missing := rfl

/-! concrete instances -/
example : parseUncertainty "23.0035(12)".toList = some (.valUnc ⟨230035, 4⟩ ⟨12, 4⟩) := by decide +kernel
example : parseUncertainty "5.03987(215)#".toList = some (.valUnc ⟨503987, 5⟩ ⟨215, 5⟩) := by decide +kernel
example : parseUncertainty "23.0(1.0)".toList = some (.valUnc ⟨230, 1⟩ ⟨10, 1⟩) := by decide +kernel
example : parseUncertainty "[289]".toList = some (.nominal ⟨289, 0⟩) := by decide +kernel
example : parseUncertainty "[28.084,28.086]".toList = some (.range ⟨28084, 3⟩ ⟨28086, 3⟩) := by decide +kernel
example : parseUncertainty "".toList = some .missing := by decide +kernel
example : parseUncertainty "1.2.3(4)".toList = none := by decide +kernel

/-! ## Part 2 — the embedded tables (kernel-checked on every run) -/

/-- `isotope_mass`: keys `(Z, A)` strictly increasing, hence distinct -/
theorem iso_keys_sorted : strictSorted (PtGen.isoMassRows.map isoKey) = true := by decide +kernel

theorem iso_keys_distinct : (PtGen.isoMassRows.map isoKey).Nodup :=
  nodup_of_strictSorted _ iso_keys_sorted

/-- no row of `isotope_mass` is the neutron's -/
theorem iso_rows_not_neutron : PtGen.isoMassRows.all (fun r => r.z != 0) = true := by decide +kernel

/-- every row names an element of `core.element_base` by number and symbol (the `assert`);
    checked per run of rows with equal Z -/
theorem iso_rows_symbols_grouped : groupSymbolsOk symOf (groupByZ PtGen.isoMassRows) = true := by
  decide +kernel

theorem iso_rows_symbols : pass1Ok symOf PtGen.isoMassRows = true :=
  pass1Ok_of_groups symOf _ iso_rows_symbols_grouped

/-- every element 1…118 has isotope-mass rows -/
theorem every_element_has_rows :
    allZ.all (fun z => z == 0 || ((groupByZ PtGen.isoMassRows).map Prod.fst).contains z) = true := by
  decide +kernel

/-- `element_mass`: atomic numbers strictly increasing; no `-` rows are needed for this -/
theorem el_keys_sorted : incr ((overrides PtGen.elMassRows).map Prod.fst) = true := by decide +kernel

theorem el_rows_exist : pass2Ok symOf PtGen.elMassRows = true := by decide +kernel

/-- `isotope_abundance`: one section per element, atomic numbers strictly increasing (the
    leading pseudo-section of element 0 is empty) -/
theorem ab_headers_sorted : incr ((sectionsU PtGen.abLines).map Prod.fst) = true := by decide +kernel

theorem ab_first_section_empty : (sectionsU PtGen.abLines).head? = some (0, []) := by decide +kernel

/-- every isotope named in the composition table has a row in the isotope-mass table -/
theorem ab_isotopes_have_rows_grouped :
    sectionsHaveRows (groupByZ PtGen.isoMassRows) (sectionsU PtGen.abLines) = true := by decide +kernel

theorem ab_isotopes_have_rows :
    ∀ s ∈ sectionsU PtGen.abLines, ∀ p ∈ s.2, (s.1, p.1) ∈ PtGen.isoMassRows.map isoKey :=
  sectionsHaveRows_sound _ _ ab_isotopes_have_rows_grouped

/-- every fraction of the composition table is a positive number (so every section's sum is
    positive and the normalisation is defined) -/
theorem ab_values_positive :
    (sectionsU PtGen.abLines).all (fun s => s.2.all fun p => decide p.2.Pos) = true := by decide +kernel

/-- no composition entry is listed twice within its section (`dict` would silently keep the
    second) – lines and dict entries are in one-to-one correspondence -/
theorem ab_entries_once :
    (PtGen.abLines.filter (fun l => match l with | .entry _ _ => true | _ => false)).length
      = ((sectionsU PtGen.abLines).map (fun s => s.2.length)).sum := by decide +kernel

/-- **atomic weights are consistent**: for every element listed in the composition table,
    `|A_r − Σ aᵢ·mᵢ/Σ aᵢ| ≤ u(A_r)` in exact rational arithmetic -/
theorem atomic_weight_consistent : weightConsistent PtGen.massTables = true := by decide +kernel

/-- `element_densities`: every key is the symbol of an element, keys distinct, every element
    of the table has an entry -/
theorem density_keys_are_elements : Density.loadOk zOf PtGen.densityRows = true := by decide +kernel

theorem density_keys_distinct :
    incr ((PtGen.densityRows.filterMap fun r => zOf r.sym)) = true := by decide +kernel

theorem density_covers_table :
    allZ.all (fun z => PtGen.densityRows.any fun r => zOf r.sym == some z) = true := by decide +kernel

/-! ## Part 3 — part 1 on the embedded tables -/

section generated
variable {α : Type} [Add α] [Sub α] [Mul α] [Div α] [OfNat α 0] [NatCast α] [IntCast α] [Transc α]
  [BEq α]

/-- every one of the 2939 nuclides of `isotope_mass` is served its own row -/
theorem generated_iso_mass (nm nmu : α) (r : IsoRow) (hr : r ∈ PtGen.isoMassRows) :
    (loadRows nm nmu PtGen.massTables).isoMassOf r.z r.a = some (r.m.eval : VU α) := by
  apply PtLoad.iso_mass_is_row nm nmu PtGen.massTables iso_keys_distinct r hr
  have := List.all_eq_true.mp iso_rows_not_neutron r hr
  intro e
  simp [isoKey] at e
  simp [e.1] at this

/-- every element with a standard atomic weight is served it -/
theorem generated_el_mass (nm nmu : α) (z : Nat) (u : Unc) (h : (z, u) ∈ overrides PtGen.elMassRows) :
    (loadRows nm nmu PtGen.massTables).elMassOf z = some (u.eval : VU α) :=
  el_mass_override nm nmu PtGen.massTables (nodup_of_incr _ el_keys_sorted) z u h

/-- an element without a standard atomic weight (Tc, Pm, Po … Og) is served the element-mass
    column of the last of its isotope rows -/
theorem generated_el_mass_from_rows (nm nmu : α) (z : Nat) (hz : z ≠ 0)
    (hrows : ∃ y ∈ PtGen.isoMassRows, y.z = z) (hno : ∀ p ∈ overrides PtGen.elMassRows, p.1 ≠ z) :
    ∃ r ∈ PtGen.isoMassRows, r.z = z ∧
      (loadRows nm nmu PtGen.massTables).elMassOf z = some (r.avg.eval : VU α) := by
  obtain ⟨pre, r, post, hsplit, hrz, hpost⟩ := exists_last_of_z PtGen.isoMassRows z hrows
  refine ⟨r, by rw [hsplit]; simp, hrz, ?_⟩
  subst hrz
  exact el_mass_last_row nm nmu PtGen.massTables pre post r hsplit hpost hz hno

/-- every isotope listed in the composition table – of every element, the last one (U)
    included – is served its normalised abundance -/
theorem generated_abundance (nm nmu : α) (z : Nat) (entries : List (Nat × Unc))
    (hs : (z, entries) ∈ sectionsU PtGen.abLines) (hz : z ≠ 0) (a : Nat) (u : Unc) (hu : (a, u) ∈ entries) :
    (loadRows nm nmu PtGen.massTables).isoAbOf z a
      = some (((100 : Nat) : α) * ((u.eval (α := α)).getD (0, 0)).1 / sectionTotal (α := α) entries,
              ((100 : Nat) : α) * ((u.eval (α := α)).getD (0, 0)).2 / sectionTotal (α := α) entries) := by
  obtain ⟨pre, post, hsplit, hlast⟩ :=
    split_of_mem_nodup (fun s : Nat × List (Nat × Unc) => s.1) (sectionsU PtGen.abLines)
      (nodup_of_incr _ ab_headers_sorted) (z, entries) hs
  exact PtLoad.abundance_normalised nm nmu PtGen.massTables pre post z entries hsplit hlast hz a u hu

/-- every nuclide of `isotope_mass` that the composition table does not list has abundance 0 -/
theorem generated_abundance_zero (nm nmu : α) (r : IsoRow) (hr : r ∈ PtGen.isoMassRows)
    (hun : ∀ s ∈ sectionsU PtGen.abLines, s.1 = r.z → ∀ p ∈ s.2, p.1 ≠ r.a) :
    (loadRows nm nmu PtGen.massTables).isoAbOf r.z r.a = some ((0 : α), (0 : α)) := by
  apply PtLoad.abundance_zero_if_unlisted nm nmu PtGen.massTables r.z r.a ⟨r, hr, rfl, rfl⟩
  · have := List.all_eq_true.mp iso_rows_not_neutron r hr
    intro e
    simp at e
    simp [e.1] at this
  · intro s hs e; right; exact hun s hs e

/-- every entry of `element_densities` is served to the element it names -/
theorem generated_density (r : DensityRow) (hr : r ∈ PtGen.densityRows) (z : Nat) (hz : zOf r.sym = some z) :
    elDensity (Density.loadRows (α := α) zOf PtGen.densityRows) z = some (r.value.map Dec.toNum) := by
  obtain ⟨pre, post, hsplit⟩ := List.append_of_mem hr
  rw [hsplit]
  apply PtLoad.density_is_entry zOf pre post r z hz
  intro x hx e
  have hs := nodup_of_incr _ density_keys_distinct
  rw [hsplit, List.filterMap_append, List.filterMap_cons, hz] at hs
  have := (List.nodup_append.mp hs).2.1
  rw [List.nodup_cons] at this
  exact this.1 (List.mem_filterMap.mpr ⟨x, hx, e⟩)

end generated

theorem ab_values_pos : ∀ s ∈ sectionsU PtGen.abLines, ∀ p ∈ s.2, p.2.Pos := by
  intro s hs p hp
  have := List.all_eq_true.mp (List.all_eq_true.mp ab_values_positive s hs) p hp
  simpa using this

/-- on the embedded tables every element's abundances sum to 100 %, over any ordered field -/
theorem generated_abundances_sum_to_100 {α : Type} [Field α] [LinearOrder α] [IsStrictOrderedRing α]
    [Transc α] (z : Nat) (entries : List (Nat × Unc))
    (hs : (z, entries) ∈ sectionsU PtGen.abLines) (hne : entries ≠ []) :
    ((entries.map (evalEntry (α := α))).map
        fun p => ((100 : Nat) : α) * p.2.1 / sectionTotal (α := α) entries).sum = 100 := by
  apply normalised_sum
  exact ne_of_gt (section_total_pos (α := α) entries hne (ab_values_pos (z, entries) hs))

/-- no composition entry is blank and every section names an element of the table -/
theorem ab_lines_ok : PtGen.abLines.all entryOk = true := by decide +kernel

theorem ab_sections_elements_exist :
    (sectionsU PtGen.abLines).all (fun s => s.1 == 0 || (symOf s.1).isSome) = true := by decide +kernel

/-- **`mass.init` runs to completion on the embedded tables** (no KeyError, AssertionError,
    ZeroDivisionError), over any ordered field – so everything part 1 says about `loadRows` is
    what `Mass.load` returns -/
theorem generated_load_ok {α : Type} [Field α] [LinearOrder α] [IsStrictOrderedRing α] [Transc α] :
    loadOk (α := α) symOf PtGen.massTables = true := by
  apply loadOk_of_wellformed symOf PtGen.massTables iso_rows_symbols (by decide +kernel) el_rows_exist
  · intro l hl; exact List.all_eq_true.mp ab_lines_ok l hl
  · intro s hs
    have := List.all_eq_true.mp ab_sections_elements_exist s hs
    simp only [Bool.or_eq_true, beq_iff_eq] at this
    exact this
  · exact ab_isotopes_have_rows
  · exact ab_values_pos

theorem generated_load {α : Type} [Field α] [LinearOrder α] [IsStrictOrderedRing α] [Transc α] (nm nmu : α) :
    Mass.load symOf nm nmu PtGen.massTables = some (loadRows nm nmu PtGen.massTables) := by
  unfold Mass.load
  rw [if_pos generated_load_ok]

/-! non-vacuity: the generic statements have instances in the embedded tables -/
example : (rowOf (groupByZ PtGen.isoMassRows) 92 235).isSome = true := by decide +kernel
example : (92, [(234, Unc.valUnc ⟨54, 6⟩ ⟨5, 6⟩), (235, .valUnc ⟨7204, 6⟩ ⟨6, 6⟩),
    (238, .valUnc ⟨992742, 6⟩ ⟨10, 6⟩)]) ∈ sectionsU PtGen.abLines := by decide +kernel
example : ∃ s ∈ sectionsU PtGen.abLines, s.1 = 8 ∧ s.2.length = 3 := by decide +kernel
example : numberDensityVal (6 : ℝ) 2 3 * interatomicDistanceVal 6 2 3 ^ 3 = 10 ^ 24 :=
  n_mul_d_cubed 6 2 3 (by norm_num) (by norm_num) (by norm_num)

end PtVerif.C06
