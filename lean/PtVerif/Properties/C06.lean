/-! # C06 — (stub: property theorems go here; see docs/BUILDING.md) -/
namespace PtVerif.C06
end PtVerif.C06
