import PtVerif.Proofs.Core
/-! # C08 — atoms are unique per table (work in progress) -/
namespace PtVerif.C08
open PtCore

theorem dict_get_set {κ ν : Type} [DecidableEq κ] (d : Dict κ ν) (k k' : κ) (v : ν) :
    (d.set k v).get? k' = if k = k' then some v else d.get? k' := Dict.get?_set d k k' v

end PtVerif.C08
