/-! # C08 — (stub: property theorems go here; see docs/BUILDING.md) -/
namespace PtVerif.C08
end PtVerif.C08
