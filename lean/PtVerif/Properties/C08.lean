import PtVerif.Proofs.Core
import PtVerif.Generated.ElementBase
/-!
# C08 — atoms are unique per table and every lookup route returns the same object

Model: `PtVerif.Model.Core` (heap of objects numbered by allocation; `PeriodicTable._element`,
the table's atom attributes, `Element._isotopes`, `IonSet.ionset` as dictionaries; every method
of core.py 210-599 written the way it is written) – tied to core.py by the correspondence in
`harness/ptv/props/C08.py`; `base` is regenerated from `element_base` on every run.

`Reach s` = the states reachable from the empty interpreter by any finite sequence of operations
(any number of tables, any interleaving).  Not covered: CPython itself (object identity, dict,
`__getattr__`, pickle/copy calling `__reduce__`) – modelled, checked by the correspondence.
-/
namespace PtVerif.C08
open PtCore

/-- `element_base` as read from core.py by the translator -/
def base : Base := baseOfRaw PtGen.elementBase

/-! ## facts about the generated table (re-checked against the source on every run) -/

/-- atomic numbers are distinct -/
theorem base_Z_distinct : (base.map (·.z)).Nodup := by decide +kernel

/-- symbols are distinct, and none is `D` or `T` (the aliases of H[2] and H[3]) -/
theorem base_symbols_distinct : (base.map (·.symbol)).Nodup := by decide +kernel
theorem base_DT_free : DTFree base := by
  have : ∀ r ∈ base, decide (r.symbol ≠ "D" ∧ r.symbol ≠ "T") = true := by decide +kernel
  intro r hr; exact of_decide_eq_true (this r hr)

/-- names are distinct and none is `deuterium` / `tritium` -/
theorem base_names_distinct : ((base.map (·.name)) ++ ["deuterium", "tritium"]).Nodup := by decide +kernel

/-- there is a hydrogen row, so `PeriodicTable.__init__` can create D and T -/
theorem base_has_H : (base.find? (·.symbol = "H")).isSome = true := by decide +kernel

/-! ## the invariant holds in every reachable state -/

/-- states reachable from a fresh interpreter by any operation sequence -/
def Reach (s : State) : Prop := ∃ ops : List Op, s = run base init ops

theorem inv_init : Inv base init := PtCore.inv_init base

theorem inv_step (s : State) (h : Inv base s) (op : Op) : Inv base (step base s op).1 :=
  (PtCore.inv_step base_Z_distinct h op).1

/-- lifted to all operation lists -/
theorem inv_reach {s : State} (h : Reach s) : Inv base s := by
  obtain ⟨ops, rfl⟩ := h
  exact inv_run base_Z_distinct ops inv_init

/-- objects are never altered or dropped by later operations -/
theorem objects_persist (s : State) (h : Inv base s) (op : Op) (i : Nat) (o : Obj)
    (ho : s.obj i = some o) : (step base s op).1.obj i = some o :=
  (PtCore.inv_step base_Z_distinct h op).2 i o ho

/-! ## uniqueness and agreement of routes -/

/-- within one table there is one object per (Z, A, charge): two objects that report the same
    table, number, isotope number and charge are the same object -/
theorem atoms_unique {s : State} (h : Reach s) {i j : Nat} {k : Key}
    (hi : s.keyOf i = some k) (hj : s.keyOf j = some k) : i = j :=
  unique (inv_reach h) hi hj

/-- any two operations – whatever the routes – that return atoms reporting the same key return
    the same object, no matter what happened in between -/
theorem routes_agree {s : State} (h : Reach s) (op1 : Op) (between : List Op) (op2 : Op) {i j : Nat}
    (h1 : (step base s op1).2 = .obj i)
    (h2 : (step base (run base (step base s op1).1 between) op2).2 = .obj j)
    {k : Key}
    (hi : (step base (run base (step base s op1).1 between) op2).1.keyOf i = some k)
    (hj : (step base (run base (step base s op1).1 between) op2).1.keyOf j = some k) : i = j := by
  obtain ⟨ops, rfl⟩ := h
  have hr : Reach (step base (run base (step base (run base init ops) op1).1 between) op2).1 :=
    ⟨ops ++ op1 :: (between ++ [op2]), by
      have run_append : ∀ (a c : List Op) (s : State), run base s (a ++ c) = run base (run base s a) c := by
        intro a; induction a with
        | nil => intro _ _; rfl
        | cons x a ih => intro c s; exact ih c _
      rw [run_append]
      show _ = run base (step base (run base init ops) op1).1 (between ++ [op2])
      rw [run_append]; rfl⟩
  exact atoms_unique hr hi hj

/-! ## the object matches the key used (`key_matches`); bad keys raise (`invalid_raises`) -/

/-- `table[Z]` -/
theorem key_matches_number {s : State} (h : Reach s) {t : String} {z i : Nat}
    (hr : (step base s (.getZ t z)).2 = .obj i) : s.keyOf i = some ⟨t, z, none, none⟩ :=
  getZ_key (inv_reach h) hr

/-- `table.symbol(x)`, `getattr(table, x)`: an atom of this table whose symbol is x -/
theorem key_matches_symbol {s : State} (h : Reach s) {t x : String} {i : Nat}
    (hr : (step base s (.symbol t x)).2 = .obj i) :
    ∃ nm k, s.symName base i = some (x, nm) ∧ s.keyOf i = some k ∧ k.table = t ∧ k.q = none := by
  simp only [step] at hr
  cases ha : s.attrs.get? (t, x) with
  | none => simp [ha] at hr
  | some j => simp only [ha] at hr; cases hr; exact symName_of_attr (inv_reach h) ha

theorem key_matches_attr {s : State} (h : Reach s) {t x : String} {i : Nat}
    (hr : (step base s (.attr t x)).2 = .obj i) :
    ∃ nm k, s.symName base i = some (x, nm) ∧ s.keyOf i = some k ∧ k.table = t ∧ k.q = none := by
  simp only [step] at hr
  cases ha : s.attrs.get? (t, x) with
  | none => simp [ha] at hr
  | some j => simp only [ha] at hr; cases hr; exact symName_of_attr (inv_reach h) ha

/-- a module attribute (`periodictable.Fe`, `.iron`, `.D`, `.deuterium`; the namespace filled by
    `define_elements`) holds an element whose symbol or name is the attribute name, or one of the
    aliased isotopes D / T -/
theorem key_matches_module_attr {s : State} (h : Reach s) {x : String} {i : Nat}
    (hr : (step base s (.modAttr x)).2 = .obj i) : NsGood base s x i := by
  obtain ⟨ops, rfl⟩ := h
  have hns := nsOK_run base_Z_distinct base_DT_free ops inv_init (nsOK_init base)
  simp only [step] at hr
  cases hg : (run base init ops).ns.get? x with
  | none => simp [hg] at hr
  | some j =>
    simp only [hg, Res.obj.injEq] at hr
    subst hr
    exact hns x j hg

/-- `table.name(x)`: an atom of this table whose name is x -/
theorem key_matches_name {s : State} (h : Reach s) {t x : String} {i : Nat}
    (hr : (step base s (.name t x)).2 = .obj i) :
    ∃ sym k, s.symName base i = some (sym, x) ∧ s.keyOf i = some k ∧ k.table = t ∧ k.q = none :=
  (name_key (inv_reach h) base_DT_free (s' := (step base s (.name t x)).1) (by rw [← hr])).2

/-- `table.isotope('A-Sym')`: with `(sym, n)` the symbol and number parsed from the string
    (`n = 0`: no number given, `n < 0`: malformed) a successful lookup returns an atom of this
    table; for `n = 0` its symbol is `sym`; otherwise `n > 0`, its isotope number is `n` and it
    is an isotope of the element with symbol `sym` -/
theorem key_matches_isotope_string {s : State} (h : Reach s) {t x : String} {i : Nat}
    (hr : (step base s (.isotope t x)).2 = .obj i) :
    ∃ k, s.keyOf i = some k ∧ k.table = t ∧ k.q = none ∧
      ((parseIsotope x).2 = 0 → ∃ nm, s.symName base i = some ((parseIsotope x).1, nm)) ∧
      ((parseIsotope x).2 ≠ 0 → 0 < (parseIsotope x).2 ∧ k.a = some (parseIsotope x).2.toNat ∧
        ∃ e nm, s.obj i = some (.isotope e (parseIsotope x).2.toNat) ∧
          s.symName base e = some ((parseIsotope x).1, nm)) :=
  (isotope_key (inv_reach h) (s' := (step base s (.isotope t x)).1) (by rw [← hr])).2

/-- `element[A]` -/
theorem key_matches_isotope {s : State} (h : Reach s) {o a i : Nat}
    (hr : (step base s (.iso o a)).2 = .obj i) :
    ∃ t z, s.obj o = some (.element t z) ∧ s.keyOf i = some ⟨t, z, some a, none⟩ :=
  (iso_key (inv_reach h) (s' := (step base s (.iso o a)).1) (by rw [← hr])).2

/-- `atom.add_isotope(A)` (on an element, or delegated by an isotope / ion) -/
theorem key_matches_add_isotope {s : State} (h : Reach s) {o a i : Nat}
    (hr : (step base s (.addIsotope o a)).2 = .obj i) :
    ∃ e t z, s.elemOf o = some (e, t, z) ∧
      (step base s (.addIsotope o a)).1.keyOf i = some ⟨t, z, some a, none⟩ :=
  addIsotope_key (inv_reach h) (s' := (step base s (.addIsotope o a)).1) (by rw [← hr])

/-- `atom.ion[q]`: the owner's key with charge q -/
theorem key_matches_ion {s : State} (h : Reach s) {o i : Nat} {q : Int}
    (hr : (step base s (.ion o q)).2 = .obj i) :
    ∃ w k, s.ionOwner o = some w ∧ s.keyOf w = some k ∧ k.q = none ∧
      (step base s (.ion o q)).1.keyOf i = some ⟨k.table, k.z, k.a, some q⟩ :=
  ion_key (inv_reach h) (s' := (step base s (.ion o q)).1) (by rw [← hr])

/-- an atomic number that is not in `element_base` raises `KeyError` -/
theorem invalid_number_raises {s : State} (h : Reach s) (t : String) {z : Nat}
    (hz : base.row? z = none) : (step base s (.getZ t z)).2 = .err .key :=
  getZ_invalid (inv_reach h) hz

/-- a charge that is not in the element's `ions` raises `ValueError` (also through an isotope
    and through another ion) and creates nothing -/
theorem invalid_charge_raises {s : State} (h : Reach s) {o w e : Nat} {q : Int} {t : String} {z : Nat}
    {r : BaseRow} (hw : s.ionOwner o = some w) (hel : s.elemOf w = some (e, t, z))
    (hrow : base.row? z = some r) (hq : q ∉ r.ions) :
    step base s (.ion o q) = (s, .err .value) :=
  ion_invalid (inv_reach h) hw hel hrow hq

/-- an isotope number that the element does not have raises `KeyError` -/
theorem invalid_isotope_raises (s : State) {o a : Nat} {t : String} {z : Nat}
    (ho : s.obj o = some (.element t z)) (ha : (s.isosOf o).get? a = none) :
    step base s (.iso o a) = (s, .err .key) := by
  simp [step, ho, State.isoGet, ha]

/-- a string whose number part is not an integer, is 0, or that has more than one dash raises -/
theorem malformed_isotope_string_raises (s : State) (t x : String) (hn : (parseIsotope x).2 < 0) :
    (step base s (.isotope t x)).2 = .err .value := by
  simp only [step]
  generalize parseIsotope x = p at hn ⊢
  obtain ⟨sym, n⟩ := p
  simp only at hn ⊢
  have h0 : n ≠ 0 := by omega
  split
  · split
    · simp [h0, hn]
    · simp [h0]
    · rfl
  · rfl

/-- a symbol that is neither in `element_base` nor `D` / `T` raises `ValueError` -/
theorem unknown_symbol_raises {s : State} (h : Reach s) (t : String) {x : String}
    (hx : x ∉ base.map (·.symbol)) (hD : x ≠ "D") (hT : x ≠ "T") :
    (step base s (.symbol t x)).2 = .err .value := by
  simp only [step]
  cases ha : s.attrs.get? (t, x) with
  | none => rfl
  | some i =>
    exfalso
    have hs := inv_reach h
    rcases hs.attrSound t x i ha with ⟨z, r, _, hr, hsym⟩ | ⟨hh, a, z, nm, ho, hho, hal⟩
    · exact hx (List.mem_map.mpr ⟨r, row?_mem hr, hsym⟩)
    · rcases hs.aliasVals i _ hal with hp | hp
      · exact hD (congrArg Prod.fst hp)
      · exact hT (congrArg Prod.fst hp)

/-! ## every route to an element / isotope ends at the same object as plain subscripting -/

/-- a symbol of `element_base` contains no dash: as an 'A-Sym' string it means "no isotope" -/
theorem base_symbols_parse : ∀ r ∈ base, parseIsotope r.symbol = (r.symbol, 0) := by decide +kernel

/-- `table.symbol(sym)`, `getattr(table, sym)`, `table.isotope(sym)` and `table.name(name)` of a
    row of `element_base` return the element object recorded with that row's atomic number … -/
theorem element_routes_number {s : State} (h : Reach s) (t : String) {r : BaseRow} (hr : r ∈ base) {i : Nat} :
    ((step base s (.symbol t r.symbol)).2 = .obj i → s.obj i = some (.element t r.z)) ∧
    ((step base s (.attr t r.symbol)).2 = .obj i → s.obj i = some (.element t r.z)) ∧
    ((step base s (.isotope t r.symbol)).2 = .obj i → s.obj i = some (.element t r.z)) ∧
    ((step base s (.name t r.name)).2 = .obj i → s.obj i = some (.element t r.z)) := by
  have hs := inv_reach h
  refine ⟨?_, ?_, ?_, ?_⟩
  · intro hres
    simp only [step] at hres
    cases ha : s.attrs.get? (t, r.symbol) with
    | none => simp [ha] at hres
    | some j => simp only [ha] at hres; cases hres; exact elem_of_attr hs base_symbols_distinct base_DT_free hr ha
  · intro hres
    simp only [step] at hres
    cases ha : s.attrs.get? (t, r.symbol) with
    | none => simp [ha] at hres
    | some j => simp only [ha] at hres; cases hres; exact elem_of_attr hs base_symbols_distinct base_DT_free hr ha
  · intro hres
    simp only [step, base_symbols_parse r hr] at hres
    cases ha : s.attrs.get? (t, r.symbol) with
    | none => simp [ha] at hres
    | some j =>
      have ho := elem_of_attr hs base_symbols_distinct base_DT_free hr ha
      simp only [ha, ho, ↓reduceIte] at hres
      cases hres; exact ho
  · intro hres
    exact elem_of_name hs base_DT_free base_names_distinct hr
      (s' := (step base s (.name t r.name)).1) (by rw [← hres])

/-- … which is the object `table[Z]` returns: all element routes give one object -/
theorem element_routes_same_object {s : State} (h : Reach s) (t : String) {r : BaseRow} (hr : r ∈ base)
    {i j : Nat} (hz : (step base s (.getZ t r.z)).2 = .obj j)
    (hroute : (step base s (.symbol t r.symbol)).2 = .obj i ∨ (step base s (.attr t r.symbol)).2 = .obj i ∨
      (step base s (.isotope t r.symbol)).2 = .obj i ∨ (step base s (.name t r.name)).2 = .obj i) :
    i = j := by
  have hs := inv_reach h
  have hj : s.obj j = some (.element t r.z) := by
    have := getZ_key hs hz
    obtain ⟨o, ho⟩ := obj_of_keyOf this
    cases o with
    | element t' z' => rw [keyOf_element ho] at this; cases this; exact ho
    | isotope e a => obtain ⟨_, _, _, hk⟩ := keyOf_isotope hs ho; rw [hk] at this; cases this
    | ion w q =>
      rcases keyOf_ion hs ho with ⟨_, _, _, hk⟩ | ⟨_, _, _, _, _, _, hk⟩ <;> (rw [hk] at this; cases this)
  obtain ⟨h1, h2, h3, h4⟩ := element_routes_number (i := i) h t hr
  have hi : s.obj i = some (.element t r.z) := by
    rcases hroute with hh | hh | hh | hh
    · exact h1 hh
    · exact h2 hh
    · exact h3 hh
    · exact h4 hh
  exact unique_element hs hi hj

/-- `table.isotope('A-Sym')` is `table[Z][A]`: if the string parses to (symbol of row r, A ≠ 0),
    the object it returns is the object `element[A]` returns for the element `table[r.z]` -/
theorem isotope_string_same_object {s : State} (h : Reach s) (t x : String) {r : BaseRow} (hr : r ∈ base)
    (hx : (parseIsotope x).1 = r.symbol) (hn : (parseIsotope x).2 ≠ 0) {e i j : Nat}
    (he : (step base s (.getZ t r.z)).2 = .obj e)
    (hj : (step base s (.iso e (parseIsotope x).2.toNat)).2 = .obj j)
    (hi : (step base s (.isotope t x)).2 = .obj i) : i = j := by
  have hs := inv_reach h
  obtain ⟨k, hk, hkt, _, _, hne⟩ := key_matches_isotope_string h hi
  obtain ⟨_, hka, e', nm, hoi, hsym⟩ := hne hn
  obtain ⟨t1, z1, hoe', hki⟩ := keyOf_isotope hs hoi
  rw [hki] at hk; cases hk
  simp only at hkt; subst hkt
  -- e' is the element with symbol r.symbol of this table
  have hz1 : z1 = r.z := by
    have : s.symName base e' = (base.row? z1).map fun r => (r.symbol, r.name) := by
      simp [State.symName, State.elemOf, hoe']
    rw [this] at hsym
    cases hrow : base.row? z1 with
    | none => simp [hrow] at hsym
    | some r' =>
      simp only [hrow, Option.map_some, Option.some.injEq, Prod.mk.injEq] at hsym
      have := row_of_symbol base_symbols_distinct hr (row?_mem hrow) (hsym.1.trans hx)
      subst this
      have hz := List.find?_some hrow
      simp only [decide_eq_true_eq] at hz
      exact hz.symm
  subst hz1
  obtain ⟨_, t2, z2, hoe, hkj⟩ := iso_key hs (s' := (step base s (.iso e (parseIsotope x).2.toNat)).1)
    (by rw [← hj])
  have hkey := getZ_key hs he
  rw [keyOf_element hoe] at hkey
  simp only [Option.some.injEq, Key.mk.injEq, and_true] at hkey
  obtain ⟨rfl, rfl⟩ := hkey
  have : e' = e := unique_element hs hoe' hoe
  subst this
  exact unique hs hki hkj

/-! ## valid keys succeed -/

theorem tables_complete {s : State} (h : Reach s) : TablesOK base s := by
  obtain ⟨ops, rfl⟩ := h
  exact tablesOK_run base_Z_distinct base_symbols_distinct base_DT_free ops (tablesOK_init base)

/-- in every existing table, for every row of `element_base`, lookup by atomic number, by symbol,
    by attribute, by the symbol as 'A-Sym' string and by name all succeed **and return one and the
    same object** -/
theorem element_routes_succeed {s : State} (h : Reach s) {t : String} (ht : t ∈ s.tables) {r : BaseRow}
    (hr : r ∈ base) :
    ∃ i, (step base s (.getZ t r.z)).2 = .obj i ∧ (step base s (.symbol t r.symbol)).2 = .obj i ∧
      (step base s (.attr t r.symbol)).2 = .obj i ∧ (step base s (.isotope t r.symbol)).2 = .obj i ∧
      (step base s (.name t r.name)).2 = .obj i := by
  have hs := inv_reach h
  obtain ⟨i, he, ha⟩ := tables_complete h t ht r hr
  have ho := hs.elemSound _ _ _ he
  refine ⟨i, by simp [step, State.getZ, he], by simp [step, ha], by simp [step, ha],
    by simp [step, base_symbols_parse r hr, ha, ho], ?_⟩
  -- by name: the search over the elements by increasing Z finds a row named r.name; it is r
  have hmem : (r.z, i) ∈ s.sortedElems t := ((sortedElems_spec hs t).2 r.z i).mpr he
  have hrow : base.row? r.z = some r := row?_of_mem base_Z_distinct hr
  cases hf : (s.sortedElems t).find? (fun zi => (base.row? zi.1).map (·.name) = some r.name) with
  | none =>
    have := List.find?_eq_none.mp hf (r.z, i) hmem
    simp [hrow] at this
  | some zi =>
    have hstep : step base s (.name t r.name) = (s, .obj zi.2) := by
      simp only [step]; rw [hf]
    have := elem_of_name hs base_DT_free base_names_distinct hr hstep
    have hi : zi.2 = i := unique_element hs this ho
    rw [hstep, hi]

/-- a charge listed for the element always yields the ion – through the element, one of its
    isotopes, or another ion -/
theorem valid_charge_succeeds {s : State} (h : Reach s) {o w e : Nat} {t : String} {z : Nat} {r : BaseRow}
    {q : Int} (hw : s.ionOwner o = some w) (hel : s.elemOf w = some (e, t, z))
    (hrow : base.row? z = some r) (hq : q ∈ r.ions) : ∃ i, (step base s (.ion o q)).2 = .obj i :=
  ion_total (inv_reach h) hw hel hrow hq

/-- every existing atom pickles / copies back to itself, and restoring changes nothing -/
theorem pickle_roundtrip_total {s : State} (h : Reach s) {o : Nat} {ob : Obj} (ho : s.obj o = some ob) :
    step base s (.reduce o) = (s, .obj o) :=
  reduce_total (inv_reach h) ho

/-! ## iteration -/

/-- `for el in table`: increasing Z, every element of the table exactly once -/
theorem iter_sorted_nodup {s : State} (h : Reach s) (t : String) :
    ((s.sortedElems t).map (·.1)).Pairwise (· < ·) ∧
    ∀ z i, (z, i) ∈ s.sortedElems t ↔ s.elems.get? (t, z) = some i :=
  sortedElems_spec (inv_reach h) t

/-- `for iso in element`: increasing A, every isotope of the element exactly once -/
theorem iter_isotopes_sorted_nodup {s : State} (h : Reach s) (e : Nat) :
    ((s.sortedIsos e).map (·.1)).Pairwise (· < ·) ∧
    ∀ a i, (a, i) ∈ s.sortedIsos e ↔ (s.isosOf e).get? a = some i :=
  sortedIsos_spec (inv_reach h) e

/-! ## pickling / copying and changing table -/

/-- `pickle.loads(pickle.dumps(x)) is x` (also `copy`, `deepcopy`: all go through `__reduce__`) -/
theorem pickle_roundtrip_id {s : State} (h : Reach s) {o i : Nat}
    (hr : (step base s (.reduce o)).2 = .obj i) : i = o :=
  reduce_id base_Z_distinct (inv_reach h) (s' := (step base s (.reduce o)).1) (by rw [← hr])

/-- `change_table(atom, T)` is the atom with the same Z, A and charge in T -/
theorem change_table_same_key {s : State} (h : Reach s) {o i : Nat} {t : String} {k : Key}
    (hk : s.keyOf o = some k) (hr : (step base s (.changeTable o t)).2 = .obj i) :
    (step base s (.changeTable o t)).1.keyOf i = some ⟨t, k.z, k.a, k.q⟩ :=
  changeTable_key (inv_reach h) hk (s' := (step base s (.changeTable o t)).1) (by rw [← hr])

/-! ## non-vacuity: the hypotheses above are met by a concrete reachable state

`s0` = a fresh interpreter after `PeriodicTable("public")`, one isotope added to Fe and two ions
created; every route returns the object the theorems talk about (one kernel evaluation). -/

def ops0 : List Op := [.newTable "public", .addIsotope 26 56, .ion 26 2, .ion 121 3]
def s0 : State := run base init ops0
theorem reach_s0 : Reach s0 := ⟨ops0, rfl⟩

example :
    (step base s0 (.getZ "public" 26)).2 = .obj 26 ∧
    (step base s0 (.symbol "public" "Fe")).2 = .obj 26 ∧
    (step base s0 (.name "public" "iron")).2 = .obj 26 ∧
    (step base s0 (.name "public" "deuterium")).2 = .obj 119 ∧
    (step base s0 (.isotope "public" "Fe")).2 = .obj 26 ∧
    (step base s0 (.attr "public" "Fe")).2 = .obj 26 ∧
    (step base s0 (.isotope "public" " 56-Fe")).2 = .obj 121 ∧
    (step base s0 (.isotope "public" "0-Fe")).2 = .err .value ∧
    (step base s0 (.isotope "public" "D")).2 = .obj 119 ∧
    (step base s0 (.iso 26 56)).2 = .obj 121 ∧
    (step base s0 (.ion 26 2)).2 = .obj 122 ∧
    (step base s0 (.ion 121 3)).2 = .obj 123 ∧
    (step base s0 (.ion 122 3)).2 = .obj 124 ∧       -- ion of an ion: a new Fe{3+}
    (step base s0 (.ion 26 9)).2 = .err .value ∧
    (step base s0 (.reduce 123)).2 = .obj 123 ∧
    (step base s0 (.changeTable 122 "public")).2 = .obj 122 ∧
    (step base s0 (.newTable "public")).2 = .err .value ∧
    s0.keyOf 123 = some ⟨"public", 26, some 56, some 3⟩ ∧
    (s0.sortedElems "public").length = 119 ∧
    parseIsotope "56-Fe-" = ("", -1) ∧
    base.row? 119 = none := by decide +kernel

end PtVerif.C08
