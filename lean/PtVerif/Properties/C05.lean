/-! # C05 — (stub: property theorems go here; see docs/BUILDING.md) -/
namespace PtVerif.C05
end PtVerif.C05
