import PtVerif.Proofs.XrayData
/-!
# C05 — x-ray scattering factors, SLD, refraction, mirror reflectivity, f0

Model: `PtVerif.Model.Xray` (tied to xsf.py / cromermann.py on every run by
`harness/ptv/props/C05.py`: translator for `f0_WaasKirf.dat` + constants, differential
correspondence with `ptdriver xray`, exact oracle on the raw `.nff` rows).

The statements hold for every table, compound, density, energy … over any linearly ordered
field (interpolation), any field (SLD algebra) or ℝ (reflectivity, f0).  A NaN of the code is
`none`; a raised exception is `Except.error`.  Floating-point rounding is not covered.
-/
namespace PtVerif.C05
open PtModel PtModel.Xray

variable {α : Type}

/-! ## f1, f2 are the linear interpolation of the tabulated values, NaN outside -/

/-- between two consecutive nodes of an increasing table the result is the tabulated value on
    the left node and numpy's linear formula `(y₁−y₀)/(x₁−x₀)·(x−x₀)+y₀` strictly inside
    (NaN next to a NaN node) -/
theorem interp_is_linear_between_nodes [Field α] [LinearOrder α]
    (pre post : List (α × Option α)) (x0 x1 : α) (y0 y1 : Option α)
    (ht : Increasing (pre ++ (x0, y0) :: (x1, y1) :: post)) (x : α) (h0 : x0 ≤ x) (h1 : x < x1) :
    interpNaN (pre ++ (x0, y0) :: (x1, y1) :: post) x
      = if x = x0 then y0 else linO x0 y0 x1 y1 x :=
  interpNaN_between pre post x0 x1 y0 y1 ht x h0 h1

/-- every node of an increasing table (the last one included) returns its tabulated value -/
theorem interp_node [Field α] [LinearOrder α] (t : List (α × Option α)) (ht : Increasing t)
    (p : α × Option α) (hp : p ∈ t) : interpNaN t p.1 = p.2 := interpNaN_node t ht p hp

/-- NaN left of the first and right of the last node -/
theorem interp_outside_none [Field α] [LinearOrder α] (t : List (α × Option α)) (ht : Increasing t)
    (x : α) (h : (∀ p ∈ t, x < p.1) ∨ (∀ p ∈ t, p.1 < x)) : interpNaN t x = none := by
  rcases h with h | h
  · cases t with
    | nil => simp [interpNaN]
    | cons p r => obtain ⟨x0, y0⟩ := p; exact interpNaN_left x0 y0 r x (h (x0, y0) (by simp))
  · exact interpNaN_right t ht x h

/-- the table `Xray._gettable` builds from *any* raw file with pairwise distinct energies – in
    whatever order its rows are – is strictly increasing in energy … -/
theorem loaded_table_increasing [Field α] [LinearOrder α] (rows : List (α × α × α))
    (hd : DistinctEnergies rows) :
    Increasing (f1Nodes (loadTable rows)) ∧ Increasing (f2Nodes (loadTable rows)) :=
  ⟨increasing_f1Nodes _ (loadTable_increasing rows hd), increasing_f2Nodes _ (loadTable_increasing rows hd)⟩

/-- … and serves every tabulated row at its own energy: f1 (NaN for the `-9999` marker) and f2 -/
theorem every_tabulated_row_is_served [Field α] [LinearOrder α] (rows : List (α × α × α))
    (hd : DistinctEnergies rows) (r : α × α × α) (hr : r ∈ rows) :
    scatteringFactors (loadTable rows) (loadRow r).e = ((loadRow r).f1, some (loadRow r).f2) :=
  scatteringFactors_node rows hd r hr

/-! ## SLD of a compound -/

/-- `xray_sld` is `r_e·N_A·ρ/m·1e-8` times the count-weighted sums of f1 and f2 over the parts of
    the (arbitrarily nested) formula, `m` being the count-weighted sum of the atomic masses;
    hypotheses: every atom has a table and the energy is in the numeric range of each -/
theorem sld_eq_spec [Field α] [DecidableEq α] (am f1 f2 : Atom → α)
    (sf : Atom → Option (Option α × Option α)) (s : Items α) (d : α)
    (h : ∀ e ∈ s.atoms, sf e.1 = some (some (f1 e.1), some (f2 e.1)))
    (hm : s.flatMass am ≠ 0) :
    xraySld am sf s.atoms (some d)
      = .ok (some (d / s.flatMass am * PtGen.avogadro_number * (((1 : ℕ) : α) / ((100000000 : ℕ) : α))
                    * s.flatMass f1 * PtGen.electron_radius),
             some (d / s.flatMass am * PtGen.avogadro_number * (((1 : ℕ) : α) / ((100000000 : ℕ) : α))
                    * s.flatMass f2 * PtGen.electron_radius)) :=
  xraySld_eq_spec am f1 f2 sf s d h hm

/-- the error branches: no density → `AssertionError`; an atom without a table → `ValueError` -/
theorem sld_raises [Field α] [DecidableEq α] (am : Atom → α)
    (sf : Atom → Option (Option α × Option α)) (t : List (Atom × α)) :
    xraySld am sf t none = .error .noDensity ∧
    ∀ d, (∃ e ∈ t, sf e.1 = none) → xraySld am sf t (some d) = .error .noTable :=
  ⟨rfl, fun d h => xraySld_noTable am sf t d h⟩

/-- linear in density – also on the NaN, empty-formula and error branches -/
theorem linear_in_density [Field α] [DecidableEq α] (am : Atom → α)
    (sf : Atom → Option (Option α × Option α)) (t : List (Atom × α)) (d k : α) :
    xraySld am sf t (some (k * d)) = (xraySld am sf t (some d)).map (scalePair k) :=
  xraySld_density_scale am sf t d k

/-- at equal natural density the SLD does not depend on which isotopes are present: `ρ` relabels
    atoms (isotope ↔ element) leaving element-level data (factors, natural mass) unchanged -/
theorem isotope_independent [Field α] [DecidableEq α] (am nm f1 f2 : Atom → α)
    (sf : Atom → Option (Option α × Option α)) (s : Items α) (ρ : Atom → Atom) (nd : α)
    (h : ∀ e ∈ s.atoms, sf e.1 = some (some (f1 e.1), some (f2 e.1)))
    (h' : ∀ e ∈ (mapItems ρ s).atoms, sf e.1 = some (some (f1 e.1), some (f2 e.1)))
    (hf1 : ∀ a, f1 (ρ a) = f1 a) (hf2 : ∀ a, f2 (ρ a) = f2 a) (hnm : ∀ a, nm (ρ a) = nm a)
    (hm : s.flatMass am ≠ 0) (hm' : (mapItems ρ s).flatMass am ≠ 0) (hn : s.flatMass nm ≠ 0) :
    xraySld am sf (mapItems ρ s).atoms (some (densityOfNatural am nm (mapItems ρ s).atoms nd))
      = xraySld am sf s.atoms (some (densityOfNatural am nm s.atoms nd)) :=
  xraySld_isotope_independent am nm f1 f2 sf s ρ nd h h' hf1 hf2 hnm hm hm' hn

/-- the SLD of a bare element (`Xray.sld`) is the SLD of its one-atom compound at the element's
    density, the number density being `N_A·ρ/m` (density.py; C06) -/
theorem element_sld_eq_one_atom_compound [Field α] [DecidableEq α] (am : Atom → α)
    (sf : Atom → Option (Option α × Option α)) (a : Atom) (f1 f2 rho : α)
    (hsf : sf a = some (some f1, some f2)) (hm : am a ≠ 0) :
    xraySld am sf [(a, 1)] (some rho)
      = .ok ((elementSld (some f1, some f2) (some (PtGen.avogadro_number * (rho / am a)))).getD (none, none)) :=
  elementSld_eq_compound am sf a f1 f2 rho hsf hm

/-! ## energy ↔ wavelength, index of refraction -/

/-- `energy=` and `wavelength=` are inverse conversions -/
theorem energy_wavelength_roundtrip [Field α] [CharZero α] (e : α) (he : e ≠ 0) :
    xrayEnergy (xrayWavelength e) = e ∧ xrayWavelength (xrayEnergy e) = e :=
  ⟨xrayEnergy_xrayWavelength e he, xrayWavelength_xrayEnergy e he⟩

section
attribute [local instance] realTransc

/-- `n = 1 − λ²/(2π)·(ρ + iρᵢ)·1e-6`; NaN as soon as one SLD is NaN -/
theorem refraction_eq_spec (lam rho irho : ℝ) :
    indexOfRefraction lam (some rho, some irho)
      = some (1 - lam * lam / (2 * Real.pi) * rho * (1 / 1000000),
              0 - lam * lam / (2 * Real.pi) * irho * (1 / 1000000)) ∧
    (∀ i : Option ℝ, indexOfRefraction lam (none, i) = none) ∧
    (∀ r : Option ℝ, indexOfRefraction lam (r, none) = none) := by
  refine ⟨?_, ?_, ?_⟩
  · unfold indexOfRefraction
    simp only [Nat.cast_ofNat, Nat.cast_one]
    rfl
  · intro i; cases i <;> rfl
  · intro r; cases r <;> rfl

/-! ## mirror reflectivity -/

/-- thick-mirror reflectivity lies in [0, 1] for every wavelength > 0, incidence angle in
    [0°, 180°], roughness and (complex) index of refraction, under the one hypothesis about
    numpy's complex square root that it is the principal branch (`0 ≤ re (csqrt z)`);
    `none` (NaN index of refraction) is the only other outcome -/
theorem reflectivity_in_unit_interval (csqrt : ℝ × ℝ → ℝ × ℝ) (hc : ∀ z, 0 ≤ (csqrt z).1)
    (lam ang rough : ℝ) (n : Option (ℝ × ℝ)) (hl : 0 < lam) (h0 : 0 ≤ ang) (h1 : ang ≤ 180)
    (R : ℝ) (h : mirrorReflectivity csqrt lam ang rough n = some R) : 0 ≤ R ∧ R ≤ 1 :=
  mirrorReflectivity_bounds csqrt hc lam ang rough n hl h0 h1 R h

/-! ## f0 -/

/-- inside the fitted range `f0` is `Σ aᵢ exp(−bᵢ s²) + c` with `s = Q/4π`; beyond `s = 6` NaN -/
theorem f0_nan_beyond (ab : List (ℝ × ℝ)) (c Q : ℝ) :
    (6 < Q / (4 * Real.pi) → f0 ab c Q = none) ∧
    (Q / (4 * Real.pi) ≤ 6 → f0 ab c Q = some (f0val ab c Q)) := by
  have h4 : (((4 : ℕ) : ℝ) * Transc.pi) = 4 * Real.pi := by norm_num; rfl
  have h6 : ((6 : ℕ) : ℝ) = 6 := by norm_num
  rw [f0_eq, h4, h6]
  constructor
  · intro h; simp [h]
  · intro h; simp [not_lt.mpr h]

/-- f0 is continuous at Q = 0, where it equals Σa + c … -/
theorem f0_tendsto (ab : List (ℝ × ℝ)) (c : ℝ) :
    Filter.Tendsto (f0val ab c) (nhds 0) (nhds (sumA ab + c)) := f0val_tendsto ab c

/-- … and for every row of the regenerated `f0_WaasKirf.dat` that names an atom or ion, Σa + c is
    its electron count Z − q to within 0.05 (kernel-checked over the whole table on every run) -/
theorem f0_limit_is_electron_count (r : PtGen.F0Row) (hr : r ∈ PtGen.f0Rows) (hn : r.named = true) :
    |sumA (rowCoeffs (α := ℝ) PtGen.f0Scale r.a r.b r.c).1
        + (rowCoeffs (α := ℝ) PtGen.f0Scale r.a r.b r.c).2 - (((r.z : Int) - r.q : Int) : ℝ)| ≤ 1 / 20 :=
  f0_limit_electron_count r hr hn

end

/-! ## which table entry an atom or ion resolves to (`fxrayatstol`) -/

/-- an element symbol (letters only) with charge `q ≠ 0` is looked up under
    `<symbol><digits of |q|, reversed><sign>` – the `Fe2+`, `O1-` convention of the table – and a
    neutral atom under its bare symbol; so no atom or ion reaches an entry whose name is not of that
    form (the valence entries `Cval`, `Siva`) -/
theorem resolve_symbol_charge (sym : List Char) (h : ∀ c ∈ sym, c ∉ stripSet) (q : Int) :
    (q ≠ 0 → resolveSymbol sym (some q)
      = sym ++ (Nat.toDigits 10 q.natAbs).reverse ++ [if q < 0 then '-' else '+']) ∧
    resolveSymbol sym (some 0) = sym := by
  refine ⟨fun hq => ?_, resolveSymbol_neutral sym h⟩
  rw [resolveSymbol_ion sym q hq, rstripSet_id sym h]

/-! ## non-vacuity -/

-- a three-node table with a NaN first node, queried inside, on a node, next to the NaN node
example : interpNaN [((1 : ℚ), none), (2, some 10), (4, some 20)] 3 = some 15 := by decide +kernel
example : interpNaN [((1 : ℚ), none), (2, some 10), (4, some 20)] 2 = some 10 := by decide +kernel
example : interpNaN [((1 : ℚ), none), (2, some 10), (4, some 20)] (3/2) = none := by decide +kernel
example : Increasing [((1 : ℚ), none), (2, some 10), (4, some 20)] := by
  unfold Increasing; decide +kernel
-- a raw table whose rows are out of order (as si.nff) still has distinct energies
example : DistinctEnergies [((1838800 : ℚ), 2, 0), (1839000, 3, 2), (1838900, 8, 4)] := by
  unfold DistinctEnergies; decide +kernel
-- … and is served in energy order
example : (loadTable [((1838800 : ℚ), 2, 0), (1839000, 3, 2), (1838900, 8, 4)]).map (·.e)
    = [9194/5, 18389/10, 1839] := by decide +kernel
-- the SLD hypotheses are satisfiable: H2O with constant factors, non-zero mass
example : xraySld (α := ℚ) (fun a => if a.z = 1 then 1 else 16) (fun _ => some (some 1, some 0))
    (Items.cons 2 (.atom ⟨1, 0, 0⟩) (.cons 1 (.atom ⟨8, 0, 0⟩) .nil)).atoms (some 1)
    = .ok (some (1 / 18 * PtGen.avogadro_number * (1 / 100000000) * 3 * PtGen.electron_radius),
           some (1 / 18 * PtGen.avogadro_number * (1 / 100000000) * 0 * PtGen.electron_radius)) := by
  decide +kernel
-- a named row exists, and an unnamed one (valence entry) exists
example : ∃ r ∈ PtGen.f0Rows, r.named = true ∧ r.q = 2 := by decide +kernel
example : ∃ r ∈ PtGen.f0Rows, r.named = false := by decide +kernel
-- symbol resolution on concrete ions
example : resolveSymbol ['F', 'e'] (some 2) = ['F', 'e', '2', '+'] := by decide +kernel
example : resolveSymbol ['O'] (some (-1)) = ['O', '1', '-'] := by decide +kernel
example : resolveSymbol ['N', 'a', '+'] none = ['N', 'a', '1', '+'] := by decide +kernel

end PtVerif.C05
