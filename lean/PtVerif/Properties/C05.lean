import PtVerif.Proofs.Xray
/-!
# C05 — x-ray scattering factors, SLD, refraction, mirror reflectivity, f0

Model: `PtVerif.Model.Xray` (tied to xsf.py / cromermann.py by `harness/ptv/props/C05.py`).
-/
namespace PtVerif.C05
open PtModel PtModel.Xray

variable {α : Type}

/-- between two consecutive nodes of an increasing table the result is the tabulated value on
    the left node and numpy's linear formula strictly inside (NaN next to a NaN node) -/
theorem interp_is_linear_between_nodes [Field α] [LinearOrder α]
    (pre post : List (α × Option α)) (x0 x1 : α) (y0 y1 : Option α)
    (ht : Increasing (pre ++ (x0, y0) :: (x1, y1) :: post)) (x : α) (h0 : x0 ≤ x) (h1 : x < x1) :
    interpNaN (pre ++ (x0, y0) :: (x1, y1) :: post) x
      = if x = x0 then y0 else linO x0 y0 x1 y1 x :=
  interpNaN_between pre post x0 x1 y0 y1 ht x h0 h1

/-- the last node returns its tabulated value -/
theorem interp_last_node [Field α] [LinearOrder α] (pre : List (α × Option α)) (x0 : α)
    (y0 : Option α) (ht : Increasing (pre ++ [(x0, y0)])) :
    interpNaN (pre ++ [(x0, y0)]) x0 = y0 := interpNaN_last pre x0 y0 ht

/-- NaN left of the first and right of the last node -/
theorem interp_outside_none [Field α] [LinearOrder α] (t : List (α × Option α)) (ht : Increasing t)
    (x : α) (h : (∀ p ∈ t, x < p.1) ∨ (∀ p ∈ t, p.1 < x)) : interpNaN t x = none := by
  rcases h with h | h
  · cases t with
    | nil => simp [interpNaN]
    | cons p r => obtain ⟨x0, y0⟩ := p; exact interpNaN_left x0 y0 r x (h (x0, y0) (by simp))
  · exact interpNaN_right t ht x h

/-- `energy=` and `wavelength=` are inverse conversions -/
theorem energy_wavelength_roundtrip [Field α] [CharZero α] (e : α) (he : e ≠ 0) :
    xrayEnergy (xrayWavelength e) = e ∧ xrayWavelength (xrayEnergy e) = e :=
  ⟨xrayEnergy_xrayWavelength e he, xrayWavelength_xrayEnergy e he⟩

/-! non-vacuity: a three-node table with a NaN first node, queried inside, on a node, outside -/
example : interpNaN [((1 : ℚ), none), (2, some 10), (4, some 20)] 3 = some 15 := by decide +kernel
example : interpNaN [((1 : ℚ), none), (2, some 10), (4, some 20)] 2 = some 10 := by decide +kernel
example : interpNaN [((1 : ℚ), none), (2, some 10), (4, some 20)] (3/2) = none := by decide +kernel
example : Increasing [((1 : ℚ), none), (2, some 10), (4, some 20)] := by
  unfold Increasing; decide +kernel

end PtVerif.C05
