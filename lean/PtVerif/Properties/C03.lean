import PtVerif.Proofs.Neutron
/-!
# C03 — neutron SLD, cross sections and penetration follow the documented equations

Model: `PtVerif.Model.Neutron` (`scatteringByWavelength`, `neutronScattering` in the code's order
of operations, `calculateScattering`, `bareScattering`, `interpClamp`), tied to nsf.py on every
run by `harness/ptv/props/C03.py` (translator: `Generated/NeutronConsts`, `Generated/Constants`;
correspondence: `ptdriver neutron`).  `Spec.*` is written from the docstring of
`neutron_scattering`.  All theorems are at `ℝ`; floating-point rounding is not covered.
-/
namespace PtVerif.C03
open PtModel PtModel.Neutron PtProofs.Neutron

/-- **documented equations.**  For every compound (any number of atoms, any positive counts)
    whose atoms all have neutron data, every positive density and wavelength, the seven returned
    quantities are those of the documented equations evaluated on the tabulated `b_c`, `σ_a`,
    `σ_s` and masses (interpolated, end-clamped table values for the energy-dependent atoms).
    `ImNonpos`: every atom's absorption is ≥ 0 (the code returns `|Im|`, the documentation
    `−Im`). -/
theorem scattering_eq_spec (t : Tbl ℝ) (atoms : List (Atom × ℝ)) (ρ w : ℝ)
    (hd : AllData t atoms) (h : Physical t atoms ρ w) (him : ImNonpos t w atoms) :
    neutronScattering t atoms ρ w = .ok (Spec.scattering t atoms ρ w) :=
  PtProofs.Neutron.scattering_eq_spec t atoms ρ w hd h him

/-- the same under the bare sign conditions `0 ≤ N`, `Im b_c ≤ 0`, `m·ρ ≠ 0` (no positivity of
    individual counts needed) -/
theorem scattering_eq_spec_of_signs (t : Tbl ℝ) (atoms : List (Atom × ℝ)) (ρ w : ℝ)
    (hd : AllData t atoms) (hv : Spec.molarMass t atoms * ρ ≠ 0)
    (hN : 0 ≤ Spec.numberDensity t atoms ρ) (him : Spec.imBc t atoms w ≤ 0) :
    neutronScattering t atoms ρ w = .ok (Spec.scattering t atoms ρ w) :=
  PtProofs.Neutron.scattering_eq_spec_of_signs t atoms ρ w hd hv hN him

/-- the `energy=` path is the same calculation at `λ = √(ENERGY_FACTOR / E)` -/
theorem scattering_eq_spec_energy (t : Tbl ℝ) (atoms : List (Atom × ℝ)) (ρ e : ℝ)
    (hd : AllData t atoms) (h : Physical t atoms ρ (neutronWavelength e))
    (him : ImNonpos t (neutronWavelength e) atoms) :
    neutronScatteringE t atoms ρ e = .ok (Spec.scattering t atoms ρ (neutronWavelength e)) :=
  PtProofs.Neutron.scattering_eq_spec_energy t atoms ρ e hd h him

/-- the per-atom step: `scattering_by_wavelength` returns `b_c − i σ_a/(1000·2·1.798)` and the
    tabulated `σ_s`, or for an energy-dependent atom the interpolated `b_c` and `4π|b_c|²/100` -/
theorem per_atom_eq_spec (r : NRec ℝ) (w : ℝ) : scatteringByWavelength r w = Spec.atom r w :=
  sbw_eq_spec r w

/-- **element queried directly** = the one-atom compound at the element's density
    (`_number_density = N_A·ρ/m`, density.py) -/
theorem element_eq_one_atom_compound (t : Tbl ℝ) (x : Atom) (r : NRec ℝ) (ρEl w : ℝ)
    (hq : x.q = 0) (hrec : t.recOf x.z x.a = some r)
    (hnd : r.numberDensity = numberDensityOf ρEl (t.mass x.z x.a))
    (hm : t.mass x.z x.a ≠ 0) (hρ : ρEl ≠ 0) :
    neutronScattering t [(x, 1)] ρEl w = .ok (bareScattering r w) :=
  PtProofs.Neutron.element_eq_one_atom_compound t x r ρEl w hq hrec hnd hm hρ

/-- **isotope queried directly** = the one-atom compound at the isotope's density
    `ρ_el·m_iso/m_el` (the record carries the element's number density) -/
theorem isotope_eq_one_atom_compound (t : Tbl ℝ) (x : Atom) (r : NRec ℝ) (ρEl mEl w : ℝ)
    (hq : x.q = 0) (hrec : t.recOf x.z x.a = some r)
    (hnd : r.numberDensity = numberDensityOf ρEl mEl)
    (hm : t.mass x.z x.a ≠ 0) (hmEl : mEl ≠ 0) (hρ : ρEl ≠ 0) :
    neutronScattering t [(x, 1)] (isotopeDensity ρEl (t.mass x.z x.a) mEl) w
      = .ok (bareScattering r w) :=
  PtProofs.Neutron.isotope_eq_one_atom_compound t x r ρEl mEl w hq hrec hnd hm hmEl hρ

/-- **missing data**: the result is `(None, None, None)` exactly when some atom of the compound
    has no neutron data -/
theorem missing_gives_none (t : Tbl ℝ) (atoms : List (Atom × ℝ)) (ρ w : ℝ) :
    neutronScattering t atoms ρ w = .missing ↔ ∃ e ∈ atoms, t.neutron e.1 = none := by
  rw [missing_iff]
  unfold AllData
  constructor
  · intro h
    by_contra hc
    apply h
    intro e he
    cases hn : t.neutron e.1 with
    | none => exact absurd ⟨e, he, hn⟩ hc
    | some r => rfl
  · rintro ⟨e, he, hn⟩ h
    have := h e he
    simp [hn] at this

/-- zero mass or density gives the vacuum tuple, and nothing else does -/
theorem vacuum_iff (t : Tbl ℝ) (atoms : List (Atom × ℝ)) (ρ w : ℝ) (hd : AllData t atoms) :
    neutronScattering t atoms ρ w = .vacuum ↔ Spec.molarMass t atoms * ρ = 0 :=
  PtProofs.Neutron.vacuum_iff t atoms ρ w hd

/-! ### end-clamped interpolation of the energy-dependent tables (strictly increasing grid) -/

theorem interp_clamp_left (g : Grid ℝ) (hs : Increasing g.toList) (x : ℝ) (h : x ≤ g.first.1) :
    interpClamp g x = g.first.2 := PtProofs.Neutron.interp_clamp_left g hs x h

theorem interp_clamp_right (g : Grid ℝ) (hs : Increasing g.toList) (x : ℝ)
    (h : (g.toList.getLast (by simp [Grid.toList])).1 ≤ x) :
    interpClamp g x = (g.toList.getLast (by simp [Grid.toList])).2 :=
  PtProofs.Neutron.interp_clamp_right g hs x h

theorem interp_clamp_between (g : Grid ℝ) (hs : Increasing g.toList)
    (pre post : List (ℝ × Cx ℝ)) (xj : ℝ) (yj : Cx ℝ) (xk : ℝ) (yk : Cx ℝ)
    (hg : g.toList = pre ++ (xj, yj) :: (xk, yk) :: post) (x : ℝ) (hj : xj ≤ x) (hk : x < xk) :
    interpClamp g x = (yj.1 + (yk.1 - yj.1) / (xk - xj) * (x - xj),
                       yj.2 + (yk.2 - yj.2) / (xk - xj) * (x - xj)) :=
  PtProofs.Neutron.interp_clamp_between g hs pre post xj yj xk yk hg x hj hk

theorem interp_clamp_node (g : Grid ℝ) (hs : Increasing g.toList) (n : ℝ × Cx ℝ)
    (hn : n ∈ g.toList) : interpClamp g n.1 = n.2 :=
  PtProofs.Neutron.interp_clamp_node g hs n hn

/-- an energy-dependent atom uses its table: `b_c` is the interpolated value and the total cross
    section is `4π|b_c|²/100` -/
theorem energy_dependent_uses_table (r : NRec ℝ) (g : Grid ℝ) (h : r.table = some g) (w : ℝ) :
    scatteringByWavelength r w
      = (interpClamp g w, 4 * Real.pi * ((interpClamp g w).1 * (interpClamp g w).1
          + (interpClamp g w).2 * (interpClamp g w).2) / 100) := by
  rw [sbw_eq_spec]; unfold Spec.atom; rw [h]; simp [lit]

/-- `energy_dependent_init`: rows tabulated by strictly increasing positive energy give a grid
    strictly increasing in wavelength – the hypothesis of the four interpolation theorems – and
    the values stay with their energies -/
theorem table_is_wavelength_ordered (rows : List (ℝ × ℝ × ℝ))
    (hpos : ∀ r ∈ rows, 0 < r.1) (hinc : (rows.map (·.1)).Pairwise (· < ·)) :
    Increasing (edNodes rows) ∧
      (edNodes rows).map (·.2) = (rows.map fun r => (r.2.1, r.2.2)).reverse :=
  ⟨edNodes_increasing rows hpos hinc, edNodes_values rows⟩

/-! ### non-vacuity: water over a two-record table satisfies every hypothesis above -/

noncomputable def exTbl : Tbl ℝ where
  recOf := fun z a =>
    if z = 1 ∧ a = 0 then some ⟨-3.739, 0.3326, 82.02, 4.2e22, none⟩
    else if z = 8 ∧ a = 0 then some ⟨5.803, 0.00019, 4.232, 4.3e22, none⟩
    else if z = 64 ∧ a = 0 then some ⟨9.5, 49700, 180, 3e22,
      some ⟨(0.4, (10, -12)), [(1, (6, -13)), (2, (3, -9))]⟩⟩
    else none
  mass := fun z _ => if z = 1 then 1.008 else 15.999
  me := 0.00054858

def exWater : List (Atom × ℝ) := [(⟨1, 0, 0⟩, 2), (⟨8, 0, 0⟩, 1)]

example : AllData exTbl exWater := by
  intro e he
  simp [exWater] at he
  rcases he with rfl | rfl <;> simp [exTbl, Tbl.neutron]

example : Physical exTbl exWater 1 1.798 where
  nonempty := by simp [exWater]
  counts := by intro e he; simp [exWater] at he; rcases he with rfl | rfl <;> norm_num
  masses := by
    intro e he; simp [exWater] at he
    rcases he with rfl | rfl <;> simp [exTbl, Tbl.atomMass, atomMass] <;> norm_num
  density := by norm_num
  wavelength := by norm_num

example : ImNonpos exTbl 1.798 exWater := by
  intro e he
  simp [exWater] at he
  have := lambda0_pos
  rcases he with rfl | rfl <;>
    simp [exTbl, Tbl.neutron, Spec.atomOf, Spec.atom, Spec.imB, lit] <;> positivity

/-- a compound with an atom outside the table is `missing` -/
example : neutronScattering exTbl [(⟨1, 0, 0⟩, 2), (⟨2, 0, 0⟩, 1)] 1 1.798 = .missing :=
  (missing_gives_none _ _ _ _).mpr ⟨(⟨2, 0, 0⟩, 1), by simp, by simp [exTbl, Tbl.neutron]⟩

/-- the example grid is increasing and 1.5 lies between its second and third node -/
example : interpClamp ⟨(0.4, (10, -12)), [(1, (6, -13)), (2, (3, -9))]⟩ (1.5 : ℝ)
    = (6 + (3 - 6) / (2 - 1) * (1.5 - 1), -13 + (-9 - -13) / (2 - 1) * (1.5 - 1)) :=
  interp_clamp_between _ (by simp [Increasing, Grid.toList]; norm_num)
    [(0.4, (10, -12))] [] 1 (6, -13) 2 (3, -9) rfl 1.5 (by norm_num) (by norm_num)

end PtVerif.C03
