/-! # C03 — (stub: property theorems go here; see docs/BUILDING.md) -/
namespace PtVerif.C03
end PtVerif.C03
