/-! # C04 — (stub: property theorems go here; see docs/BUILDING.md) -/
namespace PtVerif.C04
end PtVerif.C04
