import PtVerif.Proofs.NeutronConv
import PtVerif.Proofs.NeutronInvariance
/-!
# C04 — neutron results obey density, cell-size, grouping, unit and vector invariances

Theorems over the model of C03 (`PtVerif.Model.Neutron`), at `ℝ`.  The anchor theorems are
statements about the *generated* constants (`Generated/Constants`, `Generated/NeutronConsts`:
the defining expressions of `ENERGY_FACTOR`, `VELOCITY_FACTOR` in nsf.py), so a changed constant,
exponent or factor of ten in the source breaks a proof.  Tie: `harness/ptv/props/C04.py`.
-/
namespace PtVerif.C04
open PtModel PtModel.Neutron PtProofs.Neutron

/-- **density**: scaling the density by `k > 0` scales every SLD and cross section by `k` and
    the penetration depth by `1/k` (missing-data and vacuum results are unchanged) -/
theorem scale_density (t : Tbl ℝ) (atoms : List (Atom × ℝ)) (ρ w k : ℝ) (hk : 0 < k) :
    neutronScattering t atoms (k * ρ) w = Outcome.scale k (neutronScattering t atoms ρ w) :=
  PtProofs.Neutron.scale_density t atoms ρ w k hk

/-- **cell size**: multiplying all counts by a constant `c ≠ 0` changes nothing -/
theorem scale_counts (t : Tbl ℝ) (atoms : List (Atom × ℝ)) (ρ w c : ℝ) (hc : c ≠ 0)
    (hn : Spec.count atoms ≠ 0) :
    neutronScattering t (scaleCounts c atoms) ρ w = neutronScattering t atoms ρ w :=
  PtProofs.Neutron.scale_counts t atoms ρ w c hc hn

/-- **reordering**: a permutation of the atoms changes nothing -/
theorem perm_invariant (t : Tbl ℝ) {l₁ l₂ : List (Atom × ℝ)} (h : l₁.Perm l₂) (ρ w : ℝ) :
    neutronScattering t l₁ ρ w = neutronScattering t l₂ ρ w :=
  PtProofs.Neutron.perm_invariant t h ρ w

/-- **regrouping**: any two formula structures (any nesting depth, grouping, order, repeated
    atoms) with equal total counts of every atom give the same result.  `Items.cnt` is C02's
    count-weighted sum; `Items.atoms` is the model of `Formula.atoms`. -/
theorem regroup_invariant (t : Tbl ℝ) (s₁ s₂ : Items ℝ) (ρ w : ℝ)
    (hc : ∀ a, s₁.cnt a = s₂.cnt a)
    (hnz1 : ∀ e ∈ s₁.atoms, e.2 ≠ 0) (hnz2 : ∀ e ∈ s₂.atoms, e.2 ≠ 0) :
    neutronScattering t s₁.atoms ρ w = neutronScattering t s₂.atoms ρ w :=
  PtProofs.Neutron.regroup_invariant t s₁ s₂ ρ w hc hnz1 hnz2

/-- **regrouping**, stated for the quantifier of the property (all atoms have neutron data): no
    condition on the counts at all -/
theorem regroup_invariant_allData (t : Tbl ℝ) (s₁ s₂ : Items ℝ) (ρ w : ℝ)
    (hc : ∀ a, s₁.cnt a = s₂.cnt a) (hd1 : AllData t s₁.atoms) (hd2 : AllData t s₂.atoms) :
    neutronScattering t s₁.atoms ρ w = neutronScattering t s₂.atoms ρ w :=
  PtProofs.Neutron.regroup_invariant_allData t s₁ s₂ ρ w hc hd1 hd2

/-- **energy= and wavelength= agree**: by definition of the `energy=` path, at the equivalent
    wavelength; together with the round trip this is `energy_of_wavelength_agrees` -/
theorem energy_agrees_with_wavelength (t : Tbl ℝ) (atoms : List (Atom × ℝ)) (ρ e : ℝ) :
    neutronScatteringE t atoms ρ e = neutronScattering t atoms ρ (neutronWavelength e) := rfl

theorem energy_of_wavelength_agrees (t : Tbl ℝ) (atoms : List (Atom × ℝ)) (ρ w : ℝ) (hw : 0 < w) :
    neutronScatteringE t atoms ρ (neutronEnergy w) = neutronScattering t atoms ρ w := by
  unfold neutronScatteringE; rw [wavelength_energy_roundtrip w hw]

/-- energy → wavelength → energy is the identity -/
theorem energy_wavelength_roundtrip (e : ℝ) (he : 0 < e) : neutronEnergy (neutronWavelength e) = e :=
  PtProofs.Neutron.energy_wavelength_roundtrip e he

/-- wavelength → energy → wavelength is the identity -/
theorem wavelength_energy_roundtrip (w : ℝ) (hw : 0 < w) : neutronWavelength (neutronEnergy w) = w :=
  PtProofs.Neutron.wavelength_energy_roundtrip w hw

/-- `E·λ²` is the constant `ENERGY_FACTOR` (both directions of the conversion) -/
theorem E_mul_lambda_sq (e : ℝ) (he : 0 < e) :
    e * (neutronWavelength e * neutronWavelength e) = PtGen.ENERGY_FACTOR :=
  PtProofs.Neutron.E_mul_lambda_sq e he

theorem energy_mul_lambda_sq (w : ℝ) (hw : w ≠ 0) : neutronEnergy w * (w * w) = PtGen.ENERGY_FACTOR :=
  PtProofs.Neutron.energy_mul_lambda_sq w hw

/-- `v·λ` is the constant `VELOCITY_FACTOR` -/
theorem v_mul_lambda (v : ℝ) (hv : v ≠ 0) :
    v * neutronWavelengthFromVelocity v = PtGen.VELOCITY_FACTOR :=
  PtProofs.Neutron.v_mul_lambda v hv

/-- **anchor** 25.3 meV ↦ 1.798 Å -/
theorem anchor_wavelength_of_energy : |neutronWavelength (25.3 : ℝ) - 1.798| < 5e-4 :=
  PtProofs.Neutron.anchor_wavelength_of_energy

/-- **anchor** 2200 m/s ↦ 1.798 Å -/
theorem anchor_wavelength_of_velocity : |neutronWavelengthFromVelocity (2200 : ℝ) - 1.798| < 5e-4 :=
  PtProofs.Neutron.anchor_wavelength_of_velocity

/-- **anchor** 1.798 Å ↦ 25.3 meV -/
theorem anchor_energy_of_wavelength : |neutronEnergy (1.798 : ℝ) - 25.3| < 1e-2 :=
  PtProofs.Neutron.anchor_energy_of_wavelength

/-- the wavelength at which absorption is tabulated is the anchor -/
theorem anchor_absorption_wavelength : (PtGen.ABSORPTION_WAVELENGTH : ℝ) = 1.798 :=
  PtProofs.Neutron.anchor_absorption_wavelength

/-- **vector**: the `i`-th entry of a vector call is the scalar call at the `i`-th wavelength -/
theorem vector_is_map (t : Tbl ℝ) (atoms : List (Atom × ℝ)) (ρ : ℝ) (ws : List ℝ) (i : Nat)
    (hi : i < ws.length) :
    (neutronScatteringV t atoms ρ ws).get? i = some (neutronScattering t atoms ρ ws[i]) :=
  PtProofs.Neutron.vector_is_map t atoms ρ ws i hi

theorem vector_length (t : Tbl ℝ) (atoms : List (Atom × ℝ)) (ρ : ℝ) (ws : List ℝ) (l : List (Scat ℝ))
    (h : neutronScatteringV t atoms ρ ws = .ok l) : l.length = ws.length :=
  PtProofs.Neutron.vector_length t atoms ρ ws l h

/-- **non-negativity**, with its guard: positive counts, masses, density, wavelength and total
    cross sections give an `ok` result whose imaginary and incoherent SLD and cross sections are
    ≥ 0 and whose penetration depth is > 0 -/
theorem nonneg (t : Tbl ℝ) (atoms : List (Atom × ℝ)) (ρ w : ℝ)
    (hd : AllData t atoms) (h : Physical t atoms ρ w) (hs : TotalPos t w atoms) :
    ∃ s, neutronScattering t atoms ρ w = .ok s ∧
      0 ≤ s.sldIm ∧ 0 ≤ s.sldInc ∧ 0 ≤ s.coh ∧ 0 ≤ s.abs ∧ 0 ≤ s.inc ∧ 0 < s.pen :=
  PtProofs.Neutron.nonneg t atoms ρ w hd h hs

/-- the non-negative outputs are non-negative for *every* `ok` result with `N ≥ 0`, `λ ≥ 0`
    (`abs`, `max(·, 0)` and the square root make them so) -/
theorem calculate_nonneg (n w : ℝ) (b : Cx ℝ) (s : ℝ) (hn : 0 ≤ n) (hw : 0 ≤ w) :
    let r := calculateScattering n w b s
    0 ≤ r.sldIm ∧ 0 ≤ r.sldInc ∧ 0 ≤ r.coh ∧ 0 ≤ r.abs ∧ 0 ≤ r.inc :=
  calculateScattering_nonneg n w b s hn hw

/-! ### non-vacuity -/

/-- two differently grouped structures of C2H6O with equal counts: `C2H5OH`-like nesting vs flat -/
def exNested : Items ℝ :=
  .cons 1 (.group (.cons 2 (.atom ⟨6, 0, 0⟩) (.cons 5 (.atom ⟨1, 0, 0⟩) .nil)))
    (.cons 1 (.atom ⟨8, 0, 0⟩) (.cons 1 (.atom ⟨1, 0, 0⟩) .nil))
def exFlat : Items ℝ :=
  .cons 6 (.atom ⟨1, 0, 0⟩) (.cons 1 (.atom ⟨8, 0, 0⟩) (.cons 2 (.atom ⟨6, 0, 0⟩) .nil))

example : ∀ a, exNested.cnt a = exFlat.cnt a := by
  intro a
  simp only [exNested, exFlat, Items.cnt, Frag.cnt]
  by_cases h1 : (⟨1, 0, 0⟩ : Atom) = a <;> by_cases h6 : (⟨6, 0, 0⟩ : Atom) = a <;>
    by_cases h8 : (⟨8, 0, 0⟩ : Atom) = a <;> simp [h1, h6, h8] <;> norm_num

example : (2 : ℝ) ≠ 0 ∧ Spec.count [((⟨1, 0, 0⟩ : Atom), (2 : ℝ)), (⟨8, 0, 0⟩, 1)] ≠ 0 := by
  simp [Spec.count, Spec.sum]; norm_num

example : [((⟨1, 0, 0⟩ : Atom), (2 : ℝ)), (⟨8, 0, 0⟩, 1)].Perm [(⟨8, 0, 0⟩, 1), (⟨1, 0, 0⟩, 2)] :=
  List.Perm.swap _ _ _

end PtVerif.C04
