import PtVerif.Proofs.Lazy
import PtVerif.Generated.LazyConfig
/-!
# C09 — lazy loading is invisible: served values do not depend on access order

Model: `PtVerif.Model.Lazy` – Python's attribute resolution for Element / Isotope / Ion, the
`delayed_load` getter and setter as written, every module `init` as its ordered effect list.
`PtGen.lazyConfig` is regenerated from core.py, `__init__.py` and the nine init functions on every
run (translator `harness/ptv/translators/state.py`), so `safe_generated` below is re-checked by
the kernel against the current source.

`SafeCfg [0] cfg` (public table only) is decidable: per registration group – the getter is `clear; load; get`, the setter
`clear; load; set`; the set of control states reachable by forced loads and by every init on the
public table is closed, every step succeeds and a forced load leaves
nothing pending; every such state serves on the public table, for every atom profile (which
objects of the delegation chain the loader writes to) and attribute, what a fresh interpreter
serves.

Histories are unbounded; atoms, routes and user values are arbitrary.
Not covered: CPython's attribute protocol itself (modelled; tied by the correspondence in
`harness/ptv/props/C09.py`), the abstraction of an init's loops to one representative atom.
-/
namespace PtVerif.C09
open PtLazy

/-- the configuration read from the source -/
def cfg : Config := PtGen.lazyConfig

/-- the current source satisfies the safety condition -/
theorem safe_generated : SafeCfg [0] cfg = true := by decide +kernel

/-- first-touch events of C09: reads and `hasattr` through any atom, imports, explicit
    `init(elements)` – all on the public table (calculator calls are sequences of reads) -/
def PublicEvent : Event → Prop
  | .read t _ _ => t = 0
  | .has t _ _ => t = 0
  | .init _ t => t = 0
  | .importMod _ => True
  | .assign _ _ _ _ => False
  | .mutate _ _ _ _ => False

theorem runOK_public (c : Config) : ∀ (h : List Event) (s : State), (∀ e ∈ h, PublicEvent e) → runOK [0] c s h
  | [], _, _ => trivial
  | e :: es, s, hp => by
    refine ⟨?_, runOK_public c es _ (fun e' he' => hp e' (List.mem_cons_of_mem _ he'))⟩
    have := hp e (List.mem_cons_self ..)
    cases e <;> simp only [PublicEvent] at this <;> simp [evOK, this]

theorem no_mutate {c : Config} (h : List Event) (hpub : ∀ e ∈ h, PublicEvent e) :
    ∀ e ∈ h, e.isMutate = true → NoSharedCfg c := by
  intro e he hm
  have := hpub e he
  cases e <;> simp [Event.isMutate] at hm
  exact absurd this (by simp [PublicEvent])

/-- **invisible**: after any history of first-touch events, a read of any lazy attribute of the
    public table through any atom serves what a fresh interpreter serves – for every
    configuration satisfying `SafeCfg` -/
theorem invisible (c : Config) (hsafe : SafeCfg [0] c = true) (h : List Event)
    (hpub : ∀ e ∈ h, PublicEvent e) (chain : List Node) (hch : ChainOK chain) (p : Nat) :
    (step c (run c c.init h) (.read 0 chain p)).2 = canon c (.read 0 chain p) :=
  public_read_canon hsafe (ginv_run hsafe h _ (ginv_init hsafe) (runOK_public c h _ hpub)
    (no_mutate h hpub)) chain hch p

/-- the same for `hasattr` -/
theorem invisible_hasattr (c : Config) (hsafe : SafeCfg [0] c = true) (h : List Event)
    (hpub : ∀ e ∈ h, PublicEvent e) (chain : List Node) (hch : ChainOK chain) (p : Nat) :
    (step c (run c c.init h) (.has 0 chain p)).2 = canon c (.has 0 chain p) :=
  public_has_canon hsafe (ginv_run hsafe h _ (ginv_init hsafe) (runOK_public c h _ hpub)
    (no_mutate h hpub)) chain hch p

/-- for the library as it is now -/
theorem invisible_generated (h : List Event) (hpub : ∀ e ∈ h, PublicEvent e) (chain : List Node)
    (hch : ChainOK chain) (p : Nat) :
    (step cfg (run cfg cfg.init h) (.read 0 chain p)).2 = canon cfg (.read 0 chain p) :=
  invisible cfg safe_generated h hpub chain hch p

/-- no explicit init, import or read ever fails: every control state reached is one of the
    finitely many of `reach`, all of whose steps succeed -/
theorem control_states_reachable (h : List Event) (hpub : ∀ e ∈ h, PublicEvent e) (gi : Nat)
    (g : GroupCfg) (c : GS) (hg : cfg.groups[gi]? = some g) (hc : (run cfg cfg.init h).gs[gi]? = some c) :
    c ∈ reach [0] g :=
  (ginv_run safe_generated h _ (ginv_init safe_generated) (runOK_public cfg h _ hpub)
    (no_mutate h hpub)).inR gi g c hg hc

/-- in particular data that the canonical order serves is never replaced by a placeholder or an
    `AttributeError` -/
theorem never_missing (h : List Event) (hpub : ∀ e ∈ h, PublicEvent e) (chain : List Node)
    (hch : ChainOK chain) (p i k : Nat) (m : List Nat)
    (hcanon : canon cfg (.read 0 chain p) = .data i k m) :
    (step cfg (run cfg cfg.init h) (.read 0 chain p)).2 = .data i k m := by
  rw [invisible_generated h hpub chain hch p, hcanon]

/-! ## non-vacuity and what the condition excludes -/

/-- Fe-like element with emission-line rows; 7 = `xsf.init_spectral_lines`, attribute 9 = `K_alpha_units`,
    attribute 7 = `K_alpha` -/
def fe : List Node := [⟨.element, 26, [(7, 2), (7, 3)]⟩]

example : ChainOK fe := by decide
example : canon cfg (.read 0 fe 7) = .data 7 2 [] := by decide +kernel
example : (step cfg (run cfg cfg.init [.init 7 0, .read 0 fe 9]) (.read 0 fe 7)).2 = .data 7 2 [] := by
  decide +kernel

/-- the pinned tree: the delayed-load setter did not run the loader -/
def cfgPinned : Config :=
  { cfg with groups := cfg.groups.map fun g => { g with setter := [.clear, .set] } }

/-- on the pinned tree the condition fails … -/
theorem pinned_unsafe : SafeCfg [0] cfgPinned = false := by decide +kernel

/-- … and the statement itself is false there: explicit `init_spectral_lines(elements)` before the
    first read leaves `K_alpha_units` deleted (`AttributeError`), a fresh interpreter serves it -/
theorem pinned_counterexample :
    (step cfgPinned (run cfgPinned cfgPinned.init [.init 7 0]) (.read 0 fe 9)).2 = .attrError ∧
    canon cfgPinned (.read 0 fe 9) = .dflt 7 0 [] := by decide +kernel

end PtVerif.C09
