/-! # C09 — (stub: property theorems go here; see docs/BUILDING.md) -/
namespace PtVerif.C09
end PtVerif.C09
