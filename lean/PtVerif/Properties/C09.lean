import PtVerif.Model.Lazy
import PtVerif.Generated.LazyConfig
/-! # C09 — lazy loading is invisible (work in progress) -/
namespace PtVerif.C09
open PtLazy

/-- the generated configuration registers seven groups -/
theorem seven_groups : PtGen.lazyConfig.groups.length = 7 := by decide

end PtVerif.C09
