import PtVerif.Proofs.DecayTime
/-!
# C15 — `decay_time(target)` returns the time at which total activity reaches the target
-/
namespace PtVerif.C15
open PtModel.Activation

/-- a returned time is ≥ 0 and is either the early exit (0, already at or below the target)
    or a time at which `Σ Aᵢ·exp(-λᵢ t)` is within 0.1 % of the target -/
theorem accepted_is_within_tolerance (data : List (ℝ × ℝ)) (target t : ℝ)
    (hd : ∀ d ∈ data, 0 ≤ d.1 ∧ 0 ≤ d.2) (htarget : 0 < target)
    (h : decayTimeOfData data target = .ok t) :
    0 ≤ t ∧ ((total data 0 ≤ target ∧ t = 0) ∨ |total data t - target| ≤ target / 1000) :=
  decayTimeOfData_accepted data target t hd htarget h

end PtVerif.C15
