/-! # C15 — (stub: property theorems go here; see docs/BUILDING.md) -/
namespace PtVerif.C15
end PtVerif.C15
