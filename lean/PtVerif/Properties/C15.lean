import PtVerif.Proofs.DecayTime
/-!
# C15 — `decay_time(target)` returns the time at which total activity reaches the target

Model: `decayTime` / `decayTimeOfData` / `findRoot` / `calcActivation` of
`PtVerif.Model.Activation`, the code of `Sample.decay_time`, `find_root` and
`Sample.calculate_activation` **with `fixes/activation-2-decay-time.patch` applied** (the solve
works from the activity at removal that `calculate_activation` records; `f(0) <= 0` early exit;
`-La*Ia` derivative; `max(t, 0.)`).  Tied to the source by `harness/ptv/props/C15.py`.

* "returns t ≥ 0 at which the summed activity is within 0.1 % of the target":
  `accepted_is_within_tolerance`, `accepted_is_within_tolerance_of_documented_sum`
* "returns 0 exactly when the activity at removal is already at or below the target":
  `zero_iff_already_below` (⇐ exactly; ⇒ up to the 0.1 % band, which the first clause allows),
  `pos_of_clearly_above`
* "RuntimeError rather than returning a time": `raises_otherwise` (an `ok` outcome passed the
  acceptance test; for positive products and target the *only* possible exception is RuntimeError)
* "does not depend on which rest times were requested": `independent_of_rest_times`

Partial: in the corner `target < A(0) ≤ 1.001·target` the function may return `0` (it is within
tolerance there); floating-point rounding of the Newton iteration is compared, not proved.
-/
namespace PtVerif.C15
open PtModel.Activation

/-- a returned time is ≥ 0 and is either the early exit (0, already at or below the target)
    or a time at which `Σ Aᵢ·exp(-λᵢ t)` is within 0.1 % of the target -/
theorem accepted_is_within_tolerance (data : List (ℝ × ℝ)) (target t : ℝ)
    (hd : ∀ d ∈ data, 0 ≤ d.1 ∧ 0 ≤ d.2) (htarget : 0 < target)
    (h : decayTimeOfData data target = .ok t) :
    0 ≤ t ∧ ((total data 0 ≤ target ∧ t = 0) ∨ |total data t - target| ≤ target / 1000) :=
  decayTimeOfData_accepted data target t hd htarget h

example : (∀ d ∈ [((3:ℝ), (1:ℝ)), (2, 0.5)], 0 ≤ d.1 ∧ 0 ≤ d.2) ∧ (0:ℝ) < 1 := by
  constructor
  · intro d hd; simp at hd; rcases hd with rfl | rfl <;> norm_num
  · norm_num

/-- the same in the documented form: from the recorded activities at removal `A_k ≥ 0` and the
    tabulated half-lives `T_k > 0`, `Σ_k A_k·2^(-t/T_k)` at the returned time is within 0.1 % -/
theorem accepted_is_within_tolerance_of_documented_sum (c : Consts ℝ) (hln2 : c.ln2 = Real.log 2)
    (thalfOf : Nat → ℝ) (removal : List (Nat × ℝ)) (target t : ℝ)
    (hth : ∀ ka ∈ removal, 0 < thalfOf ka.1) (hnn : ∀ ka ∈ removal, 0 ≤ ka.2) (htarget : 0 < target)
    (h : decayTime c thalfOf removal target = .ok t) :
    0 ≤ t ∧ ((specTotal thalfOf removal 0 ≤ target ∧ t = 0) ∨
      |specTotal thalfOf removal t - target| ≤ target / 1000) := by
  obtain ⟨data, hdata, hpos, htot⟩ := decayData_spec c hln2 thalfOf removal hth hnn
  unfold decayTime at h
  rw [hdata] at h
  have := decayTimeOfData_accepted data target t (fun d hd => ⟨(hpos d hd).1.le, (hpos d hd).2.le⟩) htarget h
  rwa [htot 0, htot t] at this

/-- already at or below the target ⇒ exactly 0; and 0 is returned only if the activity at removal
    is at most 1.001·target -/
theorem zero_iff_already_below (data : List (ℝ × ℝ)) (target : ℝ)
    (hd : ∀ d ∈ data, 0 ≤ d.1 ∧ 0 ≤ d.2) (htarget : 0 < target) :
    (total data 0 ≤ target → decayTimeOfData data target = .ok 0) ∧
    (decayTimeOfData data target = .ok 0 → total data 0 ≤ target * 1.001) :=
  ⟨decayTimeOfData_zero_of_below data target, decayTimeOfData_zero_only_if data target hd htarget⟩

/-- clearly above the target at removal ⇒ any returned time is strictly positive -/
theorem pos_of_clearly_above (data : List (ℝ × ℝ)) (target t : ℝ)
    (hd : ∀ d ∈ data, 0 ≤ d.1 ∧ 0 ≤ d.2) (htarget : 0 < target)
    (habove : target * 1.001 < total data 0)
    (h : decayTimeOfData data target = .ok t) : 0 < t :=
  decayTimeOfData_pos data target t hd htarget habove h

example : (1:ℝ) * 1.001 < total [((3:ℝ), (1:ℝ))] 0 := by
  simp [total]; norm_num

/-- for positive products and a positive target the outcome is a time or RuntimeError, nothing
    else (no ZeroDivisionError, OverflowError, ValueError) -/
theorem raises_otherwise (data : List (ℝ × ℝ)) (target : ℝ)
    (hd : ∀ d ∈ data, 0 < d.1 ∧ 0 < d.2) (htarget : 0 < target) :
    (∃ t, decayTimeOfData data target = .ok t) ∨ decayTimeOfData data target = .error .runtime :=
  decayTimeOfData_raises_only_runtime data target hd htarget

/-- … and a time that fails the 0.1 % test is never returned (other than the early-exit 0) -/
theorem never_returns_unaccepted (data : List (ℝ × ℝ)) (target t : ℝ)
    (hd : ∀ d ∈ data, 0 ≤ d.1 ∧ 0 ≤ d.2) (htarget : 0 < target)
    (h : decayTimeOfData data target = .ok t) (hnot : target / 1000 < |total data t - target|) :
    total data 0 ≤ target ∧ t = 0 :=
  decayTimeOfData_never_returns_unaccepted data target t hd htarget h hnot

/-- the products `decay_time` sees (`decayData`) are positive, as `raises_otherwise` needs -/
theorem decay_data_is_positive (c : Consts ℝ) (hln2 : c.ln2 = Real.log 2) (thalfOf : Nat → ℝ)
    (removal : List (Nat × ℝ)) (hth : ∀ ka ∈ removal, 0 < thalfOf ka.1) (hnn : ∀ ka ∈ removal, 0 ≤ ka.2) :
    ∃ data, decayData c thalfOf removal = .ok data ∧ (∀ d ∈ data, 0 < d.1 ∧ 0 < d.2) ∧
      ∀ t, total data t = specTotal thalfOf removal t :=
  decayData_spec c hln2 thalfOf removal hth hnn

/-- the answer does not depend on the rest times requested in `calculate_activation`: the list
    `decay_time` reads is the same, hence so is everything computed from it -/
theorem independent_of_rest_times (c : Consts ℝ) (rowsOf : Nat → Nat → List (Nat × Row ℝ))
    (thalfOf : Nat → ℝ) (mass : ℝ) (env : Env ℝ) (T : ℝ) (rests rests' : List ℝ) (parts : List (PtModel.Activation.Part ℝ))
    (tally : Tally ℝ) (target : ℝ)
    (h : calcActivation c rowsOf mass env T rests parts = .ok tally) :
    ∃ tally', calcActivation c rowsOf mass env T rests' parts = .ok tally' ∧
      decayTime c thalfOf tally'.removal target = decayTime c thalfOf tally.removal target := by
  obtain ⟨tally', h1, h2⟩ :=
    calcActivation_removal_list_independent c rowsOf mass env T rests rests' parts tally h
  exact ⟨tally', h1, by rw [h2]⟩

end PtVerif.C15
