/-! # C16 — (stub: property theorems go here; see docs/BUILDING.md) -/
namespace PtVerif.C16
end PtVerif.C16
