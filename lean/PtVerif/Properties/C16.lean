import PtVerif.Proofs.Neutron
/-!
# C16 — D2O contrast matching agrees with direct substitution of labile hydrogen

Model (`PtVerif.Model.Neutron`): `replace` (`formulas._isotope_substitution`), `water`
(`"H2O@0.9982n"`, `"D2O@0.9982n"` with the natural-density conversion), `d2oSlds`, `d2oSld`,
`d2oMatch`, `mixValues` (nsf.py 1025-1131), `molecule`, `moleculeD2Osld` (fasta.Molecule).
The solvent literals of nsf.py and fasta.py are generated (`Generated/NeutronConsts`).
Tie: `harness/ptv/props/C16.py`.

Incoherent SLD is documented not to mix linearly and is not claimed for the substituted compound.
-/
namespace PtVerif.C16
open PtModel PtModel.Neutron PtProofs.Neutron

/-- **volume fraction 0** is the H2O/D2O solvent mixture (all three components) -/
theorem vf0_is_solvent (t : Tbl ℝ) (c : Compound ℝ) (w d : ℝ) :
    d2oSld t c w 0 d = (d2oSlds t c w).map fun s => mixValues s.2.1 s.1 d :=
  PtProofs.Neutron.vf0_is_solvent t c w d

/-- **volume fraction 1** is the solute: D- and H-substituted forms mixed by the D2O fraction -/
theorem vf1_is_solute (t : Tbl ℝ) (c : Compound ℝ) (w d : ℝ) :
    d2oSld t c w 1 d = (d2oSlds t c w).map fun s => mixValues s.2.2.2 s.2.2.1 d :=
  PtProofs.Neutron.vf1_is_solute t c w d

/-- **in between** the SLDs mix linearly in the volume fraction -/
theorem linear_in_volume_fraction (t : Tbl ℝ) (c : Compound ℝ) (w vf d : ℝ) (s1 s0 : Sld3 ℝ)
    (h1 : d2oSld t c w 1 d = some s1) (h0 : d2oSld t c w 0 d = some s0) :
    d2oSld t c w vf d = some (mixValues s1 s0 vf) :=
  PtProofs.Neutron.linear_in_volume_fraction t c w vf d s1 s0 h1 h0

/-- **match point**: at the reported D2O fraction the solution's real SLD is the same for every
    volume fraction (and equals the reported SLD); the denominator is assumed non-zero, i.e. a
    match point exists -/
theorem match_point_independent_of_vf (t : Tbl ℝ) (c : Compound ℝ) (w : ℝ)
    (s : Sld3 ℝ × Sld3 ℝ × Sld3 ℝ × Sld3 ℝ) (hs : d2oSlds t c w = some s)
    (hden : matchDenominator s ≠ 0) (f sld : ℝ) (hm : d2oMatch t c w = some (f, sld)) (vf : ℝ) :
    (d2oSld t c w vf f).map (·.1) = some sld :=
  PtProofs.Neutron.match_point_independent_of_vf t c w s hs hden f sld hm vf

/-- … and it is *the* fraction with that property -/
theorem match_point_unique (t : Tbl ℝ) (c : Compound ℝ) (w : ℝ)
    (s : Sld3 ℝ × Sld3 ℝ × Sld3 ℝ × Sld3 ℝ) (hs : d2oSlds t c w = some s)
    (hden : matchDenominator s ≠ 0) (f sld : ℝ) (hm : d2oMatch t c w = some (f, sld)) (d : ℝ)
    (heq : (d2oSld t c w 0 d).map (·.1) = (d2oSld t c w 1 d).map (·.1)) : d = f :=
  PtProofs.Neutron.match_point_unique t c w s hs hden f sld hm d heq

/-- **fasta**: `Molecule.sld/.Dsld` are the real SLDs of the H- and D-substituted forms and
    `Molecule.D2Omatch` is the match fraction of `D2O_match` as a percentage.  The proof uses
    that fasta.py and nsf.py contain the same solvent literals (generated data). -/
theorem fasta_match_is_percentage (t : Tbl ℝ) (m : Compound ℝ) (mol : Molecule ℝ)
    (hmol : molecule t m = some mol) :
    ∃ s f sld, d2oSlds t m PtGen.ABSORPTION_WAVELENGTH = some s ∧
      d2oMatch t m PtGen.ABSORPTION_WAVELENGTH = some (f, sld) ∧
      mol.sld = s.2.2.1.1 ∧ mol.dsld = s.2.2.2.1 ∧ mol.d2oMatch = 100 * f :=
  PtProofs.Neutron.fasta_match_is_percentage t m mol hmol

/-- **fasta**: `Molecule.D2Osld(vf, d)` is the real part of `D2O_sld(labile formula, vf, d)` -/
theorem fasta_D2Osld_eq (t : Tbl ℝ) (m : Compound ℝ) (vf d : ℝ) :
    moleculeD2Osld t m vf d = (d2oSld t m PtGen.ABSORPTION_WAVELENGTH vf d).map (·.1) :=
  PtProofs.Neutron.fasta_D2Osld_eq t m vf d

/-- the two modules use the same solvent (data fact over the generated literals) -/
theorem fasta_water_eq_nsf_water :
    (PtGen.fasta_H2O_natural_density : ℝ) = PtGen.nsf_H2O_natural_density ∧
    (PtGen.fasta_D2O_natural_density : ℝ) = PtGen.nsf_D2O_natural_density :=
  PtProofs.Neutron.fasta_water_eq_nsf_water

end PtVerif.C16
