import PtVerif.Proofs.NeutronD2O
/-!
# C16 — D2O contrast matching agrees with direct substitution of labile hydrogen

Model (`PtVerif.Model.Neutron`): `replace` (`formulas._isotope_substitution`), `water`
(`"H2O@0.9982n"`, `"D2O@0.9982n"` with the natural-density conversion), `d2oSlds`, `d2oSld`,
`d2oMatch`, `mixValues` (nsf.py 1025-1131), `molecule`, `moleculeD2Osld` (fasta.Molecule).
The solvent literals of nsf.py and fasta.py are generated (`Generated/NeutronConsts`).
Tie: `harness/ptv/props/C16.py`.

Incoherent SLD is documented not to mix linearly and is not claimed for the substituted compound.
-/
namespace PtVerif.C16
open PtModel PtModel.Neutron PtProofs.Neutron

/-- **solute = substituted compound.**  For every compound (atom dict with positive counts,
    known positive density), `0 ≤ d ≤ 1` and every wavelength, the real and imaginary SLD that
    `D2O_sld(compound, volume_fraction=1, D2O_fraction=d)` reports are those of the compound with a
    fraction `d` of its labile hydrogens H[1] replaced by D and the rest by natural H
    (`substituted = mol.replace(H[1], D, d).replace(H[1], H)`; its counts are
    `substituted_counts`, its cell volume is the original one, `substituted_keeps_cell_volume`). -/
theorem solute_sld_is_substituted_compound (t : Tbl ℝ) (c : Compound ℝ) (w d : ℝ)
    (h : SolutePhysical t c w) (hd0 : 0 ≤ d) (hd1 : d ≤ 1) :
    ∃ x, d2oSld t c w 1 d = some x ∧
      (compoundSld t (substituted t.atomMass c d) w).map reIm = some (reIm x) :=
  PtProofs.Neutron.solute_sld_is_substituted_compound t c w d h hd0 hd1

/-- what "substituted" means: the labile hydrogens are gone, D gained `d·n`, H gained `(1−d)·n`,
    every other count is unchanged -/
theorem substituted_counts (am : Atom → ℝ) (c : Compound ℝ) (d : ℝ) :
    lookupD (substituted am c d).atoms atomH1 = 0 ∧
    lookupD (substituted am c d).atoms atomD = lookupD c.atoms atomD + d * lookupD c.atoms atomH1 ∧
    lookupD (substituted am c d).atoms atomH
      = lookupD c.atoms atomH + (1 - d) * lookupD c.atoms atomH1 ∧
    ∀ b, b ≠ atomH1 → b ≠ atomD → b ≠ atomH →
      lookupD (substituted am c d).atoms b = lookupD c.atoms b :=
  PtProofs.Neutron.substituted_counts am c d

/-- … at unchanged cell volume (`Formula.replace` keeps `M/ρ`) -/
theorem substituted_keeps_cell_volume (am : Atom → ℝ) (c : Compound ℝ) (d : ℝ)
    (hk : KeysNodup c.atoms) (hM : wsum am c.atoms ≠ 0)
    (hM1 : wsum am (replace am c atomH1 atomD d).atoms ≠ 0)
    (hMS : wsum am (substituted am c d).atoms ≠ 0) :
    cellVolume (wsum am (substituted am c d).atoms) (substituted am c d).density
      = cellVolume (wsum am c.atoms) c.density :=
  PtProofs.Neutron.substituted_keeps_cell_volume am c d hk hM hM1 hMS

/-- one `replace` step: every count-weighted sum (mass, Σ n·b, …) changes by
    `n_source · portion · (f target − f source)` and the density by the mass ratio -/
theorem replace_sums (am f : Atom → ℝ) (c : Compound ℝ) (s tg : Atom) (p : ℝ)
    (hk : KeysNodup c.atoms) (hne : s ≠ tg) :
    wsum f (replace am c s tg p).atoms
      = wsum f c.atoms + lookupD c.atoms s * p * (f tg - f s) :=
  PtProofs.Neutron.replace_wsum am f c s tg p hk hne

theorem replace_density (am : Atom → ℝ) (c : Compound ℝ) (s tg : Atom) (p : ℝ)
    (hk : KeysNodup c.atoms) (hne : s ≠ tg) (hM : wsum am c.atoms ≠ 0) :
    (replace am c s tg p).density
      = c.density * wsum am (replace am c s tg p).atoms / wsum am c.atoms :=
  PtProofs.Neutron.replace_density am c s tg p hk hne hM

/-- **volume fraction 0** is the H2O/D2O solvent mixture (all three components) -/
theorem vf0_is_solvent (t : Tbl ℝ) (c : Compound ℝ) (w d : ℝ) :
    d2oSld t c w 0 d = (d2oSlds t c w).map fun s => mixValues s.2.1 s.1 d :=
  PtProofs.Neutron.vf0_is_solvent t c w d

/-- **volume fraction 1** is the solute: D- and H-substituted forms mixed by the D2O fraction -/
theorem vf1_is_solute (t : Tbl ℝ) (c : Compound ℝ) (w d : ℝ) :
    d2oSld t c w 1 d = (d2oSlds t c w).map fun s => mixValues s.2.2.2 s.2.2.1 d :=
  PtProofs.Neutron.vf1_is_solute t c w d

/-- **in between** the SLDs mix linearly in the volume fraction -/
theorem linear_in_volume_fraction (t : Tbl ℝ) (c : Compound ℝ) (w vf d : ℝ) (s1 s0 : Sld3 ℝ)
    (h1 : d2oSld t c w 1 d = some s1) (h0 : d2oSld t c w 0 d = some s0) :
    d2oSld t c w vf d = some (mixValues s1 s0 vf) :=
  PtProofs.Neutron.linear_in_volume_fraction t c w vf d s1 s0 h1 h0

/-- **match point**: at the reported D2O fraction the solution's real SLD is the same for every
    volume fraction (and equals the reported SLD); the denominator is assumed non-zero, i.e. a
    match point exists -/
theorem match_point_independent_of_vf (t : Tbl ℝ) (c : Compound ℝ) (w : ℝ)
    (s : Sld3 ℝ × Sld3 ℝ × Sld3 ℝ × Sld3 ℝ) (hs : d2oSlds t c w = some s)
    (hden : matchDenominator s ≠ 0) (f sld : ℝ) (hm : d2oMatch t c w = some (f, sld)) (vf : ℝ) :
    (d2oSld t c w vf f).map (·.1) = some sld :=
  PtProofs.Neutron.match_point_independent_of_vf t c w s hs hden f sld hm vf

/-- … and it is *the* fraction with that property -/
theorem match_point_unique (t : Tbl ℝ) (c : Compound ℝ) (w : ℝ)
    (s : Sld3 ℝ × Sld3 ℝ × Sld3 ℝ × Sld3 ℝ) (hs : d2oSlds t c w = some s)
    (hden : matchDenominator s ≠ 0) (f sld : ℝ) (hm : d2oMatch t c w = some (f, sld)) (d : ℝ)
    (heq : (d2oSld t c w 0 d).map (·.1) = (d2oSld t c w 1 d).map (·.1)) : d = f :=
  PtProofs.Neutron.match_point_unique t c w s hs hden f sld hm d heq

/-- **fasta**: `Molecule.sld/.Dsld` are the real SLDs of the H- and D-substituted forms and
    `Molecule.D2Omatch` is the match fraction of `D2O_match` as a percentage.  The proof uses
    that fasta.py and nsf.py contain the same solvent literals (generated data). -/
theorem fasta_match_is_percentage (t : Tbl ℝ) (m : Compound ℝ) (mol : Molecule ℝ)
    (hmol : molecule t m = some mol) :
    ∃ s f sld, d2oSlds t m PtGen.ABSORPTION_WAVELENGTH = some s ∧
      d2oMatch t m PtGen.ABSORPTION_WAVELENGTH = some (f, sld) ∧
      mol.sld = s.2.2.1.1 ∧ mol.dsld = s.2.2.2.1 ∧ mol.d2oMatch = 100 * f :=
  PtProofs.Neutron.fasta_match_is_percentage t m mol hmol

/-- **fasta**: `Molecule.D2Osld(vf, d)` is the real part of `D2O_sld(labile formula, vf, d)` -/
theorem fasta_D2Osld_eq (t : Tbl ℝ) (m : Compound ℝ) (vf d : ℝ) :
    moleculeD2Osld t m vf d = (d2oSld t m PtGen.ABSORPTION_WAVELENGTH vf d).map (·.1) :=
  PtProofs.Neutron.fasta_D2Osld_eq t m vf d

/-- the two modules use the same solvent (data fact over the generated literals) -/
theorem fasta_water_eq_nsf_water :
    (PtGen.fasta_H2O_natural_density : ℝ) = PtGen.nsf_H2O_natural_density ∧
    (PtGen.fasta_D2O_natural_density : ℝ) = PtGen.nsf_D2O_natural_density :=
  PtProofs.Neutron.fasta_water_eq_nsf_water

/-! ### non-vacuity: alanine-like `C3 H4 H[1] N O` over a small table satisfies `SolutePhysical` -/

noncomputable def exTbl : Tbl ℝ where
  recOf := fun z a =>
    if z = 1 ∧ a = 0 then some ⟨-3.739, 0.3326, 82.02, 4.2e22, none⟩
    else if z = 1 ∧ a = 1 then some ⟨-3.7406, 0.3326, 82.03, 4.2e22, none⟩
    else if z = 1 ∧ a = 2 then some ⟨6.671, 0.000519, 7.64, 4.2e22, none⟩
    else if z = 6 ∧ a = 0 then some ⟨6.646, 0.0035, 5.551, 1.1e23, none⟩
    else if z = 7 ∧ a = 0 then some ⟨9.36, 1.9, 11.51, 3.5e22, none⟩
    else if z = 8 ∧ a = 0 then some ⟨5.803, 0.00019, 4.232, 4.3e22, none⟩
    else none
  mass := fun z a => if z = 1 then (if a = 2 then 2.014 else 1.008) else if z = 6 then 12.011
    else if z = 7 then 14.007 else 15.999
  me := 0

def exAla : Compound ℝ :=
  ⟨[(⟨6, 0, 0⟩, 3), (⟨1, 0, 0⟩, 4), (⟨1, 1, 0⟩, 1), (⟨7, 0, 0⟩, 1), (⟨8, 0, 0⟩, 1)], 1.4⟩

example : SolutePhysical exTbl exAla 1.798 where
  keys := by unfold KeysNodup exAla; decide
  data := by
    intro e he
    simp [exAla] at he
    rcases he with rfl | rfl | rfl | rfl | rfl <;> simp [exTbl, Tbl.neutron]
  dataH := by simp [exTbl, Tbl.neutron, atomH]
  dataD := by simp [exTbl, Tbl.neutron, atomD]
  dataO := by simp [exTbl, Tbl.neutron, atomO]
  nonempty := by simp [exAla]
  counts := by
    intro e he
    simp [exAla] at he
    rcases he with rfl | rfl | rfl | rfl | rfl <;> norm_num
  masses := by
    intro a
    simp only [Tbl.atomMass, PtModel.atomMass, exTbl, mul_zero, sub_zero, ite_self]
    split_ifs <;> norm_num
  density := by simp [exAla]; norm_num
  im := by
    intro a
    have h0 := lambda0_pos
    unfold pa Tbl.neutron exTbl
    simp only
    split_ifs <;> simp only [scatteringByWavelength, NRec.bcComplex, lit, le_refl] <;>
      first
      | (apply div_nonpos_of_nonpos_of_nonneg
         · norm_num
         · push_cast; positivity)
      | norm_num

end PtVerif.C16
