/-! # C20 — (stub: property theorems go here; see docs/BUILDING.md) -/
namespace PtVerif.C20
end PtVerif.C20
