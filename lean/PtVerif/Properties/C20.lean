import PtVerif.Model.Ancillary
import PtVerif.Generated.Ancillary
/-! # C20 — placeholder while the pipeline is brought up -/
namespace PtVerif.C20
open PtLoad

theorem placeholder : splitState "V2 ".toList = some (['V'], 2) := by decide

end PtVerif.C20
