import PtVerif.Proofs.AncillaryField
import PtVerif.Proofs.LoadersMass
import PtVerif.Model.LoaderTables
import PtVerif.Generated.Ancillary
/-!
# C20 — ancillary tables are served to exactly the element or ion they belong to

Model: `PtVerif.Model.Ancillary` (the five loaders as text parsers + folds, the symbol
resolution of `fxrayatstol`, `formfactor_0/n`, Cromer-Mann `atstol`), tied to
covalent_radius.py, crystal_structure.py, xsf.py, magnetic_ff.py, cromermann.py and
xsf/f0_WaasKirf.dat by `harness/ptv/props/C20.py`.

Part 1: every table.  Part 2: kernel-checked facts about the embedded tables.  Part 3: part 1
on the embedded tables.

Not covered: floating-point rounding; numpy's evaluation of the form factors; `eval()` of the
Fortran argument text (the model parses the one shape the table uses); the string-level
parse = generated rows is checked by the compiled driver.
-/
namespace PtVerif.C20
open PtLoad

/-! ## Part 1 — every table -/

section generic
variable {α : Type} [Mul α] [Div α] [NatCast α] [IntCast α]

/-- covalent radius: an element is served the radius and 0.01 × the uncertainty of the (last)
    Cordero line with its atomic number – lines of alternate spin states (`-`) serve nobody, so
    where several spin states are listed the first one counts -/
theorem covalent_radius_is_row (pre post : List CovRow) (z : Nat) (r dr : Dec)
    (hlast : ∀ x ∈ post, covKey x ≠ some z) :
    aget z (Cov.loadRows (α := α) (pre ++ .row z r dr :: post))
      = some ((r.toNum : α), some (dr.toNum * (Dec.mk 1 2).toNum)) :=
  cov_radius_last_row pre post z r dr hlast

/-- … an element without a line has radius and uncertainty `None` (no binding), not a
    neighbour's -/
theorem covalent_radius_absent (rows : List CovRow) (z : Nat) (hz : z ≠ 0)
    (h : ∀ x ∈ rows, covKey x ≠ some z) : aget z (Cov.loadRows (α := α) rows) = none :=
  cov_radius_absent rows z hz h

theorem covalent_radius_neutron (rows : List CovRow) (h : ∀ x ∈ rows, covKey x ≠ some 0) :
    aget 0 (Cov.loadRows (α := α) rows) = some ((Dec.mk 20 2).toNum, none) :=
  cov_radius_neutron rows h

end generic

/-- crystal structure: element Z is served slot Z of the list, elements beyond the list have
    no attribute -/
theorem crystal_structure_is_index (l : List (Option Crystal)) (z : Nat) :
    aget z (Crystal.load l) = l[z]? := crystal_is_index l z

/-- emission lines: the element a (last) row names by symbol is served that row -/
theorem emission_lines_are_row (zOf : Nat → Option Nat) (pre post : List LineRow) (r : LineRow) (z : Nat)
    (hz : zOf r.sym = some z) (hlast : ∀ x ∈ post, zOf x.sym ≠ some z) :
    aget z (Lines.loadRows zOf (pre ++ r :: post)) = some (r.kAlpha, r.kBeta1) :=
  lines_last_row zOf pre post r z hz hlast

theorem emission_lines_absent (zOf : Nat → Option Nat) (rows : List LineRow) (z : Nat)
    (h : ∀ x ∈ rows, zOf x.sym ≠ some z) : aget z (Lines.loadRows zOf rows) = none :=
  lines_absent zOf rows z h

/-- magnetic form factors: the tuple `jn` of charge state `(z, q)` is that of the last entry
    with that element, charge and kind … -/
theorem magnetic_coefficients_are_entry (zOf : Nat → Option Nat) (pre post : List MagRow) (r : MagRow)
    (z : Nat) (hz : zOf r.sym = some z)
    (hlast : ∀ x ∈ post, ¬(zOf x.sym = some z ∧ x.charge = r.charge ∧ x.jn = r.jn)) :
    ((aget (z, r.charge) (Mag.loadRows zOf (pre ++ r :: post))).getD {}).get r.jn = some r.values := by
  rw [mag_coefficients]
  exact magSpec_last zOf z r.charge r.jn pre post r ⟨hz, rfl, rfl⟩ hlast none

/-- … a kind no entry gives is not an attribute of that charge state … -/
theorem magnetic_coefficients_absent_kind (zOf : Nat → Option Nat) (rows : List MagRow) (z q : Nat) (jn : Jn)
    (h : ∀ x ∈ rows, ¬(zOf x.sym = some z ∧ x.charge = q ∧ x.jn = jn)) :
    ((aget (z, q) (Mag.loadRows zOf rows)).getD {}).get jn = none := by
  rw [mag_coefficients]
  exact magSpec_none zOf z q jn rows h none

/-- … and a charge state no entry names does not exist -/
theorem magnetic_charge_state_absent (zOf : Nat → Option Nat) (rows : List MagRow) (z q : Nat)
    (h : ∀ x ∈ rows, ¬(zOf x.sym = some z ∧ x.charge = q)) :
    aget (z, q) (Mag.loadRows zOf rows) = none := mag_absent zOf rows z q h

/-- Cromer-Mann: `getCMformula(symbol)` returns the (last) block with that `#S` symbol, in the
    DABAX column order a1..a5 c b1..b5; with distinct symbols, every block is served to its own -/
theorem cm_entry_is_block (es : List CMEntry) (hnd : (es.map (·.symbol)).Nodup) (e : CMEntry) (he : e ∈ es) :
    aget e.symbol (CM.load es) = some e := cm_entry_of_mem es hnd e he

theorem cm_entry_absent (es : List CMEntry) (s : String) (h : ∀ x ∈ es, x.symbol ≠ s) :
    aget s (CM.load es) = none := cm_absent es s h

/-- the DABAX column order: the five `a`, then `c`, then the five `b` -/
example : parseCM ("#S  1  H\n#N 11\n#L a1  a2  a3  a4  a5  c  b1  b2  b3  b4  b5\n" ++
      "  1 2 3 4 5 6 7 8 9 10 11\n").toList
    = some [⟨"H", [⟨1, 0⟩, ⟨2, 0⟩, ⟨3, 0⟩, ⟨4, 0⟩, ⟨5, 0⟩], ⟨6, 0⟩, [⟨7, 0⟩, ⟨8, 0⟩, ⟨9, 0⟩, ⟨10, 0⟩, ⟨11, 0⟩]⟩] := by
  decide +kernel

/-- which entry an element or ion looks up: symbol, then the charge as `<n><+|->` -/
example : cmKey "Fe".toList (some 0) = "Fe".toList ∧ cmKey "Fe".toList (some 3) = "Fe3+".toList
    ∧ cmKey "O".toList (some (-2)) = "O2-".toList ∧ cmKey "Cl-".toList none = "Cl1-".toList
    ∧ cmKey "Ca2+".toList none = "Ca2+".toList ∧ cmKey "Fe2+".toList (some 3) = "Fe3+".toList := by decide +kernel

/-- for an element symbol (not ending in a digit or sign) `Xray.f0` of the element looks up the
    symbol itself and of an ion with charge `q` the entry `symbol<|q|><+|->` -/
theorem cm_key_of_symbol (s : Str) (c : Char) (hc : cmSuffixChar c = false) (q : Int) :
    cmKey (s ++ [c]) (some q)
      = if q = 0 then s ++ [c]
        else (s ++ [c]) ++ (toString q.natAbs).toList.reverse ++ [if q > 0 then '+' else '-'] :=
  cmKey_of_symbol s c hc q

/-- the CFML symbol / charge split: one-letter symbols are recognised by the digit in second
    place, two-letter symbols are capitalised -/
example : splitState "V2 ".toList = some ("V".toList, 2) ∧ splitState "MN2".toList = some ("Mn".toList, 2)
    ∧ splitState "Y0 ".toList = some ("Y".toList, 0) ∧ splitState "U3 ".toList = some ("U".toList, 3)
    ∧ splitState "Fe2".toList = some ("Fe".toList, 2) := by decide +kernel

/-- form factors follow `A e^{-a s²} + B e^{-b s²} + C e^{-c s²} + D`, `s = Q/4π` -/
theorem formfactor_formula (A a B b C c D q : ℝ) :
    formfactor0 [A, a, B, b, C, c, D] q
      = some (A * Real.exp (-a * (q / (4 * Real.pi)) ^ 2) + B * Real.exp (-b * (q / (4 * Real.pi)) ^ 2)
              + C * Real.exp (-c * (q / (4 * Real.pi)) ^ 2) + D) := formfactor0_formula A a B b C c D q

theorem formfactor_n_formula (A a B b C c D q : ℝ) :
    formfactorN [A, a, B, b, C, c, D] q
      = some ((q / (4 * Real.pi)) ^ 2 * (A * Real.exp (-a * (q / (4 * Real.pi)) ^ 2)
              + B * Real.exp (-b * (q / (4 * Real.pi)) ^ 2) + C * Real.exp (-c * (q / (4 * Real.pi)) ^ 2) + D)) :=
  formfactorN_formula A a B b C c D q

/-- higher orders vanish at Q = 0 -/
theorem jn_zero_at_Q0 (A a B b C c D : ℝ) : formfactorN [A, a, B, b, C, c, D] 0 = some 0 :=
  formfactorN_at_zero A a B b C c D

/-- a `<j0>` form factor is `A + B + C + D` at Q = 0 -/
theorem j0_at_Q0 (A a B b C c D : ℝ) : formfactor0 [A, a, B, b, C, c, D] 0 = some (A + B + C + D) :=
  formfactor0_at_zero A a B b C c D

/-- Cromer-Mann at Q = 0: `Σ aᵢ + c` (the number of electrons of the atom or ion) -/
theorem f0_at_Q0 (a b : List ℝ) (c : ℝ) (h : a.length ≤ b.length) : cmAtStol a b c 0 = a.sum + c :=
  cmAtStol_zero a b c h

/-! ## Part 2 — the embedded tables (kernel-checked on every run) -/

/-- Cordero: the atomic numbers of the lines that are not alternate spin states are strictly
    increasing, hence each element has one line -/
theorem cordero_keys_sorted : incr (PtGen.corderoRows.filterMap covKey) = true := by decide +kernel

theorem cordero_rows_exist : Cov.rowsOk symOf PtGen.corderoRows = true := by decide +kernel

/-- crystal structures: the list is not longer than the table -/
theorem crystal_list_fits : Crystal.ok symOf PtGen.crystalList = true := by decide +kernel

/-- emission lines: every symbol names an element, no element is named twice -/
theorem lines_symbols_known : Lines.rowsOk zOf PtGen.lineRows = true := by decide +kernel

theorem lines_elements_distinct : (PtGen.lineRows.filterMap fun r => zOf r.sym).Nodup := by decide +kernel

/-- CFML: every entry names an element and has seven numbers -/
theorem mag_rows_ok :
    PtGen.magRows.all (fun r => (zOf r.sym).isSome && r.values.length == 7) = true := by decide +kernel

/-- **every `<j0>` set sums to 1 within 0.5 %**: `|A + B + C + D − 1| ≤ 0.005` -/
theorem j0_sets_normalised :
    PtGen.magRows.all (fun r => r.jn != .j0 || j0Ok r.values) = true := by decide +kernel

/-- f0_WaasKirf.dat: entries (Z, charge | valence) are pairwise distinct -/
theorem cm_atoms_distinct : PtGen.cmAtoms.Nodup := by decide +kernel

theorem cm_lengths : PtGen.cmEntries.length = PtGen.cmAtoms.length := by decide +kernel

/-- the `#S` symbols are pairwise distinct -/
theorem cm_symbols_distinct : (PtGen.cmEntries.map (·.symbol)).Nodup := by decide +kernel

/-- CFML: entries that name the same element, charge and kind carry the same numbers (the one
    repeated entry, `JHO2`, is an exact duplicate), so it does not matter which one is served -/
theorem mag_duplicates_agree : magAgree zOf PtGen.magRows = true := by decide +kernel

/-- **every entry that names an atom or ion has `|Σa + c − (Z − q)| ≤ 0.05`** – the block of
    numbers belongs to the element and charge its `#S` line names -/
theorem cm_entries_match_their_atom :
    (PtGen.cmEntries.zip PtGen.cmAtoms).all (fun p => f0Ok p.1 p.2) = true := by decide +kernel

/-! ## Part 3 — part 1 on the embedded tables -/

section generated
variable {α : Type} [Mul α] [Div α] [NatCast α] [IntCast α]

/-- every element with a Cordero line is served that line -/
theorem generated_covalent_radius (z : Nat) (r dr : Dec) (h : CovRow.row z r dr ∈ PtGen.corderoRows) :
    aget z (Cov.loadRows (α := α) PtGen.corderoRows)
      = some ((r.toNum : α), some (dr.toNum * (Dec.mk 1 2).toNum)) := by
  obtain ⟨pre, post, hsplit⟩ := List.append_of_mem h
  rw [hsplit]
  apply cov_radius_last_row
  intro x hx e
  -- a later line with the same Z contradicts the sortedness of the keys
  have hs := nodup_of_incr _ cordero_keys_sorted
  rw [hsplit, List.filterMap_append, List.filterMap_cons] at hs
  simp only [covKey] at hs
  have := (List.nodup_append.mp hs).2.1
  rw [List.nodup_cons] at this
  exact this.1 (List.mem_filterMap.mpr ⟨x, hx, e⟩)

/-- every element is served slot Z of the embedded list -/
theorem generated_crystal_structure (z : Nat) :
    aget z (Crystal.load PtGen.crystalList) = PtGen.crystalList[z]? := crystal_is_index _ z

/-- every row of the emission-line table is served to the element it names -/
theorem generated_emission_lines (r : LineRow) (hr : r ∈ PtGen.lineRows) (z : Nat) (hz : zOf r.sym = some z) :
    aget z (Lines.loadRows zOf PtGen.lineRows) = some (r.kAlpha, r.kBeta1) := by
  obtain ⟨pre, post, hsplit, hlast⟩ :=
    split_of_mem_nodup_filterMap (fun r : LineRow => zOf r.sym) PtGen.lineRows lines_elements_distinct r z hz hr
  rw [hsplit]
  exact lines_last_row zOf pre post r z hz hlast

/-- every CFML entry is served to the charge state it names -/
theorem generated_magnetic_coefficients (r : MagRow) (hr : r ∈ PtGen.magRows) (z : Nat) (hz : zOf r.sym = some z) :
    ((aget (z, r.charge) (Mag.loadRows zOf PtGen.magRows)).getD {}).get r.jn = some r.values := by
  rw [mag_coefficients]
  apply magSpec_of_agree zOf z r.charge r.jn PtGen.magRows r hr ⟨hz, rfl, rfl⟩
  intro x hx hk
  apply magAgree_sound zOf PtGen.magRows mag_duplicates_agree r x hr hx
  simp only [magKey, hk.1, hk.2.1, hk.2.2, hz]

/-- every block of f0_WaasKirf.dat is served to its own symbol -/
theorem generated_cm_entry (e : CMEntry) (he : e ∈ PtGen.cmEntries) :
    aget e.symbol (CM.load PtGen.cmEntries) = some e := cm_entry_of_mem _ cm_symbols_distinct e he

/-- every `<j0>` set of the embedded table evaluates to 1 within 0.5 % at Q = 0 -/
theorem generated_j0_at_Q0 (r : MagRow) (hr : r ∈ PtGen.magRows) (hj : r.jn = .j0) :
    ∃ x : ℝ, formfactor0 (r.values.map fun d => (d.toNum : ℝ)) 0 = some x ∧ |x - 1| ≤ 0.005 := by
  have := List.all_eq_true.mp j0_sets_normalised r hr
  rw [hj] at this
  simp only [bne_self_eq_false, Bool.false_or] at this
  exact j0_at_zero_of_ok r.values this

/-- every higher-order set of the embedded table evaluates to 0 at Q = 0 -/
theorem generated_jn_at_Q0 (r : MagRow) (hr : r ∈ PtGen.magRows) :
    formfactorN (r.values.map fun d => (d.toNum : ℝ)) 0 = some 0 := by
  have := List.all_eq_true.mp mag_rows_ok r hr
  simp only [Bool.and_eq_true, beq_iff_eq] at this
  exact jn_at_zero r.values this.2

end generated

/-! non-vacuity -/
example : CovRow.row 84 ⟨140, 2⟩ ⟨4, 0⟩ ∈ PtGen.corderoRows := by decide +kernel
example : PtGen.crystalList[80]? = some (some ⟨"Rhombohedral", [("a", ⟨299, 2⟩), ("alpha", ⟨7045, 2⟩)]⟩) := by
  decide +kernel
example : ∃ r ∈ PtGen.magRows, r.jn = .j0 ∧ zOf r.sym = some 26 ∧ r.charge = 2 := by decide +kernel
example : (PtGen.magRows.filter (·.jn == .j0)).length = 97 := by decide +kernel

end PtVerif.C20
