import PtVerif.Proofs.Formula
import PtVerif.Proofs.FormulaRefine
/-!
# C02 — composition arithmetic: atoms, mass, charge and mass fractions are additive

Model: `PtVerif.Model.Formula` / `FormulaOps` (`_count_atoms`, `Formula.mass/charge/
mass_fraction`, `__add__`, `__iadd__`, `__rmul__`, `formula()` dispatch) – tied to
formulas.py by the correspondence in `harness/ptv/props/C02.py`.

All statements hold for every nesting shape and every commutative ring / field of
counts (so in particular for ℚ and ℝ).  Floating-point rounding of the sums is not
covered (compared at 1e-9 by the correspondence).
-/
namespace PtVerif.C02
open PtModel

variable {α : Type}

/-- atom counts of any nested `(count, fragment)` structure are the count-weighted sum of
    the atom counts of its parts (`Items.cnt` is that sum, written from the statement) -/
theorem atoms_are_weighted_sum [CommSemiring α] (s : Items α) (b : Atom) :
    lookupD s.atoms b = s.cnt b := Items.atoms_lookup s b

/-- the atoms dict never lists an atom twice -/
theorem atoms_keys_distinct [CommSemiring α] (s : Items α) : KeysNodup s.atoms :=
  Items.keysNodup_countAcc s (by simp [KeysNodup])

/-- `f + g` (and `f += g`): counts add -/
theorem add_counts [CommSemiring α] (s t : Items α) (b : Atom) :
    lookupD (addS s t).atoms b = lookupD s.atoms b + lookupD t.atoms b := by
  simp only [atoms_are_weighted_sum, cnt_addS]

/-- `n * f`: counts scale, for every multiplier including 0, 1 and non-integers -/
theorem mul_counts [CommSemiring α] [DecidableEq α] (n : α) (s : Items α) (b : Atom) :
    lookupD (rmulS n s).atoms b = lookupD s.atoms b * n := by
  simp only [atoms_are_weighted_sum, cnt_rmulS]

/-- mass is the sum over the parts of count × atomic mass -/
theorem mass_is_sum [CommRing α] (am : Atom → α) (s : Items α) :
    massOf am s.atoms = s.flatMass am := Items.mass_eq_flat am s

theorem mass_add [CommRing α] (am : Atom → α) (s t : Items α) :
    massOf am (addS s t).atoms = massOf am s.atoms + massOf am t.atoms := by
  simp only [mass_is_sum]; exact Items.flatMass_append am s t

theorem mass_mul [CommRing α] [DecidableEq α] (am : Atom → α) (n : α) (s : Items α) :
    massOf am (rmulS n s).atoms = massOf am s.atoms * n := by
  simp only [mass_is_sum]; exact flatMass_rmulS am n s

/-- an ion weighs its atom less `charge` electron masses -/
theorem ion_mass [CommRing α] (m : Nat → Nat → α) (me : α) (z a : Nat) (q : Int) :
    atomMass m me ⟨z, a, q⟩ = m z a - me * (q : α) := by
  unfold atomMass
  by_cases h : q = 0 <;> simp [h]

/-- charge is the sum over the parts of count × ion charge -/
theorem charge_is_sum [CommRing α] (s : Items α) :
    chargeOf s.atoms = s.flatMass (fun a => (a.q : α)) := by
  rw [chargeOf_eq_wsum, ← massOf_eq_wsum]; exact Items.mass_eq_flat _ s

/-- each mass fraction is count × mass / total mass … -/
theorem mass_fraction_entry [Field α] (am : Atom → α) (t : List (Atom × α)) :
    massFraction am t = t.map fun e => (e.1, e.2 * am e.1 / massOf am t) := rfl

/-- … and they sum to one (whenever the total mass is not zero) -/
theorem mass_fraction_sum_one [Field α] (am : Atom → α) (s : Items α) (h : massOf am s.atoms ≠ 0) :
    ((massFraction am s.atoms).map Prod.snd).sum = 1 := massFraction_sum am s.atoms h

section
variable [Add α] [Mul α] [OfNat α 0] [OfNat α 1] [BEq α]

/-- operations that return a new formula (`formula(…)`, `+`, `n*`, `.hill`) leave every
    existing formula object unchanged -/
theorem new_formula_ops_leave_operands (sym : Nat → Nat → Nat) (h h' : Heap α) (op : Op α)
    (hop : Heap.isIadd op = false) (hs : h.step sym op = some h')
    (i : Nat) (hi : i < h.objs.length) : h'.objs[i]? = h.objs[i]? :=
  Heap.step_frame sym h h' op hop hs i hi

/-- `f += g` changes only the object `f` names -/
theorem iadd_changes_only_its_target (sym : Nat → Nat → Nat) (h h' : Heap α) (r1 r2 : Nat)
    (hs : h.step sym (.iadd r1 r2) = some h') (i : Nat) (hne : h.reg r1 ≠ some i) :
    h'.objs[i]? = h.objs[i]? := Heap.step_iadd_frame sym h h' r1 r2 hs i hne
end

/-- **all sequences of operations**: for every program of constructions (`formula(seq)`,
    `formula(dict)`, `formula(f)`), aliasing, `+`, `n*`, `+=` and `.hill`, reading the atom counts
    of the real structures equals running the specification in which each formula *is* its count
    function (counts add under `+`/`+=`, scale under `n*`, are kept by copy/Hill) – the
    refinement of `Heap.step` to `AHeap.step`, lifted to every operation list by induction -/
theorem programs_refine_count_spec [CommSemiring α] [DecidableEq α] (sym : Nat → Nat → Nat)
    (ops : List (Op α)) (hw : ∀ op ∈ ops, op.wf) (h : Heap α) :
    (h.run sym ops).map Heap.abs = h.abs.run ops := Heap.run_refines sym ops hw h

/-! non-vacuity: a program with aliasing and `+=` runs, and its spec run agrees -/
example : ((Heap.empty : Heap Int).run (fun _ _ => 0)
    [.new 0 (.cons 2 (.atom ⟨1,0,0⟩) .nil), .same 1 0, .new 2 (.cons 1 (.atom ⟨8,0,0⟩) .nil),
     .iadd 1 2, .mul 3 3 0]).isSome = true := by decide

/-! non-vacuity: a nested structure with a repeated atom and a non-zero mass -/
example : lookupD (Items.cons (2 : Int) (.group (.cons 3 (.atom ⟨1, 0, 0⟩) (.cons 1 (.atom ⟨8, 0, 0⟩) .nil)))
    (.cons 1 (.atom ⟨1, 0, 0⟩) .nil)).atoms ⟨1, 0, 0⟩ = 7 := by decide

end PtVerif.C02
