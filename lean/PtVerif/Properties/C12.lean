/-! # C12 — (stub: property theorems go here; see docs/BUILDING.md) -/
namespace PtVerif.C12
end PtVerif.C12
