import PtVerif.Proofs.Density
import PtVerif.Proofs.RealTransc
import PtVerif.Generated.FormulaConsts
import Mathlib.Tactic.NormNum
/-!
# C12 — density, natural density, isotope substitution and cell volume are consistent

Model: `Model/Density.lean` (`natural_mass_ratio`, the `natural_density` property pair,
`Formula.__init__` / `formula()` density routes, `_isotope_substitution`, `Formula.volume`,
`util.cell_volume`, `density.density` for isotopes); packing factors are regenerated from
formulas.py (`Generated/FormulaConsts`).
-/
namespace PtVerif.C12
open PtModel

variable {α : Type}

/-- natural density = density × (mass with every isotope replaced by its natural element,
    ion charges kept) / (actual mass) -/
theorem natural_density_eq [Field α] (am : Atom → α) (t : List (Atom × α)) (ρ : α) :
    getNaturalDensity am t ρ =
      ρ * (massOf (fun a => am (naturalAtom a)) t / massOf am t) := by
  unfold getNaturalDensity; rw [naturalMassRatio_eq]

/-- "replaced by its natural element, ion charges kept": the natural partner of `(Z, A, q)`
    is `(Z, 0, q)`, which weighs the element's mass less `q` electron masses -/
theorem natural_atom_mass [CommRing α] (m : Nat → Nat → α) (me : α) (x : Atom) :
    atomMass m me (naturalAtom x) = m x.z 0 - me * (x.q : α) := by
  unfold atomMass naturalAtom
  by_cases h : x.q = 0 <;> simp [h]

/-- setting the natural density and reading it back inverts (ratio ≠ 0) … -/
theorem set_natural_then_get [Field α] (am : Atom → α) (t : List (Atom × α)) (nd : α)
    (h : naturalMassRatio am t ≠ 0) :
    getNaturalDensity am t (setNaturalDensity am t nd) = nd := get_set_natural am t nd h

/-- … and so does reading the natural density of a density and storing it again -/
theorem get_natural_then_set [Field α] (am : Atom → α) (t : List (Atom × α)) (ρ : α)
    (h : naturalMassRatio am t ≠ 0) :
    setNaturalDensity am t (getNaturalDensity am t ρ) = ρ := set_get_natural am t ρ h

/-- density by keyword, by attribute (the stored value itself) or by the `@d` / `@di` tag -/
theorem density_routes_agree [Field α] (am : Atom → α) (ad : Atom → Option α) (t : List (Atom × α)) (d : α) :
    stringDensity am ad t none (some d) none = some d ∧
    stringDensity am ad t (some (d, false)) none none = some d ∧
    ctorDensity am ad t (some d) none = some d := ⟨rfl, rfl, rfl⟩

/-- natural density by keyword, by attribute (`setNaturalDensity`) or by the `@dn` tag -/
theorem natural_density_routes_agree [Field α] (am : Atom → α) (ad : Atom → Option α)
    (t : List (Atom × α)) (nd : α) :
    stringDensity am ad t none none (some nd) = some (setNaturalDensity am t nd) ∧
    stringDensity am ad t (some (nd, true)) none none = some (setNaturalDensity am t nd) ∧
    ctorDensity am ad t none (some nd) = some (setNaturalDensity am t nd) := ⟨rfl, rfl, rfl⟩

/-- a single-atom formula defaults to that atom's density; others to unknown -/
theorem single_atom_default [Field α] (am : Atom → α) (ad : Atom → Option α) (a : Atom) (c : α) :
    ctorDensity am ad [(a, c)] none none = ad a := rfl

theorem several_atoms_default [Field α] (am : Atom → α) (ad : Atom → Option α)
    (e₁ e₂ : Atom × α) (r : List (Atom × α)) :
    ctorDensity am ad (e₁ :: e₂ :: r) none none = none := rfl

/-- an isotope's density is the element density scaled by the mass ratio, unknown if the
    element's is unknown -/
theorem isotope_density [Field α] (m : Nat → Nat → α) (ed : Nat → Option α) (x : Atom) (h : x.a ≠ 0) :
    atomDensity m ed x = (ed x.z).map fun d => d * (m x.z x.a / m x.z 0) := by
  unfold atomDensity
  cases ed x.z <;> simp [h]

/-- substitution keeps every other count, scales the source by `1 - p` and adds to the target -/
theorem replace_counts [Field α] [DecidableEq α] (am : Atom → α) (t : List (Atom × α)) (d : Option α)
    (src tgt : Atom) (p : α) (hs : hasKey t src = true) (hne : src ≠ tgt) (b : Atom) :
    lookupD (substitute am t d src tgt p).1 b =
      if b = src then lookupD t src * (1 - p)
      else if b = tgt then lookupD t tgt + lookupD t src * p
      else lookupD t b := substitute_counts am t d src tgt p hs hne b

/-- … and the cell volume: the new density is ρ·M'/M -/
theorem replace_keeps_cell_volume [Field α] [DecidableEq α] (am : Atom → α) (t : List (Atom × α))
    (hn : KeysNodup t) (ρ : α) (src tgt : Atom) (p : α) (hs : hasKey t src = true) (hne : src ≠ tgt)
    (hM : massOf am t ≠ 0) :
    (substitute am t (some ρ) src tgt p).2 =
      some (ρ * massOf am (substitute am t (some ρ) src tgt p).1 / massOf am t) :=
  substitute_density am t hn ρ src tgt p hs hne hM

theorem replace_unknown_stays_unknown [Field α] [DecidableEq α] (am : Atom → α) (t : List (Atom × α))
    (src tgt : Atom) (p : α) : (substitute am t none src tgt p).2 = none :=
  substitute_unknown am t src tgt p

theorem replace_absent_is_identity [Field α] [DecidableEq α] (am : Atom → α) (t : List (Atom × α))
    (d : Option α) (src tgt : Atom) (p : α) (hs : hasKey t src = false) :
    substitute am t d src tgt p = (t, d) := substitute_absent am t d src tgt p hs

/-- estimated volume: summed covalent-sphere volume over the packing factor (cm³) -/
theorem volume_spheres (radius : Atom → ℝ) (t : List (Atom × ℝ)) (pf : ℝ) :
    sphereVolume radius t pf =
      (4 * Real.pi / 3 * wsum (fun a => radius a ^ 3) t) / pf * 1e-24 := by
  unfold sphereVolume
  have h := massOf_eq_wsum' (fun a => radius a * radius a * radius a) t (0 : ℝ)
  simp only [zero_add] at h
  rw [h]
  have : wsum (fun a => radius a * radius a * radius a) t = wsum (fun a => radius a ^ 3) t := by
    unfold wsum; congr 1; apply List.map_congr_left; intro e _; ring
  rw [this]; simp only [Transc.pi_real]; norm_num; ring

/-- lattice cell volume `a b c √(1 − cos²α − cos²β − cos²γ + 2 cos α cos β cos γ)` (angles in degrees) -/
theorem volume_lattice (a b c al be ga : ℝ) :
    latticeVolume a (some b) (some c) (some al) (some be) (some ga) =
      a * b * c * Real.sqrt (1 - Real.cos (al * (Real.pi / 180)) ^ 2 - Real.cos (be * (Real.pi / 180)) ^ 2
        - Real.cos (ga * (Real.pi / 180)) ^ 2
        + 2 * Real.cos (al * (Real.pi / 180)) * Real.cos (be * (Real.pi / 180)) * Real.cos (ga * (Real.pi / 180)))
      * 1e-24 := by
  unfold latticeVolume cellVolume radians
  simp only [Option.getD_some, Transc.cos_real, Transc.sqrt_real, Transc.pi_real]
  norm_num
  left; congr 1; ring

/-- with the defaults (`b, c ← a`, all angles 90°) the cell is the cube `a³` -/
theorem volume_lattice_cubic (a : ℝ) :
    latticeVolume a none none none none none = a * a * a * 1e-24 := by
  unfold latticeVolume cellVolume
  simp

/-- the packing factors regenerated from formulas.py are the crystallographic ones -/
theorem packing_factors :
    (PtGen.packingFactors : List (String × ℝ)) =
      [("cubic", Real.pi / 6), ("bcc", Real.pi * Real.sqrt 3 / 8), ("hcp", Real.pi / Real.sqrt 18),
       ("fcc", Real.pi / Real.sqrt 18), ("diamond", Real.pi * Real.sqrt 3 / 16)] := by
  unfold PtGen.packingFactors
  simp

/-! non-vacuity: D⁺ next to O²⁻ – the natural partner keeps the charge -/
example : naturalAtom ⟨1, 2, 1⟩ = ⟨1, 0, 1⟩ := rfl
example : hasKey [((⟨1, 0, 0⟩ : Atom), (2 : ℚ)), (⟨8, 0, 0⟩, 1)] ⟨1, 0, 0⟩ = true := by decide

end PtVerif.C12
