import PtVerif.Proofs.GrammarYield
import PtVerif.Proofs.GrammarDefined
import PtVerif.Proofs.GrammarDen
import PtVerif.Proofs.GrammarBalanced
import PtVerif.Model.GrammarTable
/-!
# C01 — a formula string denotes exactly the composition its documented grammar says;
malformed strings are rejected

Model: `Model/Grammar.lean` (`parse`: the pyparsing grammar of `formula_grammar`, combinator for
combinator, table as a parameter) – tied to formulas.py on every run by
`harness/ptv/props/C01.py`.  Specification: `Model/GrammarSpec.lean` (derivations of the documented
grammar, their yield `text`, the structure `items` they denote, the documented reading `den`, and
`canon`, the side conditions that pick the greedy reading where the documented grammar is
ambiguous).

All theorems hold for every table (public or private) and every nesting depth.
-/
namespace PtVerif.C01
open PtModel PtModel.Grammar

/-- **every string of the documented grammar parses to what it denotes**: for every table, every
    canonical derivation (elements with isotope / ion tags and integer or decimal counts, implicit
    and parenthesised groups nested to any depth, `+` / blank / empty separators, blanks wherever
    the implementation tolerates them, an optional density tag) whose elements the table defines:
    the parser returns exactly the nested structure and density tag the derivation denotes. -/
theorem parse_yield (T : Table) (D : Compound) (hc : D.canon = true) (r : Items Cnt × Option Dens)
    (hr : D.result T = some r) : parse T D.text = .ok r := by
  rw [Grammar.parse_yield T D hc, hr]

/-- **a string that names a symbol, isotope or charge the table does not define is rejected**
    (the parse action's exception; never a formula), wherever in the derivation it occurs -/
theorem undefined_rejected (T : Table) (D : Compound) (hc : D.canon = true) (hr : D.result T = none) :
    parse T D.text = .error .abort := by
  rw [Grammar.parse_yield T D hc, hr]

/-- the canonical reading is unambiguous: two canonical derivations with the same text denote the
    same structure and density (or are both undefined) -/
theorem canonical_reading_unique (T : Table) (D₁ D₂ : Compound) (h₁ : D₁.canon = true)
    (h₂ : D₂.canon = true) (ht : D₁.text = D₂.text) : D₁.result T = D₂.result T := by
  have e₁ := Grammar.parse_yield T D₁ h₁
  have e₂ := Grammar.parse_yield T D₂ h₂
  rw [ht, e₂] at e₁
  cases r₁ : D₁.result T <;> cases r₂ : D₂.result T <;> simp_all

/-- the structure a derivation denotes has the composition the grammar documents: *a count
    multiplies everything in its group and repeated atoms add* (`den`), atom by atom … -/
theorem yield_denotes (T : Table) (d : Comp) (fs : Items Cnt) (h : d.items T = some fs) (a : Atom) :
    (ratItems fs).cnt a = d.den T a := comp_den T a d fs h

/-- … and that is what `Formula.atoms` serves for it (C02's `_count_atoms`) -/
theorem yield_atoms (T : Table) (d : Comp) (fs : Items Cnt) (h : d.items T = some fs) (a : Atom) :
    lookupD (ratItems fs).atoms a = d.den T a := by
  rw [Items.atoms_lookup, yield_denotes T d fs h a]

/-- **every atom of an accepted formula is defined in the table**: for every table and *every*
    string, if the parser returns a formula then each of its atoms, at every depth, is an entry of
    the table with a mass number the entry names or lists and a charge it lists -/
theorem parse_atoms_defined (T : Table) (s : List Char) (fs : Items Cnt) (d : Option Dens)
    (h : parse T s = .ok (fs, d)) : AllAtoms (Defined T) fs := parse_defined T s fs d h

/-- **every accepted string is a string of the documented grammar, with that meaning**: for every
    table and *every* string, if the parser returns a formula then the string is the yield of a
    derivation (well-formed tokens; blanks only where the implementation tolerates them) that
    denotes exactly that structure and density tag – with every element defined in the table.
    Nothing outside the (whitespace-tolerant) documented language is ever accepted. -/
theorem parse_sound (T : Table) (s : List Char) (fs : Items Cnt) (d : Option Dens)
    (h : parse T s = .ok (fs, d)) :
    ∃ D : Compound, D.wf = true ∧ D.text = s ∧ D.result T = some (fs, d) :=
  Grammar.parse_sound T s fs d h

/-- **unbalanced brackets are rejected**: in an accepted string each of `( )`, `[ ]`, `{ }` opens
    as often as it closes -/
theorem unbalanced_rejected (T : Table) (s : List Char) (o c : Char) (hp : Pair o c)
    (hne : s.count o ≠ s.count c) (fs : Items Cnt) (d : Option Dens) : parse T s ≠ .ok (fs, d) :=
  fun h => hne (accepted_balanced T s fs d h o c hp)

/-- **a malformed count, isotope, ion or density tag is rejected**: an accepted string decomposes
    into well-formed tokens (`Compound.wf`: every count is `[1-9][0-9]*` or
    `(0|[1-9][0-9]*|)[.][0-9]*` but not a lone `.`, every isotope tag `[ number ]`, every ion tag
    `{ number? sign }`, the density tag `@count` with `n`/`i`), so a string with no such
    decomposition is not accepted -/
theorem malformed_rejected (T : Table) (s : List Char)
    (hno : ∀ D : Compound, D.wf = true → D.text ≠ s) (fs : Items Cnt) (d : Option Dens) :
    parse T s ≠ .ok (fs, d) := by
  intro h
  obtain ⟨D, hw, ht, _⟩ := Grammar.parse_sound T s fs d h
  exact hno D hw ht

/-- the fuel of the model is no restriction: any larger fuel gives the same result (success,
    failure or exception), so `parse` is the fuel-free recursive descent -/
theorem fuel_is_no_restriction (T : Table) (s : List Char) (n : Nat) (h : fuelFor s ≤ n) :
    pComposite T n s = pComposite T (fuelFor s) s := pComposite_fuel T s n h

/-- the empty string (or blanks) is the empty formula -/
theorem parse_blank (T : Table) (b : List Char) (hb : AllWs b) : parse T b = .ok (.nil, none) :=
  Grammar.parse_blank T b hb

/-- data fact over the regenerated table: every entry is served under its own symbol -/
theorem genTable_wf : genTable.wf = true := by decide +kernel

/-- data fact: the rows of mass.py's `isotope_mass` name the elements of core.py's `element_base`
    (same Z, same symbol), so the isotope lists are attached to the right entries -/
theorem isotope_rows_match_elements :
    PtGen.isotopeList.all (fun r => PtGen.elementBase.any (fun e => e.1 = r.1 && e.2.2.2.1 = r.2.1)) = true := by
  decide +kernel

/-! ## non-vacuity: canonical derivations with every feature, and what the theorems say of them -/

def elH2 : Elem := ⟨[], ['H'], none, none, .whole ['2']⟩
def elO (pre : List Char) : Elem := ⟨pre, ['O'], none, none, .none⟩
def elO18 : Elem := ⟨[], ['O'], some ⟨[' '], ['1', '8'], []⟩, some ⟨[], ['2'], true, [' ']⟩, .fract [] ['5']⟩
def elXx : Elem := ⟨[], ['X', 'x'], none, none, .none⟩
def elFe99 : Elem := ⟨[], ['F', 'e'], some ⟨[], ['9', '9'], []⟩, none, .none⟩

/-- `2H2 O` – one implicit group with a leading count (blanks do not end it) -/
def water2 : Compound := .full [] (.one (.implicit (.whole ['2']) [elH2, elO [' ']])) none []

/-- `( H2O[ 18]{2- }.5 )3 + 2H2 O@1.5 n` -/
def mixed : Compound :=
  .full []
    (.more (.explicit [] [' '] (.one (.implicit .none [elH2, elO18])) [' '] [] (.whole ['3']))
      ⟨[' '], true, [' ']⟩ (.one (.implicit (.whole ['2']) [elH2, elO [' ']])))
    (some ⟨[], .fract ['1'] ['5'], [' '], some true⟩) [' ']

example : water2.canon = true ∧ water2.text = "2H2 O".toList := by decide +kernel
example : mixed.canon = true ∧ mixed.text = "( H2O[ 18]{2- }.5 )3 + 2H2 O@1.5 n ".toList := by
  decide +kernel
example : water2.result genTable =
    some (.cons ⟨2, 0⟩ (.group (.cons ⟨2, 0⟩ (.atom ⟨1, 0, 0⟩) (.cons ⟨1, 0⟩ (.atom ⟨8, 0, 0⟩) .nil))) .nil, none) := by
  decide +kernel
example : (mixed.result genTable).isSome = true := by decide +kernel

/-- the full statement without the side conditions of `canon`: *every* token-well-formed derivation
    with defined elements parses to what it denotes -/
def parse_yield_full : Prop :=
  ∀ (T : Table) (D : Compound) (r : Items Cnt × Option Dens), D.wf = true → D.result T = some r →
    parse T D.text = .ok r

/-- `6H2O`, a blank, `CaCO3` – two groups, as the guide reads it (known finding D19) -/
def hydrate : Compound :=
  .full []
    (.more (.implicit (.whole ['6']) [elH2, elO []]) ⟨[' '], false, []⟩
      (.one (.implicit .none [⟨[], ['C', 'a'], none, none, .none⟩, ⟨[], ['C'], none, none, .none⟩,
        ⟨[], ['O'], none, none, .whole ['3']⟩]))) none []

theorem parse_yield_full_counterexample : ¬ parse_yield_full := by
  intro h
  have hw : hydrate.wf = true := by decide +kernel
  have h1 := h genTable hydrate _ hw (by decide +kernel : hydrate.result genTable = some
    (.cons ⟨6, 0⟩ (.group (.cons ⟨2, 0⟩ (.atom ⟨1, 0, 0⟩) (.cons ⟨1, 0⟩ (.atom ⟨8, 0, 0⟩) .nil)))
      (.cons ⟨1, 0⟩ (.atom ⟨20, 0, 0⟩) (.cons ⟨1, 0⟩ (.atom ⟨6, 0, 0⟩) (.cons ⟨3, 0⟩ (.atom ⟨8, 0, 0⟩) .nil))), none))
  have h2 : parse genTable hydrate.text ≠ .ok
      (.cons ⟨6, 0⟩ (.group (.cons ⟨2, 0⟩ (.atom ⟨1, 0, 0⟩) (.cons ⟨1, 0⟩ (.atom ⟨8, 0, 0⟩) .nil)))
      (.cons ⟨1, 0⟩ (.atom ⟨20, 0, 0⟩) (.cons ⟨1, 0⟩ (.atom ⟨6, 0, 0⟩) (.cons ⟨3, 0⟩ (.atom ⟨8, 0, 0⟩) .nil))), none) := by
    decide +kernel
  exact h2 h1

/-- the greedy reading, stated rather than hidden: the documented grammar lets a blank separate two
    groups, but the element loop of the implementation skips blanks, so a leading count also
    multiplies the blank-separated elements that follow (`6H2O CaCO3` is 6·(H2O CaCO3), while
    `6H2O+CaCO3` and `CaCO3 6H2O` are hydrated calcium carbonate).  `canon` excludes the
    two-group derivation of such a string; its one-group derivation is canonical. -/
example : parse genTable "6H2O CaCO3".toList =
    .ok (.cons ⟨6, 0⟩ (.group (.cons ⟨2, 0⟩ (.atom ⟨1, 0, 0⟩) (.cons ⟨1, 0⟩ (.atom ⟨8, 0, 0⟩)
      (.cons ⟨1, 0⟩ (.atom ⟨20, 0, 0⟩) (.cons ⟨1, 0⟩ (.atom ⟨6, 0, 0⟩) (.cons ⟨3, 0⟩ (.atom ⟨8, 0, 0⟩) .nil)))))) .nil,
      none) := by decide +kernel

/-- an unknown symbol, an undefined isotope: `result = none`, hence rejected by `undefined_rejected` -/
def badSym : Compound := .full [] (.one (.implicit .none [elH2, elXx])) none []
def badIso : Compound := .full [] (.one (.explicit [] [] (.one (.implicit .none [elFe99])) [] [] (.whole ['2']))) none []
example : badSym.canon = true ∧ badSym.text = "H2Xx".toList ∧ badSym.result genTable = none := by decide +kernel
example : badIso.canon = true ∧ badIso.text = "(Fe[99])2".toList ∧ badIso.result genTable = none := by
  decide +kernel
example : parse genTable "H2Xx".toList = .error .abort :=
  undefined_rejected genTable badSym (by decide +kernel) (by decide +kernel)

/-- the repaired density tag: `H2O@` (D11), `H2O@n`, `H2O@ 1` are rejected, `H2O @1.5 n ` is read -/
example : parse genTable "H2O@".toList = .error .fail ∧ parse genTable "H2O@n".toList = .error .fail ∧
    parse genTable "H2O@ 1".toList = .error .fail ∧
    parse genTable "H2O @1.5 n ".toList =
      .ok (.cons ⟨2, 0⟩ (.atom ⟨1, 0, 0⟩) (.cons ⟨1, 0⟩ (.atom ⟨8, 0, 0⟩) .nil), some (.nat ⟨15, 1⟩)) := by
  decide +kernel

/-- one malformation of each kind from the fixed list, on concrete strings -/
example : parse genTable "H2O)".toList = .error .fail ∧ parse genTable "(H2O".toList = .error .fail ∧
    parse genTable "O[18".toList = .error .fail ∧ parse genTable "O[018]".toList = .error .fail ∧
    parse genTable "Fe{2}".toList = .error .fail ∧ parse genTable "Fe{+2}".toList = .error .fail := by
  decide +kernel
example : parse genTable "H01".toList = .error .fail ∧ parse genTable "H1e3".toList = .error .fail ∧
    parse genTable "H.".toList = .error .abort ∧ parse genTable "D[2]".toList = .error .abort ∧
    parse genTable "Fe{9+}".toList = .error .abort ∧ parse genTable "H[99]".toList = .error .abort := by
  decide +kernel

end PtVerif.C01
