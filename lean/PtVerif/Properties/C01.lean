/-! # C01 — (stub: property theorems go here; see docs/BUILDING.md) -/
namespace PtVerif.C01
end PtVerif.C01
