import PtVerif.Model.Grammar
import PtVerif.Model.GrammarTable
/-! # C01 — a formula string denotes what the grammar says (first cut) -/
namespace PtVerif.C01
open PtModel PtModel.Grammar

/-- the empty string is the empty formula, for every table -/
theorem parse_empty (T : Table) : parse T [] = .ok (.nil, none) := by
  simp [parse, fuelFor, pComposite, pGroup, pImplicit, pCount, pElements, pElement, pSymbol, skipWs, pLit]

/-- data fact over the regenerated table: no two entries share a symbol -/
theorem genTable_symbols_nodup : (genTable.map (·.sym)).Nodup := by decide +kernel

end PtVerif.C01
