/-! # C07 — (stub: property theorems go here; see docs/BUILDING.md) -/
namespace PtVerif.C07
end PtVerif.C07
