import PtVerif.Model.LoadersNsf
import PtVerif.Generated.NsfTables
/-! # C07 — placeholder while the pipeline is brought up -/
namespace PtVerif.C07
open PtLoad

theorem placeholder : fixNumber "<6.0E-6".toList = some (.plain ⟨60, 7⟩) := by decide

end PtVerif.C07
