import PtVerif.Proofs.LoadersNsfField
import PtVerif.Proofs.LoadersNsfOk
import PtVerif.Proofs.LoadersMass
import PtVerif.Model.LoaderTables
import PtVerif.Generated.NsfTables
import PtVerif.Generated.MassTables
import PtVerif.Generated.Constants
/-!
# C07 — neutron data of every element and isotope are those of the embedded table

Model: `PtVerif.Model.LoadersNsf` (`parseNsfLine`, `fixNumber`, `Nsf.loadText`; `Nsf.loadRows` =
main pass, gap fills, imaginary table, energy-dependent tables, natural Lu), tied to nsf.py /
nsf_tables.py by `harness/ptv/props/C07.py`.

Part 1: theorems for **every** table (any rows, any number type).  Part 2: kernel-checked
facts about the embedded tables (`Generated.NsfTables`, regenerated on every run).  Part 3: part 1
on the embedded tables.  Part 4: the recorded finding D21 (Pu, Cm).

Not covered: floating-point rounding; numpy's `interp` is modelled by `PtLoad.interp`; the
string-level parse = generated rows is checked by the compiled driver.
-/
namespace PtVerif.C07
open PtLoad

/-! ## Part 1 — every table -/

section generic
variable {α : Type} [Add α] [Sub α] [Mul α] [Div α] [Neg α] [OfNat α 0] [NatCast α] [IntCast α]
  [Transc α]

/-- what a row's record holds: the seven numeric columns (uncertainties dropped, `<` and `*`
    read as the bare number, blanks as `none`), the E flag, the abundance (0 for a half-life),
    and the complex `b_c − i·σ_a/(2000·λ₀)` -/
theorem record_of_row (lam0 : α) (nd : Nat → Option α) (r : NsfRow) :
    (recOf lam0 nd r).b_c = r.b_c.val ∧ (recOf lam0 nd r).bp = r.bp.val ∧ (recOf lam0 nd r).bm = r.bm.val
    ∧ (recOf lam0 nd r).coherent = r.coh.val ∧ (recOf lam0 nd r).incoherent = r.inc.val
    ∧ (recOf lam0 nd r).total = r.tot.val ∧ (recOf lam0 nd r).absorption = r.abs.val
    ∧ (recOf lam0 nd r).isE = r.isE
    ∧ (recOf lam0 nd r).bcc = some (r.b_c.val, -((r.abs.val (α := α)).getD 0) / (((2000 : Nat) : α) * lam0))
    ∧ (recOf lam0 nd r).abundance = (if r.a = 0 then some (0 : α) else (match r.p with
                                                                  | none => some (0 : α)
                                                                  | some u => (u.val : Option α))) := by
  by_cases h : r.a = 0
  · simp [recOf, rowRec, bcImag, h]
  · simp [recOf, rowRec, bcImag, h]
    cases r.p <;> rfl

/-- **field_is_column (isotopes)**: the isotope of the (last) row with its key reports that
    row's b+, b−, coherent, incoherent, absorption, E flag, abundance, complex b_c -/
theorem iso_fields_are_columns (env : NsfEnv α) (t : NsfTables) (pre post : List NsfRow) (r : NsfRow)
    (ht : t.rows = pre ++ r :: post) (ha : r.a ≠ 0)
    (hlast : ∀ x ∈ post, x.a = 0 ∨ (x.z, x.a) ≠ (r.z, r.a)) :
    ((Nsf.loadRows env t).isoNeutron r.z r.a).rowPart = (recOf env.lam0 env.nd r).rowPart :=
  iso_row_fields env t pre post r ht ha hlast

/-- **field_is_column (elements)** -/
theorem el_fields_are_columns (env : NsfEnv α) (t : NsfTables) (pre post : List NsfRow) (r : NsfRow)
    (ht : t.rows = pre ++ r :: post) (ha : r.a = 0) (hlast : ∀ x ∈ post, x.z = r.z → x.a ≠ 0) :
    ((Nsf.loadRows env t).elNeutron r.z).rowPart = (recOf env.lam0 env.nd r).rowPart :=
  el_row_fields env t pre post r ht ha hlast

theorem iso_spin_is_column (env : NsfEnv α) (t : NsfTables) (pre post : List NsfRow) (r : NsfRow)
    (ht : t.rows = pre ++ r :: post) (ha : r.a ≠ 0)
    (hlast : ∀ x ∈ post, x.a = 0 ∨ (x.z, x.a) ≠ (r.z, r.a)) :
    aget (r.z, r.a) (Nsf.loadRows env t).spin = some r.spin := iso_row_spin env t pre post r ht ha hlast

/-- `b_c` is the column except for the record the Eu-151 gap fill targets, which gets
    `sqrt(coherent/(4π/100))` -/
theorem b_c_is_column_or_gap_fill (env : NsfEnv α) (t : NsfTables) (i : Nat) (r : NsfRow)
    (h : t.rows[i]? = some r) :
    ((Nsf.loadRows env t).getRec (i + 1)).b_c
      = if i + 1 = (ptrs t.rows).isoId 63 151
        then (recOf env.lam0 env.nd r).coherent.map fun c => Transc.sqrt (c / fourPi100)
        else (recOf env.lam0 env.nd r).b_c := b_c_of_index env t i r h

/-- `total` is the column except for the record the Xe gap fill targets: coherent + incoherent -/
theorem total_is_column_or_gap_fill (env : NsfEnv α) (t : NsfTables) (i : Nat) (r : NsfRow)
    (h : t.rows[i]? = some r) :
    ((Nsf.loadRows env t).getRec (i + 1)).total
      = if i + 1 = (ptrs t.rows).elId 54
        then (match (recOf env.lam0 env.nd r).coherent, (recOf env.lam0 env.nd r).incoherent with
              | some c, some i => some (c + i)
              | _, _ => none)
        else (recOf env.lam0 env.nd r).total := total_of_index env t i r h

/-- the record a row of the imaginary table names reports its three values -/
theorem imaginary_lengths_served (env : NsfEnv α) (t : NsfTables) (pre post : List NsfIRow) (x : NsfIRow)
    (ht : t.irows = pre ++ x :: post)
    (h : ∀ y ∈ post, itarget (ptrs t.rows) y ≠ itarget (ptrs t.rows) x) :
    ((Nsf.loadRows env t).getRec (itarget (ptrs t.rows) x)).imag
      = (x.b_c_i.val, x.bp_i.val, x.bm_i.val) := imag_of_row env t pre post x ht h

/-- … and a record the imaginary table does not name has none -/
theorem imaginary_lengths_absent (env : NsfEnv α) (t : NsfTables) (i : Nat) (r : NsfRow)
    (hr : t.rows[i]? = some r) (h : ∀ y ∈ t.irows, itarget (ptrs t.rows) y ≠ i + 1) :
    ((Nsf.loadRows env t).getRec (i + 1)).imag = (none, none, none) := imag_none_of_index env t i r hr h

/-- **elements without a row of their own share the `Neutron` object of their first listed
    isotope** – in particular a single-isotope element reports its isotope's record -/
theorem single_isotope_element_shares_record (env : NsfEnv α) (t : NsfTables) (pre post : List NsfRow)
    (r : NsfRow) (ht : t.rows = pre ++ r :: post) (ha : r.a ≠ 0)
    (hpre : ∀ x ∈ pre, x.z ≠ r.z) (hpost : ∀ x ∈ post, x.z = r.z → x.a ≠ 0)
    (hlast : ∀ x ∈ post, x.a = 0 ∨ (x.z, x.a) ≠ (r.z, r.a)) :
    (Nsf.loadRows env t).elId r.z = (Nsf.loadRows env t).isoId r.z r.a
      ∧ (Nsf.loadRows env t).elId r.z ≠ 0 :=
  element_shares_first_isotope env t pre post r ht ha hpre hpost hlast

/-- **atoms not in the table report that no SLD is available**: an element no row mentions and
    an isotope without a row point to the shared default record, whose `has_sld()` is false -/
theorem absent_element_has_no_sld (env : NsfEnv α) (t : NsfTables) (z : Nat)
    (h : ∀ x ∈ t.rows, x.z ≠ z) : ((Nsf.loadRows env t).elNeutron z).hasSld = false := by
  unfold NsfState.elNeutron
  rw [absent_element_default env t z h]
  exact default_has_no_sld env t

theorem absent_isotope_has_no_sld (env : NsfEnv α) (t : NsfTables) (z a : Nat)
    (h : ∀ x ∈ t.rows, x.a = 0 ∨ (x.z, x.a) ≠ (z, a)) :
    ((Nsf.loadRows env t).isoNeutron z a).hasSld = false := by
  unfold NsfState.isoNeutron
  rw [absent_isotope_default env t z a h]
  exact default_has_no_sld env t

/-- every energy-dependent table is attached to its atom, converted and reversed -/
theorem energy_table_attached (env : NsfEnv α) (t : NsfTables) (pre post : List EDTable) (e : EDTable)
    (id : Nat) (ht : t.ed = pre ++ e :: post) (he : etarget env.zOf (ptrs t.rows) e = some id)
    (h : ∀ y ∈ post, etarget env.zOf (ptrs t.rows) y ≠ some id) (hlu : id ≠ (ptrs t.rows).elId 71) :
    ((Nsf.loadRows env t).getRec id).table = some (edTable env.ef e.rows) :=
  ed_table_of_entry env t pre post e id ht he h hlu

end generic

/-- increasing energies ⇒ (after eV → Å and reversal) increasing wavelengths -/
theorem table_reversed_increasing (ef : ℝ) (hef : 0 < ef) (rows : List (Dec × Dec × Dec))
    (h : decIncreasing (rows.map (·.1)) = true) :
    ((edTable ef rows).map Prod.fst).Pairwise (· < ·) := PtLoad.table_reversed_increasing ef hef rows h

/-- **each energy-dependent entry returns, at every tabulated energy, exactly the tabulated
    complex scattering length** -/
theorem node_returns_tabulated (ef : ℝ) (hef : 0 < ef) (rows : List (Dec × Dec × Dec))
    (h : decIncreasing (rows.map (·.1)) = true) (r : Dec × Dec × Dec) (hr : r ∈ rows) :
    interp (neutronWavelength ef (r.1.toNum * ((1000 : Nat) : ℝ))) (edTable ef rows)
      = some ((r.2.1.toNum : ℝ), (r.2.2.toNum : ℝ)) := ed_node_returns_tabulated ef hef rows h r hr

/-- `numpy.interp` at a node of any increasing table, over any ordered field -/
theorem interp_at_node {α : Type} [Field α] [LinearOrder α] [IsStrictOrderedRing α]
    (tbl : List (α × Cx α)) (hs : (tbl.map Prod.fst).Pairwise (· < ·)) (p : α × Cx α) (hp : p ∈ tbl) :
    interp p.1 tbl = some p.2 := interp_node tbl hs p hp

/-! `fix_number` on the forms the table uses -/
example : fixNumber "35.24(2)*".toList = some (.valUnc ⟨3524, 2⟩ ⟨2, 2⟩) := by decide +kernel
example : fixNumber "<6.0E-6".toList = some (.plain ⟨60, 7⟩) := by decide +kernel
example : fixNumber "".toList = some .missing := by decide +kernel
example : fixNumber "2065.(35.)".toList = some (.valUnc ⟨2065, 0⟩ ⟨35, 0⟩) := by decide +kernel
example : (parseNsfLine "4-Be-9,100,3/2,7.79(1),,,,7.63(2),0.0018(9),7.63(2),0.0076(8)".toList).map
    (fun r => (r.z, r.a, r.p, r.spin, r.b_c, r.isE)) =
    some (4, 9, some (.plain ⟨100, 0⟩), "3/2", .valUnc ⟨779, 2⟩ ⟨1, 2⟩, false) := by decide +kernel

/-! ## Part 2 — the embedded tables (kernel-checked on every run) -/


/-- `nsftable`: keys `(Z, A)` (A = 0 for the element row) strictly increasing, hence distinct;
    an element row precedes its isotopes -/
theorem nsf_keys_sorted : strictSorted (PtGen.nsfRows.map nsfKeyOf) = true := by decide +kernel

/-- every row names an element of the table by number and symbol and has an absorption value
    (`-None` would be a TypeError) -/
theorem nsf_rows_ok : PtGen.nsfRows.all (fun r => symOf r.z == some r.sym && r.abs != .missing) = true := by
  decide +kernel

/-- every isotope row names a nuclide of the isotope-mass table (so `add_isotope` creates no
    mass-less isotope) -/
theorem nsf_isotopes_have_mass :
    PtGen.nsfRows.all (fun r => r.a == 0 || r.z == 0 || (rowOf (groupByZ PtGen.isoMassRows) r.z r.a).isSome) = true := by
  decide +kernel

/-- every tabulated total cross section is a positive number -/
theorem totals_positive :
    PtGen.nsfRows.all (fun r => r.tot == .missing || decide r.tot.Pos) = true := by decide +kernel

theorem nsf_keys_distinct : (PtGen.nsfRows.map nsfKeyOf).Nodup :=
  nodup_of_strictSorted _ nsf_keys_sorted

/-- **every single-isotope element points to its isotope's record** -/
theorem single_isotope_elements_share :
    allZ.all (fun z => match singleIsotope PtGen.nsfRows z with
      | some a => (ptrs PtGen.nsfRows).elId z == (ptrs PtGen.nsfRows).isoId z a
                  && (ptrs PtGen.nsfRows).elId z != 0
      | none => true) = true := by decide +kernel

/-- the Xe gap: the element row of Xe has no total but coherent and incoherent values, and the
    gap fill targets exactly that row's record -/
theorem xe_gap :
    (match PtGen.nsfRows[(ptrs PtGen.nsfRows).elId 54 - 1]? with
     | some r => r.z == 54 && r.a == 0 && r.tot == .missing && decide r.coh.Pos && r.inc != .missing
     | none => false) = true := by decide +kernel

/-- the Eu-151 gap: the row has no b_c but a coherent cross section -/
theorem eu_gap :
    (match PtGen.nsfRows[(ptrs PtGen.nsfRows).isoId 63 151 - 1]? with
     | some r => r.z == 63 && r.a == 151 && r.b_c == .missing && decide r.coh.Pos
     | none => false) = true := by decide +kernel

/-- every row of the imaginary table names an atom that has a row of its own, and no two rows
    name the same record -/
theorem imag_targets :
    (PtGen.nsfIRows.map (itarget (ptrs PtGen.nsfRows))).all (· != 0) = true
    ∧ (PtGen.nsfIRows.map (itarget (ptrs PtGen.nsfRows))).Nodup := by decide +kernel

/-- … and it names it by its own key: the target record is the one built from the row `(Z, A)` -/
theorem imag_targets_are_rows :
    PtGen.nsfIRows.all (fun x => match PtGen.nsfRows[itarget (ptrs PtGen.nsfRows) x - 1]? with
      | some r => r.z == x.z && r.a == x.a
      | none => false) = true := by decide +kernel

/-- energy-dependent tables: energies positive and strictly increasing in every table -/
theorem energies_increasing :
    PtGen.edTables.all (fun e => decIncreasing (e.rows.map (·.1))) = true := by decide +kernel

/-- each table names an atom that has a row of its own; no two name the same record; none is
    natural Lu's (which is mixed afterwards) -/
theorem ed_targets :
    (PtGen.edTables.map (etarget zOf (ptrs PtGen.nsfRows))).all
        (fun t => match t with | some id => id != 0 && id != (ptrs PtGen.nsfRows).elId 71 | none => false) = true
    ∧ (PtGen.edTables.map (etarget zOf (ptrs PtGen.nsfRows))).Nodup := by decide +kernel

theorem ed_targets_are_rows :
    PtGen.edTables.all (fun e => match etarget zOf (ptrs PtGen.nsfRows) e with
      | some id => (match PtGen.nsfRows[id - 1]? with
          | some r => zOf e.sym == some r.z && r.a == e.a
          | none => false)
      | none => false) = true := by decide +kernel

/-! ## Part 3 — part 1 on the embedded tables -/

section generated
variable {α : Type} [Add α] [Sub α] [Mul α] [Div α] [Neg α] [OfNat α 0] [NatCast α] [IntCast α]
  [Transc α]

theorem atomRec_of_row (env : NsfEnv α) (i : Nat) (r : NsfRow) (h : PtGen.nsfRows[i]? = some r) :
    atomRec (Nsf.loadRows env PtGen.nsfTables) r.z r.a = (Nsf.loadRows env PtGen.nsfTables).getRec (i + 1) := by
  have := atom_owns_row env PtGen.nsfTables nsf_keys_distinct i r h
  unfold atomRec NsfState.elNeutron NsfState.isoNeutron
  split
  · rename_i ha; rw [if_pos ha] at this; rw [this]
  · rename_i ha; rw [if_neg ha] at this; rw [this]

/-- **all 364 rows**: the element or isotope a row names reports that row's b+, b−, coherent,
    incoherent, absorption, E flag, abundance and complex b_c -/
theorem generated_fields (env : NsfEnv α) (i : Nat) (r : NsfRow) (h : PtGen.nsfRows[i]? = some r) :
    (atomRec (Nsf.loadRows env PtGen.nsfTables) r.z r.a).rowPart = (recOf env.lam0 env.nd r).rowPart := by
  rw [atomRec_of_row env i r h]
  exact record_of_index env PtGen.nsfTables i r h

/-- … its b_c, except Eu-151 which gets the gap fill -/
theorem generated_b_c (env : NsfEnv α) (i : Nat) (r : NsfRow) (h : PtGen.nsfRows[i]? = some r)
    (hne : (r.z, r.a) ≠ (63, 151)) :
    (atomRec (Nsf.loadRows env PtGen.nsfTables) r.z r.a).b_c = r.b_c.val := by
  rw [atomRec_of_row env i r h, b_c_of_index env PtGen.nsfTables i r h]
  have hk := eu_gap
  split
  · rename_i he
    exfalso
    have : (ptrs PtGen.nsfTables.rows).isoId 63 151 - 1 = i := by
      have : (ptrs PtGen.nsfTables.rows).isoId 63 151 = i + 1 := he.symm
      omega
    have hrows : PtGen.nsfTables.rows = PtGen.nsfRows := rfl
    rw [hrows] at this
    rw [this, h] at hk
    simp only [Bool.and_eq_true, beq_iff_eq, decide_eq_true_eq] at hk
    exact hne (by rw [hk.1.1.1, hk.1.1.2])
  · exact (record_of_row env.lam0 env.nd r).1

/-- … and its total, except Xe which gets the gap fill -/
theorem generated_total (env : NsfEnv α) (i : Nat) (r : NsfRow) (h : PtGen.nsfRows[i]? = some r)
    (hne : (r.z, r.a) ≠ (54, 0)) :
    (atomRec (Nsf.loadRows env PtGen.nsfTables) r.z r.a).total = r.tot.val := by
  rw [atomRec_of_row env i r h, total_of_index env PtGen.nsfTables i r h]
  have hk := xe_gap
  split
  · rename_i he
    exfalso
    have : (ptrs PtGen.nsfTables.rows).elId 54 - 1 = i := by
      have : (ptrs PtGen.nsfTables.rows).elId 54 = i + 1 := he.symm
      omega
    have hrows : PtGen.nsfTables.rows = PtGen.nsfRows := rfl
    rw [hrows] at this
    rw [this, h] at hk
    simp only [Bool.and_eq_true, beq_iff_eq, decide_eq_true_eq] at hk
    exact hne (by rw [hk.1.1.1.1, hk.1.1.1.2])
  · exact (record_of_row env.lam0 env.nd r).2.2.2.2.2.1

/-- every single-isotope element of the embedded table reports its isotope's record -/
theorem generated_single_isotope (env : NsfEnv α) (z a : Nat)
    (h : singleIsotope PtGen.nsfRows z = some a) (hz : z ∈ allZ) :
    (Nsf.loadRows env PtGen.nsfTables).elNeutron z = (Nsf.loadRows env PtGen.nsfTables).isoNeutron z a := by
  have := List.all_eq_true.mp single_isotope_elements_share z hz
  rw [h] at this
  simp only [Bool.and_eq_true, beq_iff_eq] at this
  unfold NsfState.elNeutron NsfState.isoNeutron
  rw [loadRows_elId, loadRows_isoId]
  show (Nsf.loadRows env PtGen.nsfTables).getRec ((ptrs PtGen.nsfRows).elId z)
    = (Nsf.loadRows env PtGen.nsfTables).getRec ((ptrs PtGen.nsfRows).isoId z a)
  rw [this.1]

/-- the atom `(z, a)` reports the record its pointer names -/
theorem atomRec_eq_getRec (env : NsfEnv α) (t : NsfTables) (z a : Nat) :
    atomRec (Nsf.loadRows env t) z a
      = (Nsf.loadRows env t).getRec (if a = 0 then (ptrs t.rows).elId z else (ptrs t.rows).isoId z a) := by
  unfold atomRec NsfState.elNeutron NsfState.isoNeutron
  split
  · rw [loadRows_elId]
  · rw [loadRows_isoId]

/-- **all 16 rows of the imaginary table**: the element or isotope a row names reports that
    row's b_c_i, b+_i, b−_i -/
theorem generated_imaginary (env : NsfEnv α) (x : NsfIRow) (hx : x ∈ PtGen.nsfIRows) :
    (atomRec (Nsf.loadRows env PtGen.nsfTables) x.z x.a).imag = (x.b_c_i.val, x.bp_i.val, x.bm_i.val) := by
  obtain ⟨pre, post, hsplit, hlast⟩ :=
    split_of_mem_nodup (itarget (ptrs PtGen.nsfRows)) PtGen.nsfIRows imag_targets.2 x hx
  have := imag_of_row env PtGen.nsfTables pre post x hsplit hlast
  rw [atomRec_eq_getRec]
  exact this

/-- **all 14 energy-dependent tables**: the atom a table names carries that table, converted
    from eV to Å and reversed -/
theorem generated_energy_table (env : NsfEnv α) (henv : env.zOf = zOf) (e : EDTable) (he : e ∈ PtGen.edTables)
    (z : Nat) (hz : zOf e.sym = some z) :
    (atomRec (Nsf.loadRows env PtGen.nsfTables) z e.a).table = some (edTable env.ef e.rows) := by
  obtain ⟨pre, post, hsplit⟩ := List.append_of_mem he
  have htgt : etarget zOf (ptrs PtGen.nsfRows) e
      = some (if e.a = 0 then (ptrs PtGen.nsfRows).elId z else (ptrs PtGen.nsfRows).isoId z e.a) := by
    unfold etarget; rw [hz]; rfl
  have hall := ed_targets.1
  have hnd := ed_targets.2
  rw [atomRec_eq_getRec]
  apply ed_table_of_entry env PtGen.nsfTables pre post e _ hsplit (by rw [henv]; exact htgt)
  · intro y hy hy'
    rw [henv] at hy'
    have hsplit' : PtGen.edTables = pre ++ e :: post := hsplit
    rw [hsplit', List.map_append, List.map_cons] at hnd
    have := (List.nodup_append.mp hnd).2.1
    rw [List.nodup_cons] at this
    exact this.1 (List.mem_map.mpr ⟨y, hy, hy'.trans htgt.symm⟩)
  · have := List.all_eq_true.mp hall _ (List.mem_map.mpr ⟨e, he, rfl⟩)
    rw [htgt] at this
    simp only [Bool.and_eq_true, bne_iff_ne, ne_eq] at this
    exact this.2

end generated

/-- **at every tabulated energy every energy-dependent atom of the embedded table returns
    exactly the tabulated complex scattering length** (ℝ; `ENERGY_FACTOR > 0`) -/
theorem generated_nodes_return_tabulated (env : NsfEnv ℝ) (henv : env.zOf = zOf) (hef : 0 < env.ef)
    (e : EDTable) (he : e ∈ PtGen.edTables) (z : Nat) (hz : zOf e.sym = some z)
    (r : Dec × Dec × Dec) (hr : r ∈ e.rows) :
    (atomRec (Nsf.loadRows env PtGen.nsfTables) z e.a).bcAt
        (neutronWavelength env.ef (r.1.toNum * ((1000 : Nat) : ℝ)))
      = some ((r.2.1.toNum : ℝ), (r.2.2.toNum : ℝ)) := by
  unfold NRec.bcAt
  rw [generated_energy_table env henv e he z hz]
  have hinc := List.all_eq_true.mp energies_increasing e he
  exact ed_node_returns_tabulated env.ef hef e.rows hinc r hr

/-! ### `nsf.init` runs to completion on the embedded tables -/

theorem rows_guard :
    PtGen.nsfRows.all (fun r => symOf r.z == some r.sym && (r.abs.val (α := Rat)).isSome) = true := by
  decide +kernel

theorem xe_row_fact :
    ((ptrs PtGen.nsfRows).elId 54 != 0 &&
      match PtGen.nsfRows[(ptrs PtGen.nsfRows).elId 54 - 1]? with
      | some r => r.tot == .missing && r.coh != .missing && r.inc != .missing
      | none => false) = true := by decide +kernel

theorem eu_row_fact :
    ((ptrs PtGen.nsfRows).isoId 63 151 != 0 &&
      match PtGen.nsfRows[(ptrs PtGen.nsfRows).isoId 63 151 - 1]? with
      | some r => r.a != 0 && nsfKeyOf r == (63, 151) && r.b_c == .missing && r.coh != .missing
      | none => false) = true := by decide +kernel

theorem lu175_row_fact :
    ((ptrs PtGen.nsfRows).isoId 71 175 != 0 &&
      match PtGen.nsfRows[(ptrs PtGen.nsfRows).isoId 71 175 - 1]? with
      | some r => r.a != 0 && nsfKeyOf r == (71, 175)
      | none => false) = true := by decide +kernel

theorem lu176_row_fact : PtGen.nsfRows.any (fun r => r.a != 0 && nsfKeyOf r == (71, 176)) = true := by
  decide +kernel

theorem irows_guard :
    PtGen.nsfIRows.all (fun x => (symOf x.z).isSome &&
      (x.a == 0 || PtGen.nsfRows.any (fun r => r.a != 0 && nsfKeyOf r == (x.z, x.a)))) = true := by
  decide +kernel

theorem ed_guard :
    PtGen.edTables.all (fun e => match zOf e.sym with
      | some z => e.a == 0 || PtGen.nsfRows.any (fun r => r.a != 0 && nsfKeyOf r == (z, e.a))
      | none => false) = true := by decide +kernel

theorem lu176_table_fact :
    PtGen.edTables.any (fun e => etarget zOf (ptrs PtGen.nsfRows) e == some ((ptrs PtGen.nsfRows).isoId 71 176)) = true := by
  decide +kernel

section
variable {α : Type} [Add α] [Sub α] [Mul α] [Div α] [Neg α] [OfNat α 0] [NatCast α] [IntCast α]
  [Transc α]

/-- the embedded tables are well-formed for every environment that indexes the real element
    table and knows the two Lu abundances -/
theorem generated_wellFormed (env : NsfEnv α) (hs : env.symOf = symOf) (hz : env.zOf = zOf)
    (hab : env.ab175.isSome = true ∧ env.ab176.isSome = true) : WellFormed env PtGen.nsfTables := by
  have any_row : ∀ (k : Nat × Nat), PtGen.nsfRows.any (fun r => r.a != 0 && nsfKeyOf r == k) = true →
      ∃ r ∈ PtGen.nsfTables.rows, r.a ≠ 0 ∧ nsfKeyOf r = k := by
    intro k h
    obtain ⟨r, hr, hp⟩ := List.any_eq_true.mp h
    simp only [Bool.and_eq_true, bne_iff_ne, ne_eq, beq_iff_eq] at hp
    exact ⟨r, hr, hp.1, hp.2⟩
  have idx : ∀ n : Nat, n ≠ 0 → n = (n - 1) + 1 := fun n h => by omega
  have hrows : PtGen.nsfTables.rows = PtGen.nsfRows := rfl
  refine
    { rows := ?_, sym54 := by rw [hs]; decide +kernel, sym63 := by rw [hs]; decide +kernel,
      sym71 := by rw [hs]; decide +kernel, xe := ?_, eu := ?_, irows := ?_, ed := ?_, lu175 := ?_,
      lu176 := any_row _ lu176_row_fact, lu176tbl := ?_, ab := hab }
  · unfold nsfRowsOk; rw [hs]; exact rows_guard
  · have h := xe_row_fact
    rw [Bool.and_eq_true] at h
    obtain ⟨h0, h1⟩ := h
    have h0 := bne_iff_ne.mp h0
    split at h1
    · rename_i r hr
      simp only [Bool.and_eq_true, beq_iff_eq, bne_iff_ne, ne_eq] at h1
      rw [hrows]
      exact ⟨(ptrs PtGen.nsfRows).elId 54 - 1, r, hr, idx _ h0, h1.1.1, h1.1.2, h1.2⟩
    · cases h1
  · have h := eu_row_fact
    rw [Bool.and_eq_true] at h
    obtain ⟨h0, h1⟩ := h
    have h0 := bne_iff_ne.mp h0
    split at h1
    · rename_i r hr
      simp only [Bool.and_eq_true, beq_iff_eq, bne_iff_ne, ne_eq] at h1
      rw [hrows]
      exact ⟨(ptrs PtGen.nsfRows).isoId 63 151 - 1, r, hr, idx _ h0, h1.1.1.1, h1.1.1.2, h1.1.2, h1.2⟩
    · cases h1
  · intro x hx
    have := List.all_eq_true.mp irows_guard x hx
    simp only [Bool.and_eq_true, Bool.or_eq_true, beq_iff_eq] at this
    rw [hs]
    refine ⟨this.1, ?_⟩
    rcases this.2 with h | h
    · left; exact h
    · right; exact any_row _ h
  · intro e he
    have := List.all_eq_true.mp ed_guard e he
    rw [hz]
    split at this
    · rename_i z hzz
      refine ⟨z, hzz, ?_⟩
      simp only [Bool.or_eq_true, beq_iff_eq] at this
      rcases this with h | h
      · left; exact h
      · right; exact any_row _ h
    · cases this
  · have h := lu175_row_fact
    rw [Bool.and_eq_true] at h
    obtain ⟨h0, h1⟩ := h
    have h0 := bne_iff_ne.mp h0
    split at h1
    · rename_i r hr
      simp only [Bool.and_eq_true, beq_iff_eq, bne_iff_ne, ne_eq] at h1
      rw [hrows]
      exact ⟨(ptrs PtGen.nsfRows).isoId 71 175 - 1, r, hr, idx _ h0, h1.1, h1.2⟩
    · cases h1
  · obtain ⟨e, he, hp⟩ := List.any_eq_true.mp lu176_table_fact
    simp only [beq_iff_eq] at hp
    obtain ⟨pre, post, hsplit⟩ := List.append_of_mem he
    refine ⟨pre, e, post, hsplit, by rw [hz]; exact hp, ?_⟩
    intro y hy hy'
    rw [hz] at hy'
    have hnd := ed_targets.2
    rw [hsplit, List.map_append, List.map_cons] at hnd
    have := (List.nodup_append.mp hnd).2.1
    rw [List.nodup_cons] at this
    exact this.1 (List.mem_map.mpr ⟨y, hy, hy'.trans hp.symm⟩)

/-- **`nsf.init` does not raise on the embedded tables**, and returns the state all the
    theorems above speak of -/
theorem generated_load (env : NsfEnv α) (hs : env.symOf = symOf) (hz : env.zOf = zOf)
    (hab : env.ab175.isSome = true ∧ env.ab176.isSome = true) :
    Nsf.load env PtGen.nsfTables = some (Nsf.loadRows env PtGen.nsfTables) :=
  load_of_wellFormed env PtGen.nsfTables (generated_wellFormed env hs hz hab)

end

/-! ## Part 4 — finding D21: an element with several isotope rows and no row of its own

The property says atoms not in the table report that no SLD is available.  The elements Pu and
Cm have no row, but three isotope rows each; `nsf.init` gives them the record of the first one
(`if element.neutron is missing`).  The full statement is therefore false on the embedded
table; what holds is the statement restricted to elements no row mentions
(`absent_element_has_no_sld`) together with `single_isotope_element_shares_record`. -/

/-- full strength: an element without a row of its own and without exactly one isotope row
    points to the default record -/
def element_without_row_has_no_record_full : Prop :=
  ∀ z, (∀ r ∈ PtGen.nsfRows, ¬(r.z = z ∧ r.a = 0)) → singleIsotope PtGen.nsfRows z = none →
    (ptrs PtGen.nsfRows).elId z = 0

/-- what is proved: elements that no row mentions at all -/
theorem element_without_row_has_no_record_partial (z : Nat) (h : ∀ r ∈ PtGen.nsfRows, r.z ≠ z) :
    (ptrs PtGen.nsfRows).elId z = 0 := by
  have := absent_element_default (α := ℝ) (env := ⟨symOf, zOf, fun _ => none, fun _ _ => false, none, none, 0, 0⟩)
    PtGen.nsfTables z h
  rw [loadRows_elId] at this
  exact this

/-- Pu (Z = 94) refutes the full statement: it shares Pu-239's record -/
theorem element_without_row_has_no_record_counterexample : ¬ element_without_row_has_no_record_full := by
  intro h
  have h94 := h 94 (by decide +kernel) (by decide +kernel)
  have : (ptrs PtGen.nsfRows).elId 94 = (ptrs PtGen.nsfRows).isoId 94 239
      ∧ (ptrs PtGen.nsfRows).elId 94 ≠ 0 := by decide +kernel
  exact this.2 h94

/-! non-vacuity -/
example : ∃ r ∈ PtGen.nsfRows, r.z = 4 ∧ r.a = 9 ∧ singleIsotope PtGen.nsfRows 4 = some 9 := by
  decide +kernel
example : PtGen.edTables.length = 14 ∧ PtGen.nsfIRows.length = 16 ∧ PtGen.nsfRows.length = 364 := by
  decide +kernel
example : ∀ r ∈ PtGen.nsfRows, r.z ≠ 85 := by decide +kernel   -- At: no neutron data at all

end PtVerif.C07
