import PtVerif.Model.Mix
import PtVerif.Proofs.Formula
import Mathlib.Algebra.Order.Field.Basic
import Mathlib.Tactic.Linarith
import Mathlib.Tactic.Positivity

/-! Lemmas for C11 (mixtures). -/
namespace PtModel

section Acc
variable {α : Type} [Field α] [DecidableEq α]

theorem sumOf_eq [LT α] [DecidableRel (α := α) (· < ·)] (l : List α) : sumOf l = l.sum := by
  unfold sumOf
  have : ∀ (l : List α) (s : α), l.foldl sumStep (s, 0) = (s + l.sum, 0) := by
    intro l; induction l with
    | nil => intro s; simp
    | cons x r ih =>
      intro s
      have hstep : sumStep (s, 0) x = (s + x, 0) := by
        unfold sumStep
        split <;> simp <;> ring
      simp only [List.foldl_cons, hstep, ih, List.sum_cons]
      congr 1; ring
  rw [this]; simp

theorem accumulate_fold_flatMass (w : Atom → α) (parts : List (α × FVal α)) (acc : Items α) :
    (parts.foldl (fun acc p => addS acc (rmulS p.1 p.2.s)) acc).flatMass w
      = acc.flatMass w + (parts.map fun p => p.2.s.flatMass w * p.1).sum := by
  induction parts generalizing acc with
  | nil => simp
  | cons p r ih =>
    have h1 : (addS acc (rmulS p.1 p.2.s)).flatMass w = acc.flatMass w + p.2.s.flatMass w * p.1 := by
      unfold addS; rw [Items.flatMass_append, flatMass_rmulS]
    simp only [List.foldl_cons, ih, List.map_cons, List.sum_cons, h1]
    ring

/-- mass (or any weighted sum) of `result += nᵢ * fᵢ` is `Σ nᵢ · mass fᵢ` -/
theorem accumulate_flatMass (w : Atom → α) (parts : List (α × FVal α)) :
    (accumulate parts).flatMass w = (parts.map fun p => p.2.s.flatMass w * p.1).sum := by
  unfold accumulate; rw [accumulate_fold_flatMass]; simp [Items.flatMass]

theorem accumulate_fold_cnt (parts : List (α × FVal α)) (acc : Items α) (a : Atom) :
    (parts.foldl (fun acc p => addS acc (rmulS p.1 p.2.s)) acc).cnt a
      = acc.cnt a + (parts.map fun p => p.2.s.cnt a * p.1).sum := by
  induction parts generalizing acc with
  | nil => simp
  | cons p r ih =>
    simp only [List.foldl_cons, ih, List.map_cons, List.sum_cons, cnt_addS, cnt_rmulS]
    ring

/-- atom counts of `result += nᵢ * fᵢ` are `Σ nᵢ · counts fᵢ` -/
theorem accumulate_cnt (parts : List (α × FVal α)) (a : Atom) :
    (accumulate parts).cnt a = (parts.map fun p => p.2.s.cnt a * p.1).sum := by
  unfold accumulate; rw [accumulate_fold_cnt]; simp [Items.cnt]

end Acc

section Ordered
variable {α : Type} [Field α] [LinearOrder α] [IsStrictOrderedRing α]

theorem minOf_mem (x : α) (r : List α) : minOf (x :: r) ∈ x :: r := by
  unfold minOf
  induction r generalizing x with
  | nil => simp
  | cons y r ih =>
    simp only [List.foldl_cons]
    by_cases h : y < x
    · simp only [h, if_true]
      have := ih y
      simp only [List.mem_cons] at this ⊢
      rcases this with h1 | h1
      · exact Or.inr (Or.inl h1)
      · exact Or.inr (Or.inr h1)
    · simp only [h, if_false]
      have := ih x
      simp only [List.mem_cons] at this ⊢
      rcases this with h1 | h1
      · exact Or.inl h1
      · exact Or.inr (Or.inr h1)

theorem minOf_pos (l : List α) (hne : l ≠ []) (h : ∀ x ∈ l, 0 < x) : 0 < minOf l := by
  cases l with
  | nil => exact absurd rfl hne
  | cons x r => exact h _ (minOf_mem x r)

theorem kept_pos (pairs : List (FVal α × α)) (p : FVal α × α) (hp : p ∈ kept pairs) : 0 < p.2 := by
  have := (List.mem_filter.mp hp).2; simpa using this

theorem kept_kept (pairs : List (FVal α × α)) : kept (kept pairs) = kept pairs := by
  unfold kept; simp only [List.filter_filter, Bool.and_self]

theorem weightScale_pos (am : Atom → α) (ps : List (FVal α × α)) (hne : ps ≠ [])
    (hq : ∀ p ∈ ps, 0 < p.2) (hm : ∀ p ∈ ps, 0 < p.1.mass am) : 0 < weightScale am ps := by
  apply minOf_pos
  · simpa using hne
  · intro x hx
    simp only [List.mem_map] at hx
    obtain ⟨p, hp, rfl⟩ := hx
    exact div_pos (hq p hp) (hm p hp)

theorem mixByWeight_of_ne (am : Atom → α) (pairs : List (FVal α × α)) (hne : kept pairs ≠ []) :
    mixByWeight am pairs = ⟨weightStruct am (kept pairs), weightDensity am (kept pairs)⟩ := by
  unfold mixByWeight
  have : (kept pairs).isEmpty = false := by simpa using hne
  simp [this]

theorem flatMass_eq_mass (am : Atom → α) (f : FVal α) : f.s.flatMass am = f.mass am := by
  unfold FVal.mass; rw [Items.mass_eq_flat]

/-- total mass of the weighted accumulation: `Σ qᵢ / scale` -/
theorem weightStruct_mass (am : Atom → α) (ps : List (FVal α × α)) (hs : weightScale am ps ≠ 0)
    (hm : ∀ p ∈ ps, p.1.mass am ≠ 0) :
    massOf am (weightStruct am ps).atoms = (ps.map (·.2)).sum / weightScale am ps := by
  rw [Items.mass_eq_flat]
  unfold weightStruct
  rw [accumulate_flatMass]
  simp only [List.map_map]
  generalize weightScale am ps = sc at hs
  induction ps with
  | nil => simp
  | cons p r ih =>
    have hp : p.1.mass am ≠ 0 := hm p (by simp)
    rw [List.map_cons, List.sum_cons, ih (fun q hq => hm q (by simp [hq])), List.map_cons, List.sum_cons]
    simp only [Function.comp, flatMass_eq_mass]
    field_simp

/-- the mass each component contributes is `qᵢ / scale`: masses are in the ratio of the quantities -/
theorem weight_component_mass (am : Atom → α) (sc : α) (p : FVal α × α)
    (hm : p.1.mass am ≠ 0) (hs : sc ≠ 0) :
    (rmulS ((p.2 / p.1.mass am) / sc) p.1.s).flatMass am = p.2 / sc := by
  rw [flatMass_rmulS, flatMass_eq_mass]; field_simp

/-- atom counts of the mixture: `Σ (qᵢ/mᵢ)/scale · counts of componentᵢ` -/
theorem weightStruct_counts (am : Atom → α) (ps : List (FVal α × α)) (a : Atom) :
    lookupD (weightStruct am ps).atoms a =
      (ps.map fun p => p.1.s.cnt a * ((p.2 / p.1.mass am) / weightScale am ps)).sum := by
  rw [Items.atoms_lookup]
  unfold weightStruct
  rw [accumulate_cnt]
  simp only [List.map_map]; rfl

/-- density by weight when every component density is known: `Σ qᵢ / Σ (qᵢ/ρᵢ)` -/
theorem weightDensity_eq (am : Atom → α) (ps : List (FVal α × α)) (hs : weightScale am ps ≠ 0)
    (hm : ∀ p ∈ ps, p.1.mass am ≠ 0) (hd : ps.all (fun p => p.1.hasDensity) = true) :
    weightDensity am ps = some ((ps.map (·.2)).sum / (ps.map fun p => p.2 / p.1.dens).sum) := by
  unfold weightDensity
  simp only [hd, if_true, Option.some.injEq]
  rw [weightStruct_mass am ps hs hm, sumOf_eq]
  field_simp

theorem weightDensity_unknown (am : Atom → α) (ps : List (FVal α × α))
    (hd : ps.all (fun p => p.1.hasDensity) = false) : weightDensity am ps = none := by
  unfold weightDensity; simp [hd]

/-- components with zero (or negative) quantity vanish -/
theorem mixByWeight_drops_zero (am : Atom → α) (pairs : List (FVal α × α)) :
    mixByWeight am pairs = mixByWeight am (kept pairs) := by
  unfold mixByWeight; rw [kept_kept]

theorem mixByVolume_drops_zero (am : Atom → α) (pairs : List (FVal α × α)) :
    mixByVolume am pairs = mixByVolume am (kept pairs) := by
  unfold mixByVolume; rw [kept_kept]

/-! by volume -/

theorem volumeScale_pos (am : Atom → α) (ps : List (FVal α × α)) (hne : ps ≠ [])
    (hq : ∀ p ∈ ps, 0 < p.2) (hm : ∀ p ∈ ps, 0 < p.1.mass am) (hρ : ∀ p ∈ ps, 0 < p.1.dens) :
    0 < volumeScale am ps := by
  apply minOf_pos
  · simpa using hne
  · intro x hx
    simp only [List.mem_map] at hx
    obtain ⟨p, hp, rfl⟩ := hx
    exact div_pos (mul_pos (hq p hp) (hρ p hp)) (hm p hp)

theorem mixByVolume_of_ne (am : Atom → α) (pairs : List (FVal α × α)) (hne : kept pairs ≠ [])
    (hd : (kept pairs).all (fun p => p.1.hasDensity) = true) :
    mixByVolume am pairs =
      some ⟨volumeStruct am (kept pairs), some (volumeDensity am (kept pairs))⟩ := by
  unfold mixByVolume
  have : (kept pairs).isEmpty = false := by simpa using hne
  simp [this, hd]

theorem mixByVolume_needs_density (am : Atom → α) (pairs : List (FVal α × α))
    (hd : (kept pairs).all (fun p => p.1.hasDensity) = false) : mixByVolume am pairs = none := by
  unfold mixByVolume; simp [hd]

/-- the volume (mass/density) each component contributes is `qᵢ / scale` -/
theorem volume_component_volume (am : Atom → α) (sc : α) (p : FVal α × α)
    (hm : p.1.mass am ≠ 0) (hρ : p.1.dens ≠ 0) (hs : sc ≠ 0) :
    (rmulS ((p.2 * p.1.dens / p.1.mass am) / sc) p.1.s).flatMass am / p.1.dens = p.2 / sc := by
  rw [flatMass_rmulS, flatMass_eq_mass]; field_simp

/-- total mass by volume: `Σ qᵢ ρᵢ / scale` -/
theorem volumeStruct_mass (am : Atom → α) (ps : List (FVal α × α)) (hs : volumeScale am ps ≠ 0)
    (hm : ∀ p ∈ ps, p.1.mass am ≠ 0) :
    massOf am (volumeStruct am ps).atoms = (ps.map fun p => p.2 * p.1.dens).sum / volumeScale am ps := by
  rw [Items.mass_eq_flat]
  unfold volumeStruct
  rw [accumulate_flatMass]
  simp only [List.map_map]
  generalize volumeScale am ps = sc at hs
  induction ps with
  | nil => simp
  | cons p r ih =>
    have hp : p.1.mass am ≠ 0 := hm p (by simp)
    rw [List.map_cons, List.sum_cons, ih (fun q hq => hm q (by simp [hq])), List.map_cons, List.sum_cons]
    simp only [Function.comp, flatMass_eq_mass]
    field_simp

/-- density by volume: total mass over total volume, `Σ qᵢρᵢ / Σ qᵢ` -/
theorem volumeDensity_eq (am : Atom → α) (ps : List (FVal α × α)) (hs : volumeScale am ps ≠ 0)
    (hm : ∀ p ∈ ps, p.1.mass am ≠ 0) :
    volumeDensity am ps = (ps.map fun p => p.2 * p.1.dens).sum / (ps.map (·.2)).sum := by
  unfold volumeDensity
  rw [volumeStruct_mass am ps hs hm, sumOf_eq]
  field_simp

/-! invariance under rescaling a component's formula unit -/

/-- `k * f` as a formula value (same density) -/
def FVal.scaled (k : α) (f : FVal α) : FVal α := ⟨rmulS k f.s, f.density⟩

theorem FVal.scaled_mass (am : Atom → α) (k : α) (f : FVal α) : (f.scaled k).mass am = f.mass am * k := by
  unfold FVal.mass FVal.scaled
  simp only [Items.mass_eq_flat, flatMass_rmulS]

/-- what a component contributes per unit quantity, `counts / mass`, does not depend on how its
    formula unit is scaled – so mass fractions and density of the mixture do not either -/
theorem per_mass_composition_invariant (am : Atom → α) (k : α) (hk : k ≠ 0) (f : FVal α)
    (hm : f.mass am ≠ 0) (a : Atom) :
    (f.scaled k).s.cnt a / (f.scaled k).mass am = f.s.cnt a / f.mass am := by
  rw [FVal.scaled_mass]
  unfold FVal.scaled
  simp only [cnt_rmulS]
  field_simp

end Ordered
end PtModel

namespace PtModel
section Scaling
variable {α : Type} [Field α] [LinearOrder α] [IsStrictOrderedRing α]

theorem minOf_fold_mul (c : α) (hc : 0 < c) (r : List α) (m : α) :
    (r.map (c * ·)).foldl (fun m y => if y < m then y else m) (c * m)
      = c * r.foldl (fun m y => if y < m then y else m) m := by
  induction r generalizing m with
  | nil => rfl
  | cons y r ih =>
    simp only [List.map_cons, List.foldl_cons]
    by_cases h : y < m
    · have : c * y < c * m := mul_lt_mul_of_pos_left h hc
      simp only [h, this, if_true, ih]
    · have : ¬ c * y < c * m := fun h' => h (lt_of_mul_lt_mul_left h' hc.le)
      simp only [h, this, if_false, ih]

theorem minOf_map_mul (c : α) (hc : 0 < c) (l : List α) (hne : l ≠ []) :
    minOf (l.map (c * ·)) = c * minOf l := by
  cases l with
  | nil => exact absurd rfl hne
  | cons x r => simp only [List.map_cons, minOf, minOf_fold_mul c hc r x]

/-- all quantities multiplied by `c` -/
def scaleQ (c : α) (pairs : List (FVal α × α)) : List (FVal α × α) := pairs.map fun p => (p.1, c * p.2)

theorem kept_scaleQ (c : α) (hc : 0 < c) (pairs : List (FVal α × α)) :
    kept (scaleQ c pairs) = scaleQ c (kept pairs) := by
  unfold kept scaleQ
  rw [List.filter_map]
  congr 1
  apply List.filter_congr
  intro p _
  simp only [Function.comp, decide_eq_decide]
  exact ⟨fun h => by by_contra h'; exact absurd h (not_lt.mpr (mul_nonpos_of_nonneg_of_nonpos hc.le (not_lt.mp h'))),
         fun h => mul_pos hc h⟩

theorem weightScale_scaleQ (am : Atom → α) (c : α) (hc : 0 < c) (ps : List (FVal α × α)) (hne : ps ≠ []) :
    weightScale am (scaleQ c ps) = c * weightScale am ps := by
  unfold weightScale scaleQ
  rw [← minOf_map_mul c hc _ (by simpa using hne)]
  simp only [List.map_map]
  congr 1
  apply List.map_congr_left
  intro p _
  simp only [Function.comp]; ring

/-- only the *proportions* of the quantities matter: multiplying them all by `c > 0` (as the
    absolute-mass and layer forms do when they convert to percentages) changes nothing -/
theorem weightStruct_scaleQ (am : Atom → α) (c : α) (hc : 0 < c) (ps : List (FVal α × α)) (hne : ps ≠ [])
    (hs : weightScale am ps ≠ 0) :
    weightStruct am (scaleQ c ps) = weightStruct am ps := by
  unfold weightStruct
  rw [weightScale_scaleQ am c hc ps hne]
  unfold scaleQ
  simp only [List.map_map]
  congr 1
  apply List.map_congr_left
  intro p _
  simp only [Function.comp, Prod.mk.injEq, and_true]
  have := hc.ne'
  field_simp

theorem weightDensity_scaleQ (am : Atom → α) (c : α) (hc : 0 < c) (ps : List (FVal α × α)) (hne : ps ≠ [])
    (hs : weightScale am ps ≠ 0) :
    weightDensity am (scaleQ c ps) = weightDensity am ps := by
  unfold weightDensity
  rw [weightStruct_scaleQ am c hc ps hne hs, weightScale_scaleQ am c hc ps hne]
  have hall : (scaleQ c ps).all (fun p => p.1.hasDensity) = ps.all (fun p => p.1.hasDensity) := by
    unfold scaleQ; simp only [List.all_map]; rfl
  rw [hall]
  split
  · simp only [Option.some.injEq]
    congr 1
    rw [sumOf_eq, sumOf_eq]
    unfold scaleQ
    simp only [List.map_map]
    have : ∀ l : List (FVal α × α),
        (l.map ((fun p : FVal α × α => p.2 / p.1.dens) ∘ fun p => (p.1, c * p.2))).sum
          = c * (l.map fun p => p.2 / p.1.dens).sum := by
      intro l; induction l with
      | nil => simp
      | cons p r ih => simp only [List.map_cons, List.sum_cons, ih, Function.comp]; ring
    rw [this]
    have := hc.ne'
    field_simp
  · rfl

theorem mixByWeight_scaleQ (am : Atom → α) (c : α) (hc : 0 < c) (pairs : List (FVal α × α))
    (hs : weightScale am (kept pairs) ≠ 0) :
    mixByWeight am (scaleQ c pairs) = mixByWeight am pairs := by
  unfold mixByWeight
  rw [kept_scaleQ c hc]
  by_cases hne : kept pairs = []
  · simp [hne, scaleQ]
  · have h1 : (kept pairs).isEmpty = false := by simpa using hne
    have h2 : (scaleQ c (kept pairs)).isEmpty = false := by
      unfold scaleQ; simpa using hne
    simp only [h1, h2, Bool.false_eq_true, if_false]
    rw [weightStruct_scaleQ am c hc _ hne hs, weightDensity_scaleQ am c hc _ hne hs]

end Scaling
end PtModel
