import PtVerif.Proofs.Hill

/-! Refinement of the formula-object heap (`Model/FormulaOps.lean`) to the abstract
"every formula is its atom-count function" specification, for every program. -/
namespace PtModel

/-- abstract heap: each object is just its atom-count function -/
structure AHeap (α : Type) where
  objs : List (Atom → α)
  regs : List (Nat × Nat)

namespace AHeap
variable {α : Type} [Add α] [Mul α] [OfNat α 0] [OfNat α 1]

def reg (h : AHeap α) (r : Nat) : Option Nat := (h.regs.find? (·.1 = r)).map (·.2)
def obj (h : AHeap α) (r : Nat) : Option (Atom → α) := do
  let i ← h.reg r
  h.objs[i]?
def alloc (h : AHeap α) (r : Nat) (f : Atom → α) : AHeap α :=
  ⟨h.objs ++ [f], (r, h.objs.length) :: h.regs⟩

/-- the specification: counts add under `+`/`+=`, scale under `n*`, are copied by
    `formula(f)`/`.hill`, and are the given counts for `formula(seq)` / `formula(dict)` -/
def step (h : AHeap α) : Op α → Option (AHeap α)
  | .new r s => some (h.alloc r s.cnt)
  | .dict r t => some (h.alloc r (lookupD t))
  | .copy r r2 => do let f ← h.obj r2; some (h.alloc r f)
  | .same r r2 => do let i ← h.reg r2; some ⟨h.objs, (r, i) :: h.regs⟩
  | .add r r1 r2 => do
      let f1 ← h.obj r1; let f2 ← h.obj r2
      some (h.alloc r fun a => f1 a + f2 a)
  | .mul r n r1 => do let f ← h.obj r1; some (h.alloc r fun a => f a * n)
  | .iadd r1 r2 => do
      let i ← h.reg r1
      let f1 ← h.objs[i]?
      let f2 ← h.obj r2
      some ⟨h.objs.set i (fun a => f1 a + f2 a), h.regs⟩
  | .hill r r1 => do let f ← h.obj r1; some (h.alloc r f)

def run (h : AHeap α) : List (Op α) → Option (AHeap α)
  | [] => some h
  | op :: ops => (h.step op).bind fun h' => h'.run ops

end AHeap

section
variable {α : Type} [CommSemiring α] [DecidableEq α]

/-- the abstraction map -/
def Heap.abs (h : Heap α) : AHeap α := ⟨h.objs.map fun s => s.cnt, h.regs⟩

def Heap.run (sym : Nat → Nat → Nat) (h : Heap α) : List (Op α) → Option (Heap α)
  | [] => some h
  | op :: ops => (h.step sym op).bind fun h' => h'.run sym ops

/-- a `formula({atom: count})` statement passes a dict: distinct keys -/
def Op.wf : Op α → Prop
  | .dict _ t => KeysNodup t
  | _ => True

theorem Heap.abs_reg (h : Heap α) (r : Nat) : h.abs.reg r = h.reg r := rfl

theorem Heap.abs_obj (h : Heap α) (r : Nat) : h.abs.obj r = (h.obj r).map fun s => s.cnt := by
  unfold AHeap.obj Heap.obj
  rw [Heap.abs_reg]
  cases h.reg r with
  | none => rfl
  | some i => simp [Heap.abs, List.getElem?_map]

theorem Heap.abs_alloc (h : Heap α) (r : Nat) (s : Items α) :
    (h.alloc r s).abs = h.abs.alloc r s.cnt := by
  simp [Heap.abs, Heap.alloc, AHeap.alloc]

theorem hillS_cnt_fun (sym : Nat → Nat → Nat) (t : List (Atom × α)) (hk : KeysNodup t) :
    (hillS sym t).cnt = lookupD t := by
  funext a
  rw [← Items.atoms_lookup, hill_counts sym t hk]

/-- **one step of the real operations refines one step of the specification** -/
theorem Heap.step_refines (sym : Nat → Nat → Nat) (h : Heap α) (op : Op α) (hw : op.wf) :
    (h.step sym op).map Heap.abs = h.abs.step op := by
  cases op with
  | new r s => simp [Heap.step, AHeap.step, Heap.abs_alloc]
  | dict r t =>
    simp only [Heap.step, AHeap.step, Option.map_some, Heap.abs_alloc]
    rw [hillS_cnt_fun sym t hw]
  | copy r r2 =>
    simp only [Heap.step, AHeap.step, Heap.abs_obj, Option.bind_eq_bind]
    cases h.obj r2 <;> simp [Heap.abs_alloc]
  | same r r2 =>
    simp only [Heap.step, AHeap.step, Heap.abs_reg, Option.bind_eq_bind]
    cases h.reg r2 <;> simp [Heap.abs]
  | add r r1 r2 =>
    simp only [Heap.step, AHeap.step, Heap.abs_obj, Option.bind_eq_bind]
    cases h.obj r1 <;> cases h.obj r2 <;> simp [Heap.abs_alloc]
    congr 1; funext a; exact cnt_addS _ _ a
  | mul r n r1 =>
    simp only [Heap.step, AHeap.step, Heap.abs_obj, Option.bind_eq_bind]
    cases h.obj r1 <;> simp [Heap.abs_alloc]
    congr 1; funext a; exact cnt_rmulS n _ a
  | iadd r1 r2 =>
    simp only [Heap.step, AHeap.step, Heap.abs_obj, Heap.abs_reg, Option.bind_eq_bind]
    cases h.reg r1 with
    | none => simp
    | some i =>
      simp only [Option.bind_some]
      have : h.abs.objs[i]? = (h.objs[i]?).map fun s => s.cnt := by simp [Heap.abs, List.getElem?_map]
      rw [this]
      cases h.objs[i]? with
      | none => simp
      | some s1 =>
        cases h.obj r2 with
        | none => simp
        | some s2 =>
          simp only [Option.map_some, Option.bind_some, Heap.abs, List.map_set]
          congr 3; funext a; exact cnt_addS _ _ a
  | hill r r1 =>
    simp only [Heap.step, AHeap.step, Heap.abs_obj, Option.bind_eq_bind]
    cases hh : h.obj r1 with
    | none => simp
    | some s =>
      simp only [Option.bind_some, Option.map_some, Heap.abs_alloc]
      rw [hillS_cnt_fun sym s.atoms (Items.keysNodup_countAcc s (by simp [KeysNodup]))]
      congr 2; funext a; exact Items.atoms_lookup s a

/-- **every program**: running any sequence of constructions, `+`, `n*`, `+=`, aliasing and
    `.hill` on real formula structures and then reading atom counts is the same as running
    the specification on atom counts -/
theorem Heap.run_refines (sym : Nat → Nat → Nat) (ops : List (Op α)) (hw : ∀ op ∈ ops, op.wf)
    (h : Heap α) : (h.run sym ops).map Heap.abs = h.abs.run ops := by
  induction ops generalizing h with
  | nil => rfl
  | cons op ops ih =>
    simp only [Heap.run, AHeap.run]
    rw [← Heap.step_refines sym h op (hw op (by simp))]
    cases h.step sym op with
    | none => rfl
    | some h' =>
      simp only [Option.bind_some, Option.map_some]
      exact ih (fun o ho => hw o (by simp [ho])) h'

end
end PtModel
