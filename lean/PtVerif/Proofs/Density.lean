import PtVerif.Model.Density
import PtVerif.Proofs.Formula
import Mathlib.Tactic.Linarith

/-! Lemmas for C12: natural mass ratio, density routes, isotope substitution. -/
namespace PtModel

section Field
variable {α : Type} [Field α]

theorem ratio_fold (am : Atom → α) (t : List (Atom × α)) (s : α × α) :
    t.foldl (fun (s : α × α) e => (s.1 + e.2 * am (naturalAtom e.1), s.2 + e.2 * am e.1)) s
      = (s.1 + wsum (fun a => am (naturalAtom a)) t, s.2 + wsum am t) := by
  induction t generalizing s with
  | nil => simp [wsum]
  | cons e r ih =>
    simp only [List.foldl_cons, ih, wsum, List.map_cons, List.sum_cons]
    ext <;> simp <;> ring

/-- the ratio is (mass with every isotope replaced by its natural element) / (actual mass) -/
theorem naturalMassRatio_eq (am : Atom → α) (t : List (Atom × α)) :
    naturalMassRatio am t = massOf (fun a => am (naturalAtom a)) t / massOf am t := by
  unfold naturalMassRatio
  rw [ratio_fold, massOf_eq_wsum, massOf_eq_wsum]; simp

theorem get_set_natural (am : Atom → α) (t : List (Atom × α)) (nd : α)
    (h : naturalMassRatio am t ≠ 0) :
    getNaturalDensity am t (setNaturalDensity am t nd) = nd := by
  unfold getNaturalDensity setNaturalDensity; field_simp

theorem set_get_natural (am : Atom → α) (t : List (Atom × α)) (d : α)
    (h : naturalMassRatio am t ≠ 0) :
    setNaturalDensity am t (getNaturalDensity am t d) = d := by
  unfold getNaturalDensity setNaturalDensity; field_simp

end Field

/-! ### dict updates -/
section Dict
variable {α : Type}

theorem hasKey_iff (t : List (Atom × α)) (a : Atom) : hasKey t a = true ↔ a ∈ t.map Prod.fst := by
  unfold hasKey
  induction t with
  | nil => simp
  | cons e r ih =>
    simp only [List.any_cons, Bool.or_eq_true, decide_eq_true_eq, ih, List.map_cons, List.mem_cons]
    constructor
    · rintro (h | h)
      · exact Or.inl h.symm
      · exact Or.inr h
    · rintro (h | h)
      · exact Or.inl h.symm
      · exact Or.inr h

theorem map_set_noop (r : List (Atom × α)) (a : Atom) (v : α) (hr : a ∉ r.map Prod.fst) :
    r.map (fun e => if e.1 = a then (e.1, v) else e) = r := by
  induction r with
  | nil => rfl
  | cons e r ih =>
    simp only [List.map_cons, List.mem_cons, not_or] at hr
    have : ¬ e.1 = a := fun x => hr.1 x.symm
    simp only [List.map_cons, this, if_false, ih hr.2]

theorem keys_setKey_mem (t : List (Atom × α)) (a : Atom) (v : α) (h : hasKey t a = true) :
    (setKey t a v).map Prod.fst = t.map Prod.fst := by
  unfold setKey
  simp only [h, if_true, List.map_map]
  apply List.map_congr_left
  intro e _
  by_cases he : e.1 = a <;> simp [he]

theorem KeysNodup.setKey {t : List (Atom × α)} (h : KeysNodup t) (a : Atom) (v : α) :
    KeysNodup (PtModel.setKey t a v) := by
  unfold KeysNodup at *
  by_cases hk : hasKey t a = true
  · rw [keys_setKey_mem t a v hk]; exact h
  · have hk' : hasKey t a = false := by simpa using hk
    simp only [PtModel.setKey, hk', Bool.false_eq_true, if_false, List.map_append, List.map_cons,
      List.map_nil]
    rw [List.nodup_append]
    refine ⟨h, by simp, ?_⟩
    intro x hx y hy
    simp at hy; subst hy
    intro e; subst e
    exact hk ((hasKey_iff t x).mpr hx)

theorem KeysNodup.eraseKey {t : List (Atom × α)} (h : KeysNodup t) (a : Atom) :
    KeysNodup (PtModel.eraseKey t a) := by
  unfold KeysNodup PtModel.eraseKey at *
  exact (List.Nodup.sublist (List.Sublist.map _ List.filter_sublist) h)

variable [CommRing α]

theorem lookupD_of_not_mem (t : List (Atom × α)) (a : Atom) (h : a ∉ t.map Prod.fst) :
    lookupD t a = 0 := by
  induction t with
  | nil => rfl
  | cons e r ih =>
    simp only [List.map_cons, List.mem_cons, not_or] at h
    have : ¬ e.1 = a := fun x => h.1 x.symm
    simp [lookupD, this, ih h.2]

theorem lookupD_setKey (t : List (Atom × α)) (a : Atom) (v : α) (b : Atom) :
    lookupD (setKey t a v) b = if a = b then v else lookupD t b := by
  unfold setKey
  by_cases hk : hasKey t a = true
  · simp only [hk, if_true]
    have hm := (hasKey_iff t a).mp hk
    clear hk
    induction t with
    | nil => simp at hm
    | cons e r ih =>
      obtain ⟨k, y⟩ := e
      by_cases he : k = a
      · subst he
        by_cases hab : k = b
        · subst hab; simp [lookupD]
        · simp only [List.map_cons, if_true, lookupD, hab, if_false]
          by_cases hr : k ∈ r.map Prod.fst
          · have := ih hr; simp only [hab, if_false] at this; exact this
          · rw [map_set_noop r k v hr]
      · simp only [List.map_cons, List.mem_cons] at hm
        have hr : a ∈ r.map Prod.fst := by
          rcases hm with h | h
          · exact absurd h.symm he
          · exact h
        simp only [List.map_cons, he, if_false, lookupD]
        by_cases heb : k = b
        · subst heb
          have : ¬ a = k := fun x => he x.symm
          simp [this]
        · simp only [heb, if_false]; exact ih hr
  · have hk' : hasKey t a = false := by simpa using hk
    simp only [hk', Bool.false_eq_true, if_false]
    have hnm : a ∉ t.map Prod.fst := fun x => hk ((hasKey_iff t a).mpr x)
    clear hk hk'
    induction t with
    | nil => by_cases hab : a = b <;> simp [lookupD, hab]
    | cons e r ih =>
      obtain ⟨k, y⟩ := e
      simp only [List.map_cons, List.mem_cons, not_or] at hnm
      have hea : ¬ k = a := fun x => hnm.1 x.symm
      simp only [List.cons_append, lookupD]
      by_cases heb : k = b
      · subst heb
        have : ¬ a = k := hnm.1
        simp [this]
      · simp only [heb, if_false]; exact ih hnm.2

theorem lookupD_eraseKey (t : List (Atom × α)) (a b : Atom) :
    lookupD (eraseKey t a) b = if a = b then 0 else lookupD t b := by
  unfold eraseKey
  induction t with
  | nil => simp [lookupD]
  | cons e r ih =>
    by_cases hea : e.1 = a
    · simp only [List.filter_cons, hea, ne_eq, not_true_eq_false, decide_false, Bool.false_eq_true,
        if_false, ih, lookupD]
      by_cases hab : a = b <;> simp [hab]
    · have : decide (e.1 ≠ a) = true := by simpa using hea
      simp only [List.filter_cons, this, if_true, lookupD, ih]
      by_cases heb : e.1 = b
      · have : ¬ a = b := fun x => hea (x ▸ heb)
        simp [heb, this]
      · simp [heb]

theorem wsum_setKey (w : Atom → α) (t : List (Atom × α)) (hn : KeysNodup t) (a : Atom) (v : α) :
    wsum w (setKey t a v) = wsum w t - w a * lookupD t a + w a * v := by
  unfold setKey
  by_cases hk : hasKey t a = true
  · simp only [hk, if_true]
    have hm := (hasKey_iff t a).mp hk
    clear hk
    induction t with
    | nil => simp at hm
    | cons e r ih =>
      unfold KeysNodup at hn
      simp only [List.map_cons, List.nodup_cons] at hn
      by_cases he : e.1 = a
      · have hr : a ∉ r.map Prod.fst := he ▸ hn.1
        have hmap := map_set_noop r a v hr
        simp only [List.map_cons, he, if_true, hmap, wsum, List.sum_cons, lookupD]
        ring
      · simp only [List.map_cons, List.mem_cons] at hm
        have hr : a ∈ r.map Prod.fst := by
          rcases hm with h | h
          · exact absurd h.symm he
          · exact h
        have := ih hn.2 hr
        simp only [wsum, List.map_cons, List.sum_cons, he, if_false, lookupD] at this ⊢
        rw [this]; ring
  · have hk' : hasKey t a = false := by simpa using hk
    have hnm : a ∉ t.map Prod.fst := fun x => hk ((hasKey_iff t a).mpr x)
    simp only [hk', Bool.false_eq_true, if_false, wsum, List.map_append, List.sum_append,
      List.map_cons, List.map_nil, List.sum_cons, List.sum_nil, lookupD_of_not_mem t a hnm]
    ring

theorem wsum_eraseKey (w : Atom → α) (t : List (Atom × α)) (hn : KeysNodup t) (a : Atom) :
    wsum w (eraseKey t a) = wsum w t - w a * lookupD t a := by
  unfold eraseKey
  induction t with
  | nil => simp [wsum, lookupD]
  | cons e r ih =>
    unfold KeysNodup at hn
    simp only [List.map_cons, List.nodup_cons] at hn
    by_cases he : e.1 = a
    · have hr : a ∉ r.map Prod.fst := he ▸ hn.1
      have hf : r.filter (fun e => decide (e.1 ≠ a)) = r := by
        apply List.filter_eq_self.mpr
        intro e' he'
        have : ¬ e'.1 = a := fun x => hr (List.mem_map.mpr ⟨e', he', x⟩)
        simpa using this
      simp only [List.filter_cons, he, ne_eq, not_true_eq_false, decide_false, Bool.false_eq_true,
        if_false, hf, wsum, List.map_cons, List.sum_cons, lookupD, if_true]
      ring
    · have hd : decide (e.1 ≠ a) = true := by simpa using he
      have := ih hn.2
      simp only [List.filter_cons, hd, if_true, wsum, List.map_cons, List.sum_cons, lookupD, he,
        if_false] at this ⊢
      rw [this]; ring

end Dict

/-! ### isotope substitution -/
section Subst
variable {α : Type} [Field α] [DecidableEq α]

/-- counts after `replace(source, target, portion)` -/
theorem substitute_counts (am : Atom → α) (t : List (Atom × α)) (d : Option α)
    (src tgt : Atom) (p : α) (hs : hasKey t src = true) (hne : src ≠ tgt) (b : Atom) :
    lookupD (substitute am t d src tgt p).1 b =
      if b = src then lookupD t src * (1 - p)
      else if b = tgt then lookupD t tgt + lookupD t src * p
      else lookupD t b := by
  unfold substitute
  simp only [hs, if_true]
  by_cases hp : p = 1
  · subst hp
    simp only [beq_self_eq_true, if_true, lookupD_eraseKey, lookupD_setKey]
    by_cases h1 : b = src
    · subst h1; simp
    · have h1' : ¬ src = b := fun x => h1 x.symm
      by_cases h2 : b = tgt
      · subst h2; simp [h1, h1']
      · have h2' : ¬ tgt = b := fun x => h2 x.symm
        simp [h1, h1', h2, h2']
  · have hp' : (p == 1) = false := by simpa using hp
    simp only [hp', Bool.false_eq_true, if_false, lookupD_setKey]
    by_cases h1 : b = src
    · subst h1
      have : ¬ tgt = b := fun x => hne x.symm
      simp [this]
    · have h1' : ¬ src = b := fun x => h1 x.symm
      by_cases h2 : b = tgt
      · subst h2; simp [h1, h1']
      · have h2' : ¬ tgt = b := fun x => h2 x.symm
        simp [h1, h1', h2, h2']

/-- mass after substitution: `M - n_s p (m_s - m_t)` -/
theorem substitute_mass (am : Atom → α) (t : List (Atom × α)) (hn : KeysNodup t) (d : Option α)
    (src tgt : Atom) (p : α) (hs : hasKey t src = true) (hne : src ≠ tgt) :
    massOf am (substitute am t d src tgt p).1 =
      massOf am t - lookupD t src * p * (am src - am tgt) := by
  unfold substitute
  simp only [hs, if_true, massOf_eq_wsum]
  have hts : ¬ tgt = src := fun x => hne x.symm
  by_cases hp : p = 1
  · subst hp
    simp only [beq_self_eq_true, if_true]
    rw [wsum_eraseKey am _ (hn.setKey _ _), wsum_setKey am t hn, lookupD_setKey]
    simp only [hts, if_false]; ring
  · have hp' : (p == 1) = false := by simpa using hp
    simp only [hp', Bool.false_eq_true, if_false]
    rw [wsum_setKey am _ (hn.setKey _ _), wsum_setKey am t hn, lookupD_setKey]
    simp only [hts, if_false]; ring

/-- the density scales with the mass: the cell volume `M/ρ` is unchanged -/
theorem substitute_density (am : Atom → α) (t : List (Atom × α)) (hn : KeysNodup t) (ρ : α)
    (src tgt : Atom) (p : α) (hs : hasKey t src = true) (hne : src ≠ tgt) (hM : massOf am t ≠ 0) :
    (substitute am t (some ρ) src tgt p).2 =
      some (ρ * massOf am (substitute am t (some ρ) src tgt p).1 / massOf am t) := by
  rw [substitute_mass am t hn _ src tgt p hs hne]
  unfold substitute
  simp only [hs, if_true, Option.map_some]

theorem substitute_unknown (am : Atom → α) (t : List (Atom × α)) (src tgt : Atom) (p : α) :
    (substitute am t none src tgt p).2 = none := by
  unfold substitute
  split <;> rfl

theorem substitute_absent (am : Atom → α) (t : List (Atom × α)) (d : Option α) (src tgt : Atom) (p : α)
    (hs : hasKey t src = false) : substitute am t d src tgt p = (t, d) := by
  unfold substitute; simp [hs]

end Subst
end PtModel
