import PtVerif.Proofs.GrammarLex
/-!
# Every atom of an accepted formula is defined in the table (C01, for *all* strings)

By induction over the parser: an atom enters the result only through `convertElement`, which
checks the isotope against the entry's isotope list and the charge against its ion list, for an
entry that `table.symbol` served.
-/
namespace PtModel.Grammar
open PtModel

/-- the atom is one the table defines: an entry of the table with that `Z`; the mass number is
    the one the entry itself names (0 for an element, 2/3 for D/T) or one of its isotopes; the
    charge is 0 or one of its ions -/
def Defined (T : Table) (x : Atom) : Prop :=
  ∃ e ∈ T, e.z = x.z ∧ (x.a = e.alias ∨ (e.alias = 0 ∧ x.a ∈ e.isos)) ∧ (x.q = 0 ∨ x.q ∈ e.ions)

mutual
def AllAtomsF (P : Atom → Prop) : Frag Cnt → Prop
  | .atom x => P x
  | .group g => AllAtoms P g
/-- every atom at every depth satisfies `P` -/
def AllAtoms (P : Atom → Prop) : Items Cnt → Prop
  | .nil => True
  | .cons _ f r => AllAtomsF P f ∧ AllAtoms P r
end

theorem AllAtoms.append {P : Atom → Prop} : ∀ {s t : Items Cnt}, AllAtoms P s → AllAtoms P t →
    AllAtoms P (s.append t)
  | .nil, _, _, ht => ht
  | .cons c f r, t, hs, ht => by
    simp only [AllAtoms] at hs
    simp only [Items.append, AllAtoms]
    exact ⟨hs.1, AllAtoms.append hs.2 ht⟩

theorem AllAtoms.wrap {P : Atom → Prop} (c : Cnt) {s : Items Cnt} (h : AllAtoms P s) :
    AllAtoms P (wrap c s) := by
  unfold Grammar.wrap
  split
  · exact h
  · simp only [AllAtoms, AllAtomsF]; exact ⟨h, trivial⟩

theorem lookup_mem {T : Table} {s : List Char} {e : Entry} (h : T.lookup s = some e) : e ∈ T :=
  List.mem_of_find?_eq_some h

theorem pSymbol_mem {T : Table} {s : List Char} {e : Entry} {r : List Char}
    (h : pSymbol T s = .ok (e, r)) : e ∈ T := by
  unfold pSymbol at h
  split at h
  · simp at h
  · split at h
    · split at h
      · split at h
        · split at h
          · rename_i e' hl; simp at h; rw [← h.1]; exact lookup_mem hl
          · simp at h
        · split at h
          · rename_i e' hl; simp at h; rw [← h.1]; exact lookup_mem hl
          · simp at h
      · split at h
        · rename_i e' hl; simp at h; rw [← h.1]; exact lookup_mem hl
        · simp at h
    · simp at h

theorem convertElement_defined {T : Table} {e : Entry} (he : e ∈ T) {i : Nat} {q : Int} {x : Atom}
    (h : convertElement e i q = .ok x) : Defined T x := by
  unfold convertElement at h
  split at h
  · rename_i hi
    split at h
    · simp at h
    · rename_i hal
      split at h
      · rename_i hmem
        split at h
        · simp at h
        · rename_i hq
          simp at h; subst h
          refine ⟨e, he, rfl, Or.inr ⟨by simpa using hal, hmem⟩, ?_⟩
          simp only
          by_cases h0 : q = 0
          · exact Or.inl h0
          · exact Or.inr (Classical.byContradiction (fun hn => hq ⟨h0, hn⟩))
      · simp at h
  · split at h
    · simp at h
    · rename_i hq
      simp at h; subst h
      refine ⟨e, he, rfl, Or.inl rfl, ?_⟩
      simp only
      by_cases h0 : q = 0
      · exact Or.inl h0
      · exact Or.inr (Classical.byContradiction (fun hn => hq ⟨h0, hn⟩))

theorem pElement_defined {T : Table} {s : List Char} {c : Cnt} {x : Atom} {r : List Char}
    (h : pElement T s = .ok ((c, x), r)) : Defined T x := by
  unfold pElement at h
  split at h
  · simp at h
  · rename_i e r1 hs
    split at h
    · simp at h
    · split at h
      · simp at h
      · rename_i a hv
        simp at h
        rw [← h.1.2]
        exact convertElement_defined (pSymbol_mem hs) hv

theorem pElements_defined {T : Table} : ∀ (n : Nat) {s : List Char} {fs : Items Cnt} {r : List Char},
    pElements T n s = .ok (fs, r) → AllAtoms (Defined T) fs
  | 0, s, fs, r, h => by simp [pElements] at h; rw [← h.1]; trivial
  | n + 1, s, fs, r, h => by
    rw [pElements] at h
    split at h
    · rename_i c a r1 he
      split at h
      · rename_i fs' r' hr
        simp at h; rw [← h.1]
        simp only [AllAtoms, AllAtomsF]
        exact ⟨pElement_defined he, pElements_defined n hr⟩
      · simp at h
    · simp at h; rw [← h.1]; trivial
    · simp at h

theorem pImplicit_defined {T : Table} {n : Nat} {s : List Char} {fs : Items Cnt} {r : List Char}
    (h : pImplicit T n s = .ok (fs, r)) : AllAtoms (Defined T) fs := by
  unfold pImplicit at h
  split at h
  · simp at h
  · split at h
    · simp at h
    · rename_i fs' r' he
      split at h
      · simp at h
      · simp at h; rw [← h.1]
        exact (pElements_defined n he).wrap _

theorem group_defined (T : Table) : ∀ (n : Nat),
    (∀ {s : List Char} {fs : Items Cnt} {r : List Char}, pGroup T n s = .ok (fs, r) → AllAtoms (Defined T) fs) ∧
    (∀ {s : List Char} {fs : Items Cnt} {r : List Char}, pComposite T n s = .ok (fs, r) → AllAtoms (Defined T) fs) ∧
    (∀ {s : List Char} {fs : Items Cnt} {r : List Char}, pMore T n s = .ok (fs, r) → AllAtoms (Defined T) fs)
  | 0 => by
    refine ⟨?_, ?_, ?_⟩
    · intro s fs r h; simp [pGroup] at h
    · intro s fs r h; simp [pComposite] at h
    · intro s fs r h; simp [pMore] at h; rw [← h.1]; trivial
  | n + 1 => by
    obtain ⟨ihG, ihC, ihM⟩ := group_defined T n
    refine ⟨?_, ?_, ?_⟩
    · intro s fs r h
      rw [pGroup] at h
      split at h
      · rename_i x hx
        simp at h; subst h
        exact pImplicit_defined hx
      · simp at h
      · split at h
        · simp at h
        · split at h
          · simp at h
          · rename_i fs' r2 hc
            split at h
            · simp at h
            · split at h
              · simp at h
              · simp at h; rw [← h.1]
                exact (ihC hc).wrap _
    · intro s fs r h
      rw [pComposite] at h
      split at h
      · simp at h
      · rename_i g r1 hg
        split at h
        · simp at h
        · rename_i gs r2 hm
          simp at h; rw [← h.1]
          exact (ihG hg).append (ihM hm)
    · intro s fs r h
      rw [pMore] at h
      split at h
      · rename_i g r1 hg
        split at h
        · simp at h
        · rename_i gs r2 hm
          simp at h; rw [← h.1]
          exact (ihG hg).append (ihM hm)
      · simp at h; rw [← h.1]; trivial
      · simp at h

/-- **every atom of an accepted formula is defined in the table** – for every table and every string -/
theorem parse_defined (T : Table) (s : List Char) (fs : Items Cnt) (d : Option Dens)
    (h : parse T s = .ok (fs, d)) : AllAtoms (Defined T) fs := by
  unfold parse at h
  split at h
  · rename_i fs' r hc
    split at h
    · split at h
      · simp at h; rw [← h.1]
        exact (group_defined T _).2.1 hc
      · simp at h
    · simp at h
  · split at h
    · simp at h; rw [← h.1]; trivial
    · simp at h
  · simp at h

end PtModel.Grammar
