import PtVerif.Model.GrammarSpec
import PtVerif.Proofs.Formula
import Mathlib.Algebra.Order.Field.Rat
/-!
# What a derivation denotes is the documented reading of its composition

`Items.cnt` (Model/Formula.lean: "a count multiplies its group, repeated atoms add", proved equal
to `Formula.atoms` in C02) of the structure a derivation denotes equals `den`, the reading written
directly on the derivation.  Counts are compared as rationals.
-/
namespace PtModel.Grammar
open PtModel

mutual
def ratFrag : Frag Cnt → Frag ℚ
  | .atom x => .atom x
  | .group g => .group (ratItems g)
/-- the structure with every exact decimal count as a rational -/
def ratItems : Items Cnt → Items ℚ
  | .nil => .nil
  | .cons c f r => .cons c.toRat (ratFrag f) (ratItems r)
end

theorem ratItems_append : ∀ (s t : Items Cnt), ratItems (s.append t) = (ratItems s).append (ratItems t)
  | .nil, t => by simp [Items.append, ratItems]
  | .cons c f r, t => by simp [Items.append, ratItems, ratItems_append r t]

theorem toRat_isOne (c : Cnt) (h : c.isOne = true) : c.toRat = 1 := by
  unfold Cnt.isOne at h
  have h' : c.num = 10 ^ c.dec := by simpa using h
  unfold Cnt.toRat
  rw [h']
  have : ((10 ^ c.dec : ℕ) : ℚ) ≠ 0 := by
    have h0 : (10 ^ c.dec : ℕ) ≠ 0 := Nat.pos_iff_ne_zero.1 (Nat.pow_pos (by omega))
    exact_mod_cast h0
  exact div_self this

theorem cnt_wrap (c : Cnt) (fs : Items Cnt) (a : Atom) :
    (ratItems (wrap c fs)).cnt a = (ratItems fs).cnt a * c.toRat := by
  unfold wrap
  split
  · rename_i h; rw [toRat_isOne c h]; ring
  · simp [ratItems, ratFrag, Items.cnt, Frag.cnt]

theorem elems_den (T : Table) (a : Atom) : ∀ (els : List Elem) (fs : Items Cnt),
    elemsItems T els = some fs → (ratItems fs).cnt a = elemsDen T a els
  | [], fs, h => by
    simp [elemsItems] at h; subst h
    simp [ratItems, Items.cnt, elemsDen]
  | e :: r, fs, h => by
    simp only [elemsItems] at h
    split at h
    · rename_i x gs hx hg
      simp at h; subst h
      have ih := elems_den T a r gs hg
      simp only [ratItems, ratFrag, Items.cnt, Frag.cnt, elemsDen, hx, ih]
      by_cases hxa : x = a
      · simp [hxa]
      · have : ¬ (some x = some a) := by intro e; exact hxa (Option.some.inj e)
        simp [hxa, this]
    · simp at h

mutual
theorem group_den (T : Table) (a : Atom) : (g : Group) → (fs : Items Cnt) → g.items T = some fs →
    (ratItems fs).cnt a = g.den T a
  | .implicit lead els, fs, h => by
    simp only [Group.items] at h
    split at h
    · rename_i gs hg
      simp at h; subst h
      rw [cnt_wrap, elems_den T a els gs hg]
      simp [Group.den]
    · simp at h
  | .explicit _ _ inner _ _ cnt, fs, h => by
    simp only [Group.items] at h
    split at h
    · rename_i gs hg
      simp at h; subst h
      rw [cnt_wrap, comp_den T a inner gs hg]
      simp [Group.den]
    · simp at h
theorem comp_den (T : Table) (a : Atom) : (d : Comp) → (fs : Items Cnt) → d.items T = some fs →
    (ratItems fs).cnt a = d.den T a
  | .one g, fs, h => by
    simp only [Comp.items] at h
    simpa [Comp.den] using group_den T a g fs h
  | .more g _ rest, fs, h => by
    simp only [Comp.items] at h
    split at h
    · rename_i x y hx hy
      simp at h; subst h
      rw [ratItems_append, Items.cnt_append, group_den T a g x hx, comp_den T a rest y hy]
      simp [Comp.den]
    · simp at h
end

end PtModel.Grammar
