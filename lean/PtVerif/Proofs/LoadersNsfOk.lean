import PtVerif.Proofs.LoadersNsf
/-!
# `nsf.init` runs to completion on well-formed tables (core Lean only)

`Nsf.loadOk` collects the conditions under which the real loader does not raise (assertions of
the two gap fills, `-None`, `KeyError` for isotopes that do not exist, unpacking `None`).  Here
they are derived from facts about the rows, so that for the embedded table they reduce to
kernel-checked data facts.
-/
set_option linter.unusedSectionVars false
namespace PtLoad

section
variable {α : Type} [Add α] [Sub α] [Mul α] [Div α] [Neg α] [OfNat α 0] [NatCast α] [IntCast α]
  [Transc α]

/-! ## which isotopes exist after the main pass -/

theorem nsfStep_isotopes (lam0 : α) (nd : Nat → Option α) (st : NsfState α) (r : NsfRow) :
    (nsfStep lam0 nd st r).isotopes = if r.a = 0 then st.isotopes else (r.z, r.a) :: st.isotopes := by
  unfold nsfStep; split <;> rfl

theorem fold_isotopes_mem (lam0 : α) (nd : Nat → Option α) (rows : List NsfRow) (st : NsfState α)
    (k : Nat × Nat) (h : ∃ r ∈ rows, r.a ≠ 0 ∧ nsfKeyOf r = k) :
    k ∈ (rows.foldl (nsfStep lam0 nd) st).isotopes := by
  have mono : ∀ (rows : List NsfRow) (st : NsfState α), k ∈ st.isotopes →
      k ∈ (rows.foldl (nsfStep lam0 nd) st).isotopes := by
    intro rows
    induction rows with
    | nil => intro st h; exact h
    | cons x rows ih =>
      intro st h
      rw [List.foldl_cons]
      apply ih
      rw [nsfStep_isotopes]
      split
      · exact h
      · exact List.mem_cons_of_mem _ h
  induction rows generalizing st with
  | nil => obtain ⟨r, hr, _⟩ := h; cases hr
  | cons x rows ih =>
    rw [List.foldl_cons]
    obtain ⟨r, hr, ha, hk⟩ := h
    rcases List.mem_cons.mp hr with rfl | hr'
    · apply mono
      rw [nsfStep_isotopes, if_neg ha]
      rw [← hk]; exact List.mem_cons_self
    · exact ih _ ⟨r, hr', ha, hk⟩

/-- later passes do not create or remove isotopes -/
theorem modify_isotopes (st : NsfState α) (i : Nat) (f : NRec α → NRec α) :
    (st.modify i f).isotopes = st.isotopes := rfl

theorem gapFill_isotopes (st : NsfState α) : (gapFill st).isotopes = st.isotopes := rfl

theorem ifold_isotopes (l : List NsfIRow) (st : NsfState α) : (l.foldl nsfIStep st).isotopes = st.isotopes := by
  induction l generalizing st with
  | nil => rfl
  | cons x l ih => rw [List.foldl_cons, ih]; rfl

theorem edStep_isotopes (zOf : Nat → Option Nat) (ef : α) (st : NsfState α) (e : EDTable) :
    (edStep zOf ef st e).isotopes = st.isotopes := by
  unfold edStep; split <;> rfl

theorem efold_isotopes (zOf : Nat → Option Nat) (ef : α) (l : List EDTable) (st : NsfState α) :
    (l.foldl (edStep zOf ef) st).isotopes = st.isotopes := by
  induction l generalizing st with
  | nil => rfl
  | cons x l ih => rw [List.foldl_cons, ih, edStep_isotopes]

theorem hasIso_of_mem (env : NsfEnv α) (st : NsfState α) (z a : Nat) (h : (z, a) ∈ st.isotopes) :
    st.hasIso env z a = true := by
  unfold NsfState.hasIso
  simp only [Bool.or_eq_true, List.contains_eq_mem, decide_eq_true_eq]
  right; exact h

/-! ## readings -/

theorem Unc.val_isSome_of_ne_missing (u : Unc) (h : u ≠ .missing) : (u.val (α := α)).isSome = true := by
  cases u <;> simp_all [Unc.val]

theorem Unc.val_missing : (Unc.missing.val (α := α)) = none := rfl

/-! ## the passes before natural Lu -/

/-- the state `luMix` is applied to -/
def Nsf.beforeLu (env : NsfEnv α) (t : NsfTables) : NsfState α :=
  t.ed.foldl (edStep env.zOf env.ef) (t.irows.foldl nsfIStep (gapFill (Nsf.mainPass env t)))

theorem beforeLu_benign (env : NsfEnv α) (t : NsfTables) :
    Benign (fun st : NsfState α => t.ed.foldl (edStep env.zOf env.ef) (t.irows.foldl nsfIStep (gapFill st))) :=
  Benign.comp (Benign.comp gapFill_benign (Benign.foldl _ nsfIStep_benign _))
    (Benign.foldl _ (edStep_benign env.zOf env.ef) _)

theorem beforeLu_isotopes (env : NsfEnv α) (t : NsfTables) :
    (Nsf.beforeLu env t).isotopes = (Nsf.mainPass env t).isotopes := by
  unfold Nsf.beforeLu
  rw [efold_isotopes, ifold_isotopes, gapFill_isotopes]

theorem mainPass_hasIso (env : NsfEnv α) (t : NsfTables) (z a : Nat)
    (h : ∃ r ∈ t.rows, r.a ≠ 0 ∧ nsfKeyOf r = (z, a)) : (Nsf.mainPass env t).hasIso env z a = true :=
  hasIso_of_mem env _ z a (fold_isotopes_mem _ _ _ _ _ h)

/-- the facts about a table from which `Nsf.loadOk` follows -/
structure WellFormed (env : NsfEnv α) (t : NsfTables) : Prop where
  rows : nsfRowsOk env t.rows = true
  sym54 : (env.symOf 54).isSome = true
  sym63 : (env.symOf 63).isSome = true
  sym71 : (env.symOf 71).isSome = true
  /-- the Xe element row: no total, coherent and incoherent present -/
  xe : ∃ j r, t.rows[j]? = some r ∧ (ptrs t.rows).elId 54 = j + 1 ∧ r.tot = .missing ∧ r.coh ≠ .missing
        ∧ r.inc ≠ .missing
  /-- the Eu-151 row: no b_c, coherent present -/
  eu : ∃ j r, t.rows[j]? = some r ∧ (ptrs t.rows).isoId 63 151 = j + 1 ∧ r.a ≠ 0 ∧ nsfKeyOf r = (63, 151)
        ∧ r.b_c = .missing ∧ r.coh ≠ .missing
  /-- imaginary rows name existing elements, and isotopes that have rows -/
  irows : ∀ x ∈ t.irows, (env.symOf x.z).isSome = true ∧
            (x.a = 0 ∨ ∃ r ∈ t.rows, r.a ≠ 0 ∧ nsfKeyOf r = (x.z, x.a))
  /-- energy-dependent tables name existing elements, and isotopes that have rows -/
  ed : ∀ e ∈ t.ed, ∃ z, env.zOf e.sym = some z ∧ (e.a = 0 ∨ ∃ r ∈ t.rows, r.a ≠ 0 ∧ nsfKeyOf r = (z, e.a))
  /-- Lu-175 and Lu-176 have rows and mass-table abundances, Lu-176 has a table -/
  lu175 : ∃ j r, t.rows[j]? = some r ∧ (ptrs t.rows).isoId 71 175 = j + 1 ∧ r.a ≠ 0 ∧ nsfKeyOf r = (71, 175)
  lu176 : ∃ r ∈ t.rows, r.a ≠ 0 ∧ nsfKeyOf r = (71, 176)
  lu176tbl : ∃ pre e post, t.ed = pre ++ e :: post
      ∧ etarget env.zOf (ptrs t.rows) e = some ((ptrs t.rows).isoId 71 176)
      ∧ ∀ y ∈ post, etarget env.zOf (ptrs t.rows) y ≠ some ((ptrs t.rows).isoId 71 176)
  ab : env.ab175.isSome = true ∧ env.ab176.isSome = true

theorem loadOk_eq (env : NsfEnv α) (t : NsfTables) :
    Nsf.loadOk env t =
      (nsfRowsOk env t.rows && gapFillOk env (Nsf.mainPass env t)
        && nsfIRowsOk env (gapFill (Nsf.mainPass env t)) t.irows
        && edOk env (t.irows.foldl nsfIStep (gapFill (Nsf.mainPass env t))) t.ed
        && luOk env (Nsf.beforeLu env t) && ((Nsf.beforeLu env t).isoNeutron 71 175).bcc.isSome
        && ((Nsf.beforeLu env t).isoNeutron 71 176).table.isSome) := rfl

/-- **`nsf.init` does not raise** on a well-formed table -/
theorem loadOk_of_wellFormed (env : NsfEnv α) (t : NsfTables) (w : WellFormed env t) :
    Nsf.loadOk env t = true := by
  rw [loadOk_eq]
  simp only [Bool.and_eq_true]
  obtain ⟨jx, rx, hjx, hidx, hxt, hxc, hxi⟩ := w.xe
  obtain ⟨je, re, hje, hide, hea, hek, heb, hec⟩ := w.eu
  obtain ⟨jl, rl, hjl, hidl, hla, hlk⟩ := w.lu175
  have hmainIso : ∀ z a, (∃ r ∈ t.rows, r.a ≠ 0 ∧ nsfKeyOf r = (z, a)) →
      ∀ st : NsfState α, st.isotopes = (Nsf.mainPass env t).isotopes → st.hasIso env z a = true := by
    intro z a h st hst
    apply hasIso_of_mem
    rw [hst]
    exact fold_isotopes_mem _ _ _ _ _ h
  refine ⟨⟨⟨⟨⟨⟨w.rows, ?_⟩, ?_⟩, ?_⟩, ?_⟩, ?_⟩, ?_⟩
  · -- gapFillOk
    unfold gapFillOk
    simp only [Bool.and_eq_true]
    have hx : (Nsf.mainPass env t).elNeutron 54 = recOf env.lam0 env.nd rx := by
      unfold NsfState.elNeutron
      rw [mainPass_elId, hidx, mainPass_getRec env t jx rx hjx]
    have he : (Nsf.mainPass env t).isoNeutron 63 151 = recOf env.lam0 env.nd re := by
      unfold NsfState.isoNeutron
      rw [mainPass_isoId, hide, mainPass_getRec env t je re hje]
    rw [hx, he]
    have hrx : ∀ r : NsfRow, (recOf env.lam0 env.nd r).total = r.tot.val ∧ (recOf env.lam0 env.nd r).coherent = r.coh.val
        ∧ (recOf env.lam0 env.nd r).incoherent = r.inc.val ∧ (recOf env.lam0 env.nd r).b_c = r.b_c.val := by
      intro r; unfold recOf rowRec; split <;> simp
    refine ⟨⟨⟨⟨⟨⟨⟨w.sym54, ?_⟩, ?_⟩, ?_⟩, w.sym63⟩, ?_⟩, ?_⟩, ?_⟩
    · rw [(hrx rx).1, hxt]; rfl
    · rw [(hrx rx).2.1]; exact Unc.val_isSome_of_ne_missing _ hxc
    · rw [(hrx rx).2.2.1]; exact Unc.val_isSome_of_ne_missing _ hxi
    · exact mainPass_hasIso env t 63 151 ⟨re, List.mem_of_getElem? hje, hea, hek⟩
    · rw [(hrx re).2.2.2, heb]; rfl
    · rw [(hrx re).2.1]; exact Unc.val_isSome_of_ne_missing _ hec
  · -- imaginary rows
    unfold nsfIRowsOk
    rw [List.all_eq_true]
    intro x hx
    obtain ⟨h1, h2⟩ := w.irows x hx
    simp only [Bool.and_eq_true, Bool.or_eq_true, beq_iff_eq]
    refine ⟨h1, ?_⟩
    rcases h2 with h2 | h2
    · left; exact h2
    · right; exact hmainIso _ _ h2 _ (gapFill_isotopes _)
  · -- energy-dependent tables
    unfold edOk
    rw [List.all_eq_true]
    intro e he
    obtain ⟨z, hz, h2⟩ := w.ed e he
    rw [hz]
    simp only [Bool.or_eq_true, beq_iff_eq]
    rcases h2 with h2 | h2
    · left; exact h2
    · right; exact hmainIso _ _ h2 _ (by rw [ifold_isotopes, gapFill_isotopes])
  · -- natural Lu
    unfold luOk
    simp only [Bool.and_eq_true]
    refine ⟨⟨⟨⟨w.sym71, ?_⟩, ?_⟩, w.ab.1⟩, w.ab.2⟩
    · exact hmainIso _ _ ⟨rl, List.mem_of_getElem? hjl, hla, hlk⟩ _ (beforeLu_isotopes env t)
    · exact hmainIso _ _ w.lu176 _ (beforeLu_isotopes env t)
  · -- Lu-175 has a complex b_c
    have hb := beforeLu_benign env t
    have : ((Nsf.beforeLu env t).isoNeutron 71 175).rowPart = (recOf env.lam0 env.nd rl).rowPart := by
      unfold NsfState.isoNeutron Nsf.beforeLu
      rw [hb.isoId, hb.rowPart]
      have h1 := mainPass_isoId env t 71 175
      unfold Nsf.mainPass at h1 ⊢
      rw [h1, hidl]
      have h2 := mainPass_getRec env t jl rl hjl
      unfold Nsf.mainPass at h2
      rw [h2]
    have hbcc : ((Nsf.beforeLu env t).isoNeutron 71 175).bcc = (recOf env.lam0 env.nd rl).bcc := by
      have := congrArg (fun p => p.2.2.2.2.2.2.2.1) this
      exact this
    rw [hbcc]
    unfold recOf rowRec; split <;> rfl
  · -- Lu-176 has a table
    obtain ⟨pre, e, post, hsplit, htgt, hlast⟩ := w.lu176tbl
    have hp : (t.irows.foldl nsfIStep (gapFill (Nsf.mainPass env t))).ptrs = ptrs t.rows := by
      rw [ifold_ptrs, gapFill_ptrs]; exact mainPass_ptrs env t
    have hid : (Nsf.beforeLu env t).isoId 71 176 = (ptrs t.rows).isoId 71 176 := by
      have : ∀ s : NsfState α, s.isoId 71 176 = s.ptrs.isoId 71 176 := fun _ => rfl
      unfold Nsf.beforeLu
      rw [this, efold_ptrs, hp]
    unfold NsfState.isoNeutron
    rw [hid]
    unfold Nsf.beforeLu
    rw [hsplit, efold_table_last env.zOf env.ef pre post e _ _ (by rw [hp]; exact htgt) (by rw [hp]; exact hlast)]
    rfl

/-- … so `nsf.init` returns the state the theorems about `loadRows` speak of -/
theorem load_of_wellFormed (env : NsfEnv α) (t : NsfTables) (w : WellFormed env t) :
    Nsf.load env t = some (Nsf.loadRows env t) := by
  unfold Nsf.load
  rw [if_pos (loadOk_of_wellFormed env t w)]

end

end PtLoad
