import PtVerif.Proofs.Loaders
import PtVerif.Model.LoadersNsf
/-!
# What `nsf.init` serves (core Lean only)

The main pass gives the i-th row the record id `i+1`; atoms point to ids.  Later passes
(`gapFill`, imaginary table, energy-dependent tables, natural Lu) never change which record an
atom points to and only touch `b_c` (Eu-151), `total` (Xe), the three imaginary lengths and
`nsf_table`; the remaining fields of every record stay those of its row.
-/
set_option linter.unusedSectionVars false
namespace PtLoad

section
variable {α : Type} [Add α] [Sub α] [Mul α] [Div α] [Neg α] [OfNat α 0] [NatCast α] [IntCast α]
  [Transc α]

/-- the `Neutron` object built from a row, as attached to its atom -/
def recOf (lam0 : α) (nd : Nat → Option α) (r : NsfRow) : NRec α :=
  if r.a = 0 then rowRec lam0 (nd r.z) r
  else { rowRec lam0 (nd r.z) r with abundance := match r.p with
                                                   | none => some 0
                                                   | some u => u.val }

/-! ## one step -/

theorem nsfStep_next (lam0 : α) (nd : Nat → Option α) (st : NsfState α) (r : NsfRow) :
    (nsfStep lam0 nd st r).next = st.next + 1 := by
  unfold nsfStep; split <;> rfl

theorem nsfStep_recs (lam0 : α) (nd : Nat → Option α) (st : NsfState α) (r : NsfRow) :
    (nsfStep lam0 nd st r).recs = (st.next, recOf lam0 nd r) :: st.recs := by
  unfold nsfStep recOf; split <;> rfl

theorem nsfStep_isoRec (lam0 : α) (nd : Nat → Option α) (st : NsfState α) (r : NsfRow) :
    (nsfStep lam0 nd st r).isoRec
      = if r.a = 0 then st.isoRec else ((r.z, r.a), st.next) :: st.isoRec := by
  unfold nsfStep; split <;> rfl

theorem nsfStep_elRec (lam0 : α) (nd : Nat → Option α) (st : NsfState α) (r : NsfRow) :
    (nsfStep lam0 nd st r).elRec
      = if r.a = 0 then (r.z, st.next) :: st.elRec
        else if st.elId r.z = 0 then (r.z, st.next) :: st.elRec else st.elRec := by
  unfold nsfStep; split <;> rfl

theorem nsfStep_spin (lam0 : α) (nd : Nat → Option α) (st : NsfState α) (r : NsfRow) :
    (nsfStep lam0 nd st r).spin
      = if r.a = 0 then st.spin else ((r.z, r.a), r.spin) :: st.spin := by
  unfold nsfStep; split <;> rfl

theorem getRec_step_old (lam0 : α) (nd : Nat → Option α) (st : NsfState α) (r : NsfRow) (id : Nat)
    (h : id < st.next) : (nsfStep lam0 nd st r).getRec id = st.getRec id := by
  unfold NsfState.getRec
  rw [nsfStep_recs, aget_cons_ne (Nat.ne_of_lt h)]

theorem getRec_step_new (lam0 : α) (nd : Nat → Option α) (st : NsfState α) (r : NsfRow) :
    (nsfStep lam0 nd st r).getRec st.next = recOf lam0 nd r := by
  unfold NsfState.getRec
  rw [nsfStep_recs]; simp

theorem elId_step_other (lam0 : α) (nd : Nat → Option α) (st : NsfState α) (r : NsfRow) (z : Nat)
    (h : r.z ≠ z) : (nsfStep lam0 nd st r).elId z = st.elId z := by
  unfold NsfState.elId
  rw [nsfStep_elRec]
  have h' : z ≠ r.z := fun e => h e.symm
  split
  · rw [aget_cons_ne h']
  · split
    · rw [aget_cons_ne h']
    · rfl

theorem elId_step_elrow (lam0 : α) (nd : Nat → Option α) (st : NsfState α) (r : NsfRow)
    (h : r.a = 0) : (nsfStep lam0 nd st r).elId r.z = st.next := by
  unfold NsfState.elId
  rw [nsfStep_elRec]
  simp [h]

theorem elId_step_iso_set (lam0 : α) (nd : Nat → Option α) (st : NsfState α) (r : NsfRow)
    (h : r.a ≠ 0) (h0 : st.elId r.z ≠ 0) : (nsfStep lam0 nd st r).elId r.z = st.elId r.z := by
  show (aget r.z (nsfStep lam0 nd st r).elRec).getD 0 = st.elId r.z
  rw [nsfStep_elRec, if_neg h, if_neg h0]
  rfl

theorem elId_step_iso_first (lam0 : α) (nd : Nat → Option α) (st : NsfState α) (r : NsfRow)
    (h : r.a ≠ 0) (h0 : st.elId r.z = 0) : (nsfStep lam0 nd st r).elId r.z = st.next := by
  show (aget r.z (nsfStep lam0 nd st r).elRec).getD 0 = st.next
  rw [nsfStep_elRec, if_neg h, if_pos h0]
  simp

theorem isoId_step_other (lam0 : α) (nd : Nat → Option α) (st : NsfState α) (r : NsfRow) (z a : Nat)
    (h : r.a = 0 ∨ (r.z, r.a) ≠ (z, a)) : (nsfStep lam0 nd st r).isoId z a = st.isoId z a := by
  unfold NsfState.isoId
  rw [nsfStep_isoRec]
  split
  · rfl
  · rename_i ha
    rcases h with h | h
    · exact absurd h ha
    · rw [aget_cons_ne (fun e => h e.symm)]

theorem isoId_step_self (lam0 : α) (nd : Nat → Option α) (st : NsfState α) (r : NsfRow)
    (h : r.a ≠ 0) : (nsfStep lam0 nd st r).isoId r.z r.a = st.next := by
  unfold NsfState.isoId
  rw [nsfStep_isoRec]
  simp [h]

/-! ## the main pass -/

theorem fold_next (lam0 : α) (nd : Nat → Option α) (rows : List NsfRow) (st : NsfState α) :
    (rows.foldl (nsfStep lam0 nd) st).next = st.next + rows.length := by
  induction rows generalizing st with
  | nil => rfl
  | cons r rows ih => rw [List.foldl_cons, ih, nsfStep_next, List.length_cons]; omega

theorem fold_getRec_old (lam0 : α) (nd : Nat → Option α) (rows : List NsfRow) (st : NsfState α)
    (id : Nat) (h : id < st.next) : (rows.foldl (nsfStep lam0 nd) st).getRec id = st.getRec id := by
  induction rows generalizing st with
  | nil => rfl
  | cons r rows ih =>
    rw [List.foldl_cons, ih _ (by rw [nsfStep_next]; omega), getRec_step_old _ _ _ _ _ h]

/-- the row at position `pre.length` owns record `st.next + pre.length` -/
theorem fold_getRec_new (lam0 : α) (nd : Nat → Option α) (pre post : List NsfRow) (r : NsfRow)
    (st : NsfState α) :
    ((pre ++ r :: post).foldl (nsfStep lam0 nd) st).getRec (st.next + pre.length) = recOf lam0 nd r := by
  rw [List.foldl_append, List.foldl_cons]
  rw [fold_getRec_old _ _ post _ _ (by rw [nsfStep_next, fold_next]; omega)]
  have := getRec_step_new lam0 nd (pre.foldl (nsfStep lam0 nd) st) r
  rw [fold_next] at this
  exact this

theorem fold_isoId_none (lam0 : α) (nd : Nat → Option α) (rows : List NsfRow) (st : NsfState α)
    (z a : Nat) (h : ∀ x ∈ rows, x.a = 0 ∨ (x.z, x.a) ≠ (z, a)) :
    (rows.foldl (nsfStep lam0 nd) st).isoId z a = st.isoId z a := by
  induction rows generalizing st with
  | nil => rfl
  | cons r rows ih =>
    rw [List.foldl_cons, ih _ (fun x hx => h x (List.mem_cons_of_mem _ hx)),
      isoId_step_other _ _ _ _ _ _ (h r (by simp))]

/-- an isotope points to the record of the last row with its key -/
theorem fold_isoId (lam0 : α) (nd : Nat → Option α) (pre post : List NsfRow) (r : NsfRow)
    (st : NsfState α) (ha : r.a ≠ 0) (hlast : ∀ x ∈ post, x.a = 0 ∨ (x.z, x.a) ≠ (r.z, r.a)) :
    ((pre ++ r :: post).foldl (nsfStep lam0 nd) st).isoId r.z r.a = st.next + pre.length := by
  rw [List.foldl_append, List.foldl_cons, fold_isoId_none _ _ post _ _ _ hlast, isoId_step_self _ _ _ _ ha,
    fold_next]

theorem fold_elId_none (lam0 : α) (nd : Nat → Option α) (rows : List NsfRow) (st : NsfState α)
    (z : Nat) (h : ∀ x ∈ rows, x.z ≠ z) : (rows.foldl (nsfStep lam0 nd) st).elId z = st.elId z := by
  induction rows generalizing st with
  | nil => rfl
  | cons r rows ih =>
    rw [List.foldl_cons, ih _ (fun x hx => h x (List.mem_cons_of_mem _ hx)),
      elId_step_other _ _ _ _ _ (h r (by simp))]

/-- once an element points to a record, isotope rows of that element do not change it -/
theorem fold_elId_keep (lam0 : α) (nd : Nat → Option α) (rows : List NsfRow) (st : NsfState α)
    (z : Nat) (h0 : st.elId z ≠ 0) (h : ∀ x ∈ rows, x.z = z → x.a ≠ 0) :
    (rows.foldl (nsfStep lam0 nd) st).elId z = st.elId z := by
  induction rows generalizing st with
  | nil => rfl
  | cons r rows ih =>
    rw [List.foldl_cons]
    have hstep : (nsfStep lam0 nd st r).elId z = st.elId z := by
      by_cases hz : r.z = z
      · subst hz
        exact elId_step_iso_set _ _ _ _ (h r (by simp) rfl) h0
      · exact elId_step_other _ _ _ _ _ hz
    rw [ih _ (by rw [hstep]; exact h0) (fun x hx => h x (List.mem_cons_of_mem _ hx)), hstep]

/-- an element with a row of its own points to that row's record (the last such row),
    wherever its isotope rows stand -/
theorem fold_elId_elrow (lam0 : α) (nd : Nat → Option α) (pre post : List NsfRow) (r : NsfRow)
    (st : NsfState α) (hpos : 0 < st.next) (ha : r.a = 0) (hlast : ∀ x ∈ post, x.z = r.z → x.a ≠ 0) :
    ((pre ++ r :: post).foldl (nsfStep lam0 nd) st).elId r.z = st.next + pre.length := by
  rw [List.foldl_append, List.foldl_cons]
  have h1 := elId_step_elrow lam0 nd (pre.foldl (nsfStep lam0 nd) st) r ha
  rw [fold_next] at h1
  rw [fold_elId_keep _ _ post _ _ (by rw [h1]; omega) hlast, h1]

/-- an element without a row of its own points to the record of its *first listed isotope* -/
theorem fold_elId_first_iso (lam0 : α) (nd : Nat → Option α) (pre post : List NsfRow) (r : NsfRow)
    (st : NsfState α) (hpos : 0 < st.next) (h0 : st.elId r.z = 0) (ha : r.a ≠ 0)
    (hpre : ∀ x ∈ pre, x.z ≠ r.z) (hpost : ∀ x ∈ post, x.z = r.z → x.a ≠ 0) :
    ((pre ++ r :: post).foldl (nsfStep lam0 nd) st).elId r.z = st.next + pre.length := by
  rw [List.foldl_append, List.foldl_cons]
  have hz : (pre.foldl (nsfStep lam0 nd) st).elId r.z = 0 := by
    rw [fold_elId_none _ _ pre _ _ hpre]; exact h0
  have h1 := elId_step_iso_first lam0 nd (pre.foldl (nsfStep lam0 nd) st) r ha hz
  rw [fold_next] at h1
  rw [fold_elId_keep _ _ post _ _ (by rw [h1]; omega) hpost, h1]

theorem fold_spin (lam0 : α) (nd : Nat → Option α) (pre post : List NsfRow) (r : NsfRow)
    (st : NsfState α) (ha : r.a ≠ 0) (hlast : ∀ x ∈ post, x.a = 0 ∨ (x.z, x.a) ≠ (r.z, r.a)) :
    aget (r.z, r.a) ((pre ++ r :: post).foldl (nsfStep lam0 nd) st).spin = some r.spin := by
  rw [List.foldl_append, List.foldl_cons]
  have key : ∀ (post : List NsfRow) (st : NsfState α),
      (∀ x ∈ post, x.a = 0 ∨ (x.z, x.a) ≠ (r.z, r.a)) →
      aget (r.z, r.a) (post.foldl (nsfStep lam0 nd) st).spin = aget (r.z, r.a) st.spin := by
    intro post
    induction post with
    | nil => intro st _; rfl
    | cons x post ih =>
      intro st h
      rw [List.foldl_cons, ih _ (fun y hy => h y (List.mem_cons_of_mem _ hy)), nsfStep_spin]
      split
      · rfl
      · rename_i hxa
        rcases h x (by simp) with h' | h'
        · exact absurd h' hxa
        · rw [aget_cons_ne (fun e => h' e.symm)]
  rw [key post _ hlast, nsfStep_spin]
  simp [ha]

/-! ## later passes: pointers stay, row fields stay -/

/-- the fields no later pass writes -/
def NRec.rowPart (r : NRec α) :=
  (r.bp, r.bm, r.coherent, r.incoherent, r.absorption, r.isE, r.abundance, r.bcc, r.nd)

theorem getRec_setRec (st : NsfState α) (i j : Nat) (r : NRec α) :
    (st.setRec i r).getRec j = if j = i then r else st.getRec j := by
  unfold NsfState.setRec NsfState.getRec
  simp only [aget_cons]
  split <;> simp

@[simp] theorem setRec_elId (st : NsfState α) (i : Nat) (r : NRec α) (z : Nat) :
    (st.setRec i r).elId z = st.elId z := rfl
@[simp] theorem setRec_isoId (st : NsfState α) (i : Nat) (r : NRec α) (z a : Nat) :
    (st.setRec i r).isoId z a = st.isoId z a := rfl
@[simp] theorem setRec_spin (st : NsfState α) (i : Nat) (r : NRec α) : (st.setRec i r).spin = st.spin := rfl
@[simp] theorem setRec_isotopes (st : NsfState α) (i : Nat) (r : NRec α) :
    (st.setRec i r).isotopes = st.isotopes := rfl

/-- a pass is *benign* if it keeps every pointer and the row part of every record -/
structure Benign (f : NsfState α → NsfState α) : Prop where
  elId : ∀ st z, (f st).elId z = st.elId z
  isoId : ∀ st z a, (f st).isoId z a = st.isoId z a
  spin : ∀ st, (f st).spin = st.spin
  rowPart : ∀ st id, ((f st).getRec id).rowPart = (st.getRec id).rowPart

theorem Benign.comp {f g : NsfState α → NsfState α} (hf : Benign f) (hg : Benign g) :
    Benign (fun st => g (f st)) :=
  ⟨fun st z => by rw [hg.elId, hf.elId], fun st z a => by rw [hg.isoId, hf.isoId],
   fun st => by rw [hg.spin, hf.spin], fun st id => by rw [hg.rowPart, hf.rowPart]⟩

theorem Benign.foldl {β : Type} (f : NsfState α → β → NsfState α) (h : ∀ b, Benign (fun st => f st b))
    (l : List β) : Benign (fun st => l.foldl f st) := by
  induction l with
  | nil => exact ⟨fun _ _ => rfl, fun _ _ _ => rfl, fun _ => rfl, fun _ _ => rfl⟩
  | cons b l ih =>
    have := Benign.comp (h b) ih
    simpa [List.foldl_cons] using this

theorem getRec_modify (st : NsfState α) (i j : Nat) (f : NRec α → NRec α) :
    (st.modify i f).getRec j = if j = i then f (st.getRec i) else st.getRec j := by
  unfold NsfState.modify; exact getRec_setRec st i j _

/-- mutating one record with a function that keeps the row part is benign -/
theorem modify_benign (idOf : NsfState α → Nat) (f : NsfState α → NRec α → NRec α)
    (hf : ∀ st r, (f st r).rowPart = r.rowPart) :
    Benign (fun st => st.modify (idOf st) (f st)) := by
  refine ⟨fun st z => rfl, fun st z a => rfl, fun st => rfl, fun st id => ?_⟩
  rw [getRec_modify]
  split
  · rename_i h; subst h; exact hf st _
  · rfl

theorem gapFill_benign : Benign (gapFill (α := α)) := by
  have h1 := modify_benign (α := α) (fun st => st.elId 54)
    (fun _ rx => { rx with total := match rx.coherent, rx.incoherent with
                                    | some c, some i => some (c + i)
                                    | _, _ => none }) (fun _ _ => rfl)
  have h2 := modify_benign (α := α) (fun st => st.isoId 63 151)
    (fun _ re => { re with b_c := re.coherent.map fun c => Transc.sqrt (c / fourPi100) }) (fun _ _ => rfl)
  have := Benign.comp h1 h2
  unfold gapFill
  exact this

theorem nsfIStep_benign (r : NsfIRow) : Benign (fun st : NsfState α => nsfIStep st r) :=
  modify_benign (fun st => if r.a = 0 then st.elId r.z else st.isoId r.z r.a)
    (fun _ rc => { rc with b_c_i := r.b_c_i.val, bp_i := r.bp_i.val, bm_i := r.bm_i.val }) (fun _ _ => rfl)

theorem id_benign : Benign (fun st : NsfState α => st) :=
  ⟨fun _ _ => rfl, fun _ _ _ => rfl, fun _ => rfl, fun _ _ => rfl⟩

theorem edStep_benign (zOf : Nat → Option Nat) (ef : α) (t : EDTable) :
    Benign (fun st : NsfState α => edStep zOf ef st t) := by
  unfold edStep
  cases zOf t.sym with
  | none => exact id_benign
  | some z =>
    exact modify_benign (fun st => if t.a = 0 then st.elId z else st.isoId z t.a)
      (fun _ rc => { rc with table := some (edTable ef t.rows) }) (fun _ _ => rfl)

theorem luMix_benign (a b : α) : Benign (luMix a b) := by
  refine ⟨fun st z => ?_, fun st z a => ?_, fun st => ?_, fun st id => ?_⟩
  all_goals unfold luMix
  all_goals split
  all_goals try rfl
  rw [getRec_modify]
  split
  · rename_i h; subst h; rfl
  · rfl

/-- everything after the main pass is benign -/
theorem later_benign (env : NsfEnv α) (t : NsfTables) :
    Benign (fun st : NsfState α =>
      luMix ((env.ab175).getD 0) ((env.ab176).getD 0)
        (t.ed.foldl (edStep env.zOf env.ef) (t.irows.foldl nsfIStep (gapFill st)))) :=
  Benign.comp (Benign.comp (Benign.comp gapFill_benign (Benign.foldl _ nsfIStep_benign _))
    (Benign.foldl _ (edStep_benign env.zOf env.ef) _)) (luMix_benign _ _)

theorem loadRows_eq (env : NsfEnv α) (t : NsfTables) :
    Nsf.loadRows env t
      = luMix ((env.ab175).getD 0) ((env.ab176).getD 0)
          (t.ed.foldl (edStep env.zOf env.ef) (t.irows.foldl nsfIStep
            (gapFill (t.rows.foldl (nsfStep env.lam0 env.nd) NsfState.fresh)))) := rfl

/-! ## what the atoms report -/

/-- **every isotope row**: the isotope reports the row's b+, b-, coherent, incoherent,
    absorption, E flag, abundance, complex b_c and the element's number density -/
theorem iso_row_fields (env : NsfEnv α) (t : NsfTables) (pre post : List NsfRow) (r : NsfRow)
    (ht : t.rows = pre ++ r :: post) (ha : r.a ≠ 0)
    (hlast : ∀ x ∈ post, x.a = 0 ∨ (x.z, x.a) ≠ (r.z, r.a)) :
    ((Nsf.loadRows env t).isoNeutron r.z r.a).rowPart = (recOf env.lam0 env.nd r).rowPart := by
  have hb := later_benign env t
  rw [loadRows_eq]
  unfold NsfState.isoNeutron
  rw [hb.isoId, hb.rowPart, ht, fold_isoId _ _ pre post r _ ha hlast, fold_getRec_new]

/-- **every element row** -/
theorem el_row_fields (env : NsfEnv α) (t : NsfTables) (pre post : List NsfRow) (r : NsfRow)
    (ht : t.rows = pre ++ r :: post) (ha : r.a = 0) (hlast : ∀ x ∈ post, x.z = r.z → x.a ≠ 0) :
    ((Nsf.loadRows env t).elNeutron r.z).rowPart = (recOf env.lam0 env.nd r).rowPart := by
  have hb := later_benign env t
  rw [loadRows_eq]
  unfold NsfState.elNeutron
  rw [hb.elId, hb.rowPart, ht, fold_elId_elrow _ _ pre post r _ Nat.one_pos ha hlast, fold_getRec_new]

/-- nuclear spin of every isotope row -/
theorem iso_row_spin (env : NsfEnv α) (t : NsfTables) (pre post : List NsfRow) (r : NsfRow)
    (ht : t.rows = pre ++ r :: post) (ha : r.a ≠ 0)
    (hlast : ∀ x ∈ post, x.a = 0 ∨ (x.z, x.a) ≠ (r.z, r.a)) :
    aget (r.z, r.a) (Nsf.loadRows env t).spin = some r.spin := by
  rw [loadRows_eq, (later_benign env t).spin, ht]
  exact fold_spin _ _ pre post r _ ha hlast

/-- **elements without a row of their own share the `Neutron` object of their first listed
    isotope** (so a single-isotope element reports its isotope's record) -/
theorem element_shares_first_isotope (env : NsfEnv α) (t : NsfTables) (pre post : List NsfRow)
    (r : NsfRow) (ht : t.rows = pre ++ r :: post) (ha : r.a ≠ 0)
    (hpre : ∀ x ∈ pre, x.z ≠ r.z) (hpost : ∀ x ∈ post, x.z = r.z → x.a ≠ 0)
    (hlast : ∀ x ∈ post, x.a = 0 ∨ (x.z, x.a) ≠ (r.z, r.a)) :
    (Nsf.loadRows env t).elId r.z = (Nsf.loadRows env t).isoId r.z r.a
      ∧ (Nsf.loadRows env t).elId r.z ≠ 0 := by
  have hb := later_benign env t
  rw [loadRows_eq, hb.elId, hb.isoId, ht,
    fold_elId_first_iso _ _ pre post r _ Nat.one_pos rfl ha hpre hpost,
    fold_isoId _ _ pre post r _ ha hlast]
  exact ⟨rfl, by simp [NsfState.fresh]⟩

/-- an element no row mentions points to the shared default record -/
theorem absent_element_default (env : NsfEnv α) (t : NsfTables) (z : Nat)
    (h : ∀ x ∈ t.rows, x.z ≠ z) : (Nsf.loadRows env t).elId z = 0 := by
  rw [loadRows_eq, (later_benign env t).elId, fold_elId_none _ _ _ _ _ h]
  rfl

/-- an isotope without a row points to the shared default record – never to its element's -/
theorem absent_isotope_default (env : NsfEnv α) (t : NsfTables) (z a : Nat)
    (h : ∀ x ∈ t.rows, x.a = 0 ∨ (x.z, x.a) ≠ (z, a)) : (Nsf.loadRows env t).isoId z a = 0 := by
  rw [loadRows_eq, (later_benign env t).isoId, fold_isoId_none _ _ _ _ _ _ h]
  rfl

/-- the shared default keeps the row part of `Neutron()`; in particular no number density, so
    `has_sld()` is false for every atom that points to it -/
theorem default_record_rowPart (env : NsfEnv α) (t : NsfTables) :
    ((Nsf.loadRows env t).getRec 0).rowPart = (NRec.missing : NRec α).rowPart := by
  rw [loadRows_eq, (later_benign env t).rowPart, fold_getRec_old _ _ _ _ _ Nat.one_pos]
  rfl

theorem default_has_no_sld (env : NsfEnv α) (t : NsfTables) :
    ((Nsf.loadRows env t).getRec 0).hasSld = false := by
  have := default_record_rowPart env t
  unfold NRec.rowPart at this
  have hnd : ((Nsf.loadRows env t).getRec 0).nd = none := by
    have := congrArg (fun p => p.2.2.2.2.2.2.2.2) this
    simpa [NRec.missing] using this
  unfold NRec.hasSld
  simp [hnd]

end

end PtLoad

/-! ## the pointer structure does not depend on the numbers

Which record an atom points to is decided by the keys of the rows alone.  `ptrs` replays the
main pass on keys only, so that pointer facts about a concrete table can be evaluated by the
kernel and then transferred to the loader at any number type. -/
namespace PtLoad

structure Ptrs where
  next : Nat
  elRec : List (Nat × Nat)
  isoRec : List ((Nat × Nat) × Nat)
deriving Repr

def Ptrs.elId (p : Ptrs) (z : Nat) : Nat := (aget z p.elRec).getD 0
def Ptrs.isoId (p : Ptrs) (z a : Nat) : Nat := (aget (z, a) p.isoRec).getD 0

def ptrStep (p : Ptrs) (r : NsfRow) : Ptrs :=
  if r.a = 0 then { p with next := p.next + 1, elRec := (r.z, p.next) :: p.elRec }
  else { next := p.next + 1
         isoRec := ((r.z, r.a), p.next) :: p.isoRec
         elRec := if p.elId r.z = 0 then (r.z, p.next) :: p.elRec else p.elRec }

def ptrs (rows : List NsfRow) : Ptrs := rows.foldl ptrStep ⟨1, [], []⟩

section
variable {α : Type} [Add α] [Sub α] [Mul α] [Div α] [Neg α] [OfNat α 0] [NatCast α] [IntCast α]
  [Transc α]

def NsfState.ptrs (st : NsfState α) : Ptrs := ⟨st.next, st.elRec, st.isoRec⟩

theorem ptrStep_eq (lam0 : α) (nd : Nat → Option α) (st : NsfState α) (r : NsfRow) :
    (nsfStep lam0 nd st r).ptrs = ptrStep st.ptrs r := by
  unfold NsfState.ptrs ptrStep
  rw [nsfStep_next, nsfStep_elRec, nsfStep_isoRec]
  split <;> rfl

theorem fold_ptrs (lam0 : α) (nd : Nat → Option α) (rows : List NsfRow) (st : NsfState α) :
    (rows.foldl (nsfStep lam0 nd) st).ptrs = rows.foldl ptrStep st.ptrs := by
  induction rows generalizing st with
  | nil => rfl
  | cons r rows ih => rw [List.foldl_cons, List.foldl_cons, ih, ptrStep_eq]

/-- the loader's pointers are those of `ptrs t.rows`, whatever the number type -/
theorem loadRows_elId (env : NsfEnv α) (t : NsfTables) (z : Nat) :
    (Nsf.loadRows env t).elId z = (ptrs t.rows).elId z := by
  rw [loadRows_eq, (later_benign env t).elId]
  have := fold_ptrs env.lam0 env.nd t.rows (NsfState.fresh (α := α))
  have h2 : (NsfState.fresh (α := α)).ptrs = ⟨1, [], []⟩ := rfl
  rw [h2] at this
  show (aget z (t.rows.foldl (nsfStep env.lam0 env.nd) NsfState.fresh).ptrs.elRec).getD 0 = _
  rw [this]; rfl

theorem loadRows_isoId (env : NsfEnv α) (t : NsfTables) (z a : Nat) :
    (Nsf.loadRows env t).isoId z a = (ptrs t.rows).isoId z a := by
  rw [loadRows_eq, (later_benign env t).isoId]
  have := fold_ptrs env.lam0 env.nd t.rows (NsfState.fresh (α := α))
  have h2 : (NsfState.fresh (α := α)).ptrs = ⟨1, [], []⟩ := rfl
  rw [h2] at this
  show (aget (z, a) (t.rows.foldl (nsfStep env.lam0 env.nd) NsfState.fresh).ptrs.isoRec).getD 0 = _
  rw [this]; rfl

/-- record `i+1` carries the row part of row `i` -/
theorem record_of_index (env : NsfEnv α) (t : NsfTables) (i : Nat) (r : NsfRow)
    (h : t.rows[i]? = some r) :
    ((Nsf.loadRows env t).getRec (i + 1)).rowPart = (recOf env.lam0 env.nd r).rowPart := by
  obtain ⟨hi, hr⟩ := List.getElem?_eq_some_iff.mp h
  have hsplit : t.rows = t.rows.take i ++ r :: t.rows.drop (i + 1) := by
    rw [← hr, ← List.drop_eq_getElem_cons hi, List.take_append_drop]
  rw [loadRows_eq, (later_benign env t).rowPart, hsplit]
  have := fold_getRec_new env.lam0 env.nd (t.rows.take i) (t.rows.drop (i + 1)) r (NsfState.fresh (α := α))
  have hl : (t.rows.take i).length = i := by simp [List.length_take]; omega
  rw [hl] at this
  have h1 : (NsfState.fresh (α := α)).next + i = i + 1 := by simp [NsfState.fresh]; omega
  rw [h1] at this
  rw [this]

end

end PtLoad

/-! ## the fields later passes do write: b_c (Eu-151), total (Xe), imaginary lengths, nsf_table -/
namespace PtLoad

section
variable {α : Type} [Add α] [Sub α] [Mul α] [Div α] [Neg α] [OfNat α 0] [NatCast α] [IntCast α]
  [Transc α]

/-- a pass keeps the projection `π` of every record -/
def Keeps {β : Type} (π : NRec α → β) (f : NsfState α → NsfState α) : Prop :=
  ∀ st id, π ((f st).getRec id) = π (st.getRec id)

theorem Keeps.comp {β : Type} {π : NRec α → β} {f g : NsfState α → NsfState α}
    (hf : Keeps π f) (hg : Keeps π g) : Keeps π (fun st => g (f st)) :=
  fun st id => by rw [hg, hf]

theorem Keeps.foldl {β γ : Type} {π : NRec α → β} (f : NsfState α → γ → NsfState α)
    (h : ∀ b, Keeps π (fun st => f st b)) (l : List γ) : Keeps π (fun st => l.foldl f st) := by
  induction l with
  | nil => exact fun _ _ => rfl
  | cons b l ih =>
    have := Keeps.comp (h b) ih
    simpa [List.foldl_cons] using this

theorem modify_keeps {β : Type} (π : NRec α → β) (idOf : NsfState α → Nat)
    (f : NsfState α → NRec α → NRec α) (hf : ∀ st r, π (f st r) = π r) :
    Keeps π (fun st => st.modify (idOf st) (f st)) := by
  intro st id
  rw [getRec_modify]
  split
  · rename_i h; subst h; exact hf st _
  · rfl

theorem nsfIStep_keeps {β : Type} (π : NRec α → β)
    (hπ : ∀ (r : NRec α) (x y w : Option α), π { r with b_c_i := x, bp_i := y, bm_i := w } = π r)
    (x : NsfIRow) : Keeps π (fun st : NsfState α => nsfIStep st x) :=
  modify_keeps π _ _ (fun _ r => hπ r _ _ _)

theorem edStep_keeps {β : Type} (π : NRec α → β)
    (hπ : ∀ (r : NRec α) (t : Option (List (α × Cx α))), π { r with table := t } = π r)
    (zOf : Nat → Option Nat) (ef : α) (e : EDTable) :
    Keeps π (fun st : NsfState α => edStep zOf ef st e) := by
  unfold edStep
  cases zOf e.sym with
  | none => exact fun _ _ => rfl
  | some z => exact modify_keeps π _ _ (fun _ r => hπ r _)

theorem luMix_keeps {β : Type} (π : NRec α → β)
    (hπ : ∀ (r : NRec α) (t : Option (List (α × Cx α))), π { r with table := t } = π r)
    (a b : α) : Keeps π (luMix a b) := by
  intro st id
  unfold luMix
  split
  · rw [getRec_modify]
    split
    · rename_i h; subst h; exact hπ _ _
    · rfl
  · rfl

/-- the state after the main pass -/
def Nsf.mainPass (env : NsfEnv α) (t : NsfTables) : NsfState α :=
  t.rows.foldl (nsfStep env.lam0 env.nd) NsfState.fresh

theorem mainPass_elId (env : NsfEnv α) (t : NsfTables) (z : Nat) :
    (Nsf.mainPass env t).elId z = (ptrs t.rows).elId z := by
  have := fold_ptrs env.lam0 env.nd t.rows (NsfState.fresh (α := α))
  have h2 : (NsfState.fresh (α := α)).ptrs = ⟨1, [], []⟩ := rfl
  rw [h2] at this
  show (aget z (t.rows.foldl (nsfStep env.lam0 env.nd) NsfState.fresh).ptrs.elRec).getD 0 = _
  rw [this]; rfl

theorem mainPass_isoId (env : NsfEnv α) (t : NsfTables) (z a : Nat) :
    (Nsf.mainPass env t).isoId z a = (ptrs t.rows).isoId z a := by
  have := fold_ptrs env.lam0 env.nd t.rows (NsfState.fresh (α := α))
  have h2 : (NsfState.fresh (α := α)).ptrs = ⟨1, [], []⟩ := rfl
  rw [h2] at this
  show (aget (z, a) (t.rows.foldl (nsfStep env.lam0 env.nd) NsfState.fresh).ptrs.isoRec).getD 0 = _
  rw [this]; rfl

theorem mainPass_getRec (env : NsfEnv α) (t : NsfTables) (i : Nat) (r : NsfRow)
    (h : t.rows[i]? = some r) : (Nsf.mainPass env t).getRec (i + 1) = recOf env.lam0 env.nd r := by
  obtain ⟨hi, hr⟩ := List.getElem?_eq_some_iff.mp h
  have hsplit : t.rows = t.rows.take i ++ r :: t.rows.drop (i + 1) := by
    rw [← hr, ← List.drop_eq_getElem_cons hi, List.take_append_drop]
  unfold Nsf.mainPass
  rw [hsplit]
  have := fold_getRec_new env.lam0 env.nd (t.rows.take i) (t.rows.drop (i + 1)) r (NsfState.fresh (α := α))
  have hl : (t.rows.take i).length = i := by simp [List.length_take]; omega
  rw [hl] at this
  have h1 : (NsfState.fresh (α := α)).next + i = i + 1 := by simp [NsfState.fresh]; omega
  rw [h1] at this
  exact this

/-! ### b_c and total -/

/-- the Xe step of `gapFill` -/
def xeFill (rx : NRec α) : NRec α :=
  { rx with total := match rx.coherent, rx.incoherent with
                     | some c, some i => some (c + i)
                     | _, _ => none }

/-- the Eu-151 step of `gapFill` -/
def euFill (re : NRec α) : NRec α :=
  { re with b_c := re.coherent.map fun c => Transc.sqrt (c / fourPi100) }

theorem gapFill_eq (st : NsfState α) :
    gapFill st = (st.modify (st.elId 54) xeFill).modify (st.isoId 63 151) euFill := rfl

theorem gapFill_b_c (st : NsfState α) (id : Nat) :
    ((gapFill st).getRec id).b_c
      = if id = st.isoId 63 151
        then (st.getRec id).coherent.map fun c => Transc.sqrt (c / fourPi100)
        else (st.getRec id).b_c := by
  have hb : ∀ j, ((st.modify (st.elId 54) xeFill).getRec j).b_c = (st.getRec j).b_c := by
    intro j; rw [getRec_modify]; split
    · rename_i h; subst h; rfl
    · rfl
  have hc : ∀ j, ((st.modify (st.elId 54) xeFill).getRec j).coherent = (st.getRec j).coherent := by
    intro j; rw [getRec_modify]; split
    · rename_i h; subst h; rfl
    · rfl
  rw [gapFill_eq, getRec_modify]
  split
  · rename_i h; subst h
    show Option.map _ ((st.modify (st.elId 54) xeFill).getRec (st.isoId 63 151)).coherent = _
    rw [hc]
  · exact hb id

theorem gapFill_total (st : NsfState α) (id : Nat) :
    ((gapFill st).getRec id).total
      = if id = st.elId 54
        then (match (st.getRec id).coherent, (st.getRec id).incoherent with
              | some c, some i => some (c + i)
              | _, _ => none)
        else (st.getRec id).total := by
  have ht : ∀ j, ((st.modify (st.elId 54) xeFill).getRec j).total
      = if j = st.elId 54 then (xeFill (st.getRec j)).total else (st.getRec j).total := by
    intro j; rw [getRec_modify]; split
    · rename_i h; subst h; rfl
    · rfl
  rw [gapFill_eq, getRec_modify]
  split
  · rename_i h; subst h
    show ((st.modify (st.elId 54) xeFill).getRec (st.isoId 63 151)).total = _
    rw [ht]
    split <;> rfl
  · rw [ht]
    split <;> rfl

theorem after_gapFill_keeps {β : Type} (π : NRec α → β)
    (h1 : ∀ (r : NRec α) (x y w : Option α), π { r with b_c_i := x, bp_i := y, bm_i := w } = π r)
    (h2 : ∀ (r : NRec α) (t : Option (List (α × Cx α))), π { r with table := t } = π r)
    (env : NsfEnv α) (t : NsfTables) :
    Keeps π (fun st : NsfState α =>
      luMix ((env.ab175).getD 0) ((env.ab176).getD 0)
        (t.ed.foldl (edStep env.zOf env.ef) (t.irows.foldl nsfIStep st))) :=
  Keeps.comp (Keeps.comp (Keeps.foldl _ (nsfIStep_keeps π h1) _) (Keeps.foldl _ (edStep_keeps π h2 env.zOf env.ef) _))
    (luMix_keeps π h2 _ _)

/-- `b_c` of the record of row `i`: the column, except for the record the Eu-151 gap fill
    targets, which gets `sqrt(coherent/(4π/100))` -/
theorem b_c_of_index (env : NsfEnv α) (t : NsfTables) (i : Nat) (r : NsfRow)
    (h : t.rows[i]? = some r) :
    ((Nsf.loadRows env t).getRec (i + 1)).b_c
      = if i + 1 = (ptrs t.rows).isoId 63 151
        then (recOf env.lam0 env.nd r).coherent.map fun c => Transc.sqrt (c / fourPi100)
        else (recOf env.lam0 env.nd r).b_c := by
  rw [loadRows_eq]
  have hk : ∀ (st : NsfState α) id, ((luMix ((env.ab175).getD 0) ((env.ab176).getD 0)
        (t.ed.foldl (edStep env.zOf env.ef) (t.irows.foldl nsfIStep st))).getRec id).b_c = (st.getRec id).b_c :=
    after_gapFill_keeps (α := α) (fun r => r.b_c) (fun _ _ _ _ => rfl) (fun _ _ => rfl) env t
  rw [hk, gapFill_b_c]
  have := mainPass_getRec env t i r h
  unfold Nsf.mainPass at this
  rw [this]
  have := mainPass_isoId env t 63 151
  unfold Nsf.mainPass at this
  rw [this]

/-- `total` of the record of row `i`: the column, except for the record the Xe gap fill
    targets, which gets `coherent + incoherent` -/
theorem total_of_index (env : NsfEnv α) (t : NsfTables) (i : Nat) (r : NsfRow)
    (h : t.rows[i]? = some r) :
    ((Nsf.loadRows env t).getRec (i + 1)).total
      = if i + 1 = (ptrs t.rows).elId 54
        then (match (recOf env.lam0 env.nd r).coherent, (recOf env.lam0 env.nd r).incoherent with
              | some c, some i => some (c + i)
              | _, _ => none)
        else (recOf env.lam0 env.nd r).total := by
  rw [loadRows_eq]
  have hk : ∀ (st : NsfState α) id, ((luMix ((env.ab175).getD 0) ((env.ab176).getD 0)
        (t.ed.foldl (edStep env.zOf env.ef) (t.irows.foldl nsfIStep st))).getRec id).total = (st.getRec id).total :=
    after_gapFill_keeps (α := α) (fun r => r.total) (fun _ _ _ _ => rfl) (fun _ _ => rfl) env t
  rw [hk, gapFill_total]
  have := mainPass_getRec env t i r h
  unfold Nsf.mainPass at this
  rw [this]
  have := mainPass_elId env t 54
  unfold Nsf.mainPass at this
  rw [this]

/-! ### imaginary lengths -/

def NRec.imag (r : NRec α) := (r.b_c_i, r.bp_i, r.bm_i)

/-- the record an imaginary-table row writes to -/
def itarget (p : Ptrs) (x : NsfIRow) : Nat := if x.a = 0 then p.elId x.z else p.isoId x.z x.a

theorem nsfIStep_ptrs (st : NsfState α) (x : NsfIRow) : (nsfIStep st x).ptrs = st.ptrs := rfl

theorem nsfIStep_imag (st : NsfState α) (x : NsfIRow) (id : Nat) :
    ((nsfIStep st x).getRec id).imag
      = if id = itarget st.ptrs x then (x.b_c_i.val, x.bp_i.val, x.bm_i.val) else (st.getRec id).imag := by
  unfold nsfIStep
  rw [getRec_modify]
  have : (if x.a = 0 then st.elId x.z else st.isoId x.z x.a) = itarget st.ptrs x := by
    unfold itarget; split <;> rfl
  rw [this]
  split <;> rfl

theorem ifold_ptrs (l : List NsfIRow) (st : NsfState α) : (l.foldl nsfIStep st).ptrs = st.ptrs := by
  induction l generalizing st with
  | nil => rfl
  | cons x l ih => rw [List.foldl_cons, ih, nsfIStep_ptrs]

theorem ifold_imag_none (l : List NsfIRow) (st : NsfState α) (id : Nat)
    (h : ∀ y ∈ l, itarget st.ptrs y ≠ id) : ((l.foldl nsfIStep st).getRec id).imag = (st.getRec id).imag := by
  induction l generalizing st with
  | nil => rfl
  | cons x l ih =>
    rw [List.foldl_cons, ih _ (fun y hy => by rw [nsfIStep_ptrs]; exact h y (List.mem_cons_of_mem _ hy)),
      nsfIStep_imag, if_neg (fun e => h x (by simp) e.symm)]

theorem ifold_imag_last (pre post : List NsfIRow) (x : NsfIRow) (st : NsfState α)
    (h : ∀ y ∈ post, itarget st.ptrs y ≠ itarget st.ptrs x) :
    (((pre ++ x :: post).foldl nsfIStep st).getRec (itarget st.ptrs x)).imag
      = (x.b_c_i.val, x.bp_i.val, x.bm_i.val) := by
  rw [List.foldl_append, List.foldl_cons]
  rw [ifold_imag_none post _ _ (fun y hy => by rw [nsfIStep_ptrs, ifold_ptrs]; exact h y hy)]
  rw [nsfIStep_imag, ifold_ptrs, if_pos rfl]

theorem imag_keeps_after (env : NsfEnv α) (t : NsfTables) :
    Keeps (fun r : NRec α => r.imag) (fun st : NsfState α =>
      luMix ((env.ab175).getD 0) ((env.ab176).getD 0) (t.ed.foldl (edStep env.zOf env.ef) st)) :=
  Keeps.comp (Keeps.foldl _ (edStep_keeps _ (fun _ _ => rfl) env.zOf env.ef) _)
    (luMix_keeps _ (fun _ _ => rfl) _ _)

theorem gapFill_imag : Keeps (fun r : NRec α => r.imag) (gapFill (α := α)) := by
  have h1 := modify_keeps (α := α) (fun r => r.imag) (fun st => st.elId 54) (fun _ => xeFill) (fun _ _ => rfl)
  have h2 := modify_keeps (α := α) (fun r => r.imag) (fun st => st.isoId 63 151) (fun _ => euFill) (fun _ _ => rfl)
  have := Keeps.comp h1 h2
  intro st id
  exact this st id

theorem gapFill_ptrs (st : NsfState α) : (gapFill st).ptrs = st.ptrs := rfl

theorem mainPass_ptrs (env : NsfEnv α) (t : NsfTables) : (Nsf.mainPass env t).ptrs = ptrs t.rows := by
  have := fold_ptrs env.lam0 env.nd t.rows (NsfState.fresh (α := α))
  exact this

/-- **the imaginary lengths of the companion table**: the record a row of `nsftableI` names
    (the last row naming it) reports that row's three values -/
theorem imag_of_row (env : NsfEnv α) (t : NsfTables) (pre post : List NsfIRow) (x : NsfIRow)
    (ht : t.irows = pre ++ x :: post)
    (h : ∀ y ∈ post, itarget (ptrs t.rows) y ≠ itarget (ptrs t.rows) x) :
    ((Nsf.loadRows env t).getRec (itarget (ptrs t.rows) x)).imag
      = (x.b_c_i.val, x.bp_i.val, x.bm_i.val) := by
  rw [loadRows_eq]
  have hk : ∀ (st : NsfState α) id, ((luMix ((env.ab175).getD 0) ((env.ab176).getD 0)
        (t.ed.foldl (edStep env.zOf env.ef) st)).getRec id).imag = (st.getRec id).imag := imag_keeps_after env t
  rw [hk]
  have hp : (gapFill (t.rows.foldl (nsfStep env.lam0 env.nd) NsfState.fresh)).ptrs = ptrs t.rows := by
    rw [gapFill_ptrs]; exact mainPass_ptrs env t
  rw [ht, ← hp]
  apply ifold_imag_last
  rw [hp]; exact h

/-- a record no row of `nsftableI` names has no imaginary lengths -/
theorem imag_none_of_index (env : NsfEnv α) (t : NsfTables) (i : Nat) (r : NsfRow)
    (hr : t.rows[i]? = some r) (h : ∀ y ∈ t.irows, itarget (ptrs t.rows) y ≠ i + 1) :
    ((Nsf.loadRows env t).getRec (i + 1)).imag = (none, none, none) := by
  rw [loadRows_eq]
  have hk : ∀ (st : NsfState α) id, ((luMix ((env.ab175).getD 0) ((env.ab176).getD 0)
        (t.ed.foldl (edStep env.zOf env.ef) st)).getRec id).imag = (st.getRec id).imag := imag_keeps_after env t
  rw [hk]
  have hp : (gapFill (t.rows.foldl (nsfStep env.lam0 env.nd) NsfState.fresh)).ptrs = ptrs t.rows := by
    rw [gapFill_ptrs]; exact mainPass_ptrs env t
  have hg : ∀ (st : NsfState α) id, ((gapFill st).getRec id).imag = (st.getRec id).imag := gapFill_imag
  rw [ifold_imag_none _ _ _ (by rw [hp]; exact h), hg]
  have := mainPass_getRec env t i r hr
  unfold Nsf.mainPass at this
  rw [this]
  unfold recOf rowRec NRec.imag
  split <;> rfl

/-! ### energy-dependent tables -/

/-- the record an energy-dependent table is attached to -/
def etarget (zOf : Nat → Option Nat) (p : Ptrs) (e : EDTable) : Option Nat :=
  (zOf e.sym).map fun z => if e.a = 0 then p.elId z else p.isoId z e.a

theorem edStep_ptrs (zOf : Nat → Option Nat) (ef : α) (st : NsfState α) (e : EDTable) :
    (edStep zOf ef st e).ptrs = st.ptrs := by
  unfold edStep; split <;> rfl

theorem edStep_table (zOf : Nat → Option Nat) (ef : α) (st : NsfState α) (e : EDTable) (id : Nat) :
    ((edStep zOf ef st e).getRec id).table
      = if etarget zOf st.ptrs e = some id then some (edTable ef e.rows) else (st.getRec id).table := by
  unfold edStep etarget
  cases hz : zOf e.sym with
  | none => simp
  | some z =>
    simp only [Option.map_some, Option.some.injEq]
    rw [getRec_modify]
    have : (if e.a = 0 then st.elId z else st.isoId z e.a)
        = (if e.a = 0 then st.ptrs.elId z else st.ptrs.isoId z e.a) := by split <;> rfl
    rw [this]
    by_cases hid : id = (if e.a = 0 then st.ptrs.elId z else st.ptrs.isoId z e.a)
    · rw [if_pos hid, if_pos hid.symm]
    · rw [if_neg hid, if_neg (fun e' => hid e'.symm)]

theorem efold_ptrs (zOf : Nat → Option Nat) (ef : α) (l : List EDTable) (st : NsfState α) :
    (l.foldl (edStep zOf ef) st).ptrs = st.ptrs := by
  induction l generalizing st with
  | nil => rfl
  | cons x l ih => rw [List.foldl_cons, ih, edStep_ptrs]

theorem efold_table_none (zOf : Nat → Option Nat) (ef : α) (l : List EDTable) (st : NsfState α) (id : Nat)
    (h : ∀ y ∈ l, etarget zOf st.ptrs y ≠ some id) :
    ((l.foldl (edStep zOf ef) st).getRec id).table = (st.getRec id).table := by
  induction l generalizing st with
  | nil => rfl
  | cons x l ih =>
    rw [List.foldl_cons, ih _ (fun y hy => by rw [edStep_ptrs]; exact h y (List.mem_cons_of_mem _ hy)),
      edStep_table, if_neg (h x (by simp))]

theorem efold_table_last (zOf : Nat → Option Nat) (ef : α) (pre post : List EDTable) (e : EDTable)
    (st : NsfState α) (id : Nat) (he : etarget zOf st.ptrs e = some id)
    (h : ∀ y ∈ post, etarget zOf st.ptrs y ≠ some id) :
    (((pre ++ e :: post).foldl (edStep zOf ef) st).getRec id).table = some (edTable ef e.rows) := by
  rw [List.foldl_append, List.foldl_cons]
  rw [efold_table_none zOf ef post _ _ (fun y hy => by rw [edStep_ptrs, efold_ptrs]; exact h y hy)]
  rw [edStep_table, efold_ptrs, if_pos he]

theorem luMix_table_other (a b : α) (st : NsfState α) (id : Nat) (h : id ≠ st.elId 71) :
    ((luMix a b st).getRec id).table = (st.getRec id).table := by
  unfold luMix
  split
  · rw [getRec_modify, if_neg h]
  · rfl

/-- **every energy-dependent table is attached to its atom**, converted from eV to Å and
    reversed (`edTable`), unless a later table names the same record or it is natural Lu's -/
theorem ed_table_of_entry (env : NsfEnv α) (t : NsfTables) (pre post : List EDTable) (e : EDTable)
    (id : Nat) (ht : t.ed = pre ++ e :: post) (he : etarget env.zOf (ptrs t.rows) e = some id)
    (h : ∀ y ∈ post, etarget env.zOf (ptrs t.rows) y ≠ some id) (hlu : id ≠ (ptrs t.rows).elId 71) :
    ((Nsf.loadRows env t).getRec id).table = some (edTable env.ef e.rows) := by
  rw [loadRows_eq]
  have hp : (t.irows.foldl nsfIStep (gapFill (t.rows.foldl (nsfStep env.lam0 env.nd) NsfState.fresh))).ptrs
      = ptrs t.rows := by
    rw [ifold_ptrs, gapFill_ptrs]; exact mainPass_ptrs env t
  rw [luMix_table_other]
  · rw [ht]
    apply efold_table_last
    · rw [hp]; exact he
    · rw [hp]; exact h
  · have : ∀ s : NsfState α, s.elId 71 = s.ptrs.elId 71 := fun _ => rfl
    rw [this, efold_ptrs, hp]
    exact hlu

end

end PtLoad

/-! ## with distinct keys every atom owns the record of its row -/
namespace PtLoad

section
variable {α : Type} [Add α] [Sub α] [Mul α] [Div α] [Neg α] [OfNat α 0] [NatCast α] [IntCast α]
  [Transc α]

def nsfKeyOf (r : NsfRow) : Nat × Nat := (r.z, r.a)

theorem split_at_index (rows : List NsfRow) (i : Nat) (r : NsfRow) (h : rows[i]? = some r) :
    rows = rows.take i ++ r :: rows.drop (i + 1) ∧ (rows.take i).length = i := by
  obtain ⟨hi, hr⟩ := List.getElem?_eq_some_iff.mp h
  refine ⟨?_, by simp [List.length_take]; omega⟩
  rw [← hr, ← List.drop_eq_getElem_cons hi, List.take_append_drop]

/-- in a table with distinct keys, no later row has the key of row `i` -/
theorem later_keys_differ (rows : List NsfRow) (hnd : (rows.map nsfKeyOf).Nodup) (i : Nat) (r : NsfRow)
    (h : rows[i]? = some r) : ∀ x ∈ rows.drop (i + 1), nsfKeyOf x ≠ nsfKeyOf r := by
  obtain ⟨hsplit, _⟩ := split_at_index rows i r h
  intro x hx e
  rw [hsplit, List.map_append, List.map_cons] at hnd
  have := (List.nodup_append.mp hnd).2.1
  rw [List.nodup_cons] at this
  exact this.1 (List.mem_map.mpr ⟨x, hx, e⟩)

/-- **every atom owns its row**: with distinct keys the element or isotope a row names points
    to the record built from that row -/
theorem atom_owns_row (env : NsfEnv α) (t : NsfTables) (hnd : (t.rows.map nsfKeyOf).Nodup)
    (i : Nat) (r : NsfRow) (h : t.rows[i]? = some r) :
    (if r.a = 0 then (Nsf.loadRows env t).elId r.z else (Nsf.loadRows env t).isoId r.z r.a) = i + 1 := by
  obtain ⟨hsplit, hlen⟩ := split_at_index t.rows i r h
  have hlater := later_keys_differ t.rows hnd i r h
  have hb := later_benign env t
  rw [loadRows_eq]
  split
  · rename_i ha
    rw [hb.elId, hsplit,
      fold_elId_elrow _ _ (t.rows.take i) (t.rows.drop (i + 1)) r _ Nat.one_pos ha
        (fun x hx hz hxa => hlater x hx (by simp [nsfKeyOf, hz, hxa, ha])), hlen]
    simp [NsfState.fresh]; omega
  · rename_i ha
    rw [hb.isoId, hsplit,
      fold_isoId _ _ (t.rows.take i) (t.rows.drop (i + 1)) r _ ha
        (fun x hx => Or.inr (fun e => hlater x hx (by simpa [nsfKeyOf] using e))), hlen]
    simp [NsfState.fresh]; omega

end

end PtLoad

/-! ## vocabulary of the property statements -/
namespace PtLoad

/-- elements without a row of their own and exactly one isotope row: that isotope -/
def singleIsotope (rows : List NsfRow) (z : Nat) : Option Nat :=
  match rows.filter (fun r => r.z == z) with
  | [r] => if r.a = 0 then none else some r.a
  | _ => none

/-- `element.neutron` (a = 0) or `element[a].neutron` -/
def atomRec {α : Type} [OfNat α 0] (st : NsfState α) (z a : Nat) : NRec α :=
  if a = 0 then st.elNeutron z else st.isoNeutron z a

end PtLoad
