import PtVerif.Proofs.LoadersNsf
import PtVerif.Proofs.LoadersField
/-!
# Ordered-field facts of the neutron loader (Mathlib)

`numpy.interp` on an increasing grid returns the tabulated value at every node; the eV → Å
conversion followed by the reversal turns increasing energies into increasing wavelengths.
-/
set_option linter.unusedSectionVars false
namespace PtLoad

section interp
variable {α : Type} [Field α] [LinearOrder α] [IsStrictOrderedRing α]

theorem interpGo_node (tbl : List (α × Cx α)) (hs : (tbl.map Prod.fst).Pairwise (· < ·))
    (p : α × Cx α) (hp : p ∈ tbl) : interpGo p.1 tbl = some p.2 := by
  induction tbl with
  | nil => cases hp
  | cons q rest ih =>
    cases rest with
    | nil =>
      simp only [List.mem_singleton] at hp
      subst hp
      simp [interpGo]
    | cons q1 rest =>
      obtain ⟨x0, y0⟩ := q
      obtain ⟨x1, y1⟩ := q1
      simp only [List.map_cons, List.pairwise_cons] at hs
      have h01 : x0 < x1 := hs.1 x1 (by simp)
      rcases List.mem_cons.mp hp with rfl | hp'
      · simp only [interpGo, h01, if_true]
        congr 1
        ext <;> simp
      · have hge : ¬ (p.1 < x1) := by
          rcases List.mem_cons.mp hp' with rfl | hp''
          · exact lt_irrefl _
          · have : x1 < p.1 := hs.2.1 p.1 (List.mem_map.mpr ⟨p, hp'', rfl⟩)
            exact not_lt.mpr (le_of_lt this)
        simp only [interpGo, hge, if_false]
        exact ih (by simpa using hs.2) hp'

/-- **at every node the interpolation returns exactly the tabulated value** -/
theorem interp_node (tbl : List (α × Cx α)) (hs : (tbl.map Prod.fst).Pairwise (· < ·))
    (p : α × Cx α) (hp : p ∈ tbl) : interp p.1 tbl = some p.2 := by
  cases tbl with
  | nil => cases hp
  | cons q rest =>
    obtain ⟨x0, y0⟩ := q
    have hge : ¬ (p.1 < x0) := by
      rcases List.mem_cons.mp hp with rfl | hp'
      · exact lt_irrefl _
      · simp only [List.map_cons, List.pairwise_cons] at hs
        exact not_lt.mpr (le_of_lt (hs.1 p.1 (List.mem_map.mpr ⟨p, hp', rfl⟩)))
    simp only [interp, hge, if_false]
    exact interpGo_node _ hs p hp

/-- exact comparison of two decimals -/
def Dec.lt (a b : Dec) : Bool := a.m * ((10 ^ b.e : Nat) : Int) < b.m * ((10 ^ a.e : Nat) : Int)

theorem Dec.toNum_lt_of_lt (a b : Dec) (h : Dec.lt a b = true) : (a.toNum : α) < b.toNum := by
  unfold Dec.lt at h
  simp only [decide_eq_true_eq] at h
  unfold Dec.toNum
  have ha : (0 : α) < ((10 ^ a.e : Nat) : α) := by exact_mod_cast Nat.pow_pos (n := a.e) (by norm_num : 0 < 10)
  have hb : (0 : α) < ((10 ^ b.e : Nat) : α) := by exact_mod_cast Nat.pow_pos (n := b.e) (by norm_num : 0 < 10)
  rw [div_lt_div_iff₀ ha hb]
  have : ((a.m * ((10 ^ b.e : Nat) : Int) : Int) : α) < ((b.m * ((10 ^ a.e : Nat) : Int) : Int) : α) := by
    exact_mod_cast h
  push_cast at this ⊢
  exact this

/-- strictly increasing, positive decimals (kernel-checkable) -/
def decIncreasing : List Dec → Bool
  | [] => true
  | [a] => decide (0 < a.m)
  | a :: b :: l => decide (0 < a.m) && Dec.lt a b && decIncreasing (b :: l)

theorem decIncreasing_pairwise (l : List Dec) (h : decIncreasing l = true) :
    (l.map fun d => (d.toNum : α)).Pairwise (· < ·) ∧ ∀ d ∈ l, (0 : α) < d.toNum := by
  induction l with
  | nil => simp
  | cons a l ih =>
    cases l with
    | nil =>
      simp only [decIncreasing, decide_eq_true_eq] at h
      simp only [List.map_cons, List.map_nil, List.pairwise_cons, List.not_mem_nil, false_imp_iff, imp_true_iff,
        List.Pairwise.nil, and_self, List.mem_singleton, forall_eq, true_and]
      exact Dec.toNum_pos a h
    | cons b l =>
      simp only [decIncreasing, Bool.and_eq_true, decide_eq_true_eq] at h
      obtain ⟨hp, hpos⟩ := ih h.2
      have hab : (a.toNum : α) < b.toNum := Dec.toNum_lt_of_lt a b h.1.2
      refine ⟨?_, ?_⟩
      · simp only [List.map_cons, List.pairwise_cons] at hp ⊢
        refine ⟨?_, hp⟩
        intro x hx
        rcases List.mem_cons.mp hx with rfl | hx'
        · exact hab
        · exact lt_trans hab (hp.1 x hx')
      · intro d hd
        rcases List.mem_cons.mp hd with rfl | hd'
        · exact Dec.toNum_pos _ h.1.1
        · exact hpos d hd'

end interp

/-! ## eV → Å and reversal -/

/-- increasing positive energies give increasing wavelengths after the reversal -/
theorem table_reversed_increasing (ef : ℝ) (hef : 0 < ef) (rows : List (Dec × Dec × Dec))
    (h : decIncreasing (rows.map (·.1)) = true) :
    ((edTable ef rows).map Prod.fst).Pairwise (· < ·) := by
  obtain ⟨hp, hpos⟩ := decIncreasing_pairwise (α := ℝ) (rows.map (·.1)) h
  unfold edTable
  rw [List.map_reverse, List.pairwise_reverse]
  simp only [List.map_map]
  -- energies increasing ⇒ wavelengths decreasing
  have key : ∀ (l : List (Dec × Dec × Dec)),
      (l.map fun r => (r.1.toNum : ℝ)).Pairwise (· < ·) → (∀ r ∈ l, (0 : ℝ) < r.1.toNum) →
      (l.map (Prod.fst ∘ fun r => (neutronWavelength ef (r.1.toNum * ((1000 : Nat) : ℝ)),
                      ((r.2.1.toNum : ℝ), (r.2.2.toNum : ℝ))))).Pairwise (fun a b => b < a) := by
    intro l
    induction l with
    | nil => intro _ _; simp
    | cons r l ih =>
      intro hp hpos
      simp only [List.map_cons, List.pairwise_cons] at hp ⊢
      refine ⟨?_, ih hp.2 (fun x hx => hpos x (List.mem_cons_of_mem _ hx))⟩
      intro w hw
      simp only [List.mem_map, Function.comp_apply] at hw
      obtain ⟨x, hx, rfl⟩ := hw
      have hlt : (r.1.toNum : ℝ) < x.1.toNum := hp.1 _ (List.mem_map.mpr ⟨x, hx, rfl⟩)
      have hr0 : (0 : ℝ) < r.1.toNum := hpos r (by simp)
      have hx0 : (0 : ℝ) < x.1.toNum := hpos x (List.mem_cons_of_mem _ hx)
      show Real.sqrt (ef / (x.1.toNum * ((1000 : Nat) : ℝ))) < Real.sqrt (ef / (r.1.toNum * ((1000 : Nat) : ℝ)))
      apply Real.sqrt_lt_sqrt
      · positivity
      · apply div_lt_div_of_pos_left hef
        · positivity
        · push_cast; nlinarith
  apply key
  · rw [List.map_map] at hp; exact hp
  · intro r hr
    exact hpos r.1 (List.mem_map.mpr ⟨r, hr, rfl⟩)

/-- the wavelength of a tabulated energy is a node of the table, carrying that row's value -/
theorem edTable_mem (ef : ℝ) (rows : List (Dec × Dec × Dec)) (r : Dec × Dec × Dec) (hr : r ∈ rows) :
    (neutronWavelength ef (r.1.toNum * ((1000 : Nat) : ℝ)), ((r.2.1.toNum : ℝ), (r.2.2.toNum : ℝ)))
      ∈ edTable ef rows := by
  unfold edTable
  rw [List.mem_reverse]
  exact List.mem_map.mpr ⟨r, hr, rfl⟩

/-- **at every tabulated energy the table returns exactly the tabulated complex length** -/
theorem ed_node_returns_tabulated (ef : ℝ) (hef : 0 < ef) (rows : List (Dec × Dec × Dec))
    (h : decIncreasing (rows.map (·.1)) = true) (r : Dec × Dec × Dec) (hr : r ∈ rows) :
    interp (neutronWavelength ef (r.1.toNum * ((1000 : Nat) : ℝ))) (edTable ef rows)
      = some ((r.2.1.toNum : ℝ), (r.2.2.toNum : ℝ)) :=
  interp_node (edTable ef rows) (table_reversed_increasing ef hef rows h) _ (edTable_mem ef rows r hr)

end PtLoad
