import PtVerif.Proofs.Loaders
import PtVerif.Model.Ancillary
/-!
# What the ancillary loaders serve (core Lean only)

Every loader of C20 is a fold consing one binding per row; with distinct keys each element
(or charge state, or symbol) is served its own row, with repeated keys the last one, and keys
no row has are not bound at all (they get `None` / no attribute, never a neighbour's data).
-/
set_option linter.unusedSectionVars false
namespace PtLoad

/-! ## covalent radius -/

section cov
variable {α : Type} [Mul α] [Div α] [NatCast α] [IntCast α]

/-- the binding a Cordero line contributes (none for an alternate spin state) -/
def covKV : CovRow → Option (Nat × (α × Option α))
  | .skip => none
  | .row z r dr => some (z, ((r.toNum : α), some (dr.toNum * (Dec.mk 1 2).toNum)))

def covKey : CovRow → Option Nat
  | .skip => none
  | .row z _ _ => some z

theorem cov_fold (rows : List CovRow) (init : List (Nat × (α × Option α))) :
    rows.foldl covStep init = (rows.filterMap (covKV (α := α))).reverse ++ init := by
  induction rows generalizing init with
  | nil => rfl
  | cons r rows ih =>
    rw [List.foldl_cons, ih]
    cases r with
    | skip => simp [covStep, covKV, List.filterMap_cons]
    | row z r dr => simp [covStep, covKV, List.filterMap_cons]

/-- an element is served the radius and (0.01 ×) uncertainty of the last Cordero line with
    its atomic number -/
theorem cov_radius_last_row (pre post : List CovRow) (z : Nat) (r dr : Dec)
    (hlast : ∀ x ∈ post, covKey x ≠ some z) :
    aget z (Cov.loadRows (α := α) (pre ++ .row z r dr :: post))
      = some ((r.toNum : α), some (dr.toNum * (Dec.mk 1 2).toNum)) := by
  unfold Cov.loadRows
  rw [cov_fold, List.filterMap_append, List.filterMap_cons]
  simp only [covKV, List.reverse_append, List.reverse_cons, List.append_assoc, List.singleton_append]
  rw [aget_append_of_forall_ne]
  · simp
  · intro p hp
    simp only [List.mem_reverse, List.mem_filterMap] at hp
    obtain ⟨x, hx, hkv⟩ := hp
    cases x with
    | skip => simp [covKV] at hkv
    | row z' r' dr' =>
      simp only [covKV, Option.some.injEq] at hkv
      subst hkv
      intro e
      exact hlast _ hx (by simp only [covKey]; exact congrArg some e)

/-- an element no line names keeps the class default `None` (no binding) -/
theorem cov_radius_absent (rows : List CovRow) (z : Nat) (hz : z ≠ 0)
    (h : ∀ x ∈ rows, covKey x ≠ some z) : aget z (Cov.loadRows (α := α) rows) = none := by
  unfold Cov.loadRows
  rw [cov_fold, aget_append_of_forall_ne]
  · rw [aget_cons_ne hz]; rfl
  · intro p hp
    simp only [List.mem_reverse, List.mem_filterMap] at hp
    obtain ⟨x, hx, hkv⟩ := hp
    cases x with
    | skip => simp [covKV] at hkv
    | row z' r' dr' =>
      simp only [covKV, Option.some.injEq] at hkv
      subst hkv
      intro e
      exact h _ hx (by simp only [covKey]; exact congrArg some e)

/-- the neutron has radius 0.20 and no uncertainty unless a line names element 0 -/
theorem cov_radius_neutron (rows : List CovRow) (h : ∀ x ∈ rows, covKey x ≠ some 0) :
    aget 0 (Cov.loadRows (α := α) rows) = some ((Dec.mk 20 2).toNum, none) := by
  unfold Cov.loadRows
  rw [cov_fold, aget_append_of_forall_ne]
  · simp
  · intro p hp
    simp only [List.mem_reverse, List.mem_filterMap] at hp
    obtain ⟨x, hx, hkv⟩ := hp
    cases x with
    | skip => simp [covKV] at hkv
    | row z' r' dr' =>
      simp only [covKV, Option.some.injEq] at hkv
      subst hkv
      intro e
      exact h _ hx (by simp only [covKey]; exact congrArg some e)

end cov

/-! ## crystal structure: list index = Z -/

theorem crystal_loadGo (i : Nat) (l : List (Option Crystal)) (acc : List (Nat × Option Crystal)) (z : Nat) :
    aget z (Crystal.loadGo i l acc) = if i ≤ z ∧ z < i + l.length then l[z - i]? else aget z acc := by
  induction l generalizing i acc with
  | nil => simp [Crystal.loadGo]; omega
  | cons s rest ih =>
    rw [Crystal.loadGo, ih]
    by_cases h1 : i + 1 ≤ z ∧ z < i + 1 + rest.length
    · rw [if_pos h1, if_pos (by simp [List.length_cons]; omega)]
      have : z - i = (z - (i + 1)) + 1 := by omega
      rw [this, List.getElem?_cons_succ]
    · rw [if_neg h1]
      by_cases h2 : z = i
      · subst h2
        rw [aget_cons_self, if_pos (by simp [List.length_cons])]
        simp
      · rw [aget_cons_ne h2, if_neg (by simp [List.length_cons]; omega)]

/-- **list index = Z**: element Z is served slot Z of the list; elements beyond the list get
    no attribute -/
theorem crystal_is_index (l : List (Option Crystal)) (z : Nat) :
    aget z (Crystal.load l) = l[z]? := by
  unfold Crystal.load
  rw [crystal_loadGo]
  by_cases h : z < l.length
  · rw [if_pos (by omega)]; simp
  · rw [if_neg (by omega)]
    simp only [aget_nil]
    exact (List.getElem?_eq_none (by omega)).symm

/-! ## emission lines -/

/-- the binding a row contributes -/
def lineKV (zOf : Nat → Option Nat) (r : LineRow) : Option (Nat × (Dec × Dec)) :=
  (zOf r.sym).map fun z => (z, (r.kAlpha, r.kBeta1))

def lineStep (zOf : Nat → Option Nat) (l : List (Nat × (Dec × Dec))) (r : LineRow) :
    List (Nat × (Dec × Dec)) :=
  match zOf r.sym with
  | some z => (z, (r.kAlpha, r.kBeta1)) :: l
  | none => l

theorem Lines.loadRows_eq (zOf : Nat → Option Nat) (rows : List LineRow) :
    Lines.loadRows zOf rows = rows.foldl (lineStep zOf) [] := rfl

theorem lines_fold (zOf : Nat → Option Nat) (rows : List LineRow) (init : List (Nat × (Dec × Dec))) :
    rows.foldl (lineStep zOf) init = (rows.filterMap (lineKV zOf)).reverse ++ init := by
  induction rows generalizing init with
  | nil => rfl
  | cons r rows ih =>
    rw [List.foldl_cons, ih]
    unfold lineKV lineStep
    cases h : zOf r.sym <;> simp [h, List.filterMap_cons]

/-- the element a (last) row names by symbol is served that row's two wavelengths -/
theorem lines_last_row (zOf : Nat → Option Nat) (pre post : List LineRow) (r : LineRow) (z : Nat)
    (hz : zOf r.sym = some z) (hlast : ∀ x ∈ post, zOf x.sym ≠ some z) :
    aget z (Lines.loadRows zOf (pre ++ r :: post)) = some (r.kAlpha, r.kBeta1) := by
  rw [Lines.loadRows_eq, lines_fold, List.filterMap_append, List.filterMap_cons]
  simp only [lineKV, hz, Option.map_some, List.reverse_append, List.reverse_cons, List.append_assoc,
    List.singleton_append, List.append_nil]
  rw [aget_append_of_forall_ne]
  · simp
  · intro p hp
    simp only [List.mem_reverse, List.mem_filterMap] at hp
    obtain ⟨x, hx, hkv⟩ := hp
    unfold lineKV at hkv
    cases hzx : zOf x.sym with
    | none => rw [hzx] at hkv; simp at hkv
    | some z' =>
      rw [hzx] at hkv
      simp only [Option.map_some, Option.some.injEq] at hkv
      subst hkv
      intro e
      exact hlast x hx (by rw [hzx]; exact congrArg some e)

/-- an element no row names has no `K_alpha` attribute -/
theorem lines_absent (zOf : Nat → Option Nat) (rows : List LineRow) (z : Nat)
    (h : ∀ x ∈ rows, zOf x.sym ≠ some z) : aget z (Lines.loadRows zOf rows) = none := by
  rw [Lines.loadRows_eq, lines_fold, aget_append_of_forall_ne]
  · rfl
  · intro p hp
    simp only [List.mem_reverse, List.mem_filterMap] at hp
    obtain ⟨x, hx, hkv⟩ := hp
    unfold lineKV at hkv
    cases hzx : zOf x.sym with
    | none => rw [hzx] at hkv; simp at hkv
    | some z' =>
      rw [hzx] at hkv
      simp only [Option.map_some, Option.some.injEq] at hkv
      subst hkv
      intro e
      exact h x hx (by rw [hzx]; exact congrArg some e)

/-! ## magnetic form factors -/

/-- what the coefficient tuple `jn` of charge state `(z, q)` is after reading `rows`, starting
    from `init`: the values of the last row with that element, charge and kind -/
def magSpec (zOf : Nat → Option Nat) (z q : Nat) (jn : Jn) (rows : List MagRow)
    (init : Option (List Dec)) : Option (List Dec) :=
  rows.foldl (fun acc r => if zOf r.sym = some z ∧ r.charge = q ∧ r.jn = jn then some r.values else acc) init

theorem MagRec.get_set (r : MagRec) (j j' : Jn) (v : List Dec) :
    (r.set j v).get j' = if j' = j then some v else r.get j' := by
  cases j <;> cases j' <;> simp [MagRec.set, MagRec.get]

def magStep (zOf : Nat → Option Nat) (l : List ((Nat × Nat) × MagRec)) (r : MagRow) :
    List ((Nat × Nat) × MagRec) :=
  match zOf r.sym with
  | some z => ((z, r.charge), ((aget (z, r.charge) l).getD {}).set r.jn r.values) :: l
  | none => l

theorem mag_fold_get (zOf : Nat → Option Nat) (z q : Nat) (jn : Jn) (rows : List MagRow)
    (l : List ((Nat × Nat) × MagRec)) :
    ((aget (z, q) (rows.foldl (magStep zOf) l)).getD {}).get jn
      = magSpec zOf z q jn rows (((aget (z, q) l).getD {}).get jn) := by
  induction rows generalizing l with
  | nil => rfl
  | cons r rows ih =>
    rw [List.foldl_cons, ih]
    unfold magSpec
    rw [List.foldl_cons]
    congr 1
    unfold magStep
    cases hz : zOf r.sym with
    | none => simp
    | some z' =>
      simp only [Option.some.injEq]
      by_cases hk : (z, q) = (z', r.charge)
      · have h1 : z' = z := by simpa using (congrArg Prod.fst hk).symm
        have h2 : r.charge = q := by simpa using (congrArg Prod.snd hk).symm
        subst h1; subst h2
        rw [aget_cons_self]
        simp only [Option.getD_some, MagRec.get_set, true_and]
        by_cases hj : jn = r.jn
        · subst hj; simp
        · rw [if_neg hj, if_neg (fun e => hj e.symm)]
      · rw [aget_cons_ne hk]
        have : ¬ (z' = z ∧ r.charge = q ∧ r.jn = jn) := by
          intro ⟨e1, e2, _⟩
          exact hk (by rw [e1, e2])
        rw [if_neg this]

theorem Mag.loadRows_eq (zOf : Nat → Option Nat) (rows : List MagRow) :
    Mag.loadRows zOf rows = rows.foldl (magStep zOf) [] := rfl

/-- **each charge state is served the coefficient tuples of its own entries**: `jn` of
    `(z, q)` is the tuple of the last entry with that element, charge and kind; `none` (no such
    attribute) when there is none -/
theorem mag_coefficients (zOf : Nat → Option Nat) (rows : List MagRow) (z q : Nat) (jn : Jn) :
    ((aget (z, q) (Mag.loadRows zOf rows)).getD {}).get jn = magSpec zOf z q jn rows none := by
  rw [Mag.loadRows_eq, mag_fold_get]
  cases jn <;> rfl

theorem magSpec_last (zOf : Nat → Option Nat) (z q : Nat) (jn : Jn) (pre post : List MagRow) (r : MagRow)
    (hr : zOf r.sym = some z ∧ r.charge = q ∧ r.jn = jn)
    (hlast : ∀ x ∈ post, ¬(zOf x.sym = some z ∧ x.charge = q ∧ x.jn = jn)) (init : Option (List Dec)) :
    magSpec zOf z q jn (pre ++ r :: post) init = some r.values := by
  unfold magSpec
  rw [List.foldl_append, List.foldl_cons, if_pos hr]
  generalize some r.values = v
  induction post generalizing v with
  | nil => rfl
  | cons x post ih =>
    rw [List.foldl_cons, if_neg (hlast x (by simp))]
    exact ih (fun y hy => hlast y (List.mem_cons_of_mem _ hy)) v

theorem magSpec_none (zOf : Nat → Option Nat) (z q : Nat) (jn : Jn) (rows : List MagRow)
    (h : ∀ x ∈ rows, ¬(zOf x.sym = some z ∧ x.charge = q ∧ x.jn = jn)) (init : Option (List Dec)) :
    magSpec zOf z q jn rows init = init := by
  unfold magSpec
  induction rows generalizing init with
  | nil => rfl
  | cons x rows ih =>
    rw [List.foldl_cons, if_neg (h x (by simp))]
    exact ih (fun y hy => h y (List.mem_cons_of_mem _ hy)) init

/-- a charge state no entry names does not exist (`KeyError`, not a neighbour's data) -/
theorem mag_absent (zOf : Nat → Option Nat) (rows : List MagRow) (z q : Nat)
    (h : ∀ x ∈ rows, ¬(zOf x.sym = some z ∧ x.charge = q)) :
    aget (z, q) (Mag.loadRows zOf rows) = none := by
  rw [Mag.loadRows_eq]
  have key : ∀ (l : List ((Nat × Nat) × MagRec)), aget (z, q) l = none →
      aget (z, q) (rows.foldl (magStep zOf) l) = none := by
    induction rows with
    | nil => intro l hl; exact hl
    | cons x rows ih =>
      intro l hl
      rw [List.foldl_cons]
      apply ih (fun y hy => h y (List.mem_cons_of_mem _ hy))
      unfold magStep
      cases hz : zOf x.sym with
      | none => exact hl
      | some z' =>
        have : (z, q) ≠ (z', x.charge) := by
          intro e
          have h1 : z' = z := by simpa using (congrArg Prod.fst e).symm
          have h2 : x.charge = q := by simpa using (congrArg Prod.snd e).symm
          exact h x (by simp) ⟨by rw [hz, h1], h2⟩
        simp only []
        rw [aget_cons_ne this]
        exact hl
  exact key [] rfl

/-! ## Cromer-Mann entries -/

theorem cm_fold (es : List CMEntry) (init : List (String × CMEntry)) :
    es.foldl (fun l e => (e.symbol, e) :: l) init = (es.map fun e => (e.symbol, e)).reverse ++ init :=
  foldl_cons_eq (fun e : CMEntry => (e.symbol, e)) es init

/-- **`getCMformula(symbol)` returns the (last) entry with that symbol** – with its own
    a1..a5, c, b1..b5 -/
theorem cm_entry_last (pre post : List CMEntry) (e : CMEntry) (hlast : ∀ x ∈ post, x.symbol ≠ e.symbol) :
    aget e.symbol (CM.load (pre ++ e :: post)) = some e := by
  unfold CM.load
  rw [cm_fold]
  exact aget_reverse_map_last (fun e : CMEntry => e.symbol) (fun e => e) pre post e hlast []

theorem cm_entry_of_mem (es : List CMEntry) (hnd : (es.map (·.symbol)).Nodup) (e : CMEntry) (he : e ∈ es) :
    aget e.symbol (CM.load es) = some e := by
  unfold CM.load
  rw [cm_fold]
  exact aget_reverse_map_of_mem (fun e : CMEntry => e.symbol) (fun e => e) es hnd e he []

/-- a symbol no entry has raises `KeyError` -/
theorem cm_absent (es : List CMEntry) (s : String) (h : ∀ x ∈ es, x.symbol ≠ s) :
    aget s (CM.load es) = none := by
  unfold CM.load
  rw [cm_fold]
  rw [aget_reverse_map_of_not_mem (fun e : CMEntry => e.symbol) (fun e => e) es s h]
  rfl

end PtLoad

/-! ## helpers for the embedded tables -/
namespace PtLoad

/-- if every entry with the key of `r` carries `r`'s values, `r`'s key is served `r`'s values -/
theorem magSpec_of_agree (zOf : Nat → Option Nat) (z q : Nat) (jn : Jn) (rows : List MagRow) (r : MagRow)
    (hr : r ∈ rows) (hk : zOf r.sym = some z ∧ r.charge = q ∧ r.jn = jn)
    (hall : ∀ x ∈ rows, (zOf x.sym = some z ∧ x.charge = q ∧ x.jn = jn) → x.values = r.values)
    (init : Option (List Dec)) : magSpec zOf z q jn rows init = some r.values := by
  -- split at the last matching row
  have key : ∀ (l : List MagRow) (init : Option (List Dec)),
      (∀ x ∈ l, (zOf x.sym = some z ∧ x.charge = q ∧ x.jn = jn) → x.values = r.values) →
      (init = some r.values ∨ ∃ x ∈ l, zOf x.sym = some z ∧ x.charge = q ∧ x.jn = jn) →
      magSpec zOf z q jn l init = some r.values := by
    intro l
    induction l with
    | nil =>
      intro init _ h
      rcases h with h | ⟨x, hx, _⟩
      · exact h
      · cases hx
    | cons x l ih =>
      intro init hall h
      unfold magSpec
      rw [List.foldl_cons]
      by_cases hx : zOf x.sym = some z ∧ x.charge = q ∧ x.jn = jn
      · rw [if_pos hx]
        exact ih _ (fun y hy => hall y (List.mem_cons_of_mem _ hy)) (Or.inl (by rw [hall x (by simp) hx]))
      · rw [if_neg hx]
        apply ih _ (fun y hy => hall y (List.mem_cons_of_mem _ hy))
        rcases h with h | ⟨y, hy, hyk⟩
        · exact Or.inl h
        · rcases List.mem_cons.mp hy with rfl | hy'
          · exact absurd hyk hx
          · exact Or.inr ⟨y, hy', hyk⟩
  exact key rows init hall (Or.inr ⟨r, hr, hk⟩)

/-- the key under which an entry is stored -/
def magKey (zOf : Nat → Option Nat) (r : MagRow) : Option Nat × Nat × Jn := (zOf r.sym, r.charge, r.jn)

def jnIdx : Jn → Nat
  | .j0 => 0 | .J => 1 | .j2 => 2 | .j4 => 3 | .j6 => 4

/-- a number computed from the key (equal keys ⇒ equal codes), cheap to compare in the kernel -/
def magCode (zOf : Nat → Option Nat) (r : MagRow) : Nat :=
  match zOf r.sym with
  | some z => (z * 1024 + r.charge) * 8 + jnIdx r.jn + 1
  | none => 0

/-- entries with equal keys carry equal values (checked pairwise, kind by kind, on
    precomputed codes) -/
def magAgree (zOf : Nat → Option Nat) (rows : List MagRow) : Bool :=
  [Jn.j0, .J, .j2, .j4, .j6].all fun j =>
    let ks := (rows.filter fun r => r.jn == j).map fun r => (magCode zOf r, r.values)
    ks.all fun p => ks.all fun q => p.1 != q.1 || p.2 == q.2

theorem magAgree_sound (zOf : Nat → Option Nat) (rows : List MagRow) (h : magAgree zOf rows = true)
    (r x : MagRow) (hr : r ∈ rows) (hx : x ∈ rows) (hk : magKey zOf x = magKey zOf r) : x.values = r.values := by
  unfold magAgree at h
  have hj : r.jn ∈ [Jn.j0, .J, .j2, .j4, .j6] := by cases r.jn <;> simp
  have h := List.all_eq_true.mp h r.jn hj
  simp only [List.all_eq_true, List.mem_map, List.mem_filter, forall_exists_index, and_imp,
    Bool.or_eq_true, bne_iff_ne, ne_eq, beq_iff_eq] at h
  simp only [magKey, Prod.mk.injEq] at hk
  have hc : magCode zOf x = magCode zOf r := by
    unfold magCode
    rw [hk.1, hk.2.1, hk.2.2]
  rcases h _ x hx hk.2.2 rfl _ r hr rfl rfl with h1 | h1
  · exact absurd hc h1
  · exact h1

/-- in a list whose mapped keys are distinct, a member has no later entry with its key -/
theorem split_of_mem_nodup_filterMap {β κ : Type} (key : β → Option κ) (l : List β)
    (hnd : (l.filterMap key).Nodup) (s : β) (k : κ) (hk : key s = some k) (hs : s ∈ l) :
    ∃ pre post, l = pre ++ s :: post ∧ ∀ x ∈ post, key x ≠ some k := by
  obtain ⟨pre, post, rfl⟩ := List.append_of_mem hs
  refine ⟨pre, post, rfl, ?_⟩
  intro x hx e
  rw [List.filterMap_append, List.filterMap_cons, hk] at hnd
  have := (List.nodup_append.mp hnd).2.1
  rw [List.nodup_cons] at this
  exact this.1 (List.mem_filterMap.mpr ⟨x, hx, e⟩)

end PtLoad

/-! ## which f0 entry an element or ion looks up -/
namespace PtLoad

def cmSuffixChar (c : Char) : Bool := "012345678+-".toList.contains c

/-- for a symbol that does not end in a digit or sign, `fxrayatstol(symbol, ·, charge)` looks up
    `symbol` itself for charge 0 and `symbol<|q| reversed><+|->` otherwise -/
theorem cmKey_of_symbol (s : Str) (c : Char) (hc : cmSuffixChar c = false) (q : Int) :
    cmKey (s ++ [c]) (some q)
      = if q = 0 then s ++ [c]
        else (s ++ [c]) ++ (toString q.natAbs).toList.reverse ++ [if q > 0 then '+' else '-'] := by
  unfold cmKey
  have hbase : ((s ++ [c]).reverse.dropWhile fun c => "012345678+-".toList.contains c).reverse = s ++ [c] := by
    rw [List.reverse_append]
    simp only [List.reverse_cons, List.reverse_nil, List.nil_append, List.singleton_append]
    have hneg : ¬ ((fun c => "012345678+-".toList.contains c) c = true) := by
      have : ("012345678+-".toList.contains c) = false := hc
      simp only [this]; exact Bool.false_ne_true
    rw [List.dropWhile_cons_of_neg hneg]
    simp
  simp only [hbase]

end PtLoad
