import PtVerif.Proofs.NeutronInvariance
/-!
# C17: the composite calculator equals the direct calculation
-/
namespace PtProofs.Neutron
open PtModel PtModel.Neutron

/-! ## C17: the composite calculator -/

/-! ### which atoms occur in a structure, and the keys of its atom dict -/

mutual
def fragOccurs (a : Atom) : Frag ℝ → Prop
  | .atom b => b = a
  | .group is => itemsOccurs a is
def itemsOccurs (a : Atom) : Items ℝ → Prop
  | .nil => False
  | .cons _ f r => fragOccurs a f ∨ itemsOccurs a r
end

theorem mem_keys_bump (t : List (Atom × ℝ)) (b : Atom) (x : ℝ) (a : Atom) :
    a ∈ (bump t b x).map Prod.fst ↔ a ∈ t.map Prod.fst ∨ a = b := by
  rw [keys_bump]
  split
  · rename_i h
    constructor
    · intro h'; exact Or.inl h'
    · rintro (h' | h'); exact h'; subst h'; exact h
  · simp

theorem mem_keys_mergeScaled (t p : List (Atom × ℝ)) (c : ℝ) (a : Atom) :
    a ∈ (mergeScaled t p c).map Prod.fst ↔ a ∈ t.map Prod.fst ∨ a ∈ p.map Prod.fst := by
  unfold mergeScaled
  induction p generalizing t with
  | nil => simp
  | cons e r ih =>
    simp only [List.foldl_cons, List.map_cons, List.mem_cons]
    rw [ih, mem_keys_bump]
    constructor
    · rintro ((h | h) | h)
      · exact Or.inl h
      · exact Or.inr (Or.inl h)
      · exact Or.inr (Or.inr h)
    · rintro (h | h | h)
      · exact Or.inl (Or.inl h)
      · exact Or.inl (Or.inr h)
      · exact Or.inr h

mutual
theorem mem_keys_fragCount (f : Frag ℝ) (a : Atom) :
    a ∈ f.count.map Prod.fst ↔ fragOccurs a f := by
  cases f with
  | atom b => simp [Frag.count, fragOccurs, eq_comm]
  | group is =>
    simp only [Frag.count, fragOccurs]
    rw [mem_keys_countAcc]; simp
theorem mem_keys_countAcc (s : Items ℝ) (t : List (Atom × ℝ)) (a : Atom) :
    a ∈ (s.countAcc t).map Prod.fst ↔ a ∈ t.map Prod.fst ∨ itemsOccurs a s := by
  cases s with
  | nil => simp [Items.countAcc, itemsOccurs]
  | cons c f r =>
    simp only [Items.countAcc, itemsOccurs]
    rw [mem_keys_countAcc, mem_keys_mergeScaled, mem_keys_fragCount]
    tauto
end

theorem mem_keys_atoms (s : Items ℝ) (a : Atom) :
    a ∈ s.atoms.map Prod.fst ↔ itemsOccurs a s := by
  unfold Items.atoms; rw [mem_keys_countAcc]; simp

theorem allData_atoms_iff (t : Tbl ℝ) (s : Items ℝ) :
    AllData t s.atoms ↔ ∀ a, itemsOccurs a s → (t.neutron a).isSome = true := by
  unfold AllData
  constructor
  · intro h a ha
    obtain ⟨e, he, hea⟩ := List.mem_map.mp ((mem_keys_atoms s a).mpr ha)
    subst hea; exact h e he
  · intro h e he
    exact h e.1 ((mem_keys_atoms s e.1).mp (List.mem_map_of_mem he))

theorem itemsOccurs_append (s u : Items ℝ) (a : Atom) :
    itemsOccurs a (s.append u) ↔ itemsOccurs a s ∨ itemsOccurs a u := by
  match s with
  | .nil => simp [Items.append, itemsOccurs]
  | .cons c f r =>
    simp only [Items.append, itemsOccurs]
    rw [itemsOccurs_append r u a]; tauto

theorem itemsOccurs_rmulS (n : ℝ) (s : Items ℝ) (a : Atom) :
    itemsOccurs a (rmulS n s) ↔ itemsOccurs a s := by
  unfold rmulS
  by_cases h : (n == 1) = true
  · simp [h]
  · simp only [h, Bool.false_eq_true, if_false]
    match s with
    | .nil => simp
    | .cons q f .nil => simp [itemsOccurs]
    | .cons q f (.cons q' f' r) => simp [itemsOccurs, fragOccurs]

/-- the formula `Σ wᵢ·mᵢ` as Python builds it: `__rmul__` for each product, `__add__` to join -/
noncomputable def weighted : List ℝ → List (Items ℝ) → Items ℝ
  | w :: ws, m :: ms => addS (rmulS w m) (weighted ws ms)
  | _, _ => .nil

theorem itemsOccurs_weighted (ws : List ℝ) (ms : List (Items ℝ)) (h : ws.length = ms.length)
    (a : Atom) : itemsOccurs a (weighted ws ms) ↔ ∃ m ∈ ms, itemsOccurs a m := by
  induction ws generalizing ms with
  | nil =>
    cases ms with
    | nil => simp [weighted, itemsOccurs]
    | cons m r => simp at h
  | cons w r ih =>
    cases ms with
    | nil => simp at h
    | cons m r' =>
      simp only [weighted, addS, itemsOccurs_append, itemsOccurs_rmulS, List.mem_cons,
        exists_eq_or_imp]
      rw [ih r' (by simpa using h)]

theorem flatMass_weighted (f : Atom → ℝ) (ws : List ℝ) (ms : List (Items ℝ)) :
    (weighted ws ms).flatMass f = (List.zipWith (fun w m => w * m.flatMass f) ws ms).sum := by
  induction ws generalizing ms with
  | nil => cases ms <;> simp [weighted, Items.flatMass]
  | cons w r ih =>
    cases ms with
    | nil => simp [weighted, Items.flatMass]
    | cons m r' =>
      simp only [weighted, addS, Items.flatMass_append, flatMass_rmulS, List.zipWith_cons_cons,
        List.sum_cons, ih]
      ring

theorem wsum_atoms (f : Atom → ℝ) (s : Items ℝ) : wsum f s.atoms = s.flatMass f := by
  rw [← massOf_eq_wsum]; exact Items.mass_eq_flat f s

/-! ### the precomputed pieces -/

theorem sumPiece_go_allData (t : Tbl ℝ) (w : ℝ) (l : List (Atom × ℝ)) (a : Acc ℝ)
    (h : AllData t l) : l.foldl (pieceStep t w) (some a) = some (accSums t w a l) := by
  induction l generalizing a with
  | nil => simp [accSums]
  | cons e r ih =>
    have he : (t.neutron e.1).isSome = true := h e (by simp)
    obtain ⟨rec, hrec⟩ := Option.isSome_iff_exists.mp he
    have hr : AllData t r := fun x hx => h x (by simp [hx])
    simp only [List.foldl, pieceStep, hrec]
    rw [ih _ hr]
    simp only [accSums, pa, hrec, Cx.add, Cx.smul, List.map_cons, List.sum_cons, Option.some.injEq,
      Acc.mk.injEq, Prod.mk.injEq]
    refine ⟨?_, ?_, ⟨?_, ?_⟩, ?_⟩ <;> ring

theorem sumPiece_allData (t : Tbl ℝ) (w : ℝ) (l : List (Atom × ℝ)) (h : AllData t l) :
    sumPiece t w l = some (accSums t w Acc.zero l) := sumPiece_go_allData t w l Acc.zero h

theorem foldl_pieceStep_none (t : Tbl ℝ) (w : ℝ) (l : List (Atom × ℝ)) :
    l.foldl (pieceStep t w) none = none := by
  induction l with
  | nil => rfl
  | cons e r ih => simpa [List.foldl, pieceStep] using ih

theorem sumPiece_go_missing (t : Tbl ℝ) (w : ℝ) (l : List (Atom × ℝ)) (a : Option (Acc ℝ))
    (h : ¬ AllData t l) : l.foldl (pieceStep t w) a = none := by
  induction l generalizing a with
  | nil => exact absurd (fun e he => by simp at he) h
  | cons e r ih =>
    by_cases he : (t.neutron e.1).isSome = true
    · have hr : ¬ AllData t r := by
        intro hr; apply h; intro x hx
        rcases List.mem_cons.mp hx with rfl | hx
        · exact he
        · exact hr x hx
      simp only [List.foldl]; exact ih _ hr
    · have : t.neutron e.1 = none := by
        cases hn : t.neutron e.1 with
        | none => rfl
        | some v => simp [hn] at he
      simp only [List.foldl]
      have : pieceStep t w a e = none := by
        unfold pieceStep; cases a <;> simp [this]
      rw [this]; exact foldl_pieceStep_none t w r

theorem sumPiece_missing (t : Tbl ℝ) (w : ℝ) (l : List (Atom × ℝ)) (h : ¬ AllData t l) :
    sumPiece t w l = none := sumPiece_go_missing t w l _ h

theorem mapM_sumPiece_allData (t : Tbl ℝ) (w : ℝ) (ls : List (List (Atom × ℝ)))
    (h : ∀ l ∈ ls, AllData t l) :
    ls.mapM (sumPiece t w) = some (ls.map fun l => accSums t w Acc.zero l) := by
  induction ls with
  | nil => rfl
  | cons l r ih =>
    rw [List.mapM_cons, sumPiece_allData t w l (h l (by simp)), ih (fun x hx => h x (by simp [hx]))]
    rfl

theorem mapM_sumPiece_missing (t : Tbl ℝ) (w : ℝ) (ls : List (List (Atom × ℝ)))
    (h : ∃ l ∈ ls, ¬ AllData t l) : ls.mapM (sumPiece t w) = none := by
  induction ls with
  | nil => obtain ⟨l, hl, _⟩ := h; simp at hl
  | cons l r ih =>
    rw [List.mapM_cons]
    by_cases hl : AllData t l
    · have : ∃ l ∈ r, ¬ AllData t l := by
        obtain ⟨x, hx, hnx⟩ := h
        rcases List.mem_cons.mp hx with rfl | hx
        · exact absurd hl hnx
        · exact ⟨x, hx, hnx⟩
      rw [ih this, sumPiece_allData t w l hl]; rfl
    · rw [sumPiece_missing t w l hl]; rfl

/-! ### the calculator equals the direct calculation -/

/-- what the calculator reports for a direct result: the three SLDs, zeros for the vacuum,
    `(None, None, None)` for missing data -/
noncomputable def compOf : Outcome ℝ → CompOut ℝ
  | .ok s => .ok s.sldRe s.sldIm s.sldInc
  | .vacuum => .zeros
  | .missing => .missing

theorem foldl_add_eq_sum (l : List ℝ) (s0 : ℝ) : l.foldl (· + ·) s0 = s0 + l.sum := by
  induction l generalizing s0 with
  | nil => simp
  | cons x r ih => simp only [List.foldl_cons, List.sum_cons, ih]; ring

theorem dotSum_eq (ws ps : List ℝ) : dotSum ws ps = (List.zipWith (· * ·) ws ps).sum := by
  unfold dotSum; rw [foldl_add_eq_sum]; simp

theorem dotSumC_eq (ws : List ℝ) (ps : List (Cx ℝ)) :
    dotSumC ws ps = (dotSum ws (ps.map Prod.fst), dotSum ws (ps.map Prod.snd)) := by
  unfold dotSumC
  rw [dotSum_eq, dotSum_eq]
  have : ∀ (z : Cx ℝ), (List.zipWith Cx.smul ws ps).foldl Cx.add z
      = (z.1 + (List.zipWith (· * ·) ws (ps.map Prod.fst)).sum,
         z.2 + (List.zipWith (· * ·) ws (ps.map Prod.snd)).sum) := by
    induction ws generalizing ps with
    | nil => intro z; simp
    | cons x r ih =>
      intro z
      cases ps with
      | nil => simp
      | cons y r' =>
        simp only [List.zipWith_cons_cons, List.foldl_cons, List.map_cons, List.sum_cons]
        rw [ih]; simp only [Cx.add, Cx.smul]; ext <;> simp <;> ring
  rw [this]; simp

/-- `Σᵢ wᵢ · (Σ over mᵢ of n·f)` is the sum over the combined formula -/
theorem dotSum_wsum (f : Atom → ℝ) (ws : List ℝ) (ms : List (Items ℝ)) :
    dotSum ws (ms.map fun m => wsum f m.atoms) = wsum f (weighted ws ms).atoms := by
  rw [dotSum_eq, wsum_atoms, flatMass_weighted]
  have : (ms.map fun m => wsum f m.atoms) = ms.map fun m => m.flatMass f := by
    apply List.map_congr_left; intro m _; exact wsum_atoms f m
  rw [this, List.zipWith_map_right]

theorem compositeCompute_eq (parts : List (Acc ℝ)) (ws : List ℝ) (ρ w : ℝ) (A : Acc ℝ)
    (h1 : dotSum ws (parts.map (·.molarMass)) = A.molarMass)
    (h2 : dotSum ws (parts.map (·.numAtoms)) = A.numAtoms)
    (h3 : dotSumC ws (parts.map (·.bc)) = A.bc)
    (h4 : dotSum ws (parts.map (·.sigS)) = A.sigS) :
    compositeCompute parts ws ρ = compOf (finish A ρ w) := by
  unfold compositeCompute finish
  simp only [h1, h2, h3, h4]
  by_cases hz : A.molarMass * ρ = 0
  · simp [hz, compOf]
  · simp only [beq_iff_eq, hz, if_false, compOf, calculateScattering, cellVolume]

theorem allData_weighted (t : Tbl ℝ) (ms : List (Items ℝ)) (ws : List ℝ)
    (hlen : ws.length = ms.length) :
    AllData t (weighted ws ms).atoms ↔ ∀ m ∈ ms, AllData t m.atoms := by
  constructor
  · intro hW m hm
    rw [allData_atoms_iff] at hW ⊢
    intro a ha
    exact hW a ((itemsOccurs_weighted ws ms hlen a).mpr ⟨m, hm, ha⟩)
  · intro hd
    rw [allData_atoms_iff]
    intro a ha
    obtain ⟨m, hm, hma⟩ := (itemsOccurs_weighted ws ms hlen a).mp ha
    exact (allData_atoms_iff t m).mp (hd m hm) a hma

/-- **C17**: the calculator built from the materials and applied to weights `ws` and density `ρ`
    returns the real, imaginary and incoherent SLD of the direct calculation on the formula
    `Σ wᵢ·mᵢ`: `0, 0, 0` where the direct calculation returns the vacuum tuple and
    `(None, None, None)` where it does (some material contains an atom without SLD) -/
theorem composite_eq_direct (t : Tbl ℝ) (ms : List (Items ℝ)) (ws : List ℝ) (ρ w : ℝ)
    (hlen : ws.length = ms.length) :
    compositeSld t (ms.map Items.atoms) w ws ρ
      = compOf (neutronScattering t (weighted ws ms).atoms ρ w) := by
  by_cases hd : ∀ m ∈ ms, AllData t m.atoms
  · have hW : AllData t (weighted ws ms).atoms := (allData_weighted t ms ws hlen).mpr hd
    unfold compositeSld
    rw [mapM_sumPiece_allData t w _ (by
      intro l hl; obtain ⟨m, hm, rfl⟩ := List.mem_map.mp hl; exact hd m hm)]
    rw [neutronScattering_allData t _ ρ w hW]
    simp only [List.map_map]
    have hproj : ∀ (g : Acc ℝ → ℝ) (f : Atom → ℝ), (∀ l, g (accSums t w Acc.zero l) = wsum f l) →
        dotSum ws ((ms.map ((fun l => accSums t w Acc.zero l) ∘ Items.atoms)).map g)
          = g (accSums t w Acc.zero (weighted ws ms).atoms) := by
      intro g f hg
      rw [hg, ← dotSum_wsum, List.map_map]
      congr 1; apply List.map_congr_left; intro m _; simp [hg]
    apply compositeCompute_eq
    · exact hproj (·.molarMass) t.atomMass (fun l => by rw [accSums_zero_eq_wsum])
    · exact hproj (·.numAtoms) (fun _ => 1) (fun l => by rw [accSums_zero_eq_wsum])
    · rw [dotSumC_eq]
      have h1 := hproj (fun a => a.bc.1) (fun a => (pa t w a).1.1) (fun l => by rw [accSums_zero_eq_wsum])
      have h2 := hproj (fun a => a.bc.2) (fun a => (pa t w a).1.2) (fun l => by rw [accSums_zero_eq_wsum])
      ext
      · simpa [List.map_map, Function.comp_def] using h1
      · simpa [List.map_map, Function.comp_def] using h2
    · exact hproj (·.sigS) (fun a => (pa t w a).2) (fun l => by rw [accSums_zero_eq_wsum])
  · have hex : ∃ l ∈ ms.map Items.atoms, ¬ AllData t l := by
      by_contra hc
      apply hd; intro m hm
      by_contra hm'
      exact hc ⟨m.atoms, List.mem_map_of_mem hm, hm'⟩
    have hW : ¬ AllData t (weighted ws ms).atoms :=
      fun hW => hd ((allData_weighted t ms ws hlen).mp hW)
    unfold compositeSld
    rw [mapM_sumPiece_missing t w _ hex, neutronScattering_missing t _ ρ w hW]
    rfl

/-- **zeros**: zero total weight (all weights 0) or zero density gives `0, 0, 0`, like the
    direct calculation's vacuum tuple -/
theorem zero_gives_zeros (t : Tbl ℝ) (ms : List (Items ℝ)) (ws : List ℝ) (ρ w : ℝ)
    (hlen : ws.length = ms.length) (hd : ∀ m ∈ ms, AllData t m.atoms)
    (hz : ρ = 0 ∨ ∀ x ∈ ws, x = 0) :
    compositeSld t (ms.map Items.atoms) w ws ρ = .zeros ∧
      neutronSld t (weighted ws ms).atoms ρ w = some (0, 0, 0) := by
  have hW : AllData t (weighted ws ms).atoms := (allData_weighted t ms ws hlen).mpr hd
  have hvac : neutronScattering t (weighted ws ms).atoms ρ w = .vacuum := by
    rw [vacuum_iff t _ ρ w hW]
    rcases hz with hz | hz
    · rw [hz, mul_zero]
    · have : Spec.molarMass t (weighted ws ms).atoms = 0 := by
        rw [← molarMass_spec]
        have := wsum_atoms t.atomMass (weighted ws ms)
        unfold wsum at this; rw [this, flatMass_weighted]
        have hall : ∀ y ∈ List.zipWith (fun w m => w * Items.flatMass t.atomMass m) ws ms, y = 0 := by
          intro y hy
          obtain ⟨i, hi, rfl⟩ := List.mem_iff_getElem.mp hy
          simp only [List.getElem_zipWith]
          rw [hz _ (List.getElem_mem _)]; ring
        exact List.sum_eq_zero hall
      rw [this, zero_mul]
  refine ⟨?_, ?_⟩
  · rw [composite_eq_direct t ms ws ρ w hlen, hvac]; rfl
  · unfold neutronSld; rw [hvac]; rfl

/-! ### vector wavelength for the calculator -/

theorem any_any_missing_iff (t : Tbl ℝ) (mats : List (List (Atom × ℝ))) :
    mats.any (fun m => m.any fun e => (t.neutron e.1).isNone) = true ↔ ∃ l ∈ mats, ¬ AllData t l := by
  simp only [List.any_eq_true]
  constructor
  · rintro ⟨m, hm, h⟩
    exact ⟨m, hm, (any_missing_iff t m).mp (by simpa [List.any_eq_true] using h)⟩
  · rintro ⟨m, hm, h⟩
    exact ⟨m, hm, by simpa [List.any_eq_true] using (any_missing_iff t m).mpr h⟩

theorem compositeCompute_ok_of_nonzero (parts : List (Acc ℝ)) (ws : List ℝ) (ρ : ℝ)
    (h : dotSum ws (parts.map (·.molarMass)) * ρ ≠ 0) :
    ∃ a b c, compositeCompute parts ws ρ = .ok a b c := by
  unfold compositeCompute
  simp only [beq_iff_eq, h, if_false]
  exact ⟨_, _, _, rfl⟩

theorem compositeCompute_zero (parts : List (Acc ℝ)) (ws : List ℝ) (ρ : ℝ)
    (h : dotSum ws (parts.map (·.molarMass)) * ρ = 0) :
    compositeCompute parts ws ρ = .zeros := by
  unfold compositeCompute
  simp [h]

/-- **vector wavelength**: the `i`-th entry of the calculator built for a wavelength vector is the
    calculator built for the `i`-th wavelength; the result has one entry per wavelength -/
theorem composite_vector_is_map (t : Tbl ℝ) (mats : List (List (Atom × ℝ))) (ws weights : List ℝ)
    (ρ : ℝ) (i : Nat) (hi : i < ws.length) :
    (compositeSldV t mats ws weights ρ).get? i = some (compositeSld t mats ws[i] weights ρ) := by
  unfold compositeSldV compositeSld
  by_cases hd : ∀ l ∈ mats, AllData t l
  · have hany : mats.any (fun m => m.any fun e => (t.neutron e.1).isNone) = false := by
      rw [Bool.eq_false_iff]
      intro h
      obtain ⟨l, hl, hn⟩ := (any_any_missing_iff t mats).mp h
      exact hn (hd l hl)
    rw [mapM_sumPiece_allData t ws[i] mats hd]
    have hparts : mats.map (sumsAt t ws[i]) = mats.map fun l => accSums t ws[i] Acc.zero l := by
      apply List.map_congr_left; intro l hl; exact sumsAt_allData t _ l (hd l hl)
    have hmm : (mats.map fun l => accSums t ws[i] Acc.zero l).map (·.molarMass)
        = mats.map (molarMassOf t) := by
      rw [List.map_map]; apply List.map_congr_left; intro l _
      simp [molarMassOf_eq, accSums, Acc.zero]
    simp only [hany, Bool.false_eq_true, if_false]
    by_cases hz : dotSum weights (mats.map (molarMassOf t)) * ρ = 0
    · simp only [beq_iff_eq, hz, if_true, CompOutV.get?]
      rw [compositeCompute_zero _ _ _ (by rw [hmm]; exact hz)]
    · simp only [beq_iff_eq, hz, if_false, CompOutV.get?, List.getElem?_map,
        List.getElem?_eq_getElem hi, Option.map_some, Option.some.injEq]
      rw [hparts]
      obtain ⟨a, b, c, habc⟩ := compositeCompute_ok_of_nonzero
        (mats.map fun l => accSums t ws[i] Acc.zero l) weights ρ (by rw [hmm]; exact hz)
      rw [habc]; rfl
  · have hex : ∃ l ∈ mats, ¬ AllData t l := by
      by_contra hc; apply hd; intro l hl; by_contra hn; exact hc ⟨l, hl, hn⟩
    have hany : mats.any (fun m => m.any fun e => (t.neutron e.1).isNone) = true :=
      (any_any_missing_iff t mats).mpr hex
    rw [mapM_sumPiece_missing t _ mats hex]
    simp [hany, CompOutV.get?]

theorem composite_vector_length (t : Tbl ℝ) (mats : List (List (Atom × ℝ))) (ws weights : List ℝ)
    (ρ : ℝ) (l : List (ℝ × ℝ × ℝ)) (h : compositeSldV t mats ws weights ρ = .ok l) :
    l.length = ws.length := by
  unfold compositeSldV at h
  split at h
  · cases h
  · simp only at h
    split at h
    · cases h
    · cases h; simp

end PtProofs.Neutron
