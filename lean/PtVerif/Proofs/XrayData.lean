import PtVerif.Proofs.XrayReal
import PtVerif.Generated.F0Table
import Mathlib.Tactic.Push

/-! Kernel-checked facts about the regenerated f0 table (C05): every coefficient set that names
an atom or ion has Σa + c within 0.05 of its electron count Z − q. -/
namespace PtModel.Xray

/-- `Σ aᵢ + c` of a generated row, in units of `1/f0Scale` -/
def rowSum (r : PtGen.F0Row) : Int := r.a.sum + r.c

/-- five `a`, five `b`; if the row names an atom or ion: `|Σa + c − (Z − q)| ≤ 1/20` -/
def rowOk (r : PtGen.F0Row) : Bool :=
  r.a.length == 5 && r.b.length == 5 &&
  (!r.named || decide ((rowSum r - ((r.z : Int) - r.q) * (PtGen.f0Scale : Int)).natAbs * 20 ≤ PtGen.f0Scale))

/-- the data fact, re-checked by the kernel on every run against the regenerated table -/
theorem f0Rows_ok : PtGen.f0Rows.all rowOk = true := by decide +kernel

theorem f0Scale_pos : 0 < PtGen.f0Scale := by decide +kernel

attribute [local instance] realTransc

theorem sumA_rowCoeffs (S : ℕ) (a b : List Int) (c : Int) (h : a.length = b.length) :
    sumA (rowCoeffs (α := ℝ) S a b c).1 = ((a.sum : Int) : ℝ) / (S : ℝ) := by
  unfold rowCoeffs sumA
  simp only [List.map_map]
  induction a generalizing b with
  | nil => simp
  | cons x r ih =>
    cases b with
    | nil => simp at h
    | cons y r' =>
      simp only [List.zip_cons_cons, List.map_cons, List.sum_cons, Function.comp]
      have := ih r' (by simpa using h)
      rw [this]
      push_cast
      ring

/-- **the Q → 0 limit of f0 is the electron count** (to 0.05) for every row of the regenerated
    table that names an atom or ion -/
theorem f0_limit_electron_count (r : PtGen.F0Row) (hr : r ∈ PtGen.f0Rows) (hn : r.named = true) :
    |sumA (rowCoeffs (α := ℝ) PtGen.f0Scale r.a r.b r.c).1
        + (rowCoeffs (α := ℝ) PtGen.f0Scale r.a r.b r.c).2 - (((r.z : Int) - r.q : Int) : ℝ)| ≤ 1 / 20 := by
  have hall := List.all_eq_true.mp f0Rows_ok r hr
  unfold rowOk at hall
  simp only [Bool.and_eq_true, beq_iff_eq, Bool.or_eq_true, Bool.not_eq_eq_eq_not, Bool.not_true,
    decide_eq_true_eq] at hall
  obtain ⟨⟨ha, hb⟩, hc⟩ := hall
  rcases hc with hc | hc
  · rw [hn] at hc; cases hc
  · rw [sumA_rowCoeffs _ _ _ _ (by rw [ha, hb])]
    have hS : (0 : ℝ) < (PtGen.f0Scale : ℝ) := by exact_mod_cast f0Scale_pos
    have e : ((r.a.sum : Int) : ℝ) / (PtGen.f0Scale : ℝ) + (rowCoeffs (α := ℝ) PtGen.f0Scale r.a r.b r.c).2
        - (((r.z : Int) - r.q : Int) : ℝ)
        = (((rowSum r - ((r.z : Int) - r.q) * (PtGen.f0Scale : Int) : Int)) : ℝ) / (PtGen.f0Scale : ℝ) := by
      unfold rowCoeffs rowSum
      push_cast
      field_simp
    rw [e, abs_div, abs_of_pos hS, div_le_div_iff₀ hS (by norm_num)]
    have h2 : (((rowSum r - ((r.z : Int) - r.q) * (PtGen.f0Scale : Int)).natAbs * 20 : ℕ) : ℝ)
        ≤ ((PtGen.f0Scale : ℕ) : ℝ) := by exact_mod_cast hc
    have h3 : |((rowSum r - ((r.z : Int) - r.q) * (PtGen.f0Scale : Int) : Int) : ℝ)|
        = (((rowSum r - ((r.z : Int) - r.q) * (PtGen.f0Scale : Int)).natAbs : ℕ) : ℝ) := by
      rw [← Int.cast_abs, Int.abs_eq_natAbs]; simp
    rw [h3]
    push_cast at h2 ⊢
    linarith

end PtModel.Xray
