import PtVerif.Model.FormulaOps
import Mathlib.Tactic.Ring
import Mathlib.Algebra.Field.Basic
import Mathlib.Tactic.FieldSimp

/-! Helper lemmas for the formula algebra (C02, C19, C12, C11, C18). -/
namespace PtModel
open Items

section Semiring
variable {α : Type} [CommSemiring α]

/-- sum of the values stored under key `b` (well defined also with duplicate keys) -/
def total (p : List (Atom × α)) (b : Atom) : α :=
  p.foldr (fun e s => (if e.1 = b then e.2 else 0) + s) 0

@[simp] theorem total_nil (b : Atom) : total ([] : List (Atom × α)) b = 0 := rfl
@[simp] theorem total_cons (e : Atom × α) (p : List (Atom × α)) (b : Atom) :
    total (e :: p) b = (if e.1 = b then e.2 else 0) + total p b := rfl

theorem total_bump (t : List (Atom × α)) (a : Atom) (x : α) (b : Atom) :
    total (bump t a x) b = total t b + (if a = b then x else 0) := by
  induction t with
  | nil => simp [bump]
  | cons e r ih =>
    obtain ⟨k, y⟩ := e
    unfold bump
    by_cases h : k = a
    · subst h
      by_cases hb : k = b <;> simp [hb] <;> ring
    · simp only [h, if_false, total_cons, ih]
      ring

theorem total_mergeScaled (t p : List (Atom × α)) (c : α) (b : Atom) :
    total (mergeScaled t p c) b = total t b + total p b * c := by
  unfold mergeScaled
  induction p generalizing t with
  | nil => simp
  | cons e r ih =>
    simp only [List.foldl_cons, total_cons]
    rw [ih, total_bump]
    by_cases h : e.1 = b <;> simp [h] <;> ring

mutual
theorem Frag.total_count (f : Frag α) (b : Atom) : total f.count b = f.cnt b := by
  cases f with
  | atom a => simp [Frag.count, Frag.cnt]
  | group is =>
    simp only [Frag.count, Frag.cnt]
    rw [Items.total_countAcc]; simp
theorem Items.total_countAcc (s : Items α) (t : List (Atom × α)) (b : Atom) :
    total (s.countAcc t) b = total t b + s.cnt b := by
  cases s with
  | nil => simp [Items.countAcc, Items.cnt]
  | cons c f r =>
    simp only [Items.countAcc, Items.cnt]
    rw [Items.total_countAcc, total_mergeScaled, Frag.total_count]
    ring
end

/-- keys of an association list are pairwise distinct (it is a dict) -/
def KeysNodup (t : List (Atom × α)) : Prop := (t.map Prod.fst).Nodup

theorem keys_bump (t : List (Atom × α)) (a : Atom) (x : α) :
    (bump t a x).map Prod.fst = if a ∈ t.map Prod.fst then t.map Prod.fst else t.map Prod.fst ++ [a] := by
  induction t with
  | nil => simp [bump]
  | cons e r ih =>
    obtain ⟨k, y⟩ := e
    unfold bump
    by_cases h : k = a
    · subst h; simp
    · have h' : ¬ a = k := fun e => h e.symm
      simp only [h, if_false, List.map_cons, ih, List.mem_cons, h', false_or]
      split <;> simp

theorem KeysNodup.bump {t : List (Atom × α)} (h : KeysNodup t) (a : Atom) (x : α) :
    KeysNodup (PtModel.bump t a x) := by
  unfold KeysNodup at *
  rw [keys_bump]
  split
  · exact h
  · rename_i hn
    rw [List.nodup_append]
    exact ⟨h, by simp, by intro a ha b hb; simp at hb; subst hb; intro e; subst e; exact hn ha⟩

theorem KeysNodup.mergeScaled {t : List (Atom × α)} (h : KeysNodup t) (p : List (Atom × α)) (c : α) :
    KeysNodup (PtModel.mergeScaled t p c) := by
  unfold PtModel.mergeScaled
  induction p generalizing t with
  | nil => simpa
  | cons e r ih => exact ih (h.bump _ _)

theorem Items.keysNodup_countAcc : (s : Items α) → {t : List (Atom × α)} → KeysNodup t →
    KeysNodup (s.countAcc t)
  | .nil, _, h => by simpa [Items.countAcc]
  | .cons c f r, _, h => by
    simp only [Items.countAcc]
    exact Items.keysNodup_countAcc r (h.mergeScaled _ _)

theorem lookupD_eq_total {t : List (Atom × α)} (h : KeysNodup t) (b : Atom) :
    lookupD t b = total t b := by
  induction t with
  | nil => rfl
  | cons e r ih =>
    obtain ⟨k, y⟩ := e
    unfold KeysNodup at h
    simp only [List.map_cons, List.nodup_cons] at h
    simp only [lookupD, total_cons]
    by_cases hk : k = b
    · subst hk
      have : total r k = 0 := by
        clear ih
        induction r with
        | nil => rfl
        | cons e' r' ih' =>
          simp only [List.map_cons, List.mem_cons, not_or] at h
          have hne : ¬ e'.1 = k := fun e => h.1.1 e.symm
          simp only [total_cons, hne, if_false, zero_add]
          exact ih' ⟨h.1.2, (List.nodup_cons.mp h.2).2⟩
      simp [this]
    · simp [hk, ih h.2]

/-- **atoms are the count-weighted sum over the parts** (dict lookup form) -/
theorem Items.atoms_lookup (s : Items α) (b : Atom) : lookupD s.atoms b = s.cnt b := by
  unfold Items.atoms
  rw [lookupD_eq_total (Items.keysNodup_countAcc s (by simp [KeysNodup]))]
  rw [Items.total_countAcc]; simp

end Semiring
end PtModel

namespace PtModel
open Items

section Semiring2
variable {α : Type} [CommSemiring α]

/-! ### `+` and `n*` on counts -/

theorem Items.cnt_append (s t : Items α) (a : Atom) :
    (s.append t).cnt a = s.cnt a + t.cnt a := by
  match s with
  | .nil => simp [Items.append, Items.cnt]
  | .cons c f r =>
    simp only [Items.append, Items.cnt]
    rw [Items.cnt_append r t a]; ring

theorem cnt_addS (s t : Items α) (a : Atom) : (addS s t).cnt a = s.cnt a + t.cnt a :=
  Items.cnt_append s t a

theorem cnt_rmulS [DecidableEq α] (n : α) (s : Items α) (a : Atom) :
    (rmulS n s).cnt a = s.cnt a * n := by
  unfold rmulS
  by_cases h : n = 1
  · simp [h]
  · have : (n == 1) = false := by simpa using h
    simp only [this]
    match s with
    | .nil => simp [Items.cnt]
    | .cons q f .nil => simp [Items.cnt]; ring
    | .cons q f (.cons q' f' r) => simp [Items.cnt, Frag.cnt]

/-! ### weighted sums over the atom dict (mass, charge) -/

/-- Σ over the dict of `w atom * count` -/
def wsum (w : Atom → α) (t : List (Atom × α)) : α := (t.map fun e => w e.1 * e.2).sum

theorem massOf_eq_wsum' (w : Atom → α) (t : List (Atom × α)) (s0 : α) :
    t.foldl (fun s e => s + w e.1 * e.2) s0 = s0 + wsum w t := by
  induction t generalizing s0 with
  | nil => simp [wsum]
  | cons e r ih => simp only [List.foldl_cons, ih, wsum, List.map_cons, List.sum_cons]; ring

theorem wsum_bump (w : Atom → α) (t : List (Atom × α)) (a : Atom) (x : α) :
    wsum w (bump t a x) = wsum w t + w a * x := by
  induction t with
  | nil => simp [bump, wsum]
  | cons e r ih =>
    obtain ⟨k, y⟩ := e
    unfold bump
    by_cases h : k = a
    · subst h; simp [wsum]; ring
    · simp only [h, if_false]
      simp only [wsum, List.map_cons, List.sum_cons] at ih ⊢
      rw [ih]; ring

theorem wsum_mergeScaled (w : Atom → α) (t p : List (Atom × α)) (c : α) :
    wsum w (mergeScaled t p c) = wsum w t + wsum w p * c := by
  unfold mergeScaled
  induction p generalizing t with
  | nil => simp [wsum]
  | cons e r ih =>
    simp only [List.foldl_cons]
    rw [ih, wsum_bump]
    simp only [wsum, List.map_cons, List.sum_cons]; ring

end Semiring2

section Ring
variable {α : Type} [CommRing α]

theorem massOf_eq_wsum (w : Atom → α) (t : List (Atom × α)) : massOf w t = wsum w t := by
  unfold massOf; rw [massOf_eq_wsum']; simp

theorem chargeOf_eq_wsum (t : List (Atom × α)) : chargeOf t = wsum (fun a => (a.q : α)) t := by
  unfold chargeOf
  have h : ∀ (l : List (Atom × α)) (s0 : α),
      l.foldl (fun s e => s + e.2 * (e.1.q : α)) s0 = s0 + wsum (fun a => (a.q : α)) l := by
    intro l
    induction l with
    | nil => simp [wsum]
    | cons e r ih => intro s0; simp only [List.foldl_cons, ih, wsum, List.map_cons, List.sum_cons]; ring
  rw [h]; simp

mutual
theorem Frag.wsum_count (w : Atom → α) (f : Frag α) : wsum w f.count = f.flatMass w := by
  cases f with
  | atom a => simp [Frag.count, Frag.flatMass, wsum]
  | group is =>
    simp only [Frag.count, Frag.flatMass]
    rw [Items.wsum_countAcc]; simp [wsum]
theorem Items.wsum_countAcc (w : Atom → α) (s : Items α) (t : List (Atom × α)) :
    wsum w (s.countAcc t) = wsum w t + s.flatMass w := by
  cases s with
  | nil => simp [Items.countAcc, Items.flatMass]
  | cons c f r =>
    simp only [Items.countAcc, Items.flatMass]
    rw [Items.wsum_countAcc, wsum_mergeScaled, Frag.wsum_count]
    ring
end

/-- **mass is the sum of count × atomic mass over the parts**, whatever the nesting -/
theorem Items.mass_eq_flat (w : Atom → α) (s : Items α) : massOf w s.atoms = s.flatMass w := by
  rw [massOf_eq_wsum]; unfold Items.atoms; rw [Items.wsum_countAcc]; simp [wsum]

theorem Items.flatMass_append (w : Atom → α) (s t : Items α) :
    (s.append t).flatMass w = s.flatMass w + t.flatMass w := by
  match s with
  | .nil => simp [Items.append, Items.flatMass]
  | .cons c f r =>
    simp only [Items.append, Items.flatMass]
    rw [Items.flatMass_append w r t]; ring

theorem flatMass_rmulS [DecidableEq α] (w : Atom → α) (n : α) (s : Items α) :
    (rmulS n s).flatMass w = s.flatMass w * n := by
  unfold rmulS
  by_cases h : n = 1
  · simp [h]
  · have : (n == 1) = false := by simpa using h
    simp only [this]
    match s with
    | .nil => simp [Items.flatMass]
    | .cons q f .nil => simp [Items.flatMass]; ring
    | .cons q f (.cons q' f' r) => simp [Items.flatMass, Frag.flatMass]

end Ring

section Field
variable {α : Type} [Field α]

theorem massFraction_sum (w : Atom → α) (t : List (Atom × α)) (h : massOf w t ≠ 0) :
    ((massFraction w t).map Prod.snd).sum = 1 := by
  unfold massFraction
  simp only [List.map_map]
  have : ((fun e : Atom × α => e.2) ∘ fun e : Atom × α => (e.1, e.2 * w e.1 / massOf w t))
       = fun e => (w e.1 * e.2) / massOf w t := by
    funext e; simp; ring
  rw [this]
  have hs : ∀ (l : List (Atom × α)) (d : α),
      (l.map fun e => (w e.1 * e.2) / d).sum = (l.map fun e => w e.1 * e.2).sum / d := by
    intro l d
    induction l with
    | nil => simp
    | cons e r ih => simp only [List.map_cons, List.sum_cons, ih]; ring
  rw [hs, ← wsum, ← massOf_eq_wsum]
  exact div_self h

end Field

/-! ### the heap: only `+=` mutates -/
section HeapFrame
variable {α : Type} [Add α] [Mul α] [OfNat α 0] [OfNat α 1] [BEq α]

theorem Heap.alloc_objs_get (h : Heap α) (r : Nat) (s : Items α) (i : Nat) (hi : i < h.objs.length) :
    (h.alloc r s).objs[i]? = h.objs[i]? := by
  simp [Heap.alloc, List.getElem?_append_left hi]

/-- every operation except `+=` leaves every existing formula object unchanged -/
theorem Heap.step_frame (sym : Nat → Nat → Nat) (h h' : Heap α) (op : Op α)
    (hop : Heap.isIadd op = false) (hs : h.step sym op = some h')
    (i : Nat) (hi : i < h.objs.length) : h'.objs[i]? = h.objs[i]? := by
  cases op with
  | new r s => simp [Heap.step] at hs; subst hs; exact Heap.alloc_objs_get h r s i hi
  | dict r t => simp [Heap.step] at hs; subst hs; exact Heap.alloc_objs_get h r _ i hi
  | copy r r2 =>
    simp only [Heap.step, Option.bind_eq_bind, Option.bind_eq_some_iff] at hs
    obtain ⟨s, _, hs⟩ := hs
    simp at hs; subst hs; exact Heap.alloc_objs_get h r _ i hi
  | same r r2 =>
    simp only [Heap.step, Option.bind_eq_bind, Option.bind_eq_some_iff] at hs
    obtain ⟨s, _, hs⟩ := hs
    simp at hs; subst hs; rfl
  | add r r1 r2 =>
    simp only [Heap.step, Option.bind_eq_bind, Option.bind_eq_some_iff] at hs
    obtain ⟨s1, _, s2, _, hs⟩ := hs
    simp at hs; subst hs; exact Heap.alloc_objs_get h r _ i hi
  | mul r n r1 =>
    simp only [Heap.step, Option.bind_eq_bind, Option.bind_eq_some_iff] at hs
    obtain ⟨s, _, hs⟩ := hs
    simp at hs; subst hs; exact Heap.alloc_objs_get h r _ i hi
  | iadd r1 r2 => simp [Heap.isIadd] at hop
  | hill r r1 =>
    simp only [Heap.step, Option.bind_eq_bind, Option.bind_eq_some_iff] at hs
    obtain ⟨s, _, hs⟩ := hs
    simp at hs; subst hs; exact Heap.alloc_objs_get h r _ i hi

/-- `+=` changes exactly the object its left operand names -/
theorem Heap.step_iadd_frame (sym : Nat → Nat → Nat) (h h' : Heap α) (r1 r2 : Nat)
    (hs : h.step sym (.iadd r1 r2) = some h') (i : Nat) (hne : h.reg r1 ≠ some i) :
    h'.objs[i]? = h.objs[i]? := by
  simp only [Heap.step, Option.bind_eq_bind, Option.bind_eq_some_iff] at hs
  obtain ⟨j, hj, s1, _, s2, _, hs⟩ := hs
  simp at hs; subst hs
  have : j ≠ i := by intro e; subst e; exact hne hj
  simp [List.getElem?_set, this]

end HeapFrame
end PtModel
