import PtVerif.Model.Loaders
/-!
# Lemmas about the loader folds (core Lean only)

Generic facts about association lists built by a fold that conses one binding per row
(latest binding first), then the shape of the state after each pass of `mass.init`.
-/
set_option linter.unusedSectionVars false
namespace PtLoad

/-! ## association lists -/

section alist
variable {κ β ρ : Type} [DecidableEq κ]

@[simp] theorem aget_nil (k : κ) : aget k ([] : List (κ × β)) = none := rfl

theorem aget_cons (k k' : κ) (v : β) (l : List (κ × β)) :
    aget k ((k', v) :: l) = if k = k' then some v else aget k l := rfl

@[simp] theorem aget_cons_self (k : κ) (v : β) (l : List (κ × β)) : aget k ((k, v) :: l) = some v := by
  simp [aget_cons]

theorem aget_cons_ne {k k' : κ} (h : k ≠ k') (v : β) (l : List (κ × β)) :
    aget k ((k', v) :: l) = aget k l := by
  simp [aget_cons, h]

theorem aget_append (k : κ) (l₁ l₂ : List (κ × β)) :
    aget k (l₁ ++ l₂) = match aget k l₁ with
      | some v => some v
      | none => aget k l₂ := by
  induction l₁ with
  | nil => rfl
  | cons p l ih =>
    obtain ⟨k', v⟩ := p
    simp only [List.cons_append, aget_cons]
    split <;> simp_all

theorem aget_eq_none_of_forall_ne (k : κ) (l : List (κ × β)) (h : ∀ p ∈ l, p.1 ≠ k) :
    aget k l = none := by
  induction l with
  | nil => rfl
  | cons p l ih =>
    obtain ⟨k', v⟩ := p
    have h1 : k ≠ k' := fun e => h (k', v) (by simp) e.symm
    rw [aget_cons_ne h1]
    exact ih fun p hp => h p (by simp [hp])

theorem aget_append_of_forall_ne (k : κ) (l₁ l₂ : List (κ × β)) (h : ∀ p ∈ l₁, p.1 ≠ k) :
    aget k (l₁ ++ l₂) = aget k l₂ := by
  rw [aget_append, aget_eq_none_of_forall_ne k l₁ h]

/-- a fold that conses one binding per row is the reversed map of the rows -/
theorem foldl_cons_eq (kv : ρ → κ × β) (l : List ρ) (init : List (κ × β)) :
    l.foldl (fun acc r => kv r :: acc) init = (l.map kv).reverse ++ init := by
  induction l generalizing init with
  | nil => rfl
  | cons r l ih => simp [List.foldl_cons, ih]

/-- in a table whose keys are distinct every row is served its own value, whatever was
    bound before -/
theorem aget_reverse_map_of_mem (key : ρ → κ) (val : ρ → β) (l : List ρ)
    (hnd : (l.map key).Nodup) (r : ρ) (hr : r ∈ l) (rest : List (κ × β)) :
    aget (key r) ((l.map fun r => (key r, val r)).reverse ++ rest) = some (val r) := by
  induction l generalizing rest with
  | nil => cases hr
  | cons x l ih =>
    simp only [List.map_cons, List.reverse_cons, List.append_assoc, List.singleton_append]
    simp only [List.map_cons, List.nodup_cons] at hnd
    rcases List.mem_cons.mp hr with rfl | hr'
    · rw [aget_append_of_forall_ne]
      · simp
      · intro p hp
        simp only [List.mem_reverse, List.mem_map] at hp
        obtain ⟨y, hy, rfl⟩ := hp
        intro e
        exact hnd.1 (List.mem_map.mpr ⟨y, hy, e⟩)
    · exact ih hnd.2 hr' _

/-- a key that no row has is looked up in what was there before -/
theorem aget_reverse_map_of_not_mem (key : ρ → κ) (val : ρ → β) (l : List ρ) (k : κ)
    (h : ∀ r ∈ l, key r ≠ k) (rest : List (κ × β)) :
    aget k ((l.map fun r => (key r, val r)).reverse ++ rest) = aget k rest := by
  apply aget_append_of_forall_ne
  intro p hp
  simp only [List.mem_reverse, List.mem_map] at hp
  obtain ⟨y, hy, rfl⟩ := hp
  exact h y hy

/-- with repeated keys the *last* row of a key wins -/
theorem aget_reverse_map_last (key : ρ → κ) (val : ρ → β) (pre post : List ρ) (r : ρ)
    (h : ∀ x ∈ post, key x ≠ key r) (rest : List (κ × β)) :
    aget (key r) (((pre ++ r :: post).map fun r => (key r, val r)).reverse ++ rest) = some (val r) := by
  simp only [List.map_append, List.map_cons, List.reverse_append, List.reverse_cons,
    List.append_assoc, List.singleton_append]
  rw [aget_append_of_forall_ne]
  · simp
  · intro p hp
    simp only [List.mem_reverse, List.mem_map] at hp
    obtain ⟨y, hy, rfl⟩ := hp
    exact h y hy

end alist

/-! ## Python dict assignment keeps keys distinct -/

section dict
variable {κ β : Type} [DecidableEq κ]

theorem dictSet_keys (k : κ) (v : β) (l : List (κ × β)) :
    ∀ p ∈ dictSet k v l, p.1 = k ∨ ∃ q ∈ l, q.1 = p.1 := by
  induction l with
  | nil => intro p hp; simp [dictSet] at hp; left; rw [hp]
  | cons x l ih =>
    obtain ⟨k', v'⟩ := x
    intro p hp
    unfold dictSet at hp
    split at hp
    · rcases List.mem_cons.mp hp with rfl | hp'
      · left; rfl
      · right; exact ⟨p, List.mem_cons_of_mem _ hp', rfl⟩
    · rcases List.mem_cons.mp hp with rfl | hp'
      · right; exact ⟨(k', v'), by simp, rfl⟩
      · rcases ih p hp' with h | ⟨q, hq, e⟩
        · left; exact h
        · right; exact ⟨q, List.mem_cons_of_mem _ hq, e⟩

theorem dictSet_nodup (k : κ) (v : β) (l : List (κ × β)) (h : (l.map Prod.fst).Nodup) :
    ((dictSet k v l).map Prod.fst).Nodup := by
  induction l with
  | nil => simp [dictSet]
  | cons x l ih =>
    obtain ⟨k', v'⟩ := x
    simp only [List.map_cons, List.nodup_cons] at h
    unfold dictSet
    split
    · rename_i e
      subst e
      simpa using h
    · rename_i hne
      simp only [List.map_cons, List.nodup_cons]
      refine ⟨?_, ih h.2⟩
      intro hm
      obtain ⟨p, hp, e⟩ := List.mem_map.mp hm
      rcases dictSet_keys k v l p hp with h1 | ⟨q, hq, e2⟩
      · exact hne (by rw [← h1, e])
      · exact h.1 (List.mem_map.mpr ⟨q, hq, by rw [e2, e]⟩)

theorem aget_dictSet_self (k : κ) (v : β) (l : List (κ × β)) : aget k (dictSet k v l) = some v := by
  induction l with
  | nil => simp [dictSet]
  | cons x l ih =>
    obtain ⟨k', v'⟩ := x
    unfold dictSet
    split
    · simp
    · rename_i hne; rw [aget_cons_ne hne]; exact ih

theorem aget_dictSet_ne {k k' : κ} (h : k' ≠ k) (v : β) (l : List (κ × β)) :
    aget k' (dictSet k v l) = aget k' l := by
  induction l with
  | nil => simp [dictSet, aget_cons, h]
  | cons x l ih =>
    obtain ⟨k'', v''⟩ := x
    unfold dictSet
    split
    · rename_i e; subst e; simp [aget_cons, h]
    · simp only [aget_cons]; split <;> simp_all

end dict

/-! ## shape of the state after each pass of `mass.init` -/

section mass
variable {α : Type} [Add α] [Sub α] [Mul α] [Div α] [OfNat α 0] [NatCast α] [IntCast α] [Transc α]

def isoKey (r : IsoRow) : Nat × Nat := (r.z, r.a)

theorem pass1_isoMass (rows : List IsoRow) (st : MassState α) :
    (rows.foldl pass1Step st).isoMass
      = (rows.map fun r => (isoKey r, (r.m.eval : VU α))).reverse ++ st.isoMass := by
  induction rows generalizing st with
  | nil => rfl
  | cons r rows ih => simp [List.foldl_cons, ih, pass1Step, isoKey]

theorem pass1_elMass (rows : List IsoRow) (st : MassState α) :
    (rows.foldl pass1Step st).elMass
      = (rows.map fun r => (r.z, (r.avg.eval : VU α))).reverse ++ st.elMass := by
  induction rows generalizing st with
  | nil => rfl
  | cons r rows ih => simp [List.foldl_cons, ih, pass1Step]

theorem pass1_isoAb (rows : List IsoRow) (st : MassState α) :
    (rows.foldl pass1Step st).isoAb
      = (rows.map fun r => (isoKey r, ((0 : α), (0 : α)))).reverse ++ st.isoAb := by
  induction rows generalizing st with
  | nil => rfl
  | cons r rows ih => simp [List.foldl_cons, ih, pass1Step, isoKey]

theorem pass1_isotopes (rows : List IsoRow) (st : MassState α) :
    (rows.foldl pass1Step st).isotopes = (rows.map isoKey).reverse ++ st.isotopes := by
  induction rows generalizing st with
  | nil => rfl
  | cons r rows ih => simp [List.foldl_cons, ih, pass1Step, isoKey]

theorem pass2_isoMass (rows : List ElRow) (st : MassState α) :
    (rows.foldl pass2Step st).isoMass = st.isoMass := by
  induction rows generalizing st with
  | nil => rfl
  | cons r rows ih =>
    rw [List.foldl_cons, ih]; unfold pass2Step; split <;> rfl

theorem pass2_isoAb (rows : List ElRow) (st : MassState α) :
    (rows.foldl pass2Step st).isoAb = st.isoAb := by
  induction rows generalizing st with
  | nil => rfl
  | cons r rows ih =>
    rw [List.foldl_cons, ih]; unfold pass2Step; split <;> rfl

theorem pass2_isotopes (rows : List ElRow) (st : MassState α) :
    (rows.foldl pass2Step st).isotopes = st.isotopes := by
  induction rows generalizing st with
  | nil => rfl
  | cons r rows ih =>
    rw [List.foldl_cons, ih]; unfold pass2Step; split <;> rfl

/-- the overriding rows of `element_mass` (those whose value is not `-`) -/
def overrides (rows : List ElRow) : List (Nat × Unc) :=
  rows.filterMap fun r => r.value.map fun u => (r.z, u)

theorem pass2_elMass (rows : List ElRow) (st : MassState α) :
    (rows.foldl pass2Step st).elMass
      = ((overrides rows).map fun p => (p.1, (p.2.eval : VU α))).reverse ++ st.elMass := by
  induction rows generalizing st with
  | nil => rfl
  | cons r rows ih =>
    rw [List.foldl_cons, ih]
    unfold pass2Step overrides
    cases h : r.value with
    | none => simp [h]
    | some u => simp [h]

variable [BEq α]

/-- the bindings one flush adds (latest first) -/
def flushEntries (z : Nat) (value : List (Nat × (α × α))) : List ((Nat × Nat) × (α × α)) :=
  if z = 0 then [] else
  (value.map fun p => ((z, p.1), (((100 : Nat) : α) * p.2.1 / abTotal value,
                                  ((100 : Nat) : α) * p.2.2 / abTotal value))).reverse

theorem flush_fold (z : Nat) (tot : α) (value : List (Nat × (α × α))) (st : MassState α) :
    value.foldl (fun st p =>
      { st with isoAb := ((z, p.1), (((100 : Nat) : α) * p.2.1 / tot,
                                     ((100 : Nat) : α) * p.2.2 / tot)) :: st.isoAb }) st
    = { st with isoAb := (value.map fun p => ((z, p.1), (((100 : Nat) : α) * p.2.1 / tot,
                                     ((100 : Nat) : α) * p.2.2 / tot))).reverse ++ st.isoAb } := by
  induction value generalizing st with
  | nil => rfl
  | cons p value ih => simp [List.foldl_cons, ih]

theorem flush_eq (st : MassState α) (z : Nat) (value : List (Nat × (α × α))) :
    flush st z value = { st with isoAb := flushEntries z value ++ st.isoAb } := by
  unfold flush flushEntries
  split
  · rfl
  · simp only []
    rw [flush_fold]

/-- the composition table cut into one `(Z, dict)` section per header (the lines before the
    first header form a section of element 0, which `flush` ignores) -/
def sectionsGo (z : Nat) (value : List (Nat × (α × α))) : List AbLine → List (Nat × List (Nat × (α × α)))
  | [] => [(z, value)]
  | .header z' :: ls => (z, value) :: sectionsGo z' [] ls
  | .entry a u :: ls => sectionsGo z (dictSet a ((u.eval (α := α)).getD (0, 0)) value) ls

def sections (ls : List AbLine) : List (Nat × List (Nat × (α × α))) := sectionsGo 0 [] ls

theorem pass3_go (c : AbCur α) (ls : List AbLine) :
    (let c' := ls.foldl pass3Step c; flush c'.st c'.z c'.value)
      = (sectionsGo c.z c.value ls).foldl (fun st s => flush st s.1 s.2) c.st := by
  induction ls generalizing c with
  | nil => rfl
  | cons l ls ih =>
    cases l with
    | header z' =>
      simp only [List.foldl_cons, sectionsGo]
      exact ih ⟨flush c.st c.z c.value, z', []⟩
    | entry a u =>
      simp only [List.foldl_cons, sectionsGo]
      exact ih { c with value := dictSet a ((u.eval (α := α)).getD (0, 0)) c.value }

/-- pass 3 writes the sections one after the other – every one of them, including the last -/
theorem pass3_eq (st : MassState α) (ls : List AbLine) :
    pass3 st ls = (sections (α := α) ls).foldl (fun st s => flush st s.1 s.2) st :=
  pass3_go ⟨st, 0, []⟩ ls

theorem flushAll_isoAb (secs : List (Nat × List (Nat × (α × α)))) (st : MassState α) :
    (secs.foldl (fun st s => flush st s.1 s.2) st).isoAb
      = (secs.map fun s => flushEntries s.1 s.2).reverse.flatten ++ st.isoAb := by
  induction secs generalizing st with
  | nil => simp
  | cons s secs ih =>
    rw [List.foldl_cons, ih, flush_eq]
    simp [List.append_assoc]

theorem flushAll_other (secs : List (Nat × List (Nat × (α × α)))) (st : MassState α) :
    (secs.foldl (fun st s => flush st s.1 s.2) st).elMass = st.elMass ∧
    (secs.foldl (fun st s => flush st s.1 s.2) st).isoMass = st.isoMass ∧
    (secs.foldl (fun st s => flush st s.1 s.2) st).isotopes = st.isotopes := by
  induction secs generalizing st with
  | nil => simp
  | cons s secs ih =>
    rw [List.foldl_cons]
    obtain ⟨h1, h2, h3⟩ := ih (flush st s.1 s.2)
    rw [h1, h2, h3, flush_eq]
    simp

end mass

end PtLoad

/-! ## sorted keys are distinct (a linear-time, kernel-friendly certificate of `Nodup`) -/
namespace PtLoad

def keyLt (a b : Nat × Nat) : Bool := a.1 < b.1 || (a.1 == b.1 && a.2 < b.2)

/-- strictly increasing in lexicographic order -/
def strictSorted : List (Nat × Nat) → Bool
  | [] => true
  | [_] => true
  | a :: b :: l => keyLt a b && strictSorted (b :: l)

theorem keyLt_trans {a b c : Nat × Nat} (h1 : keyLt a b = true) (h2 : keyLt b c = true) :
    keyLt a c = true := by
  simp only [keyLt, Bool.or_eq_true, decide_eq_true_eq, Bool.and_eq_true, beq_iff_eq] at *
  omega

theorem keyLt_irrefl (a : Nat × Nat) : keyLt a a = false := by
  simp [keyLt]

theorem strictSorted_head_lt (a : Nat × Nat) (l : List (Nat × Nat)) (h : strictSorted (a :: l) = true) :
    ∀ b ∈ l, keyLt a b = true := by
  induction l generalizing a with
  | nil => intro b hb; cases hb
  | cons x l ih =>
    simp only [strictSorted, Bool.and_eq_true] at h
    intro b hb
    rcases List.mem_cons.mp hb with rfl | hb'
    · exact h.1
    · exact keyLt_trans h.1 (ih x h.2 b hb')

theorem strictSorted_tail (a : Nat × Nat) (l : List (Nat × Nat)) (h : strictSorted (a :: l) = true) :
    strictSorted l = true := by
  cases l with
  | nil => rfl
  | cons x l => simp only [strictSorted, Bool.and_eq_true] at h; exact h.2

theorem nodup_of_strictSorted (l : List (Nat × Nat)) (h : strictSorted l = true) : l.Nodup := by
  induction l with
  | nil => exact List.nodup_nil
  | cons a l ih =>
    rw [List.nodup_cons]
    refine ⟨?_, ih (strictSorted_tail a l h)⟩
    intro hm
    have := strictSorted_head_lt a l h a hm
    rw [keyLt_irrefl] at this
    cases this

/-- membership test in a sorted-or-not key list, linear -/
def hasKey (k : Nat × Nat) (l : List (Nat × Nat)) : Bool := l.any (· == k)

end PtLoad
