import PtVerif.Proofs.ActivationProps

/-! `Sample.calculate_activation`: the tally is the sum of the isotopes' activities, a natural
element contributes the abundance-weighted sum, and the activity at removal does not depend on
the requested rest times (C14, C15) at `ℝ`. -/
namespace PtModel.Activation

/-- value stored under row `k` (0 if absent) -/
def lookR (t : List (Nat × ℝ)) (k : Nat) : ℝ :=
  match t with
  | [] => 0
  | (k', x) :: rest => if k' = k then x else lookR rest k

/-- what one `activity()` result adds to the removal tally of row `k` -/
noncomputable def headSum (res : List (Nat × List ℝ)) (k : Nat) : ℝ :=
  (res.map fun kv => if kv.1 = k then kv.2.headD 0 else 0).sum

theorem lookR_bump (t : List (Nat × ℝ)) (k : Nat) (v : ℝ) (k' : Nat) :
    lookR (bumpRemoval t k v) k' = lookR t k' + (if k = k' then v else 0) := by
  induction t with
  | nil => simp only [bumpRemoval, lookR]; split <;> simp
  | cons e rest ih =>
    obtain ⟨k0, x⟩ := e
    unfold bumpRemoval
    by_cases h0 : k0 = k
    · subst h0
      simp only [if_true, lookR]
      by_cases h1 : k0 = k' <;> simp [h1]
    · simp only [h0, if_false, lookR, ih]
      by_cases h1 : k0 = k'
      · have : ¬ k = k' := fun h => h0 (h1.trans h.symm)
        simp [h1, this]
      · simp [h1]

theorem lookR_accumulate (n : Nat) (s : Tally ℝ) (res : List (Nat × List ℝ)) (k : Nat) :
    lookR (accumulate n s res).removal k = lookR s.removal k + headSum res k := by
  unfold accumulate
  induction res generalizing s with
  | nil => simp [headSum]
  | cons kv more ih =>
    obtain ⟨k0, vs⟩ := kv
    simp only [List.foldl_cons]
    rw [ih]
    simp only [lookR_bump, headSum, List.map_cons, List.sum_cons]
    ring

theorem lookR_foldl_accumulate (n : Nat) (s : Tally ℝ) (results : List (List (Nat × List ℝ))) (k : Nat) :
    lookR (results.foldl (accumulate n) s).removal k
      = lookR s.removal k + (results.map fun res => headSum res k).sum := by
  induction results generalizing s with
  | nil => simp
  | cons res more ih =>
    simp only [List.foldl_cons, List.map_cons, List.sum_cons]
    rw [ih, lookR_accumulate]
    ring

/-- the results `runJobs` returns are, job by job, what `activity()` returns -/
theorem runJobs_ok (c : Consts ℝ) (rowsOf : Nat → Nat → List (Nat × Row ℝ)) (env : Env ℝ) (T : ℝ)
    (times : List ℝ) (jobs : List (Nat × Nat × ℝ)) (results : List (List (Nat × List ℝ)))
    (h : runJobs c rowsOf env T times jobs = .ok results) :
    List.Forall₂ (fun job res => activity c (rowsOf job.1 job.2.1) job.2.2 env T times = .ok res)
      jobs results := by
  induction jobs generalizing results with
  | nil => simp [runJobs] at h; subst h; exact List.Forall₂.nil
  | cons job more ih =>
    obtain ⟨z, a, m⟩ := job
    unfold runJobs at h
    split at h
    · cases h
    · rename_i res hres
      split at h
      · cases h
      · rename_i out hout
        cases h
        exact List.Forall₂.cons hres (ih out hout)

theorem runJobs_of_forall (c : Consts ℝ) (rowsOf : Nat → Nat → List (Nat × Row ℝ)) (env : Env ℝ) (T : ℝ)
    (times : List ℝ) (jobs : List (Nat × Nat × ℝ)) (results : List (List (Nat × List ℝ)))
    (h : List.Forall₂ (fun job res => activity c (rowsOf job.1 job.2.1) job.2.2 env T times = .ok res)
      jobs results) :
    runJobs c rowsOf env T times jobs = .ok results := by
  induction jobs generalizing results with
  | nil => cases h; rfl
  | cons job more ih =>
    cases h with
    | cons hres hrest =>
      obtain ⟨z, a, m⟩ := job
      unfold runJobs
      rw [hres, ih _ hrest]

/-- **The sample's activity at removal is the sum over the `activity()` calls made for its isotopes.** -/
theorem calcActivation_removal (c : Consts ℝ) (rowsOf : Nat → Nat → List (Nat × Row ℝ)) (mass : ℝ)
    (env : Env ℝ) (T : ℝ) (rests : List ℝ) (parts : List (Part ℝ)) (tally : Tally ℝ)
    (h : calcActivation c rowsOf mass env T rests parts = .ok tally) :
    ∃ results, List.Forall₂
        (fun job res => activity c (rowsOf job.1 job.2.1) job.2.2 env T (0 :: rests) = .ok res)
        (isoJobs mass parts) results ∧
      ∀ k, lookR tally.removal k = (results.map fun res => headSum res k).sum := by
  unfold calcActivation at h
  split at h
  · cases h
  · rename_i results hres
    cases h
    refine ⟨results, runJobs_ok _ _ _ _ _ _ _ hres, fun k => ?_⟩
    rw [lookR_foldl_accumulate]
    simp [lookR]

/-! ### `activity()` is linear in the mass, list level -/

def scaleOut (k : ℝ) (out : List (Nat × List ℝ)) : List (Nat × List ℝ) :=
  out.map fun kv => (kv.1, kv.2.map (k * ·))

theorem restDecay_smul (lam act k : ℝ) (rests : List ℝ) :
    restDecay lam (k * act) rests = (restDecay lam act rests).map (k * ·) := by
  unfold restDecay
  simp only [List.map_map]
  apply List.map_congr_left
  intro t _
  simp only [Function.comp]
  ring

theorem activity_linear_in_mass (c : Consts ℝ) (rows : List (Nat × Row ℝ)) (mass : ℝ) (env : Env ℝ)
    (T : ℝ) (rests : List ℝ) (k : ℝ) (hk : 0 < k) (out : List (Nat × List ℝ))
    (h : activity c rows mass env T rests = .ok out) :
    activity c rows (k * mass) env T rests = .ok (scaleOut k out) := by
  induction rows generalizing out with
  | nil => simp [activity] at h; subst h; simp [activity, scaleOut]
  | cons kr more ih =>
    obtain ⟨i, r⟩ := kr
    unfold activity at h ⊢
    rw [activityRow_linear_in_mass c r mass env T k hk]
    split at h
    · cases h
    · rename_i hrow
      rw [hrow]; simp only [scaleRow]
      exact ih out h
    · rename_i act hrow
      rw [hrow]; simp only [scaleRow]
      split at h
      · cases h
      · rename_i out' hmore
        cases h
        rw [ih out' hmore]
        simp only [scaleOut, List.map_cons, restDecay_smul]

theorem headSum_scaleOut (k : ℝ) (out : List (Nat × List ℝ)) (i : Nat) :
    headSum (scaleOut k out) i = k * headSum out i := by
  unfold headSum scaleOut
  induction out with
  | nil => simp
  | cons kv more ih =>
    simp only [List.map_cons, List.sum_cons] at ih ⊢
    rw [ih]
    by_cases h : kv.1 = i
    · simp only [h, if_true]
      cases kv.2 with
      | nil => simp
      | cons x xs => simp; ring
    · simp [h]

/-! ### a natural element contributes the abundance-weighted sum of its isotopes -/

/-- isotopes of one natural element: `(A, abundance in %)` -/
def naturalPart (frac : ℝ) (z : Nat) (isos : List (Nat × ℝ)) : Part ℝ :=
  { frac := frac, isos := isos.map fun ia => { z := z, a := ia.1, share := some ia.2 } }

theorem natural_jobs_results (c : Consts ℝ) (rowsOf : Nat → Nat → List (Nat × Row ℝ)) (mass frac : ℝ)
    (env : Env ℝ) (T : ℝ) (times : List ℝ) (z : Nat) (isos : List (Nat × ℝ))
    (hm : 0 < mass * frac) (hab : ∀ ia ∈ isos, 0 ≤ ia.2)
    (pure : Nat → List (Nat × List ℝ))
    (hpure : ∀ ia ∈ isos, activity c (rowsOf z ia.1) (mass * frac) env T times = .ok (pure ia.1)) :
    ∃ results, runJobs c rowsOf env T times (isoJobs mass [naturalPart frac z isos]) = .ok results ∧
      ∀ k, (results.map fun res => headSum res k).sum
        = (isos.map fun ia => ia.2 * 0.01 * headSum (pure ia.1) k).sum := by
  induction isos with
  | nil => exact ⟨[], by simp [isoJobs, naturalPart, runJobs], fun k => by simp⟩
  | cons ia more ih =>
    obtain ⟨results, hrun, hsum⟩ := ih (fun x hx => hab x (List.mem_cons_of_mem _ hx))
      (fun x hx => hpure x (List.mem_cons_of_mem _ hx))
    have hab0 := hab ia List.mem_cons_self
    have hp := hpure ia List.mem_cons_self
    simp only [isoJobs, naturalPart, List.flatMap_cons, List.flatMap_nil, List.append_nil,
      List.map_cons, List.filterMap_cons] at hrun ⊢
    by_cases hz : mass * frac * ia.2 * 0.01 = 0
    · -- zero abundance: skipped, and contributes 0
      have hia : ia.2 = 0 := by
        have h01 : (0.01 : ℝ) ≠ 0 := by norm_num
        have := mul_eq_zero.mp hz
        rcases this with h | h
        · rcases mul_eq_zero.mp h with h' | h'
          · exact absurd h' (ne_of_gt hm)
          · exact h'
        · exact absurd h h01
      have hskip : isoMass mass frac { z := z, a := ia.1, share := some ia.2 } = none := by
        simp [isoMass, hz]
      simp only [hskip, Option.map_none]
      refine ⟨results, hrun, fun k => ?_⟩
      rw [hsum k]
      simp [hia]
    · have hkeep : isoMass mass frac { z := z, a := ia.1, share := some ia.2 }
          = some (mass * frac * ia.2 * 0.01) := by
        simp [isoMass, hz]
      simp only [hkeep, Option.map_some]
      have hpos : 0 < ia.2 * 0.01 := by
        have : ia.2 ≠ 0 := by intro h; apply hz; rw [h]; ring
        have : 0 < ia.2 := lt_of_le_of_ne hab0 (Ne.symm this)
        positivity
      have hlin := activity_linear_in_mass c (rowsOf z ia.1) (mass * frac) env T times (ia.2 * 0.01)
        hpos (pure ia.1) hp
      have em : ia.2 * 0.01 * (mass * frac) = mass * frac * ia.2 * 0.01 := by ring
      rw [em] at hlin
      refine ⟨scaleOut (ia.2 * 0.01) (pure ia.1) :: results, ?_, fun k => ?_⟩
      · unfold runJobs
        simp only [hlin, hrun]
      · simp only [List.map_cons, List.sum_cons, headSum_scaleOut, hsum k]

/-- **A natural element contributes the abundance-weighted sum of its isotopes**: if
`pure A` is what `activity()` gives for isotope `A` at the element's whole mass, then the sample
tally of row `k` at removal is `Σ_A abundance_A/100 · pure_A[k]`. -/
theorem natural_is_weighted_sum (c : Consts ℝ) (rowsOf : Nat → Nat → List (Nat × Row ℝ)) (mass frac : ℝ)
    (env : Env ℝ) (T : ℝ) (rests : List ℝ) (z : Nat) (isos : List (Nat × ℝ))
    (hm : 0 < mass * frac) (hab : ∀ ia ∈ isos, 0 ≤ ia.2)
    (pure : Nat → List (Nat × List ℝ))
    (hpure : ∀ ia ∈ isos, activity c (rowsOf z ia.1) (mass * frac) env T (0 :: rests) = .ok (pure ia.1)) :
    ∃ tally, calcActivation c rowsOf mass env T rests [naturalPart frac z isos] = .ok tally ∧
      ∀ k, lookR tally.removal k = (isos.map fun ia => ia.2 * 0.01 * headSum (pure ia.1) k).sum := by
  obtain ⟨results, hrun, hsum⟩ :=
    natural_jobs_results c rowsOf mass frac env T (0 :: rests) z isos hm hab pure hpure
  refine ⟨results.foldl (accumulate rests.length) {}, ?_, fun k => ?_⟩
  · unfold calcActivation; rw [hrun]
  · rw [lookR_foldl_accumulate, ← hsum k]; simp [lookR]

/-! ### the activity at removal does not depend on the requested rest times -/

theorem activity_heads (c : Consts ℝ) (rows : List (Nat × Row ℝ)) (mass : ℝ) (env : Env ℝ) (T : ℝ)
    (rests rests' : List ℝ) (out : List (Nat × List ℝ))
    (h : activity c rows mass env T (0 :: rests) = .ok out) :
    ∃ out', activity c rows mass env T (0 :: rests') = .ok out' ∧ ∀ k, headSum out' k = headSum out k := by
  induction rows generalizing out with
  | nil => simp [activity] at h; subst h; exact ⟨[], by simp [activity], fun k => rfl⟩
  | cons kr more ih =>
    obtain ⟨i, r⟩ := kr
    unfold activity at h ⊢
    split at h
    · cases h
    · exact ih out h
    · rename_i act hrow
      split at h
      · cases h
      · rename_i out1 hmore
        cases h
        obtain ⟨out2, h2, hs⟩ := ih out1 hmore
        refine ⟨(i, restDecay (c.ln2 / r.thalf) act (0 :: rests')) :: out2, by simp only [h2], fun k => ?_⟩
        simp only [headSum, List.map_cons, List.sum_cons, restDecay, List.headD_cons] at hs ⊢
        rw [hs k]

/-- **`_activity_at_removal` is the same whatever rest times are requested** -/
theorem calcActivation_removal_independent (c : Consts ℝ) (rowsOf : Nat → Nat → List (Nat × Row ℝ))
    (mass : ℝ) (env : Env ℝ) (T : ℝ) (rests rests' : List ℝ) (parts : List (Part ℝ)) (tally : Tally ℝ)
    (h : calcActivation c rowsOf mass env T rests parts = .ok tally) :
    ∃ tally', calcActivation c rowsOf mass env T rests' parts = .ok tally' ∧
      ∀ k, lookR tally'.removal k = lookR tally.removal k := by
  obtain ⟨results, hall, hsum⟩ := calcActivation_removal c rowsOf mass env T rests parts tally h
  have key : ∀ (jobs : List (Nat × Nat × ℝ)) (results : List (List (Nat × List ℝ))),
      List.Forall₂ (fun job res => activity c (rowsOf job.1 job.2.1) job.2.2 env T (0 :: rests) = .ok res)
        jobs results →
      ∃ results', List.Forall₂
          (fun job res => activity c (rowsOf job.1 job.2.1) job.2.2 env T (0 :: rests') = .ok res)
          jobs results' ∧
        ∀ k, (results'.map fun res => headSum res k).sum = (results.map fun res => headSum res k).sum := by
    intro jobs results hf
    induction hf with
    | nil => exact ⟨[], List.Forall₂.nil, fun k => rfl⟩
    | cons hres _ ih =>
      obtain ⟨rs', hf', hs'⟩ := ih
      obtain ⟨out', ho', hh'⟩ := activity_heads c _ _ env T rests rests' _ hres
      exact ⟨out' :: rs', List.Forall₂.cons ho' hf', fun k => by
        simp only [List.map_cons, List.sum_cons, hh' k, hs' k]⟩
  obtain ⟨results', hall', hs'⟩ := key _ _ hall
  refine ⟨results'.foldl (accumulate rests'.length) {}, ?_, fun k => ?_⟩
  · unfold calcActivation
    rw [runJobs_of_forall _ _ _ _ _ _ _ hall']
  · rw [lookR_foldl_accumulate, hs' k, hsum k]; simp [lookR]


/-! ### … as lists (what `decay_time` is handed) -/

/-- `(row, activity at removal)` of one `activity()` result -/
def heads (res : List (Nat × List ℝ)) : List (Nat × ℝ) := res.map fun kv => (kv.1, kv.2.headD 0)

theorem accumulate_removal (n : Nat) (s : Tally ℝ) (res : List (Nat × List ℝ)) :
    (accumulate n s res).removal
      = (heads res).foldl (fun t kv => bumpRemoval t kv.1 kv.2) s.removal := by
  unfold accumulate heads
  induction res generalizing s with
  | nil => rfl
  | cons kv more ih =>
    simp only [List.foldl_cons, List.map_cons]
    rw [ih]

theorem foldl_accumulate_removal (n : Nat) (s : Tally ℝ) (results : List (List (Nat × List ℝ))) :
    (results.foldl (accumulate n) s).removal
      = (results.flatMap heads).foldl (fun t kv => bumpRemoval t kv.1 kv.2) s.removal := by
  induction results generalizing s with
  | nil => rfl
  | cons res more ih =>
    simp only [List.foldl_cons, List.flatMap_cons, List.foldl_append]
    rw [ih, accumulate_removal]

theorem activity_heads_eq (c : Consts ℝ) (rows : List (Nat × Row ℝ)) (mass : ℝ) (env : Env ℝ) (T : ℝ)
    (rests rests' : List ℝ) (out : List (Nat × List ℝ))
    (h : activity c rows mass env T (0 :: rests) = .ok out) :
    ∃ out', activity c rows mass env T (0 :: rests') = .ok out' ∧ heads out' = heads out := by
  induction rows generalizing out with
  | nil => simp [activity] at h; subst h; exact ⟨[], by simp [activity], rfl⟩
  | cons kr more ih =>
    obtain ⟨i, r⟩ := kr
    unfold activity at h ⊢
    split at h
    · cases h
    · exact ih out h
    · rename_i act hrow
      split at h
      · cases h
      · rename_i out1 hmore
        cases h
        obtain ⟨out2, h2, hs⟩ := ih out1 hmore
        refine ⟨(i, restDecay (c.ln2 / r.thalf) act (0 :: rests')) :: out2, by simp only [h2], ?_⟩
        simp only [heads, List.map_cons, restDecay, List.headD_cons] at hs ⊢
        rw [hs]

/-- **`_activity_at_removal` – the very list `decay_time` reads – is the same whatever rest
    times were requested** -/
theorem calcActivation_removal_list_independent (c : Consts ℝ) (rowsOf : Nat → Nat → List (Nat × Row ℝ))
    (mass : ℝ) (env : Env ℝ) (T : ℝ) (rests rests' : List ℝ) (parts : List (Part ℝ)) (tally : Tally ℝ)
    (h : calcActivation c rowsOf mass env T rests parts = .ok tally) :
    ∃ tally', calcActivation c rowsOf mass env T rests' parts = .ok tally' ∧
      tally'.removal = tally.removal := by
  unfold calcActivation at h
  split at h
  · cases h
  · rename_i results hres
    cases h
    have hall := runJobs_ok _ _ _ _ _ _ _ hres
    have key : ∀ (jobs : List (Nat × Nat × ℝ)) (results : List (List (Nat × List ℝ))),
        List.Forall₂ (fun job res => activity c (rowsOf job.1 job.2.1) job.2.2 env T (0 :: rests) = .ok res)
          jobs results →
        ∃ results', List.Forall₂
            (fun job res => activity c (rowsOf job.1 job.2.1) job.2.2 env T (0 :: rests') = .ok res)
            jobs results' ∧ results'.flatMap heads = results.flatMap heads := by
      intro jobs results hf
      induction hf with
      | nil => exact ⟨[], List.Forall₂.nil, rfl⟩
      | cons hres _ ih =>
        obtain ⟨rs', hf', hs'⟩ := ih
        obtain ⟨out', ho', hh'⟩ := activity_heads_eq c _ _ env T rests rests' _ hres
        exact ⟨out' :: rs', List.Forall₂.cons ho' hf', by
          simp only [List.flatMap_cons, hh', hs']⟩
    obtain ⟨results', hall', hs'⟩ := key _ _ hall
    refine ⟨results'.foldl (accumulate rests'.length) {}, ?_, ?_⟩
    · unfold calcActivation
      rw [runJobs_of_forall _ _ _ _ _ _ _ hall']
    · rw [foldl_accumulate_removal, foldl_accumulate_removal, hs']

end PtModel.Activation
