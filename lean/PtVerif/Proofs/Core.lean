import PtVerif.Model.Core
/-! Lemmas and the invariant of the table-core state machine (C08). -/
namespace PtCore

namespace Dict
variable {κ ν : Type} [DecidableEq κ]

theorem get?_filter_ne (d : Dict κ ν) (k k' : κ) (h : k ≠ k') :
    get? (d.filter (fun e => e.1 ≠ k)) k' = get? d k' := by
  induction d with
  | nil => rfl
  | cons e d ih =>
    obtain ⟨a, v⟩ := e
    by_cases ha : a = k
    · subst ha
      simp only [List.filter, ne_eq, not_true_eq_false, decide_false, get?, h, ↓reduceIte, ih]
    · simp only [List.filter, ne_eq, ha, not_false_eq_true, decide_true, get?, ih]

theorem get?_set (d : Dict κ ν) (k k' : κ) (v : ν) :
    get? (d.set k v) k' = if k = k' then some v else get? d k' := by
  unfold set
  by_cases h : k = k'
  · simp [get?, h]
  · simp only [get?, h, ↓reduceIte]; exact get?_filter_ne d k k' h

theorem get?_set_self (d : Dict κ ν) (k : κ) (v : ν) : get? (d.set k v) k = some v := by
  simp [get?_set]

theorem get?_nil (k : κ) : get? ([] : Dict κ ν) k = none := rfl

/-- no key occurs twice -/
def KeysNodup (d : Dict κ ν) : Prop := (d.map (·.1)).Nodup

theorem keysNodup_set {d : Dict κ ν} (h : KeysNodup d) (k : κ) (v : ν) : KeysNodup (d.set k v) := by
  unfold KeysNodup set at *
  simp only [List.map_cons, List.nodup_cons]
  refine ⟨?_, ?_⟩
  · intro hm
    obtain ⟨e, he, hk⟩ := List.mem_map.mp hm
    have := (List.mem_filter.mp he).2
    simp only [ne_eq, decide_eq_true_eq] at this
    exact this hk
  · exact List.Nodup.sublist (List.Sublist.map _ (List.filter_sublist)) h

theorem mem_of_get? {d : Dict κ ν} {k : κ} {v : ν} (h : get? d k = some v) : (k, v) ∈ d := by
  induction d with
  | nil => cases h
  | cons e d ih =>
    obtain ⟨a, w⟩ := e
    simp only [get?] at h
    split at h
    · next hak => cases h; subst hak; exact List.mem_cons_self ..
    · exact List.mem_cons_of_mem _ (ih h)

theorem get?_of_mem {d : Dict κ ν} (hnd : KeysNodup d) {k : κ} {v : ν} (h : (k, v) ∈ d) :
    get? d k = some v := by
  induction d with
  | nil => cases h
  | cons e d ih =>
    obtain ⟨a, w⟩ := e
    have hnd' : a ∉ d.map (·.1) ∧ (d.map (·.1)).Nodup := List.nodup_cons.mp hnd
    simp only [get?]
    rcases List.mem_cons.mp h with heq | hmem
    · cases heq; simp
    · split
      · next hak =>
        subst hak
        exact absurd (List.mem_map.mpr ⟨(a, v), hmem, rfl⟩) hnd'.1
      · exact ih hnd'.2 hmem

end Dict

/-! ## allocation -/

theorem obj_alloc (s : State) (o : Obj) (i : Nat) :
    (s.alloc o).1.obj i = if i = s.objs.size then some o else s.obj i := by
  simp [State.alloc, State.obj, Array.getElem?_push]

theorem obj_lt_size {s : State} {i : Nat} {o : Obj} (h : s.obj i = some o) : i < s.objs.size := by
  unfold State.obj at h
  rcases Nat.lt_or_ge i s.objs.size with h1 | h1
  · exact h1
  · rw [Array.getElem?_eq_none h1] at h; cases h

theorem obj_alloc_of_some {s : State} {o o' : Obj} {i : Nat} (h : s.obj i = some o') :
    (s.alloc o).1.obj i = some o' := by
  have := obj_lt_size h
  rw [obj_alloc, if_neg (by omega), h]

theorem ionsOf_alloc (s : State) (o : Obj) (e : Nat) :
    (s.alloc o).1.ionsOf e = s.ionsOf e := by
  simp only [State.alloc, State.ionsOf, Array.getElem?_push]
  split
  · next h => subst h; rw [Array.getElem?_eq_none (Nat.le_refl _)]; rfl
  · rfl

theorem isosOf_alloc (s : State) (o : Obj) (e : Nat) :
    (s.alloc o).1.isosOf e = s.isosOf e := by
  simp only [State.alloc, State.isosOf, Array.getElem?_push]
  split
  · next h => subst h; rw [Array.getElem?_eq_none (Nat.le_refl _)]; rfl
  · rfl

end PtCore

namespace PtCore

/-! ## monotone heaps: objects are never changed or removed -/

def Ext (s s' : State) : Prop := ∀ i o, s.obj i = some o → s'.obj i = some o

theorem Ext.refl (s : State) : Ext s s := fun _ _ h => h
theorem Ext.trans {a b c : State} (h1 : Ext a b) (h2 : Ext b c) : Ext a c :=
  fun i o h => h2 i o (h1 i o h)

theorem ext_alloc (s : State) (o : Obj) : Ext s (s.alloc o).1 :=
  fun _ _ h => obj_alloc_of_some h

theorem elemOf_mono {s s' : State} (h : Ext s s') {w : Nat} {x : Nat × String × Nat}
    (hx : s.elemOf w = some x) : s'.elemOf w = some x := by
  unfold State.elemOf at hx ⊢
  cases hw : s.obj w with
  | none => simp [hw] at hx
  | some o =>
    rw [h w o hw]
    rw [hw] at hx
    cases o with
    | element t z => exact hx
    | isotope e a =>
      simp only at hx ⊢
      cases he : s.obj e with
      | none => simp [he] at hx
      | some oe => rw [h e oe he]; rw [he] at hx; exact hx
    | ion bs q =>
      simp only at hx ⊢
      cases hb : s.obj bs with
      | none => simp [hb] at hx
      | some ob =>
        rw [h bs ob hb]; rw [hb] at hx
        cases ob with
        | element t z => exact hx
        | isotope e a =>
          simp only at hx ⊢
          cases he : s.obj e with
          | none => simp [he] at hx
          | some oe => rw [h e oe he]; rw [he] at hx; exact hx
        | ion _ _ => simp at hx

def IsAtomOwner (s : State) (w : Nat) : Prop :=
  (∃ t z, s.obj w = some (.element t z)) ∨ (∃ e a, s.obj w = some (.isotope e a))

theorem IsAtomOwner.mono {s s' : State} (h : Ext s s') {w : Nat} (hw : IsAtomOwner s w) :
    IsAtomOwner s' w := by
  rcases hw with ⟨t, z, hh⟩ | ⟨e, a, hh⟩
  · exact .inl ⟨t, z, h _ _ hh⟩
  · exact .inr ⟨e, a, h _ _ hh⟩

/-! ## the invariant -/

structure Inv (b : Base) (s : State) : Prop where
  szI : s.isoC.size = s.objs.size
  szN : s.ionC.size = s.objs.size
  /-- `table._element[Z]` is the element object recorded as (table, Z) … -/
  elemSound : ∀ t z i, s.elems.get? (t, z) = some i → s.obj i = some (.element t z)
  /-- … and there is no other element object with that table and number -/
  elemUniq : ∀ t z i, s.obj i = some (.element t z) → s.elems.get? (t, z) = some i
  elemBase : ∀ t z i, s.obj i = some (.element t z) → t ∈ s.tables ∧ (b.row? z).isSome
  isoSound : ∀ e a i, (s.isosOf e).get? a = some i → s.obj i = some (.isotope e a)
  isoUniq : ∀ e a i, s.obj i = some (.isotope e a) →
    (s.isosOf e).get? a = some i ∧ ∃ t z, s.obj e = some (.element t z)
  ionSound : ∀ w q i, (s.ionsOf w).get? q = some i → s.obj i = some (.ion w q)
  ionUniq : ∀ w q i, s.obj i = some (.ion w q) →
    (s.ionsOf w).get? q = some i ∧ IsAtomOwner s w ∧
      ∃ e t z r, s.elemOf w = some (e, t, z) ∧ b.row? z = some r ∧ q ∈ r.ions
  /-- an attribute of the table object that holds an atom holds an element of that table whose
      symbol is the attribute name, or an aliased isotope (D, T) of that table -/
  attrSound : ∀ t x i, s.attrs.get? (t, x) = some i →
    (∃ z r, s.obj i = some (.element t z) ∧ b.row? z = some r ∧ r.symbol = x) ∨
    (∃ h a z nm, s.obj i = some (.isotope h a) ∧ s.obj h = some (.element t z) ∧
      s.alias.get? i = some (x, nm))
  elemsND : Dict.KeysNodup s.elems
  isosND : ∀ e, Dict.KeysNodup (s.isosOf e)
  /-- the only instance-level symbol / name pairs are those of D and T -/
  aliasVals : ∀ i p, s.alias.get? i = some p → p = ("D", "deuterium") ∨ p = ("T", "tritium")

theorem inv_init (b : Base) : Inv b init := by
  refine ⟨rfl, rfl, ?_, ?_, ?_, ?_, ?_, ?_, ?_, ?_, ?_, ?_, ?_⟩ <;> intros <;>
    simp_all [init, State.obj, State.isosOf, State.ionsOf, Dict.get?, Dict.KeysNodup]

/-- caches of an index that is not (yet) an object are empty -/
theorem Inv.isosOf_size {b : Base} {s : State} (h : Inv b s) : s.isosOf s.objs.size = [] := by
  unfold State.isosOf
  rw [Array.getElem?_eq_none (by rw [h.szI]; exact Nat.le_refl _)]; rfl

theorem Inv.ionsOf_size {b : Base} {s : State} (h : Inv b s) : s.ionsOf s.objs.size = [] := by
  unfold State.ionsOf
  rw [Array.getElem?_eq_none (by rw [h.szN]; exact Nat.le_refl _)]; rfl

end PtCore

namespace PtCore

/-! ## `Element.add_isotope` -/

/-- the state after allocating a new isotope of element object `e` -/
def State.newIso (s : State) (e a : Nat) : State :=
  let s' := (s.alloc (.isotope e a)).1
  { s' with isoC := s'.isoC.setIfInBounds e ((s'.isosOf e).set a s.objs.size) }

theorem addIsotope_some {s : State} {e a i : Nat} (h : (s.isosOf e).get? a = some i) :
    s.addIsotope e a = (s, i) := by
  simp [State.addIsotope, h]

theorem addIsotope_none {s : State} {e a : Nat} (h : (s.isosOf e).get? a = none) :
    s.addIsotope e a = (s.newIso e a, s.objs.size) := by
  simp [State.addIsotope, h, State.newIso, State.alloc]

theorem obj_newIso (s : State) (e a j : Nat) :
    (s.newIso e a).obj j = if j = s.objs.size then some (.isotope e a) else s.obj j := by
  simp [State.newIso, State.alloc, State.obj, Array.getElem?_push]

theorem ionsOf_newIso (s : State) (e a w : Nat) : (s.newIso e a).ionsOf w = s.ionsOf w := by
  have := ionsOf_alloc s (.isotope e a) w
  simpa [State.newIso, State.ionsOf, State.alloc] using this

theorem isosOf_newIso (s : State) (e a e' : Nat) (hsz : s.isoC.size = s.objs.size)
    (he : e < s.objs.size) :
    (s.newIso e a).isosOf e' =
      if e = e' then (s.isosOf e).set a s.objs.size else s.isosOf e' := by
  have h1 := isosOf_alloc s (.isotope e a)
  simp only [State.newIso, State.isosOf, State.alloc] at h1 ⊢
  rw [Array.getElem?_setIfInBounds]
  by_cases hee : e = e'
  · subst hee
    have : e < (s.isoC.push []).size := by rw [Array.size_push, hsz]; omega
    simp only [↓reduceIte, this, Option.getD_some]
    rw [h1 e]
  · simp only [hee, ↓reduceIte]; exact h1 e'

theorem ext_newIso (s : State) (e a : Nat) : Ext s (s.newIso e a) := by
  intro i o h
  have := obj_lt_size h
  rw [obj_newIso, if_neg (by omega), h]

theorem inv_newIso {b : Base} {s : State} (h : Inv b s) {e a : Nat} {t : String} {z : Nat}
    (he : s.obj e = some (.element t z)) (hn : (s.isosOf e).get? a = none) :
    Inv b (s.newIso e a) := by
  have hlt := obj_lt_size he
  have hext := ext_newIso s e a
  have hiso := fun e' => isosOf_newIso s e a e' h.szI hlt
  have hobj := obj_newIso s e a
  refine ⟨?_, ?_, ?_, ?_, ?_, ?_, ?_, ?_, ?_, ?_, h.elemsND, ?_, h.aliasVals⟩
  rotate_right
  · intro e'
    rw [hiso]
    split
    · exact Dict.keysNodup_set (h.isosND e) _ _
    · exact h.isosND e'
  · simp [State.newIso, State.alloc, h.szI]
  · simp [State.newIso, State.alloc, h.szN]
  · intro t' z' i hi
    exact hext _ _ (h.elemSound t' z' i hi)
  · intro t' z' i hi
    rw [hobj] at hi
    split at hi
    · cases hi
    · exact h.elemUniq t' z' i hi
  · intro t' z' i hi
    rw [hobj] at hi
    split at hi
    · cases hi
    · exact h.elemBase t' z' i hi
  · intro e' a' i hi
    rw [hiso] at hi
    split at hi
    · next hee =>
      subst hee
      rw [Dict.get?_set] at hi
      split at hi
      · next haa => cases hi; subst haa; rw [hobj]; simp
      · exact hext _ _ (h.isoSound _ _ _ hi)
    · exact hext _ _ (h.isoSound _ _ _ hi)
  · intro e' a' i hi
    rw [hobj] at hi
    split at hi
    · next hsz =>
      cases hi
      refine ⟨?_, t, z, hext _ _ he⟩
      rw [hiso, if_pos rfl, Dict.get?_set, if_pos rfl, hsz]
    · obtain ⟨h1, t', z', h2⟩ := h.isoUniq e' a' i hi
      refine ⟨?_, t', z', hext _ _ h2⟩
      rw [hiso]
      split
      · next hee =>
        subst hee
        rw [Dict.get?_set]
        split
        · next haa => subst haa; rw [hn] at h1; cases h1
        · exact h1
      · exact h1
  · intro w q i hi
    rw [ionsOf_newIso] at hi
    exact hext _ _ (h.ionSound w q i hi)
  · intro w q i hi
    rw [hobj] at hi
    split at hi
    · cases hi
    · obtain ⟨h1, h2, e1, t1, z1, r1, h3, h4, h5⟩ := h.ionUniq w q i hi
      exact ⟨by rw [ionsOf_newIso]; exact h1, h2.mono hext, e1, t1, z1, r1, elemOf_mono hext h3, h4, h5⟩
  · intro t' x i hi
    have : (s.newIso e a).attrs = s.attrs := rfl
    rw [this] at hi
    rcases h.attrSound t' x i hi with ⟨z', r, h1, h2, h3⟩ | ⟨hh, a', z', nm, h1, h2, h3⟩
    · exact .inl ⟨z', r, hext _ _ h1, h2, h3⟩
    · exact .inr ⟨hh, a', z', nm, hext _ _ h1, hext _ _ h2, h3⟩

end PtCore

namespace PtCore

/-! ## `IonSet.__getitem__` -/

def State.newIon (s : State) (w : Nat) (q : Int) : State :=
  let s' := (s.alloc (.ion w q)).1
  { s' with ionC := s'.ionC.setIfInBounds w ((s'.ionsOf w).set q s.objs.size) }

theorem obj_newIon (s : State) (w : Nat) (q : Int) (j : Nat) :
    (s.newIon w q).obj j = if j = s.objs.size then some (.ion w q) else s.obj j := by
  simp [State.newIon, State.alloc, State.obj, Array.getElem?_push]

theorem isosOf_newIon (s : State) (w : Nat) (q : Int) (e : Nat) :
    (s.newIon w q).isosOf e = s.isosOf e := by
  have := isosOf_alloc s (.ion w q) e
  simpa [State.newIon, State.isosOf, State.alloc] using this

theorem ionsOf_newIon (s : State) (w : Nat) (q : Int) (w' : Nat) (hsz : s.ionC.size = s.objs.size)
    (hw : w < s.objs.size) :
    (s.newIon w q).ionsOf w' =
      if w = w' then (s.ionsOf w).set q s.objs.size else s.ionsOf w' := by
  have h1 := ionsOf_alloc s (.ion w q)
  simp only [State.newIon, State.ionsOf, State.alloc] at h1 ⊢
  rw [Array.getElem?_setIfInBounds]
  by_cases hee : w = w'
  · subst hee
    have : w < (s.ionC.push []).size := by rw [Array.size_push, hsz]; omega
    simp only [↓reduceIte, this, Option.getD_some]
    rw [h1 w]
  · simp only [hee, ↓reduceIte]; exact h1 w'

theorem ext_newIon (s : State) (w : Nat) (q : Int) : Ext s (s.newIon w q) := by
  intro i o h
  have := obj_lt_size h
  rw [obj_newIon, if_neg (by omega), h]

theorem inv_newIon {b : Base} {s : State} (h : Inv b s) {w : Nat} {q : Int}
    (hw : IsAtomOwner s w) (hn : (s.ionsOf w).get? q = none)
    {e : Nat} {t : String} {z : Nat} {r : BaseRow}
    (hel : s.elemOf w = some (e, t, z)) (hr : b.row? z = some r) (hq : q ∈ r.ions) :
    Inv b (s.newIon w q) := by
  have hlt : w < s.objs.size := by
    rcases hw with ⟨_, _, hh⟩ | ⟨_, _, hh⟩ <;> exact obj_lt_size hh
  have hext := ext_newIon s w q
  have hion := fun w' => ionsOf_newIon s w q w' h.szN hlt
  have hobj := obj_newIon s w q
  refine ⟨?_, ?_, ?_, ?_, ?_, ?_, ?_, ?_, ?_, ?_, h.elemsND,
    fun e' => by rw [isosOf_newIon]; exact h.isosND e', h.aliasVals⟩
  · simp [State.newIon, State.alloc, h.szI]
  · simp [State.newIon, State.alloc, h.szN]
  · intro t' z' i hi
    exact hext _ _ (h.elemSound t' z' i hi)
  · intro t' z' i hi
    rw [hobj] at hi
    split at hi
    · cases hi
    · exact h.elemUniq t' z' i hi
  · intro t' z' i hi
    rw [hobj] at hi
    split at hi
    · cases hi
    · exact h.elemBase t' z' i hi
  · intro e' a' i hi
    rw [isosOf_newIon] at hi
    exact hext _ _ (h.isoSound _ _ _ hi)
  · intro e' a' i hi
    rw [hobj] at hi
    split at hi
    · cases hi
    · obtain ⟨h1, t', z', h2⟩ := h.isoUniq e' a' i hi
      exact ⟨by rw [isosOf_newIon]; exact h1, t', z', hext _ _ h2⟩
  · intro w' q' i hi
    rw [hion] at hi
    split at hi
    · next hee =>
      subst hee
      rw [Dict.get?_set] at hi
      split at hi
      · next hqq => cases hi; subst hqq; rw [hobj]; simp
      · exact hext _ _ (h.ionSound _ _ _ hi)
    · exact hext _ _ (h.ionSound _ _ _ hi)
  · intro w' q' i hi
    rw [hobj] at hi
    split at hi
    · next hsz =>
      cases hi
      refine ⟨?_, hw.mono hext, e, t, z, r, elemOf_mono hext hel, hr, hq⟩
      rw [hion, if_pos rfl, Dict.get?_set, if_pos rfl, hsz]
    · obtain ⟨h1, h2, e1, t1, z1, r1, h3, h4, h5⟩ := h.ionUniq w' q' i hi
      refine ⟨?_, h2.mono hext, e1, t1, z1, r1, elemOf_mono hext h3, h4, h5⟩
      rw [hion]
      split
      · next hee =>
        subst hee
        rw [Dict.get?_set]
        split
        · next hqq => subst hqq; rw [hn] at h1; cases h1
        · exact h1
      · exact h1
  · intro t' x i hi
    have : (s.newIon w q).attrs = s.attrs := rfl
    rw [this] at hi
    rcases h.attrSound t' x i hi with ⟨z', r', h1, h2, h3⟩ | ⟨hh, a', z', nm, h1, h2, h3⟩
    · exact .inl ⟨z', r', hext _ _ h1, h2, h3⟩
    · exact .inr ⟨hh, a', z', nm, hext _ _ h1, hext _ _ h2, h3⟩

/-- `IonSet.__getitem__` keeps the invariant; a returned object is the ion (owner, q) -/
theorem inv_ionGet {b : Base} {s : State} (h : Inv b s) {w : Nat} (q : Int) (hw : IsAtomOwner s w) :
    Inv b (s.ionGet b w q).1 ∧ Ext s (s.ionGet b w q).1 ∧
    ∀ i, (s.ionGet b w q).2 = .obj i → (s.ionGet b w q).1.obj i = some (.ion w q) := by
  unfold State.ionGet
  cases hg : (s.ionsOf w).get? q with
  | some i =>
    simp only
    exact ⟨h, Ext.refl s, fun j hj => by cases hj; exact h.ionSound _ _ _ hg⟩
  | none =>
    simp only
    cases hel : s.elemOf w with
    | none => exact ⟨h, Ext.refl s, fun j hj => by cases hj⟩
    | some x =>
      obtain ⟨e, t, z⟩ := x
      simp only
      cases hr : b.row? z with
      | none => exact ⟨h, Ext.refl s, fun j hj => by cases hj⟩
      | some r =>
        simp only
        by_cases hq : q ∈ r.ions
        · simp only [hq, ↓reduceIte]
          change Inv b (s.newIon w q) ∧ Ext s (s.newIon w q) ∧
            ∀ i, Res.obj s.objs.size = .obj i → (s.newIon w q).obj i = some (.ion w q)
          refine ⟨inv_newIon h hw hg hel hr hq, ext_newIon s w q, fun j hj => ?_⟩
          cases hj
          rw [obj_newIon]; simp
        · simp only [hq, ↓reduceIte]
          exact ⟨h, Ext.refl s, fun j hj => by cases hj⟩

end PtCore

namespace PtCore

/-! ## `PeriodicTable.__init__` -/

theorem obj_mkElement (s : State) (t : String) (r : BaseRow) (j : Nat) :
    (s.mkElement t r).obj j = if j = s.objs.size then some (.element t r.z) else s.obj j := by
  simp [State.mkElement, State.alloc, State.obj, Array.getElem?_push]

theorem isosOf_mkElement (s : State) (t : String) (r : BaseRow) (e : Nat) :
    (s.mkElement t r).isosOf e = s.isosOf e := by
  have := isosOf_alloc s (.element t r.z) e
  simpa [State.mkElement, State.isosOf, State.alloc] using this

theorem ionsOf_mkElement (s : State) (t : String) (r : BaseRow) (e : Nat) :
    (s.mkElement t r).ionsOf e = s.ionsOf e := by
  have := ionsOf_alloc s (.element t r.z) e
  simpa [State.mkElement, State.ionsOf, State.alloc] using this

theorem ext_mkElement (s : State) (t : String) (r : BaseRow) : Ext s (s.mkElement t r) := by
  intro i o h
  have := obj_lt_size h
  rw [obj_mkElement, if_neg (by omega), h]

theorem size_mkElement (s : State) (t : String) (r : BaseRow) :
    (s.mkElement t r).objs.size = s.objs.size + 1 := by
  simp [State.mkElement, State.alloc]

theorem elems_mkElement (s : State) (t : String) (r : BaseRow) (k : String × Nat) :
    (s.mkElement t r).elems.get? k = if (t, r.z) = k then some s.objs.size else s.elems.get? k := by
  simp [State.mkElement, State.alloc, Dict.get?_set]

theorem attrs_mkElement (s : State) (t : String) (r : BaseRow) (k : String × String) :
    (s.mkElement t r).attrs.get? k = if (t, r.symbol) = k then some s.objs.size else s.attrs.get? k := by
  simp [State.mkElement, State.alloc, Dict.get?_set]

theorem inv_mkElement {b : Base} {s : State} (h : Inv b s) {t : String} {r : BaseRow}
    (ht : t ∈ s.tables) (hr : b.row? r.z = some r) (hn : s.elems.get? (t, r.z) = none) :
    Inv b (s.mkElement t r) := by
  have hext := ext_mkElement s t r
  have hobj := obj_mkElement s t r
  refine ⟨?_, ?_, ?_, ?_, ?_, ?_, ?_, ?_, ?_, ?_, Dict.keysNodup_set h.elemsND _ _,
    fun e' => by rw [isosOf_mkElement]; exact h.isosND e', h.aliasVals⟩
  · simp [State.mkElement, State.alloc, h.szI]
  · simp [State.mkElement, State.alloc, h.szN]
  · intro t' z' i hi
    rw [elems_mkElement] at hi
    split at hi
    · next hk => cases hi; cases hk; rw [hobj]; simp
    · exact hext _ _ (h.elemSound _ _ _ hi)
  · intro t' z' i hi
    rw [hobj] at hi
    rw [elems_mkElement]
    split at hi
    · next hsz => cases hi; simp [hsz]
    · have h1 := h.elemUniq _ _ _ hi
      split
      · next hk => cases hk; rw [hn] at h1; cases h1
      · exact h1
  · intro t' z' i hi
    rw [hobj] at hi
    split at hi
    · cases hi; exact ⟨ht, by rw [hr]; rfl⟩
    · exact h.elemBase _ _ _ hi
  · intro e' a' i hi
    rw [isosOf_mkElement] at hi
    exact hext _ _ (h.isoSound _ _ _ hi)
  · intro e' a' i hi
    rw [hobj] at hi
    split at hi
    · cases hi
    · obtain ⟨h1, t', z', h2⟩ := h.isoUniq e' a' i hi
      exact ⟨by rw [isosOf_mkElement]; exact h1, t', z', hext _ _ h2⟩
  · intro w q i hi
    rw [ionsOf_mkElement] at hi
    exact hext _ _ (h.ionSound _ _ _ hi)
  · intro w q i hi
    rw [hobj] at hi
    split at hi
    · cases hi
    · obtain ⟨h1, h2, e1, t1, z1, r1, h3, h4, h5⟩ := h.ionUniq w q i hi
      exact ⟨by rw [ionsOf_mkElement]; exact h1, h2.mono hext, e1, t1, z1, r1,
        elemOf_mono hext h3, h4, h5⟩
  · intro t' x i hi
    rw [attrs_mkElement] at hi
    have hal : (s.mkElement t r).alias = s.alias := rfl
    split at hi
    · next hk =>
      cases hi; cases hk
      exact .inl ⟨r.z, r, by rw [hobj]; simp, hr, rfl⟩
    · rcases h.attrSound t' x i hi with ⟨z', r', h1, h2, h3⟩ | ⟨hh, a', z', nm, h1, h2, h3⟩
      · exact .inl ⟨z', r', hext _ _ h1, h2, h3⟩
      · exact .inr ⟨hh, a', z', nm, hext _ _ h1, hext _ _ h2, by rw [hal]; exact h3⟩

/-- the constructor loop -/
theorem inv_foldElements {b : Base} {t : String} :
    ∀ (rows : List BaseRow) (s : State), Inv b s → t ∈ s.tables →
      (∀ r ∈ rows, b.row? r.z = some r) → (rows.map (·.z)).Nodup →
      (∀ r ∈ rows, s.elems.get? (t, r.z) = none) →
      let s' := rows.foldl (fun st r => st.mkElement t r) s
      Inv b s' ∧ Ext s s' ∧ s'.tables = s.tables ∧ s.objs.size ≤ s'.objs.size ∧
      (∀ e, s'.isosOf e = s.isosOf e) ∧
      (∀ k j, s'.attrs.get? k = some j → s.attrs.get? k = some j ∨ s.objs.size ≤ j) := by
  intro rows
  induction rows with
  | nil => intro s h _ _ _ _; exact ⟨h, Ext.refl s, rfl, Nat.le_refl _, fun _ => rfl, fun _ _ hj => .inl hj⟩
  | cons r rows ih =>
    intro s h ht hrows hnd hnone
    simp only [List.foldl_cons]
    have hr := hrows r (by simp)
    have h1 := inv_mkElement h ht hr (hnone r (by simp))
    have hnd' : (rows.map (·.z)).Nodup := (List.nodup_cons.mp (by simpa using hnd)).2
    have hnotin : r.z ∉ rows.map (·.z) := (List.nodup_cons.mp (by simpa using hnd)).1
    have := ih (s.mkElement t r) h1 ht (fun r' hr' => hrows r' (by simp [hr']))
      hnd' (fun r' hr' => by
        rw [elems_mkElement]
        split
        · next hk =>
          have hz : r'.z = r.z := (congrArg Prod.snd hk).symm
          exact absurd (List.mem_map.mpr ⟨r', hr', hz⟩) hnotin
        · exact hnone r' (by simp [hr']))
    obtain ⟨i1, i2, i3, i4, i5, i6⟩ := this
    refine ⟨i1, (ext_mkElement s t r).trans i2, i3, ?_, ?_, ?_⟩
    · rw [size_mkElement] at i4; omega
    · intro e; rw [i5, isosOf_mkElement]
    · intro k j hj
      rcases i6 k j hj with h2 | h2
      · rw [attrs_mkElement] at h2
        split at h2
        · cases h2; exact .inr (Nat.le_refl _)
        · exact .inl h2
      · rw [size_mkElement] at h2; exact .inr (by omega)

end PtCore

namespace PtCore

/-- the state `mkAlias` produces when the isotope is new -/
def State.aliased (s : State) (t sym name : String) (h a : Nat) : State :=
  let s' := s.newIso h a
  { s' with attrs := s'.attrs.set (t, sym) s.objs.size, alias := s'.alias.set s.objs.size (sym, name) }

theorem mkAlias_eq {s : State} {t sym name : String} {h a : Nat} {t' : String} {z' : Nat}
    (hH : s.attrs.get? (t, "H") = some h) (ho : s.obj h = some (.element t' z'))
    (hn : (s.isosOf h).get? a = none) :
    s.mkAlias t sym name a = some (s.aliased t sym name h a) := by
  simp only [State.mkAlias, hH, ho, addIsotope_none hn]
  rfl

theorem inv_aliased {b : Base} {s : State} (hs : Inv b s) {t sym name : String} {h a : Nat}
    {z : Nat} (ho : s.obj h = some (.element t z)) (hn : (s.isosOf h).get? a = none)
    (hv : (sym, name) = ("D", "deuterium") ∨ (sym, name) = ("T", "tritium")) :
    Inv b (s.aliased t sym name h a) := by
  have h2 := inv_newIso hs ho hn
  have hext := ext_newIso s h a
  refine ⟨h2.szI, h2.szN, h2.elemSound, h2.elemUniq, h2.elemBase, h2.isoSound, h2.isoUniq,
    h2.ionSound, h2.ionUniq, ?_, h2.elemsND, h2.isosND, ?_⟩
  rotate_left
  · intro i p hp
    have hal : (s.aliased t sym name h a).alias = s.alias.set s.objs.size (sym, name) := rfl
    rw [hal, Dict.get?_set] at hp
    split at hp
    · cases hp; exact hv
    · exact hs.aliasVals i p hp
  intro t' x j hj
  have hat : (s.aliased t sym name h a).attrs = s.attrs.set (t, sym) s.objs.size := rfl
  have hal : (s.aliased t sym name h a).alias = s.alias.set s.objs.size (sym, name) := rfl
  have hob : ∀ k, (s.aliased t sym name h a).obj k = (s.newIso h a).obj k := fun _ => rfl
  rw [hat, Dict.get?_set] at hj
  split at hj
  · next hk =>
    cases hj; cases hk
    refine .inr ⟨h, a, z, name, ?_, ?_, ?_⟩
    · rw [hob, obj_newIso]; simp
    · rw [hob]; exact hext _ _ ho
    · rw [hal, Dict.get?_set_self]
  · rcases hs.attrSound t' x j hj with ⟨z', r', h1, h3, h4⟩ | ⟨hh, a', z', nm, h1, h3, h4⟩
    · exact .inl ⟨z', r', by rw [hob]; exact hext _ _ h1, h3, h4⟩
    · refine .inr ⟨hh, a', z', nm, by rw [hob]; exact hext _ _ h1, by rw [hob]; exact hext _ _ h3, ?_⟩
      have hlt := obj_lt_size h1
      rw [hal, Dict.get?_set, if_neg (by omega)]
      exact h4

theorem ext_aliased (s : State) (t sym name : String) (h a : Nat) :
    Ext s (s.aliased t sym name h a) := ext_newIso s h a

theorem row?_of_mem : ∀ {b : Base}, (b.map (·.z)).Nodup → ∀ {r : BaseRow}, r ∈ b → b.row? r.z = some r := by
  intro b
  induction b with
  | nil => intro _ r hr; cases hr
  | cons r0 b ih =>
    intro hb r hr
    have hnd : r0.z ∉ b.map (·.z) ∧ (b.map (·.z)).Nodup := List.nodup_cons.mp hb
    unfold Base.row?
    simp only [List.find?_cons]
    by_cases h0 : r0.z = r.z
    · simp only [h0, decide_true]
      rcases List.mem_cons.mp hr with rfl | hr'
      · rfl
      · exact absurd (List.mem_map.mpr ⟨r, hr', h0.symm⟩) hnd.1
    · simp only [h0, decide_false]
      rcases List.mem_cons.mp hr with rfl | hr'
      · exact absurd rfl h0
      · exact ih hnd.2 hr'

/-- `PeriodicTable(name)` keeps the invariant (Z distinct in `element_base`) -/
theorem inv_newTable {b : Base} (hb : (b.map (·.z)).Nodup) {s : State} (hs : Inv b s) (t : String) :
    Inv b (s.newTable b t).1 ∧ Ext s (s.newTable b t).1 := by
  unfold State.newTable
  by_cases ht : t ∈ s.tables
  · simp only [ht, ↓reduceIte]; exact ⟨hs, Ext.refl s⟩
  · simp only [ht, ↓reduceIte]
    -- s1: the table is registered
    let s1 : State := { s with tables := t :: s.tables }
    have hs1 : Inv b s1 :=
      ⟨hs.szI, hs.szN, hs.elemSound, hs.elemUniq,
        fun t' z' i hi => ⟨List.mem_cons_of_mem _ (hs.elemBase t' z' i hi).1, (hs.elemBase t' z' i hi).2⟩,
        hs.isoSound, hs.isoUniq, hs.ionSound, hs.ionUniq, hs.attrSound, hs.elemsND, hs.isosND, hs.aliasVals⟩
    have hrows : ∀ r ∈ b, b.row? r.z = some r := fun r hr => row?_of_mem hb hr
    have hnoelem : ∀ z, s1.elems.get? (t, z) = none := by
      intro z
      show s.elems.get? (t, z) = none
      cases hg : s.elems.get? (t, z) with
      | none => rfl
      | some i => exact absurd (hs.elemBase t z i (hs.elemSound t z i hg)).1 ht
    have hfold := inv_foldElements (b := b) (t := t) b s1 hs1 (List.mem_cons_self ..) hrows hb
      (fun r _ => hnoelem r.z)
    obtain ⟨i1, i2, i3, i4, i5, i6⟩ := hfold
    have hs2 := i1
    generalize hs2def : List.foldl (fun st r => st.mkElement t r) s1 b = s2 at *
    have hextS : Ext s s2 := i2
    cases hH : s2.attrs.get? (t, "H") with
    | none =>
      simp only [State.mkAlias, hH]
      exact ⟨hs2, hextS⟩
    | some h =>
      -- h was created by the loop, so it has no isotopes yet
      have hnew : s.objs.size ≤ h := by
        rcases i6 _ _ hH with hold | hge
        · rcases hs.attrSound t "H" h hold with ⟨z', _, h1, _, _⟩ | ⟨hh, _, z', _, _, h3, _⟩
          · exact absurd (hs.elemBase _ _ _ h1).1 ht
          · exact absurd (hs.elemBase _ _ _ h3).1 ht
        · exact hge
      have hiso0 : s2.isosOf h = [] := by
        rw [i5]
        show s.isosOf h = []
        unfold State.isosOf
        rw [Array.getElem?_eq_none (by rw [hs.szI]; exact hnew)]; rfl
      rcases hs2.attrSound t "H" h hH with ⟨z, r, ho, _, _⟩ | ⟨hh, a', z', nm, ho, _, _⟩
      · have hn2 : (s2.isosOf h).get? 2 = none := by rw [hiso0]; rfl
        rw [mkAlias_eq hH ho hn2]
        simp only
        have hs3 := inv_aliased (sym := "D") (name := "deuterium") hs2 ho hn2 (.inl rfl)
        have hext3 := ext_aliased s2 t "D" "deuterium" h 2
        have hH3 : (s2.aliased t "D" "deuterium" h 2).attrs.get? (t, "H") = some h := by
          show (s2.attrs.set (t, "D") s2.objs.size).get? (t, "H") = some h
          rw [Dict.get?_set, if_neg (fun hk => absurd (show ("D" : String) = "H" from congrArg Prod.snd hk) (by decide)), hH]
        have ho3 := hext3 _ _ ho
        have hn3 : ((s2.aliased t "D" "deuterium" h 2).isosOf h).get? 3 = none := by
          have : (s2.aliased t "D" "deuterium" h 2).isosOf h = (s2.newIso h 2).isosOf h := rfl
          rw [this, isosOf_newIso s2 h 2 h hs2.szI (obj_lt_size ho), if_pos rfl, Dict.get?_set,
            if_neg (by decide), hiso0]
          rfl
        rw [mkAlias_eq hH3 ho3 hn3]
        simp only
        exact ⟨inv_aliased hs3 ho3 hn3 (.inr rfl), hextS.trans (hext3.trans (ext_aliased _ t "T" "tritium" h 3))⟩
      · -- `table.H` is an isotope: the constructor stops
        simp only [State.mkAlias, hH, ho]
        exact ⟨hs2, hextS⟩

end PtCore

namespace PtCore

theorem elemOf_elem {s : State} {o e : Nat} {t : String} {z : Nat}
    (h : s.elemOf o = some (e, t, z)) : s.obj e = some (.element t z) := by
  unfold State.elemOf at h
  cases ho : s.obj o with
  | none => simp [ho] at h
  | some ob =>
    rw [ho] at h
    cases ob with
    | element t' z' => simp only [Option.some.injEq, Prod.mk.injEq] at h; obtain ⟨rfl, rfl, rfl⟩ := h; exact ho
    | isotope e' a =>
      simp only at h
      cases he : s.obj e' with
      | none => simp [he] at h
      | some oe =>
        rw [he] at h
        cases oe with
        | element t' z' => simp only [Option.some.injEq, Prod.mk.injEq] at h; obtain ⟨rfl, rfl, rfl⟩ := h; exact he
        | isotope _ _ => simp at h
        | ion _ _ => simp at h
    | ion bs q =>
      simp only at h
      cases hb : s.obj bs with
      | none => simp [hb] at h
      | some ob =>
        rw [hb] at h
        cases ob with
        | element t' z' => simp only [Option.some.injEq, Prod.mk.injEq] at h; obtain ⟨rfl, rfl, rfl⟩ := h; exact hb
        | isotope e' a =>
          simp only at h
          cases he : s.obj e' with
          | none => simp [he] at h
          | some oe =>
            rw [he] at h
            cases oe with
            | element t' z' => simp only [Option.some.injEq, Prod.mk.injEq] at h; obtain ⟨rfl, rfl, rfl⟩ := h; exact he
            | isotope _ _ => simp at h
            | ion _ _ => simp at h
        | ion _ _ => simp at h

theorem inv_addIsotope {b : Base} {s : State} (h : Inv b s) {e a : Nat} {t : String} {z : Nat}
    (he : s.obj e = some (.element t z)) :
    Inv b (s.addIsotope e a).1 ∧ Ext s (s.addIsotope e a).1 ∧
      (s.addIsotope e a).1.obj (s.addIsotope e a).2 = some (.isotope e a) := by
  cases hg : (s.isosOf e).get? a with
  | some i => rw [addIsotope_some hg]; exact ⟨h, Ext.refl s, h.isoSound _ _ _ hg⟩
  | none =>
    rw [addIsotope_none hg]
    exact ⟨inv_newIso h he hg, ext_newIso s e a, by rw [obj_newIso]; simp⟩

theorem inv_path {b : Base} {s : State} (h : Inv b s) (t : String) (z : Nat) (a : Option Nat)
    (q : Option Int) : Inv b (s.path b t z a q).1 ∧ Ext s (s.path b t z a q).1 := by
  unfold State.path
  cases he : s.elems.get? (t, z) with
  | none => exact ⟨h, Ext.refl s⟩
  | some e =>
    simp only
    have hoe := h.elemSound _ _ _ he
    cases a with
    | none =>
      cases q with
      | none => exact ⟨h, Ext.refl s⟩
      | some q => simp only; exact ⟨(inv_ionGet h q (.inl ⟨t, z, hoe⟩)).1, (inv_ionGet h q (.inl ⟨t, z, hoe⟩)).2.1⟩
    | some a =>
      simp only [State.isoGet]
      cases hi : (s.isosOf e).get? a with
      | none => cases q <;> exact ⟨h, Ext.refl s⟩
      | some i =>
        cases q with
        | none => exact ⟨h, Ext.refl s⟩
        | some q =>
          simp only
          have hoi := h.isoSound _ _ _ hi
          exact ⟨(inv_ionGet h q (.inr ⟨e, a, hoi⟩)).1, (inv_ionGet h q (.inr ⟨e, a, hoi⟩)).2.1⟩

/-- every operation keeps the invariant and never changes an existing object -/
theorem inv_step {b : Base} (hb : (b.map (·.z)).Nodup) {s : State} (h : Inv b s) (op : Op) :
    Inv b (step b s op).1 ∧ Ext s (step b s op).1 := by
  cases op with
  | newTable t => exact inv_newTable hb h t
  | defineElements t =>
    simp only [step]
    split
    · exact ⟨⟨h.szI, h.szN, h.elemSound, h.elemUniq, h.elemBase, h.isoSound, h.isoUniq, h.ionSound,
        h.ionUniq, h.attrSound, h.elemsND, h.isosND, h.aliasVals⟩, fun _ _ hh => hh⟩
    · exact ⟨h, Ext.refl s⟩
  | getZ t z => exact ⟨h, Ext.refl s⟩
  | symbol t x => simp only [step]; split <;> exact ⟨h, Ext.refl s⟩
  | name t x =>
    simp only [step]
    split
    · exact ⟨h, Ext.refl s⟩
    · split
      · exact ⟨h, Ext.refl s⟩
      · split <;> exact ⟨h, Ext.refl s⟩
  | isotope t x =>
    simp only [step]
    split
    · split
      · split
        · exact ⟨h, Ext.refl s⟩
        · split
          · exact ⟨h, Ext.refl s⟩
          · split <;> exact ⟨h, Ext.refl s⟩
      · split <;> exact ⟨h, Ext.refl s⟩
      · exact ⟨h, Ext.refl s⟩
    · exact ⟨h, Ext.refl s⟩
  | attr t x => simp only [step]; split <;> exact ⟨h, Ext.refl s⟩
  | modAttr x => simp only [step]; split <;> exact ⟨h, Ext.refl s⟩
  | iso o a => simp only [step]; split <;> exact ⟨h, Ext.refl s⟩
  | addIsotope o a =>
    simp only [step]
    cases hel : s.elemOf o with
    | none => exact ⟨h, Ext.refl s⟩
    | some x =>
      obtain ⟨e, t, z⟩ := x
      simp only
      have := inv_addIsotope (a := a) h (elemOf_elem hel)
      exact ⟨this.1, this.2.1⟩
  | ion o q =>
    simp only [step]
    cases hw : s.ionOwner o with
    | none => exact ⟨h, Ext.refl s⟩
    | some w =>
      simp only
      have hown : IsAtomOwner s w := by
        unfold State.ionOwner at hw
        cases ho : s.obj o with
        | none => simp [ho] at hw
        | some ob =>
          rw [ho] at hw
          cases ob with
          | element t z => cases hw; exact .inl ⟨t, z, ho⟩
          | isotope e a => cases hw; exact .inr ⟨e, a, ho⟩
          | ion bs q' => cases hw; exact (h.ionUniq _ _ _ ho).2.1
      exact ⟨(inv_ionGet h q hown).1, (inv_ionGet h q hown).2.1⟩
  | element o => simp only [step]; split <;> exact ⟨h, Ext.refl s⟩
  | isotopes o => simp only [step]; split <;> exact ⟨h, Ext.refl s⟩
  | iterTable t => simp only [step]; split <;> exact ⟨h, Ext.refl s⟩
  | iterIso o => simp only [step]; split <;> exact ⟨h, Ext.refl s⟩
  | reduce o =>
    simp only [step]
    split
    · split
      · exact inv_path h _ _ _ _
      · exact ⟨h, Ext.refl s⟩
    · exact ⟨h, Ext.refl s⟩
  | changeTable o t =>
    simp only [step]
    split
    · split
      · exact inv_path h _ _ _ _
      · exact ⟨h, Ext.refl s⟩
    · exact ⟨h, Ext.refl s⟩

theorem inv_run {b : Base} (hb : (b.map (·.z)).Nodup) :
    ∀ (ops : List Op) {s : State}, Inv b s → Inv b (run b s ops)
  | [], _, h => h
  | op :: ops, _, h => inv_run hb ops (inv_step hb h op).1

end PtCore

namespace PtCore

/-! ## keys of objects, uniqueness -/

theorem keyOf_element {s : State} {i : Nat} {t : String} {z : Nat}
    (h : s.obj i = some (.element t z)) : s.keyOf i = some ⟨t, z, none, none⟩ := by
  simp [State.keyOf, State.elemOf, State.isoNum, State.chargeOf, h]

theorem keyOf_isotope {b : Base} {s : State} (hs : Inv b s) {i e a : Nat}
    (h : s.obj i = some (.isotope e a)) :
    ∃ t z, s.obj e = some (.element t z) ∧ s.keyOf i = some ⟨t, z, some a, none⟩ := by
  obtain ⟨_, t, z, he⟩ := hs.isoUniq _ _ _ h
  exact ⟨t, z, he, by simp [State.keyOf, State.elemOf, State.isoNum, State.chargeOf, h, he]⟩

theorem keyOf_ion {b : Base} {s : State} (hs : Inv b s) {i w : Nat} {q : Int}
    (h : s.obj i = some (.ion w q)) :
    (∃ t z, s.obj w = some (.element t z) ∧ s.keyOf i = some ⟨t, z, none, some q⟩) ∨
    (∃ e a t z, s.obj w = some (.isotope e a) ∧ s.obj e = some (.element t z) ∧
      s.keyOf i = some ⟨t, z, some a, some q⟩) := by
  obtain ⟨_, hown, _⟩ := hs.ionUniq _ _ _ h
  rcases hown with ⟨t, z, hw⟩ | ⟨e, a, hw⟩
  · exact .inl ⟨t, z, hw, by simp [State.keyOf, State.elemOf, State.isoNum, State.chargeOf, h, hw]⟩
  · obtain ⟨_, t, z, he⟩ := hs.isoUniq _ _ _ hw
    exact .inr ⟨e, a, t, z, hw, he,
      by simp [State.keyOf, State.elemOf, State.isoNum, State.chargeOf, h, hw, he]⟩

theorem obj_of_keyOf {s : State} {i : Nat} {k : Key} (h : s.keyOf i = some k) :
    ∃ o, s.obj i = some o := by
  cases ho : s.obj i with
  | none => simp [State.keyOf, State.elemOf, ho] at h
  | some o => exact ⟨o, rfl⟩

theorem unique_element {b : Base} {s : State} (hs : Inv b s) {i j : Nat} {t : String} {z : Nat}
    (hi : s.obj i = some (.element t z)) (hj : s.obj j = some (.element t z)) : i = j := by
  have h1 := hs.elemUniq _ _ _ hi
  have h2 := hs.elemUniq _ _ _ hj
  rw [h1] at h2; exact Option.some.inj h2

theorem unique_isotope {b : Base} {s : State} (hs : Inv b s) {i j e e' a : Nat} {t : String} {z : Nat}
    (hi : s.obj i = some (.isotope e a)) (hj : s.obj j = some (.isotope e' a))
    (he : s.obj e = some (.element t z)) (he' : s.obj e' = some (.element t z)) : i = j := by
  have hee := unique_element hs he he'
  subst hee
  have h1 := (hs.isoUniq _ _ _ hi).1
  have h2 := (hs.isoUniq _ _ _ hj).1
  rw [h1] at h2; exact Option.some.inj h2

/-- **uniqueness**: two objects that report the same table, number, isotope number and charge are
    one object -/
theorem unique {b : Base} {s : State} (hs : Inv b s) {i j : Nat} {k : Key}
    (hi : s.keyOf i = some k) (hj : s.keyOf j = some k) : i = j := by
  obtain ⟨oi, hoi⟩ := obj_of_keyOf hi
  obtain ⟨oj, hoj⟩ := obj_of_keyOf hj
  cases oi with
  | element t z =>
    rw [keyOf_element hoi] at hi; cases hi
    cases oj with
    | element t' z' => rw [keyOf_element hoj] at hj; cases hj; exact unique_element hs hoi hoj
    | isotope e' a' => obtain ⟨_, _, _, hk⟩ := keyOf_isotope hs hoj; rw [hk] at hj; cases hj
    | ion w' q' =>
      rcases keyOf_ion hs hoj with ⟨_, _, _, hk⟩ | ⟨_, _, _, _, _, _, hk⟩ <;> (rw [hk] at hj; cases hj)
  | isotope e a =>
    obtain ⟨t, z, he, hk⟩ := keyOf_isotope hs hoi
    rw [hk] at hi; cases hi
    cases oj with
    | element t' z' => rw [keyOf_element hoj] at hj; cases hj
    | isotope e' a' =>
      obtain ⟨t', z', he', hk'⟩ := keyOf_isotope hs hoj
      rw [hk'] at hj; cases hj
      exact unique_isotope hs hoi hoj he he'
    | ion w' q' =>
      rcases keyOf_ion hs hoj with ⟨_, _, _, hk'⟩ | ⟨_, _, _, _, _, _, hk'⟩ <;> (rw [hk'] at hj; cases hj)
  | ion w q =>
    cases oj with
    | element t' z' =>
      rw [keyOf_element hoj] at hj; cases hj
      rcases keyOf_ion hs hoi with ⟨_, _, _, hk⟩ | ⟨_, _, _, _, _, _, hk⟩ <;> (rw [hk] at hi; cases hi)
    | isotope e' a' =>
      obtain ⟨_, _, _, hk'⟩ := keyOf_isotope hs hoj
      rw [hk'] at hj; cases hj
      rcases keyOf_ion hs hoi with ⟨_, _, _, hk⟩ | ⟨_, _, _, _, _, _, hk⟩ <;> (rw [hk] at hi; cases hi)
    | ion w' q' =>
      have hww : w = w' ∧ q = q' := by
        rcases keyOf_ion hs hoi with ⟨t, z, hw, hk⟩ | ⟨e, a, t, z, hw, he, hk⟩ <;>
        rcases keyOf_ion hs hoj with ⟨t', z', hw', hk'⟩ | ⟨e', a', t', z', hw', he', hk'⟩ <;>
        (rw [hk] at hi; rw [hk'] at hj; cases hi; cases hj)
        · exact ⟨unique_element hs hw hw', rfl⟩
        · exact ⟨unique_isotope hs hw hw' he he', rfl⟩
      obtain ⟨rfl, rfl⟩ := hww
      have h1 := (hs.ionUniq _ _ _ hoi).1
      have h2 := (hs.ionUniq _ _ _ hoj).1
      rw [h1] at h2; exact Option.some.inj h2

end PtCore

namespace PtCore

/-! ## what each route returns -/

theorem keyOf_mono {b : Base} {s s' : State} (hs : Inv b s) (hs' : Inv b s') (hext : Ext s s')
    {i : Nat} {k : Key} (h : s.keyOf i = some k) : s'.keyOf i = some k := by
  obtain ⟨o, ho⟩ := obj_of_keyOf h
  cases o with
  | element t z => rw [keyOf_element ho] at h; rw [keyOf_element (hext _ _ ho)]; exact h
  | isotope e a =>
    obtain ⟨t, z, he, hk⟩ := keyOf_isotope hs ho
    obtain ⟨t', z', he', hk'⟩ := keyOf_isotope hs' (hext _ _ ho)
    rw [hext _ _ he] at he'; cases he'
    rw [hk'] ; rw [hk] at h; exact h
  | ion w q =>
    rcases keyOf_ion hs ho with ⟨t, z, hw, hk⟩ | ⟨e, a, t, z, hw, he, hk⟩ <;>
    rcases keyOf_ion hs' (hext _ _ ho) with ⟨t', z', hw', hk'⟩ | ⟨e', a', t', z', hw', he', hk'⟩
    · rw [hext _ _ hw] at hw'; cases hw'; rw [hk']; rw [hk] at h; exact h
    · rw [hext _ _ hw] at hw'; cases hw'
    · rw [hext _ _ hw] at hw'; cases hw'
    · rw [hext _ _ hw] at hw'; cases hw'
      rw [hext _ _ he] at he'; cases he'
      rw [hk']; rw [hk] at h; exact h

/-- `_get_table(t)[Z][A].ion[q]` returns the atom with exactly that key -/
theorem path_key {b : Base} {s : State} (hs : Inv b s) {t : String} {z : Nat} {a : Option Nat}
    {q : Option Int} {s' : State} {i : Nat} (h : s.path b t z a q = (s', .obj i)) :
    s'.keyOf i = some ⟨t, z, a, q⟩ := by
  unfold State.path at h
  cases he : s.elems.get? (t, z) with
  | none => simp [he] at h
  | some e =>
    simp only [he] at h
    have hoe := hs.elemSound _ _ _ he
    cases a with
    | none =>
      cases q with
      | none =>
        simp only at h
        obtain ⟨rfl, hi⟩ := Prod.mk.inj h
        cases hi
        exact keyOf_element hoe
      | some q =>
        simp only at h
        have hown : IsAtomOwner s e := .inl ⟨t, z, hoe⟩
        obtain ⟨hinv, hext, hres⟩ := inv_ionGet hs q hown
        rw [h] at hinv hext hres
        have hoi := hres i rfl
        rcases keyOf_ion hinv hoi with ⟨t', z', hw, hk⟩ | ⟨e', a', t', z', hw, _, _⟩
        · rw [hext _ _ hoe] at hw; cases hw; exact hk
        · rw [hext _ _ hoe] at hw; cases hw
    | some a =>
      simp only [State.isoGet] at h
      cases hi : (s.isosOf e).get? a with
      | none => cases q <;> simp [hi] at h
      | some j =>
        simp only [hi] at h
        have hoj := hs.isoSound _ _ _ hi
        cases q with
        | none =>
          simp only at h
          obtain ⟨rfl, hi'⟩ := Prod.mk.inj h
          cases hi'
          obtain ⟨t', z', he', hk⟩ := keyOf_isotope hs hoj
          rw [hoe] at he'; cases he'
          exact hk
        | some q =>
          simp only at h
          have hown : IsAtomOwner s j := .inr ⟨e, a, hoj⟩
          obtain ⟨hinv, hext, hres⟩ := inv_ionGet hs q hown
          rw [h] at hinv hext hres
          have hoi := hres i rfl
          rcases keyOf_ion hinv hoi with ⟨t', z', hw, _⟩ | ⟨e', a', t', z', hw, he', hk⟩
          · rw [hext _ _ hoj] at hw; cases hw
          · rw [hext _ _ hoj] at hw; cases hw
            rw [hext _ _ hoe] at he'; cases he'
            exact hk

/-- restoring a pickled / copied atom returns the very same object -/
theorem reduce_id {b : Base} (hb : (b.map (·.z)).Nodup) {s : State} (hs : Inv b s) {o i : Nat}
    {s' : State} (h : step b s (.reduce o) = (s', .obj i)) : i = o := by
  have hinv := inv_step hb hs (.reduce o)
  rw [h] at hinv
  simp only [step] at h
  cases hk : s.keyOf o with
  | none => simp [hk] at h
  | some k =>
    simp only [hk] at h
    split at h
    · have h1 := path_key hs h
      have h2 := keyOf_mono hs hinv.1 hinv.2 hk
      exact unique hinv.1 h1 h2
    · cases h

/-- moving an atom to another table gives the atom with the same Z, A and charge there -/
theorem changeTable_key {b : Base} {s : State} (hs : Inv b s) {o i : Nat} {t : String}
    {s' : State} {k : Key} (hk : s.keyOf o = some k)
    (h : step b s (.changeTable o t) = (s', .obj i)) :
    s'.keyOf i = some ⟨t, k.z, k.a, k.q⟩ := by
  simp only [step, hk] at h
  split at h
  · exact path_key hs h
  · cases h

theorem symName_of_attr {b : Base} {s : State} (hs : Inv b s) {t x : String} {i : Nat}
    (h : s.attrs.get? (t, x) = some i) :
    ∃ nm k, s.symName b i = some (x, nm) ∧ s.keyOf i = some k ∧ k.table = t ∧ k.q = none := by
  rcases hs.attrSound t x i h with ⟨z, r, ho, hr, hsym⟩ | ⟨hh, a, z, nm, ho, hho, hal⟩
  · refine ⟨r.name, ⟨t, z, none, none⟩, ?_, keyOf_element ho, rfl, rfl⟩
    simp [State.symName, State.elemOf, ho, hr, hsym]
  · obtain ⟨t', z', he', hk⟩ := keyOf_isotope hs ho
    rw [hho] at he'; cases he'
    refine ⟨nm, _, ?_, hk, rfl, rfl⟩
    simp [State.symName, ho, hal]

end PtCore

namespace PtCore

/-! ## iteration: `sorted(dict.items())` -/

theorem insertByKey_perm {ν : Type} (x : Nat × ν) : ∀ l, (insertByKey x l).Perm (x :: l)
  | [] => List.Perm.refl _
  | y :: ys => by
    unfold insertByKey
    split
    · exact List.Perm.refl _
    · exact ((insertByKey_perm x ys).cons y).trans (List.Perm.swap x y ys)

theorem sortByKey_perm {ν : Type} : ∀ l : List (Nat × ν), (sortByKey l).Perm l
  | [] => List.Perm.refl _
  | x :: xs => (insertByKey_perm x _).trans ((sortByKey_perm xs).cons x)

theorem insertByKey_sorted {ν : Type} (x : Nat × ν) :
    ∀ l, l.Pairwise (fun a b => a.1 ≤ b.1) → (insertByKey x l).Pairwise (fun a b => a.1 ≤ b.1)
  | [], _ => by simp [insertByKey]
  | y :: ys, h => by
    have hc := List.pairwise_cons.mp h
    unfold insertByKey
    split
    · next hxy =>
      refine List.pairwise_cons.mpr ⟨?_, h⟩
      intro a ha
      rcases List.mem_cons.mp ha with rfl | ha'
      · exact hxy
      · exact Nat.le_trans hxy (hc.1 a ha')
    · next hxy =>
      refine List.pairwise_cons.mpr ⟨?_, insertByKey_sorted x ys hc.2⟩
      intro a ha
      rcases List.mem_cons.mp ((insertByKey_perm x ys).mem_iff.mp ha) with rfl | ha'
      · omega
      · exact hc.1 a ha'

theorem sortByKey_sorted {ν : Type} : ∀ l : List (Nat × ν), (sortByKey l).Pairwise (fun a b => a.1 ≤ b.1)
  | [] => List.Pairwise.nil
  | x :: xs => insertByKey_sorted x _ (sortByKey_sorted xs)

/-- sorting the items of a dictionary without duplicate keys by key gives strictly increasing
    keys and exactly the items -/
theorem sorted_items {ν : Type} (raw : List (Nat × ν)) (hnd : raw.Pairwise (fun x y => x.1 ≠ y.1)) :
    let L := sortByKey raw
    (L.map (·.1)).Pairwise (· < ·) ∧ ∀ x, x ∈ L ↔ x ∈ raw := by
  intro L
  have hperm : L.Perm raw := sortByKey_perm raw
  refine ⟨?_, fun x => hperm.mem_iff⟩
  have hle : L.Pairwise (fun a b => a.1 ≤ b.1) := sortByKey_sorted raw
  have hne : L.Pairwise (fun x y => x.1 ≠ y.1) :=
    (hperm.pairwise_iff (fun h => Ne.symm h)).mpr hnd
  rw [List.pairwise_map]
  exact (hle.and hne).imp (fun ⟨h1, h2⟩ => by omega)

theorem elems_raw_nodup (t : String) :
    ∀ (d : Dict (String × Nat) Nat), Dict.KeysNodup d →
      ((d.filter (fun e => e.1.1 = t)).map (fun e => (e.1.2, e.2))).Pairwise (fun x y => x.1 ≠ y.1) := by
  intro d
  induction d with
  | nil => intro _; exact List.Pairwise.nil
  | cons e d ih =>
    intro hnd
    have hnd' : e.1 ∉ d.map (·.1) ∧ (d.map (·.1)).Nodup := List.nodup_cons.mp hnd
    simp only [List.filter_cons]
    split
    · next ht =>
      simp only [List.map_cons, List.pairwise_cons]
      refine ⟨?_, ih hnd'.2⟩
      intro y hy hzy
      obtain ⟨e', he', rfl⟩ := List.mem_map.mp hy
      have hf := List.mem_filter.mp he'
      simp only [decide_eq_true_eq] at ht hf
      apply hnd'.1
      refine List.mem_map.mpr ⟨e', hf.1, ?_⟩
      obtain ⟨⟨t1, z1⟩, v1⟩ := e
      obtain ⟨⟨t2, z2⟩, v2⟩ := e'
      simp only at ht hf hzy ⊢
      rw [ht, hf.2, hzy]
    · exact ih hnd'.2

/-- `for el in table`: every element of the table exactly once, by increasing Z -/
theorem sortedElems_spec {b : Base} {s : State} (hs : Inv b s) (t : String) :
    ((s.sortedElems t).map (·.1)).Pairwise (· < ·) ∧
    ∀ z i, (z, i) ∈ s.sortedElems t ↔ s.elems.get? (t, z) = some i := by
  have h := sorted_items _ (elems_raw_nodup t s.elems hs.elemsND)
  refine ⟨h.1, fun z i => ?_⟩
  unfold State.sortedElems
  rw [h.2]
  constructor
  · intro hm
    obtain ⟨e, he, heq⟩ := List.mem_map.mp hm
    have hf := List.mem_filter.mp he
    obtain ⟨⟨t1, z1⟩, v1⟩ := e
    simp only [decide_eq_true_eq] at hf
    simp only [Prod.mk.injEq] at heq
    obtain ⟨rfl, rfl⟩ := heq
    have : t1 = t := hf.2
    subst this
    exact Dict.get?_of_mem hs.elemsND hf.1
  · intro hg
    exact List.mem_map.mpr ⟨((t, z), i), List.mem_filter.mpr ⟨Dict.mem_of_get? hg, by simp⟩, rfl⟩

/-- `for iso in element`: every isotope of the element exactly once, by increasing A -/
theorem sortedIsos_spec {b : Base} {s : State} (hs : Inv b s) (e : Nat) :
    ((s.sortedIsos e).map (·.1)).Pairwise (· < ·) ∧
    ∀ a i, (a, i) ∈ s.sortedIsos e ↔ (s.isosOf e).get? a = some i := by
  have hnd : (s.isosOf e).Pairwise (fun x y => x.1 ≠ y.1) := by
    have := hs.isosND e
    unfold Dict.KeysNodup at this
    rw [List.Nodup, List.pairwise_map] at this
    exact this
  have h := sorted_items _ hnd
  refine ⟨h.1, fun a i => ?_⟩
  unfold State.sortedIsos
  rw [h.2]
  exact ⟨fun hm => Dict.get?_of_mem (hs.isosND e) hm, fun hg => Dict.mem_of_get? hg⟩

end PtCore

namespace PtCore

theorem getZ_key {b : Base} {s : State} (hs : Inv b s) {t : String} {z i : Nat}
    (h : s.getZ t z = .obj i) : s.keyOf i = some ⟨t, z, none, none⟩ := by
  unfold State.getZ at h
  cases he : s.elems.get? (t, z) with
  | none => simp [he] at h
  | some e => simp only [he] at h; cases h; exact keyOf_element (hs.elemSound _ _ _ he)

theorem iso_key {b : Base} {s : State} (hs : Inv b s) {o a i : Nat} {s' : State}
    (h : step b s (.iso o a) = (s', .obj i)) :
    s' = s ∧ ∃ t z, s.obj o = some (.element t z) ∧ s.keyOf i = some ⟨t, z, some a, none⟩ := by
  simp only [step] at h
  cases ho : s.obj o with
  | none => simp [ho] at h
  | some ob =>
    cases ob with
    | element t z =>
      simp only [ho, State.isoGet] at h
      cases hi : (s.isosOf o).get? a with
      | none => simp [hi] at h
      | some j =>
        simp only [hi] at h
        obtain ⟨rfl, hj⟩ := Prod.mk.inj h
        cases hj
        obtain ⟨t', z', he, hk⟩ := keyOf_isotope hs (hs.isoSound _ _ _ hi)
        rw [ho] at he; cases he
        exact ⟨rfl, t, z, rfl, hk⟩
    | isotope _ _ => simp [ho] at h
    | ion _ _ => simp [ho] at h

theorem addIsotope_key {b : Base} {s : State} (hs : Inv b s) {o a i : Nat} {s' : State}
    (h : step b s (.addIsotope o a) = (s', .obj i)) :
    ∃ e t z, s.elemOf o = some (e, t, z) ∧ s'.keyOf i = some ⟨t, z, some a, none⟩ := by
  simp only [step] at h
  cases hel : s.elemOf o with
  | none => simp [hel] at h
  | some x =>
    obtain ⟨e, t, z⟩ := x
    simp only [hel] at h
    have he := elemOf_elem hel
    obtain ⟨hinv, hext, hobj⟩ := inv_addIsotope (a := a) hs he
    obtain ⟨h1, h2⟩ := Prod.mk.inj h
    cases h2
    rw [h1] at hinv hext hobj
    obtain ⟨t', z', he', hk⟩ := keyOf_isotope hinv hobj
    rw [hext _ _ he] at he'; cases he'
    exact ⟨e, t, z, rfl, hk⟩

theorem ion_key {b : Base} {s : State} (hs : Inv b s) {o i : Nat} {q : Int} {s' : State}
    (h : step b s (.ion o q) = (s', .obj i)) :
    ∃ w k, s.ionOwner o = some w ∧ s.keyOf w = some k ∧ k.q = none ∧
      s'.keyOf i = some ⟨k.table, k.z, k.a, some q⟩ := by
  simp only [step] at h
  cases hw : s.ionOwner o with
  | none => simp [hw] at h
  | some w =>
    simp only [hw] at h
    have hown : IsAtomOwner s w := by
      unfold State.ionOwner at hw
      cases ho : s.obj o with
      | none => simp [ho] at hw
      | some ob =>
        rw [ho] at hw
        cases ob with
        | element t z => cases hw; exact .inl ⟨t, z, ho⟩
        | isotope e a => cases hw; exact .inr ⟨e, a, ho⟩
        | ion bs q' => cases hw; exact (hs.ionUniq _ _ _ ho).2.1
    obtain ⟨hinv, hext, hres⟩ := inv_ionGet hs q hown
    rw [h] at hinv hext hres
    have hoi := hres i rfl
    rcases hown with ⟨t, z, hw'⟩ | ⟨e, a, hw'⟩
    · refine ⟨w, ⟨t, z, none, none⟩, rfl, keyOf_element hw', rfl, ?_⟩
      rcases keyOf_ion hinv hoi with ⟨t', z', hw2, hk⟩ | ⟨_, _, _, _, hw2, _, _⟩
      · rw [hext _ _ hw'] at hw2; cases hw2; exact hk
      · rw [hext _ _ hw'] at hw2; cases hw2
    · obtain ⟨t, z, he, hkw⟩ := keyOf_isotope hs hw'
      refine ⟨w, ⟨t, z, some a, none⟩, rfl, hkw, rfl, ?_⟩
      rcases keyOf_ion hinv hoi with ⟨_, _, hw2, _⟩ | ⟨e', a', t', z', hw2, he2, hk⟩
      · rw [hext _ _ hw'] at hw2; cases hw2
      · rw [hext _ _ hw'] at hw2; cases hw2
        rw [hext _ _ he] at he2; cases he2
        exact hk

/-- an invalid charge raises (the charge is validated against the element's `ions` before an
    ion is created, and only valid ions are ever cached) -/
theorem ion_invalid {b : Base} {s : State} (hs : Inv b s) {o w e : Nat} {q : Int} {t : String}
    {z : Nat} {r : BaseRow} (hw : s.ionOwner o = some w) (hel : s.elemOf w = some (e, t, z))
    (hr : b.row? z = some r) (hq : q ∉ r.ions) :
    step b s (.ion o q) = (s, .err .value) := by
  simp only [step, hw, State.ionGet]
  cases hg : (s.ionsOf w).get? q with
  | some i =>
    obtain ⟨_, _, e1, t1, z1, r1, h3, h4, h5⟩ := hs.ionUniq _ _ _ (hs.ionSound _ _ _ hg)
    rw [hel] at h3; cases h3
    rw [hr] at h4; cases h4
    exact absurd h5 hq
  | none => simp [hel, hr, hq]

theorem getZ_invalid {b : Base} {s : State} (hs : Inv b s) {t : String} {z : Nat}
    (hz : b.row? z = none) : s.getZ t z = .err .key := by
  unfold State.getZ
  cases he : s.elems.get? (t, z) with
  | none => rfl
  | some e =>
    have := (hs.elemBase _ _ _ (hs.elemSound _ _ _ he)).2
    rw [hz] at this; cases this

/-- no base row uses the alias symbols -/
def DTFree (b : Base) : Prop := ∀ r ∈ b, r.symbol ≠ "D" ∧ r.symbol ≠ "T"

theorem row?_mem {b : Base} {z : Nat} {r : BaseRow} (h : b.row? z = some r) : r ∈ b :=
  List.mem_of_find?_eq_some h

theorem alias_of_attr {b : Base} {s : State} (hs : Inv b s) (hdt : DTFree b) {t k : String} {i : Nat}
    (hk : k = "D" ∨ k = "T") (h : s.attrs.get? (t, k) = some i) :
    ∃ hh a z nm, s.obj i = some (.isotope hh a) ∧ s.obj hh = some (.element t z) ∧
      s.alias.get? i = some (k, nm) := by
  rcases hs.attrSound t k i h with ⟨z, r, _, hr, hsym⟩ | hright
  · have := hdt r (row?_mem hr)
    rcases hk with rfl | rfl
    · exact absurd hsym this.1
    · exact absurd hsym this.2
  · exact hright

theorem name_key {b : Base} {s : State} (hs : Inv b s) (hdt : DTFree b) {t x : String} {i : Nat}
    {s' : State} (h : step b s (.name t x) = (s', .obj i)) :
    s' = s ∧ ∃ sym k, s.symName b i = some (sym, x) ∧ s.keyOf i = some k ∧ k.table = t ∧ k.q = none := by
  simp only [step] at h
  split at h
  · next zi hf =>
    obtain ⟨rfl, hi⟩ := Prod.mk.inj h
    cases hi
    have hmem := List.mem_of_find?_eq_some hf
    have hp := List.find?_some hf
    have hg := ((sortedElems_spec hs t).2 zi.1 zi.2).mp hmem
    have ho := hs.elemSound _ _ _ hg
    simp only [decide_eq_true_eq] at hp
    cases hr : b.row? zi.1 with
    | none => simp [hr] at hp
    | some r =>
      simp only [hr, Option.map_some, Option.some.injEq] at hp
      refine ⟨rfl, r.symbol, _, ?_, keyOf_element ho, rfl, rfl⟩
      simp [State.symName, State.elemOf, ho, hr, hp]
  · next hnf =>
    have via : ∀ k, (k = "D" ∨ k = "T") → ∀ j,
        (match s.attrs.get? (t, k) with
          | some i => match s.alias.get? i with
            | some (_, nm) => if nm = x then some i else none
            | none => none
          | none => none) = some j →
        ∃ sym kk, s.symName b j = some (sym, x) ∧ s.keyOf j = some kk ∧ kk.table = t ∧ kk.q = none := by
      intro k hk j hj
      cases ha : s.attrs.get? (t, k) with
      | none => simp [ha] at hj
      | some i0 =>
        simp only [ha] at hj
        obtain ⟨hh, a, z, nm, ho, hho, hal⟩ := alias_of_attr hs hdt hk ha
        simp only [hal] at hj
        split at hj
        · next hnm =>
          cases hj
          obtain ⟨t', z', he', hkey⟩ := keyOf_isotope hs ho
          rw [hho] at he'; cases he'
          exact ⟨k, _, by simp [State.symName, ho, hal, hnm], hkey, rfl, rfl⟩
        · cases hj
    split at h
    · next j hj =>
      obtain ⟨rfl, hi⟩ := Prod.mk.inj h
      cases hi
      exact ⟨rfl, via "D" (.inl rfl) _ hj⟩
    · split at h
      · next j hj =>
        obtain ⟨rfl, hi⟩ := Prod.mk.inj h
        cases hi
        exact ⟨rfl, via "T" (.inr rfl) _ hj⟩
      · cases h

end PtCore

namespace PtCore

/-- `table.isotope('A-Sym')`: what a successful lookup returns -/
theorem isotope_key {b : Base} {s : State} (hs : Inv b s) {t x : String} {i : Nat} {s' : State}
    (h : step b s (.isotope t x) = (s', .obj i)) :
    s' = s ∧ ∃ k, s.keyOf i = some k ∧ k.table = t ∧ k.q = none ∧
      ((parseIsotope x).2 = 0 → ∃ nm, s.symName b i = some ((parseIsotope x).1, nm)) ∧
      ((parseIsotope x).2 ≠ 0 → 0 < (parseIsotope x).2 ∧ k.a = some (parseIsotope x).2.toNat ∧
        ∃ e nm, s.obj i = some (.isotope e (parseIsotope x).2.toNat) ∧
          s.symName b e = some ((parseIsotope x).1, nm)) := by
  simp only [step] at h
  generalize parseIsotope x = p at h ⊢
  obtain ⟨sym, n⟩ := p
  simp only at h ⊢
  cases ha : s.attrs.get? (t, sym) with
  | none => simp [ha] at h
  | some i0 =>
    simp only [ha] at h
    obtain ⟨nm0, k0, hsn, hk0, hkt, hkq⟩ := symName_of_attr hs ha
    cases ho : s.obj i0 with
    | none => simp [ho] at h
    | some ob =>
      cases ob with
      | element t0 z0 =>
        simp only [ho] at h
        by_cases hn0 : n = 0
        · simp only [hn0, ↓reduceIte] at h
          obtain ⟨rfl, hi⟩ := Prod.mk.inj h
          cases hi
          exact ⟨rfl, k0, hk0, hkt, hkq, fun _ => ⟨nm0, hsn⟩, fun hne => absurd hn0 hne⟩
        · simp only [hn0, ↓reduceIte] at h
          by_cases hneg : n < 0
          · simp [hneg] at h
          · simp only [hneg, ↓reduceIte] at h
            cases hi : (s.isosOf i0).get? n.toNat with
            | none => simp [hi] at h
            | some j =>
              simp only [hi] at h
              obtain ⟨rfl, hj⟩ := Prod.mk.inj h
              cases hj
              have hoj := hs.isoSound _ _ _ hi
              obtain ⟨t', z', he', hk⟩ := keyOf_isotope hs hoj
              rw [ho] at he'; cases he'
              rw [keyOf_element ho] at hk0; cases hk0
              refine ⟨rfl, _, hk, hkt, rfl, fun h0 => absurd h0 hn0, fun _ => ⟨by omega, rfl, i0, nm0, hoj, hsn⟩⟩
      | isotope e0 a0 =>
        simp only [ho] at h
        by_cases hn0 : n = 0
        · simp only [hn0, ↓reduceIte] at h
          obtain ⟨rfl, hi⟩ := Prod.mk.inj h
          cases hi
          exact ⟨rfl, k0, hk0, hkt, hkq, fun _ => ⟨nm0, hsn⟩, fun hne => absurd hn0 hne⟩
        · simp [hn0] at h
      | ion _ _ => simp [ho] at h

end PtCore

namespace PtCore

/-! ## the symbol / name / string routes lead to the element with that atomic number -/

theorem row_of_symbol {b : Base} (hsym : (b.map (·.symbol)).Nodup) {r r' : BaseRow} (hr : r ∈ b) (hr' : r' ∈ b)
    (h : r'.symbol = r.symbol) : r' = r := by
  induction b with
  | nil => cases hr
  | cons x xs ih =>
    have hnd : x.symbol ∉ xs.map (·.symbol) ∧ (xs.map (·.symbol)).Nodup := List.nodup_cons.mp hsym
    rcases List.mem_cons.mp hr with rfl | hr1 <;> rcases List.mem_cons.mp hr' with rfl | hr1'
    · rfl
    · exact absurd (List.mem_map.mpr ⟨r', hr1', h⟩) hnd.1
    · exact absurd (List.mem_map.mpr ⟨r, hr1, h.symm⟩) hnd.1
    · exact ih hnd.2 hr1 hr1'

theorem row_of_name {b : Base} (hnm : (b.map (·.name)).Nodup) {r r' : BaseRow} (hr : r ∈ b) (hr' : r' ∈ b)
    (h : r'.name = r.name) : r' = r := by
  induction b with
  | nil => cases hr
  | cons x xs ih =>
    have hnd : x.name ∉ xs.map (·.name) ∧ (xs.map (·.name)).Nodup := List.nodup_cons.mp hnm
    rcases List.mem_cons.mp hr with rfl | hr1 <;> rcases List.mem_cons.mp hr' with rfl | hr1'
    · rfl
    · exact absurd (List.mem_map.mpr ⟨r', hr1', h⟩) hnd.1
    · exact absurd (List.mem_map.mpr ⟨r, hr1, h.symm⟩) hnd.1
    · exact ih hnd.2 hr1 hr1'

/-- the attribute named by an element's symbol holds the element object with that number -/
theorem elem_of_attr {b : Base} {s : State} (hs : Inv b s) (hsym : (b.map (·.symbol)).Nodup)
    (hdt : DTFree b) {t : String} {r : BaseRow} (hr : r ∈ b) {i : Nat}
    (h : s.attrs.get? (t, r.symbol) = some i) : s.obj i = some (.element t r.z) := by
  rcases hs.attrSound t r.symbol i h with ⟨z, r', ho, hrow, hsy⟩ | ⟨hh, a, z, nm, _, _, hal⟩
  · have := row_of_symbol hsym hr (row?_mem hrow) hsy
    subst this
    have hz : r'.z = z := by
      have := List.find?_some hrow
      simpa using this
    rw [hz]; exact ho
  · rcases hs.aliasVals i _ hal with hp | hp
    · exact absurd (congrArg Prod.fst hp) (hdt r hr).1
    · exact absurd (congrArg Prod.fst hp) (hdt r hr).2

/-- `table.name(r.name)` returns the element object with r's number -/
theorem elem_of_name {b : Base} {s : State} (hs : Inv b s) (hdt : DTFree b)
    (hnm : ((b.map (·.name)) ++ ["deuterium", "tritium"]).Nodup) {t : String} {r : BaseRow} (hr : r ∈ b)
    {i : Nat} {s' : State} (h : step b s (.name t r.name) = (s', .obj i)) :
    s.obj i = some (.element t r.z) := by
  have hnm1 : (b.map (·.name)).Nodup := (List.nodup_append.mp hnm).1
  have hnotDT : r.name ≠ "deuterium" ∧ r.name ≠ "tritium" := by
    have hdisj := (List.nodup_append.mp hnm).2.2
    have hmem : r.name ∈ b.map (·.name) := List.mem_map.mpr ⟨r, hr, rfl⟩
    exact ⟨fun hh => hdisj _ hmem _ (by simp) hh, fun hh => hdisj _ hmem _ (by simp) hh⟩
  simp only [step] at h
  split at h
  · next zi hf =>
    obtain ⟨_, hi⟩ := Prod.mk.inj h
    cases hi
    have hmem := List.mem_of_find?_eq_some hf
    have hp := List.find?_some hf
    have hg := ((sortedElems_spec hs t).2 zi.1 zi.2).mp hmem
    have ho := hs.elemSound _ _ _ hg
    simp only [decide_eq_true_eq] at hp
    cases hrow : b.row? zi.1 with
    | none => simp [hrow] at hp
    | some r' =>
      simp only [hrow, Option.map_some, Option.some.injEq] at hp
      have := row_of_name hnm1 hr (row?_mem hrow) hp
      subst this
      have hz : r'.z = zi.1 := by
        have := List.find?_some hrow
        simpa using this
      rw [hz]; exact ho
  · exfalso
    have via : ∀ k, (k = "D" ∨ k = "T") → ∀ j,
        (match s.attrs.get? (t, k) with
          | some i => match s.alias.get? i with
            | some (_, nm) => if nm = r.name then some i else none
            | none => none
          | none => none) = some j → False := by
      intro k _ j hj
      cases ha : s.attrs.get? (t, k) with
      | none => simp [ha] at hj
      | some i0 =>
        simp only [ha] at hj
        cases hal : s.alias.get? i0 with
        | none => simp [hal] at hj
        | some pr =>
          obtain ⟨sy, nm⟩ := pr
          simp only [hal] at hj
          split at hj
          · next hnmx =>
            rcases hs.aliasVals i0 _ hal with hp | hp
            · exact hnotDT.1 (by rw [← hnmx]; exact congrArg Prod.snd hp)
            · exact hnotDT.2 (by rw [← hnmx]; exact congrArg Prod.snd hp)
          · cases hj
    split at h
    · next j hj => exact via "D" (.inl rfl) _ hj
    · split at h
      · next j hj => exact via "T" (.inr rfl) _ hj
      · cases h

end PtCore

namespace PtCore

/-! ## the namespace filled by `define_elements` (module attributes `periodictable.Fe`, `.iron`, `.D`) -/

/-- a namespace entry x ↦ i is an element whose symbol or name is x, or one of the aliased isotopes -/
def NsGood (b : Base) (s : State) (x : String) (i : Nat) : Prop :=
  (∃ t z r, s.obj i = some (.element t z) ∧ b.row? z = some r ∧ (x = r.symbol ∨ x = r.name)) ∨
  (∃ e a, s.obj i = some (.isotope e a) ∧ x ∈ ["D", "deuterium", "T", "tritium"])

def NsOK (b : Base) (s : State) : Prop := ∀ x i, s.ns.get? x = some i → NsGood b s x i

theorem NsGood.mono {b : Base} {s s' : State} (h : Ext s s') {x : String} {i : Nat}
    (hg : NsGood b s x i) : NsGood b s' x i := by
  rcases hg with ⟨t, z, r, ho, hr, hx⟩ | ⟨e, a, ho, hx⟩
  · exact .inl ⟨t, z, r, h _ _ ho, hr, hx⟩
  · exact .inr ⟨e, a, h _ _ ho, hx⟩

theorem ns_step_ne (b : Base) (s : State) (op : Op) (hop : ∀ t, op ≠ .defineElements t) :
    (step b s op).1.ns = s.ns := by
  cases op with
  | defineElements t => exact absurd rfl (hop t)
  | newTable t =>
    simp only [step, State.newTable]
    split
    · rfl
    · have hfold : ∀ (rows : List BaseRow) (st : State),
          (rows.foldl (fun st r => st.mkElement t r) st).ns = st.ns := by
        intro rows
        induction rows with
        | nil => intro st; rfl
        | cons r rows ih => intro st; simp only [List.foldl_cons]; rw [ih]; rfl
      have hal : ∀ (st st' : State) (sy nm : String) (a : Nat), st.mkAlias t sy nm a = some st' → st'.ns = st.ns := by
        intro st st' sy nm a hm
        unfold State.mkAlias at hm
        split at hm
        · split at hm
          · simp only [Option.some.injEq] at hm
            rw [← hm]
            simp only [State.addIsotope]
            split <;> rfl
          · cases hm
        · cases hm
      split
      · exact hfold _ _
      · next s3 h3 =>
        split
        · rw [hal _ _ _ _ _ h3]; exact hfold _ _
        · next s4 h4 => rw [hal _ _ _ _ _ h4, hal _ _ _ _ _ h3]; exact hfold _ _
  | getZ _ _ => rfl
  | symbol _ _ => simp only [step]; split <;> rfl
  | name _ _ =>
    simp only [step]
    split
    · rfl
    · split
      · rfl
      · split <;> rfl
  | isotope _ _ =>
    simp only [step]
    split
    · split
      · split
        · rfl
        · split
          · rfl
          · split <;> rfl
      · split <;> rfl
      · rfl
    · rfl
  | attr _ _ => simp only [step]; split <;> rfl
  | modAttr _ => simp only [step]; split <;> rfl
  | iso _ _ => simp only [step]; split <;> rfl
  | addIsotope o a =>
    simp only [step]
    split
    · simp only [State.addIsotope]; split <;> rfl
    · rfl
  | ion o q =>
    simp only [step]
    split
    · simp only [State.ionGet]
      split
      · rfl
      · split
        · split
          · split <;> rfl
          · rfl
        · rfl
    · rfl
  | element _ => simp only [step]; split <;> rfl
  | isotopes _ => simp only [step]; split <;> rfl
  | iterTable _ => simp only [step]; split <;> rfl
  | iterIso _ => simp only [step]; split <;> rfl
  | reduce o =>
    simp only [step]
    split
    · split
      · simp only [State.path]
        split
        · rfl
        · split
          · simp only [State.ionGet]
            split
            · rfl
            · split
              · split
                · split <;> rfl
                · rfl
              · rfl
          · rfl
      · rfl
    · rfl
  | changeTable o t =>
    simp only [step]
    split
    · split
      · simp only [State.path]
        split
        · rfl
        · split
          · simp only [State.ionGet]
            split
            · rfl
            · split
              · split
                · split <;> rfl
                · rfl
              · rfl
          · rfl
      · rfl
    · rfl

end PtCore

namespace PtCore

theorem nsGood_set {b : Base} {s : State} {d : Dict String Nat}
    (hd : ∀ x i, d.get? x = some i → NsGood b s x i) {k : String} {j : Nat} (hk : NsGood b s k j) :
    ∀ x i, (d.set k j).get? x = some i → NsGood b s x i := by
  intro x i hx
  rw [Dict.get?_set] at hx
  split at hx
  · next hkx => cases hx; subst hkx; exact hk
  · exact hd x i hx

theorem nsOK_define {b : Base} {s : State} (hs : Inv b s) (hns : NsOK b s) (hdt : DTFree b) (t : String) :
    NsOK b (step b s (.defineElements t)).1 := by
  simp only [step]
  split
  · -- the namespace is rebuilt; objects are untouched
    intro x i hx
    simp only at hx
    have hobj : ∀ (d : Dict String Nat) (j : Nat), ({ s with ns := d } : State).obj j = s.obj j := fun _ _ => rfl
    suffices hgood : NsGood b s x i by
      rcases hgood with ⟨t', z, r, ho, hr, hxx⟩ | ⟨e, a, ho, hxx⟩
      · exact .inl ⟨t', z, r, ho, hr, hxx⟩
      · exact .inr ⟨e, a, ho, hxx⟩
    revert x i
    -- second loop (D, T) over the result of the first loop (elements)
    have h1 : ∀ (l : List (Nat × Nat)), (∀ zi ∈ l, s.obj zi.2 = some (.element t zi.1)) →
        ∀ (d : Dict String Nat), (∀ x i, d.get? x = some i → NsGood b s x i) →
        ∀ x i, (l.foldl (fun d (zi : Nat × Nat) =>
          match b.row? zi.1 with
          | some r => (d.set r.symbol zi.2).set r.name zi.2
          | none => d) d).get? x = some i → NsGood b s x i := by
      intro l
      induction l with
      | nil => intro _ d hd; exact hd
      | cons zi l ih =>
        intro hl d hd
        simp only [List.foldl_cons]
        apply ih (fun y hy => hl y (List.mem_cons_of_mem _ hy))
        have ho := hl zi (List.mem_cons_self ..)
        cases hr : b.row? zi.1 with
        | none => exact hd
        | some r =>
          simp only
          apply nsGood_set
          · apply nsGood_set hd
            exact .inl ⟨t, zi.1, r, ho, hr, .inl rfl⟩
          · exact .inl ⟨t, zi.1, r, ho, hr, .inr rfl⟩
    have h2 : ∀ (l : List String), (∀ k ∈ l, k = "D" ∨ k = "T") →
        ∀ (d : Dict String Nat), (∀ x i, d.get? x = some i → NsGood b s x i) →
        ∀ x i, (l.foldl (fun d k =>
          match s.attrs.get? (t, k) with
          | some i =>
            match s.alias.get? i with
            | some (sym, nm) => (d.set sym i).set nm i
            | none => d
          | none => d) d).get? x = some i → NsGood b s x i := by
      intro l
      induction l with
      | nil => intro _ d hd; exact hd
      | cons k l ih =>
        intro hl d hd
        simp only [List.foldl_cons]
        apply ih (fun y hy => hl y (List.mem_cons_of_mem _ hy))
        have hk := hl k (List.mem_cons_self ..)
        cases ha : s.attrs.get? (t, k) with
        | none => exact hd
        | some i0 =>
          simp only
          obtain ⟨hh, a, z, nm0, ho, _, hal⟩ := alias_of_attr hs hdt hk ha
          simp only [hal]
          have hv := hs.aliasVals i0 _ hal
          have hmem1 : k ∈ ["D", "deuterium", "T", "tritium"] := by
            rcases hk with rfl | rfl <;> simp
          have hmem2 : nm0 ∈ ["D", "deuterium", "T", "tritium"] := by
            rcases hv with hp | hp
            · have := congrArg Prod.snd hp; simp only at this; rw [this]; simp
            · have := congrArg Prod.snd hp; simp only at this; rw [this]; simp
          apply nsGood_set
          · apply nsGood_set hd
            exact .inr ⟨hh, a, ho, hmem1⟩
          · exact .inr ⟨hh, a, ho, hmem2⟩
    apply h2 ["D", "T"] (by intro k hk; simpa using hk)
    apply h1 (s.sortedElems t)
    · intro zi hzi
      exact hs.elemSound _ _ _ (((sortedElems_spec hs t).2 zi.1 zi.2).mp hzi)
    · intro x i hx; simp [Dict.get?] at hx
  · exact hns

theorem nsOK_step {b : Base} (hb : (b.map (·.z)).Nodup) (hdt : DTFree b) {s : State} (hs : Inv b s)
    (hns : NsOK b s) (op : Op) : NsOK b (step b s op).1 := by
  by_cases hop : ∃ t, op = .defineElements t
  · obtain ⟨t, rfl⟩ := hop
    exact nsOK_define hs hns hdt t
  · have hne : ∀ t, op ≠ .defineElements t := fun t h => hop ⟨t, h⟩
    intro x i hx
    rw [ns_step_ne b s op hne] at hx
    exact (hns x i hx).mono (inv_step hb hs op).2

theorem nsOK_run {b : Base} (hb : (b.map (·.z)).Nodup) (hdt : DTFree b) :
    ∀ (ops : List Op) {s : State}, Inv b s → NsOK b s → NsOK b (run b s ops)
  | [], _, _, h => h
  | op :: ops, _, hi, h => nsOK_run hb hdt ops (inv_step hb hi op).1 (nsOK_step hb hdt hi h op)

theorem nsOK_init (b : Base) : NsOK b init := by
  intro x i hx; simp [init, Dict.get?] at hx

end PtCore

namespace PtCore

/-! ## restoring always succeeds; valid keys succeed -/

/-- pickling / copying any existing atom and restoring it gives back that very atom, and changes
    nothing (every object is in the cache slot of its key) -/
theorem reduce_total {b : Base} {s : State} (hs : Inv b s) {o : Nat} {ob : Obj} (ho : s.obj o = some ob) :
    step b s (.reduce o) = (s, .obj o) := by
  cases ob with
  | element t z =>
    have hk := keyOf_element ho
    have ht := (hs.elemBase _ _ _ ho).1
    have he := hs.elemUniq _ _ _ ho
    simp [step, hk, ht, State.path, he]
  | isotope e a =>
    obtain ⟨t, z, hoe, hk⟩ := keyOf_isotope hs ho
    have ht := (hs.elemBase _ _ _ hoe).1
    have he := hs.elemUniq _ _ _ hoe
    have hi := (hs.isoUniq _ _ _ ho).1
    simp [step, hk, ht, State.path, he, State.isoGet, hi]
  | ion w q =>
    have hc := (hs.ionUniq _ _ _ ho).1
    rcases keyOf_ion hs ho with ⟨t, z, hw, hk⟩ | ⟨e, a, t, z, hw, hoe, hk⟩
    · have ht := (hs.elemBase _ _ _ hw).1
      have he := hs.elemUniq _ _ _ hw
      simp [step, hk, ht, State.path, he, State.ionGet, hc]
    · have ht := (hs.elemBase _ _ _ hoe).1
      have he := hs.elemUniq _ _ _ hoe
      have hi := (hs.isoUniq _ _ _ hw).1
      simp [step, hk, ht, State.path, he, State.isoGet, hi, State.ionGet, hc]

/-- a valid charge always yields the ion (cached or new) -/
theorem ion_total {b : Base} {s : State} (hs : Inv b s) {o w e : Nat} {t : String} {z : Nat} {r : BaseRow}
    {q : Int} (hw : s.ionOwner o = some w) (hel : s.elemOf w = some (e, t, z)) (hr : b.row? z = some r)
    (hq : q ∈ r.ions) : ∃ i, (step b s (.ion o q)).2 = .obj i := by
  simp only [step, hw, State.ionGet]
  cases hg : (s.ionsOf w).get? q with
  | some i => exact ⟨i, rfl⟩
  | none => simp [hel, hr, hq, State.alloc]

/-- every table in `PRIVATE_TABLES` has, for every row of `element_base`, one element object that
    both `table[Z]` and the attribute named by the symbol hold -/
def TablesOK (b : Base) (s : State) : Prop :=
  ∀ t ∈ s.tables, ∀ r ∈ b, ∃ i, s.elems.get? (t, r.z) = some i ∧ s.attrs.get? (t, r.symbol) = some i

theorem fold_complete {t : String} :
    ∀ (rows : List BaseRow) (s : State), (rows.map (·.z)).Nodup → (rows.map (·.symbol)).Nodup →
      let s' := rows.foldl (fun st r => st.mkElement t r) s
      (∀ r ∈ rows, ∃ i, s'.elems.get? (t, r.z) = some i ∧ s'.attrs.get? (t, r.symbol) = some i) ∧
      (∀ k, (∀ r ∈ rows, k ≠ (t, r.z)) → s'.elems.get? k = s.elems.get? k) ∧
      (∀ k, (∀ r ∈ rows, k ≠ (t, r.symbol)) → s'.attrs.get? k = s.attrs.get? k) := by
  intro rows
  induction rows with
  | nil => intro s _ _; exact ⟨fun _ h => (by cases h), fun _ _ => rfl, fun _ _ => rfl⟩
  | cons r rows ih =>
    intro s hz hsym
    have hz' : r.z ∉ rows.map (·.z) ∧ (rows.map (·.z)).Nodup := List.nodup_cons.mp hz
    have hs' : r.symbol ∉ rows.map (·.symbol) ∧ (rows.map (·.symbol)).Nodup := List.nodup_cons.mp hsym
    simp only [List.foldl_cons]
    obtain ⟨i1, i2, i3⟩ := ih (s.mkElement t r) hz'.2 hs'.2
    refine ⟨?_, ?_, ?_⟩
    · intro r' hr'
      rcases List.mem_cons.mp hr' with rfl | hmem
      · refine ⟨s.objs.size, ?_, ?_⟩
        · rw [i2 _ (fun r'' h'' hk => hz'.1 (List.mem_map.mpr ⟨r'', h'', (congrArg Prod.snd hk).symm⟩)),
            elems_mkElement, if_pos rfl]
        · rw [i3 _ (fun r'' h'' hk => hs'.1 (List.mem_map.mpr ⟨r'', h'', (congrArg Prod.snd hk).symm⟩)),
            attrs_mkElement, if_pos rfl]
      · exact i1 r' hmem
    · intro k hk
      rw [i2 k (fun r' h' => hk r' (List.mem_cons_of_mem _ h')), elems_mkElement,
        if_neg (fun h => hk r (List.mem_cons_self ..) h.symm)]
    · intro k hk
      rw [i3 k (fun r' h' => hk r' (List.mem_cons_of_mem _ h')), attrs_mkElement,
        if_neg (fun h => hk r (List.mem_cons_self ..) h.symm)]

theorem frame_step_ne (b : Base) (s : State) (op : Op) (hop : ∀ t, op ≠ .newTable t) :
    (step b s op).1.tables = s.tables ∧ (step b s op).1.elems = s.elems ∧ (step b s op).1.attrs = s.attrs := by
  cases op with
  | defineElements t => simp only [step]; split <;> exact ⟨rfl, rfl, rfl⟩
  | newTable t => exact absurd rfl (hop t)
  | getZ _ _ => exact ⟨rfl, rfl, rfl⟩
  | symbol _ _ => simp only [step]; split <;> exact ⟨rfl, rfl, rfl⟩
  | name _ _ =>
    simp only [step]
    split
    · exact ⟨rfl, rfl, rfl⟩
    · split
      · exact ⟨rfl, rfl, rfl⟩
      · split <;> exact ⟨rfl, rfl, rfl⟩
  | isotope _ _ =>
    simp only [step]
    split
    · split
      · split
        · exact ⟨rfl, rfl, rfl⟩
        · split
          · exact ⟨rfl, rfl, rfl⟩
          · split <;> exact ⟨rfl, rfl, rfl⟩
      · split <;> exact ⟨rfl, rfl, rfl⟩
      · exact ⟨rfl, rfl, rfl⟩
    · exact ⟨rfl, rfl, rfl⟩
  | attr _ _ => simp only [step]; split <;> exact ⟨rfl, rfl, rfl⟩
  | modAttr _ => simp only [step]; split <;> exact ⟨rfl, rfl, rfl⟩
  | iso _ _ => simp only [step]; split <;> exact ⟨rfl, rfl, rfl⟩
  | addIsotope o a =>
    simp only [step]
    split
    · simp only [State.addIsotope]; split <;> exact ⟨rfl, rfl, rfl⟩
    · exact ⟨rfl, rfl, rfl⟩
  | ion o q =>
    simp only [step]
    split
    · simp only [State.ionGet]
      split
      · exact ⟨rfl, rfl, rfl⟩
      · split
        · split
          · split <;> exact ⟨rfl, rfl, rfl⟩
          · exact ⟨rfl, rfl, rfl⟩
        · exact ⟨rfl, rfl, rfl⟩
    · exact ⟨rfl, rfl, rfl⟩
  | element _ => simp only [step]; split <;> exact ⟨rfl, rfl, rfl⟩
  | isotopes _ => simp only [step]; split <;> exact ⟨rfl, rfl, rfl⟩
  | iterTable _ => simp only [step]; split <;> exact ⟨rfl, rfl, rfl⟩
  | iterIso _ => simp only [step]; split <;> exact ⟨rfl, rfl, rfl⟩
  | reduce o =>
    simp only [step]
    split
    · split
      · simp only [State.path]
        split
        · exact ⟨rfl, rfl, rfl⟩
        · split
          · simp only [State.ionGet]
            split
            · exact ⟨rfl, rfl, rfl⟩
            · split
              · split
                · split <;> exact ⟨rfl, rfl, rfl⟩
                · exact ⟨rfl, rfl, rfl⟩
              · exact ⟨rfl, rfl, rfl⟩
          · exact ⟨rfl, rfl, rfl⟩
      · exact ⟨rfl, rfl, rfl⟩
    · exact ⟨rfl, rfl, rfl⟩
  | changeTable o t =>
    simp only [step]
    split
    · split
      · simp only [State.path]
        split
        · exact ⟨rfl, rfl, rfl⟩
        · split
          · simp only [State.ionGet]
            split
            · exact ⟨rfl, rfl, rfl⟩
            · split
              · split
                · split <;> exact ⟨rfl, rfl, rfl⟩
                · exact ⟨rfl, rfl, rfl⟩
              · exact ⟨rfl, rfl, rfl⟩
          · exact ⟨rfl, rfl, rfl⟩
      · exact ⟨rfl, rfl, rfl⟩
    · exact ⟨rfl, rfl, rfl⟩


end PtCore

namespace PtCore

theorem mkAlias_frame {st st' : State} {t sy nm : String} {a : Nat} (h : st.mkAlias t sy nm a = some st') :
    st'.elems = st.elems ∧ st'.tables = st.tables ∧ ∀ k, k ≠ (t, sy) → st'.attrs.get? k = st.attrs.get? k := by
  have haddE : ∀ e a, (st.addIsotope e a).1.elems = st.elems ∧ (st.addIsotope e a).1.tables = st.tables ∧
      (st.addIsotope e a).1.attrs = st.attrs := by
    intro e a
    simp only [State.addIsotope]
    split <;> exact ⟨rfl, rfl, rfl⟩
  unfold State.mkAlias at h
  cases hH : st.attrs.get? (t, "H") with
  | none => simp [hH] at h
  | some hh =>
    simp only [hH] at h
    cases ho : st.obj hh with
    | none => simp [ho] at h
    | some ob =>
      cases ob with
      | element t0 z0 =>
        simp only [ho, Option.some.injEq] at h
        rw [← h]
        obtain ⟨e1, e2, e3⟩ := haddE hh a
        refine ⟨e1, e2, fun k hk => ?_⟩
        simp only
        rw [Dict.get?_set, if_neg (fun hh => hk hh.symm), e3]
      | isotope _ _ => simp [ho] at h
      | ion _ _ => simp [ho] at h

theorem tablesOK_newTable {b : Base} (hz : (b.map (·.z)).Nodup) (hsym : (b.map (·.symbol)).Nodup)
    (hdt : DTFree b) {s : State} (hok : TablesOK b s) (t : String) : TablesOK b (s.newTable b t).1 := by
  unfold State.newTable
  by_cases ht : t ∈ s.tables
  · simp only [ht, ↓reduceIte]; exact hok
  · simp only [ht, ↓reduceIte]
    let s1 : State := { s with tables := t :: s.tables }
    obtain ⟨c1, c2, c3⟩ := fold_complete (t := t) b s1 hz hsym
    generalize hs2 : List.foldl (fun st r => st.mkElement t r) s1 b = s2 at c1 c2 c3
    have htab2 : s2.tables = t :: s.tables := by
      rw [← hs2]
      have : ∀ (rows : List BaseRow) (st : State),
          (rows.foldl (fun st r => st.mkElement t r) st).tables = st.tables := by
        intro rows
        induction rows with
        | nil => intro st; rfl
        | cons r rows ih => intro st; simp only [List.foldl_cons]; rw [ih]; rfl
      exact this b s1
    -- the property for a state that agrees with s2 on elems and on all attributes but (t, D/T)
    have key : ∀ (st : State), st.tables = t :: s.tables → st.elems = s2.elems →
        (∀ k, k ≠ (t, "D") → k ≠ (t, "T") → st.attrs.get? k = s2.attrs.get? k) → TablesOK b st := by
      intro st htab hel hat t0 ht0 r hr
      rw [htab] at ht0
      have hne : (t0, r.symbol) ≠ (t, "D") ∧ (t0, r.symbol) ≠ (t, "T") :=
        ⟨fun h => (hdt r hr).1 (congrArg Prod.snd h), fun h => (hdt r hr).2 (congrArg Prod.snd h)⟩
      rw [hel, hat _ hne.1 hne.2]
      rcases List.mem_cons.mp ht0 with rfl | hold
      · exact c1 r hr
      · have hne0 : t0 ≠ t := fun h => ht (h ▸ hold)
        obtain ⟨i, h1, h2⟩ := hok t0 hold r hr
        refine ⟨i, ?_, ?_⟩
        · rw [c2 _ (fun r' _ hk => hne0 (congrArg Prod.fst hk))]; exact h1
        · rw [c3 _ (fun r' _ hk => hne0 (congrArg Prod.fst hk))]; exact h2
    cases h3 : s2.mkAlias t "D" "deuterium" 2 with
    | none => exact key s2 htab2 rfl (fun _ _ _ => rfl)
    | some s3 =>
      obtain ⟨e1, e2, e3⟩ := mkAlias_frame h3
      simp only
      cases h4 : s3.mkAlias t "T" "tritium" 3 with
      | none =>
        exact key s3 (by rw [e2, htab2]) e1 (fun k hk _ => e3 k hk)
      | some s4 =>
        obtain ⟨f1, f2, f3⟩ := mkAlias_frame h4
        exact key s4 (by rw [f2, e2, htab2]) (by rw [f1, e1])
          (fun k hk1 hk2 => by rw [f3 k hk2, e3 k hk1])

theorem tablesOK_step {b : Base} (hz : (b.map (·.z)).Nodup) (hsym : (b.map (·.symbol)).Nodup)
    (hdt : DTFree b) {s : State} (hok : TablesOK b s) (op : Op) : TablesOK b (step b s op).1 := by
  by_cases hop : ∃ t, op = .newTable t
  · obtain ⟨t, rfl⟩ := hop
    exact tablesOK_newTable hz hsym hdt hok t
  · obtain ⟨h1, h2, h3⟩ := frame_step_ne b s op (fun t h => hop ⟨t, h⟩)
    intro t ht r hr
    rw [h1] at ht
    rw [h2, h3]
    exact hok t ht r hr

theorem tablesOK_run {b : Base} (hz : (b.map (·.z)).Nodup) (hsym : (b.map (·.symbol)).Nodup)
    (hdt : DTFree b) : ∀ (ops : List Op) {s : State}, TablesOK b s → TablesOK b (run b s ops)
  | [], _, h => h
  | op :: ops, _, h => tablesOK_run hz hsym hdt ops (tablesOK_step hz hsym hdt h op)

theorem tablesOK_init (b : Base) : TablesOK b init := by
  intro t ht; simp [init] at ht

end PtCore
