import PtVerif.Model.Core
/-! Lemmas and the invariant of the table-core state machine (C08). -/
namespace PtCore

namespace Dict
variable {κ ν : Type} [DecidableEq κ]

theorem get?_filter_ne (d : Dict κ ν) (k k' : κ) (h : k ≠ k') :
    get? (d.filter (fun e => e.1 ≠ k)) k' = get? d k' := by
  induction d with
  | nil => rfl
  | cons e d ih =>
    obtain ⟨a, v⟩ := e
    by_cases ha : a = k
    · subst ha
      simp only [List.filter, ne_eq, not_true_eq_false, decide_false, get?, h, ↓reduceIte, ih]
    · simp only [List.filter, ne_eq, ha, not_false_eq_true, decide_true, get?, ih]

theorem get?_set (d : Dict κ ν) (k k' : κ) (v : ν) :
    get? (d.set k v) k' = if k = k' then some v else get? d k' := by
  unfold set
  by_cases h : k = k'
  · simp [get?, h]
  · simp only [get?, h, ↓reduceIte]; exact get?_filter_ne d k k' h

end Dict
end PtCore
