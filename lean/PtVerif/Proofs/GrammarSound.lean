import PtVerif.Proofs.GrammarTok
/-!
# Every accepted string is a string of the documented grammar, with that meaning (C01)

`parse T s = ok (fs, d)` ⟹ there is a derivation `D` (Model/GrammarSpec.lean; well-formed tokens,
blanks only where the grammar tolerates them) with `D.text = s` and `D.result T = some (fs, d)`.
Hence nothing outside the (whitespace-tolerant) documented language is ever accepted, and what
is accepted means what the derivation denotes.  Inversion lemma per combinator, then induction
on the fuel.
-/
namespace PtModel.Grammar
open PtModel

/-! ## loose well-formedness of derivations (tokens only, no side conditions) -/

mutual
def Group.wf : Group → Bool
  | .implicit lead els => lead.ok && elemsOk els && !els.isEmpty
  | .explicit b0 b1 inner b2 b3 cnt =>
    allWs b0 && allWs b1 && allWs b2 && allWs b3 && cnt.ok && inner.wf
def Comp.wf : Comp → Bool
  | .one g => g.wf
  | .more g sep rest => g.wf && allWs sep.b1 && allWs sep.b2 && rest.wf
end

def Compound.wf : Compound → Bool
  | .empty b => allWs b
  | .full lead comp dens trail =>
    lead.isEmpty && allWs trail && comp.wf &&
    (match dens with
     | some d => d.ok
     | none => true)

/-! ## blanks -/

theorem skipWs_split (s : List Char) : ∃ b, AllWs b ∧ s = b ++ skipWs s := by
  induction s with
  | nil => exact ⟨[], AllWs.nil, rfl⟩
  | cons c cs ih =>
    unfold skipWs
    by_cases h : isWs c = true
    · obtain ⟨b, hb, hs⟩ := ih
      refine ⟨c :: b, ?_, ?_⟩
      · intro d hd; simp at hd; rcases hd with rfl | hd
        · exact h
        · exact hb d hd
      · simp only [h, if_true, List.cons_append]; rw [← hs]
    · exact ⟨[], AllWs.nil, by simp [h]⟩

theorem allWs_of {b : List Char} (h : AllWs b) : allWs b = true := allWs_iff.2 h

/-! ## numbers -/

theorem all_of_allDig {ds : List Char} (h : AllDig ds) : ds.all isDig = true :=
  List.all_eq_true.2 h

theorem reWhole_inv {s d r : List Char} (h : reWhole s = some (d, r)) : s = d ++ r ∧ okWhole d = true := by
  cases s with
  | nil => simp [reWhole] at h
  | cons c cs =>
    simp only [reWhole] at h
    split at h
    · rename_i hc
      simp only [Bool.and_eq_true, bne_iff_ne, ne_eq] at hc
      simp at h
      obtain ⟨rfl, rfl⟩ := h
      refine ⟨by simp [digits_split cs], ?_⟩
      simp only [okWhole, Bool.and_eq_true, bne_iff_ne, ne_eq]
      exact ⟨⟨hc.1, hc.2⟩, all_of_allDig (digits_allDig cs)⟩
    · simp at h

theorem reFract_inv {s i f r : List Char} (h : reFract s = some (i, f, r)) :
    s = i ++ '.' :: f ++ r ∧ (i = [] ∨ i = ['0'] ∨ okWhole i = true) ∧ AllDig f := by
  unfold reFract at h
  split at h
  · rename_i r0
    simp at h
    obtain ⟨rfl, rfl, rfl⟩ := h
    exact ⟨by simp [digits_split r0], Or.inr (Or.inl rfl), digits_allDig r0⟩
  · split at h
    · rename_i i0 r0 hw
      simp at h
      obtain ⟨rfl, rfl, rfl⟩ := h
      obtain ⟨hs, hok⟩ := reWhole_inv hw
      exact ⟨by rw [hs]; simp [digits_split r0], Or.inr (Or.inr hok), digits_allDig r0⟩
    · split at h
      · simp at h
        obtain ⟨rfl, rfl, rfl⟩ := h
        exact ⟨by simp [digits_split], Or.inl rfl, digits_allDig _⟩
      · simp at h

theorem pNumber_inv {s : List Char} {c : Cnt} {r : List Char} (h : pNumber s = some (.ok (c, r))) :
    ∃ t : CntTok, t.ok = true ∧ t.isNone = false ∧ s = t.text ++ r ∧ t.val = c := by
  unfold pNumber at h
  split at h
  · rename_i i f r0 hf
    obtain ⟨hs, hi, hfd⟩ := reFract_inv hf
    split at h
    · simp at h
    · rename_i hne
      simp at h
      obtain ⟨rfl, rfl⟩ := h
      refine ⟨.fract i f, ?_, rfl, by simpa [CntTok.text] using hs, rfl⟩
      simp only [CntTok.ok, Bool.and_eq_true, Bool.or_eq_true, Bool.not_eq_true', List.isEmpty_iff,
        beq_iff_eq]
      refine ⟨⟨?_, all_of_allDig hfd⟩, ?_⟩
      · rcases hi with h | h | h
        · exact Or.inl (Or.inl h)
        · exact Or.inl (Or.inr h)
        · exact Or.inr h
      · simpa using hne
  · split at h
    · rename_i i r0 hw
      obtain ⟨hs, hok⟩ := reWhole_inv hw
      simp at h
      obtain ⟨rfl, rfl⟩ := h
      exact ⟨.whole i, hok, rfl, by simpa [CntTok.text] using hs, rfl⟩
    · simp at h

theorem pCount_inv {s : List Char} {c : Cnt} {r : List Char} (h : pCount s = .ok (c, r)) :
    ∃ t : CntTok, t.ok = true ∧ s = t.text ++ r ∧ t.val = c := by
  unfold pCount at h
  split at h
  · simp at h; obtain ⟨rfl, rfl⟩ := h
    exact ⟨.none, rfl, rfl, rfl⟩
  · split at h
    · simp at h; obtain ⟨rfl, rfl⟩ := h
      exact ⟨.none, rfl, rfl, rfl⟩
    · split at h
      · rename_i x hx
        simp at h; subst h
        obtain ⟨t, h1, _, h3, h4⟩ := pNumber_inv hx
        exact ⟨t, h1, h3, h4⟩
      · simp at h
      · simp at h; obtain ⟨rfl, rfl⟩ := h
        exact ⟨.none, rfl, rfl, rfl⟩

/-! ## symbol, tags -/

theorem pSymbol_inv {T : Table} {s : List Char} {e : Entry} {r : List Char}
    (h : pSymbol T s = .ok (e, r)) :
    ∃ b sym, AllWs b ∧ symOK sym = true ∧ s = b ++ (sym ++ r) ∧ T.lookup sym = some e := by
  obtain ⟨b, hb, hs⟩ := skipWs_split s
  unfold pSymbol at h
  split at h
  · simp at h
  · rename_i c cs hsk
    rw [hsk] at hs
    split at h
    · rename_i hup
      split at h
      · rename_i d ds
        split at h
        · rename_i hlo
          split at h
          · rename_i e' hl
            simp at h; obtain ⟨rfl, rfl⟩ := h
            exact ⟨b, [c, d], hb, by simp [symOK, hup, hlo], by simpa using hs, hl⟩
          · simp at h
        · split at h
          · rename_i e' hl
            simp at h; obtain ⟨rfl, rfl⟩ := h
            exact ⟨b, [c], hb, by simp [symOK, hup], by simpa using hs, hl⟩
          · simp at h
      · split at h
        · rename_i e' hl
          simp at h; obtain ⟨rfl, rfl⟩ := h
          exact ⟨b, [c], hb, by simp [symOK, hup], by simpa using hs, hl⟩
        · simp at h
    · simp at h

theorem pIsotope_inv (s : List Char) :
    ∃ o : Option IsoTok, isoOkOpt o = true ∧
      s = optText IsoTok.text o ++ (pIsotope s).2 ∧ (pIsotope s).1 = isoNumOpt o := by
  unfold pIsotope
  split
  · rename_i r
    split
    · rename_i d r' hw
      obtain ⟨hs1, hok⟩ := reWhole_inv hw
      obtain ⟨b1, hb1, hsk1⟩ := skipWs_split r
      split
      · rename_i r'' hsk
        obtain ⟨b2, hb2, hsk2⟩ := skipWs_split r'
        rw [hsk] at hsk2
        refine ⟨some ⟨b1, d, b2⟩, ?_, ?_, rfl⟩
        · simp [isoOkOpt, IsoTok.ok, allWs_of hb1, allWs_of hb2, hok]
        · simp only [optText, IsoTok.text]
          rw [hsk1, hs1, hsk2]
          simp
      · exact ⟨none, rfl, by simp [optText], rfl⟩
    · exact ⟨none, rfl, by simp [optText], rfl⟩
  · exact ⟨none, rfl, by simp [optText], rfl⟩

theorem ionMag_inv (s : List Char) :
    ∃ mag : List Char, (mag.isEmpty || okWhole mag) = true ∧ s = mag ++ (ionMag s).2 ∧
      (ionMag s).1 = (if mag.isEmpty then 1 else natOf mag) := by
  unfold ionMag
  split
  · rename_i d r' hw
    obtain ⟨hs, hok⟩ := reWhole_inv hw
    obtain ⟨c, cs, rfl, _⟩ := okWhole_cons hok
    exact ⟨c :: cs, by simp [hok], hs, by simp⟩
  · exact ⟨[], rfl, by simp, by simp⟩

theorem pIon_inv (s : List Char) :
    ∃ o : Option IonTok, ionOkOpt o = true ∧
      s = optText IonTok.text o ++ (pIon s).2 ∧ (pIon s).1 = chargeOpt o := by
  unfold pIon
  split
  · rename_i r
    obtain ⟨b1, hb1, hsk1⟩ := skipWs_split r
    obtain ⟨mag, hmok, hms, hmv⟩ := ionMag_inv (skipWs r)
    split
    · rename_i sg r3 h3
      rw [h3] at hms
      obtain ⟨b2, hb2, hsk2⟩ := skipWs_split r3
      split
      · rename_i hplus
        split
        · rename_i r4 h5
          rw [h5] at hsk2
          refine ⟨some ⟨b1, mag, false, b2⟩, ?_, ?_, ?_⟩
          · simp only [ionOkOpt, IonTok.ok, allWs_of hb1, allWs_of hb2, hmok, Bool.and_self]
          · simp only [optText, IonTok.text, Bool.false_eq_true, if_false]
            rw [hsk1, hms, hsk2, hplus]
            simp
          · simp only [chargeOpt, IonTok.charge, Bool.false_eq_true, if_false, hmv]
        · exact ⟨none, rfl, by simp [optText], rfl⟩
      · split
        · rename_i hminus
          split
          · rename_i r4 h5
            rw [h5] at hsk2
            refine ⟨some ⟨b1, mag, true, b2⟩, ?_, ?_, ?_⟩
            · simp only [ionOkOpt, IonTok.ok, allWs_of hb1, allWs_of hb2, hmok, Bool.and_self]
            · simp only [optText, IonTok.text, if_true]
              rw [hsk1, hms, hsk2, hminus]
              simp
            · simp only [chargeOpt, IonTok.charge, if_true, hmv]
          · exact ⟨none, rfl, by simp [optText], rfl⟩
        · exact ⟨none, rfl, by simp [optText], rfl⟩
    · exact ⟨none, rfl, by simp [optText], rfl⟩
  · exact ⟨none, rfl, by simp [optText], rfl⟩

/-! ## elements -/

theorem pElement_inv {T : Table} {s : List Char} {c : Cnt} {x : Atom} {r : List Char}
    (h : pElement T s = .ok ((c, x), r)) :
    ∃ el : Elem, el.ok = true ∧ s = el.text ++ r ∧ el.atom T = some x ∧ el.cnt.val = c := by
  unfold pElement at h
  split at h
  · simp at h
  · rename_i e r1 hs
    obtain ⟨b, sym, hb, hsym, hs1, hl⟩ := pSymbol_inv hs
    obtain ⟨oi, hoi, hsi, hvi⟩ := pIsotope_inv r1
    obtain ⟨oq, hoq, hsq, hvq⟩ := pIon_inv (pIsotope r1).2
    split at h
    · simp at h
    · rename_i c' r4 hc
      obtain ⟨t, htok, hst, htv⟩ := pCount_inv hc
      split at h
      · simp at h
      · rename_i a hv
        simp at h
        obtain ⟨⟨rfl, rfl⟩, rfl⟩ := h
        refine ⟨⟨b, sym, oi, oq, t⟩, ?_, ?_, ?_, htv⟩
        · simp only [Elem.ok, allWs_of hb, hsym, hoi, hoq, htok, Bool.and_self]
        · simp only [Elem.text]
          rw [hs1, hsi, hsq, hst]
          simp [List.append_assoc]
        · rw [convertElement_spec] at hv
          simp only [Elem.atom, hl]
          have e1 : (Elem.isoNum ⟨b, sym, oi, oq, t⟩) = (pIsotope r1).1 := by
            simp only [Elem.isoNum]; rw [hvi]
          have e2 : (Elem.charge ⟨b, sym, oi, oq, t⟩) = (pIon (pIsotope r1).2).1 := by
            simp only [Elem.charge]; rw [hvq]
          rw [e1, e2]
          split at hv
          · rename_i hcond
            simp at hv
            simp [hcond, hv]
          · simp at hv

theorem pElements_inv {T : Table} : ∀ (n : Nat) {s : List Char} {fs : Items Cnt} {r : List Char},
    pElements T n s = .ok (fs, r) →
    ∃ els : List Elem, elemsOk els = true ∧ s = elemsText els ++ r ∧ elemsItems T els = some fs ∧
      (isNil fs = false → els ≠ [])
  | 0, s, fs, r, h => by
    simp [pElements] at h; obtain ⟨rfl, rfl⟩ := h
    exact ⟨[], rfl, rfl, rfl, by simp [isNil]⟩
  | n + 1, s, fs, r, h => by
    rw [pElements] at h
    split at h
    · rename_i c a r1 he
      obtain ⟨el, hok, hs, hat, hcv⟩ := pElement_inv he
      split at h
      · rename_i fs' r' hr
        obtain ⟨els, hoks, hss, his, _⟩ := pElements_inv n hr
        simp at h; obtain ⟨rfl, rfl⟩ := h
        refine ⟨el :: els, by simp [elemsOk, hok, hoks], ?_, ?_, by simp⟩
        · simp only [elemsText, List.append_assoc]; rw [← hss]; exact hs
        · simp only [elemsItems, hat, his, hcv]
      · simp at h
    · simp at h; obtain ⟨rfl, rfl⟩ := h
      exact ⟨[], rfl, rfl, rfl, by simp [isNil]⟩
    · simp at h

theorem pImplicit_inv {T : Table} {n : Nat} {s : List Char} {fs : Items Cnt} {r : List Char}
    (h : pImplicit T n s = .ok (fs, r)) :
    ∃ g : Group, g.wf = true ∧ s = g.text ++ r ∧ g.items T = some fs := by
  unfold pImplicit at h
  split at h
  · simp at h
  · rename_i c r1 hc
    obtain ⟨t, htok, hst, htv⟩ := pCount_inv hc
    split at h
    · simp at h
    · rename_i fs' r' he
      obtain ⟨els, hoks, hss, his, hne⟩ := pElements_inv n he
      split at h
      · simp at h
      · rename_i hnil
        simp at h; obtain ⟨rfl, rfl⟩ := h
        have hne' : els ≠ [] := hne (by simpa using hnil)
        refine ⟨.implicit t els, ?_, ?_, ?_⟩
        · simp only [Group.wf, htok, hoks, Bool.and_self, Bool.true_and, Bool.not_eq_true',
            List.isEmpty_eq_false_iff]
          exact hne'
        · simp only [Group.text, List.append_assoc]; rw [← hss]; exact hst
        · simp only [Group.items, his, htv]

theorem pLit_inv {ch : Char} {s r : List Char} (h : pLit ch s = some r) :
    ∃ b, AllWs b ∧ s = b ++ ch :: r := by
  obtain ⟨b, hb, hs⟩ := skipWs_split s
  unfold pLit at h
  split at h
  · rename_i c r0 hsk
    split at h
    · rename_i hc
      simp at h; subst h
      rw [hsk, hc] at hs
      exact ⟨b, hb, hs⟩
    · simp at h
  · simp at h

theorem skipSep_inv (s : List Char) : ∃ sep : Sep, allWs sep.b1 = true ∧ allWs sep.b2 = true ∧
    s = sep.text ++ skipSep s := by
  obtain ⟨b1, hb1, hs1⟩ := skipWs_split s
  unfold skipSep
  split
  · rename_i r hsk
    obtain ⟨b2, hb2, hs2⟩ := skipWs_split r
    refine ⟨⟨b1, true, b2⟩, allWs_of hb1, allWs_of hb2, ?_⟩
    simp only [Sep.text, if_true]
    rw [hsk] at hs1
    rw [hs1, hs2]
    simp [List.append_assoc]
    rw [← hs2]
  · refine ⟨⟨b1, false, []⟩, allWs_of hb1, rfl, ?_⟩
    simp only [Sep.text, Bool.false_eq_true, if_false, List.append_nil]
    exact hs1

/-! ## groups and composites -/

/-- what the composite loop read: nothing, or a separator and a composite -/
inductive MoreRead (T : Table) (s : List Char) (fs : Items Cnt) (r : List Char) : Prop where
  | nothing (h1 : fs = .nil) (h2 : r = s)
  | some (sep : Sep) (d : Comp) (hb1 : allWs sep.b1 = true) (hb2 : allWs sep.b2 = true) (hw : d.wf = true)
      (hs : s = sep.text ++ (d.text ++ r)) (hi : d.items T = some fs)

theorem append_nil_items' : ∀ (s : Items Cnt), s.append .nil = s
  | .nil => rfl
  | .cons c f r => by simp [Items.append, append_nil_items' r]

theorem group_inv (T : Table) : ∀ (n : Nat),
    (∀ {s : List Char} {fs : Items Cnt} {r : List Char}, pGroup T n s = .ok (fs, r) →
      ∃ g : Group, g.wf = true ∧ s = g.text ++ r ∧ g.items T = some fs) ∧
    (∀ {s : List Char} {fs : Items Cnt} {r : List Char}, pComposite T n s = .ok (fs, r) →
      ∃ d : Comp, d.wf = true ∧ s = d.text ++ r ∧ d.items T = some fs) ∧
    (∀ {s : List Char} {fs : Items Cnt} {r : List Char}, pMore T n s = .ok (fs, r) → MoreRead T s fs r)
  | 0 => by
    refine ⟨?_, ?_, ?_⟩
    · intro s fs r h; simp [pGroup] at h
    · intro s fs r h; simp [pComposite] at h
    · intro s fs r h; simp [pMore] at h; exact .nothing h.1.symm h.2.symm
  | n + 1 => by
    obtain ⟨ihG, ihC, ihM⟩ := group_inv T n
    refine ⟨?_, ?_, ?_⟩
    · intro s fs r h
      rw [pGroup] at h
      split at h
      · rename_i x hx
        simp at h; subst h
        exact pImplicit_inv hx
      · simp at h
      · split at h
        · simp at h
        · rename_i r1 hl
          obtain ⟨b0, hb0, hs0⟩ := pLit_inv hl
          obtain ⟨b1, hb1, hs1⟩ := skipWs_split r1
          split at h
          · simp at h
          · rename_i fs' r2 hc
            obtain ⟨inner, hiw, his, hii⟩ := ihC hc
            split at h
            · simp at h
            · rename_i r3 hl2
              obtain ⟨b2, hb2, hs2⟩ := pLit_inv hl2
              obtain ⟨b3, hb3, hs3⟩ := skipWs_split r3
              split at h
              · simp at h
              · rename_i c r4 hcnt
                obtain ⟨t, htok, hst, htv⟩ := pCount_inv hcnt
                simp at h; obtain ⟨rfl, rfl⟩ := h
                refine ⟨.explicit b0 b1 inner b2 b3 t, ?_, ?_, ?_⟩
                · simp only [Group.wf, allWs_of hb0, allWs_of hb1, allWs_of hb2, allWs_of hb3, htok, hiw,
                    Bool.and_self]
                · simp only [Group.text, List.append_assoc, List.cons_append]
                  rw [hs0, hs1, his, hs2, hs3, hst]
                  try simp [List.append_assoc]
                · simp only [Group.items, hii, htv]
    · intro s fs r h
      rw [pComposite] at h
      split at h
      · simp at h
      · rename_i g r1 hg
        obtain ⟨g', hgw, hgs, hgi⟩ := ihG hg
        split at h
        · simp at h
        · rename_i gs r2 hm
          simp at h; obtain ⟨rfl, rfl⟩ := h
          cases ihM hm with
          | nothing h1 h2 =>
            subst h1; subst h2
            exact ⟨.one g', by simpa [Comp.wf] using hgw, by simpa [Comp.text] using hgs,
              by simp [Comp.items, hgi, append_nil_items']⟩
          | some sep d hb1 hb2 hw hs hi =>
            refine ⟨.more g' sep d, by simp [Comp.wf, hgw, hb1, hb2, hw], ?_, by simp [Comp.items, hgi, hi]⟩
            simp only [Comp.text, List.append_assoc]
            rw [hgs, hs]
    · intro s fs r h
      rw [pMore] at h
      split at h
      · rename_i g r1 hg
        obtain ⟨g', hgw, hgs, hgi⟩ := ihG hg
        obtain ⟨sep, hsb1, hsb2, hss⟩ := skipSep_inv s
        split at h
        · simp at h
        · rename_i gs r2 hm
          simp at h; obtain ⟨rfl, rfl⟩ := h
          cases ihM hm with
          | nothing h1 h2 =>
            subst h1; subst h2
            exact .some sep (.one g') hsb1 hsb2 (by simpa [Comp.wf] using hgw)
              (by rw [hss, hgs]; simp [Comp.text]) (by simp [Comp.items, hgi, append_nil_items'])
          | some sep2 d hb1 hb2 hw hs hi =>
            exact .some sep (.more g' sep2 d) hsb1 hsb2 (by simp [Comp.wf, hgw, hb1, hb2, hw])
              (by rw [hss, hgs, hs]; simp [Comp.text, List.append_assoc]) (by simp [Comp.items, hgi, hi])
      · simp at h; exact .nothing h.1.symm h.2.symm
      · simp at h

/-! ## the density tag and the whole string -/

theorem pDensity_inv {s : List Char} {o : Option Dens} {r : List Char} (h : pDensity s = .ok (o, r)) :
    (o = none ∧ r = s) ∨
    ∃ d : DensTok, d.ok = true ∧ s = d.text ++ r ∧ o = some d.val := by
  obtain ⟨b0, hb0, hs0⟩ := skipWs_split s
  unfold pDensity at h
  split at h
  · rename_i r0 hsk
    rw [hsk] at hs0
    split at h
    · simp at h; exact Or.inl ⟨h.1.symm, h.2.symm⟩
    · rename_i c cs
      split at h
      · simp at h; exact Or.inl ⟨h.1.symm, h.2.symm⟩
      · split at h
        · simp at h; exact Or.inl ⟨h.1.symm, h.2.symm⟩
        · simp at h
        · rename_i cnt r' hnum
          obtain ⟨t, htok, htn, hst, htv⟩ := pNumber_inv hnum
          obtain ⟨b1, hb1, hs1⟩ := skipWs_split r'
          right
          split at h
          · rename_i r'' hsk2
            simp at h; obtain ⟨rfl, rfl⟩ := h
            rw [hsk2] at hs1
            refine ⟨⟨b0, t, b1, some true⟩, ?_, ?_, ?_⟩
            · simp [DensTok.ok, allWs_of hb0, allWs_of hb1, htok, htn]
            · simp only [DensTok.text, DensTok.tagText, List.append_assoc, List.cons_append]
              rw [hs0, hst, hs1]
              simp [List.append_assoc]
            · simp [DensTok.val, htv]
          · rename_i r'' hsk2
            simp at h; obtain ⟨rfl, rfl⟩ := h
            rw [hsk2] at hs1
            refine ⟨⟨b0, t, b1, some false⟩, ?_, ?_, ?_⟩
            · simp [DensTok.ok, allWs_of hb0, allWs_of hb1, htok, htn]
            · simp only [DensTok.text, DensTok.tagText, List.append_assoc, List.cons_append]
              rw [hs0, hst, hs1]
              simp [List.append_assoc]
            · simp [DensTok.val, htv]
          · simp at h; obtain ⟨rfl, rfl⟩ := h
            refine ⟨⟨b0, t, [], none⟩, ?_, ?_, ?_⟩
            · have hnil : allWs ([] : List Char) = true := rfl
              simp [DensTok.ok, allWs_of hb0, hnil, htok, htn]
            · simp only [DensTok.text, DensTok.tagText, List.append_assoc, List.cons_append, List.nil_append]
              rw [hs0, hst]
              try simp [List.append_assoc]
            · simp [DensTok.val, htv]
  · simp at h; exact Or.inl ⟨h.1.symm, h.2.symm⟩

theorem skipWs_isEmpty_allWs (s : List Char) (h : (skipWs s).isEmpty = true) : AllWs s := by
  obtain ⟨b, hb, hs⟩ := skipWs_split s
  have : skipWs s = [] := by simpa using h
  rw [this, List.append_nil] at hs
  rw [hs]; exact hb

/-- **every accepted string is a string of the documented grammar with that meaning** -/
theorem parse_sound (T : Table) (s : List Char) (fs : Items Cnt) (d : Option Dens)
    (h : parse T s = .ok (fs, d)) :
    ∃ D : Compound, D.wf = true ∧ D.text = s ∧ D.result T = some (fs, d) := by
  unfold parse at h
  split at h
  · rename_i fs' r hc
    obtain ⟨comp, hcw, hcs, hci⟩ := (group_inv T _).2.1 hc
    split at h
    · rename_i o r' hd
      split at h
      · rename_i hemp
        simp at h; obtain ⟨rfl, rfl⟩ := h
        have htrail := skipWs_isEmpty_allWs r' hemp
        rcases pDensity_inv hd with ⟨rfl, rfl⟩ | ⟨dt, hdok, hds, rfl⟩
        · exact ⟨.full [] comp none r', by simp [Compound.wf, allWs_of htrail, hcw],
            by simp [Compound.text, optText, hcs], by simp [Compound.result, hci]⟩
        · exact ⟨.full [] comp (some dt) r', by simp [Compound.wf, allWs_of htrail, hcw, hdok],
            by simp [Compound.text, optText, hcs, hds], by simp [Compound.result, hci]⟩
      · simp at h
    · simp at h
  · split at h
    · rename_i hemp
      simp at h; obtain ⟨rfl, rfl⟩ := h
      exact ⟨.empty s, by simpa [Compound.wf] using allWs_of (skipWs_isEmpty_allWs s hemp), rfl, rfl⟩
    · simp at h
  · simp at h

end PtModel.Grammar
