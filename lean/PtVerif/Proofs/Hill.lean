import PtVerif.Proofs.Formula
import PtVerif.Model.Symbols
import Mathlib.Data.List.Sort
import Mathlib.Tactic.Linarith

/-! Hill order (C19): the sort key is a total preorder that is antisymmetric on atoms,
the stable insertion sort is Mathlib's `insertionSort`, so sorted permutations coincide. -/
namespace PtModel

/-! ### the key order -/

theorem HillKey.le_iff (x y : HillKey) :
    x.le y = true ↔
      x.cls < y.cls ∨ (x.cls = y.cls ∧ (x.sym < y.sym ∨ (x.sym = y.sym ∧
        (x.iso < y.iso ∨ (x.iso = y.iso ∧ x.chg ≤ y.chg))))) := by
  unfold HillKey.le
  by_cases h1 : x.cls = y.cls <;> by_cases h2 : x.sym = y.sym <;> by_cases h3 : x.iso = y.iso <;>
    simp [h1, h2, h3] <;> omega

theorem HillKey.le_total (x y : HillKey) : x.le y = true ∨ y.le x = true := by
  simp only [HillKey.le_iff]; omega

theorem HillKey.le_trans {x y z : HillKey} (h1 : x.le y = true) (h2 : y.le z = true) :
    x.le z = true := by
  simp only [HillKey.le_iff] at *; omega

theorem HillKey.le_antisymm {x y : HillKey} (h1 : x.le y = true) (h2 : y.le x = true) : x = y := by
  simp only [HillKey.le_iff] at *
  cases x; cases y; simp only [HillKey.mk.injEq] at *; omega

/-- the relation the Hill sort uses on dict entries -/
def hillRel {α : Type} (sym : Nat → Nat → Nat) (x y : Atom × α) : Prop :=
  (hillKey sym x.1).le (hillKey sym y.1) = true

instance {α : Type} (sym : Nat → Nat → Nat) : DecidableRel (hillRel (α := α) sym) :=
  fun _ _ => inferInstanceAs (Decidable (_ = true))

instance {α : Type} (sym : Nat → Nat → Nat) : Std.Total (hillRel (α := α) sym) :=
  ⟨fun a b => HillKey.le_total _ _⟩

instance {α : Type} (sym : Nat → Nat → Nat) : IsTrans (Atom × α) (hillRel sym) :=
  ⟨fun _ _ _ h1 h2 => HillKey.le_trans h1 h2⟩

/-! ### `sortBy` is Mathlib's insertion sort -/

theorem insertBy_eq {β : Type} (le : β → β → Bool) (x : β) (l : List β) :
    insertBy le x l = l.orderedInsert (fun a b => le a b = true) x := by
  induction l with
  | nil => rfl
  | cons y r ih => simp only [insertBy, List.orderedInsert_cons, ih]

theorem sortBy_eq {β : Type} (le : β → β → Bool) (l : List β) :
    sortBy le l = l.insertionSort (fun a b => le a b = true) := by
  induction l with
  | nil => rfl
  | cons y r ih => simp only [sortBy, List.insertionSort_cons, ih, insertBy_eq]

variable {α : Type}

/-- the sorted dict entries of `_convert_to_hill_notation` -/
def hillSorted (sym : Nat → Nat → Nat) (t : List (Atom × α)) : List (Atom × α) :=
  sortBy (fun x y => (hillKey sym x.1).le (hillKey sym y.1)) t

theorem hillSorted_eq (sym : Nat → Nat → Nat) (t : List (Atom × α)) :
    hillSorted sym t = t.insertionSort (hillRel sym) := sortBy_eq _ t

theorem hillSorted_perm (sym : Nat → Nat → Nat) (t : List (Atom × α)) : (hillSorted sym t).Perm t := by
  rw [hillSorted_eq]; exact List.perm_insertionSort _ t

theorem hillSorted_pairwise (sym : Nat → Nat → Nat) (t : List (Atom × α)) :
    (hillSorted sym t).Pairwise (hillRel sym) := by
  rw [hillSorted_eq]; exact List.pairwise_insertionSort _ t

/-- the key distinguishes atoms (holds for the generated symbol table: `symInjective`) -/
def KeyInjective (sym : Nat → Nat → Nat) (dom : Atom → Prop) : Prop :=
  ∀ x y, dom x → dom y → hillKey sym x = hillKey sym y → x = y

/-- **canonical**: two atom dicts that are permutations of one another (same atoms, same
    counts, any order) have the same Hill form. -/
theorem hillSorted_canonical (sym : Nat → Nat → Nat) (dom : Atom → Prop) (hinj : KeyInjective sym dom)
    (t₁ t₂ : List (Atom × α)) (hd : ∀ e ∈ t₁, dom e.1) (hk : KeysNodup t₁) (hp : t₁.Perm t₂) :
    hillSorted sym t₁ = hillSorted sym t₂ := by
  have p1 := hillSorted_perm sym t₁
  have p2 := hillSorted_perm sym t₂
  have pp : (hillSorted sym t₁).Perm (hillSorted sym t₂) := p1.trans (hp.trans p2.symm)
  refine List.Perm.eq_of_pairwise (le := hillRel sym) ?_ (hillSorted_pairwise sym t₁)
    (hillSorted_pairwise sym t₂) pp
  intro a b ha hb hab hba
  have ha1 : a ∈ t₁ := p1.subset ha
  have hb1 : b ∈ t₁ := hp.symm.subset (p2.subset hb)
  have hkey : a.1 = b.1 := hinj _ _ (hd a ha1) (hd b hb1) (HillKey.le_antisymm hab hba)
  -- one dict holds at most one entry per atom
  unfold KeysNodup at hk
  have := List.inj_on_of_nodup_map hk ha1 hb1 hkey
  exact this

theorem hillS_eq (sym : Nat → Nat → Nat) (t : List (Atom × α)) :
    hillS sym t = Items.ofList ((hillSorted sym t).map fun e => (e.2, Frag.atom e.1)) := rfl

/-! ### atoms of a flat structure -/
section Flat
variable [CommSemiring α]

theorem total_countAcc_flat (l : List (Atom × α)) (t : List (Atom × α)) (b : Atom) :
    total ((Items.ofList (l.map fun e => (e.2, Frag.atom e.1))).countAcc t) b
      = total t b + total l b := by
  rw [Items.total_countAcc]
  congr 1
  induction l with
  | nil => rfl
  | cons e r ih =>
    simp only [List.map_cons, Items.ofList, Items.cnt, Frag.cnt, ih, total_cons]
    by_cases h : e.1 = b <;> simp [h]

/-- **same atom counts**: the Hill form lists every atom with the count it had -/
theorem hill_counts (sym : Nat → Nat → Nat) (t : List (Atom × α)) (hk : KeysNodup t) (b : Atom) :
    lookupD (hillS sym t).atoms b = lookupD t b := by
  unfold Items.atoms
  rw [lookupD_eq_total (Items.keysNodup_countAcc _ (by simp [KeysNodup])), lookupD_eq_total hk]
  rw [hillS_eq, total_countAcc_flat]
  simp only [total_nil, zero_add]
  -- `total` is invariant under permutation
  have hperm : ∀ (l₁ l₂ : List (Atom × α)), l₁.Perm l₂ → total l₁ b = total l₂ b := by
    intro l₁ l₂ h
    induction h with
    | nil => rfl
    | cons x _ ih => simp [ih]
    | swap x y l => simp only [total_cons]; ring
    | trans _ _ ih1 ih2 => exact ih1.trans ih2
  exact hperm _ _ (hillSorted_perm sym t)

end Flat

/-- the atoms listed by a Hill form, in order -/
theorem hillS_keys (sym : Nat → Nat → Nat) (t : List (Atom × α)) :
    (hillS sym t).toList.map (fun e => e.2) = (hillSorted sym t).map fun e => Frag.atom e.1 := by
  rw [hillS_eq]
  generalize hillSorted sym t = l
  induction l with
  | nil => rfl
  | cons e r ih => simp only [List.map_cons, Items.ofList, Items.toList, ih]

end PtModel

namespace PtModel
variable {α : Type}

/-! ### atoms of a flat structure with distinct atoms is the list itself -/
section FlatList
variable [CommSemiring α]

theorem bump_not_mem (t : List (Atom × α)) (a : Atom) (x : α) (h : a ∉ t.map Prod.fst) :
    bump t a x = t ++ [(a, x)] := by
  induction t with
  | nil => simp [bump]
  | cons e r ih =>
    obtain ⟨k, y⟩ := e
    simp only [List.map_cons, List.mem_cons, not_or] at h
    have hk : ¬ k = a := fun e => h.1 e.symm
    simp only [bump, hk, if_false, List.cons_append, ih h.2]

theorem countAcc_flat (l t : List (Atom × α)) (h : ((t ++ l).map Prod.fst).Nodup) :
    (Items.ofList (l.map fun e => (e.2, Frag.atom e.1))).countAcc t = t ++ l := by
  induction l generalizing t with
  | nil => simp [Items.ofList, Items.countAcc]
  | cons e r ih =>
    obtain ⟨a, c⟩ := e
    have hmem : a ∉ t.map Prod.fst := by
      intro hm
      rw [List.map_append, List.nodup_append] at h
      exact h.2.2 a hm a (by simp) rfl
    simp only [List.map_cons, Items.ofList, Items.countAcc, Frag.count, mergeScaled, List.foldl_cons,
      List.foldl_nil]
    rw [bump_not_mem t a _ hmem, ih]
    · simp
    · simpa using h

theorem atoms_flat (l : List (Atom × α)) (h : KeysNodup l) :
    (Items.ofList (l.map fun e => (e.2, Frag.atom e.1))).atoms = l := by
  unfold Items.atoms
  rw [countAcc_flat l [] (by simpa [KeysNodup] using h)]; simp

theorem hillSorted_keysNodup (sym : Nat → Nat → Nat) (t : List (Atom × α)) (h : KeysNodup t) :
    KeysNodup (hillSorted sym t) := by
  unfold KeysNodup at *
  exact ((hillSorted_perm sym t).map Prod.fst).nodup_iff.mpr h

/-- **idempotent**: the Hill form of a Hill form is itself -/
theorem hill_idempotent (sym : Nat → Nat → Nat) (t : List (Atom × α)) (h : KeysNodup t) :
    hillS sym (hillS sym t).atoms = hillS sym t := by
  rw [hillS_eq sym t, atoms_flat _ (hillSorted_keysNodup sym t h)]
  rw [hillS_eq]
  congr 2
  rw [hillSorted_eq, hillSorted_eq]
  exact List.Pairwise.insertionSort_eq (List.pairwise_insertionSort _ t)

/-- a flat formula already written in Hill order (distinct atoms) is its own Hill form -/
theorem hill_of_sorted (sym : Nat → Nat → Nat) (l : List (Atom × α)) (hk : KeysNodup l)
    (hs : l.Pairwise (hillRel sym)) :
    hillS sym (Items.ofList (l.map fun e => (e.2, Frag.atom e.1))).atoms
      = Items.ofList (l.map fun e => (e.2, Frag.atom e.1)) := by
  rw [atoms_flat l hk, hillS_eq, hillSorted_eq, List.Pairwise.insertionSort_eq hs]

end FlatList

/-! ### the generated symbol table makes the key injective -/

theorem symOfTable_injective (tbl : List (Nat × Nat))
    (hz : (tbl.map Prod.fst).Nodup)
    (hc : (tbl.map Prod.snd ++ [codeD, codeT]).Nodup) :
    KeyInjective (symOfTable tbl) (fun x => x.z ∈ tbl.map Prod.fst) := by
  intro x y hx hy hk
  obtain ⟨xz, xa, xq⟩ := x
  obtain ⟨yz, ya, yq⟩ := y
  simp only [hillKey, HillKey.mk.injEq] at hk
  obtain ⟨_, hs, ha, hq⟩ := hk
  simp only at ha hq hx hy
  subst ha hq
  suffices xz = yz by subst this; rfl
  -- lookup facts
  have look : ∀ z, z ∈ tbl.map Prod.fst → ∃ c, tbl.find? (·.1 = z) = some (z, c) ∧ (z, c) ∈ tbl := by
    intro z hz'
    simp only [List.mem_map] at hz'
    obtain ⟨e, he, rfl⟩ := hz'
    cases hf : tbl.find? (·.1 = e.1) with
    | none =>
      rw [List.find?_eq_none] at hf
      exact absurd (by simp) (hf e he)
    | some e' =>
      have h1 := List.find?_some hf
      have h2 := List.mem_of_find?_eq_some hf
      simp only [decide_eq_true_eq] at h1
      exact ⟨e'.2, by rw [← h1], by rw [← h1]; exact h2⟩
  obtain ⟨cx, fx, mx⟩ := look xz hx
  obtain ⟨cy, fy, my⟩ := look yz hy
  rw [List.nodup_append] at hc
  have notD : ∀ z c, (z, c) ∈ tbl → c ≠ codeD := fun z c hm e =>
    hc.2.2 c (List.mem_map.mpr ⟨(z, c), hm, rfl⟩) codeD (by simp) e
  have notT : ∀ z c, (z, c) ∈ tbl → c ≠ codeT := fun z c hm e =>
    hc.2.2 c (List.mem_map.mpr ⟨(z, c), hm, rfl⟩) codeT (by simp) e
  have codes_inj : ∀ z c z', (z, c) ∈ tbl → (z', c) ∈ tbl → z = z' := by
    intro z c z' h1 h2
    have := List.inj_on_of_nodup_map hc.1 h1 h2 rfl
    exact (Prod.mk.inj this).1
  simp only [symOfTable, fx, fy] at hs
  have other : cx = cy → xz = yz := fun e => by subst e; exact codes_inj _ _ _ mx my
  by_cases ha2 : xa = 2
  · subst ha2
    by_cases hx1 : xz = 1 <;> by_cases hy1 : yz = 1 <;> simp [hx1, hy1] at hs
    · omega
    · exact absurd hs.symm (notD _ _ my)
    · exact absurd hs (notD _ _ mx)
    · exact other hs
  · by_cases ha3 : xa = 3
    · subst ha3
      by_cases hx1 : xz = 1 <;> by_cases hy1 : yz = 1 <;> simp [hx1, hy1] at hs
      · omega
      · exact absurd hs.symm (notT _ _ my)
      · exact absurd hs (notT _ _ mx)
      · exact other hs
    · simp [ha2, ha3] at hs
      exact other hs

end PtModel
