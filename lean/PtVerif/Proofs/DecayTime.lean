import PtVerif.Proofs.ActivationSample

/-! Proofs for `decay_time` / `find_root` (C15) at `ℝ`. -/
namespace PtModel.Activation

/-- `Σ Ia·exp(-La·t)` over the `(Ia, La)` pairs -/
noncomputable def total (data : List (ℝ × ℝ)) (t : ℝ) : ℝ :=
  (data.map fun d => d.1 * Real.exp (-d.2 * t)).sum

/-- `Σ -La·Ia·exp(-La·t)` -/
noncomputable def dtotal (data : List (ℝ × ℝ)) (t : ℝ) : ℝ :=
  (data.map fun d => -d.2 * d.1 * Real.exp (-d.2 * t)).sum

theorem sumDecay_fold (data : List (ℝ × ℝ)) (t s : ℝ) :
    data.foldl (sumStep t) (Except.ok s) = .ok (s + total data t) := by
  induction data generalizing s with
  | nil => simp [total]
  | cons d ds ih =>
    simp only [List.foldl_cons]
    have : sumStep t (Except.ok s) d = .ok (s + d.1 * Real.exp (-d.2 * t)) := by
      simp [sumStep, pexp]
    rw [this, ih]
    simp only [total, List.map_cons, List.sum_cons]
    congr 1; ring

theorem sumDecay_eq (data : List (ℝ × ℝ)) (t : ℝ) : sumDecay data t = .ok (total data t) := by
  unfold sumDecay
  have h := sumDecay_fold data t 0
  simpa using h

theorem fDecay_eq (data : List (ℝ × ℝ)) (target t : ℝ) :
    fDecay data target t = .ok (total data t - target) := by
  unfold fDecay; rw [sumDecay_eq]

theorem dfDecay_fold (data : List (ℝ × ℝ)) (t s : ℝ) :
    data.foldl (dsumStep t) (Except.ok s) = .ok (s + dtotal data t) := by
  induction data generalizing s with
  | nil => simp [dtotal]
  | cons d ds ih =>
    simp only [List.foldl_cons]
    have : dsumStep t (Except.ok s) d = .ok (s + -d.2 * d.1 * Real.exp (-d.2 * t)) := by
      simp [dsumStep, pexp]
    rw [this, ih]
    simp only [dtotal, List.map_cons, List.sum_cons]
    congr 1; ring

theorem dfDecay_eq (data : List (ℝ × ℝ)) (t : ℝ) : dfDecay data t = .ok (dtotal data t) := by
  unfold dfDecay
  have h := dfDecay_fold data t 0
  simpa using h

/-- the pair `find_root` returns is `(x, f x)` -/
theorem findRootLoop_value (f df : ℝ → Except Err ℝ) (tol : ℝ) (n : Nat) (x fx t ft : ℝ)
    (h0 : f x = .ok fx) (h : findRootLoop f df tol n x fx = .ok (t, ft)) : f t = .ok ft := by
  induction n generalizing x fx with
  | zero =>
    simp only [findRootLoop] at h
    cases h; exact h0
  | succ n ih =>
    simp only [findRootLoop, h0] at h
    split at h
    · cases h; exact h0
    · split at h
      · cases h
      · split at h
        · cases h
        · split at h
          · cases h
          · rename_i fx2 hfx2
            exact ih _ _ hfx2 h

theorem findRoot_value (f df : ℝ → Except Err ℝ) (x t ft : ℝ)
    (h : findRoot f df x = .ok (t, ft)) : f t = .ok ft := by
  unfold findRoot at h
  split at h
  · cases h
  · rename_i fx hfx
    exact findRootLoop_value f df _ 20 x fx t ft hfx h

/-- the total activity does not increase with time -/
theorem total_antitone (data : List (ℝ × ℝ)) (hd : ∀ d ∈ data, 0 ≤ d.1 ∧ 0 ≤ d.2) (s t : ℝ) (hst : s ≤ t) :
    total data t ≤ total data s := by
  induction data with
  | nil => simp [total]
  | cons d ds ih =>
    have hd0 := hd d (by simp)
    have ih' := ih (fun e he => hd e (by simp [he]))
    simp only [total, List.map_cons, List.sum_cons] at *
    have : Real.exp (-d.2 * t) ≤ Real.exp (-d.2 * s) := by
      apply Real.exp_le_exp.mpr; nlinarith [hd0.2]
    have := mul_le_mul_of_nonneg_left this hd0.1
    linarith

/-- C15 core: whatever `decay_time` returns is non-negative and either the early exit
    (`0`, activity at removal already at or below the target) or within 0.1 % of the target -/
theorem decayTimeOfData_accepted (data : List (ℝ × ℝ)) (target t : ℝ)
    (hd : ∀ d ∈ data, 0 ≤ d.1 ∧ 0 ≤ d.2) (htarget : 0 < target)
    (h : decayTimeOfData data target = .ok t) :
    0 ≤ t ∧ ((total data 0 ≤ target ∧ t = 0) ∨ |total data t - target| ≤ target / 1000) := by
  unfold decayTimeOfData at h
  rw [fDecay_eq] at h
  simp only at h
  split at h
  · rename_i h0
    cases h
    exact ⟨le_refl _, Or.inl ⟨by linarith, rfl⟩⟩
  · rename_i h0
    split at h
    · cases h
    · cases h
    · rename_i x0 _
      split at h
      · cases h
      · rename_i t' ft hroot
        have hft := findRoot_value _ _ _ _ _ hroot
        rw [fDecay_eq] at hft
        have hft' : ft = total data t' - target := by cases hft; rfl
        split at h
        · cases h
        · split at h
          · cases h
          · rename_i hacc
            simp only [transc_abs, not_lt] at hacc
            have hacc' : |ft| ≤ target / 1000 := by
              have h1 : 1e2 * |ft| ≤ 0.1 * target := by
                have := (div_le_iff₀ htarget).mp hacc
                linarith
              norm_num at h1 ⊢
              linarith
            cases h
            split
            · rename_i hneg
              refine ⟨le_refl _, Or.inr ?_⟩
              have hmono := total_antitone data hd t' 0 hneg.le
              have hpos : 0 < total data 0 - target := not_le.mp h0
              rw [abs_of_pos hpos]
              have : total data 0 - target ≤ |ft| := by
                rw [hft']; exact le_trans (by linarith) (le_abs_self _)
              linarith
            · rename_i hnn
              exact ⟨not_lt.mp hnn, Or.inr (by rw [← hft']; exact hacc')⟩


/-- early exit: at or below the target at removal ⇒ 0 -/
theorem decayTimeOfData_zero_of_below (data : List (ℝ × ℝ)) (target : ℝ)
    (h : total data 0 ≤ target) : decayTimeOfData data target = .ok 0 := by
  unfold decayTimeOfData
  rw [fDecay_eq]
  simp only
  rw [if_pos (by linarith)]

/-- … and 0 is returned only if the activity at removal is within the 0.1 % band of the target -/
theorem decayTimeOfData_zero_only_if (data : List (ℝ × ℝ)) (target : ℝ)
    (hd : ∀ d ∈ data, 0 ≤ d.1 ∧ 0 ≤ d.2) (htarget : 0 < target)
    (h : decayTimeOfData data target = .ok 0) : total data 0 ≤ target * 1.001 := by
  rcases (decayTimeOfData_accepted data target 0 hd htarget h).2 with ⟨h0, _⟩ | h0
  · nlinarith
  · have := (abs_le.mp h0).2
    norm_num at this ⊢
    linarith

/-- clearly above the target at removal ⇒ a returned time is strictly positive -/
theorem decayTimeOfData_pos (data : List (ℝ × ℝ)) (target t : ℝ)
    (hd : ∀ d ∈ data, 0 ≤ d.1 ∧ 0 ≤ d.2) (htarget : 0 < target)
    (habove : target * 1.001 < total data 0)
    (h : decayTimeOfData data target = .ok t) : 0 < t := by
  have h0 := (decayTimeOfData_accepted data target t hd htarget h).1
  rcases lt_or_eq_of_le h0 with hpos | hz
  · exact hpos
  · rw [← hz] at h
    have := decayTimeOfData_zero_only_if data target hd htarget h
    linarith

/-! ### which exceptions are possible -/

theorem dtotal_neg (data : List (ℝ × ℝ)) (hd : ∀ d ∈ data, 0 < d.1 ∧ 0 < d.2) (hne : data ≠ []) (t : ℝ) :
    dtotal data t < 0 := by
  induction data with
  | nil => exact absurd rfl hne
  | cons d ds ih =>
    have hd0 := hd d (by simp)
    simp only [dtotal, List.map_cons, List.sum_cons]
    have h1 : -d.2 * d.1 * Real.exp (-d.2 * t) < 0 := by
      have := Real.exp_pos (-d.2 * t)
      have : 0 < d.2 * d.1 * Real.exp (-d.2 * t) := by
        have := hd0.1; have := hd0.2; positivity
      linarith
    by_cases hds : ds = []
    · subst hds; simpa using h1
    · have := ih (fun e he => hd e (by simp [he])) hds
      simp only [dtotal] at this
      linarith

/-- with total `f`, `df` and `df ≠ 0` the Newton loop cannot raise -/
theorem findRootLoop_ok (F F' : ℝ → ℝ) (hF' : ∀ x, F' x ≠ 0) (tol : ℝ) (n : Nat) (x fx : ℝ) :
    ∃ r, findRootLoop (fun x => .ok (F x)) (fun x => .ok (F' x)) tol n x fx = .ok r := by
  induction n generalizing x fx with
  | zero => exact ⟨(x, fx), rfl⟩
  | succ n ih =>
    simp only [findRootLoop]
    split
    · exact ⟨_, rfl⟩
    · have : (F' x == 0) = false := by simpa using hF' x
      simp only [this, Bool.false_eq_true, if_false]
      exact ih _ _

theorem guessStep_fold_ok (data : List (ℝ × ℝ)) (target : ℝ) (hd : ∀ d ∈ data, 0 < d.1 ∧ 0 < d.2)
    (htarget : 0 < target) (m : Option ℝ) :
    ∃ m', data.foldl (guessStep target) (.ok m) = .ok m' ∧ (m.isSome ∨ data ≠ [] → m'.isSome) := by
  induction data generalizing m with
  | nil => exact ⟨m, rfl, fun h => by rcases h with h | h; exact h; exact absurd rfl h⟩
  | cons d ds ih =>
    have hd0 := hd d (by simp)
    have hg : guessOf target d = .ok (-Real.log (target / d.1) / d.2) := by
      unfold guessOf
      have h1 : (d.1 == 0) = false := by simpa using ne_of_gt hd0.1
      have h2 : ¬ (target / d.1 ≤ 0) := not_le.mpr (div_pos htarget hd0.1)
      have h3 : (d.2 == 0) = false := by simpa using ne_of_gt hd0.2
      simp only [h1, h2, h3, Bool.false_eq_true, if_false, transc_log]
    simp only [List.foldl_cons]
    have hs : ∃ g, guessStep target (.ok m) d = .ok (some g) := by
      unfold guessStep
      simp only [hg]
      cases m with
      | none => exact ⟨_, rfl⟩
      | some v => exact ⟨_, rfl⟩
    obtain ⟨g, hg'⟩ := hs
    rw [hg']
    obtain ⟨m', h1, h2⟩ := ih (fun e he => hd e (by simp [he])) (some g)
    exact ⟨m', h1, fun _ => h2 (Or.inl rfl)⟩

/-- **Only RuntimeError**: for positive products and a positive target `decay_time` either returns
    a time or raises RuntimeError (the acceptance test failed) – nothing else -/
theorem decayTimeOfData_raises_only_runtime (data : List (ℝ × ℝ)) (target : ℝ)
    (hd : ∀ d ∈ data, 0 < d.1 ∧ 0 < d.2) (htarget : 0 < target) :
    (∃ t, decayTimeOfData data target = .ok t) ∨ decayTimeOfData data target = .error .runtime := by
  unfold decayTimeOfData
  rw [fDecay_eq]
  simp only
  split
  · exact Or.inl ⟨0, rfl⟩
  · rename_i h0
    have hne : data ≠ [] := by
      intro h; subst h; apply h0; simp [total]; exact htarget.le
    obtain ⟨m', hm, hsome⟩ := guessStep_fold_ok data target hd htarget none
    have hm' : initialGuess data target = .ok m' := hm
    rw [hm']
    cases m' with
    | none => exact absurd (hsome (Or.inr hne)) (by simp)
    | some x0 =>
      simp only
      have hf : fDecay data target = fun x => .ok (total data x - target) := by
        funext x; exact fDecay_eq data target x
      have hdf : dfDecay data = fun x => .ok (dtotal data x) := by
        funext x; exact dfDecay_eq data x
      rw [hf, hdf]
      unfold findRoot
      simp only
      obtain ⟨r, hr⟩ := findRootLoop_ok (fun x => total data x - target) (dtotal data)
        (fun x => ne_of_lt (dtotal_neg data hd hne x)) 1e-10 20 x0 (total data x0 - target)
      rw [hr]
      obtain ⟨t, ft⟩ := r
      simp only
      have : (target == 0) = false := by simpa using ne_of_gt htarget
      simp only [this, Bool.false_eq_true, if_false]
      split
      · exact Or.inr rfl
      · exact Or.inl ⟨_, rfl⟩

/-- **raises rather than returning**: when the acceptance test fails on the Newton result, the
    outcome is RuntimeError – stated as: an `ok` outcome always passed the test (see
    `decayTimeOfData_accepted`), and an error after a completed solve is `runtime` -/
theorem decayTimeOfData_never_returns_unaccepted (data : List (ℝ × ℝ)) (target t : ℝ)
    (hd : ∀ d ∈ data, 0 ≤ d.1 ∧ 0 ≤ d.2) (htarget : 0 < target)
    (h : decayTimeOfData data target = .ok t) (hnot : target / 1000 < |total data t - target|) :
    total data 0 ≤ target ∧ t = 0 := by
  rcases (decayTimeOfData_accepted data target t hd htarget h).2 with h0 | h0
  · exact h0
  · exact absurd h0 (not_le.mpr hnot)

/-! ### the data `decay_time` builds, and the documented sum `Σ Aᵢ·2^(-t/Tᵢ)` -/

/-- `Σ_k A_k·2^(-t/T_k)` over the products recorded at removal -/
noncomputable def specTotal (thalfOf : Nat → ℝ) (removal : List (Nat × ℝ)) (t : ℝ) : ℝ :=
  (removal.map fun ka => ka.2 * (2:ℝ) ^ (-t / thalfOf ka.1)).sum

theorem decayData_spec (c : Consts ℝ) (hln2 : c.ln2 = Real.log 2) (thalfOf : Nat → ℝ)
    (removal : List (Nat × ℝ)) (hth : ∀ ka ∈ removal, 0 < thalfOf ka.1) (hnn : ∀ ka ∈ removal, 0 ≤ ka.2) :
    ∃ data, decayData c thalfOf removal = .ok data ∧ (∀ d ∈ data, 0 < d.1 ∧ 0 < d.2) ∧
      ∀ t, total data t = specTotal thalfOf removal t := by
  induction removal with
  | nil => exact ⟨[], rfl, by simp, fun t => by simp [total, specTotal]⟩
  | cons ka more ih =>
    obtain ⟨k, ia⟩ := ka
    obtain ⟨data, hdata, hpos, htot⟩ := ih (fun x hx => hth x (List.mem_cons_of_mem _ hx))
      (fun x hx => hnn x (List.mem_cons_of_mem _ hx))
    have hT : 0 < thalfOf k := hth (k, ia) List.mem_cons_self
    have hia : 0 ≤ ia := hnn (k, ia) List.mem_cons_self
    unfold decayData
    by_cases hp : 0 < ia
    · have h0 : (thalfOf k == 0) = false := by simpa using ne_of_gt hT
      simp only [hp, if_true, h0, Bool.false_eq_true, if_false, hdata]
      refine ⟨(ia, c.ln2 / thalfOf k) :: data, rfl, ?_, fun t => ?_⟩
      · intro d hd
        rcases List.mem_cons.mp hd with rfl | hd
        · exact ⟨hp, by rw [hln2]; exact div_pos (Real.log_pos (by norm_num)) hT⟩
        · exact hpos d hd
      · simp only [total, List.map_cons, List.sum_cons, specTotal] at htot ⊢
        rw [htot t, hln2, Real.rpow_def_of_pos (by norm_num : (0:ℝ) < 2)]
        congr 3
        ring
    · have hz : ia = 0 := le_antisymm (not_lt.mp hp) hia
      simp only [hp, if_false]
      refine ⟨data, hdata, hpos, fun t => ?_⟩
      simp only [specTotal, List.map_cons, List.sum_cons, hz, zero_mul, zero_add] at htot ⊢
      exact htot t

end PtModel.Activation
