import PtVerif.Proofs.Activation

/-! Proofs for `decay_time` / `find_root` (C15) at `ℝ`. -/
namespace PtModel.Activation

/-- `Σ Ia·exp(-La·t)` over the `(Ia, La)` pairs -/
noncomputable def total (data : List (ℝ × ℝ)) (t : ℝ) : ℝ :=
  (data.map fun d => d.1 * Real.exp (-d.2 * t)).sum

/-- `Σ -La·Ia·exp(-La·t)` -/
noncomputable def dtotal (data : List (ℝ × ℝ)) (t : ℝ) : ℝ :=
  (data.map fun d => -d.2 * d.1 * Real.exp (-d.2 * t)).sum

theorem sumDecay_fold (data : List (ℝ × ℝ)) (t s : ℝ) :
    data.foldl (sumStep t) (Except.ok s) = .ok (s + total data t) := by
  induction data generalizing s with
  | nil => simp [total]
  | cons d ds ih =>
    simp only [List.foldl_cons]
    have : sumStep t (Except.ok s) d = .ok (s + d.1 * Real.exp (-d.2 * t)) := by
      simp [sumStep, pexp]
    rw [this, ih]
    simp only [total, List.map_cons, List.sum_cons]
    congr 1; ring

theorem sumDecay_eq (data : List (ℝ × ℝ)) (t : ℝ) : sumDecay data t = .ok (total data t) := by
  unfold sumDecay
  have h := sumDecay_fold data t 0
  simpa using h

theorem fDecay_eq (data : List (ℝ × ℝ)) (target t : ℝ) :
    fDecay data target t = .ok (total data t - target) := by
  unfold fDecay; rw [sumDecay_eq]

theorem dfDecay_fold (data : List (ℝ × ℝ)) (t s : ℝ) :
    data.foldl (dsumStep t) (Except.ok s) = .ok (s + dtotal data t) := by
  induction data generalizing s with
  | nil => simp [dtotal]
  | cons d ds ih =>
    simp only [List.foldl_cons]
    have : dsumStep t (Except.ok s) d = .ok (s + -d.2 * d.1 * Real.exp (-d.2 * t)) := by
      simp [dsumStep, pexp]
    rw [this, ih]
    simp only [dtotal, List.map_cons, List.sum_cons]
    congr 1; ring

theorem dfDecay_eq (data : List (ℝ × ℝ)) (t : ℝ) : dfDecay data t = .ok (dtotal data t) := by
  unfold dfDecay
  have h := dfDecay_fold data t 0
  simpa using h

/-- the pair `find_root` returns is `(x, f x)` -/
theorem findRootLoop_value (f df : ℝ → Except Err ℝ) (tol : ℝ) (n : Nat) (x fx t ft : ℝ)
    (h0 : f x = .ok fx) (h : findRootLoop f df tol n x fx = .ok (t, ft)) : f t = .ok ft := by
  induction n generalizing x fx with
  | zero =>
    simp only [findRootLoop] at h
    cases h; exact h0
  | succ n ih =>
    simp only [findRootLoop, h0] at h
    split at h
    · cases h; exact h0
    · split at h
      · cases h
      · split at h
        · cases h
        · split at h
          · cases h
          · rename_i fx2 hfx2
            exact ih _ _ hfx2 h

theorem findRoot_value (f df : ℝ → Except Err ℝ) (x t ft : ℝ)
    (h : findRoot f df x = .ok (t, ft)) : f t = .ok ft := by
  unfold findRoot at h
  split at h
  · cases h
  · rename_i fx hfx
    exact findRootLoop_value f df _ 20 x fx t ft hfx h

/-- the total activity does not increase with time -/
theorem total_antitone (data : List (ℝ × ℝ)) (hd : ∀ d ∈ data, 0 ≤ d.1 ∧ 0 ≤ d.2) (s t : ℝ) (hst : s ≤ t) :
    total data t ≤ total data s := by
  induction data with
  | nil => simp [total]
  | cons d ds ih =>
    have hd0 := hd d (by simp)
    have ih' := ih (fun e he => hd e (by simp [he]))
    simp only [total, List.map_cons, List.sum_cons] at *
    have : Real.exp (-d.2 * t) ≤ Real.exp (-d.2 * s) := by
      apply Real.exp_le_exp.mpr; nlinarith [hd0.2]
    have := mul_le_mul_of_nonneg_left this hd0.1
    linarith

/-- C15 core: whatever `decay_time` returns is non-negative and either the early exit
    (`0`, activity at removal already at or below the target) or within 0.1 % of the target -/
theorem decayTimeOfData_accepted (data : List (ℝ × ℝ)) (target t : ℝ)
    (hd : ∀ d ∈ data, 0 ≤ d.1 ∧ 0 ≤ d.2) (htarget : 0 < target)
    (h : decayTimeOfData data target = .ok t) :
    0 ≤ t ∧ ((total data 0 ≤ target ∧ t = 0) ∨ |total data t - target| ≤ target / 1000) := by
  unfold decayTimeOfData at h
  rw [fDecay_eq] at h
  simp only at h
  split at h
  · rename_i h0
    cases h
    exact ⟨le_refl _, Or.inl ⟨by linarith, rfl⟩⟩
  · rename_i h0
    split at h
    · cases h
    · cases h
    · rename_i x0 _
      split at h
      · cases h
      · rename_i t' ft hroot
        have hft := findRoot_value _ _ _ _ _ hroot
        rw [fDecay_eq] at hft
        have hft' : ft = total data t' - target := by cases hft; rfl
        split at h
        · cases h
        · split at h
          · cases h
          · rename_i hacc
            simp only [transc_abs, not_lt] at hacc
            have hacc' : |ft| ≤ target / 1000 := by
              have h1 : 1e2 * |ft| ≤ 0.1 * target := by
                have := (div_le_iff₀ htarget).mp hacc
                linarith
              norm_num at h1 ⊢
              linarith
            cases h
            split
            · rename_i hneg
              refine ⟨le_refl _, Or.inr ?_⟩
              have hmono := total_antitone data hd t' 0 hneg.le
              have hpos : 0 < total data 0 - target := not_le.mp h0
              rw [abs_of_pos hpos]
              have : total data 0 - target ≤ |ft| := by
                rw [hft']; exact le_trans (by linarith) (le_abs_self _)
              linarith
            · rename_i hnn
              exact ⟨not_lt.mp hnn, Or.inr (by rw [← hft']; exact hacc')⟩

end PtModel.Activation
