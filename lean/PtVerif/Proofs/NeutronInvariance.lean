import PtVerif.Proofs.Neutron
/-!
# C04: invariances of `neutron_scattering` (density, counts, order, grouping, vector, sign)
-/
namespace PtProofs.Neutron
open PtModel PtModel.Neutron

/-! ## C04: invariances of `neutron_scattering` -/

/-- normal form of the result when every atom has data -/
theorem neutronScattering_allData (t : Tbl ℝ) (atoms : List (Atom × ℝ)) (ρ w : ℝ)
    (hd : AllData t atoms) :
    neutronScattering t atoms ρ w = finish (accSums t w Acc.zero atoms) ρ w := by
  unfold neutronScattering
  rw [foldl_sumStep_allData t w atoms Acc.zero hd]

theorem neutronScattering_missing (t : Tbl ℝ) (atoms : List (Atom × ℝ)) (ρ w : ℝ)
    (hd : ¬ AllData t atoms) : neutronScattering t atoms ρ w = .missing :=
  (missing_iff t atoms ρ w).mpr hd

/-- every SLD and cross section times `k`, the penetration depth divided by `k` -/
noncomputable def Scat.scale (k : ℝ) (s : Scat ℝ) : Scat ℝ :=
  ⟨k * s.sldRe, k * s.sldIm, k * s.sldInc, k * s.coh, k * s.abs, k * s.inc, s.pen / k⟩

noncomputable def Outcome.scale (k : ℝ) : Outcome ℝ → Outcome ℝ
  | .missing => .missing
  | .vacuum => .vacuum
  | .ok s => .ok (Scat.scale k s)

theorem calculateScattering_scale (k n w : ℝ) (b : Cx ℝ) (s : ℝ) (hk : 0 < k) :
    calculateScattering (k * n) w b s = Scat.scale k (calculateScattering n w b s) := by
  unfold calculateScattering Scat.scale
  simp only [abs_def, sqrt_def, lit, Scat.mk.injEq]
  have h1 : |(10:ℕ) * (k * n) * b.2| = k * |(10:ℕ) * n * b.2| := by
    rw [show ((10:ℕ):ℝ) * (k * n) * b.2 = k * ((10:ℕ) * n * b.2) by ring, abs_mul, abs_of_pos hk]
  refine ⟨by ring, h1, by ring, by ring, by ring, by ring, ?_⟩
  rw [div_div]; congr 1; ring

/-- **density scaling**: `ρ ↦ kρ` (k > 0) scales every SLD and cross section by `k` and the
    penetration depth by `1/k` -/
theorem scale_density (t : Tbl ℝ) (atoms : List (Atom × ℝ)) (ρ w k : ℝ) (hk : 0 < k) :
    neutronScattering t atoms (k * ρ) w = Outcome.scale k (neutronScattering t atoms ρ w) := by
  by_cases hd : AllData t atoms
  · rw [neutronScattering_allData t atoms _ w hd, neutronScattering_allData t atoms _ w hd]
    set a := accSums t w Acc.zero atoms
    unfold finish
    by_cases hz : a.molarMass * ρ = 0
    · have hz' : a.molarMass * (k * ρ) = 0 := by rw [← mul_assoc, mul_comm a.molarMass k, mul_assoc, hz, mul_zero]
      simp [hz, hz', Outcome.scale]
    · have hz' : a.molarMass * (k * ρ) ≠ 0 := by
        rw [← mul_assoc, mul_comm a.molarMass k, mul_assoc]; exact mul_ne_zero hk.ne' hz
      have hm : a.molarMass ≠ 0 := left_ne_zero_of_mul hz
      have hρ : ρ ≠ 0 := right_ne_zero_of_mul hz
      simp only [beq_iff_eq, hz, hz', if_false, Outcome.scale, Outcome.ok.injEq]
      rw [← calculateScattering_scale k _ w _ _ hk]
      congr 1
      unfold cellVolume
      have := avogadro_pos.ne'
      simp only [lit]; push_cast
      field_simp
  · rw [neutronScattering_missing t atoms _ w hd, neutronScattering_missing t atoms _ w hd]; rfl

/-- all counts multiplied by `c` -/
def scaleCounts (c : ℝ) (atoms : List (Atom × ℝ)) : List (Atom × ℝ) :=
  atoms.map fun e => (e.1, c * e.2)

theorem allData_scaleCounts (t : Tbl ℝ) (c : ℝ) (atoms : List (Atom × ℝ)) :
    AllData t (scaleCounts c atoms) ↔ AllData t atoms := by
  unfold AllData scaleCounts
  simp only [List.mem_map, forall_exists_index, and_imp]
  constructor
  · intro h e he; exact h (e.1, c * e.2) e he rfl
  · intro h e x hx hxe; subst hxe; exact h x hx

theorem accSums_scaleCounts (t : Tbl ℝ) (w c : ℝ) (atoms : List (Atom × ℝ)) :
    accSums t w Acc.zero (scaleCounts c atoms) =
      ⟨c * (accSums t w Acc.zero atoms).molarMass, c * (accSums t w Acc.zero atoms).numAtoms,
       (c * (accSums t w Acc.zero atoms).bc.1, c * (accSums t w Acc.zero atoms).bc.2),
       c * (accSums t w Acc.zero atoms).sigS⟩ := by
  simp only [accSums, Acc.zero, scaleCounts, List.map_map, zero_add, Acc.mk.injEq, Prod.mk.injEq]
  refine ⟨?_, ?_, ⟨?_, ?_⟩, ?_⟩ <;>
  · rw [← List.sum_map_mul_left]; congr 1
    try (apply List.map_congr_left; intro e _; simp only [Function.comp]; try ring)

/-- **cell size**: multiplying every count by `c ≠ 0` changes nothing (`Σ n ≠ 0` is stated so
    that the claim does not rest on `x/0 = 0`) -/
theorem scale_counts (t : Tbl ℝ) (atoms : List (Atom × ℝ)) (ρ w c : ℝ) (hc : c ≠ 0)
    (_hn : Spec.count atoms ≠ 0) :
    neutronScattering t (scaleCounts c atoms) ρ w = neutronScattering t atoms ρ w := by
  by_cases hd : AllData t atoms
  · rw [neutronScattering_allData t _ _ w ((allData_scaleCounts t c atoms).mpr hd),
      neutronScattering_allData t atoms _ w hd, accSums_scaleCounts]
    set a := accSums t w Acc.zero atoms
    unfold finish
    by_cases hz : a.molarMass * ρ = 0
    · have hz' : c * a.molarMass * ρ = 0 := by rw [mul_assoc, hz, mul_zero]
      simp [hz, hz']
    · have hz' : c * a.molarMass * ρ ≠ 0 := by rw [mul_assoc]; exact mul_ne_zero hc hz
      have hm : a.molarMass ≠ 0 := left_ne_zero_of_mul hz
      have hρ : ρ ≠ 0 := right_ne_zero_of_mul hz
      simp only [beq_iff_eq, hz, hz', if_false, Outcome.ok.injEq]
      have hN : c * a.numAtoms / cellVolume (c * a.molarMass) ρ = a.numAtoms / cellVolume a.molarMass ρ := by
        unfold cellVolume
        have := avogadro_pos.ne'
        simp only [lit]; push_cast
        field_simp
      have hb : Cx.divS (c * a.bc.1, c * a.bc.2) (c * a.numAtoms) = Cx.divS a.bc a.numAtoms := by
        unfold Cx.divS
        ext <;> simp only <;> rw [mul_div_mul_left _ _ hc]
      rw [hN, hb, mul_div_mul_left _ _ hc]
  · rw [neutronScattering_missing t _ _ w (fun h => hd ((allData_scaleCounts t c atoms).mp h)),
      neutronScattering_missing t atoms _ w hd]

theorem allData_perm (t : Tbl ℝ) {l₁ l₂ : List (Atom × ℝ)} (h : l₁.Perm l₂) :
    AllData t l₁ ↔ AllData t l₂ := by
  unfold AllData
  constructor
  · intro h1 e he; exact h1 e (h.mem_iff.mpr he)
  · intro h1 e he; exact h1 e (h.mem_iff.mp he)

theorem accSums_perm (t : Tbl ℝ) (w : ℝ) (a : Acc ℝ) {l₁ l₂ : List (Atom × ℝ)} (h : l₁.Perm l₂) :
    accSums t w a l₁ = accSums t w a l₂ := by
  unfold accSums
  rw [(h.map _).sum_eq, (h.map (fun e => e.2)).sum_eq,
    (h.map (fun e => e.2 * (pa t w e.1).1.1)).sum_eq,
    (h.map (fun e => e.2 * (pa t w e.1).1.2)).sum_eq,
    (h.map (fun e => e.2 * (pa t w e.1).2)).sum_eq]

/-- **reordering**: any permutation of the atoms gives the same result -/
theorem perm_invariant (t : Tbl ℝ) {l₁ l₂ : List (Atom × ℝ)} (h : l₁.Perm l₂) (ρ w : ℝ) :
    neutronScattering t l₁ ρ w = neutronScattering t l₂ ρ w := by
  by_cases hd : AllData t l₁
  · rw [neutronScattering_allData t l₁ _ w hd,
      neutronScattering_allData t l₂ _ w ((allData_perm t h).mp hd), accSums_perm t w _ h]
  · rw [neutronScattering_missing t l₁ _ w hd,
      neutronScattering_missing t l₂ _ w (fun h2 => hd ((allData_perm t h).mpr h2))]

/-! ### regrouping: the result depends on the formula only through its atom counts -/

theorem mem_of_lookupD {l : List (Atom × ℝ)} {a : Atom} {n : ℝ}
    (h : lookupD l a = n) (hn : n ≠ 0) : (a, n) ∈ l := by
  induction l with
  | nil => simp [lookupD] at h; exact absurd h.symm hn
  | cons e r ih =>
    obtain ⟨b, y⟩ := e
    simp only [lookupD] at h
    by_cases hb : b = a
    · simp only [hb, if_true] at h; subst h; subst hb; simp
    · simp only [hb, if_false] at h; exact List.mem_cons_of_mem _ (ih h)

theorem lookupD_of_mem {l : List (Atom × ℝ)} (hk : KeysNodup l) {a : Atom} {n : ℝ}
    (h : (a, n) ∈ l) : lookupD l a = n := by
  induction l with
  | nil => simp at h
  | cons e r ih =>
    obtain ⟨b, y⟩ := e
    have hk' : KeysNodup r := by
      unfold KeysNodup at hk ⊢; simp only [List.map_cons, List.nodup_cons] at hk; exact hk.2
    rcases List.mem_cons.mp h with h | h
    · cases h; simp [lookupD]
    · have hne : b ≠ a := by
        intro hba; subst hba
        unfold KeysNodup at hk; simp only [List.map_cons, List.nodup_cons] at hk
        exact hk.1 (List.mem_map_of_mem (f := Prod.fst) h)
      simp only [lookupD, hne, if_false]; exact ih hk' h

theorem nodup_of_keysNodup {l : List (Atom × ℝ)} (hk : KeysNodup l) : l.Nodup :=
  List.Nodup.of_map Prod.fst hk

/-- two atom dicts with the same (non-zero) counts are permutations of each other -/
theorem perm_of_same_counts {l₁ l₂ : List (Atom × ℝ)} (h1 : KeysNodup l₁) (h2 : KeysNodup l₂)
    (hnz1 : ∀ e ∈ l₁, e.2 ≠ 0) (hnz2 : ∀ e ∈ l₂, e.2 ≠ 0)
    (hc : ∀ a, lookupD l₁ a = lookupD l₂ a) : l₁.Perm l₂ := by
  apply (List.perm_ext_iff_of_nodup (nodup_of_keysNodup h1) (nodup_of_keysNodup h2)).mpr
  rintro ⟨a, n⟩
  constructor
  · intro h
    have := lookupD_of_mem h1 h
    exact mem_of_lookupD ((hc a).symm.trans this) (hnz1 _ h)
  · intro h
    have := lookupD_of_mem h2 h
    exact mem_of_lookupD ((hc a).trans this) (hnz2 _ h)

/-- **regrouping**: two formula structures – any nesting, any grouping, any order – in which
    every atom has the same total count give the same result -/
theorem regroup_invariant (t : Tbl ℝ) (s₁ s₂ : Items ℝ) (ρ w : ℝ)
    (hc : ∀ a, s₁.cnt a = s₂.cnt a)
    (hnz1 : ∀ e ∈ s₁.atoms, e.2 ≠ 0) (hnz2 : ∀ e ∈ s₂.atoms, e.2 ≠ 0) :
    neutronScattering t s₁.atoms ρ w = neutronScattering t s₂.atoms ρ w := by
  apply perm_invariant
  apply perm_of_same_counts
  · exact Items.keysNodup_countAcc s₁ (by simp [KeysNodup])
  · exact Items.keysNodup_countAcc s₂ (by simp [KeysNodup])
  · exact hnz1
  · exact hnz2
  · intro a; rw [Items.atoms_lookup, Items.atoms_lookup]; exact hc a

/-! ### vector of wavelengths -/

theorem any_missing_iff (t : Tbl ℝ) (atoms : List (Atom × ℝ)) :
    atoms.any (fun e => (t.neutron e.1).isNone) = true ↔ ¬ AllData t atoms := by
  unfold AllData
  simp only [List.any_eq_true, Option.isNone_iff_eq_none]
  constructor
  · rintro ⟨e, he, hn⟩ h; have := h e he; simp [hn] at this
  · intro h; by_contra hc; apply h; intro e he
    cases hn : t.neutron e.1 with
    | none => exact absurd ⟨e, he, hn⟩ hc
    | some r => rfl

theorem sumsAt_go_allData (t : Tbl ℝ) (w : ℝ) (l : List (Atom × ℝ)) (a : Acc ℝ) (h : AllData t l) :
    l.foldl (sumsStep t w) a = accSums t w a l := by
  induction l generalizing a with
  | nil => simp [accSums]
  | cons e r ih =>
    have he : (t.neutron e.1).isSome = true := h e (by simp)
    obtain ⟨rec, hrec⟩ := Option.isSome_iff_exists.mp he
    have hr : AllData t r := fun x hx => h x (by simp [hx])
    simp only [List.foldl, sumsStep, hrec]
    rw [ih _ hr]
    simp only [accSums, pa, hrec, Cx.add, Cx.smul, List.map_cons, List.sum_cons,
      Acc.mk.injEq, Prod.mk.injEq]
    refine ⟨?_, ?_, ⟨?_, ?_⟩, ?_⟩ <;> ring

theorem sumsAt_allData (t : Tbl ℝ) (w : ℝ) (l : List (Atom × ℝ)) (h : AllData t l) :
    sumsAt t w l = accSums t w Acc.zero l := by
  unfold sumsAt; exact sumsAt_go_allData t w l Acc.zero h

theorem molarMassOf_eq (t : Tbl ℝ) (l : List (Atom × ℝ)) :
    molarMassOf t l = (l.map fun e => t.atomMass e.1 * e.2).sum := by
  unfold molarMassOf
  have : ∀ (s0 : ℝ), l.foldl (fun s e => s + t.atomMass e.1 * e.2) s0
      = s0 + (l.map fun e => t.atomMass e.1 * e.2).sum := by
    induction l with
    | nil => intro s0; simp
    | cons e r ih => intro s0; simp only [List.foldl, List.map_cons, List.sum_cons]; rw [ih]; ring
  rw [this]; simp

/-- **vector of wavelengths**: the `i`-th entry of the vector call is the scalar call at the
    `i`-th wavelength (a missing-data or vacuum result is the same for every entry) -/
theorem vector_is_map (t : Tbl ℝ) (atoms : List (Atom × ℝ)) (ρ : ℝ) (ws : List ℝ) (i : Nat)
    (hi : i < ws.length) :
    (neutronScatteringV t atoms ρ ws).get? i = some (neutronScattering t atoms ρ ws[i]) := by
  unfold neutronScatteringV
  by_cases hd : AllData t atoms
  · have hany : atoms.any (fun e => (t.neutron e.1).isNone) = false := by
      rw [Bool.eq_false_iff]; exact fun h => (any_missing_iff t atoms).mp h hd
    rw [neutronScattering_allData t atoms ρ _ hd]
    have hmm : (accSums t ws[i] Acc.zero atoms).molarMass = molarMassOf t atoms := by
      rw [molarMassOf_eq]; simp [accSums, Acc.zero]
    simp only [hany, Bool.false_eq_true, if_false, finish, hmm]
    by_cases hz : molarMassOf t atoms * ρ = 0
    · simp [hz, OutcomeV.get?]
    · simp only [beq_iff_eq, hz, if_false, OutcomeV.get?, List.getElem?_map,
        List.getElem?_eq_getElem hi, Option.map_some, Option.some.injEq, Outcome.ok.injEq]
      unfold entryAt
      rw [sumsAt_allData t _ atoms hd]
      simp only [hmm]
  · have hany : atoms.any (fun e => (t.neutron e.1).isNone) = true := (any_missing_iff t atoms).mpr hd
    rw [neutronScattering_missing t atoms ρ _ hd]
    simp [hany, OutcomeV.get?]

/-- the vector result has one entry per wavelength -/
theorem vector_length (t : Tbl ℝ) (atoms : List (Atom × ℝ)) (ρ : ℝ) (ws : List ℝ) (l : List (Scat ℝ))
    (h : neutronScatteringV t atoms ρ ws = .ok l) : l.length = ws.length := by
  unfold neutronScatteringV at h
  split at h
  · cases h
  · split at h
    · cases h
    · cases h; simp

/-! ### non-negativity -/

theorem calculateScattering_nonneg (n w : ℝ) (b : Cx ℝ) (s : ℝ) (hn : 0 ≤ n) (hw : 0 ≤ w) :
    let r := calculateScattering n w b s
    0 ≤ r.sldIm ∧ 0 ≤ r.sldInc ∧ 0 ≤ r.coh ∧ 0 ≤ r.abs ∧ 0 ≤ r.inc := by
  simp only [calculateScattering, abs_def, sqrt_def, lit]
  have hc := fourPi100_pos
  have h1 : 0 ≤ cabs b * cabs b := mul_self_nonneg _
  have h2 := maxZero_nonneg (s - fourPi100 * (cabs b * cabs b))
  refine ⟨abs_nonneg _, ?_, ?_, ?_, ?_⟩
  · have := Real.sqrt_nonneg (maxZero (s - fourPi100 * (cabs b * cabs b)) / fourPi100)
    positivity
  · positivity
  · have := abs_nonneg b.2; positivity
  · positivity

theorem calculateScattering_pen_pos (n w : ℝ) (b : Cx ℝ) (s : ℝ) (hn : 0 < n) (hw : 0 ≤ w)
    (hs : 0 < s) : 0 < (calculateScattering n w b s).pen := by
  simp only [calculateScattering, abs_def, lit]
  have := abs_nonneg b.2
  have h1 : 0 ≤ n * ((2000:ℕ) * |b.2| * w) := by positivity
  have h2 : 0 < n * s := mul_pos hn hs
  positivity

/-- every atom's total cross section at this wavelength is positive -/
def TotalPos (t : Tbl ℝ) (w : ℝ) (atoms : List (Atom × ℝ)) : Prop :=
  ∀ e ∈ atoms, 0 < (pa t w e.1).2

/-- **non-negativity**: for a physical input (N > 0, λ > 0) whose atoms have positive total cross
    sections, imaginary and incoherent SLD and the three cross sections are ≥ 0 and the
    penetration depth is > 0.  The guard is stated: the result is an `ok` computed from a
    strictly positive number density and total cross section, not a by-product of `1/0 = 0`. -/
theorem nonneg (t : Tbl ℝ) (atoms : List (Atom × ℝ)) (ρ w : ℝ)
    (hd : AllData t atoms) (h : Physical t atoms ρ w) (hs : TotalPos t w atoms) :
    ∃ s, neutronScattering t atoms ρ w = .ok s ∧
      0 ≤ s.sldIm ∧ 0 ≤ s.sldInc ∧ 0 ≤ s.coh ∧ 0 ≤ s.abs ∧ 0 ≤ s.inc ∧ 0 < s.pen := by
  rw [neutronScattering_allData t atoms ρ w hd]
  have hmm : (accSums t w Acc.zero atoms).molarMass = Spec.molarMass t atoms := by
    simp [accSums, Acc.zero, molarMass_spec]
  have hna : (accSums t w Acc.zero atoms).numAtoms = Spec.count atoms := by
    simp [accSums, Acc.zero, count_spec]
  have hv : Spec.molarMass t atoms * ρ ≠ 0 := mul_ne_zero h.molarMass_pos.ne' h.density.ne'
  simp only [finish, hmm, hna, beq_iff_eq, hv, if_false]
  have hNN : Spec.count atoms / cellVolume (Spec.molarMass t atoms) ρ
      = Spec.numberDensity t atoms ρ := by
    unfold Spec.numberDensity Spec.cellVolume cellVolume
    simp only [lit]; push_cast; ring
  rw [hNN]
  have hN := h.numberDensity_pos
  have hsig : 0 < (accSums t w Acc.zero atoms).sigS / Spec.count atoms := by
    apply div_pos _ h.count_pos
    simp only [accSums, Acc.zero, zero_add]
    exact map_sum_pos _ _ h.nonempty (fun e he => mul_pos (h.counts e he) (hs e he))
  refine ⟨_, rfl, ?_⟩
  obtain ⟨a1, a2, a3, a4, a5⟩ := calculateScattering_nonneg (Spec.numberDensity t atoms ρ) w
    (Cx.divS (accSums t w Acc.zero atoms).bc (Spec.count atoms))
    ((accSums t w Acc.zero atoms).sigS / Spec.count atoms) hN.le h.wavelength.le
  exact ⟨a1, a2, a3, a4, a5,
    calculateScattering_pen_pos _ _ _ _ hN h.wavelength.le hsig⟩

/-! ### regrouping when every atom has data: zero counts are harmless -/

/-- drop the entries with count 0 -/
noncomputable def nonzero (l : List (Atom × ℝ)) : List (Atom × ℝ) :=
  l.filter (fun e => !decide (e.2 = 0))

theorem lookupD_of_not_mem {l : List (Atom × ℝ)} {a : Atom} (h : a ∉ l.map Prod.fst) :
    lookupD l a = 0 := by
  induction l with
  | nil => rfl
  | cons e r ih =>
    obtain ⟨b, y⟩ := e
    simp only [List.map_cons, List.mem_cons, not_or] at h
    have hb : ¬ b = a := fun e => h.1 e.symm
    simp only [lookupD, hb, if_false]
    exact ih h.2

theorem sum_map_nonzero (f : Atom × ℝ → ℝ) (hf : ∀ e, e.2 = 0 → f e = 0) (l : List (Atom × ℝ)) :
    ((nonzero l).map f).sum = (l.map f).sum := by
  unfold nonzero
  induction l with
  | nil => rfl
  | cons e r ih =>
    by_cases he : e.2 = 0
    · simp [List.filter_cons, he, hf e he, ih]
    · simp [List.filter_cons, he, ih]

theorem accSums_nonzero (t : Tbl ℝ) (w : ℝ) (a : Acc ℝ) (l : List (Atom × ℝ)) :
    accSums t w a (nonzero l) = accSums t w a l := by
  unfold accSums
  rw [sum_map_nonzero (fun e => t.atomMass e.1 * e.2) (by intro e he; simp [he]),
    sum_map_nonzero (fun e => e.2) (by intro e he; simp [he]),
    sum_map_nonzero (fun e => e.2 * (pa t w e.1).1.1) (by intro e he; simp [he]),
    sum_map_nonzero (fun e => e.2 * (pa t w e.1).1.2) (by intro e he; simp [he]),
    sum_map_nonzero (fun e => e.2 * (pa t w e.1).2) (by intro e he; simp [he])]

theorem keysNodup_nonzero {l : List (Atom × ℝ)} (h : KeysNodup l) : KeysNodup (nonzero l) := by
  unfold KeysNodup nonzero at *
  exact (List.Sublist.map Prod.fst List.filter_sublist).nodup h

theorem lookupD_nonzero {l : List (Atom × ℝ)} (h : KeysNodup l) (a : Atom) :
    lookupD (nonzero l) a = lookupD l a := by
  induction l with
  | nil => rfl
  | cons e r ih =>
    obtain ⟨b, y⟩ := e
    have hk' : KeysNodup r := by
      unfold KeysNodup at h ⊢; simp only [List.map_cons, List.nodup_cons] at h; exact h.2
    by_cases hy : y = 0
    · have : nonzero ((b, y) :: r) = nonzero r := by simp [nonzero, List.filter_cons, hy]
      rw [this, ih hk']
      simp only [lookupD]
      by_cases hb : b = a
      · subst hb
        have hnot : b ∉ r.map Prod.fst := by
          unfold KeysNodup at h; simp only [List.map_cons, List.nodup_cons] at h; exact h.1
        have h0 : lookupD r b = 0 := lookupD_of_not_mem hnot
        simp [h0, hy]
      · simp [hb]
    · have : nonzero ((b, y) :: r) = (b, y) :: nonzero r := by simp [nonzero, List.filter_cons, hy]
      rw [this]
      simp only [lookupD]
      split
      · rfl
      · exact ih hk'

theorem nonzero_ne (l : List (Atom × ℝ)) : ∀ e ∈ nonzero l, e.2 ≠ 0 := by
  intro e he
  unfold nonzero at he
  simpa using (List.mem_filter.mp he).2

/-- **regrouping, all atoms with data**: two atom dicts with the same counts give the same result,
    whether or not some counts are zero -/
theorem same_counts_invariant (t : Tbl ℝ) {l₁ l₂ : List (Atom × ℝ)} (h1 : KeysNodup l₁)
    (h2 : KeysNodup l₂) (hd1 : AllData t l₁) (hd2 : AllData t l₂)
    (hc : ∀ a, lookupD l₁ a = lookupD l₂ a) (ρ w : ℝ) :
    neutronScattering t l₁ ρ w = neutronScattering t l₂ ρ w := by
  rw [neutronScattering_allData t l₁ ρ w hd1, neutronScattering_allData t l₂ ρ w hd2,
    ← accSums_nonzero t w _ l₁, ← accSums_nonzero t w _ l₂]
  have hp : (nonzero l₁).Perm (nonzero l₂) :=
    perm_of_same_counts (keysNodup_nonzero h1) (keysNodup_nonzero h2) (nonzero_ne l₁) (nonzero_ne l₂)
      (fun a => by rw [lookupD_nonzero h1, lookupD_nonzero h2]; exact hc a)
  rw [accSums_perm t w _ hp]

theorem regroup_invariant_allData (t : Tbl ℝ) (s₁ s₂ : Items ℝ) (ρ w : ℝ)
    (hc : ∀ a, s₁.cnt a = s₂.cnt a) (hd1 : AllData t s₁.atoms) (hd2 : AllData t s₂.atoms) :
    neutronScattering t s₁.atoms ρ w = neutronScattering t s₂.atoms ρ w := by
  apply same_counts_invariant t
    (Items.keysNodup_countAcc s₁ (by simp [KeysNodup])) (Items.keysNodup_countAcc s₂ (by simp [KeysNodup]))
    hd1 hd2
  intro a
  show lookupD s₁.atoms a = lookupD s₂.atoms a
  rw [Items.atoms_lookup, Items.atoms_lookup]; exact hc a

/-- the running sums as C02's count-weighted sums -/
theorem accSums_zero_eq_wsum (t : Tbl ℝ) (w : ℝ) (l : List (Atom × ℝ)) :
    accSums t w Acc.zero l =
      ⟨wsum t.atomMass l, wsum (fun _ => 1) l,
       (wsum (fun a => (pa t w a).1.1) l, wsum (fun a => (pa t w a).1.2) l),
       wsum (fun a => (pa t w a).2) l⟩ := by
  have hb1 : (l.map fun e => e.2 * (pa t w e.1).1.1).sum = (l.map fun e => (pa t w e.1).1.1 * e.2).sum := by
    congr 1; apply List.map_congr_left; intro e _; ring
  have hb2 : (l.map fun e => e.2 * (pa t w e.1).1.2).sum = (l.map fun e => (pa t w e.1).1.2 * e.2).sum := by
    congr 1; apply List.map_congr_left; intro e _; ring
  have hs : (l.map fun e => e.2 * (pa t w e.1).2).sum = (l.map fun e => (pa t w e.1).2 * e.2).sum := by
    congr 1; apply List.map_congr_left; intro e _; ring
  simp only [accSums, Acc.zero, wsum, zero_add, one_mul, hb1, hb2, hs]

end PtProofs.Neutron
