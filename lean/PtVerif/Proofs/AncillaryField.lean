import PtVerif.Proofs.Ancillary
import PtVerif.Proofs.LoadersField
/-!
# Form-factor facts (Mathlib, over ℝ)
-/
set_option linter.unusedSectionVars false
namespace PtLoad

theorem sSq_zero : sSq (0 : ℝ) = 0 := by
  unfold sSq; simp

/-- `<j0>`, `J`: `A e^{-a s²} + B e^{-b s²} + C e^{-c s²} + D` with `s = Q/4π` -/
theorem formfactor0_formula (A a B b C c D q : ℝ) :
    formfactor0 [A, a, B, b, C, c, D] q
      = some (A * Real.exp (-a * (q / (4 * Real.pi)) ^ 2) + B * Real.exp (-b * (q / (4 * Real.pi)) ^ 2)
              + C * Real.exp (-c * (q / (4 * Real.pi)) ^ 2) + D) := by
  have he : ∀ x : ℝ, Transc.exp x = Real.exp x := fun _ => rfl
  have hp : (Transc.pi : ℝ) = Real.pi := rfl
  simp only [formfactor0, sSq, he, hp, Option.some.injEq]
  push_cast
  ring_nf

/-- `<j2>`, `<j4>`, `<j6>`: the same, times `s²` -/
theorem formfactorN_formula (A a B b C c D q : ℝ) :
    formfactorN [A, a, B, b, C, c, D] q
      = some ((q / (4 * Real.pi)) ^ 2 * (A * Real.exp (-a * (q / (4 * Real.pi)) ^ 2)
              + B * Real.exp (-b * (q / (4 * Real.pi)) ^ 2) + C * Real.exp (-c * (q / (4 * Real.pi)) ^ 2) + D)) := by
  have he : ∀ x : ℝ, Transc.exp x = Real.exp x := fun _ => rfl
  have hp : (Transc.pi : ℝ) = Real.pi := rfl
  simp only [formfactorN, sSq, he, hp, Option.some.injEq]
  push_cast
  ring_nf

/-- at Q = 0 a `<j0>` form factor is `A + B + C + D` -/
theorem formfactor0_at_zero (A a B b C c D : ℝ) :
    formfactor0 [A, a, B, b, C, c, D] 0 = some (A + B + C + D) := by
  rw [formfactor0_formula]; simp

/-- at Q = 0 the higher orders vanish -/
theorem formfactorN_at_zero (A a B b C c D : ℝ) :
    formfactorN [A, a, B, b, C, c, D] 0 = some 0 := by
  rw [formfactorN_formula]; simp

/-- the exact-rational value of a decimal, cast to ℝ, is the number the model computes with -/
theorem Dec.toRat_cast (d : Dec) : ((d.toRat : ℚ) : ℝ) = (d.toNum : ℝ) := by
  unfold Dec.toRat Dec.toNum
  push_cast
  rfl

/-- `|A + B + C + D − 1| ≤ 0.005`, checked in exact rationals -/
def j0Ok (vs : List Dec) : Bool :=
  match vs with
  | [A, _, B, _, C, _, D] =>
    let s := A.toRat + B.toRat + C.toRat + D.toRat
    decide (s - 1 ≤ 5 / 1000) && decide (1 - s ≤ 5 / 1000)
  | _ => false

/-- a coefficient set that passes `j0Ok` evaluates to 1 within 0.5 % at Q = 0 -/
theorem j0_at_zero_of_ok (vs : List Dec) (h : j0Ok vs = true) :
    ∃ x : ℝ, formfactor0 (vs.map fun d => (d.toNum : ℝ)) 0 = some x ∧ |x - 1| ≤ 0.005 := by
  unfold j0Ok at h
  split at h
  · rename_i A a B b C c D
    simp only [Bool.and_eq_true, decide_eq_true_eq] at h
    refine ⟨_, by simp only [List.map_cons, List.map_nil]; exact formfactor0_at_zero _ _ _ _ _ _ _, ?_⟩
    have h1 : ((A.toRat + B.toRat + C.toRat + D.toRat - 1 : ℚ) : ℝ) ≤ ((5 / 1000 : ℚ) : ℝ) := by
      exact_mod_cast h.1
    have h2 : ((1 - (A.toRat + B.toRat + C.toRat + D.toRat) : ℚ) : ℝ) ≤ ((5 / 1000 : ℚ) : ℝ) := by
      exact_mod_cast h.2
    push_cast at h1 h2
    rw [Dec.toRat_cast, Dec.toRat_cast, Dec.toRat_cast, Dec.toRat_cast] at h1 h2
    rw [abs_le]
    constructor <;> norm_num at h1 h2 ⊢ <;> linarith
  · cases h

/-- a seven-number set of higher order evaluates to 0 at Q = 0 -/
theorem jn_at_zero (vs : List Dec) (h : vs.length = 7) :
    formfactorN (vs.map fun d => (d.toNum : ℝ)) 0 = some 0 := by
  match vs, h with
  | [A, a, B, b, C, c, D], _ => simp only [List.map_cons, List.map_nil]; exact formfactorN_at_zero _ _ _ _ _ _ _

/-- Cromer-Mann at `sin θ/λ = 0`: `Σ aᵢ + c` -/
theorem cmAtStol_zero (a b : List ℝ) (c : ℝ) (h : a.length ≤ b.length) :
    cmAtStol a b c 0 = a.sum + c := by
  unfold cmAtStol
  induction a generalizing b with
  | nil => simp
  | cons x a ih =>
    cases b with
    | nil => simp at h
    | cons y b =>
      simp only [List.zipWith_cons_cons, List.foldr_cons, List.sum_cons]
      rw [ih b (by simpa using h)]
      show x * Real.exp (-y * (0 * 0)) + _ = _
      simp
      ring

/-- `|Σa + c − (Z − q)| ≤ 0.05`, in exact rationals, for an entry that names an atom or ion -/
def f0Ok (e : CMEntry) (zq : Nat × Option Int) : Bool :=
  match zq.2 with
  | none => true
  | some q =>
    let s : Rat := (e.a.map Dec.toRat).foldl (· + ·) 0 + e.c.toRat
    let n : Rat := ((zq.1 : Int) - q : Int)
    decide (s - n ≤ 5 / 100) && decide (n - s ≤ 5 / 100) && e.a.length == 5 && e.b.length == 5

end PtLoad
