import PtVerif.Proofs.LoadersMass
import Mathlib.Tactic.Ring
import Mathlib.Tactic.FieldSimp
import Mathlib.Tactic.Linarith
import Mathlib.Tactic.Positivity
import Mathlib.Algebra.Order.Field.Basic
import Mathlib.Analysis.SpecialFunctions.Log.Basic
import Mathlib.Analysis.SpecialFunctions.Sqrt
import Mathlib.Analysis.SpecialFunctions.Trigonometric.Basic
/-!
# Field-level facts of the loaders (Mathlib)

Normalised abundances sum to 100, positivity of decimal readings, the density identities.
-/
set_option linter.unusedSectionVars false
namespace PtLoad

noncomputable instance : Transc ℝ :=
  ⟨Real.exp, Real.log, Real.sqrt, Real.cos, Real.pi, fun x => |x|⟩

section field
variable {α : Type} [Field α]

theorem abTotal_eq_sum (value : List (Nat × (α × α))) :
    abTotal value = (value.map fun p => p.2.1).sum := by
  unfold abTotal
  have : ∀ (l : List (Nat × (α × α))) (s : α),
      l.foldl (fun s p => s + p.2.1) s = s + (l.map fun p => p.2.1).sum := by
    intro l
    induction l with
    | nil => intro s; simp
    | cons p l ih => intro s; simp [List.foldl_cons, ih, add_assoc]
  rw [this]; simp

theorem sum_map_scaled (l : List (Nat × (α × α))) (c T : α) :
    (l.map fun p => c * p.2.1 / T).sum = c * (l.map fun p => p.2.1).sum / T := by
  induction l with
  | nil => simp
  | cons p l ih => simp only [List.map_cons, List.sum_cons, ih]; ring

/-- the abundances written for one element sum to 100 (whenever the raw sum is not zero –
    otherwise the real code raises ZeroDivisionError) -/
theorem normalised_sum (value : List (Nat × (α × α))) (h : abTotal value ≠ 0) :
    (value.map fun p => ((100 : Nat) : α) * p.2.1 / abTotal value).sum = 100 := by
  rw [sum_map_scaled, ← abTotal_eq_sum]
  field_simp
  norm_num

end field

section ordered
variable {α : Type} [Field α] [LinearOrder α] [IsStrictOrderedRing α]

theorem Dec.toNum_pos (d : Dec) (h : 0 < d.m) : (0 : α) < d.toNum := by
  unfold Dec.toNum
  apply div_pos
  · exact_mod_cast h
  · exact_mod_cast Nat.pow_pos (n := d.e) (by norm_num : 0 < 10)

/-- a reading whose numbers are positive -/
def Unc.Pos : Unc → Prop
  | .missing => False
  | .plain v => 0 < v.m
  | .valUnc v _ => 0 < v.m
  | .nominal v => 0 < v.m
  | .range lo hi => 0 < lo.m ∧ 0 < hi.m

instance : DecidablePred Unc.Pos := fun u => by
  cases u <;> unfold Unc.Pos <;> infer_instance

theorem Unc.val_pos (u : Unc) (h : u.Pos) : ∃ v : α, u.val = some v ∧ 0 < v := by
  cases u with
  | missing => cases h
  | plain v => exact ⟨_, rfl, Dec.toNum_pos v h⟩
  | valUnc v _ => exact ⟨_, rfl, Dec.toNum_pos v h⟩
  | nominal v => exact ⟨_, rfl, Dec.toNum_pos v h⟩
  | range lo hi =>
    refine ⟨_, rfl, ?_⟩
    have h1 : (0 : α) < lo.toNum := Dec.toNum_pos lo h.1
    have h2 : (0 : α) < hi.toNum := Dec.toNum_pos hi h.2
    have : (0:α) < ((2 : Nat) : α) := by norm_num
    exact div_pos (by linarith) this

end ordered

/-! ## density identities (density.py) -/

section density
variable {α : Type} [Field α] [Transc α]

/-- `n = ρ·N_A/m` -/
theorem number_density_eq (na rho m : α) : numberDensityVal na rho m = rho * na / m := by
  unfold numberDensityVal; ring

/-- an isotope's density is the element density scaled by the mass ratio -/
theorem isotope_density_ratio (rho mi me : α) : isoDensityVal rho mi me = rho * mi / me := by
  unfold isoDensityVal; ring

end density

/-- `n·d³ = 10²⁴` for positive density, mass and Avogadro number -/
theorem n_mul_d_cubed (na rho m : ℝ) (hna : 0 < na) (hrho : 0 < rho) (hm : 0 < m) :
    numberDensityVal na rho m * interatomicDistanceVal na rho m ^ 3 = 10 ^ 24 := by
  unfold numberDensityVal interatomicDistanceVal cbrt
  have hx : 0 < m / (rho * na * (((1 : Nat) : ℝ) / ((10 ^ 24 : Nat) : ℝ))) := by
    apply div_pos hm
    apply mul_pos (mul_pos hrho hna)
    positivity
  show rho / m * na * Real.exp (Real.log (m / (rho * na * (((1 : Nat) : ℝ) / ((10 ^ 24 : Nat) : ℝ)))) / ((3 : Nat) : ℝ)) ^ 3 = 10 ^ 24
  rw [← Real.exp_nat_mul]
  have h3 : ((3 : ℕ) : ℝ) * (Real.log (m / (rho * na * (((1 : Nat) : ℝ) / ((10 ^ 24 : Nat) : ℝ)))) / ((3 : Nat) : ℝ))
      = Real.log (m / (rho * na * (((1 : Nat) : ℝ) / ((10 ^ 24 : Nat) : ℝ)))) := by
    push_cast; ring
  rw [h3, Real.exp_log hx]
  push_cast
  field_simp
  norm_num

end PtLoad

/-! ## `mass.init` runs to completion on well-formed tables -/
namespace PtLoad

section guards
variable {α : Type} [Add α] [Sub α] [Mul α] [Div α] [OfNat α 0] [NatCast α] [IntCast α] [Transc α] [BEq α]

def entryOk : AbLine → Bool
  | .entry _ u => u != .missing
  | .header _ => true

/-- the guard of pass 3 is: no blank entry, and every section passes `flushOk` -/
theorem pass3OkGo_iff (symOf : Nat → Option Nat) (isotopes : List (Nat × Nat)) (z : Nat)
    (value : List (Nat × (α × α))) (ls : List AbLine) :
    pass3OkGo (α := α) symOf isotopes z value ls = true
      ↔ (∀ l ∈ ls, entryOk l = true) ∧ ∀ s ∈ sectionsGo (α := α) z value ls, flushOk symOf isotopes s.1 s.2 = true := by
  induction ls generalizing z value with
  | nil => simp [pass3OkGo, sectionsGo]
  | cons l ls ih =>
    cases l with
    | header z' =>
      simp only [pass3OkGo, sectionsGo, Bool.and_eq_true, ih, List.mem_cons, forall_eq_or_imp, entryOk, true_and]
      constructor
      · rintro ⟨h1, h2, h3⟩; exact ⟨h2, h1, h3⟩
      · rintro ⟨h2, h1, h3⟩; exact ⟨h1, h2, h3⟩
    | entry a u =>
      simp only [pass3OkGo, sectionsGo, Bool.and_eq_true, ih, List.mem_cons, forall_eq_or_imp, entryOk]
      constructor
      · rintro ⟨h1, h2, h3⟩; exact ⟨⟨h1, h2⟩, h3⟩
      · rintro ⟨⟨h1, h2⟩, h3⟩; exact ⟨h1, h2, h3⟩

theorem isotopesAfter_contains (t : MassTables) (k : Nat × Nat) (h : k ∈ t.iso.map isoKey) :
    (isotopesAfter t).contains k = true := by
  unfold isotopesAfter
  have : t.iso.foldl (fun l r => (r.z, r.a) :: l) [(1, 3), (1, 2)]
      = (t.iso.map isoKey).reverse ++ [(1, 3), (1, 2)] := by
    have := foldl_cons_eq (κ := Nat) (β := Nat) (fun r : IsoRow => (r.z, r.a)) t.iso [(1, 3), (1, 2)]
    simpa [isoKey] using this
  rw [this]
  simp only [List.contains_eq_mem, List.mem_cons, List.mem_append, List.mem_reverse, decide_eq_true_eq]
  right; left; exact h

end guards

section ordered
variable {α : Type} [Field α] [LinearOrder α] [IsStrictOrderedRing α] [Transc α]

/-- a section whose readings are positive numbers has a positive sum -/
theorem section_total_pos (entries : List (Nat × Unc)) (hne : entries ≠ []) (hpos : ∀ p ∈ entries, p.2.Pos) :
    (0 : α) < abTotal (entries.map (evalEntry (α := α))) := by
  rw [abTotal_eq_sum]
  apply List.sum_pos
  · intro x hx
    simp only [List.map_map, List.mem_map, Function.comp_apply] at hx
    obtain ⟨p, hp, rfl⟩ := hx
    obtain ⟨v, hv, hv0⟩ := Unc.val_pos (α := α) p.2 (hpos p hp)
    have hun : ∃ d : α, p.2.unc = some d := by
      cases hp2 : p.2 <;> simp [Unc.unc] <;> (rw [hp2] at hv; simp [Unc.val] at hv)
    obtain ⟨d, hd⟩ := hun
    simp [evalEntry, Unc.eval, hv, hd, hv0]
  · simpa using hne

/-- **`mass.init` does not raise** on tables whose rows name elements of the table, whose
    composition entries are positive numbers naming nuclides of the isotope table -/
theorem loadOk_of_wellformed (symOf : Nat → Option Nat) (t : MassTables)
    (h1 : pass1Ok symOf t.iso = true) (h0 : (symOf 0).isSome = true) (h2 : pass2Ok symOf t.el = true)
    (hent : ∀ l ∈ t.ab, entryOk l = true)
    (hsym : ∀ s ∈ sectionsU t.ab, s.1 = 0 ∨ (symOf s.1).isSome = true)
    (hiso : ∀ s ∈ sectionsU t.ab, ∀ p ∈ s.2, (s.1, p.1) ∈ t.iso.map isoKey)
    (hpos : ∀ s ∈ sectionsU t.ab, ∀ p ∈ s.2, p.2.Pos) :
    loadOk (α := α) symOf t = true := by
  unfold loadOk
  simp only [Bool.and_eq_true]
  refine ⟨⟨⟨h1, h0⟩, h2⟩, ?_⟩
  rw [pass3OkGo_iff]
  refine ⟨hent, ?_⟩
  have hs := sections_eq (α := α) t.ab
  unfold sections at hs
  rw [hs]
  intro s hs'
  simp only [List.mem_map] at hs'
  obtain ⟨su, hsu, rfl⟩ := hs'
  unfold flushOk
  simp only [Bool.or_eq_true, beq_iff_eq, Bool.and_eq_true, List.all_eq_true, List.mem_map,
    forall_exists_index, and_imp, forall_apply_eq_imp_iff₂, Bool.not_eq_true']
  rcases hsym su hsu with h | h
  · left; exact h
  · right
    refine ⟨⟨h, ?_⟩, ?_⟩
    · intro p hp
      exact isotopesAfter_contains t _ (hiso su hsu p hp)
    · by_cases hemp : su.2 = []
      · left; simp [hemp]
      · right
        have := section_total_pos (α := α) su.2 hemp (hpos su hsu)
        exact beq_false_of_ne (ne_of_gt this)

end ordered

end PtLoad
