import PtVerif.Proofs.LoadersMass
import Mathlib.Tactic.Ring
import Mathlib.Tactic.FieldSimp
import Mathlib.Tactic.Linarith
import Mathlib.Tactic.Positivity
import Mathlib.Algebra.Order.Field.Basic
import Mathlib.Analysis.SpecialFunctions.Log.Basic
import Mathlib.Analysis.SpecialFunctions.Sqrt
import Mathlib.Analysis.SpecialFunctions.Trigonometric.Basic
/-!
# Field-level facts of the loaders (Mathlib)

Normalised abundances sum to 100, positivity of decimal readings, the density identities.
-/
set_option linter.unusedSectionVars false
namespace PtLoad

noncomputable instance : Transc ℝ :=
  ⟨Real.exp, Real.log, Real.sqrt, Real.cos, Real.pi, fun x => |x|⟩

section field
variable {α : Type} [Field α]

theorem abTotal_eq_sum (value : List (Nat × (α × α))) :
    abTotal value = (value.map fun p => p.2.1).sum := by
  unfold abTotal
  have : ∀ (l : List (Nat × (α × α))) (s : α),
      l.foldl (fun s p => s + p.2.1) s = s + (l.map fun p => p.2.1).sum := by
    intro l
    induction l with
    | nil => intro s; simp
    | cons p l ih => intro s; simp [List.foldl_cons, ih, add_assoc]
  rw [this]; simp

theorem sum_map_scaled (l : List (Nat × (α × α))) (c T : α) :
    (l.map fun p => c * p.2.1 / T).sum = c * (l.map fun p => p.2.1).sum / T := by
  induction l with
  | nil => simp
  | cons p l ih => simp only [List.map_cons, List.sum_cons, ih]; ring

/-- the abundances written for one element sum to 100 (whenever the raw sum is not zero –
    otherwise the real code raises ZeroDivisionError) -/
theorem normalised_sum (value : List (Nat × (α × α))) (h : abTotal value ≠ 0) :
    (value.map fun p => ((100 : Nat) : α) * p.2.1 / abTotal value).sum = 100 := by
  rw [sum_map_scaled, ← abTotal_eq_sum]
  field_simp
  norm_num

end field

section ordered
variable {α : Type} [Field α] [LinearOrder α] [IsStrictOrderedRing α]

theorem Dec.toNum_pos (d : Dec) (h : 0 < d.m) : (0 : α) < d.toNum := by
  unfold Dec.toNum
  apply div_pos
  · exact_mod_cast h
  · exact_mod_cast Nat.pow_pos (n := d.e) (by norm_num : 0 < 10)

/-- a reading whose numbers are positive -/
def Unc.Pos : Unc → Prop
  | .missing => False
  | .plain v => 0 < v.m
  | .valUnc v _ => 0 < v.m
  | .nominal v => 0 < v.m
  | .range lo hi => 0 < lo.m ∧ 0 < hi.m

instance : DecidablePred Unc.Pos := fun u => by
  cases u <;> unfold Unc.Pos <;> infer_instance

theorem Unc.val_pos (u : Unc) (h : u.Pos) : ∃ v : α, u.val = some v ∧ 0 < v := by
  cases u with
  | missing => cases h
  | plain v => exact ⟨_, rfl, Dec.toNum_pos v h⟩
  | valUnc v _ => exact ⟨_, rfl, Dec.toNum_pos v h⟩
  | nominal v => exact ⟨_, rfl, Dec.toNum_pos v h⟩
  | range lo hi =>
    refine ⟨_, rfl, ?_⟩
    have h1 : (0 : α) < lo.toNum := Dec.toNum_pos lo h.1
    have h2 : (0 : α) < hi.toNum := Dec.toNum_pos hi h.2
    have : (0:α) < ((2 : Nat) : α) := by norm_num
    exact div_pos (by linarith) this

end ordered

/-! ## density identities (density.py) -/

section density
variable {α : Type} [Field α] [Transc α]

/-- `n = ρ·N_A/m` -/
theorem number_density_eq (na rho m : α) : numberDensityVal na rho m = rho * na / m := by
  unfold numberDensityVal; ring

/-- an isotope's density is the element density scaled by the mass ratio -/
theorem isotope_density_ratio (rho mi me : α) : isoDensityVal rho mi me = rho * mi / me := by
  unfold isoDensityVal; ring

end density

/-- `n·d³ = 10²⁴` for positive density, mass and Avogadro number -/
theorem n_mul_d_cubed (na rho m : ℝ) (hna : 0 < na) (hrho : 0 < rho) (hm : 0 < m) :
    numberDensityVal na rho m * interatomicDistanceVal na rho m ^ 3 = 10 ^ 24 := by
  unfold numberDensityVal interatomicDistanceVal cbrt
  have hx : 0 < m / (rho * na * (((1 : Nat) : ℝ) / ((10 ^ 24 : Nat) : ℝ))) := by
    apply div_pos hm
    apply mul_pos (mul_pos hrho hna)
    positivity
  show rho / m * na * Real.exp (Real.log (m / (rho * na * (((1 : Nat) : ℝ) / ((10 ^ 24 : Nat) : ℝ)))) / ((3 : Nat) : ℝ)) ^ 3 = 10 ^ 24
  rw [← Real.exp_nat_mul]
  have h3 : ((3 : ℕ) : ℝ) * (Real.log (m / (rho * na * (((1 : Nat) : ℝ) / ((10 ^ 24 : Nat) : ℝ)))) / ((3 : Nat) : ℝ))
      = Real.log (m / (rho * na * (((1 : Nat) : ℝ) / ((10 ^ 24 : Nat) : ℝ)))) := by
    push_cast; ring
  rw [h3, Real.exp_log hx]
  push_cast
  field_simp
  norm_num

end PtLoad
