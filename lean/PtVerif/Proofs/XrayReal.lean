import PtVerif.Proofs.Xray
import Mathlib.Analysis.SpecialFunctions.Trigonometric.Basic
import Mathlib.Analysis.SpecialFunctions.Log.Basic
import Mathlib.Analysis.SpecialFunctions.Exp
import Mathlib.Analysis.Real.Sqrt
import Mathlib.Tactic.Positivity
import Mathlib.Tactic.NormNum

/-! The x-ray model at `ℝ`: mirror reflectivity lies in [0, 1]; f0 is continuous at Q = 0
with limit Σa + c and NaN beyond the fitted range (C05). -/
namespace PtModel.Xray

/-- the real-number interpretation of the non-algebraic operations -/
noncomputable def realTransc : Transc ℝ :=
  ⟨Real.exp, Real.log, Real.sqrt, Real.cos, Real.pi, fun x => |x|⟩

attribute [local instance] realTransc

theorem sinT_eq (x : ℝ) : sinT x = Real.sin x := by
  show Real.cos (x - Real.pi / ((2 : ℕ) : ℝ)) = Real.sin x
  have : ((2 : ℕ) : ℝ) = 2 := by norm_num
  rw [this, Real.cos_sub_pi_div_two]

/-! ## |·|² of complex products, quotients and exponentials (pairs of reals) -/

def cabs2 (z : ℝ × ℝ) : ℝ := z.1 * z.1 + z.2 * z.2

theorem cabs2_nonneg (z : ℝ × ℝ) : 0 ≤ cabs2 z := by
  unfold cabs2; nlinarith [mul_self_nonneg z.1, mul_self_nonneg z.2]

theorem cabs2_cmul (x y : ℝ × ℝ) : cabs2 (cmul x y) = cabs2 x * cabs2 y := by
  unfold cabs2 cmul; ring

theorem cabs2_cexp (w : ℝ × ℝ) : cabs2 (cexp w) = Real.exp w.1 * Real.exp w.1 := by
  unfold cabs2 cexp
  simp only [sinT_eq]
  show Real.exp w.1 * Real.cos w.2 * (Real.exp w.1 * Real.cos w.2)
      + Real.exp w.1 * Real.sin w.2 * (Real.exp w.1 * Real.sin w.2) = _
  have h := Real.cos_sq_add_sin_sq w.2
  nlinarith [h]

theorem cabs2_cdiv (x y : ℝ × ℝ) (hy : cabs2 y ≠ 0) : cabs2 (cdiv x y) = cabs2 x / cabs2 y := by
  unfold cabs2 at hy ⊢
  unfold cdiv
  simp only
  generalize hd : y.1 * y.1 + y.2 * y.2 = d at hy ⊢
  have h1 : (x.1 * y.1 + x.2 * y.2) / d * ((x.1 * y.1 + x.2 * y.2) / d)
      + (x.2 * y.1 - x.1 * y.2) / d * ((x.2 * y.1 - x.1 * y.2) / d)
      = ((x.1 * y.1 + x.2 * y.2) ^ 2 + (x.2 * y.1 - x.1 * y.2) ^ 2) / (d * d) := by
    field_simp
  have h2 : (x.1 * y.1 + x.2 * y.2) ^ 2 + (x.2 * y.1 - x.1 * y.2) ^ 2
      = (x.1 * x.1 + x.2 * x.2) * d := by rw [← hd]; ring
  rw [h1, h2]
  field_simp

/-- the Fresnel amplitude `(ki − kf)/(ki + kf)` has modulus ≤ 1 when `ki ≥ 0` and `re kf ≥ 0` -/
theorem cabs2_fresnel_le_one (ki a b : ℝ) (hki : 0 ≤ ki) (ha : 0 ≤ a) :
    cabs2 (cdiv (ki - a, 0 - b) (ki + a, b)) ≤ 1 := by
  by_cases hy : cabs2 (ki + a, b) = 0
  · have : cdiv (ki - a, 0 - b) (ki + a, b) = (0, 0) := by
      unfold cabs2 at hy
      unfold cdiv
      simp only at hy ⊢
      rw [hy]; simp
    rw [this]; unfold cabs2; norm_num
  · rw [cabs2_cdiv _ _ hy]
    have hpos : 0 < cabs2 (ki + a, b) := lt_of_le_of_ne (cabs2_nonneg _) (Ne.symm hy)
    rw [div_le_one hpos]
    unfold cabs2
    simp only
    nlinarith [mul_nonneg hki ha]

/-! ## mirror reflectivity -/

/-- **thick-mirror reflectivity lies in [0, 1]** for every wavelength > 0, angle in [0°, 180°],
    roughness and index of refraction, under the only hypothesis on the complex square root that
    it is the principal one: `0 ≤ re (csqrt z)` -/
theorem mirrorR_bounds (csqrt : ℝ × ℝ → ℝ × ℝ) (hc : ∀ z, 0 ≤ (csqrt z).1)
    (lam ang rough : ℝ) (n : ℝ × ℝ) (hl : 0 < lam) (h0 : 0 ≤ ang) (h1 : ang ≤ 180) :
    0 ≤ mirrorR csqrt lam ang rough n ∧ mirrorR csqrt lam ang rough n ≤ 1 := by
  unfold mirrorR
  simp only
  -- names for the pieces
  set th : ℝ := ang * (Transc.pi / ((180 : ℕ) : ℝ)) with hth
  set k0 : ℝ := ((2 : ℕ) : ℝ) * Transc.pi / lam with hk0
  set s := csqrt ((cmul n n).1 - Transc.cos th * Transc.cos th, (cmul n n).2) with hs
  have hpi : (Transc.pi : ℝ) = Real.pi := rfl
  have hk0pos : 0 < k0 := by
    rw [hk0, hpi]; have := Real.pi_pos; positivity
  have hsin : 0 ≤ sinT th := by
    rw [sinT_eq]
    apply Real.sin_nonneg_of_nonneg_of_le_pi
    · rw [hth, hpi]; have := Real.pi_pos; positivity
    · rw [hth, hpi]
      have hp := Real.pi_pos
      have : ((180 : ℕ) : ℝ) = 180 := by norm_num
      rw [this]
      calc ang * (Real.pi / 180) ≤ 180 * (Real.pi / 180) := by
            apply mul_le_mul_of_nonneg_right h1; positivity
        _ = Real.pi := by ring
  set ki : ℝ := k0 * sinT th with hki
  have hki0 : 0 ≤ ki := mul_nonneg hk0pos.le hsin
  have ha0 : 0 ≤ k0 * s.1 := mul_nonneg hk0pos.le (hc _)
  set q := cdiv (ki - k0 * s.1, 0 - k0 * s.2) (ki + k0 * s.1, k0 * s.2) with hq
  set w : ℝ × ℝ := ((0 - ((2 : ℕ) : ℝ)) * ki * (k0 * s.1) * (rough * rough),
    (0 - ((2 : ℕ) : ℝ)) * ki * (k0 * s.2) * (rough * rough)) with hw
  set r := cmul q (cexp w) with hr
  have hA : r.1 * r.1 + r.2 * r.2 = cabs2 q * (Real.exp w.1 * Real.exp w.1) := by
    have := cabs2_cmul q (cexp w)
    rw [cabs2_cexp] at this
    exact this
  have hA0 : 0 ≤ r.1 * r.1 + r.2 * r.2 := by nlinarith [mul_self_nonneg r.1, mul_self_nonneg r.2]
  have hsq : Transc.sqrt (r.1 * r.1 + r.2 * r.2) * Transc.sqrt (r.1 * r.1 + r.2 * r.2)
      = r.1 * r.1 + r.2 * r.2 := Real.mul_self_sqrt hA0
  rw [hsq]
  refine ⟨hA0, ?_⟩
  rw [hA]
  have hq1 : cabs2 q ≤ 1 := cabs2_fresnel_le_one ki (k0 * s.1) (k0 * s.2) hki0 ha0
  have hw1 : w.1 ≤ 0 := by
    rw [hw]; simp only
    have h2 : ((2 : ℕ) : ℝ) = 2 := by norm_num
    rw [h2]
    have : 0 ≤ ki * (k0 * s.1) * (rough * rough) :=
      mul_nonneg (mul_nonneg hki0 ha0) (mul_self_nonneg rough)
    nlinarith
  have he : Real.exp w.1 ≤ 1 := Real.exp_le_one_iff.mpr hw1
  have he0 : 0 < Real.exp w.1 := Real.exp_pos _
  have hee : Real.exp w.1 * Real.exp w.1 ≤ 1 := by nlinarith
  calc cabs2 q * (Real.exp w.1 * Real.exp w.1) ≤ 1 * 1 :=
        mul_le_mul hq1 hee (by positivity) (by norm_num)
    _ = 1 := by ring

/-- NaN-aware form: whenever `mirror_reflectivity` returns a number it lies in [0, 1] -/
theorem mirrorReflectivity_bounds (csqrt : ℝ × ℝ → ℝ × ℝ) (hc : ∀ z, 0 ≤ (csqrt z).1)
    (lam ang rough : ℝ) (n : Option (ℝ × ℝ)) (hl : 0 < lam) (h0 : 0 ≤ ang) (h1 : ang ≤ 180)
    (R : ℝ) (h : mirrorReflectivity csqrt lam ang rough n = some R) : 0 ≤ R ∧ R ≤ 1 := by
  unfold mirrorReflectivity at h
  cases n with
  | none => simp at h
  | some nv =>
    simp only [Option.map_some, Option.some.injEq] at h
    rw [← h]
    exact mirrorR_bounds csqrt hc lam ang rough nv hl h0 h1

/-! ## f0 -/

/-- `Σ aᵢ` -/
def sumA (ab : List (ℝ × ℝ)) : ℝ := (ab.map Prod.fst).sum

theorem f0sum_zero (ab : List (ℝ × ℝ)) : f0sum ab 0 = sumA ab := by
  induction ab with
  | nil => simp [f0sum, sumA]
  | cons p r ih =>
    obtain ⟨a, b⟩ := p
    simp only [f0sum, ih, sumA, List.map_cons, List.sum_cons]
    show a * Real.exp (-(b * 0)) + _ = _
    simp

theorem continuous_f0sum (ab : List (ℝ × ℝ)) : Continuous (fun s2 : ℝ => f0sum ab s2) := by
  induction ab with
  | nil => simp only [f0sum]; exact continuous_const
  | cons p r ih =>
    obtain ⟨a, b⟩ := p
    simp only [f0sum]
    apply Continuous.add _ ih
    apply Continuous.mul continuous_const
    show Continuous fun s2 : ℝ => Real.exp (-(b * s2))
    exact Real.continuous_exp.comp ((continuous_const.mul continuous_id).neg)

/-- the value `f0` returns inside the fitted range, as a function of Q -/
noncomputable def f0val (ab : List (ℝ × ℝ)) (c : ℝ) (Q : ℝ) : ℝ :=
  f0sum ab ((Q / (((4 : ℕ) : ℝ) * Transc.pi)) * (Q / (((4 : ℕ) : ℝ) * Transc.pi))) + c

theorem f0_eq (ab : List (ℝ × ℝ)) (c Q : ℝ) :
    f0 ab c Q = if ((6 : ℕ) : ℝ) < Q / (((4 : ℕ) : ℝ) * Transc.pi) then none
      else some (f0val ab c Q) := by
  unfold f0 atstol f0val; rfl

theorem continuous_f0val (ab : List (ℝ × ℝ)) (c : ℝ) : Continuous (f0val ab c) := by
  unfold f0val
  apply Continuous.add _ continuous_const
  apply (continuous_f0sum ab).comp
  exact (continuous_id.div_const _).mul (continuous_id.div_const _)

/-- **f0 tends to Σa + c as Q → 0** -/
theorem f0val_tendsto (ab : List (ℝ × ℝ)) (c : ℝ) :
    Filter.Tendsto (f0val ab c) (nhds 0) (nhds (sumA ab + c)) := by
  have h := (continuous_f0val ab c).tendsto 0
  have h0 : f0val ab c 0 = sumA ab + c := by
    unfold f0val; simp [f0sum_zero]
  rwa [h0] at h

end PtModel.Xray
