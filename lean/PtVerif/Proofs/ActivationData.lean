import PtVerif.Proofs.ActivationChains
import PtVerif.Generated.Constants

/-! Facts about the regenerated `activation.dat` table and the module constants (C14). -/
namespace PtModel.Activation

theorem Dec.toNum_real (d : Dec) : (d.toNum : ℝ) = (d.m : ℝ) * (10:ℝ) ^ d.e := by
  unfold Dec.toNum
  cases h : d.e with
  | ofNat k =>
    simp only
    rw [show (OfScientific.ofScientific d.m false k : ℝ) = ((d.m * 10 ^ k : ℕ) : ℝ) from by
      simp [OfScientific.ofScientific, Rat.ofScientific_false_def]]
    push_cast
    simp
  | negSucc k =>
    simp only
    rw [show (OfScientific.ofScientific d.m true (k+1) : ℝ) = (d.m : ℝ) / (10:ℝ) ^ (k+1) from by
      simp [OfScientific.ofScientific, Rat.ofScientific_true_def, Rat.mkRat_eq_div]]
    rw [Int.negSucc_eq, zpow_neg, div_eq_mul_inv]
    norm_cast

theorem Dec.toNum_nonneg (d : Dec) : 0 ≤ (d.toNum : ℝ) := by
  rw [Dec.toNum_real]; positivity

theorem Dec.toNum_pos (d : Dec) (h : 0 < d.m) : 0 < (d.toNum : ℝ) := by
  rw [Dec.toNum_real]
  have : (0:ℝ) < d.m := by exact_mod_cast h
  positivity

/-- exact equality test of two decimals (both scaled to the smaller exponent) -/
def Dec.same (x y : Dec) : Bool :=
  x.m * 10 ^ (x.e - min x.e y.e).toNat == y.m * 10 ^ (y.e - min x.e y.e).toNat

theorem Dec.toNum_ne (x y : Dec) (h : Dec.same x y = false) : (x.toNum : ℝ) ≠ y.toNum := by
  intro heq
  rw [Dec.toNum_real, Dec.toNum_real] at heq
  simp only [Dec.same, beq_eq_false_iff_ne, ne_eq] at h
  have hle1 := min_le_left x.e y.e
  have hle2 := min_le_right x.e y.e
  generalize min x.e y.e = e0 at *
  obtain ⟨nx, hnx⟩ : ∃ n : ℕ, x.e = (n : ℤ) + e0 := ⟨(x.e - e0).toNat, by omega⟩
  obtain ⟨ny, hny⟩ : ∃ n : ℕ, y.e = (n : ℤ) + e0 := ⟨(y.e - e0).toNat, by omega⟩
  have hx' : (x.e - e0).toNat = nx := by omega
  have hy' : (y.e - e0).toNat = ny := by omega
  rw [hx', hy'] at h
  have h10 : (10:ℝ) ≠ 0 := by norm_num
  rw [hnx, hny, zpow_add₀ h10, zpow_add₀ h10, ← mul_assoc, ← mul_assoc] at heq
  have hpos : (10:ℝ) ^ e0 ≠ 0 := zpow_ne_zero _ h10
  have h2 := mul_right_cancel₀ hpos heq
  simp only [zpow_natCast] at h2
  exact h (by exact_mod_cast h2)

/-- what every row of the table must satisfy for `activity()` to be defined on it: a mass
    number, a positive half-life; for `'b'`/`'2n'` a positive parent half-life; for `'b'` a parent
    half-life different from the daughter's (else `root/(parent_lam - lam)` divides by zero) -/
def rowOk (r : DRow) : Bool :=
  decide (0 < r.a) && decide (0 < r.thalf.m) &&
    (r.reaction == .act ||
      (decide (0 < r.thalfParent.m) && (r.reaction != .b || !Dec.same r.thalfParent r.thalf)))

/-- **data fact, re-checked by the kernel against the current activation.dat on every run** -/
theorem table_rows_ok : PtGen.ActivationDat.table.all rowOk = true := by decide +kernel

theorem table_nonempty : PtGen.ActivationDat.table ≠ [] := by decide +kernel

theorem rowOk_of_mem (r : DRow) (h : r ∈ PtGen.ActivationDat.table) : rowOk r = true :=
  List.all_eq_true.mp table_rows_ok r h

/-! ## constants -/

theorem ln2Arg_eq : PtGen.ActivationDat.ln2Arg = 2 := by decide

theorem barn_eq : PtGen.ActivationDat.barn = ⟨1, -24⟩ := by decide

theorem consts_ln2 : (PtGen.ActivationDat.consts : Consts ℝ).ln2 = Real.log 2 := by
  simp [PtGen.ActivationDat.consts, ln2Arg_eq]

theorem consts_ln2_pos : 0 < (PtGen.ActivationDat.consts : Consts ℝ).ln2 := by
  rw [consts_ln2]; exact Real.log_pos (by norm_num)

theorem consts_uCi_pos : 0 < (PtGen.ActivationDat.consts : Consts ℝ).uCi := by
  unfold PtGen.ActivationDat.consts
  exact Dec.toNum_pos PtGen.ActivationDat.uCi (by decide)

/-- the literal of `root` is Avogadro's number per µCi (3.7·10⁴ decays/s), to 2·10⁻⁴ -/
theorem consts_uCi_is_avogadro_per_microcurie :
    |(PtGen.ActivationDat.consts : Consts ℝ).uCi * 3.7e4 - PtGen.avogadro_number|
      ≤ 2e-4 * PtGen.avogadro_number := by
  unfold PtGen.ActivationDat.consts PtGen.avogadro_number
  simp only [Dec.toNum_real, PtGen.ActivationDat.uCi]
  rw [abs_le]
  constructor <;> norm_num


/-! ## every row of the table, every physical environment -/

/-- the environment part of "physical inputs" -/
structure PhysicalEnv (mass : ℝ) (env : Env ℝ) (T : ℝ) : Prop where
  fluence : 0 ≤ env.fluence
  cd : 0 ≤ env.cdRatio
  fast : 0 ≤ env.fastRatio
  mass : 0 ≤ mass
  exposure : 0 ≤ T

theorem table_row_physical (r : DRow) (hr : r ∈ PtGen.ActivationDat.table) {mass : ℝ} {env : Env ℝ}
    {T : ℝ} (h : PhysicalEnv mass env T) :
    Physical (PtGen.ActivationDat.consts) (r.toRow : Row ℝ) mass env T := by
  have hok := rowOk_of_mem r hr
  simp only [rowOk, Bool.and_eq_true, decide_eq_true_eq] at hok
  exact { ln2 := consts_ln2_pos, uCi := consts_uCi_pos, massNumber := hok.1.1,
          thalf := Dec.toNum_pos _ hok.1.2, xs := Dec.toNum_nonneg _, res := Dec.toNum_nonneg _,
          xsP := Dec.toNum_nonneg _, resP := Dec.toNum_nonneg _, fluence := h.fluence, cd := h.cd,
          fast := h.fast, mass := h.mass, exposure := h.exposure }

/-- for a `'b'` row of the table the two decay constants differ -/
theorem table_b_rates_differ (r : DRow) (hr : r ∈ PtGen.ActivationDat.table) (hb : r.reaction = .b) :
    ratePlam (PtGen.ActivationDat.consts) (r.toRow : Row ℝ)
      - rateLam (PtGen.ActivationDat.consts) (r.toRow : Row ℝ) ≠ 0
    ∧ (r.toRow : Row ℝ).thalfParent ≠ 0 := by
  have hok := rowOk_of_mem r hr
  simp only [rowOk, Bool.and_eq_true, decide_eq_true_eq, hb] at hok
  have hrest := hok.2
  simp only [Bool.or_eq_true, Bool.and_eq_true, decide_eq_true_eq] at hrest
  rcases hrest with h | h
  · exact absurd h (by decide)
  · have hp : 0 < (r.thalfParent.toNum : ℝ) := Dec.toNum_pos _ h.1
    have ht : 0 < (r.thalf.toNum : ℝ) := Dec.toNum_pos _ hok.1.2
    have hsame : Dec.same r.thalfParent r.thalf = false := by
      rcases h.2 with h2 | h2
      · exact absurd h2 (by decide)
      · simpa using h2
    have hne := Dec.toNum_ne _ _ hsame
    refine ⟨?_, ne_of_gt hp⟩
    unfold ratePlam rateLam
    simp only [DRow.toRow]
    have hl := consts_ln2_pos
    intro heq
    apply hne
    have : (PtGen.ActivationDat.consts : Consts ℝ).ln2 / r.thalfParent.toNum
        = (PtGen.ActivationDat.consts : Consts ℝ).ln2 / r.thalf.toNum := by linarith
    rw [div_eq_div_iff (ne_of_gt hp) (ne_of_gt ht)] at this
    exact (mul_left_cancel₀ (ne_of_gt hl) this).symm

/-- **single-capture rows never fail and are never negative, for every physical input** -/
theorem table_act_row (r : DRow) (hr : r ∈ PtGen.ActivationDat.table) (hact : r.reaction = .act)
    {mass : ℝ} {env : Env ℝ} {T : ℝ} (h : PhysicalEnv mass env T) :
    activityRow (PtGen.ActivationDat.consts) (r.toRow : Row ℝ) mass env T = .ok none ∨
    ∃ v, activityRow (PtGen.ActivationDat.consts) (r.toRow : Row ℝ) mass env T = .ok (some v) ∧ 0 ≤ v := by
  by_cases hin : ((r.toRow : Row ℝ).fast = true ∧ env.fastRatio = 0)
  · exact Or.inl (by unfold activityRow; simp [hin.1, hin.2])
  · have hp := table_row_physical r hr h
    obtain ⟨h1, h2⟩ := activityRow_act_ok hp (by simp [DRow.toRow, hact]) hin
    exact Or.inr ⟨_, h1, h2⟩

/-- **`'b'` rows never fail and are never negative, for every physical input** -/
theorem table_b_row (r : DRow) (hr : r ∈ PtGen.ActivationDat.table) (hb : r.reaction = .b)
    {mass : ℝ} {env : Env ℝ} {T : ℝ} (h : PhysicalEnv mass env T) :
    activityRow (PtGen.ActivationDat.consts) (r.toRow : Row ℝ) mass env T = .ok none ∨
    ∃ v, activityRow (PtGen.ActivationDat.consts) (r.toRow : Row ℝ) mass env T = .ok (some v) ∧ 0 ≤ v := by
  by_cases hin : ((r.toRow : Row ℝ).fast = true ∧ env.fastRatio = 0)
  · exact Or.inl (by unfold activityRow; simp [hin.1, hin.2])
  · have hp := table_row_physical r hr h
    obtain ⟨hne, hthp⟩ := table_b_rates_differ r hr hb
    have hlam := hp.rateLam_pos
    have hplam : 0 < ratePlam (PtGen.ActivationDat.consts) (r.toRow : Row ℝ) := by
      unfold ratePlam
      exact div_pos hp.ln2 (lt_of_le_of_ne (by simp only [DRow.toRow]; exact Dec.toNum_nonneg _) (Ne.symm hthp))
    refine Or.inr ⟨_, activityRow_b _ _ mass env T (by simp [DRow.toRow, hb]) hin (ne_of_gt hp.thalf) hthp
      (ne_of_gt hlam) hne, ?_⟩
    exact bActivity_nonneg _ _ _ T (mul_nonneg hp.rateA_nonneg hp.atoms0_nonneg) hplam hlam hne h.exposure


theorem table_not_2n_row_ok (r : DRow) (hr : r ∈ PtGen.ActivationDat.table) (hnot2n : r.reaction ≠ .twoN)
    (mass : ℝ) (env : Env ℝ) (T : ℝ) (h : PhysicalEnv mass env T) :
    ∃ v, activityRow (PtGen.ActivationDat.consts) (r.toRow : Row ℝ) mass env T = .ok v := by
  cases hk : r.reaction with
  | act => rcases table_act_row r hr hk h with h1 | ⟨v, h1, _⟩ <;> exact ⟨_, h1⟩
  | b => rcases table_b_row r hr hk h with h1 | ⟨v, h1, _⟩ <;> exact ⟨_, h1⟩
  | twoN => exact absurd hk hnot2n

theorem activityRow_2n_zeroDivision (c : Consts ℝ) (r : Row ℝ) (mass : ℝ) (env : Env ℝ) (T : ℝ)
    (hr : r.reaction = .twoN) (hin : ¬ (r.fast = true ∧ env.fastRatio = 0)) (hth : r.thalf ≠ 0)
    (hthp : r.thalfParent ≠ 0) (hco : rateA env r = rateLam c r) :
    activityRow c r mass env T = .error .zeroDivision := by
  unfold activityRow
  simp only [not_omitted hin, Bool.false_eq_true, if_false, hr]
  have hth' : (r.thalf == 0) = false := by simpa using hth
  have hthp' : (r.thalfParent == 0) = false := by simpa using hthp
  simp only [hth', hthp', Bool.false_eq_true, if_false, l2_eq, pa_eq]
  have d1 : (twoNDen1 (rateA env r) (rateB env r + ratePlam c r) (c.ln2 / r.thalf) == 0) = true := by
    simp only [beq_iff_eq, twoNDen1]
    have : c.ln2 / r.thalf - rateA env r = 0 := by rw [hco]; unfold rateLam; ring
    rw [this, mul_zero]
  simp only [d1, if_true]

/-- **`'2n'` rows never fail and are never negative for physical inputs at which the three rates
    (target burn-up, loss of the parent, decay of the product) are pairwise different** -/
theorem table_2n_row (r : DRow) (hr : r ∈ PtGen.ActivationDat.table) (h2n : r.reaction = .twoN)
    {mass : ℝ} {env : Env ℝ} {T : ℝ} (h : PhysicalEnv mass env T)
    (h12 : (rateB env (r.toRow : Row ℝ) + ratePlam (PtGen.ActivationDat.consts) (r.toRow : Row ℝ))
      - rateA env (r.toRow : Row ℝ) ≠ 0)
    (h13 : rateLam (PtGen.ActivationDat.consts) (r.toRow : Row ℝ) - rateA env (r.toRow : Row ℝ) ≠ 0)
    (h23 : rateLam (PtGen.ActivationDat.consts) (r.toRow : Row ℝ)
      - (rateB env (r.toRow : Row ℝ) + ratePlam (PtGen.ActivationDat.consts) (r.toRow : Row ℝ)) ≠ 0) :
    activityRow (PtGen.ActivationDat.consts) (r.toRow : Row ℝ) mass env T = .ok none ∨
    ∃ v, activityRow (PtGen.ActivationDat.consts) (r.toRow : Row ℝ) mass env T = .ok (some v) ∧ 0 ≤ v := by
  by_cases hin : ((r.toRow : Row ℝ).fast = true ∧ env.fastRatio = 0)
  · exact Or.inl (by unfold activityRow; simp [hin.1, hin.2])
  · have hp := table_row_physical r hr h
    have hok := rowOk_of_mem r hr
    simp only [rowOk, Bool.and_eq_true, decide_eq_true_eq, h2n] at hok
    have hrest := hok.2
    simp only [Bool.or_eq_true, Bool.and_eq_true, decide_eq_true_eq] at hrest
    have hthp : (r.toRow : Row ℝ).thalfParent ≠ 0 := by
      rcases hrest with h' | h'
      · exact absurd h' (by decide)
      · exact ne_of_gt (by simp only [DRow.toRow]; exact Dec.toNum_pos _ h'.1)
    refine Or.inr ⟨_, activityRow_2n _ _ mass env T (by simp [DRow.toRow, h2n]) hin (ne_of_gt hp.thalf) hthp
      h12 h13 h23, ?_⟩
    refine mul_nonneg hp.rateLam_pos.le (nN3_nonneg _ _ _ _ _ T ?_ h12 h13 h23 h.exposure)
    exact mul_nonneg (mul_nonneg hp.rateA_nonneg hp.atoms0_nonneg) hp.rateB_nonneg

end PtModel.Activation
