import PtVerif.Model.Fasta
import PtVerif.Proofs.Formula
import Mathlib.Tactic.Ring
import Mathlib.Tactic.FieldSimp
import Mathlib.Tactic.Linarith
import Mathlib.Algebra.Order.Field.Basic

/-! Lemmas about the biomolecule model (C18). -/
namespace PtModel
open Items

/-! ## sorting does not change what a dict holds -/
section SortLemmas
variable {α : Type} [CommSemiring α]

theorem wsum_cons (w : Atom → α) (e : Atom × α) (t : List (Atom × α)) :
    wsum w (e :: t) = w e.1 * e.2 + wsum w t := by simp [wsum]

theorem wsum_nil (w : Atom → α) : wsum w ([] : List (Atom × α)) = 0 := by simp [wsum]

theorem wsum_insertBy (w : Atom → α) (le : Atom × α → Atom × α → Bool) (x : Atom × α)
    (t : List (Atom × α)) : wsum w (insertBy le x t) = w x.1 * x.2 + wsum w t := by
  induction t with
  | nil => simp [insertBy, wsum]
  | cons y r ih =>
    unfold insertBy
    split
    · simp [wsum_cons]
    · simp only [wsum_cons, ih]; ring

theorem wsum_sortBy (w : Atom → α) (le : Atom × α → Atom × α → Bool) (t : List (Atom × α)) :
    wsum w (sortBy le t) = wsum w t := by
  induction t with
  | nil => simp [sortBy]
  | cons x r ih => simp only [sortBy, wsum_insertBy, ih, wsum_cons]

/-- a weighted sum over the atoms dict is the count-weighted sum over the parts
    (semiring form of `Items.mass_eq_flat`) -/
theorem total_eq_wsum (t : List (Atom × α)) (b : Atom) :
    total t b = wsum (fun a => if a = b then 1 else 0) t := by
  induction t with
  | nil => simp [wsum]
  | cons e r ih => simp only [total_cons, wsum_cons, ih]; split <;> simp

theorem flatMass_ofList_atoms (w : Atom → α) (l : List (Atom × α)) :
    (Items.ofList (l.map fun e => (e.2, Frag.atom e.1))).flatMass w = wsum w l := by
  induction l with
  | nil => simp [Items.ofList, Items.flatMass, wsum]
  | cons e r ih =>
    simp only [List.map_cons, Items.ofList, Items.flatMass, Frag.flatMass, ih, wsum_cons]

theorem cnt_ofList_atoms (l : List (Atom × α)) (b : Atom) :
    (Items.ofList (l.map fun e => (e.2, Frag.atom e.1))).cnt b = total l b := by
  induction l with
  | nil => simp [Items.ofList, Items.cnt]
  | cons e r ih =>
    simp only [List.map_cons, Items.ofList, Items.cnt, Frag.cnt, ih, total_cons]
    split <;> simp

/-- the Hill-ordered formula of a dict weighs what the dict weighs -/
theorem flatMass_hillS (sym : Nat → Nat → Nat) (w : Atom → α) (t : List (Atom × α)) :
    (hillS sym t).flatMass w = wsum w t := by
  unfold hillS
  rw [flatMass_ofList_atoms, wsum_sortBy]

theorem cnt_hillS (sym : Nat → Nat → Nat) (t : List (Atom × α)) (b : Atom) :
    (hillS sym t).cnt b = total t b := by
  unfold hillS
  rw [cnt_ofList_atoms, total_eq_wsum, wsum_sortBy, ← total_eq_wsum]

/-- `total` of the atoms dict is the count over the parts -/
theorem total_atoms (s : Items α) (b : Atom) : total s.atoms b = s.cnt b := by
  unfold Items.atoms; rw [Items.total_countAcc]; simp

/-- atoms of the Hill form of a formula are the atoms of the formula -/
theorem lookup_hill_atoms (sym : Nat → Nat → Nat) (s : Items α) (b : Atom) :
    lookupD (hillS sym s.atoms).atoms b = s.cnt b := by
  rw [Items.atoms_lookup, cnt_hillS, total_atoms]

end SortLemmas

namespace Fasta

/-! ## sums over the residues -/
section Sums
variable {α : Type} [CommSemiring α]

theorem foldl_add_eq_sum {β : Type} (f : β → α) (l : List β) (a : α) :
    l.foldl (fun s p => s + f p) a = a + (l.map f).sum := by
  induction l generalizing a with
  | nil => simp
  | cons x r ih => simp only [List.foldl_cons, ih, List.map_cons, List.sum_cons]; ring

theorem sumVol_eq (parts : List (Residue α)) : sumVol parts = (parts.map (·.vol)).sum := by
  unfold sumVol; rw [foldl_add_eq_sum]; simp

theorem sumCharge_eq (parts : List (Residue α)) : sumCharge parts = (parts.map (·.charge)).sum := by
  unfold sumCharge; rw [foldl_add_eq_sum]; simp

/-- counts of the joined structure are the sums of the residues' counts -/
theorem joinStruct_cnt (parts : List (Residue α)) (b : Atom) :
    (joinStruct parts).cnt b = (parts.map (·.struct.cnt b)).sum := by
  induction parts with
  | nil => simp [joinStruct, Items.cnt]
  | cons p r ih => simp only [joinStruct, Items.cnt_append, ih, List.map_cons, List.sum_cons]

end Sums

section SumsRing
variable {α : Type} [CommRing α]

theorem joinStruct_flatMass (w : Atom → α) (parts : List (Residue α)) :
    (joinStruct parts).flatMass w = (parts.map (·.struct.flatMass w)).sum := by
  induction parts with
  | nil => simp [joinStruct, Items.flatMass]
  | cons p r ih => simp only [joinStruct, Items.flatMass_append, ih, List.map_cons, List.sum_cons]

end SumsRing

end Fasta
end PtModel
