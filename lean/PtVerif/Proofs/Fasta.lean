import PtVerif.Model.Fasta
import PtVerif.Proofs.Formula
import Mathlib.Tactic.Ring
import Mathlib.Tactic.FieldSimp
import Mathlib.Tactic.Linarith
import Mathlib.Algebra.Order.Field.Basic

/-! Lemmas about the biomolecule model (C18). -/
namespace PtModel
open Items

/-! ## sorting does not change what a dict holds -/
section SortLemmas
variable {α : Type} [CommSemiring α]

theorem wsum_cons (w : Atom → α) (e : Atom × α) (t : List (Atom × α)) :
    wsum w (e :: t) = w e.1 * e.2 + wsum w t := by simp [wsum]

theorem wsum_nil (w : Atom → α) : wsum w ([] : List (Atom × α)) = 0 := by simp [wsum]

theorem wsum_insertBy (w : Atom → α) (le : Atom × α → Atom × α → Bool) (x : Atom × α)
    (t : List (Atom × α)) : wsum w (insertBy le x t) = w x.1 * x.2 + wsum w t := by
  induction t with
  | nil => simp [insertBy, wsum]
  | cons y r ih =>
    unfold insertBy
    split
    · simp [wsum_cons]
    · simp only [wsum_cons, ih]; ring

theorem wsum_sortBy (w : Atom → α) (le : Atom × α → Atom × α → Bool) (t : List (Atom × α)) :
    wsum w (sortBy le t) = wsum w t := by
  induction t with
  | nil => simp [sortBy]
  | cons x r ih => simp only [sortBy, wsum_insertBy, ih, wsum_cons]

/-- a weighted sum over the atoms dict is the count-weighted sum over the parts
    (semiring form of `Items.mass_eq_flat`) -/
theorem total_eq_wsum (t : List (Atom × α)) (b : Atom) :
    total t b = wsum (fun a => if a = b then 1 else 0) t := by
  induction t with
  | nil => simp [wsum]
  | cons e r ih => simp only [total_cons, wsum_cons, ih]; split <;> simp

theorem flatMass_ofList_atoms (w : Atom → α) (l : List (Atom × α)) :
    (Items.ofList (l.map fun e => (e.2, Frag.atom e.1))).flatMass w = wsum w l := by
  induction l with
  | nil => simp [Items.ofList, Items.flatMass, wsum]
  | cons e r ih =>
    simp only [List.map_cons, Items.ofList, Items.flatMass, Frag.flatMass, ih, wsum_cons]

theorem cnt_ofList_atoms (l : List (Atom × α)) (b : Atom) :
    (Items.ofList (l.map fun e => (e.2, Frag.atom e.1))).cnt b = total l b := by
  induction l with
  | nil => simp [Items.ofList, Items.cnt]
  | cons e r ih =>
    simp only [List.map_cons, Items.ofList, Items.cnt, Frag.cnt, ih, total_cons]
    split <;> simp

/-- the Hill-ordered formula of a dict weighs what the dict weighs -/
theorem flatMass_hillS (sym : Nat → Nat → Nat) (w : Atom → α) (t : List (Atom × α)) :
    (hillS sym t).flatMass w = wsum w t := by
  unfold hillS
  rw [flatMass_ofList_atoms, wsum_sortBy]

theorem cnt_hillS (sym : Nat → Nat → Nat) (t : List (Atom × α)) (b : Atom) :
    (hillS sym t).cnt b = total t b := by
  unfold hillS
  rw [cnt_ofList_atoms, total_eq_wsum, wsum_sortBy, ← total_eq_wsum]

/-- `total` of the atoms dict is the count over the parts -/
theorem total_atoms (s : Items α) (b : Atom) : total s.atoms b = s.cnt b := by
  unfold Items.atoms; rw [Items.total_countAcc]; simp

/-- atoms of the Hill form of a formula are the atoms of the formula -/
theorem lookup_hill_atoms (sym : Nat → Nat → Nat) (s : Items α) (b : Atom) :
    lookupD (hillS sym s.atoms).atoms b = s.cnt b := by
  rw [Items.atoms_lookup, cnt_hillS, total_atoms]

end SortLemmas

namespace Fasta

/-! ## sums over the residues -/
section Sums
variable {α : Type} [CommSemiring α]

theorem foldl_add_eq_sum {β : Type} (f : β → α) (l : List β) (a : α) :
    l.foldl (fun s p => s + f p) a = a + (l.map f).sum := by
  induction l generalizing a with
  | nil => simp
  | cons x r ih => simp only [List.foldl_cons, ih, List.map_cons, List.sum_cons]; ring

theorem sumVol_eq (parts : List (Residue α)) : sumVol parts = (parts.map (·.vol)).sum := by
  unfold sumVol; rw [foldl_add_eq_sum]; simp

theorem sumCharge_eq (parts : List (Residue α)) : sumCharge parts = (parts.map (·.charge)).sum := by
  unfold sumCharge; rw [foldl_add_eq_sum]; simp

/-- counts of the joined structure are the sums of the residues' counts -/
theorem joinStruct_cnt (parts : List (Residue α)) (b : Atom) :
    (joinStruct parts).cnt b = (parts.map (·.struct.cnt b)).sum := by
  induction parts with
  | nil => simp [joinStruct, Items.cnt]
  | cons p r ih => simp only [joinStruct, Items.cnt_append, ih, List.map_cons, List.sum_cons]

end Sums

section SumsRing
variable {α : Type} [CommRing α]

theorem joinStruct_flatMass (w : Atom → α) (parts : List (Residue α)) :
    (joinStruct parts).flatMass w = (parts.map (·.struct.flatMass w)).sum := by
  induction parts with
  | nil => simp [joinStruct, Items.flatMass]
  | cons p r ih => simp only [joinStruct, Items.flatMass_append, ih, List.map_cons, List.sum_cons]

end SumsRing

/-! ## `Formula.replace(H[1], target)` on the atoms dict -/
section Replace
variable {α : Type} [CommRing α]

theorem lookupD_of_not_hasKey (t : List (Atom × α)) (a : Atom) (h : hasKey t a = false) :
    lookupD t a = 0 := by
  induction t with
  | nil => rfl
  | cons e r ih =>
    obtain ⟨k, y⟩ := e
    simp only [hasKey, List.any_cons, Bool.or_eq_false_iff, decide_eq_false_iff_not] at h
    simp only [lookupD, h.1, if_false]
    exact ih (by simpa [hasKey] using h.2)

theorem lookupD_bump_ne (t : List (Atom × α)) (a b : Atom) (x : α) (h : a ≠ b) :
    lookupD (bump t a x) b = lookupD t b := by
  induction t with
  | nil => simp [bump, lookupD, h]
  | cons e r ih =>
    obtain ⟨k, y⟩ := e
    unfold bump
    by_cases hk : k = a
    · subst hk; simp [lookupD, h]
    · simp only [hk, if_false, lookupD, ih]

theorem wsum_eraseKey (w : Atom → α) (t : List (Atom × α)) (a : Atom) (h : KeysNodup t) :
    wsum w (eraseKey t a) + w a * lookupD t a = wsum w t := by
  induction t with
  | nil => simp [eraseKey, wsum, lookupD]
  | cons e r ih =>
    obtain ⟨k, y⟩ := e
    unfold KeysNodup at h
    simp only [List.map_cons, List.nodup_cons] at h
    by_cases hk : k = a
    · subst hk
      have hnot : hasKey r k = false := by
        simp only [hasKey, List.any_eq_false, decide_eq_true_eq]
        intro e he heq
        exact h.1 (List.mem_map.mpr ⟨e, he, heq⟩)
      have her : eraseKey r k = r := by
        unfold eraseKey
        apply List.filter_eq_self.mpr
        intro e he
        simp only [ne_eq, decide_not, Bool.not_eq_eq_eq_not, Bool.not_true, decide_eq_false_iff_not]
        intro heq
        exact h.1 (List.mem_map.mpr ⟨e, he, heq⟩)
      simp only [eraseKey, List.filter_cons, ne_eq, not_true_eq_false, decide_false, lookupD,
        if_true, wsum_cons]
      have her' : List.filter (fun e => decide ¬e.1 = k) r = r := her
      simp only [Bool.false_eq_true, if_false, her']
      ring
    · have := ih h.2
      simp only [eraseKey, List.filter_cons, ne_eq, hk, not_false_eq_true, decide_true, if_true,
        lookupD, if_false, wsum_cons] at this ⊢
      rw [← this]; ring

/-- the substitution `source → target` on atoms -/
def substAtom (src tgt : Atom) (a : Atom) : Atom := if a = src then tgt else a

theorem wsum_subst (w : Atom → α) (t : List (Atom × α)) (src tgt : Atom) (h : KeysNodup t) :
    wsum (fun a => w (substAtom src tgt a)) t = wsum w t + (w tgt - w src) * lookupD t src := by
  induction t with
  | nil => simp [wsum, lookupD]
  | cons e r ih =>
    obtain ⟨k, y⟩ := e
    unfold KeysNodup at h
    simp only [List.map_cons, List.nodup_cons] at h
    have ih' := ih h.2
    by_cases hk : k = src
    · subst hk
      have hnot : hasKey r k = false := by
        simp only [hasKey, List.any_eq_false, decide_eq_true_eq]
        intro e he heq
        exact h.1 (List.mem_map.mpr ⟨e, he, heq⟩)
      have h0 := lookupD_of_not_hasKey r k hnot
      rw [h0] at ih'
      rw [wsum_cons, wsum_cons, ih']
      simp only [lookupD, if_true, substAtom]
      ring
    · rw [wsum_cons, wsum_cons, ih']
      simp only [lookupD, hk, if_false, substAtom]
      ring

/-- mass of the substituted dict -/
theorem wsum_replaceAll (w : Atom → α) (t : List (Atom × α)) (src tgt : Atom) (hne : src ≠ tgt)
    (h : KeysNodup t) :
    wsum w (replaceAll t src tgt) = wsum (fun a => w (substAtom src tgt a)) t := by
  rw [wsum_subst w t src tgt h]
  unfold replaceAll
  by_cases hk : hasKey t src = true
  · simp only [hk, if_true]
    have h1 := wsum_eraseKey w (bump t tgt (lookupD t src * 1)) src (h.bump _ _)
    rw [lookupD_bump_ne t tgt src _ (Ne.symm hne), wsum_bump] at h1
    have : wsum w (eraseKey (bump t tgt (lookupD t src * 1)) src)
        = wsum w t + w tgt * (lookupD t src * 1) - w src * lookupD t src := by
      rw [← h1]; ring
    rw [this]; ring
  · have hk' : hasKey t src = false := by simpa using hk
    simp only [hk', Bool.false_eq_true, if_false, lookupD_of_not_hasKey t src hk']
    ring

theorem wsum_atoms' (w : Atom → α) (s : Items α) : wsum w s.atoms = s.flatMass w := by
  rw [← massOf_eq_wsum, Items.mass_eq_flat]

theorem keysNodup_atoms (s : Items α) : KeysNodup s.atoms :=
  Items.keysNodup_countAcc s (by simp [KeysNodup])

/-- mass of `formula.replace(H[1], target)`: every H[1] weighs what the target weighs -/
theorem mass_substH1 (am : Atom → α) (s : Items α) (tgt : Atom) (hne : atomH1 ≠ tgt) :
    massOf am (substH1 s tgt).atoms = s.flatMass (fun a => am (substAtom atomH1 tgt a)) := by
  unfold substH1
  rw [Items.mass_eq_flat, flatMass_hillS, wsum_replaceAll am _ _ _ hne (keysNodup_atoms s), wsum_atoms']

end Replace

/-! ## table lookups -/
section Lookup
variable {α : Type}

theorem lookupAll_eq (t : Table α) (l : List Char) :
    lookupAll t l = if (∀ c ∈ l, (t.find c).isSome) then some (l.filterMap t.find) else none := by
  induction l with
  | nil => simp [lookupAll]
  | cons c r ih =>
    simp only [lookupAll, ih]
    cases hc : t.find c with
    | none =>
      have hall : ¬ ∀ c' ∈ c :: r, (t.find c').isSome := fun h => by
        have := h c (by simp); simp [hc] at this
      rw [if_neg hall]
    | some x =>
      by_cases hr : ∀ c ∈ r, (t.find c).isSome
      · have hall : ∀ c' ∈ c :: r, (t.find c').isSome := by
          intro c' hc'
          rcases List.mem_cons.mp hc' with rfl | h
          · simp [hc]
          · exact hr _ h
        rw [if_pos hr, if_pos hall]
        simp [List.filterMap_cons, hc]
      · have hall : ¬ ∀ c' ∈ c :: r, (t.find c').isSome :=
          fun h => hr (fun c' hc' => h c' (List.mem_cons_of_mem _ hc'))
        rw [if_neg hr, if_neg hall]

/-- a permutation of the codes is looked up to a permutation of the residues -/
theorem lookupAll_perm (t : Table α) (l l' : List Char) (ps : List (Residue α))
    (h : lookupAll t l = some ps) (hp : l.Perm l') :
    ∃ ps', lookupAll t l' = some ps' ∧ ps.Perm ps' := by
  rw [lookupAll_eq] at h
  by_cases hall : ∀ c ∈ l, (t.find c).isSome
  · rw [if_pos hall] at h
    have h := Option.some.inj h
    have hall' : ∀ c ∈ l', (t.find c).isSome := fun c hc => hall c (hp.mem_iff.mpr hc)
    refine ⟨l'.filterMap t.find, ?_, ?_⟩
    · rw [lookupAll_eq, if_pos hall']
    · rw [← h]; exact hp.filterMap _
  · rw [if_neg hall] at h; cases h

theorem Table.find_insert_self (t : Table α) (c : Char) (r : Residue α) :
    (t.insert c r).find c = some r := by
  induction t with
  | nil => simp [Table.insert, Table.find]
  | cons e rest ih =>
    obtain ⟨k, x⟩ := e
    unfold Table.insert
    by_cases hk : k = c
    · simp [hk, Table.find]
    · simp [hk, Table.find, ih]

theorem Table.find_insert_ne (t : Table α) (c d : Char) (r : Residue α) (h : c ≠ d) :
    (t.insert c r).find d = t.find d := by
  induction t with
  | nil => simp [Table.insert, Table.find, h]
  | cons e rest ih =>
    obtain ⟨k, x⟩ := e
    unfold Table.insert
    by_cases hk : k = c
    · rw [if_pos hk]
      have hkd : k ≠ d := hk ▸ h
      simp [Table.find, hkd]
    · rw [if_neg hk]
      by_cases hd : k = d
      · simp [Table.find, hd]
      · simp [Table.find, hd, ih]

end Lookup

/-! ## `*`, blanks -/
section Clean

theorem tw_all (p : Char → Bool) (s : List Char) (h : ∀ c ∈ s, p c = true) : s.takeWhile p = s := by
  induction s with
  | nil => rfl
  | cons c r ih =>
    rw [List.takeWhile_cons, h c (by simp)]
    simp only [if_true]
    rw [ih (fun x hx => h x (List.mem_cons_of_mem _ hx))]

theorem tw_append_stop (p : Char → Bool) (s t : List Char) (x : Char)
    (h : ∀ c ∈ s, p c = true) (hx : p x = false) : (s ++ x :: t).takeWhile p = s := by
  induction s with
  | nil => simp [List.takeWhile_cons, hx]
  | cons c r ih =>
    rw [List.cons_append, List.takeWhile_cons, h c (by simp)]
    simp only [if_true]
    rw [ih (fun y hy => h y (List.mem_cons_of_mem _ hy))]

theorem filter_takeWhile_comm (p q : Char → Bool) (hpq : ∀ c, p c = false → q c = true)
    (s : List Char) : (s.takeWhile p).filter q = (s.filter q).takeWhile p := by
  induction s with
  | nil => rfl
  | cons c r ih =>
    cases hp : p c with
    | false =>
      have hq := hpq c hp
      rw [List.takeWhile_cons, hp, List.filter_cons, hq]
      simp only [Bool.false_eq_true, if_false, if_true, List.filter_nil]
      rw [List.takeWhile_cons, hp]
      simp
    | true =>
      cases hq : q c with
      | false =>
        rw [List.takeWhile_cons, hp, List.filter_cons, hq]
        simp only [if_true, Bool.false_eq_true, if_false]
        rw [List.filter_cons, hq]
        simp only [Bool.false_eq_true, if_false]
        exact ih
      | true =>
        rw [List.takeWhile_cons, hp, List.filter_cons, hq]
        simp only [if_true]
        rw [List.filter_cons, hq, List.takeWhile_cons, hp]
        simp only [if_true]
        rw [ih]

theorem mem_tw (p : Char → Bool) (s : List Char) (c : Char) (h : c ∈ s.takeWhile p) : p c = true := by
  induction s with
  | nil => simp at h
  | cons x r ih =>
    rw [List.takeWhile_cons] at h
    cases hp : p x with
    | false => simp [hp] at h
    | true =>
      simp only [hp, if_true] at h
      rcases List.mem_cons.mp h with rfl | h
      · exact hp
      · exact ih h

def notStar (c : Char) : Bool := decide (c ≠ '*')
def notBlank (c : Char) : Bool := decide (c ≠ ' ')

theorem clean_def (s : List Char) : clean s = (s.takeWhile notStar).filter notBlank := rfl

theorem clean_append_star (s t : List Char) (h : '*' ∉ s) : clean (s ++ '*' :: t) = clean s := by
  have hs : ∀ c ∈ s, notStar c = true := by
    intro c hc; simp only [notStar, decide_eq_true_eq]; intro e; exact h (e ▸ hc)
  rw [clean_def, clean_def, tw_append_stop notStar s t '*' hs (by simp [notStar]), tw_all notStar s hs]

/-- blanks can be removed before or after cutting at `*` -/
theorem clean_eq_takeWhile_filter (s : List Char) :
    clean s = (s.filter notBlank).takeWhile notStar := by
  rw [clean_def]
  apply filter_takeWhile_comm
  intro c hc
  simp only [notStar, decide_eq_false_iff_not, not_not] at hc
  subst hc
  simp [notBlank]

/-- the sequence read depends on the string only through its non-blank characters -/
theorem clean_blank_invariant (s s' : List Char)
    (h : s.filter notBlank = s'.filter notBlank) : clean s = clean s' := by
  rw [clean_eq_takeWhile_filter, clean_eq_takeWhile_filter, h]

theorem clean_perm (s s' : List Char) (h : '*' ∉ s) (hp : s.Perm s') :
    (clean s).Perm (clean s') := by
  have h' : '*' ∉ s' := fun e => h (hp.mem_iff.mpr e)
  have hs : ∀ c ∈ s, notStar c = true := by
    intro c hc; simp only [notStar, decide_eq_true_eq]; intro e; exact h (e ▸ hc)
  have hs' : ∀ c ∈ s', notStar c = true := by
    intro c hc; simp only [notStar, decide_eq_true_eq]; intro e; exact h' (e ▸ hc)
  rw [clean_def, clean_def, tw_all notStar s hs, tw_all notStar s' hs']
  exact hp.filter _

end Clean

/-! ## prefix dispatch -/
section Dispatch

theorem splitColon_append (p r : List Char) (h : ':' ∉ p) :
    splitColon (p ++ ':' :: r) = some (p, r) := by
  induction p with
  | nil => simp [splitColon]
  | cons c rest ih =>
    have hc : c ≠ ':' := fun e => h (by simp [e])
    have hr : ':' ∉ rest := fun e => h (List.mem_cons_of_mem _ e)
    simp [splitColon, hc, ih hr]

theorem splitColon_some (s p r : List Char) (h : splitColon s = some (p, r)) :
    s = p ++ ':' :: r ∧ ':' ∉ p := by
  induction s generalizing p with
  | nil => simp [splitColon] at h
  | cons c rest ih =>
    simp only [splitColon] at h
    by_cases hc : c = ':'
    · simp only [hc, if_true, Option.some.injEq, Prod.mk.injEq] at h
      obtain ⟨rfl, rfl⟩ := h
      simp [hc]
    · simp only [hc, if_false] at h
      cases hs : splitColon rest with
      | none => simp [hs] at h
      | some pq =>
        obtain ⟨p', q'⟩ := pq
        simp only [hs, Option.some.injEq, Prod.mk.injEq] at h
        obtain ⟨rfl, rfl⟩ := h
        obtain ⟨e1, e2⟩ := ih p' hs
        refine ⟨by rw [e1]; rfl, ?_⟩
        intro hm
        rcases List.mem_cons.mp hm with e | e
        · exact hc e.symm
        · exact e2 e

end Dispatch

/-! ## `read_fasta` -/
section Read

/-- a line is a header when, stripped, it starts with `>` -/
def headerLine (l : List Char) : Bool := isHeader (rstrip l)

theorem foldl_step_body (st : RState) (ls : List (List Char))
    (h : ∀ l ∈ ls, headerLine l = false) :
    ls.foldl step st = { st with seq := st.seq ++ ls.map rstrip } := by
  induction ls generalizing st with
  | nil => simp
  | cons l r ih =>
    have hl : isHeader (rstrip l) = false := h l (by simp)
    simp only [List.foldl_cons]
    rw [ih _ (fun x hx => h x (List.mem_cons_of_mem _ hx))]
    simp [step, hl, List.append_assoc]

/-- header line followed by its body lines -/
def render (blocks : List (List Char × List (List Char))) : List (List Char) :=
  blocks.flatMap fun b => b.1 :: b.2

/-- the record a block stands for -/
def recordOf (b : List Char × List (List Char)) : List Char × List Char :=
  (rstrip b.1, (b.2.map rstrip).flatten)

theorem foldl_step_blocks (st : RState) (blocks : List (List Char × List (List Char)))
    (hh : ∀ b ∈ blocks, headerLine b.1 = true)
    (hb : ∀ b ∈ blocks, ∀ l ∈ b.2, headerLine l = false) :
    ((render blocks).foldl step st).flush = st.flush ++ blocks.map recordOf := by
  induction blocks generalizing st with
  | nil => simp [render]
  | cons b bs ih =>
    have hhead : isHeader (rstrip b.1) = true := hh b (by simp)
    have hbody := hb b (by simp)
    simp only [render, List.flatMap_cons, List.cons_append, List.foldl_cons, List.foldl_append]
    have hstep : step st b.1 = ⟨some (rstrip b.1), [], st.flush⟩ := by simp [step, hhead]
    rw [hstep, foldl_step_body _ b.2 hbody]
    have := ih { name := some (rstrip b.1), seq := [] ++ b.2.map rstrip, out := st.flush }
      (fun x hx => hh x (List.mem_cons_of_mem _ hx)) (fun x hx => hb x (List.mem_cons_of_mem _ hx))
    simp only [render] at this
    rw [this]
    simp [RState.flush, recordOf]

/-- **one record per header, sequence = concatenation of the following lines**; text before
    the first header is dropped -/
theorem readFasta_blocks (pre : List (List Char)) (blocks : List (List Char × List (List Char)))
    (hpre : ∀ l ∈ pre, headerLine l = false)
    (hh : ∀ b ∈ blocks, headerLine b.1 = true)
    (hb : ∀ b ∈ blocks, ∀ l ∈ b.2, headerLine l = false) :
    readFasta (pre ++ render blocks) = blocks.map recordOf := by
  unfold readFasta
  rw [List.foldl_append, foldl_step_body _ pre hpre, foldl_step_blocks _ blocks hh hb]
  simp [RState.flush, RState.init]

/-- every list of lines is of that shape -/
theorem lines_decompose (ls : List (List Char)) :
    ∃ pre blocks, ls = pre ++ render blocks ∧ (∀ l ∈ pre, headerLine l = false) ∧
      (∀ b ∈ blocks, headerLine b.1 = true) ∧ (∀ b ∈ blocks, ∀ l ∈ b.2, headerLine l = false) := by
  induction ls with
  | nil => exact ⟨[], [], by simp [render], by simp, by simp, by simp⟩
  | cons l r ih =>
    obtain ⟨pre, blocks, e, h1, h2, h3⟩ := ih
    by_cases hl : headerLine l = true
    · refine ⟨[], (l, pre) :: blocks, ?_, by simp, ?_, ?_⟩
      · simp [render, e]
      · intro b hb
        rcases List.mem_cons.mp hb with rfl | hb
        · exact hl
        · exact h2 b hb
      · intro b hb
        rcases List.mem_cons.mp hb with rfl | hb
        · exact h1
        · exact h3 b hb
    · refine ⟨l :: pre, blocks, by simp [e], ?_, h2, h3⟩
      intro x hx
      rcases List.mem_cons.mp hx with rfl | hx
      · simpa using hl
      · exact h1 x hx

/-- number of records = number of header lines, for every input -/
theorem readFasta_length (ls : List (List Char)) :
    (readFasta ls).length = (ls.filter headerLine).length := by
  obtain ⟨pre, blocks, e, h1, h2, h3⟩ := lines_decompose ls
  rw [e, readFasta_blocks pre blocks h1 h2 h3, List.filter_append]
  have hp : pre.filter headerLine = [] := by
    apply List.filter_eq_nil_iff.mpr
    intro l hl; simp [h1 l hl]
  rw [hp, List.nil_append, List.length_map]
  clear e h1
  induction blocks with
  | nil => simp [render]
  | cons b bs ih =>
    have hb := h2 b (by simp)
    have hbody : b.2.filter headerLine = [] := by
      apply List.filter_eq_nil_iff.mpr
      intro l hl; simp [h3 b (by simp) l hl]
    simp only [render, List.flatMap_cons, List.cons_append, List.filter_cons, hb, if_true,
      List.filter_append, hbody, List.nil_append, List.length_cons]
    have := ih (fun x hx => h2 x (List.mem_cons_of_mem _ hx)) (fun x hx => h3 x (List.mem_cons_of_mem _ hx))
    simp only [render] at this
    omega

end Read

/-! ## the fields of a sequence's `Molecule` as sums over its residues -/
section Fields
variable {α : Type} [Field α] [LinearOrder α]

theorem atomH1_ne_H : atomH1 ≠ atomH := by decide
theorem atomH1_ne_D : atomH1 ≠ atomD := by decide

/-- `mass` of any molecule: H[1] weighs as H -/
theorem molecule_mass (am : Atom → α) (s : Items α) (V c : α) :
    (molecule am s V c).mass = s.flatMass (fun a => am (substAtom atomH1 atomH a)) :=
  mass_substH1 am s atomH atomH1_ne_H

/-- `Dmass`: H[1] weighs as D -/
theorem molecule_dmass (am : Atom → α) (s : Items α) (V c : α) :
    (molecule am s V c).dmass = s.flatMass (fun a => am (substAtom atomH1 atomD a)) :=
  mass_substH1 am s atomD atomH1_ne_D

theorem molecule_density (am : Atom → α) (s : Items α) (V c : α) :
    (molecule am s V c).density
      = if 0 < V then e24 * (s.flatMass am / PtGen.avogadro_number) / V else 0 := by
  simp only [molecule, Items.mass_eq_flat]

/-- weighted sum over the Hill-ordered joined structure = sum over the residues -/
theorem seq_flatMass (w : Atom → α) (parts : List (Residue α)) :
    (hillS symOf (joinStruct parts).atoms).flatMass w = (parts.map (·.struct.flatMass w)).sum := by
  rw [flatMass_hillS, wsum_atoms', joinStruct_flatMass]

/-- atom counts of `natural_formula` (H[1] → H): every atom counted under its substitute -/
theorem natural_counts (am : Atom → α) (s : Items α) (V c : α) (b : Atom) :
    lookupD (molecule am s V c).natural.atoms b
      = s.flatMass (fun a => if substAtom atomH1 atomH a = b then 1 else 0) := by
  simp only [molecule, substH1]
  rw [Items.atoms_lookup, cnt_hillS, total_eq_wsum,
    wsum_replaceAll _ _ _ _ atomH1_ne_H (keysNodup_atoms s), wsum_atoms']

theorem sequence_some (am : Atom → α) (t : Table α) (s : List Char) (m : Mol α)
    (h : sequence am t s = some m) :
    ∃ parts, lookupAll t (clean s) = some parts ∧
      m = molecule am (hillS symOf (joinStruct parts).atoms) (sumVol parts) (sumCharge parts) := by
  unfold sequence at h
  cases hl : lookupAll t (clean s) with
  | none => simp [hl] at h
  | some parts =>
    simp only [hl, Option.some.injEq] at h
    exact ⟨parts, rfl, h.symm⟩

theorem sequence_of_parts (am : Atom → α) (t : Table α) (s : List Char) (parts : List (Residue α))
    (h : lookupAll t (clean s) = some parts) :
    sequence am t s
      = some (molecule am (hillS symOf (joinStruct parts).atoms) (sumVol parts) (sumCharge parts)) := by
  unfold sequence; simp only [h]

end Fields

end Fasta
end PtModel
