import PtVerif.Model.Neutron
import PtVerif.Proofs.Formula
import Mathlib.Analysis.Real.Sqrt
import Mathlib.Analysis.SpecialFunctions.Trigonometric.Basic
import Mathlib.Analysis.SpecialFunctions.Log.Basic
import Mathlib.Tactic.Ring
import Mathlib.Tactic.FieldSimp
import Mathlib.Tactic.Linarith
import Mathlib.Tactic.NormNum
import Mathlib.Tactic.Positivity
/-!
# Proofs about the neutron model at `ℝ` (C03, C04, C16, C17)
-/
namespace PtProofs.Neutron
open PtModel PtModel.Neutron

/-- the real interpretation of the non-algebraic operations of the models -/
noncomputable instance instTranscReal : Transc ℝ :=
  ⟨Real.exp, Real.log, Real.sqrt, Real.cos, Real.pi, fun x => |x|⟩

@[simp] theorem sqrt_def (x : ℝ) : (Transc.sqrt x : ℝ) = Real.sqrt x := rfl
@[simp] theorem pi_def : (Transc.pi : ℝ) = Real.pi := rfl
@[simp] theorem abs_def (x : ℝ) : (Transc.abs x : ℝ) = |x| := rfl

/-! ## generated constants at ℝ -/

theorem avogadro_pos : (0 : ℝ) < PtGen.avogadro_number := by
  unfold PtGen.avogadro_number; positivity

theorem fourPi100_eq : (fourPi100 : ℝ) = 4 * Real.pi / 100 := by
  simp [fourPi100, PtGen.FOUR_PI_100]

theorem fourPi100_pos : (0 : ℝ) < fourPi100 := by
  rw [fourPi100_eq]; have := Real.pi_pos; positivity

theorem lambda0_pos : (0 : ℝ) < PtGen.ABSORPTION_WAVELENGTH := by
  unfold PtGen.ABSORPTION_WAVELENGTH; positivity

theorem cabs_mul_self (b : Cx ℝ) : cabs b * cabs b = b.1 * b.1 + b.2 * b.2 := by
  unfold cabs
  exact Real.mul_self_sqrt (add_nonneg (mul_self_nonneg _) (mul_self_nonneg _))

theorem cabs_nonneg (b : Cx ℝ) : 0 ≤ cabs b := Real.sqrt_nonneg _

/-! ## sums -/

theorem spec_sum_eq (l : List ℝ) : Spec.sum l = l.sum := by
  induction l with
  | nil => rfl
  | cons x r ih => simp [Spec.sum, ih]

/-- the per-atom values of the code -/
noncomputable def pa (t : Tbl ℝ) (w : ℝ) (x : Atom) : Cx ℝ × ℝ :=
  match t.neutron x with
  | some r => scatteringByWavelength r w
  | none => ((0, 0), 0)

/-- `scattering_by_wavelength` returns the documented per-atom quantities -/
theorem sbw_eq_spec (r : NRec ℝ) (w : ℝ) : scatteringByWavelength r w = Spec.atom r w := by
  unfold scatteringByWavelength Spec.atom
  cases r.table with
  | none =>
    simp only [NRec.bcComplex, Spec.imB, lit]
    have := lambda0_pos
    congr 2
    push_cast
    field_simp
    ring
  | some g =>
    simp only [cabs_mul_self, fourPi100_eq, lit, pi_def]
    congr 1
    push_cast
    ring

theorem pa_eq_spec (t : Tbl ℝ) (w : ℝ) (x : Atom) : pa t w x = Spec.atomOf t w x := by
  unfold pa Spec.atomOf
  cases t.neutron x <;> simp [sbw_eq_spec]

/-- all atoms of the list have a neutron record -/
def AllData (t : Tbl ℝ) (atoms : List (Atom × ℝ)) : Prop :=
  ∀ e ∈ atoms, (t.neutron e.1).isSome = true

/-- the accumulator after the loop, as sums -/
noncomputable def accSums (t : Tbl ℝ) (w : ℝ) (a : Acc ℝ) (l : List (Atom × ℝ)) : Acc ℝ :=
  ⟨a.molarMass + (l.map fun e => t.atomMass e.1 * e.2).sum,
   a.numAtoms + (l.map fun e => e.2).sum,
   (a.bc.1 + (l.map fun e => e.2 * (pa t w e.1).1.1).sum,
    a.bc.2 + (l.map fun e => e.2 * (pa t w e.1).1.2).sum),
   a.sigS + (l.map fun e => e.2 * (pa t w e.1).2).sum⟩

theorem foldl_sumStep_none (t : Tbl ℝ) (w : ℝ) (l : List (Atom × ℝ)) :
    l.foldl (sumStep t w) none = none := by
  induction l with
  | nil => rfl
  | cons e r ih => simpa [List.foldl, sumStep] using ih

theorem foldl_sumStep_allData (t : Tbl ℝ) (w : ℝ) (l : List (Atom × ℝ)) (a : Acc ℝ)
    (h : AllData t l) : l.foldl (sumStep t w) (some a) = some (accSums t w a l) := by
  induction l generalizing a with
  | nil => simp [accSums]
  | cons e r ih =>
    have he : (t.neutron e.1).isSome = true := h e (by simp)
    obtain ⟨rec, hrec⟩ := Option.isSome_iff_exists.mp he
    have hr : AllData t r := fun x hx => h x (by simp [hx])
    simp only [List.foldl, sumStep, hrec]
    rw [ih _ hr]
    simp only [accSums, pa, hrec, Cx.add, Cx.smul, List.map_cons, List.sum_cons, Option.some.injEq,
      Acc.mk.injEq, Prod.mk.injEq]
    refine ⟨?_, ?_, ⟨?_, ?_⟩, ?_⟩ <;> ring

theorem foldl_sumStep_missing (t : Tbl ℝ) (w : ℝ) (l : List (Atom × ℝ)) (a : Option (Acc ℝ))
    (h : ¬ AllData t l) : l.foldl (sumStep t w) a = none := by
  induction l generalizing a with
  | nil => exact absurd (fun e he => by simp at he) h
  | cons e r ih =>
    by_cases he : (t.neutron e.1).isSome = true
    · have hr : ¬ AllData t r := by
        intro hr; apply h; intro x hx
        rcases List.mem_cons.mp hx with rfl | hx
        · exact he
        · exact hr x hx
      simp only [List.foldl]; exact ih _ hr
    · have : t.neutron e.1 = none := by
        cases hn : t.neutron e.1 with
        | none => rfl
        | some v => simp [hn] at he
      simp only [List.foldl]
      have : sumStep t w a e = none := by
        unfold sumStep; cases a <;> simp [this]
      rw [this]; exact foldl_sumStep_none t w r

/-! ## C03: the code's result is the documented one -/

theorem maxZero_eq (x : ℝ) : maxZero x = if x < 0 then 0 else x := by
  unfold maxZero
  by_cases h : 0 < x
  · simp [h, not_lt.mpr h.le]
  · have h' : x ≤ 0 := not_lt.mp h
    rcases h'.lt_or_eq with h'' | h''
    · simp [h, h'']
    · simp [h'']

theorem maxZero_nonneg (x : ℝ) : 0 ≤ maxZero x := by
  unfold maxZero; split <;> linarith

theorem molarMass_spec (t : Tbl ℝ) (atoms : List (Atom × ℝ)) :
    (atoms.map fun e => t.atomMass e.1 * e.2).sum = Spec.molarMass t atoms := by
  unfold Spec.molarMass; rw [spec_sum_eq]; congr 1
  apply List.map_congr_left; intro e _; ring

theorem count_spec (atoms : List (Atom × ℝ)) : (atoms.map fun e => e.2).sum = Spec.count atoms := by
  unfold Spec.count; rw [spec_sum_eq]

/-- the general form: only the signs that `abs` needs are assumed -/
theorem scattering_eq_spec_of_signs (t : Tbl ℝ) (atoms : List (Atom × ℝ)) (ρ w : ℝ)
    (hd : AllData t atoms) (hv : Spec.molarMass t atoms * ρ ≠ 0)
    (hN : 0 ≤ Spec.numberDensity t atoms ρ) (him : Spec.imBc t atoms w ≤ 0) :
    neutronScattering t atoms ρ w = .ok (Spec.scattering t atoms ρ w) := by
  unfold neutronScattering
  rw [foldl_sumStep_allData t w atoms Acc.zero hd]
  have hmm : (accSums t w Acc.zero atoms).molarMass = Spec.molarMass t atoms := by
    simp [accSums, Acc.zero, molarMass_spec]
  have hna : (accSums t w Acc.zero atoms).numAtoms = Spec.count atoms := by
    simp [accSums, Acc.zero, count_spec]
  have hre : (accSums t w Acc.zero atoms).bc.1 / Spec.count atoms = Spec.reB t atoms w := by
    simp [accSums, Acc.zero, Spec.reB, spec_sum_eq, pa_eq_spec]
  have him' : (accSums t w Acc.zero atoms).bc.2 / Spec.count atoms = Spec.imBc t atoms w := by
    simp [accSums, Acc.zero, Spec.imBc, spec_sum_eq, pa_eq_spec]
  have hss : (accSums t w Acc.zero atoms).sigS / Spec.count atoms = Spec.sigmaS t atoms w := by
    simp [accSums, Acc.zero, Spec.sigmaS, spec_sum_eq, pa_eq_spec]
  have hv' : (Spec.molarMass t atoms * ρ == 0) = false := by
    simpa using hv
  simp only [finish, hmm, hna, hv', Bool.false_eq_true, if_false, Outcome.ok.injEq]
  have hNN : Spec.count atoms / cellVolume (Spec.molarMass t atoms) ρ
      = Spec.numberDensity t atoms ρ := by
    unfold Spec.numberDensity Spec.cellVolume cellVolume
    simp only [lit]; push_cast; ring
  unfold calculateScattering Spec.scattering
  simp only [Cx.divS, hre, him', hss, hNN, cabs_mul_self, fourPi100_eq, maxZero_eq, lit,
    abs_def, sqrt_def]
  set N := Spec.numberDensity t atoms ρ with hNdef
  have hsc : 4 * Real.pi / 100 * (Spec.reB t atoms w * Spec.reB t atoms w
      + Spec.imBc t atoms w * Spec.imBc t atoms w) = Spec.sigmaC t atoms w := by
    unfold Spec.sigmaC; simp only [lit, pi_def]; push_cast; ring
  have hsi : (if Spec.sigmaS t atoms w - Spec.sigmaC t atoms w < 0 then 0
      else Spec.sigmaS t atoms w - Spec.sigmaC t atoms w) = Spec.sigmaI t atoms w := by
    unfold Spec.sigmaI; rfl
  have hpi : Real.pi ≠ 0 := Real.pi_ne_zero
  have habs : |Spec.imBc t atoms w| = -Spec.imBc t atoms w := abs_of_nonpos him
  have hsa : 2000 * -Spec.imBc t atoms w * w = Spec.sigmaA t atoms w := by
    unfold Spec.sigmaA; simp only [lit, pi_def]; push_cast
    by_cases hw : w = 0
    · subst hw; simp
    · field_simp; ring
  push_cast
  rw [hsc, hsi, habs, hsa]
  have h1 : |10 * N * Spec.imBc t atoms w| = -(10 * N * Spec.imBc t atoms w) := by
    apply abs_of_nonpos
    have : 0 ≤ 10 * N := by positivity
    exact mul_nonpos_of_nonneg_of_nonpos this him
  have hbi : Real.sqrt (Spec.sigmaI t atoms w / (4 * Real.pi / 100)) = Spec.bI t atoms w := by
    unfold Spec.bI; simp only [lit, sqrt_def, pi_def]; push_cast
    congr 1; field_simp
  rw [h1, hbi]
  congr 1 <;> ring

/-! ### physical inputs -/

theorem map_sum_pos {β : Type} (f : β → ℝ) (l : List β) (hne : l ≠ []) (h : ∀ x ∈ l, 0 < f x) :
    0 < (l.map f).sum := by
  induction l with
  | nil => exact absurd rfl hne
  | cons x r ih =>
    simp only [List.map_cons, List.sum_cons]
    have hx : 0 < f x := h x (by simp)
    by_cases hr : r = []
    · subst hr; simpa using hx
    · have := ih hr (fun y hy => h y (by simp [hy])); linarith

theorem map_sum_nonneg {β : Type} (f : β → ℝ) (l : List β) (h : ∀ x ∈ l, 0 ≤ f x) :
    0 ≤ (l.map f).sum := by
  induction l with
  | nil => simp
  | cons x r ih =>
    simp only [List.map_cons, List.sum_cons]
    have hx : 0 ≤ f x := h x (by simp)
    have := ih (fun y hy => h y (by simp [hy])); linarith

theorem map_sum_nonpos {β : Type} (f : β → ℝ) (l : List β) (h : ∀ x ∈ l, f x ≤ 0) :
    (l.map f).sum ≤ 0 := by
  induction l with
  | nil => simp
  | cons x r ih =>
    simp only [List.map_cons, List.sum_cons]
    have hx : f x ≤ 0 := h x (by simp)
    have := ih (fun y hy => h y (by simp [hy])); linarith

/-- a physical input: a non-empty compound with positive counts and masses, positive density
    and wavelength -/
structure Physical (t : Tbl ℝ) (atoms : List (Atom × ℝ)) (ρ w : ℝ) : Prop where
  nonempty : atoms ≠ []
  counts : ∀ e ∈ atoms, 0 < e.2
  masses : ∀ e ∈ atoms, 0 < t.atomMass e.1
  density : 0 < ρ
  wavelength : 0 < w

/-- every atom's (interpolated) imaginary scattering length is ≤ 0, i.e. its absorption cross
    section is ≥ 0 -/
def ImNonpos (t : Tbl ℝ) (w : ℝ) (atoms : List (Atom × ℝ)) : Prop :=
  ∀ e ∈ atoms, (Spec.atomOf t w e.1).1.2 ≤ 0

theorem Physical.count_pos {t : Tbl ℝ} {atoms : List (Atom × ℝ)} {ρ w : ℝ}
    (h : Physical t atoms ρ w) : 0 < Spec.count atoms := by
  unfold Spec.count; rw [spec_sum_eq]
  exact map_sum_pos _ _ h.nonempty h.counts

theorem Physical.molarMass_pos {t : Tbl ℝ} {atoms : List (Atom × ℝ)} {ρ w : ℝ}
    (h : Physical t atoms ρ w) : 0 < Spec.molarMass t atoms := by
  unfold Spec.molarMass; rw [spec_sum_eq]
  exact map_sum_pos _ _ h.nonempty (fun e he => mul_pos (h.counts e he) (h.masses e he))

theorem Physical.cellVolume_pos {t : Tbl ℝ} {atoms : List (Atom × ℝ)} {ρ w : ℝ}
    (h : Physical t atoms ρ w) : 0 < Spec.cellVolume t atoms ρ := by
  unfold Spec.cellVolume
  have := h.molarMass_pos; have := h.density; have := avogadro_pos
  simp only [lit]; positivity

theorem Physical.numberDensity_pos {t : Tbl ℝ} {atoms : List (Atom × ℝ)} {ρ w : ℝ}
    (h : Physical t atoms ρ w) : 0 < Spec.numberDensity t atoms ρ := by
  unfold Spec.numberDensity
  exact div_pos h.count_pos h.cellVolume_pos

theorem imBc_nonpos {t : Tbl ℝ} {atoms : List (Atom × ℝ)} {ρ w : ℝ}
    (h : Physical t atoms ρ w) (him : ImNonpos t w atoms) : Spec.imBc t atoms w ≤ 0 := by
  unfold Spec.imBc; rw [spec_sum_eq]
  apply div_nonpos_of_nonpos_of_nonneg _ h.count_pos.le
  exact map_sum_nonpos _ _ (fun e he => mul_nonpos_of_nonneg_of_nonpos (h.counts e he).le (him e he))

/-- **C03**: for every physical input whose atoms all have neutron data, `neutron_scattering`
    returns the seven quantities of the documented equations -/
theorem scattering_eq_spec (t : Tbl ℝ) (atoms : List (Atom × ℝ)) (ρ w : ℝ)
    (hd : AllData t atoms) (h : Physical t atoms ρ w) (him : ImNonpos t w atoms) :
    neutronScattering t atoms ρ w = .ok (Spec.scattering t atoms ρ w) :=
  scattering_eq_spec_of_signs t atoms ρ w hd
    (mul_ne_zero h.molarMass_pos.ne' h.density.ne') h.numberDensity_pos.le (imBc_nonpos h him)

/-- a compound with an atom without neutron data gives `(None, None, None)` – and only such -/
theorem missing_iff (t : Tbl ℝ) (atoms : List (Atom × ℝ)) (ρ w : ℝ) :
    neutronScattering t atoms ρ w = .missing ↔ ¬ AllData t atoms := by
  constructor
  · intro h hd
    unfold neutronScattering at h
    rw [foldl_sumStep_allData t w atoms Acc.zero hd] at h
    simp only [finish] at h
    split at h <;> cases h
  · intro h
    unfold neutronScattering
    rw [foldl_sumStep_missing t w atoms _ h]

/-- zero mass or zero density gives the vacuum tuple -/
theorem vacuum_iff (t : Tbl ℝ) (atoms : List (Atom × ℝ)) (ρ w : ℝ) (hd : AllData t atoms) :
    neutronScattering t atoms ρ w = .vacuum ↔ Spec.molarMass t atoms * ρ = 0 := by
  unfold neutronScattering
  rw [foldl_sumStep_allData t w atoms Acc.zero hd]
  have hmm : (accSums t w Acc.zero atoms).molarMass = Spec.molarMass t atoms := by
    simp [accSums, Acc.zero, molarMass_spec]
  simp only [finish, hmm]
  by_cases hz : Spec.molarMass t atoms * ρ = 0
  · simp [hz]
  · simp [hz]

/-! ## `numpy.interp` on a strictly increasing grid -/

/-- the grid is strictly increasing -/
def Increasing (l : List (ℝ × Cx ℝ)) : Prop := (l.map Prod.fst).Pairwise (· < ·)

theorem lerp_left (x0 : ℝ) (y0 : Cx ℝ) (x1 : ℝ) (y1 : Cx ℝ) : lerp x0 y0 x1 y1 x0 = y0 := by
  unfold lerp; ext <;> simp

theorem lerp_right (x0 : ℝ) (y0 : Cx ℝ) (x1 : ℝ) (y1 : Cx ℝ) (h : x0 ≠ x1) :
    lerp x0 y0 x1 y1 x1 = y1 := by
  unfold lerp
  have : x1 - x0 ≠ 0 := sub_ne_zero.mpr (Ne.symm h)
  ext <;> simp <;> field_simp <;> ring

theorem interpGo_lt (x0 : ℝ) (y0 : Cx ℝ) (x1 : ℝ) (y1 : Cx ℝ) (r : List (ℝ × Cx ℝ)) (x : ℝ)
    (h : x < x1) : interpGo x0 y0 ((x1, y1) :: r) x = lerp x0 y0 x1 y1 x := by
  simp only [interpGo, h, if_true]
  by_cases hx : x = x0
  · subst hx; simp [lerp_left]
  · simp [hx]

theorem interpGo_ge (x0 : ℝ) (y0 : Cx ℝ) (x1 : ℝ) (y1 : Cx ℝ) (r : List (ℝ × Cx ℝ)) (x : ℝ)
    (h : x1 ≤ x) : interpGo x0 y0 ((x1, y1) :: r) x = interpGo x1 y1 r x := by
  simp [interpGo, not_lt.mpr h]

/-- all nodes of `l` are `≤ x`: the search runs to the last node -/
theorem interpGo_all_le (x0 : ℝ) (y0 : Cx ℝ) (l : List (ℝ × Cx ℝ)) (x : ℝ)
    (h : ∀ n ∈ l, n.1 ≤ x) :
    interpGo x0 y0 l x = (((x0, y0) :: l).getLast (by simp)).2 := by
  induction l generalizing x0 y0 with
  | nil => simp [interpGo]
  | cons n r ih =>
    obtain ⟨x1, y1⟩ := n
    rw [interpGo_ge _ _ _ _ _ _ (h (x1, y1) (by simp))]
    rw [ih x1 y1 (fun m hm => h m (by simp [hm]))]
    simp [List.getLast_cons]

/-- `pre` lies left of `x`, then come two consecutive nodes with `xj ≤ x < xk` -/
theorem interpGo_between (x0 : ℝ) (y0 : Cx ℝ) (pre post : List (ℝ × Cx ℝ))
    (xj : ℝ) (yj : Cx ℝ) (xk : ℝ) (yk : Cx ℝ) (x : ℝ)
    (hpre : ∀ n ∈ pre, n.1 ≤ x) (hj : xj ≤ x) (hk : x < xk) :
    interpGo x0 y0 (pre ++ (xj, yj) :: (xk, yk) :: post) x = lerp xj yj xk yk x := by
  induction pre generalizing x0 y0 with
  | nil =>
    simp only [List.nil_append]
    rw [interpGo_ge _ _ _ _ _ _ hj, interpGo_lt _ _ _ _ _ _ hk]
  | cons n r ih =>
    obtain ⟨x1, y1⟩ := n
    simp only [List.cons_append]
    rw [interpGo_ge _ _ _ _ _ _ (hpre (x1, y1) (by simp))]
    exact ih x1 y1 (fun m hm => hpre m (by simp [hm]))

/-- left of (or at) the first node: the first value (end clamp) -/
theorem interp_clamp_left (g : Grid ℝ) (hs : Increasing g.toList) (x : ℝ) (h : x ≤ g.first.1) :
    interpClamp g x = g.first.2 := by
  unfold interpClamp
  rcases h.lt_or_eq with h | h
  · simp [h]
  · subst h
    simp only [lt_irrefl, if_false]
    cases hr : g.rest with
    | nil => simp [interpGo]
    | cons n r =>
      obtain ⟨x1, y1⟩ := n
      have : g.first.1 < x1 := by
        have := hs; simp [Increasing, Grid.toList, hr] at this; exact this.1.1
      rw [interpGo_lt _ _ _ _ _ _ this, lerp_left]

/-- right of (or at) the last node: the last value (end clamp) -/
theorem interp_clamp_right (g : Grid ℝ) (hs : Increasing g.toList) (x : ℝ)
    (h : (g.toList.getLast (by simp [Grid.toList])).1 ≤ x) :
    interpClamp g x = (g.toList.getLast (by simp [Grid.toList])).2 := by
  have hall : ∀ n ∈ g.toList, n.1 ≤ x := by
    intro n hn
    by_cases hl : n = g.toList.getLast (by simp [Grid.toList])
    · rw [hl]; exact h
    · -- n comes before the last node, hence is smaller
      have hsplit := List.dropLast_append_getLast (l := g.toList) (by simp [Grid.toList])
      have hmem : n ∈ g.toList.dropLast := by
        have : n ∈ g.toList.dropLast ++ [g.toList.getLast (by simp [Grid.toList])] := by
          rw [hsplit]; exact hn
        rcases List.mem_append.mp this with h1 | h1
        · exact h1
        · simp at h1; exact absurd h1 hl
      have hp : (g.toList.map Prod.fst).Pairwise (· < ·) := hs
      rw [← hsplit, List.map_append, List.pairwise_append] at hp
      have := hp.2.2 n.1 (List.mem_map_of_mem hmem)
        (g.toList.getLast (by simp [Grid.toList])).1 (by simp)
      linarith
  unfold interpClamp
  have h0 : ¬ x < g.first.1 := not_lt.mpr (hall g.first (by simp [Grid.toList]))
  simp only [h0, if_false]
  rw [interpGo_all_le _ _ _ _ (fun n hn => hall n (by simp [Grid.toList, hn]))]
  rfl

/-- between two consecutive nodes: the straight line through them -/
theorem interp_clamp_between (g : Grid ℝ) (hs : Increasing g.toList)
    (pre post : List (ℝ × Cx ℝ)) (xj : ℝ) (yj : Cx ℝ) (xk : ℝ) (yk : Cx ℝ)
    (hg : g.toList = pre ++ (xj, yj) :: (xk, yk) :: post) (x : ℝ) (hj : xj ≤ x) (hk : x < xk) :
    interpClamp g x = (yj.1 + (yk.1 - yj.1) / (xk - xj) * (x - xj),
                       yj.2 + (yk.2 - yj.2) / (xk - xj) * (x - xj)) := by
  have hpre : ∀ n ∈ pre, n.1 ≤ x := by
    intro n hn
    have hp : (g.toList.map Prod.fst).Pairwise (· < ·) := hs
    rw [hg, List.map_append, List.pairwise_append] at hp
    have := hp.2.2 n.1 (List.mem_map_of_mem hn) xj (by simp)
    linarith
  have hl : lerp xj yj xk yk x = (yj.1 + (yk.1 - yj.1) / (xk - xj) * (x - xj),
                       yj.2 + (yk.2 - yj.2) / (xk - xj) * (x - xj)) := by
    unfold lerp; ext <;> simp <;> ring
  rw [← hl]
  unfold interpClamp
  cases pre with
  | nil =>
    simp only [Grid.toList, List.nil_append, List.cons.injEq] at hg
    obtain ⟨h1, h2⟩ := hg
    rw [h1, h2]
    simp only [not_lt.mpr hj, if_false]
    exact interpGo_lt _ _ _ _ _ _ hk
  | cons n r =>
    simp only [Grid.toList, List.cons_append, List.cons.injEq] at hg
    obtain ⟨h1, h2⟩ := hg
    rw [h1, h2]
    have : ¬ x < n.1 := not_lt.mpr (hpre n (by simp))
    simp only [this, if_false]
    exact interpGo_between _ _ _ _ _ _ _ _ _ (fun m hm => hpre m (by simp [hm])) hj hk

/-- at a node: exactly the tabulated value -/
theorem interp_clamp_node (g : Grid ℝ) (hs : Increasing g.toList) (n : ℝ × Cx ℝ)
    (hn : n ∈ g.toList) : interpClamp g n.1 = n.2 := by
  obtain ⟨pre, post, hsplit⟩ := List.append_of_mem hn
  cases post with
  | nil =>
    -- the last node
    have hlast : g.toList.getLast (by simp [Grid.toList]) = n := by
      simp [hsplit]
    have := interp_clamp_right g hs n.1 (by rw [hlast])
    rw [this, hlast]
  | cons m post' =>
    obtain ⟨xk, yk⟩ := m
    obtain ⟨xj, yj⟩ := n
    have hlt : xj < xk := by
      have hp : (g.toList.map Prod.fst).Pairwise (· < ·) := hs
      rw [hsplit, List.map_append, List.pairwise_append] at hp
      have := hp.2.1
      simp only [List.map_cons, List.pairwise_cons] at this
      exact this.1 xk (by simp)
    have := interp_clamp_between g hs pre post' xj yj xk yk hsplit xj le_rfl hlt
    rw [this]; ext <;> simp

/-! ## a bare element / isotope is the one-atom compound at that atom's density -/

theorem atomMass_neutral (t : Tbl ℝ) (x : Atom) (hq : x.q = 0) : t.atomMass x = t.mass x.z x.a := by
  simp [Tbl.atomMass, atomMass, hq]

/-- general form: the compound `[(1, x)]` at any density `ρ` with `ρ/m = ρ_el/m_el` -/
theorem bare_eq_one_atom_compound (t : Tbl ℝ) (x : Atom) (r : NRec ℝ) (ρ ρEl mEl w : ℝ)
    (hq : x.q = 0) (hrec : t.recOf x.z x.a = some r)
    (hnd : r.numberDensity = numberDensityOf ρEl mEl)
    (hm : t.mass x.z x.a ≠ 0) (hρ : ρ ≠ 0)
    (hratio : ρ / t.mass x.z x.a = ρEl / mEl) :
    neutronScattering t [(x, 1)] ρ w = .ok (bareScattering r w) := by
  have hn : t.neutron x = some r := hrec
  have hv : (t.mass x.z x.a * ρ == 0) = false := by simpa using mul_ne_zero hm hρ
  simp only [neutronScattering, List.foldl, sumStep, hn, Acc.zero, finish, atomMass_neutral t x hq,
    zero_add, mul_one, hv, Bool.false_eq_true, if_false, Outcome.ok.injEq, bareScattering]
  have hN : (1 : ℝ) / cellVolume (t.mass x.z x.a) ρ = r.numberDensity / lit (10 ^ 24) := by
    rw [hnd]; unfold cellVolume numberDensityOf
    rw [← hratio]
    have := avogadro_pos.ne'
    simp only [lit]; push_cast
    field_simp
  rw [hN]
  congr 1
  · simp [Cx.divS, Cx.add, Cx.smul]
  · simp

/-- an element queried directly = the compound `[(1, element)]` at the element's density -/
theorem element_eq_one_atom_compound (t : Tbl ℝ) (x : Atom) (r : NRec ℝ) (ρEl w : ℝ)
    (hq : x.q = 0) (hrec : t.recOf x.z x.a = some r)
    (hnd : r.numberDensity = numberDensityOf ρEl (t.mass x.z x.a))
    (hm : t.mass x.z x.a ≠ 0) (hρ : ρEl ≠ 0) :
    neutronScattering t [(x, 1)] ρEl w = .ok (bareScattering r w) :=
  bare_eq_one_atom_compound t x r ρEl ρEl _ w hq hrec hnd hm hρ rfl

/-- an isotope queried directly = the compound `[(1, isotope)]` at the isotope's density
    `ρ_el·(m_iso/m_el)`; its record carries the *element's* number density -/
theorem isotope_eq_one_atom_compound (t : Tbl ℝ) (x : Atom) (r : NRec ℝ) (ρEl mEl w : ℝ)
    (hq : x.q = 0) (hrec : t.recOf x.z x.a = some r)
    (hnd : r.numberDensity = numberDensityOf ρEl mEl)
    (hm : t.mass x.z x.a ≠ 0) (hmEl : mEl ≠ 0) (hρ : ρEl ≠ 0) :
    neutronScattering t [(x, 1)] (isotopeDensity ρEl (t.mass x.z x.a) mEl) w
      = .ok (bareScattering r w) := by
  apply bare_eq_one_atom_compound t x r _ ρEl mEl w hq hrec hnd hm
  · unfold isotopeDensity; exact mul_ne_zero hρ (div_ne_zero hm hmEl)
  · unfold isotopeDensity; field_simp

/-! ## `energy_dependent_init`: the table is wavelength-ordered -/

theorem energyFactor_pos : (0 : ℝ) < PtGen.ENERGY_FACTOR := by
  unfold PtGen.ENERGY_FACTOR PtGen.plancks_constant PtGen.electron_volt PtGen.neutron_mass
    PtGen.atomic_mass_constant
  positivity

/-- a larger energy is a shorter wavelength -/
theorem neutronWavelength_strictAnti (e₁ e₂ : ℝ) (h1 : 0 < e₁) (h : e₁ < e₂) :
    neutronWavelength e₂ < neutronWavelength e₁ := by
  unfold neutronWavelength
  rw [sqrt_def, sqrt_def]
  apply Real.sqrt_lt_sqrt (div_nonneg energyFactor_pos.le (h1.trans h).le)
  exact div_lt_div_of_pos_left energyFactor_pos h1 h

/-- rows tabulated by strictly increasing positive energy become a grid that is strictly
    increasing in wavelength (energies are converted and both arrays reversed), which is what the
    interpolation theorems assume -/
theorem edNodes_increasing (rows : List (ℝ × ℝ × ℝ))
    (hpos : ∀ r ∈ rows, 0 < r.1) (hinc : (rows.map (·.1)).Pairwise (· < ·)) :
    Increasing (edNodes rows) := by
  unfold Increasing edNodes
  rw [List.map_reverse, List.pairwise_reverse, List.map_map]
  induction rows with
  | nil => simp
  | cons r rest ih =>
    simp only [List.map_cons, List.pairwise_cons] at hinc ⊢
    refine ⟨?_, ih (fun x hx => hpos x (by simp [hx])) hinc.2⟩
    intro y hy
    obtain ⟨x, hx, rfl⟩ := List.mem_map.mp hy
    simp only [Function.comp, lit]
    have hr : 0 < r.1 := hpos r (by simp)
    have hlt : r.1 < x.1 := hinc.1 x.1 (List.mem_map_of_mem hx)
    apply neutronWavelength_strictAnti
    · push_cast; positivity
    · push_cast; nlinarith

/-- the values travel with their energies: node `i` from the end is row `i` -/
theorem edNodes_values (rows : List (ℝ × ℝ × ℝ)) :
    (edNodes rows).map (·.2) = (rows.map fun r => (r.2.1, r.2.2)).reverse := by
  unfold edNodes
  rw [List.map_reverse, List.map_map]
  rfl

/-- the wavelength is positive for a positive energy -/
theorem neutronWavelength_pos (e : ℝ) (he : 0 < e) : 0 < neutronWavelength e := by
  unfold neutronWavelength
  exact Real.sqrt_pos.mpr (div_pos energyFactor_pos he)

/-- the `energy=` path: the documented equations at the wavelength `λ = √(ENERGY_FACTOR/E)` -/
theorem scattering_eq_spec_energy (t : Tbl ℝ) (atoms : List (Atom × ℝ)) (ρ e : ℝ)
    (hd : AllData t atoms) (h : Physical t atoms ρ (neutronWavelength e))
    (him : ImNonpos t (neutronWavelength e) atoms) :
    neutronScatteringE t atoms ρ e = .ok (Spec.scattering t atoms ρ (neutronWavelength e)) :=
  scattering_eq_spec t atoms ρ (neutronWavelength e) hd h him

end PtProofs.Neutron
