import PtVerif.Model.Neutron
import PtVerif.Proofs.Formula
import Mathlib.Analysis.Real.Sqrt
import Mathlib.Analysis.SpecialFunctions.Trigonometric.Basic
import Mathlib.Analysis.SpecialFunctions.Log.Basic
import Mathlib.Tactic.Ring
import Mathlib.Tactic.FieldSimp
import Mathlib.Tactic.Linarith
import Mathlib.Tactic.NormNum
import Mathlib.Tactic.Positivity
/-!
# Proofs about the neutron model at `ℝ` (C03, C04, C16, C17)
-/
namespace PtProofs.Neutron
open PtModel PtModel.Neutron

/-- the real interpretation of the non-algebraic operations of the models -/
noncomputable instance instTranscReal : Transc ℝ :=
  ⟨Real.exp, Real.log, Real.sqrt, Real.cos, Real.pi, fun x => |x|⟩

@[simp] theorem sqrt_def (x : ℝ) : (Transc.sqrt x : ℝ) = Real.sqrt x := rfl
@[simp] theorem pi_def : (Transc.pi : ℝ) = Real.pi := rfl
@[simp] theorem abs_def (x : ℝ) : (Transc.abs x : ℝ) = |x| := rfl

/-! ## generated constants at ℝ -/

theorem avogadro_pos : (0 : ℝ) < PtGen.avogadro_number := by
  unfold PtGen.avogadro_number; positivity

theorem fourPi100_eq : (fourPi100 : ℝ) = 4 * Real.pi / 100 := by
  simp [fourPi100, PtGen.FOUR_PI_100]

theorem fourPi100_pos : (0 : ℝ) < fourPi100 := by
  rw [fourPi100_eq]; have := Real.pi_pos; positivity

theorem lambda0_pos : (0 : ℝ) < PtGen.ABSORPTION_WAVELENGTH := by
  unfold PtGen.ABSORPTION_WAVELENGTH; positivity

theorem cabs_mul_self (b : Cx ℝ) : cabs b * cabs b = b.1 * b.1 + b.2 * b.2 := by
  unfold cabs
  exact Real.mul_self_sqrt (add_nonneg (mul_self_nonneg _) (mul_self_nonneg _))

theorem cabs_nonneg (b : Cx ℝ) : 0 ≤ cabs b := Real.sqrt_nonneg _

/-! ## sums -/

theorem spec_sum_eq (l : List ℝ) : Spec.sum l = l.sum := by
  induction l with
  | nil => rfl
  | cons x r ih => simp [Spec.sum, ih]

/-- the per-atom values of the code -/
noncomputable def pa (t : Tbl ℝ) (w : ℝ) (x : Atom) : Cx ℝ × ℝ :=
  match t.neutron x with
  | some r => scatteringByWavelength r w
  | none => ((0, 0), 0)

/-- `scattering_by_wavelength` returns the documented per-atom quantities -/
theorem sbw_eq_spec (r : NRec ℝ) (w : ℝ) : scatteringByWavelength r w = Spec.atom r w := by
  unfold scatteringByWavelength Spec.atom
  cases r.table with
  | none =>
    simp only [NRec.bcComplex, Spec.imB, lit]
    have := lambda0_pos
    congr 2
    push_cast
    field_simp
    ring
  | some g =>
    simp only [cabs_mul_self, fourPi100_eq, lit, pi_def]
    congr 1
    push_cast
    ring

theorem pa_eq_spec (t : Tbl ℝ) (w : ℝ) (x : Atom) : pa t w x = Spec.atomOf t w x := by
  unfold pa Spec.atomOf
  cases t.neutron x <;> simp [sbw_eq_spec]

/-- all atoms of the list have a neutron record -/
def AllData (t : Tbl ℝ) (atoms : List (Atom × ℝ)) : Prop :=
  ∀ e ∈ atoms, (t.neutron e.1).isSome = true

/-- the accumulator after the loop, as sums -/
noncomputable def accSums (t : Tbl ℝ) (w : ℝ) (a : Acc ℝ) (l : List (Atom × ℝ)) : Acc ℝ :=
  ⟨a.molarMass + (l.map fun e => t.atomMass e.1 * e.2).sum,
   a.numAtoms + (l.map fun e => e.2).sum,
   (a.bc.1 + (l.map fun e => e.2 * (pa t w e.1).1.1).sum,
    a.bc.2 + (l.map fun e => e.2 * (pa t w e.1).1.2).sum),
   a.sigS + (l.map fun e => e.2 * (pa t w e.1).2).sum⟩

theorem foldl_sumStep_none (t : Tbl ℝ) (w : ℝ) (l : List (Atom × ℝ)) :
    l.foldl (sumStep t w) none = none := by
  induction l with
  | nil => rfl
  | cons e r ih => simpa [List.foldl, sumStep] using ih

theorem foldl_sumStep_allData (t : Tbl ℝ) (w : ℝ) (l : List (Atom × ℝ)) (a : Acc ℝ)
    (h : AllData t l) : l.foldl (sumStep t w) (some a) = some (accSums t w a l) := by
  induction l generalizing a with
  | nil => simp [accSums]
  | cons e r ih =>
    have he : (t.neutron e.1).isSome = true := h e (by simp)
    obtain ⟨rec, hrec⟩ := Option.isSome_iff_exists.mp he
    have hr : AllData t r := fun x hx => h x (by simp [hx])
    simp only [List.foldl, sumStep, hrec]
    rw [ih _ hr]
    simp only [accSums, pa, hrec, Cx.add, Cx.smul, List.map_cons, List.sum_cons, Option.some.injEq,
      Acc.mk.injEq, Prod.mk.injEq]
    refine ⟨?_, ?_, ⟨?_, ?_⟩, ?_⟩ <;> ring

theorem foldl_sumStep_missing (t : Tbl ℝ) (w : ℝ) (l : List (Atom × ℝ)) (a : Option (Acc ℝ))
    (h : ¬ AllData t l) : l.foldl (sumStep t w) a = none := by
  induction l generalizing a with
  | nil => exact absurd (fun e he => by simp at he) h
  | cons e r ih =>
    by_cases he : (t.neutron e.1).isSome = true
    · have hr : ¬ AllData t r := by
        intro hr; apply h; intro x hx
        rcases List.mem_cons.mp hx with rfl | hx
        · exact he
        · exact hr x hx
      simp only [List.foldl]; exact ih _ hr
    · have : t.neutron e.1 = none := by
        cases hn : t.neutron e.1 with
        | none => rfl
        | some v => simp [hn] at he
      simp only [List.foldl]
      have : sumStep t w a e = none := by
        unfold sumStep; cases a <;> simp [this]
      rw [this]; exact foldl_sumStep_none t w r

/-! ## C03: the code's result is the documented one -/

theorem maxZero_eq (x : ℝ) : maxZero x = if x < 0 then 0 else x := by
  unfold maxZero
  by_cases h : 0 < x
  · simp [h, not_lt.mpr h.le]
  · have h' : x ≤ 0 := not_lt.mp h
    rcases h'.lt_or_eq with h'' | h''
    · simp [h, h'']
    · simp [h'']

theorem maxZero_nonneg (x : ℝ) : 0 ≤ maxZero x := by
  unfold maxZero; split <;> linarith

theorem molarMass_spec (t : Tbl ℝ) (atoms : List (Atom × ℝ)) :
    (atoms.map fun e => t.atomMass e.1 * e.2).sum = Spec.molarMass t atoms := by
  unfold Spec.molarMass; rw [spec_sum_eq]; congr 1
  apply List.map_congr_left; intro e _; ring

theorem count_spec (atoms : List (Atom × ℝ)) : (atoms.map fun e => e.2).sum = Spec.count atoms := by
  unfold Spec.count; rw [spec_sum_eq]

/-- the general form: only the signs that `abs` needs are assumed -/
theorem scattering_eq_spec_of_signs (t : Tbl ℝ) (atoms : List (Atom × ℝ)) (ρ w : ℝ)
    (hd : AllData t atoms) (hv : Spec.molarMass t atoms * ρ ≠ 0)
    (hN : 0 ≤ Spec.numberDensity t atoms ρ) (him : Spec.imBc t atoms w ≤ 0) :
    neutronScattering t atoms ρ w = .ok (Spec.scattering t atoms ρ w) := by
  unfold neutronScattering
  rw [foldl_sumStep_allData t w atoms Acc.zero hd]
  have hmm : (accSums t w Acc.zero atoms).molarMass = Spec.molarMass t atoms := by
    simp [accSums, Acc.zero, molarMass_spec]
  have hna : (accSums t w Acc.zero atoms).numAtoms = Spec.count atoms := by
    simp [accSums, Acc.zero, count_spec]
  have hre : (accSums t w Acc.zero atoms).bc.1 / Spec.count atoms = Spec.reB t atoms w := by
    simp [accSums, Acc.zero, Spec.reB, spec_sum_eq, pa_eq_spec]
  have him' : (accSums t w Acc.zero atoms).bc.2 / Spec.count atoms = Spec.imBc t atoms w := by
    simp [accSums, Acc.zero, Spec.imBc, spec_sum_eq, pa_eq_spec]
  have hss : (accSums t w Acc.zero atoms).sigS / Spec.count atoms = Spec.sigmaS t atoms w := by
    simp [accSums, Acc.zero, Spec.sigmaS, spec_sum_eq, pa_eq_spec]
  have hv' : (Spec.molarMass t atoms * ρ == 0) = false := by
    simpa using hv
  simp only [finish, hmm, hna, hv', Bool.false_eq_true, if_false, Outcome.ok.injEq]
  have hNN : Spec.count atoms / cellVolume (Spec.molarMass t atoms) ρ
      = Spec.numberDensity t atoms ρ := by
    unfold Spec.numberDensity Spec.cellVolume cellVolume
    simp only [lit]; push_cast; ring
  unfold calculateScattering Spec.scattering
  simp only [Cx.divS, hre, him', hss, hNN, cabs_mul_self, fourPi100_eq, maxZero_eq, lit,
    abs_def, sqrt_def]
  set N := Spec.numberDensity t atoms ρ with hNdef
  have hsc : 4 * Real.pi / 100 * (Spec.reB t atoms w * Spec.reB t atoms w
      + Spec.imBc t atoms w * Spec.imBc t atoms w) = Spec.sigmaC t atoms w := by
    unfold Spec.sigmaC; simp only [lit, pi_def]; push_cast; ring
  have hsi : (if Spec.sigmaS t atoms w - Spec.sigmaC t atoms w < 0 then 0
      else Spec.sigmaS t atoms w - Spec.sigmaC t atoms w) = Spec.sigmaI t atoms w := by
    unfold Spec.sigmaI; rfl
  have hpi : Real.pi ≠ 0 := Real.pi_ne_zero
  have habs : |Spec.imBc t atoms w| = -Spec.imBc t atoms w := abs_of_nonpos him
  have hsa : 2000 * -Spec.imBc t atoms w * w = Spec.sigmaA t atoms w := by
    unfold Spec.sigmaA; simp only [lit, pi_def]; push_cast
    by_cases hw : w = 0
    · subst hw; simp
    · field_simp; ring
  push_cast
  rw [hsc, hsi, habs, hsa]
  have h1 : |10 * N * Spec.imBc t atoms w| = -(10 * N * Spec.imBc t atoms w) := by
    apply abs_of_nonpos
    have : 0 ≤ 10 * N := by positivity
    exact mul_nonpos_of_nonneg_of_nonpos this him
  have hbi : Real.sqrt (Spec.sigmaI t atoms w / (4 * Real.pi / 100)) = Spec.bI t atoms w := by
    unfold Spec.bI; simp only [lit, sqrt_def, pi_def]; push_cast
    congr 1; field_simp
  rw [h1, hbi]
  congr 1 <;> ring

/-! ### physical inputs -/

theorem map_sum_pos {β : Type} (f : β → ℝ) (l : List β) (hne : l ≠ []) (h : ∀ x ∈ l, 0 < f x) :
    0 < (l.map f).sum := by
  induction l with
  | nil => exact absurd rfl hne
  | cons x r ih =>
    simp only [List.map_cons, List.sum_cons]
    have hx : 0 < f x := h x (by simp)
    by_cases hr : r = []
    · subst hr; simpa using hx
    · have := ih hr (fun y hy => h y (by simp [hy])); linarith

theorem map_sum_nonneg {β : Type} (f : β → ℝ) (l : List β) (h : ∀ x ∈ l, 0 ≤ f x) :
    0 ≤ (l.map f).sum := by
  induction l with
  | nil => simp
  | cons x r ih =>
    simp only [List.map_cons, List.sum_cons]
    have hx : 0 ≤ f x := h x (by simp)
    have := ih (fun y hy => h y (by simp [hy])); linarith

theorem map_sum_nonpos {β : Type} (f : β → ℝ) (l : List β) (h : ∀ x ∈ l, f x ≤ 0) :
    (l.map f).sum ≤ 0 := by
  induction l with
  | nil => simp
  | cons x r ih =>
    simp only [List.map_cons, List.sum_cons]
    have hx : f x ≤ 0 := h x (by simp)
    have := ih (fun y hy => h y (by simp [hy])); linarith

/-- a physical input: a non-empty compound with positive counts and masses, positive density
    and wavelength -/
structure Physical (t : Tbl ℝ) (atoms : List (Atom × ℝ)) (ρ w : ℝ) : Prop where
  nonempty : atoms ≠ []
  counts : ∀ e ∈ atoms, 0 < e.2
  masses : ∀ e ∈ atoms, 0 < t.atomMass e.1
  density : 0 < ρ
  wavelength : 0 < w

/-- every atom's (interpolated) imaginary scattering length is ≤ 0, i.e. its absorption cross
    section is ≥ 0 -/
def ImNonpos (t : Tbl ℝ) (w : ℝ) (atoms : List (Atom × ℝ)) : Prop :=
  ∀ e ∈ atoms, (Spec.atomOf t w e.1).1.2 ≤ 0

theorem Physical.count_pos {t : Tbl ℝ} {atoms : List (Atom × ℝ)} {ρ w : ℝ}
    (h : Physical t atoms ρ w) : 0 < Spec.count atoms := by
  unfold Spec.count; rw [spec_sum_eq]
  exact map_sum_pos _ _ h.nonempty h.counts

theorem Physical.molarMass_pos {t : Tbl ℝ} {atoms : List (Atom × ℝ)} {ρ w : ℝ}
    (h : Physical t atoms ρ w) : 0 < Spec.molarMass t atoms := by
  unfold Spec.molarMass; rw [spec_sum_eq]
  exact map_sum_pos _ _ h.nonempty (fun e he => mul_pos (h.counts e he) (h.masses e he))

theorem Physical.cellVolume_pos {t : Tbl ℝ} {atoms : List (Atom × ℝ)} {ρ w : ℝ}
    (h : Physical t atoms ρ w) : 0 < Spec.cellVolume t atoms ρ := by
  unfold Spec.cellVolume
  have := h.molarMass_pos; have := h.density; have := avogadro_pos
  simp only [lit]; positivity

theorem Physical.numberDensity_pos {t : Tbl ℝ} {atoms : List (Atom × ℝ)} {ρ w : ℝ}
    (h : Physical t atoms ρ w) : 0 < Spec.numberDensity t atoms ρ := by
  unfold Spec.numberDensity
  exact div_pos h.count_pos h.cellVolume_pos

theorem imBc_nonpos {t : Tbl ℝ} {atoms : List (Atom × ℝ)} {ρ w : ℝ}
    (h : Physical t atoms ρ w) (him : ImNonpos t w atoms) : Spec.imBc t atoms w ≤ 0 := by
  unfold Spec.imBc; rw [spec_sum_eq]
  apply div_nonpos_of_nonpos_of_nonneg _ h.count_pos.le
  exact map_sum_nonpos _ _ (fun e he => mul_nonpos_of_nonneg_of_nonpos (h.counts e he).le (him e he))

/-- **C03**: for every physical input whose atoms all have neutron data, `neutron_scattering`
    returns the seven quantities of the documented equations -/
theorem scattering_eq_spec (t : Tbl ℝ) (atoms : List (Atom × ℝ)) (ρ w : ℝ)
    (hd : AllData t atoms) (h : Physical t atoms ρ w) (him : ImNonpos t w atoms) :
    neutronScattering t atoms ρ w = .ok (Spec.scattering t atoms ρ w) :=
  scattering_eq_spec_of_signs t atoms ρ w hd
    (mul_ne_zero h.molarMass_pos.ne' h.density.ne') h.numberDensity_pos.le (imBc_nonpos h him)

/-- a compound with an atom without neutron data gives `(None, None, None)` – and only such -/
theorem missing_iff (t : Tbl ℝ) (atoms : List (Atom × ℝ)) (ρ w : ℝ) :
    neutronScattering t atoms ρ w = .missing ↔ ¬ AllData t atoms := by
  constructor
  · intro h hd
    unfold neutronScattering at h
    rw [foldl_sumStep_allData t w atoms Acc.zero hd] at h
    simp only [finish] at h
    split at h <;> cases h
  · intro h
    unfold neutronScattering
    rw [foldl_sumStep_missing t w atoms _ h]

/-- zero mass or zero density gives the vacuum tuple -/
theorem vacuum_iff (t : Tbl ℝ) (atoms : List (Atom × ℝ)) (ρ w : ℝ) (hd : AllData t atoms) :
    neutronScattering t atoms ρ w = .vacuum ↔ Spec.molarMass t atoms * ρ = 0 := by
  unfold neutronScattering
  rw [foldl_sumStep_allData t w atoms Acc.zero hd]
  have hmm : (accSums t w Acc.zero atoms).molarMass = Spec.molarMass t atoms := by
    simp [accSums, Acc.zero, molarMass_spec]
  simp only [finish, hmm]
  by_cases hz : Spec.molarMass t atoms * ρ = 0
  · simp [hz]
  · simp [hz]

/-! ## `numpy.interp` on a strictly increasing grid -/

/-- the grid is strictly increasing -/
def Increasing (l : List (ℝ × Cx ℝ)) : Prop := (l.map Prod.fst).Pairwise (· < ·)

theorem lerp_left (x0 : ℝ) (y0 : Cx ℝ) (x1 : ℝ) (y1 : Cx ℝ) : lerp x0 y0 x1 y1 x0 = y0 := by
  unfold lerp; ext <;> simp

theorem lerp_right (x0 : ℝ) (y0 : Cx ℝ) (x1 : ℝ) (y1 : Cx ℝ) (h : x0 ≠ x1) :
    lerp x0 y0 x1 y1 x1 = y1 := by
  unfold lerp
  have : x1 - x0 ≠ 0 := sub_ne_zero.mpr (Ne.symm h)
  ext <;> simp <;> field_simp <;> ring

theorem interpGo_lt (x0 : ℝ) (y0 : Cx ℝ) (x1 : ℝ) (y1 : Cx ℝ) (r : List (ℝ × Cx ℝ)) (x : ℝ)
    (h : x < x1) : interpGo x0 y0 ((x1, y1) :: r) x = lerp x0 y0 x1 y1 x := by
  simp only [interpGo, h, if_true]
  by_cases hx : x = x0
  · subst hx; simp [lerp_left]
  · simp [hx]

theorem interpGo_ge (x0 : ℝ) (y0 : Cx ℝ) (x1 : ℝ) (y1 : Cx ℝ) (r : List (ℝ × Cx ℝ)) (x : ℝ)
    (h : x1 ≤ x) : interpGo x0 y0 ((x1, y1) :: r) x = interpGo x1 y1 r x := by
  simp [interpGo, not_lt.mpr h]

/-- all nodes of `l` are `≤ x`: the search runs to the last node -/
theorem interpGo_all_le (x0 : ℝ) (y0 : Cx ℝ) (l : List (ℝ × Cx ℝ)) (x : ℝ)
    (h : ∀ n ∈ l, n.1 ≤ x) :
    interpGo x0 y0 l x = (((x0, y0) :: l).getLast (by simp)).2 := by
  induction l generalizing x0 y0 with
  | nil => simp [interpGo]
  | cons n r ih =>
    obtain ⟨x1, y1⟩ := n
    rw [interpGo_ge _ _ _ _ _ _ (h (x1, y1) (by simp))]
    rw [ih x1 y1 (fun m hm => h m (by simp [hm]))]
    simp [List.getLast_cons]

/-- `pre` lies left of `x`, then come two consecutive nodes with `xj ≤ x < xk` -/
theorem interpGo_between (x0 : ℝ) (y0 : Cx ℝ) (pre post : List (ℝ × Cx ℝ))
    (xj : ℝ) (yj : Cx ℝ) (xk : ℝ) (yk : Cx ℝ) (x : ℝ)
    (hpre : ∀ n ∈ pre, n.1 ≤ x) (hj : xj ≤ x) (hk : x < xk) :
    interpGo x0 y0 (pre ++ (xj, yj) :: (xk, yk) :: post) x = lerp xj yj xk yk x := by
  induction pre generalizing x0 y0 with
  | nil =>
    simp only [List.nil_append]
    rw [interpGo_ge _ _ _ _ _ _ hj, interpGo_lt _ _ _ _ _ _ hk]
  | cons n r ih =>
    obtain ⟨x1, y1⟩ := n
    simp only [List.cons_append]
    rw [interpGo_ge _ _ _ _ _ _ (hpre (x1, y1) (by simp))]
    exact ih x1 y1 (fun m hm => hpre m (by simp [hm]))

/-- left of (or at) the first node: the first value (end clamp) -/
theorem interp_clamp_left (g : Grid ℝ) (hs : Increasing g.toList) (x : ℝ) (h : x ≤ g.first.1) :
    interpClamp g x = g.first.2 := by
  unfold interpClamp
  rcases h.lt_or_eq with h | h
  · simp [h]
  · subst h
    simp only [lt_irrefl, if_false]
    cases hr : g.rest with
    | nil => simp [interpGo]
    | cons n r =>
      obtain ⟨x1, y1⟩ := n
      have : g.first.1 < x1 := by
        have := hs; simp [Increasing, Grid.toList, hr] at this; exact this.1.1
      rw [interpGo_lt _ _ _ _ _ _ this, lerp_left]

/-- right of (or at) the last node: the last value (end clamp) -/
theorem interp_clamp_right (g : Grid ℝ) (hs : Increasing g.toList) (x : ℝ)
    (h : (g.toList.getLast (by simp [Grid.toList])).1 ≤ x) :
    interpClamp g x = (g.toList.getLast (by simp [Grid.toList])).2 := by
  have hall : ∀ n ∈ g.toList, n.1 ≤ x := by
    intro n hn
    by_cases hl : n = g.toList.getLast (by simp [Grid.toList])
    · rw [hl]; exact h
    · -- n comes before the last node, hence is smaller
      have hsplit := List.dropLast_append_getLast (l := g.toList) (by simp [Grid.toList])
      have hmem : n ∈ g.toList.dropLast := by
        have : n ∈ g.toList.dropLast ++ [g.toList.getLast (by simp [Grid.toList])] := by
          rw [hsplit]; exact hn
        rcases List.mem_append.mp this with h1 | h1
        · exact h1
        · simp at h1; exact absurd h1 hl
      have hp : (g.toList.map Prod.fst).Pairwise (· < ·) := hs
      rw [← hsplit, List.map_append, List.pairwise_append] at hp
      have := hp.2.2 n.1 (List.mem_map_of_mem hmem)
        (g.toList.getLast (by simp [Grid.toList])).1 (by simp)
      linarith
  unfold interpClamp
  have h0 : ¬ x < g.first.1 := not_lt.mpr (hall g.first (by simp [Grid.toList]))
  simp only [h0, if_false]
  rw [interpGo_all_le _ _ _ _ (fun n hn => hall n (by simp [Grid.toList, hn]))]
  rfl

/-- between two consecutive nodes: the straight line through them -/
theorem interp_clamp_between (g : Grid ℝ) (hs : Increasing g.toList)
    (pre post : List (ℝ × Cx ℝ)) (xj : ℝ) (yj : Cx ℝ) (xk : ℝ) (yk : Cx ℝ)
    (hg : g.toList = pre ++ (xj, yj) :: (xk, yk) :: post) (x : ℝ) (hj : xj ≤ x) (hk : x < xk) :
    interpClamp g x = (yj.1 + (yk.1 - yj.1) / (xk - xj) * (x - xj),
                       yj.2 + (yk.2 - yj.2) / (xk - xj) * (x - xj)) := by
  have hpre : ∀ n ∈ pre, n.1 ≤ x := by
    intro n hn
    have hp : (g.toList.map Prod.fst).Pairwise (· < ·) := hs
    rw [hg, List.map_append, List.pairwise_append] at hp
    have := hp.2.2 n.1 (List.mem_map_of_mem hn) xj (by simp)
    linarith
  have hl : lerp xj yj xk yk x = (yj.1 + (yk.1 - yj.1) / (xk - xj) * (x - xj),
                       yj.2 + (yk.2 - yj.2) / (xk - xj) * (x - xj)) := by
    unfold lerp; ext <;> simp <;> ring
  rw [← hl]
  unfold interpClamp
  cases pre with
  | nil =>
    simp only [Grid.toList, List.nil_append, List.cons.injEq] at hg
    obtain ⟨h1, h2⟩ := hg
    rw [h1, h2]
    simp only [not_lt.mpr hj, if_false]
    exact interpGo_lt _ _ _ _ _ _ hk
  | cons n r =>
    simp only [Grid.toList, List.cons_append, List.cons.injEq] at hg
    obtain ⟨h1, h2⟩ := hg
    rw [h1, h2]
    have : ¬ x < n.1 := not_lt.mpr (hpre n (by simp))
    simp only [this, if_false]
    exact interpGo_between _ _ _ _ _ _ _ _ _ (fun m hm => hpre m (by simp [hm])) hj hk

/-- at a node: exactly the tabulated value -/
theorem interp_clamp_node (g : Grid ℝ) (hs : Increasing g.toList) (n : ℝ × Cx ℝ)
    (hn : n ∈ g.toList) : interpClamp g n.1 = n.2 := by
  obtain ⟨pre, post, hsplit⟩ := List.append_of_mem hn
  cases post with
  | nil =>
    -- the last node
    have hlast : g.toList.getLast (by simp [Grid.toList]) = n := by
      simp [hsplit]
    have := interp_clamp_right g hs n.1 (by rw [hlast])
    rw [this, hlast]
  | cons m post' =>
    obtain ⟨xk, yk⟩ := m
    obtain ⟨xj, yj⟩ := n
    have hlt : xj < xk := by
      have hp : (g.toList.map Prod.fst).Pairwise (· < ·) := hs
      rw [hsplit, List.map_append, List.pairwise_append] at hp
      have := hp.2.1
      simp only [List.map_cons, List.pairwise_cons] at this
      exact this.1 xk (by simp)
    have := interp_clamp_between g hs pre post' xj yj xk yk hsplit xj le_rfl hlt
    rw [this]; ext <;> simp

/-! ## a bare element / isotope is the one-atom compound at that atom's density -/

theorem atomMass_neutral (t : Tbl ℝ) (x : Atom) (hq : x.q = 0) : t.atomMass x = t.mass x.z x.a := by
  simp [Tbl.atomMass, atomMass, hq]

/-- general form: the compound `[(1, x)]` at any density `ρ` with `ρ/m = ρ_el/m_el` -/
theorem bare_eq_one_atom_compound (t : Tbl ℝ) (x : Atom) (r : NRec ℝ) (ρ ρEl mEl w : ℝ)
    (hq : x.q = 0) (hrec : t.recOf x.z x.a = some r)
    (hnd : r.numberDensity = numberDensityOf ρEl mEl)
    (hm : t.mass x.z x.a ≠ 0) (hρ : ρ ≠ 0)
    (hratio : ρ / t.mass x.z x.a = ρEl / mEl) :
    neutronScattering t [(x, 1)] ρ w = .ok (bareScattering r w) := by
  have hn : t.neutron x = some r := hrec
  have hv : (t.mass x.z x.a * ρ == 0) = false := by simpa using mul_ne_zero hm hρ
  simp only [neutronScattering, List.foldl, sumStep, hn, Acc.zero, finish, atomMass_neutral t x hq,
    zero_add, mul_one, hv, Bool.false_eq_true, if_false, Outcome.ok.injEq, bareScattering]
  have hN : (1 : ℝ) / cellVolume (t.mass x.z x.a) ρ = r.numberDensity / lit (10 ^ 24) := by
    rw [hnd]; unfold cellVolume numberDensityOf
    rw [← hratio]
    have := avogadro_pos.ne'
    simp only [lit]; push_cast
    field_simp
  rw [hN]
  congr 1
  · simp [Cx.divS, Cx.add, Cx.smul]
  · simp

/-- an element queried directly = the compound `[(1, element)]` at the element's density -/
theorem element_eq_one_atom_compound (t : Tbl ℝ) (x : Atom) (r : NRec ℝ) (ρEl w : ℝ)
    (hq : x.q = 0) (hrec : t.recOf x.z x.a = some r)
    (hnd : r.numberDensity = numberDensityOf ρEl (t.mass x.z x.a))
    (hm : t.mass x.z x.a ≠ 0) (hρ : ρEl ≠ 0) :
    neutronScattering t [(x, 1)] ρEl w = .ok (bareScattering r w) :=
  bare_eq_one_atom_compound t x r ρEl ρEl _ w hq hrec hnd hm hρ rfl

/-- an isotope queried directly = the compound `[(1, isotope)]` at the isotope's density
    `ρ_el·(m_iso/m_el)`; its record carries the *element's* number density -/
theorem isotope_eq_one_atom_compound (t : Tbl ℝ) (x : Atom) (r : NRec ℝ) (ρEl mEl w : ℝ)
    (hq : x.q = 0) (hrec : t.recOf x.z x.a = some r)
    (hnd : r.numberDensity = numberDensityOf ρEl mEl)
    (hm : t.mass x.z x.a ≠ 0) (hmEl : mEl ≠ 0) (hρ : ρEl ≠ 0) :
    neutronScattering t [(x, 1)] (isotopeDensity ρEl (t.mass x.z x.a) mEl) w
      = .ok (bareScattering r w) := by
  apply bare_eq_one_atom_compound t x r _ ρEl mEl w hq hrec hnd hm
  · unfold isotopeDensity; exact mul_ne_zero hρ (div_ne_zero hm hmEl)
  · unfold isotopeDensity; field_simp

/-! ## C04: conversions between energy, wavelength and velocity -/

theorem energyFactor_pos : (0 : ℝ) < PtGen.ENERGY_FACTOR := by
  unfold PtGen.ENERGY_FACTOR PtGen.plancks_constant PtGen.electron_volt PtGen.neutron_mass
    PtGen.atomic_mass_constant
  positivity

theorem velocityFactor_pos : (0 : ℝ) < PtGen.VELOCITY_FACTOR := by
  unfold PtGen.VELOCITY_FACTOR PtGen.plancks_constant PtGen.electron_volt PtGen.neutron_mass
    PtGen.atomic_mass_constant
  positivity

/-- `E · λ(E)² = ENERGY_FACTOR` -/
theorem E_mul_lambda_sq (e : ℝ) (he : 0 < e) :
    e * (neutronWavelength e * neutronWavelength e) = PtGen.ENERGY_FACTOR := by
  unfold neutronWavelength
  rw [sqrt_def, Real.mul_self_sqrt (div_nonneg energyFactor_pos.le he.le)]
  field_simp

/-- `E(λ) · λ² = ENERGY_FACTOR` -/
theorem energy_mul_lambda_sq (w : ℝ) (hw : w ≠ 0) :
    neutronEnergy w * (w * w) = PtGen.ENERGY_FACTOR := by
  unfold neutronEnergy; field_simp

/-- `v · λ(v) = VELOCITY_FACTOR` -/
theorem v_mul_lambda (v : ℝ) (hv : v ≠ 0) :
    v * neutronWavelengthFromVelocity v = PtGen.VELOCITY_FACTOR := by
  unfold neutronWavelengthFromVelocity; field_simp

/-- the wavelength is positive for a positive energy -/
theorem neutronWavelength_pos (e : ℝ) (he : 0 < e) : 0 < neutronWavelength e := by
  unfold neutronWavelength
  exact Real.sqrt_pos.mpr (div_pos energyFactor_pos he)

/-- energy → wavelength → energy is the identity -/
theorem energy_wavelength_roundtrip (e : ℝ) (he : 0 < e) :
    neutronEnergy (neutronWavelength e) = e := by
  unfold neutronEnergy
  have h := E_mul_lambda_sq e he
  have hw := (neutronWavelength_pos e he).ne'
  rw [← h]; field_simp

/-- wavelength → energy → wavelength is the identity -/
theorem wavelength_energy_roundtrip (w : ℝ) (hw : 0 < w) :
    neutronWavelength (neutronEnergy w) = w := by
  unfold neutronWavelength neutronEnergy
  have hEF := energyFactor_pos
  have : PtGen.ENERGY_FACTOR / (PtGen.ENERGY_FACTOR / (w * w)) = w * w := by field_simp
  rw [this, sqrt_def, Real.sqrt_mul_self hw.le]

/-! ### the documented anchor 1.798 Å = 2200 m/s = 25.3 meV, from the generated constants -/

theorem anchor_wavelength_of_energy : |neutronWavelength (25.3 : ℝ) - 1.798| < 5e-4 := by
  rw [abs_lt]
  unfold neutronWavelength
  rw [sqrt_def]
  constructor
  · have : (1.7975 : ℝ) < Real.sqrt (PtGen.ENERGY_FACTOR / 25.3) := by
      rw [Real.lt_sqrt (by norm_num)]
      unfold PtGen.ENERGY_FACTOR PtGen.plancks_constant PtGen.electron_volt PtGen.neutron_mass
        PtGen.atomic_mass_constant
      norm_num
    linarith
  · have : Real.sqrt (PtGen.ENERGY_FACTOR / 25.3) < (1.7985 : ℝ) := by
      rw [Real.sqrt_lt' (by norm_num)]
      unfold PtGen.ENERGY_FACTOR PtGen.plancks_constant PtGen.electron_volt PtGen.neutron_mass
        PtGen.atomic_mass_constant
      norm_num
    linarith

theorem anchor_wavelength_of_velocity : |neutronWavelengthFromVelocity (2200 : ℝ) - 1.798| < 5e-4 := by
  rw [abs_lt]
  unfold neutronWavelengthFromVelocity PtGen.VELOCITY_FACTOR PtGen.plancks_constant
    PtGen.electron_volt PtGen.neutron_mass PtGen.atomic_mass_constant
  constructor <;> norm_num

theorem anchor_energy_of_wavelength : |neutronEnergy (1.798 : ℝ) - 25.3| < 1e-2 := by
  rw [abs_lt]
  unfold neutronEnergy PtGen.ENERGY_FACTOR PtGen.plancks_constant PtGen.electron_volt
    PtGen.neutron_mass PtGen.atomic_mass_constant
  constructor <;> norm_num

/-- the absorption cross sections are tabulated at the anchor wavelength -/
theorem anchor_absorption_wavelength : (PtGen.ABSORPTION_WAVELENGTH : ℝ) = 1.798 := by
  unfold PtGen.ABSORPTION_WAVELENGTH; norm_num

/-! ## C04: invariances of `neutron_scattering` -/

/-- normal form of the result when every atom has data -/
theorem neutronScattering_allData (t : Tbl ℝ) (atoms : List (Atom × ℝ)) (ρ w : ℝ)
    (hd : AllData t atoms) :
    neutronScattering t atoms ρ w = finish (accSums t w Acc.zero atoms) ρ w := by
  unfold neutronScattering
  rw [foldl_sumStep_allData t w atoms Acc.zero hd]

theorem neutronScattering_missing (t : Tbl ℝ) (atoms : List (Atom × ℝ)) (ρ w : ℝ)
    (hd : ¬ AllData t atoms) : neutronScattering t atoms ρ w = .missing :=
  (missing_iff t atoms ρ w).mpr hd

/-- every SLD and cross section times `k`, the penetration depth divided by `k` -/
noncomputable def Scat.scale (k : ℝ) (s : Scat ℝ) : Scat ℝ :=
  ⟨k * s.sldRe, k * s.sldIm, k * s.sldInc, k * s.coh, k * s.abs, k * s.inc, s.pen / k⟩

noncomputable def Outcome.scale (k : ℝ) : Outcome ℝ → Outcome ℝ
  | .missing => .missing
  | .vacuum => .vacuum
  | .ok s => .ok (Scat.scale k s)

theorem calculateScattering_scale (k n w : ℝ) (b : Cx ℝ) (s : ℝ) (hk : 0 < k) :
    calculateScattering (k * n) w b s = Scat.scale k (calculateScattering n w b s) := by
  unfold calculateScattering Scat.scale
  simp only [abs_def, sqrt_def, lit, Scat.mk.injEq]
  have h1 : |(10:ℕ) * (k * n) * b.2| = k * |(10:ℕ) * n * b.2| := by
    rw [show ((10:ℕ):ℝ) * (k * n) * b.2 = k * ((10:ℕ) * n * b.2) by ring, abs_mul, abs_of_pos hk]
  refine ⟨by ring, h1, by ring, by ring, by ring, by ring, ?_⟩
  rw [div_div]; congr 1; ring

/-- **density scaling**: `ρ ↦ kρ` (k > 0) scales every SLD and cross section by `k` and the
    penetration depth by `1/k` -/
theorem scale_density (t : Tbl ℝ) (atoms : List (Atom × ℝ)) (ρ w k : ℝ) (hk : 0 < k) :
    neutronScattering t atoms (k * ρ) w = Outcome.scale k (neutronScattering t atoms ρ w) := by
  by_cases hd : AllData t atoms
  · rw [neutronScattering_allData t atoms _ w hd, neutronScattering_allData t atoms _ w hd]
    set a := accSums t w Acc.zero atoms
    unfold finish
    by_cases hz : a.molarMass * ρ = 0
    · have hz' : a.molarMass * (k * ρ) = 0 := by rw [← mul_assoc, mul_comm a.molarMass k, mul_assoc, hz, mul_zero]
      simp [hz, hz', Outcome.scale]
    · have hz' : a.molarMass * (k * ρ) ≠ 0 := by
        rw [← mul_assoc, mul_comm a.molarMass k, mul_assoc]; exact mul_ne_zero hk.ne' hz
      have hm : a.molarMass ≠ 0 := left_ne_zero_of_mul hz
      have hρ : ρ ≠ 0 := right_ne_zero_of_mul hz
      simp only [beq_iff_eq, hz, hz', if_false, Outcome.scale, Outcome.ok.injEq]
      rw [← calculateScattering_scale k _ w _ _ hk]
      congr 1
      unfold cellVolume
      have := avogadro_pos.ne'
      simp only [lit]; push_cast
      field_simp
  · rw [neutronScattering_missing t atoms _ w hd, neutronScattering_missing t atoms _ w hd]; rfl

/-- all counts multiplied by `c` -/
def scaleCounts (c : ℝ) (atoms : List (Atom × ℝ)) : List (Atom × ℝ) :=
  atoms.map fun e => (e.1, c * e.2)

theorem allData_scaleCounts (t : Tbl ℝ) (c : ℝ) (atoms : List (Atom × ℝ)) :
    AllData t (scaleCounts c atoms) ↔ AllData t atoms := by
  unfold AllData scaleCounts
  simp only [List.mem_map, forall_exists_index, and_imp]
  constructor
  · intro h e he; exact h (e.1, c * e.2) e he rfl
  · intro h e x hx hxe; subst hxe; exact h x hx

theorem accSums_scaleCounts (t : Tbl ℝ) (w c : ℝ) (atoms : List (Atom × ℝ)) :
    accSums t w Acc.zero (scaleCounts c atoms) =
      ⟨c * (accSums t w Acc.zero atoms).molarMass, c * (accSums t w Acc.zero atoms).numAtoms,
       (c * (accSums t w Acc.zero atoms).bc.1, c * (accSums t w Acc.zero atoms).bc.2),
       c * (accSums t w Acc.zero atoms).sigS⟩ := by
  simp only [accSums, Acc.zero, scaleCounts, List.map_map, zero_add, Acc.mk.injEq, Prod.mk.injEq]
  refine ⟨?_, ?_, ⟨?_, ?_⟩, ?_⟩ <;>
  · rw [← List.sum_map_mul_left]; congr 1
    try (apply List.map_congr_left; intro e _; simp only [Function.comp]; try ring)

/-- **cell size**: multiplying every count by `c ≠ 0` changes nothing (`Σ n ≠ 0` is stated so
    that the claim does not rest on `x/0 = 0`) -/
theorem scale_counts (t : Tbl ℝ) (atoms : List (Atom × ℝ)) (ρ w c : ℝ) (hc : c ≠ 0)
    (_hn : Spec.count atoms ≠ 0) :
    neutronScattering t (scaleCounts c atoms) ρ w = neutronScattering t atoms ρ w := by
  by_cases hd : AllData t atoms
  · rw [neutronScattering_allData t _ _ w ((allData_scaleCounts t c atoms).mpr hd),
      neutronScattering_allData t atoms _ w hd, accSums_scaleCounts]
    set a := accSums t w Acc.zero atoms
    unfold finish
    by_cases hz : a.molarMass * ρ = 0
    · have hz' : c * a.molarMass * ρ = 0 := by rw [mul_assoc, hz, mul_zero]
      simp [hz, hz']
    · have hz' : c * a.molarMass * ρ ≠ 0 := by rw [mul_assoc]; exact mul_ne_zero hc hz
      have hm : a.molarMass ≠ 0 := left_ne_zero_of_mul hz
      have hρ : ρ ≠ 0 := right_ne_zero_of_mul hz
      simp only [beq_iff_eq, hz, hz', if_false, Outcome.ok.injEq]
      have hN : c * a.numAtoms / cellVolume (c * a.molarMass) ρ = a.numAtoms / cellVolume a.molarMass ρ := by
        unfold cellVolume
        have := avogadro_pos.ne'
        simp only [lit]; push_cast
        field_simp
      have hb : Cx.divS (c * a.bc.1, c * a.bc.2) (c * a.numAtoms) = Cx.divS a.bc a.numAtoms := by
        unfold Cx.divS
        ext <;> simp only <;> rw [mul_div_mul_left _ _ hc]
      rw [hN, hb, mul_div_mul_left _ _ hc]
  · rw [neutronScattering_missing t _ _ w (fun h => hd ((allData_scaleCounts t c atoms).mp h)),
      neutronScattering_missing t atoms _ w hd]

theorem allData_perm (t : Tbl ℝ) {l₁ l₂ : List (Atom × ℝ)} (h : l₁.Perm l₂) :
    AllData t l₁ ↔ AllData t l₂ := by
  unfold AllData
  constructor
  · intro h1 e he; exact h1 e (h.mem_iff.mpr he)
  · intro h1 e he; exact h1 e (h.mem_iff.mp he)

theorem accSums_perm (t : Tbl ℝ) (w : ℝ) (a : Acc ℝ) {l₁ l₂ : List (Atom × ℝ)} (h : l₁.Perm l₂) :
    accSums t w a l₁ = accSums t w a l₂ := by
  unfold accSums
  rw [(h.map _).sum_eq, (h.map (fun e => e.2)).sum_eq,
    (h.map (fun e => e.2 * (pa t w e.1).1.1)).sum_eq,
    (h.map (fun e => e.2 * (pa t w e.1).1.2)).sum_eq,
    (h.map (fun e => e.2 * (pa t w e.1).2)).sum_eq]

/-- **reordering**: any permutation of the atoms gives the same result -/
theorem perm_invariant (t : Tbl ℝ) {l₁ l₂ : List (Atom × ℝ)} (h : l₁.Perm l₂) (ρ w : ℝ) :
    neutronScattering t l₁ ρ w = neutronScattering t l₂ ρ w := by
  by_cases hd : AllData t l₁
  · rw [neutronScattering_allData t l₁ _ w hd,
      neutronScattering_allData t l₂ _ w ((allData_perm t h).mp hd), accSums_perm t w _ h]
  · rw [neutronScattering_missing t l₁ _ w hd,
      neutronScattering_missing t l₂ _ w (fun h2 => hd ((allData_perm t h).mpr h2))]

/-! ### regrouping: the result depends on the formula only through its atom counts -/

theorem mem_of_lookupD {l : List (Atom × ℝ)} {a : Atom} {n : ℝ}
    (h : lookupD l a = n) (hn : n ≠ 0) : (a, n) ∈ l := by
  induction l with
  | nil => simp [lookupD] at h; exact absurd h.symm hn
  | cons e r ih =>
    obtain ⟨b, y⟩ := e
    simp only [lookupD] at h
    by_cases hb : b = a
    · simp only [hb, if_true] at h; subst h; subst hb; simp
    · simp only [hb, if_false] at h; exact List.mem_cons_of_mem _ (ih h)

theorem lookupD_of_mem {l : List (Atom × ℝ)} (hk : KeysNodup l) {a : Atom} {n : ℝ}
    (h : (a, n) ∈ l) : lookupD l a = n := by
  induction l with
  | nil => simp at h
  | cons e r ih =>
    obtain ⟨b, y⟩ := e
    have hk' : KeysNodup r := by
      unfold KeysNodup at hk ⊢; simp only [List.map_cons, List.nodup_cons] at hk; exact hk.2
    rcases List.mem_cons.mp h with h | h
    · cases h; simp [lookupD]
    · have hne : b ≠ a := by
        intro hba; subst hba
        unfold KeysNodup at hk; simp only [List.map_cons, List.nodup_cons] at hk
        exact hk.1 (List.mem_map_of_mem (f := Prod.fst) h)
      simp only [lookupD, hne, if_false]; exact ih hk' h

theorem nodup_of_keysNodup {l : List (Atom × ℝ)} (hk : KeysNodup l) : l.Nodup :=
  List.Nodup.of_map Prod.fst hk

/-- two atom dicts with the same (non-zero) counts are permutations of each other -/
theorem perm_of_same_counts {l₁ l₂ : List (Atom × ℝ)} (h1 : KeysNodup l₁) (h2 : KeysNodup l₂)
    (hnz1 : ∀ e ∈ l₁, e.2 ≠ 0) (hnz2 : ∀ e ∈ l₂, e.2 ≠ 0)
    (hc : ∀ a, lookupD l₁ a = lookupD l₂ a) : l₁.Perm l₂ := by
  apply (List.perm_ext_iff_of_nodup (nodup_of_keysNodup h1) (nodup_of_keysNodup h2)).mpr
  rintro ⟨a, n⟩
  constructor
  · intro h
    have := lookupD_of_mem h1 h
    exact mem_of_lookupD ((hc a).symm.trans this) (hnz1 _ h)
  · intro h
    have := lookupD_of_mem h2 h
    exact mem_of_lookupD ((hc a).trans this) (hnz2 _ h)

/-- **regrouping**: two formula structures – any nesting, any grouping, any order – in which
    every atom has the same total count give the same result -/
theorem regroup_invariant (t : Tbl ℝ) (s₁ s₂ : Items ℝ) (ρ w : ℝ)
    (hc : ∀ a, s₁.cnt a = s₂.cnt a)
    (hnz1 : ∀ e ∈ s₁.atoms, e.2 ≠ 0) (hnz2 : ∀ e ∈ s₂.atoms, e.2 ≠ 0) :
    neutronScattering t s₁.atoms ρ w = neutronScattering t s₂.atoms ρ w := by
  apply perm_invariant
  apply perm_of_same_counts
  · exact Items.keysNodup_countAcc s₁ (by simp [KeysNodup])
  · exact Items.keysNodup_countAcc s₂ (by simp [KeysNodup])
  · exact hnz1
  · exact hnz2
  · intro a; rw [Items.atoms_lookup, Items.atoms_lookup]; exact hc a

/-! ### vector of wavelengths -/

theorem any_missing_iff (t : Tbl ℝ) (atoms : List (Atom × ℝ)) :
    atoms.any (fun e => (t.neutron e.1).isNone) = true ↔ ¬ AllData t atoms := by
  unfold AllData
  simp only [List.any_eq_true, Option.isNone_iff_eq_none]
  constructor
  · rintro ⟨e, he, hn⟩ h; have := h e he; simp [hn] at this
  · intro h; by_contra hc; apply h; intro e he
    cases hn : t.neutron e.1 with
    | none => exact absurd ⟨e, he, hn⟩ hc
    | some r => rfl

theorem sumsAt_go_allData (t : Tbl ℝ) (w : ℝ) (l : List (Atom × ℝ)) (a : Acc ℝ) (h : AllData t l) :
    l.foldl (sumsStep t w) a = accSums t w a l := by
  induction l generalizing a with
  | nil => simp [accSums]
  | cons e r ih =>
    have he : (t.neutron e.1).isSome = true := h e (by simp)
    obtain ⟨rec, hrec⟩ := Option.isSome_iff_exists.mp he
    have hr : AllData t r := fun x hx => h x (by simp [hx])
    simp only [List.foldl, sumsStep, hrec]
    rw [ih _ hr]
    simp only [accSums, pa, hrec, Cx.add, Cx.smul, List.map_cons, List.sum_cons,
      Acc.mk.injEq, Prod.mk.injEq]
    refine ⟨?_, ?_, ⟨?_, ?_⟩, ?_⟩ <;> ring

theorem sumsAt_allData (t : Tbl ℝ) (w : ℝ) (l : List (Atom × ℝ)) (h : AllData t l) :
    sumsAt t w l = accSums t w Acc.zero l := by
  unfold sumsAt; exact sumsAt_go_allData t w l Acc.zero h

theorem molarMassOf_eq (t : Tbl ℝ) (l : List (Atom × ℝ)) :
    molarMassOf t l = (l.map fun e => t.atomMass e.1 * e.2).sum := by
  unfold molarMassOf
  have : ∀ (s0 : ℝ), l.foldl (fun s e => s + t.atomMass e.1 * e.2) s0
      = s0 + (l.map fun e => t.atomMass e.1 * e.2).sum := by
    induction l with
    | nil => intro s0; simp
    | cons e r ih => intro s0; simp only [List.foldl, List.map_cons, List.sum_cons]; rw [ih]; ring
  rw [this]; simp

/-- **vector of wavelengths**: the `i`-th entry of the vector call is the scalar call at the
    `i`-th wavelength (a missing-data or vacuum result is the same for every entry) -/
theorem vector_is_map (t : Tbl ℝ) (atoms : List (Atom × ℝ)) (ρ : ℝ) (ws : List ℝ) (i : Nat)
    (hi : i < ws.length) :
    (neutronScatteringV t atoms ρ ws).get? i = some (neutronScattering t atoms ρ ws[i]) := by
  unfold neutronScatteringV
  by_cases hd : AllData t atoms
  · have hany : atoms.any (fun e => (t.neutron e.1).isNone) = false := by
      rw [Bool.eq_false_iff]; exact fun h => (any_missing_iff t atoms).mp h hd
    rw [neutronScattering_allData t atoms ρ _ hd]
    have hmm : (accSums t ws[i] Acc.zero atoms).molarMass = molarMassOf t atoms := by
      rw [molarMassOf_eq]; simp [accSums, Acc.zero]
    simp only [hany, Bool.false_eq_true, if_false, finish, hmm]
    by_cases hz : molarMassOf t atoms * ρ = 0
    · simp [hz, OutcomeV.get?]
    · simp only [beq_iff_eq, hz, if_false, OutcomeV.get?, List.getElem?_map,
        List.getElem?_eq_getElem hi, Option.map_some, Option.some.injEq, Outcome.ok.injEq]
      unfold entryAt
      rw [sumsAt_allData t _ atoms hd]
      simp only [hmm]
  · have hany : atoms.any (fun e => (t.neutron e.1).isNone) = true := (any_missing_iff t atoms).mpr hd
    rw [neutronScattering_missing t atoms ρ _ hd]
    simp [hany, OutcomeV.get?]

/-- the vector result has one entry per wavelength -/
theorem vector_length (t : Tbl ℝ) (atoms : List (Atom × ℝ)) (ρ : ℝ) (ws : List ℝ) (l : List (Scat ℝ))
    (h : neutronScatteringV t atoms ρ ws = .ok l) : l.length = ws.length := by
  unfold neutronScatteringV at h
  split at h
  · cases h
  · split at h
    · cases h
    · cases h; simp

/-! ### non-negativity -/

theorem calculateScattering_nonneg (n w : ℝ) (b : Cx ℝ) (s : ℝ) (hn : 0 ≤ n) (hw : 0 ≤ w) :
    let r := calculateScattering n w b s
    0 ≤ r.sldIm ∧ 0 ≤ r.sldInc ∧ 0 ≤ r.coh ∧ 0 ≤ r.abs ∧ 0 ≤ r.inc := by
  simp only [calculateScattering, abs_def, sqrt_def, lit]
  have hc := fourPi100_pos
  have h1 : 0 ≤ cabs b * cabs b := mul_self_nonneg _
  have h2 := maxZero_nonneg (s - fourPi100 * (cabs b * cabs b))
  refine ⟨abs_nonneg _, ?_, ?_, ?_, ?_⟩
  · have := Real.sqrt_nonneg (maxZero (s - fourPi100 * (cabs b * cabs b)) / fourPi100)
    positivity
  · positivity
  · have := abs_nonneg b.2; positivity
  · positivity

theorem calculateScattering_pen_pos (n w : ℝ) (b : Cx ℝ) (s : ℝ) (hn : 0 < n) (hw : 0 ≤ w)
    (hs : 0 < s) : 0 < (calculateScattering n w b s).pen := by
  simp only [calculateScattering, abs_def, lit]
  have := abs_nonneg b.2
  have h1 : 0 ≤ n * ((2000:ℕ) * |b.2| * w) := by positivity
  have h2 : 0 < n * s := mul_pos hn hs
  positivity

/-- every atom's total cross section at this wavelength is positive -/
def TotalPos (t : Tbl ℝ) (w : ℝ) (atoms : List (Atom × ℝ)) : Prop :=
  ∀ e ∈ atoms, 0 < (pa t w e.1).2

/-- **non-negativity**: for a physical input (N > 0, λ > 0) whose atoms have positive total cross
    sections, imaginary and incoherent SLD and the three cross sections are ≥ 0 and the
    penetration depth is > 0.  The guard is stated: the result is an `ok` computed from a
    strictly positive number density and total cross section, not a by-product of `1/0 = 0`. -/
theorem nonneg (t : Tbl ℝ) (atoms : List (Atom × ℝ)) (ρ w : ℝ)
    (hd : AllData t atoms) (h : Physical t atoms ρ w) (hs : TotalPos t w atoms) :
    ∃ s, neutronScattering t atoms ρ w = .ok s ∧
      0 ≤ s.sldIm ∧ 0 ≤ s.sldInc ∧ 0 ≤ s.coh ∧ 0 ≤ s.abs ∧ 0 ≤ s.inc ∧ 0 < s.pen := by
  rw [neutronScattering_allData t atoms ρ w hd]
  have hmm : (accSums t w Acc.zero atoms).molarMass = Spec.molarMass t atoms := by
    simp [accSums, Acc.zero, molarMass_spec]
  have hna : (accSums t w Acc.zero atoms).numAtoms = Spec.count atoms := by
    simp [accSums, Acc.zero, count_spec]
  have hv : Spec.molarMass t atoms * ρ ≠ 0 := mul_ne_zero h.molarMass_pos.ne' h.density.ne'
  simp only [finish, hmm, hna, beq_iff_eq, hv, if_false]
  have hNN : Spec.count atoms / cellVolume (Spec.molarMass t atoms) ρ
      = Spec.numberDensity t atoms ρ := by
    unfold Spec.numberDensity Spec.cellVolume cellVolume
    simp only [lit]; push_cast; ring
  rw [hNN]
  have hN := h.numberDensity_pos
  have hsig : 0 < (accSums t w Acc.zero atoms).sigS / Spec.count atoms := by
    apply div_pos _ h.count_pos
    simp only [accSums, Acc.zero, zero_add]
    exact map_sum_pos _ _ h.nonempty (fun e he => mul_pos (h.counts e he) (hs e he))
  refine ⟨_, rfl, ?_⟩
  obtain ⟨a1, a2, a3, a4, a5⟩ := calculateScattering_nonneg (Spec.numberDensity t atoms ρ) w
    (Cx.divS (accSums t w Acc.zero atoms).bc (Spec.count atoms))
    ((accSums t w Acc.zero atoms).sigS / Spec.count atoms) hN.le h.wavelength.le
  exact ⟨a1, a2, a3, a4, a5,
    calculateScattering_pen_pos _ _ _ _ hN h.wavelength.le hsig⟩

/-! ## C17: the composite calculator -/

/-! ### which atoms occur in a structure, and the keys of its atom dict -/

mutual
def fragOccurs (a : Atom) : Frag ℝ → Prop
  | .atom b => b = a
  | .group is => itemsOccurs a is
def itemsOccurs (a : Atom) : Items ℝ → Prop
  | .nil => False
  | .cons _ f r => fragOccurs a f ∨ itemsOccurs a r
end

theorem mem_keys_bump (t : List (Atom × ℝ)) (b : Atom) (x : ℝ) (a : Atom) :
    a ∈ (bump t b x).map Prod.fst ↔ a ∈ t.map Prod.fst ∨ a = b := by
  rw [keys_bump]
  split
  · rename_i h
    constructor
    · intro h'; exact Or.inl h'
    · rintro (h' | h'); exact h'; subst h'; exact h
  · simp

theorem mem_keys_mergeScaled (t p : List (Atom × ℝ)) (c : ℝ) (a : Atom) :
    a ∈ (mergeScaled t p c).map Prod.fst ↔ a ∈ t.map Prod.fst ∨ a ∈ p.map Prod.fst := by
  unfold mergeScaled
  induction p generalizing t with
  | nil => simp
  | cons e r ih =>
    simp only [List.foldl_cons, List.map_cons, List.mem_cons]
    rw [ih, mem_keys_bump]
    constructor
    · rintro ((h | h) | h)
      · exact Or.inl h
      · exact Or.inr (Or.inl h)
      · exact Or.inr (Or.inr h)
    · rintro (h | h | h)
      · exact Or.inl (Or.inl h)
      · exact Or.inl (Or.inr h)
      · exact Or.inr h

mutual
theorem mem_keys_fragCount (f : Frag ℝ) (a : Atom) :
    a ∈ f.count.map Prod.fst ↔ fragOccurs a f := by
  cases f with
  | atom b => simp [Frag.count, fragOccurs, eq_comm]
  | group is =>
    simp only [Frag.count, fragOccurs]
    rw [mem_keys_countAcc]; simp
theorem mem_keys_countAcc (s : Items ℝ) (t : List (Atom × ℝ)) (a : Atom) :
    a ∈ (s.countAcc t).map Prod.fst ↔ a ∈ t.map Prod.fst ∨ itemsOccurs a s := by
  cases s with
  | nil => simp [Items.countAcc, itemsOccurs]
  | cons c f r =>
    simp only [Items.countAcc, itemsOccurs]
    rw [mem_keys_countAcc, mem_keys_mergeScaled, mem_keys_fragCount]
    tauto
end

theorem mem_keys_atoms (s : Items ℝ) (a : Atom) :
    a ∈ s.atoms.map Prod.fst ↔ itemsOccurs a s := by
  unfold Items.atoms; rw [mem_keys_countAcc]; simp

theorem allData_atoms_iff (t : Tbl ℝ) (s : Items ℝ) :
    AllData t s.atoms ↔ ∀ a, itemsOccurs a s → (t.neutron a).isSome = true := by
  unfold AllData
  constructor
  · intro h a ha
    obtain ⟨e, he, hea⟩ := List.mem_map.mp ((mem_keys_atoms s a).mpr ha)
    subst hea; exact h e he
  · intro h e he
    exact h e.1 ((mem_keys_atoms s e.1).mp (List.mem_map_of_mem he))

theorem itemsOccurs_append (s u : Items ℝ) (a : Atom) :
    itemsOccurs a (s.append u) ↔ itemsOccurs a s ∨ itemsOccurs a u := by
  match s with
  | .nil => simp [Items.append, itemsOccurs]
  | .cons c f r =>
    simp only [Items.append, itemsOccurs]
    rw [itemsOccurs_append r u a]; tauto

theorem itemsOccurs_rmulS (n : ℝ) (s : Items ℝ) (a : Atom) :
    itemsOccurs a (rmulS n s) ↔ itemsOccurs a s := by
  unfold rmulS
  by_cases h : (n == 1) = true
  · simp [h]
  · simp only [h, Bool.false_eq_true, if_false]
    match s with
    | .nil => simp
    | .cons q f .nil => simp [itemsOccurs]
    | .cons q f (.cons q' f' r) => simp [itemsOccurs, fragOccurs]

/-- the formula `Σ wᵢ·mᵢ` as Python builds it: `__rmul__` for each product, `__add__` to join -/
noncomputable def weighted : List ℝ → List (Items ℝ) → Items ℝ
  | w :: ws, m :: ms => addS (rmulS w m) (weighted ws ms)
  | _, _ => .nil

theorem itemsOccurs_weighted (ws : List ℝ) (ms : List (Items ℝ)) (h : ws.length = ms.length)
    (a : Atom) : itemsOccurs a (weighted ws ms) ↔ ∃ m ∈ ms, itemsOccurs a m := by
  induction ws generalizing ms with
  | nil =>
    cases ms with
    | nil => simp [weighted, itemsOccurs]
    | cons m r => simp at h
  | cons w r ih =>
    cases ms with
    | nil => simp at h
    | cons m r' =>
      simp only [weighted, addS, itemsOccurs_append, itemsOccurs_rmulS, List.mem_cons,
        exists_eq_or_imp]
      rw [ih r' (by simpa using h)]

theorem flatMass_weighted (f : Atom → ℝ) (ws : List ℝ) (ms : List (Items ℝ)) :
    (weighted ws ms).flatMass f = (List.zipWith (fun w m => w * m.flatMass f) ws ms).sum := by
  induction ws generalizing ms with
  | nil => cases ms <;> simp [weighted, Items.flatMass]
  | cons w r ih =>
    cases ms with
    | nil => simp [weighted, Items.flatMass]
    | cons m r' =>
      simp only [weighted, addS, Items.flatMass_append, flatMass_rmulS, List.zipWith_cons_cons,
        List.sum_cons, ih]
      ring

theorem wsum_atoms (f : Atom → ℝ) (s : Items ℝ) : wsum f s.atoms = s.flatMass f := by
  rw [← massOf_eq_wsum]; exact Items.mass_eq_flat f s

/-! ### the precomputed pieces -/

theorem sumPiece_go_allData (t : Tbl ℝ) (w : ℝ) (l : List (Atom × ℝ)) (a : Acc ℝ)
    (h : AllData t l) : l.foldl (pieceStep t w) (some a) = some (accSums t w a l) := by
  induction l generalizing a with
  | nil => simp [accSums]
  | cons e r ih =>
    have he : (t.neutron e.1).isSome = true := h e (by simp)
    obtain ⟨rec, hrec⟩ := Option.isSome_iff_exists.mp he
    have hr : AllData t r := fun x hx => h x (by simp [hx])
    simp only [List.foldl, pieceStep, hrec]
    rw [ih _ hr]
    simp only [accSums, pa, hrec, Cx.add, Cx.smul, List.map_cons, List.sum_cons, Option.some.injEq,
      Acc.mk.injEq, Prod.mk.injEq]
    refine ⟨?_, ?_, ⟨?_, ?_⟩, ?_⟩ <;> ring

theorem sumPiece_allData (t : Tbl ℝ) (w : ℝ) (l : List (Atom × ℝ)) (h : AllData t l) :
    sumPiece t w l = some (accSums t w Acc.zero l) := sumPiece_go_allData t w l Acc.zero h

theorem foldl_pieceStep_none (t : Tbl ℝ) (w : ℝ) (l : List (Atom × ℝ)) :
    l.foldl (pieceStep t w) none = none := by
  induction l with
  | nil => rfl
  | cons e r ih => simpa [List.foldl, pieceStep] using ih

theorem sumPiece_go_missing (t : Tbl ℝ) (w : ℝ) (l : List (Atom × ℝ)) (a : Option (Acc ℝ))
    (h : ¬ AllData t l) : l.foldl (pieceStep t w) a = none := by
  induction l generalizing a with
  | nil => exact absurd (fun e he => by simp at he) h
  | cons e r ih =>
    by_cases he : (t.neutron e.1).isSome = true
    · have hr : ¬ AllData t r := by
        intro hr; apply h; intro x hx
        rcases List.mem_cons.mp hx with rfl | hx
        · exact he
        · exact hr x hx
      simp only [List.foldl]; exact ih _ hr
    · have : t.neutron e.1 = none := by
        cases hn : t.neutron e.1 with
        | none => rfl
        | some v => simp [hn] at he
      simp only [List.foldl]
      have : pieceStep t w a e = none := by
        unfold pieceStep; cases a <;> simp [this]
      rw [this]; exact foldl_pieceStep_none t w r

theorem sumPiece_missing (t : Tbl ℝ) (w : ℝ) (l : List (Atom × ℝ)) (h : ¬ AllData t l) :
    sumPiece t w l = none := sumPiece_go_missing t w l _ h

theorem mapM_sumPiece_allData (t : Tbl ℝ) (w : ℝ) (ls : List (List (Atom × ℝ)))
    (h : ∀ l ∈ ls, AllData t l) :
    ls.mapM (sumPiece t w) = some (ls.map fun l => accSums t w Acc.zero l) := by
  induction ls with
  | nil => rfl
  | cons l r ih =>
    rw [List.mapM_cons, sumPiece_allData t w l (h l (by simp)), ih (fun x hx => h x (by simp [hx]))]
    rfl

theorem mapM_sumPiece_missing (t : Tbl ℝ) (w : ℝ) (ls : List (List (Atom × ℝ)))
    (h : ∃ l ∈ ls, ¬ AllData t l) : ls.mapM (sumPiece t w) = none := by
  induction ls with
  | nil => obtain ⟨l, hl, _⟩ := h; simp at hl
  | cons l r ih =>
    rw [List.mapM_cons]
    by_cases hl : AllData t l
    · have : ∃ l ∈ r, ¬ AllData t l := by
        obtain ⟨x, hx, hnx⟩ := h
        rcases List.mem_cons.mp hx with rfl | hx
        · exact absurd hl hnx
        · exact ⟨x, hx, hnx⟩
      rw [ih this, sumPiece_allData t w l hl]; rfl
    · rw [sumPiece_missing t w l hl]; rfl

/-! ### the calculator equals the direct calculation -/

/-- what the calculator reports for a direct result: the three SLDs, zeros for the vacuum,
    `(None, None, None)` for missing data -/
noncomputable def compOf : Outcome ℝ → CompOut ℝ
  | .ok s => .ok s.sldRe s.sldIm s.sldInc
  | .vacuum => .zeros
  | .missing => .missing

theorem foldl_add_eq_sum (l : List ℝ) (s0 : ℝ) : l.foldl (· + ·) s0 = s0 + l.sum := by
  induction l generalizing s0 with
  | nil => simp
  | cons x r ih => simp only [List.foldl_cons, List.sum_cons, ih]; ring

theorem dotSum_eq (ws ps : List ℝ) : dotSum ws ps = (List.zipWith (· * ·) ws ps).sum := by
  unfold dotSum; rw [foldl_add_eq_sum]; simp

theorem dotSumC_eq (ws : List ℝ) (ps : List (Cx ℝ)) :
    dotSumC ws ps = (dotSum ws (ps.map Prod.fst), dotSum ws (ps.map Prod.snd)) := by
  unfold dotSumC
  rw [dotSum_eq, dotSum_eq]
  have : ∀ (z : Cx ℝ), (List.zipWith Cx.smul ws ps).foldl Cx.add z
      = (z.1 + (List.zipWith (· * ·) ws (ps.map Prod.fst)).sum,
         z.2 + (List.zipWith (· * ·) ws (ps.map Prod.snd)).sum) := by
    induction ws generalizing ps with
    | nil => intro z; simp
    | cons x r ih =>
      intro z
      cases ps with
      | nil => simp
      | cons y r' =>
        simp only [List.zipWith_cons_cons, List.foldl_cons, List.map_cons, List.sum_cons]
        rw [ih]; simp only [Cx.add, Cx.smul]; ext <;> simp <;> ring
  rw [this]; simp

/-- `Σᵢ wᵢ · (Σ over mᵢ of n·f)` is the sum over the combined formula -/
theorem dotSum_wsum (f : Atom → ℝ) (ws : List ℝ) (ms : List (Items ℝ)) :
    dotSum ws (ms.map fun m => wsum f m.atoms) = wsum f (weighted ws ms).atoms := by
  rw [dotSum_eq, wsum_atoms, flatMass_weighted]
  have : (ms.map fun m => wsum f m.atoms) = ms.map fun m => m.flatMass f := by
    apply List.map_congr_left; intro m _; exact wsum_atoms f m
  rw [this, List.zipWith_map_right]

theorem accSums_zero_eq_wsum (t : Tbl ℝ) (w : ℝ) (l : List (Atom × ℝ)) :
    accSums t w Acc.zero l =
      ⟨wsum t.atomMass l, wsum (fun _ => 1) l,
       (wsum (fun a => (pa t w a).1.1) l, wsum (fun a => (pa t w a).1.2) l),
       wsum (fun a => (pa t w a).2) l⟩ := by
  have hb1 : (l.map fun e => e.2 * (pa t w e.1).1.1).sum = (l.map fun e => (pa t w e.1).1.1 * e.2).sum := by
    congr 1; apply List.map_congr_left; intro e _; ring
  have hb2 : (l.map fun e => e.2 * (pa t w e.1).1.2).sum = (l.map fun e => (pa t w e.1).1.2 * e.2).sum := by
    congr 1; apply List.map_congr_left; intro e _; ring
  have hs : (l.map fun e => e.2 * (pa t w e.1).2).sum = (l.map fun e => (pa t w e.1).2 * e.2).sum := by
    congr 1; apply List.map_congr_left; intro e _; ring
  simp only [accSums, Acc.zero, wsum, zero_add, one_mul, hb1, hb2, hs]

theorem compositeCompute_eq (parts : List (Acc ℝ)) (ws : List ℝ) (ρ w : ℝ) (A : Acc ℝ)
    (h1 : dotSum ws (parts.map (·.molarMass)) = A.molarMass)
    (h2 : dotSum ws (parts.map (·.numAtoms)) = A.numAtoms)
    (h3 : dotSumC ws (parts.map (·.bc)) = A.bc)
    (h4 : dotSum ws (parts.map (·.sigS)) = A.sigS) :
    compositeCompute parts ws ρ = compOf (finish A ρ w) := by
  unfold compositeCompute finish
  simp only [h1, h2, h3, h4]
  by_cases hz : A.molarMass * ρ = 0
  · simp [hz, compOf]
  · simp only [beq_iff_eq, hz, if_false, compOf, calculateScattering, cellVolume]

theorem allData_weighted (t : Tbl ℝ) (ms : List (Items ℝ)) (ws : List ℝ)
    (hlen : ws.length = ms.length) :
    AllData t (weighted ws ms).atoms ↔ ∀ m ∈ ms, AllData t m.atoms := by
  constructor
  · intro hW m hm
    rw [allData_atoms_iff] at hW ⊢
    intro a ha
    exact hW a ((itemsOccurs_weighted ws ms hlen a).mpr ⟨m, hm, ha⟩)
  · intro hd
    rw [allData_atoms_iff]
    intro a ha
    obtain ⟨m, hm, hma⟩ := (itemsOccurs_weighted ws ms hlen a).mp ha
    exact (allData_atoms_iff t m).mp (hd m hm) a hma

/-- **C17**: the calculator built from the materials and applied to weights `ws` and density `ρ`
    returns the real, imaginary and incoherent SLD of the direct calculation on the formula
    `Σ wᵢ·mᵢ`: `0, 0, 0` where the direct calculation returns the vacuum tuple and
    `(None, None, None)` where it does (some material contains an atom without SLD) -/
theorem composite_eq_direct (t : Tbl ℝ) (ms : List (Items ℝ)) (ws : List ℝ) (ρ w : ℝ)
    (hlen : ws.length = ms.length) :
    compositeSld t (ms.map Items.atoms) w ws ρ
      = compOf (neutronScattering t (weighted ws ms).atoms ρ w) := by
  by_cases hd : ∀ m ∈ ms, AllData t m.atoms
  · have hW : AllData t (weighted ws ms).atoms := (allData_weighted t ms ws hlen).mpr hd
    unfold compositeSld
    rw [mapM_sumPiece_allData t w _ (by
      intro l hl; obtain ⟨m, hm, rfl⟩ := List.mem_map.mp hl; exact hd m hm)]
    rw [neutronScattering_allData t _ ρ w hW]
    simp only [List.map_map]
    have hproj : ∀ (g : Acc ℝ → ℝ) (f : Atom → ℝ), (∀ l, g (accSums t w Acc.zero l) = wsum f l) →
        dotSum ws ((ms.map ((fun l => accSums t w Acc.zero l) ∘ Items.atoms)).map g)
          = g (accSums t w Acc.zero (weighted ws ms).atoms) := by
      intro g f hg
      rw [hg, ← dotSum_wsum, List.map_map]
      congr 1; apply List.map_congr_left; intro m _; simp [hg]
    apply compositeCompute_eq
    · exact hproj (·.molarMass) t.atomMass (fun l => by rw [accSums_zero_eq_wsum])
    · exact hproj (·.numAtoms) (fun _ => 1) (fun l => by rw [accSums_zero_eq_wsum])
    · rw [dotSumC_eq]
      have h1 := hproj (fun a => a.bc.1) (fun a => (pa t w a).1.1) (fun l => by rw [accSums_zero_eq_wsum])
      have h2 := hproj (fun a => a.bc.2) (fun a => (pa t w a).1.2) (fun l => by rw [accSums_zero_eq_wsum])
      ext
      · simpa [List.map_map, Function.comp_def] using h1
      · simpa [List.map_map, Function.comp_def] using h2
    · exact hproj (·.sigS) (fun a => (pa t w a).2) (fun l => by rw [accSums_zero_eq_wsum])
  · have hex : ∃ l ∈ ms.map Items.atoms, ¬ AllData t l := by
      by_contra hc
      apply hd; intro m hm
      by_contra hm'
      exact hc ⟨m.atoms, List.mem_map_of_mem hm, hm'⟩
    have hW : ¬ AllData t (weighted ws ms).atoms :=
      fun hW => hd ((allData_weighted t ms ws hlen).mp hW)
    unfold compositeSld
    rw [mapM_sumPiece_missing t w _ hex, neutronScattering_missing t _ ρ w hW]
    rfl

/-- **zeros**: zero total weight (all weights 0) or zero density gives `0, 0, 0`, like the
    direct calculation's vacuum tuple -/
theorem zero_gives_zeros (t : Tbl ℝ) (ms : List (Items ℝ)) (ws : List ℝ) (ρ w : ℝ)
    (hlen : ws.length = ms.length) (hd : ∀ m ∈ ms, AllData t m.atoms)
    (hz : ρ = 0 ∨ ∀ x ∈ ws, x = 0) :
    compositeSld t (ms.map Items.atoms) w ws ρ = .zeros ∧
      neutronSld t (weighted ws ms).atoms ρ w = some (0, 0, 0) := by
  have hW : AllData t (weighted ws ms).atoms := (allData_weighted t ms ws hlen).mpr hd
  have hvac : neutronScattering t (weighted ws ms).atoms ρ w = .vacuum := by
    rw [vacuum_iff t _ ρ w hW]
    rcases hz with hz | hz
    · rw [hz, mul_zero]
    · have : Spec.molarMass t (weighted ws ms).atoms = 0 := by
        rw [← molarMass_spec]
        have := wsum_atoms t.atomMass (weighted ws ms)
        unfold wsum at this; rw [this, flatMass_weighted]
        have hall : ∀ y ∈ List.zipWith (fun w m => w * Items.flatMass t.atomMass m) ws ms, y = 0 := by
          intro y hy
          obtain ⟨i, hi, rfl⟩ := List.mem_iff_getElem.mp hy
          simp only [List.getElem_zipWith]
          rw [hz _ (List.getElem_mem _)]; ring
        exact List.sum_eq_zero hall
      rw [this, zero_mul]
  refine ⟨?_, ?_⟩
  · rw [composite_eq_direct t ms ws ρ w hlen, hvac]; rfl
  · unfold neutronSld; rw [hvac]; rfl

/-! ### vector wavelength for the calculator -/

theorem any_any_missing_iff (t : Tbl ℝ) (mats : List (List (Atom × ℝ))) :
    mats.any (fun m => m.any fun e => (t.neutron e.1).isNone) = true ↔ ∃ l ∈ mats, ¬ AllData t l := by
  simp only [List.any_eq_true]
  constructor
  · rintro ⟨m, hm, h⟩
    exact ⟨m, hm, (any_missing_iff t m).mp (by simpa [List.any_eq_true] using h)⟩
  · rintro ⟨m, hm, h⟩
    exact ⟨m, hm, by simpa [List.any_eq_true] using (any_missing_iff t m).mpr h⟩

theorem compositeCompute_ok_of_nonzero (parts : List (Acc ℝ)) (ws : List ℝ) (ρ : ℝ)
    (h : dotSum ws (parts.map (·.molarMass)) * ρ ≠ 0) :
    ∃ a b c, compositeCompute parts ws ρ = .ok a b c := by
  unfold compositeCompute
  simp only [beq_iff_eq, h, if_false]
  exact ⟨_, _, _, rfl⟩

theorem compositeCompute_zero (parts : List (Acc ℝ)) (ws : List ℝ) (ρ : ℝ)
    (h : dotSum ws (parts.map (·.molarMass)) * ρ = 0) :
    compositeCompute parts ws ρ = .zeros := by
  unfold compositeCompute
  simp [h]

/-- **vector wavelength**: the `i`-th entry of the calculator built for a wavelength vector is the
    calculator built for the `i`-th wavelength; the result has one entry per wavelength -/
theorem composite_vector_is_map (t : Tbl ℝ) (mats : List (List (Atom × ℝ))) (ws weights : List ℝ)
    (ρ : ℝ) (i : Nat) (hi : i < ws.length) :
    (compositeSldV t mats ws weights ρ).get? i = some (compositeSld t mats ws[i] weights ρ) := by
  unfold compositeSldV compositeSld
  by_cases hd : ∀ l ∈ mats, AllData t l
  · have hany : mats.any (fun m => m.any fun e => (t.neutron e.1).isNone) = false := by
      rw [Bool.eq_false_iff]
      intro h
      obtain ⟨l, hl, hn⟩ := (any_any_missing_iff t mats).mp h
      exact hn (hd l hl)
    rw [mapM_sumPiece_allData t ws[i] mats hd]
    have hparts : mats.map (sumsAt t ws[i]) = mats.map fun l => accSums t ws[i] Acc.zero l := by
      apply List.map_congr_left; intro l hl; exact sumsAt_allData t _ l (hd l hl)
    have hmm : (mats.map fun l => accSums t ws[i] Acc.zero l).map (·.molarMass)
        = mats.map (molarMassOf t) := by
      rw [List.map_map]; apply List.map_congr_left; intro l _
      simp [molarMassOf_eq, accSums, Acc.zero]
    simp only [hany, Bool.false_eq_true, if_false]
    by_cases hz : dotSum weights (mats.map (molarMassOf t)) * ρ = 0
    · simp only [beq_iff_eq, hz, if_true, CompOutV.get?]
      rw [compositeCompute_zero _ _ _ (by rw [hmm]; exact hz)]
    · simp only [beq_iff_eq, hz, if_false, CompOutV.get?, List.getElem?_map,
        List.getElem?_eq_getElem hi, Option.map_some, Option.some.injEq]
      rw [hparts]
      obtain ⟨a, b, c, habc⟩ := compositeCompute_ok_of_nonzero
        (mats.map fun l => accSums t ws[i] Acc.zero l) weights ρ (by rw [hmm]; exact hz)
      rw [habc]; rfl
  · have hex : ∃ l ∈ mats, ¬ AllData t l := by
      by_contra hc; apply hd; intro l hl; by_contra hn; exact hc ⟨l, hl, hn⟩
    have hany : mats.any (fun m => m.any fun e => (t.neutron e.1).isNone) = true :=
      (any_any_missing_iff t mats).mpr hex
    rw [mapM_sumPiece_missing t _ mats hex]
    simp [hany, CompOutV.get?]

theorem composite_vector_length (t : Tbl ℝ) (mats : List (List (Atom × ℝ))) (ws weights : List ℝ)
    (ρ : ℝ) (l : List (ℝ × ℝ × ℝ)) (h : compositeSldV t mats ws weights ρ = .ok l) :
    l.length = ws.length := by
  unfold compositeSldV at h
  split at h
  · cases h
  · simp only at h
    split at h
    · cases h
    · cases h; simp

/-! ## C16: D2O contrast -/

theorem mixValues_zero (a b : Sld3 ℝ) : mixValues a b 0 = b := by
  unfold mixValues; ext <;> simp

theorem mixValues_one (a b : Sld3 ℝ) : mixValues a b 1 = a := by
  unfold mixValues; ext <;> simp

/-- at volume fraction 0 the solution is the H2O/D2O solvent mixture -/
theorem vf0_is_solvent (t : Tbl ℝ) (c : Compound ℝ) (w d : ℝ) :
    d2oSld t c w 0 d = (d2oSlds t c w).map fun s => mixValues s.2.1 s.1 d := by
  unfold d2oSld
  cases d2oSlds t c w with
  | none => rfl
  | some s => obtain ⟨h2o, d2o, hs, ds⟩ := s; simp [mixValues_zero]

/-- at volume fraction 1 the solution is the solute: the D- and H-substituted compounds mixed
    by the D2O fraction -/
theorem vf1_is_solute (t : Tbl ℝ) (c : Compound ℝ) (w d : ℝ) :
    d2oSld t c w 1 d = (d2oSlds t c w).map fun s => mixValues s.2.2.2 s.2.2.1 d := by
  unfold d2oSld
  cases d2oSlds t c w with
  | none => rfl
  | some s => obtain ⟨h2o, d2o, hs, ds⟩ := s; simp [mixValues_one]

/-- in between the three SLDs mix linearly in the volume fraction -/
theorem linear_in_volume_fraction (t : Tbl ℝ) (c : Compound ℝ) (w vf d : ℝ) (s1 s0 : Sld3 ℝ)
    (h1 : d2oSld t c w 1 d = some s1) (h0 : d2oSld t c w 0 d = some s0) :
    d2oSld t c w vf d = some (mixValues s1 s0 vf) := by
  rw [vf1_is_solute] at h1; rw [vf0_is_solvent] at h0
  unfold d2oSld
  cases hs : d2oSlds t c w with
  | none => rw [hs] at h1; cases h1
  | some s =>
    obtain ⟨h2o, d2o, hsld, dsld⟩ := s
    rw [hs] at h1 h0
    simp only [Option.map_some, Option.some.injEq] at h1 h0 ⊢
    rw [← h1, ← h0]

/-- the denominator of the match point: `SLD(D) − SLD(H) + SLD(H2O) − SLD(D2O)` (real parts) -/
noncomputable def matchDenominator (s : Sld3 ℝ × Sld3 ℝ × Sld3 ℝ × Sld3 ℝ) : ℝ :=
  s.2.2.2.1 - s.2.2.1.1 + s.1.1 - s.2.1.1

/-- **match point**: at the reported D2O fraction the real SLD of the solution is the same for
    every volume fraction, namely the reported SLD -/
theorem match_point_independent_of_vf (t : Tbl ℝ) (c : Compound ℝ) (w : ℝ)
    (s : Sld3 ℝ × Sld3 ℝ × Sld3 ℝ × Sld3 ℝ) (hs : d2oSlds t c w = some s)
    (hden : matchDenominator s ≠ 0) (f sld : ℝ) (hm : d2oMatch t c w = some (f, sld)) (vf : ℝ) :
    (d2oSld t c w vf f).map (·.1) = some sld := by
  obtain ⟨h2o, d2o, hsld, dsld⟩ := s
  unfold d2oMatch at hm; unfold d2oSld
  rw [hs] at hm ⊢
  simp only [Option.map_some, Option.some.injEq, Prod.mk.injEq] at hm ⊢
  obtain ⟨hf, hsl⟩ := hm
  rw [hf] at hsl
  rw [← hsl]
  simp only [mixValues]
  simp only [matchDenominator] at hden
  have hf' : f * (dsld.1 - hsld.1 + h2o.1 - d2o.1) = h2o.1 - hsld.1 := by
    rw [← hf]; field_simp
  have : dsld.1 * f + hsld.1 * (1 - f) = d2o.1 * f + h2o.1 * (1 - f) := by linarith
  rw [← this]; ring

/-- … and it is the only such fraction: if the real SLD at D2O fraction `d` is the same at volume
    fractions 0 and 1, then `d` is the reported match point -/
theorem match_point_unique (t : Tbl ℝ) (c : Compound ℝ) (w : ℝ)
    (s : Sld3 ℝ × Sld3 ℝ × Sld3 ℝ × Sld3 ℝ) (hs : d2oSlds t c w = some s)
    (hden : matchDenominator s ≠ 0) (f sld : ℝ) (hm : d2oMatch t c w = some (f, sld)) (d : ℝ)
    (heq : (d2oSld t c w 0 d).map (·.1) = (d2oSld t c w 1 d).map (·.1)) : d = f := by
  obtain ⟨h2o, d2o, hsld, dsld⟩ := s
  unfold d2oMatch at hm; unfold d2oSld at heq
  rw [hs] at hm heq
  simp only [Option.map_some, Option.some.injEq, Prod.mk.injEq, mixValues] at hm heq
  obtain ⟨hf, _⟩ := hm
  simp only [matchDenominator] at hden
  rw [← hf, eq_div_iff hden]
  linarith

/-! ### fasta.Molecule reports the same numbers -/

/-- the two modules use the same solvent literals -/
theorem fasta_water_eq_nsf_water :
    (PtGen.fasta_H2O_natural_density : ℝ) = PtGen.nsf_H2O_natural_density ∧
    (PtGen.fasta_D2O_natural_density : ℝ) = PtGen.nsf_D2O_natural_density := by
  unfold PtGen.fasta_H2O_natural_density PtGen.nsf_H2O_natural_density
    PtGen.fasta_D2O_natural_density PtGen.nsf_D2O_natural_density
  constructor <;> norm_num

theorem fastaWaterSld_eq (t : Tbl ℝ) (h : Atom) (nd : ℝ) :
    fastaWaterSld t h nd = (compoundSld t (water t h nd) PtGen.ABSORPTION_WAVELENGTH).map (·.1) := rfl

/-- `Molecule.sld`, `.Dsld` are the real SLDs of the H- and D-substituted forms and
    `.D2Omatch` is `100 ×` the match fraction of `D2O_match` (default wavelength) -/
theorem fasta_match_is_percentage (t : Tbl ℝ) (m : Compound ℝ) (mol : Molecule ℝ)
    (hmol : molecule t m = some mol) :
    ∃ s f sld, d2oSlds t m PtGen.ABSORPTION_WAVELENGTH = some s ∧
      d2oMatch t m PtGen.ABSORPTION_WAVELENGTH = some (f, sld) ∧
      mol.sld = s.2.2.1.1 ∧ mol.dsld = s.2.2.2.1 ∧ mol.d2oMatch = 100 * f := by
  obtain ⟨e1, e2⟩ := fasta_water_eq_nsf_water
  unfold molecule at hmol
  simp only [fastaWaterSld_eq, e1, e2] at hmol
  unfold d2oMatch d2oSlds
  cases h1 : compoundSld t (water t atomH PtGen.nsf_H2O_natural_density) PtGen.ABSORPTION_WAVELENGTH with
  | none => simp [h1] at hmol
  | some a =>
    cases h2 : compoundSld t (water t atomD PtGen.nsf_D2O_natural_density) PtGen.ABSORPTION_WAVELENGTH with
    | none => simp [h1, h2] at hmol
    | some b =>
      cases h3 : compoundSld t (replace t.atomMass m atomH1 atomH 1) PtGen.ABSORPTION_WAVELENGTH with
      | none => simp [h1, h2, h3] at hmol
      | some hsl =>
        cases h4 : compoundSld t (replace t.atomMass m atomH1 atomD 1) PtGen.ABSORPTION_WAVELENGTH with
        | none => simp [h1, h2, h3, h4] at hmol
        | some dsl =>
          simp only [h1, h2, h3, h4, Option.map_some, Option.some.injEq] at hmol
          refine ⟨(a, b, hsl, dsl), _, _, rfl, rfl, ?_, ?_, ?_⟩
          · rw [← hmol]
          · rw [← hmol]
          · rw [← hmol]; simp only [lit]; push_cast; ring

/-- `Molecule.D2Osld(vf, d)` is the real part of `D2O_sld(labile formula, vf, d)` -/
theorem fasta_D2Osld_eq (t : Tbl ℝ) (m : Compound ℝ) (vf d : ℝ) :
    moleculeD2Osld t m vf d = (d2oSld t m PtGen.ABSORPTION_WAVELENGTH vf d).map (·.1) := by
  obtain ⟨e1, e2⟩ := fasta_water_eq_nsf_water
  unfold moleculeD2Osld molecule d2oSld d2oSlds
  simp only [fastaWaterSld_eq, e1, e2]
  cases h1 : compoundSld t (water t atomH PtGen.nsf_H2O_natural_density) PtGen.ABSORPTION_WAVELENGTH with
  | none => simp
  | some a =>
    cases h2 : compoundSld t (water t atomD PtGen.nsf_D2O_natural_density) PtGen.ABSORPTION_WAVELENGTH with
    | none => simp
    | some b =>
      cases h3 : compoundSld t (replace t.atomMass m atomH1 atomH 1) PtGen.ABSORPTION_WAVELENGTH with
      | none => simp
      | some hsl =>
        cases h4 : compoundSld t (replace t.atomMass m atomH1 atomD 1) PtGen.ABSORPTION_WAVELENGTH with
        | none => simp
        | some dsl =>
          simp only [Option.map_some, Option.some.injEq, mixValues]
          ring

end PtProofs.Neutron
