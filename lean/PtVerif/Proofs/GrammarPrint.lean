import PtVerif.Proofs.GrammarFuel
import PtVerif.Proofs.PrintNum
/-!
# Parsing what the printer wrote (C13): `parse T (strItems T s) = norm (roundItems s)`

Structural induction over the nested formula; the induction hypothesis speaks about the two
greedy loops of the grammar at once (`pMore`: groups of a composite; `pTail`: the element loop
of an implicit group followed by the remaining groups), each for all sufficiently large fuel.
-/
namespace PtModel.Grammar
open PtModel PtModel.Print

/-! ## `Items.append` -/

theorem append_nil' : ∀ (s : Items Cnt), s.append .nil = s
  | .nil => rfl
  | .cons c f r => by simp [Items.append, append_nil' r]

theorem append_assoc' : ∀ (s t u : Items Cnt), (s.append t).append u = s.append (t.append u)
  | .nil, _, _ => rfl
  | .cons c f r, t, u => by simp [Items.append, append_assoc' r t u]

@[simp] theorem nil_append' (t : Items Cnt) : (Items.nil).append t = t := rfl
@[simp] theorem cons_append' (c : Cnt) (f : Frag Cnt) (r t : Items Cnt) :
    (Items.cons c f r).append t = .cons c f (r.append t) := rfl

/-! ## what follows an item of a printed formula -/

/-- an upper-case letter, a parenthesis, or the end -/
def TailOK (r : List Char) : Prop :=
  ∀ c, r.head? = some c → isUp c = true ∨ c.toNat = 40 ∨ c.toNat = 41

theorem TailOK.nil : TailOK [] := by intro c h; simp at h

theorem TailOK.noNum {r : List Char} (h : TailOK r) : NoNumHead r := by
  intro c hc
  rcases h c hc with h | h | h
  · rw [isUp_iff] at h; rw [isDig_false_iff]; omega
  · rw [isDig_false_iff]; omega
  · rw [isDig_false_iff]; omega

theorem TailOK.noLo {r : List Char} (h : TailOK r) : NoLoHead r := by
  intro c hc
  rcases h c hc with h | h | h
  · rw [isUp_iff] at h; rw [isLo_false_iff]; omega
  · rw [isLo_false_iff]; omega
  · rw [isLo_false_iff]; omega

theorem TailOK.noWs {r : List Char} (h : TailOK r) : NoWsHead r := by
  intro c hc
  rcases h c hc with h | h | h
  · exact isWs_false_of_isUp h
  · rw [isWs_false_iff]; omega
  · rw [isWs_false_iff]; omega

theorem TailOK.ne {r : List Char} (h : TailOK r) (k : Nat) (hk : k < 40 ∨ (41 < k ∧ k < 65) ∨ 90 < k) :
    ∀ c, r.head? = some c → c.toNat ≠ k := by
  intro c hc
  rcases h c hc with h | h | h
  · rw [isUp_iff] at h; omega
  · omega
  · omega

/-! ## one element -/

theorem pElement_of_parts (T : Table) (s r1 r4 : List Char) (e : Entry) (c : Cnt) (x : Atom)
    (hS : pSymbol T s = .ok (e, r1))
    (hC : pCount (pIon (pIsotope r1).2).2 = .ok (c, r4))
    (hV : convertElement e (pIsotope r1).1 (pIon (pIsotope r1).2).1 = .ok x) :
    pElement T s = .ok ((c, x), r4) := by
  unfold pElement
  rw [hS]
  simp only
  rw [hC]
  simp only
  rw [hV]

theorem pIon_plain (m : Option Nat) (hm : ∀ k, m = some k → 0 < k) (sg : Char) (hsg : sg = '+' ∨ sg = '-')
    (rest : List Char) :
    pIon ('{' :: (magText m ++ sg :: '}' :: rest)) =
      ((if sg = '+' then ((m.getD 1 : Nat) : Int) else -((m.getD 1 : Nat) : Int)), rest) := by
  simpa using pIon_tag m hm sg hsg [] [] rest AllWs.nil AllWs.nil

/-- the charge tag read back -/
theorem pIon_chargeText (q : Int) (rest : List Char) (hr : ∀ c, rest.head? = some c → c.toNat ≠ 123) :
    pIon (chargeText q ++ rest) = (q, rest) := by
  unfold chargeText
  by_cases hq : q = 0
  · simp only [hq, if_true, List.nil_append]
    exact pIon_none rest hr
  · simp only [hq, if_false]
    have hminus : ¬ ('-' = '+') := by decide
    by_cases hm : 1 < q.natAbs <;> by_cases hp : 0 < q
    · have h := pIon_plain (some q.natAbs) (by intro k hk; simp at hk; omega) '+' (Or.inl rfl) rest
      simp only [if_true, Option.getD_some, magText] at h
      simp only [hm, hp, if_true, List.cons_append, List.append_assoc, List.nil_append]
      rw [h]; congr 1; omega
    · have h := pIon_plain (some q.natAbs) (by intro k hk; simp at hk; omega) '-' (Or.inr rfl) rest
      simp only [hminus, if_false, Option.getD_some, magText] at h
      simp only [hm, hp, if_true, if_false, List.cons_append, List.append_assoc, List.nil_append]
      rw [h]; congr 1; omega
    · have h := pIon_plain none (by intro k hk; simp at hk) '+' (Or.inl rfl) rest
      simp only [if_true, Option.getD_none, magText] at h
      simp only [hm, hp, if_true, if_false, List.cons_append, List.append_assoc, List.nil_append]
      simp only [List.nil_append] at h
      rw [h]; congr 1; omega
    · have h := pIon_plain none (by intro k hk; simp at hk) '-' (Or.inr rfl) rest
      simp only [hminus, if_false, Option.getD_none, magText] at h
      simp only [hm, hp, if_false, List.cons_append, List.append_assoc, List.nil_append]
      simp only [List.nil_append] at h
      rw [h]; congr 1; omega

/-- the isotope tag read back -/
theorem pIsotope_tagText (a : Nat) (ha : 0 < a) (rest : List Char) :
    pIsotope ('[' :: natDigits a ++ [']'] ++ rest) = (a, rest) := by
  have := pIsotope_tag a ha [] [] rest AllWs.nil AllWs.nil
  simpa using this

theorem find?_mem_prop {T : Table} {p : Entry → Bool} {e : Entry} (h : T.find? p = some e) :
    e ∈ T ∧ p e = true := ⟨List.mem_of_find?_eq_some h, List.find?_some h⟩

theorem wf_lookup {T : Table} (hT : T.wf = true) {e : Entry} (he : e ∈ T) : T.lookup e.sym = some e := by
  unfold Table.wf at hT
  rw [List.all_eq_true] at hT
  simpa using hT e he

/-- the head of a symbol the regex reads is an upper-case letter -/
theorem symOK_head {s : List Char} (h : symOK s = true) : ∃ u cs, s = u :: cs ∧ isUp u = true := by
  match s, h with
  | [u], h => exact ⟨u, [], rfl, by simpa [symOK] using h⟩
  | [u, l], h => exact ⟨u, [l], rfl, by simp [symOK] at h; exact h.1⟩

/-- how a nameable atom is written, and that the parts read back to it -/
theorem atom_parts (T : Table) (hT : T.wf = true) (x : Atom) (hx : nameable T x = true) :
    ∃ (e : Entry) (tag : List Char) (iso : Nat),
      T.lookup e.sym = some e ∧ symOK e.sym = true ∧ isoText T x.z x.a = e.sym ++ tag ∧
      (∀ rest, (∀ c, rest.head? = some c → c.toNat ≠ 91) → pIsotope (tag ++ rest) = (iso, rest)) ∧
      (∀ c, tag.head? = some c → isLo c = false) ∧
      convertElement e iso x.q = .ok x := by
  unfold nameable at hx
  split at hx
  · simp at hx
  · rename_i e0 h0
    obtain ⟨hm0, hp0⟩ := find?_mem_prop h0
    simp only [decide_eq_true_eq] at hp0
    simp only [Bool.and_eq_true] at hx
    obtain ⟨hs0, hx⟩ := hx
    by_cases ha : x.a = 0
    · simp only [ha, if_true, decide_eq_true_eq] at hx
      refine ⟨e0, [], 0, wf_lookup hT hm0, hs0, ?_, ?_, ?_, ?_⟩
      · simp only [isoText, ha, elemSym, h0, if_true, List.append_nil]
      · intro rest hr; simpa using pIsotope_none rest hr
      · intro c hc; simp at hc
      · unfold convertElement
        have : ¬ (x.q ≠ 0 ∧ x.q ∉ e0.ions) := by
          rcases hx with h | h
          · simp [h]
          · simp [h]
        simp only [ne_eq, not_true_eq_false, if_false, this]
        cases x; simp_all
    · simp only [ha, if_false] at hx
      split at hx
      · rename_i e1 h1
        obtain ⟨hm1, hp1⟩ := find?_mem_prop h1
        simp only [decide_eq_true_eq] at hp1
        simp only [Bool.and_eq_true, decide_eq_true_eq] at hx
        refine ⟨e1, [], 0, wf_lookup hT hm1, hx.1, ?_, ?_, ?_, ?_⟩
        · simp only [isoText, ha, h1, if_false, List.append_nil]
        · intro rest hr; simpa using pIsotope_none rest hr
        · intro c hc; simp at hc
        · unfold convertElement
          have : ¬ (x.q ≠ 0 ∧ x.q ∉ e1.ions) := by
            rcases hx.2 with h | h
            · simp [h]
            · simp [h]
          simp only [ne_eq, not_true_eq_false, if_false, this]
          cases x; simp_all
      · rename_i h1
        simp only [Bool.and_eq_true, decide_eq_true_eq] at hx
        refine ⟨e0, '[' :: natDigits x.a ++ [']'], x.a, wf_lookup hT hm0, hs0, ?_, ?_, ?_, ?_⟩
        · simp only [isoText, ha, h1, elemSym, h0, if_false, List.append_assoc, List.cons_append]
        · intro rest _; exact pIsotope_tagText x.a (by omega) rest
        · intro c hc; simp at hc; subst hc; decide
        · unfold convertElement
          have : ¬ (x.q ≠ 0 ∧ x.q ∉ e0.ions) := by
            rcases hx.2 with h | h
            · simp [h]
            · simp [h]
          simp only [ne_eq, ha, not_false_eq_true, if_true, hp0.2, not_true_eq_false, if_false, hx.1, this]
          cases x; simp_all

/-- the text of the count as `_str_atoms` writes it -/
def cntText (c : Q) : List Char := if c.isOne then [] else strCount c

theorem chargeText_head (q : Int) : ∀ c, (chargeText q).head? = some c → c.toNat = 123 := by
  intro c hc
  unfold chargeText at hc
  split at hc
  · simp at hc
  · simp at hc; subst hc; rfl

theorem showCnt_head (c : Cnt) : ∃ d ds, showCnt c = d :: ds ∧ isDig d = true := by
  unfold showCnt
  split
  · obtain ⟨d, ds, h, hd, _⟩ := natDigits_head_dig c.num
    exact ⟨d, ds, h, hd⟩
  · obtain ⟨d, ds, h, hd, _⟩ := natDigits_head_dig (c.num / 10 ^ c.dec)
    exact ⟨d, ds ++ '.' :: padDigits c.dec (c.num % 10 ^ c.dec), by rw [h]; rfl, hd⟩

/-- the head of `tag ++ rest` when `tag`'s own head (if any) satisfies `P` and so does `rest`'s -/
theorem head_append_cases {P : Char → Prop} (a b : List Char)
    (ha : ∀ c, a.head? = some c → P c) (hb : ∀ c, b.head? = some c → P c) :
    ∀ c, (a ++ b).head? = some c → P c := by
  intro c hc
  cases a with
  | nil => exact hb c (by simpa using hc)
  | cons x xs => exact ha c (by simpa using hc)

/-- an atom with its count, as printed, is read back as one `element` -/
theorem pElement_atom (T : Table) (hT : T.wf = true) (x : Atom) (hx : nameable T x = true)
    (c : Q) (hn : 0 < c.num) (hd : 0 < c.den) (tail : List Char) (ht : TailOK tail) :
    pElement T (atomText T x ++ (cntText c ++ tail)) = .ok ((round6 c, x), tail) := by
  obtain ⟨e, tag, iso, hl, hs, htxt, hiso, htag, hconv⟩ := atom_parts T hT x hx
  -- the text after the charge tag
  have hcnt : pCount (cntText c ++ tail) = .ok (round6 c, tail) := by
    unfold cntText
    by_cases h1 : c.isOne = true
    · simp only [h1, if_true, List.nil_append]
      have : c.num = c.den := by simpa [Q.isOne] using h1
      have hc : c = ⟨c.den, c.den⟩ := by cases c; simp_all
      rw [hc, round6_one _ hd]
      exact pCount_default tail ht.noNum
    · simp only [h1]
      exact pCount_showCnt (round6 c) (fun _ => round6_pos c hn hd) tail ht.noNum
  have hcnthead : ∀ k, k = 91 ∨ k = 123 ∨ (97 ≤ k ∧ k ≤ 122) →
      ∀ ch, (cntText c ++ tail).head? = some ch → ch.toNat ≠ k := by
    intro k hk
    apply head_append_cases
    · intro ch hch
      unfold cntText at hch
      split at hch
      · simp at hch
      · obtain ⟨d, ds, hsd, hdd⟩ := showCnt_head (round6 c)
        unfold strCount at hch
        rw [hsd] at hch; simp at hch; subst hch
        rw [isDig_iff] at hdd; omega
    · exact ht.ne k (by omega)
  -- after the isotope tag: the charge tag or the count
  have hafter_iso : ∀ ch, (chargeText x.q ++ (cntText c ++ tail)).head? = some ch → ch.toNat ≠ 91 := by
    apply head_append_cases
    · intro ch hch; have := chargeText_head x.q ch hch; omega
    · exact hcnthead 91 (by omega)
  have hS : pSymbol T (atomText T x ++ (cntText c ++ tail)) =
      .ok (e, tag ++ (chargeText x.q ++ (cntText c ++ tail))) := by
    have := pSymbol_sym T e hl hs [] (tag ++ (chargeText x.q ++ (cntText c ++ tail))) AllWs.nil (by
      apply head_append_cases (P := fun ch => isLo ch = false)
      · exact htag
      · apply head_append_cases (P := fun ch => isLo ch = false)
        · intro ch hch; have := chargeText_head x.q ch hch; rw [isLo_false_iff]; omega
        · intro ch hch
          rw [isLo_false_iff]
          by_contra hcon
          exact hcnthead ch.toNat (by omega) ch hch rfl)
    simpa [atomText, htxt, List.append_assoc] using this
  have hI := hiso (chargeText x.q ++ (cntText c ++ tail)) hafter_iso
  have hQ := pIon_chargeText x.q (cntText c ++ tail) (hcnthead 123 (by omega))
  apply pElement_of_parts T _ _ tail e (round6 c) x hS
  · rw [hI]; simp only; rw [hQ]; exact hcnt
  · rw [hI]; simp only; rw [hQ]; exact hconv


/-! ## the loops at a parenthesis, at the end, at an upper-case letter -/

theorem pSymbol_fail (T : Table) (s : List Char) (hw : NoWsHead s)
    (h : ∀ c, s.head? = some c → isUp c = false) : pSymbol T s = .error .fail := by
  unfold pSymbol
  rw [skipWs_of_noWsHead s hw]
  cases s with
  | nil => rfl
  | cons c cs => simp [h c rfl]

/-- a parenthesis or the end of the text -/
def StopHead (s : List Char) : Prop := ∀ c, s.head? = some c → c.toNat = 40 ∨ c.toNat = 41

theorem StopHead.tailOK {s : List Char} (h : StopHead s) : TailOK s :=
  fun c hc => Or.inr (h c hc)

theorem StopHead.notUp {s : List Char} (h : StopHead s) : ∀ c, s.head? = some c → isUp c = false := by
  intro c hc
  have := h c hc
  cases hu : isUp c with
  | false => rfl
  | true => rw [isUp_iff] at hu; omega

theorem pElement_stop (T : Table) (s : List Char) (h : StopHead s) : pElement T s = .error .fail := by
  unfold pElement
  rw [pSymbol_fail T s h.tailOK.noWs h.notUp]

theorem pElements_stop (T : Table) (n : Nat) (s : List Char) (h : StopHead s) :
    pElements T n s = .ok (.nil, s) := by
  cases n with
  | zero => rfl
  | succ n => simp [pElements, pElement_stop T s h]

theorem skipSep_of_tailOK (s : List Char) (h : TailOK s) : skipSep s = s := by
  unfold skipSep
  rw [skipWs_of_noWsHead s h.noWs]
  cases s with
  | nil => rfl
  | cons c cs =>
    have : c ≠ '+' := ne_of_toNat_ne (h.ne 43 (by omega) c rfl)
    simp [this]

/-- the closing parenthesis or the end -/
def CloseHead (s : List Char) : Prop := ∀ c, s.head? = some c → c.toNat = 41

theorem CloseHead.stop {s : List Char} (h : CloseHead s) : StopHead s := fun c hc => Or.inr (h c hc)

theorem pLit_open_close (s : List Char) (h : CloseHead s) : pLit '(' s = none := by
  unfold pLit
  rw [skipWs_of_noWsHead s h.stop.tailOK.noWs]
  cases s with
  | nil => rfl
  | cons c cs =>
    have : c ≠ '(' := ne_of_toNat_ne (by have := h c rfl; show c.toNat ≠ 40; omega)
    simp [this]

theorem pImplicit_stop (T : Table) (n : Nat) (s : List Char) (h : StopHead s) :
    pImplicit T n s = .error .fail := by
  unfold pImplicit
  rw [pCount_default s h.tailOK.noNum]
  simp only
  rw [pElements_stop T n s h]
  simp [isNil]

theorem pGroup_close (T : Table) (n : Nat) (s : List Char) (h : CloseHead s) :
    pGroup T n s = .error .fail := by
  cases n with
  | zero => rfl
  | succ n =>
    rw [pGroup, pImplicit_stop T n s h.stop]
    simp only
    rw [pLit_open_close s h]

/-- at a closing parenthesis (or the end) the composite loop stops -/
theorem pMore_close (T : Table) (n : Nat) (s : List Char) (h : CloseHead s) :
    pMore T n s = .ok (.nil, s) := by
  cases n with
  | zero => rfl
  | succ n =>
    rw [pMore, skipSep_of_tailOK s h.stop.tailOK, pGroup_close T n s h]

/-- the element loop of an implicit group followed by the remaining groups of the composite -/
def pTail (T : Table) (n m : Nat) (s : List Char) : Res (Items Cnt) :=
  match pElements T n s with
  | .error e => .error e
  | .ok (es, r) =>
    match pMore T m r with
    | .error e => .error e
    | .ok (gs, r') => .ok (es.append gs, r')

theorem pTail_stop (T : Table) (n m : Nat) (s : List Char) (h : StopHead s) :
    pTail T n m s = pMore T m s := by
  unfold pTail
  rw [pElements_stop T n s h]
  simp only
  cases pMore T m s with
  | error e => rfl
  | ok x => rfl

theorem pTail_cons (T : Table) (n m : Nat) (s r : List Char) (c : Cnt) (x : Atom) (K : Items Cnt)
    (rest : List Char) (he : pElement T s = .ok ((c, x), r)) (ht : pTail T n m r = .ok (K, rest)) :
    pTail T (n + 1) m s = .ok (.cons c (.atom x) K, rest) := by
  unfold pTail at ht ⊢
  rw [pElements, he]
  simp only
  split at ht
  · simp at ht
  · rename_i es r1 hes
    rw [hes]
    simp only
    split at ht
    · simp at ht
    · rename_i gs r2 hm
      simp at ht
      simp [ht.1, ht.2]

/-- the text begins with an upper-case letter -/
def UpHead (s : List Char) : Prop := ∃ u cs, s = u :: cs ∧ isUp u = true

theorem UpHead.tailOK {s : List Char} (h : UpHead s) : TailOK s := by
  obtain ⟨u, cs, rfl, hu⟩ := h
  intro c hc; simp at hc; subst hc; exact Or.inl hu

theorem pSymbol_not_fail (T : Table) (s : List Char) (h : UpHead s) : pSymbol T s ≠ .error .fail := by
  obtain ⟨u, cs, rfl, hu⟩ := h
  unfold pSymbol
  rw [skipWs_cons_of_not_ws u cs (isWs_false_of_isUp hu)]
  simp only [hu, if_true]
  cases cs with
  | nil => simp only; split <;> simp
  | cons d ds =>
    simp only
    split
    · split <;> simp
    · split <;> simp

theorem pCount_not_fail (s : List Char) : pCount s ≠ .error .fail := by
  unfold pCount
  split
  · simp
  · split
    · simp
    · split
      · simp
      · rename_i e he
        unfold pNumber at he
        split at he
        · split at he
          · simp at he; rw [← he]; simp
          · simp at he
        · split at he <;> simp at he
      · simp

theorem convertElement_not_fail (e : Entry) (i : Nat) (q : Int) : convertElement e i q ≠ .error .fail := by
  unfold convertElement
  repeat' split
  all_goals simp

theorem pElement_not_fail (T : Table) (s : List Char) (h : UpHead s) : pElement T s ≠ .error .fail := by
  unfold pElement
  have := pSymbol_not_fail T s h
  split
  · rename_i e he
    intro hc; simp at hc; rw [hc] at he; exact this he
  · split
    · rename_i er hc
      intro h2; simp at h2; rw [h2] at hc; exact pCount_not_fail _ hc
    · split
      · rename_i er hv
        intro h2; simp at h2; rw [h2] at hv; exact convertElement_not_fail _ _ _ hv
      · simp

theorem pElements_not_fail (T : Table) (n : Nat) (s : List Char) : pElements T n s ≠ .error .fail := by
  induction n generalizing s with
  | zero => simp [pElements]
  | succ n ih =>
    rw [pElements]
    split
    · rename_i c a r he
      split
      · simp
      · rename_i e hr
        intro h2; simp at h2; rw [h2] at hr; exact ih r hr
    · simp
    · simp

theorem pElements_upper_nonnil (T : Table) (n : Nat) (s : List Char) (h : UpHead s)
    (fs : Items Cnt) (r : List Char) (he : pElements T (n + 1) s = .ok (fs, r)) : isNil fs = false := by
  rw [pElements] at he
  split at he
  · split at he
    · simp at he; rw [← he.1]; rfl
    · simp at he
  · rename_i hf
    exact absurd hf (pElement_not_fail T s h)
  · simp at he

theorem pLit_open_upper (s : List Char) (h : UpHead s) : pLit '(' s = none := by
  obtain ⟨u, cs, rfl, hu⟩ := h
  unfold pLit
  rw [skipWs_cons_of_not_ws u cs (isWs_false_of_isUp hu)]
  have : u ≠ '(' := ne_of_toNat_ne (by rw [isUp_iff] at hu; show u.toNat ≠ 40; omega)
  simp [this]

/-- at an upper-case letter, a group is an implicit group without a leading count -/
theorem pGroup_upper (T : Table) (n : Nat) (s : List Char) (h : UpHead s) (fs : Items Cnt) (r : List Char)
    (he : pElements T (n + 1) s = .ok (fs, r)) : pGroup T (n + 2) s = .ok (fs, r) := by
  have hnil := pElements_upper_nonnil T n s h fs r he
  rw [pGroup, pImplicit, pCount_default s h.tailOK.noNum]
  simp only
  rw [he]
  simp [hnil, wrap, Cnt.isOne, Cnt.one]

theorem pMore_upper (T : Table) (n : Nat) (s : List Char) (h : UpHead s) (R : Items Cnt × List Char)
    (ht : pTail T (n + 1) (n + 2) s = .ok R) : pMore T (n + 3) s = .ok R := by
  unfold pTail at ht
  split at ht
  · simp at ht
  · rename_i es r he
    rw [pMore, skipSep_of_tailOK s h.tailOK, pGroup_upper T n s h es r he]
    simp only
    split at ht
    · simp at ht
    · rename_i gs r' hm
      rw [hm]; simpa using ht

theorem pComposite_upper (T : Table) (n : Nat) (s : List Char) (h : UpHead s) (R : Items Cnt × List Char)
    (ht : pTail T (n + 1) (n + 2) s = .ok R) : pComposite T (n + 3) s = .ok R := by
  unfold pTail at ht
  split at ht
  · simp at ht
  · rename_i es r he
    rw [pComposite, pGroup_upper T n s h es r he]
    simp only
    split at ht
    · simp at ht
    · rename_i gs r' hm
      rw [hm]; simpa using ht

/-- where the separator is empty, a composite is what the loop reads, if it reads anything -/
theorem pComposite_of_pMore (T : Table) (n : Nat) (s : List Char) (hs : skipSep s = s)
    (R : Items Cnt) (rest : List Char) (hm : pMore T (n + 1) s = .ok (R, rest)) (hne : rest ≠ s) :
    pComposite T (n + 1) s = .ok (R, rest) := by
  rw [pMore, hs] at hm
  rw [pComposite]
  split at hm
  · rename_i g r hg
    rw [hg]
    simp only
    exact hm
  · simp at hm; exact absurd hm.2.symm hne
  · simp at hm

/-- an explicit group with its count, then the rest of the composite -/
theorem pMore_group (T : Table) (m : Nat) (inner cnt Y : List Char) (gi gs : Items Cnt) (c : Cnt)
    (rest : List Char)
    (hin : NoWsHead inner) (hcy : NoWsHead (cnt ++ Y))
    (hC : pComposite T m (inner ++ ')' :: (cnt ++ Y)) = .ok (gi, ')' :: (cnt ++ Y)))
    (hcnt : pCount (cnt ++ Y) = .ok (c, Y))
    (hM : pMore T (m + 1) Y = .ok (gs, rest)) :
    pMore T (m + 2) ('(' :: (inner ++ ')' :: (cnt ++ Y))) = .ok ((wrap c gi).append gs, rest) := by
  have hstop : StopHead ('(' :: (inner ++ ')' :: (cnt ++ Y))) := by
    intro ch hch; simp at hch; subst hch; left; rfl
  have hinw : NoWsHead (inner ++ ')' :: (cnt ++ Y)) := by
    intro ch hch
    cases inner with
    | nil => simp at hch; subst hch; decide
    | cons a as => exact hin ch (by simpa using hch)
  rw [pMore, skipSep_of_tailOK _ hstop.tailOK, pGroup, pImplicit_stop T m _ hstop]
  simp only
  have h1 : pLit '(' ('(' :: (inner ++ ')' :: (cnt ++ Y))) = some (inner ++ ')' :: (cnt ++ Y)) := by
    simp [pLit, skipWs, isWs]
  rw [h1]
  simp only
  rw [skipWs_of_noWsHead _ hinw, hC]
  simp only
  have h2 : pLit ')' (')' :: (cnt ++ Y)) = some (cnt ++ Y) := by simp [pLit, skipWs, isWs]
  rw [h2]
  simp only
  rw [skipWs_of_noWsHead _ hcy, hcnt]
  simp only
  rw [hM]


/-! ## the head of a printed formula -/

theorem atomText_upHead (T : Table) (hT : T.wf = true) (x : Atom) (hx : nameable T x = true)
    (rest : List Char) : UpHead (atomText T x ++ rest) := by
  obtain ⟨e, tag, iso, _, hs, htxt, _⟩ := atom_parts T hT x hx
  obtain ⟨u, cs, hu, hup⟩ := symOK_head hs
  exact ⟨u, cs ++ tag ++ chargeText x.q ++ rest, by simp [atomText, htxt, hu], hup⟩

/-- the text begins with an upper-case letter or an opening parenthesis -/
def OpenHead (s : List Char) : Prop := UpHead s ∨ ∃ cs, s = '(' :: cs

theorem OpenHead.tailOK {s : List Char} (h : OpenHead s) : TailOK s := by
  rcases h with h | ⟨cs, rfl⟩
  · exact h.tailOK
  · intro c hc; simp at hc; subst hc; right; left; rfl

theorem OpenHead.append {s : List Char} (h : OpenHead s) (t : List Char) : OpenHead (s ++ t) := by
  rcases h with ⟨u, cs, rfl, hu⟩ | ⟨cs, rfl⟩
  · exact Or.inl ⟨u, cs ++ t, rfl, hu⟩
  · exact Or.inr ⟨cs ++ t, rfl⟩

theorem OpenHead.ne_nil {s : List Char} (h : OpenHead s) : s ≠ [] := by
  rcases h with ⟨u, cs, rfl, _⟩ | ⟨cs, rfl⟩ <;> simp

mutual
theorem strFrag_head (T : Table) (hT : T.wf = true) (c : Q) : (f : Frag Q) → okFrag T f = true →
    OpenHead (strFrag T c f)
  | .atom x, h => by
    simp only [okFrag] at h
    simp only [strFrag]
    exact Or.inl (atomText_upHead T hT x h _)
  | .group g, h => by
    simp only [okFrag, Bool.and_eq_true, Bool.not_eq_true'] at h
    simp only [strFrag]
    split
    · exact strItems_head T hT g h.2 h.1
    · exact Or.inr ⟨_, rfl⟩
theorem strItems_head (T : Table) (hT : T.wf = true) : (s : Items Q) → okItems T s = true →
    qisNil s = false → OpenHead (strItems T s)
  | .nil, _, h => by simp [qisNil] at h
  | .cons c f r, h, _ => by
    simp only [okItems, Bool.and_eq_true] at h
    simp only [strItems]
    exact (strFrag_head T hT c f h.1.2).append _
end

theorem strItems_tailOK (T : Table) (hT : T.wf = true) (s : Items Q) (hs : okItems T s = true)
    (tail : List Char) (ht : TailOK tail) : TailOK (strItems T s ++ tail) := by
  cases hn : qisNil s with
  | true => cases s with
    | nil => simpa [strItems] using ht
    | cons c f r => simp [qisNil] at hn
  | false => exact ((strItems_head T hT s hs hn).append tail).tailOK

/-! ## the induction -/

/-- for all sufficiently large fuel both loops, started at `s`, read `R.1` and stop before `R.2` -/
def Cont (T : Table) (s : List Char) (R : Items Cnt × List Char) : Prop :=
  ∃ N, (∀ n, N ≤ n → pMore T n s = .ok R) ∧ (∀ n m, N ≤ n → N ≤ m → pTail T n m s = .ok R)

theorem cont_close (T : Table) (s : List Char) (h : CloseHead s) : Cont T s (.nil, s) :=
  ⟨0, fun n _ => pMore_close T n s h,
    fun n m _ _ => by rw [pTail_stop T n m s h.stop]; exact pMore_close T m s h⟩

/-- the items a printed fragment / formula parses back as -/
abbrev backItems (s : Items Q) : Items Cnt := norm (roundItems s)
abbrev backFrag (c : Q) (f : Frag Q) : Items Cnt := normFrag (round6 c) (roundFrag f)

theorem cont_atom (T : Table) (hT : T.wf = true) (c : Q) (hn : 0 < c.num) (hd : 0 < c.den) (x : Atom)
    (hx : nameable T x = true) (tail : List Char) (K : Items Cnt) (rest : List Char) (ht : TailOK tail)
    (hc : Cont T tail (K, rest)) :
    Cont T (atomText T x ++ (cntText c ++ tail)) (.cons (round6 c) (.atom x) K, rest) := by
  obtain ⟨N, _, hT2⟩ := hc
  have he := pElement_atom T hT x hx c hn hd tail ht
  have hup := atomText_upHead T hT x hx (cntText c ++ tail)
  have htail : ∀ n m, N + 1 ≤ n → N ≤ m →
      pTail T n m (atomText T x ++ (cntText c ++ tail)) = .ok (.cons (round6 c) (.atom x) K, rest) := by
    intro n m hn' hm'
    obtain ⟨n', rfl⟩ : ∃ n', n = n' + 1 := ⟨n - 1, by omega⟩
    exact pTail_cons T n' m _ tail (round6 c) x K rest he (hT2 n' m (by omega) hm')
  refine ⟨N + 3, ?_, fun n m hn' hm' => htail n m (by omega) (by omega)⟩
  intro n hn'
  obtain ⟨n', rfl⟩ : ∃ n', n = n' + 3 := ⟨n - 3, by omega⟩
  exact pMore_upper T n' _ hup _ (htail (n' + 1) (n' + 2) (by omega) (by omega))

theorem items_append_length_ne (a b : List Char) (h : a ≠ []) : b ≠ a ++ b := by
  intro e
  have := congrArg List.length e
  rw [List.length_append] at this
  exact h (List.eq_nil_of_length_eq_zero (by omega))

mutual
theorem cont_frag (T : Table) (hT : T.wf = true) (c : Q) (hn : 0 < c.num) (hd : 0 < c.den) :
    (f : Frag Q) → okFrag T f = true → ∀ (tail : List Char) (K : Items Cnt) (rest : List Char),
    TailOK tail → Cont T tail (K, rest) →
    Cont T (strFrag T c f ++ tail) ((backFrag c f).append K, rest)
  | .atom x, hf, tail, K, rest, ht, hc => by
    simp only [okFrag] at hf
    have := cont_atom T hT c hn hd x hf tail K rest ht hc
    simpa [strFrag, backFrag, roundFrag, normFrag, cntText, List.append_assoc] using this
  | .group g, hf, tail, K, rest, ht, hc => by
    simp only [okFrag, Bool.and_eq_true, Bool.not_eq_true'] at hf
    by_cases h1 : c.isOne = true
    · -- a unit group is written without parentheses and read back spliced
      have hnd : c.num = c.den := by simpa [Q.isOne] using h1
      have hc1 : c = ⟨c.den, c.den⟩ := by cases c; simp_all
      have hr : round6 c = Cnt.one := by rw [hc1]; exact round6_one _ hd
      have := cont_items T hT g hf.2 tail K rest ht hc
      simpa [strFrag, h1, backFrag, roundFrag, normFrag, hr, Cnt.isOne, Cnt.one, backItems] using this
    · simp only [strFrag, h1, Bool.false_eq_true, ↓reduceIte, List.cons_append, List.append_assoc]
      -- inside the parentheses
      have htail' : TailOK (')' :: (strCount c ++ tail)) := by
        intro ch hch; simp at hch; subst hch; right; right; rfl
      have hclose : CloseHead (')' :: (strCount c ++ tail)) := by
        intro ch hch; simp at hch; subst hch; rfl
      have hin := cont_items T hT g hf.2 (')' :: (strCount c ++ tail)) .nil _ htail'
        (cont_close T _ hclose)
      obtain ⟨N1, hM1, _⟩ := hin
      obtain ⟨N2, hM2, _⟩ := hc
      have hopen := strItems_head T hT g hf.2 hf.1
      have hcnt : pCount (strCount c ++ tail) = .ok (round6 c, tail) :=
        pCount_showCnt (round6 c) (fun _ => round6_pos c hn hd) tail ht.noNum
      have hcy : NoWsHead (strCount c ++ tail) := by
        obtain ⟨d, ds, hsd, hdd⟩ := showCnt_head (round6 c)
        unfold strCount; rw [hsd]
        exact noWsHead_cons _ (isWs_false_of_isDig hdd)
      have hmore : ∀ n, N1 + N2 + 3 ≤ n →
          pMore T n ('(' :: (strItems T g ++ ')' :: (strCount c ++ tail))) =
            .ok ((wrap (round6 c) (backItems g)).append K, rest) := by
        intro n hn'
        obtain ⟨m, rfl⟩ : ∃ m, n = m + 2 := ⟨n - 2, by omega⟩
        obtain ⟨m', rfl⟩ : ∃ m', m = m' + 1 := ⟨m - 1, by omega⟩
        have hC := pComposite_of_pMore T m' (strItems T g ++ ')' :: (strCount c ++ tail))
          (skipSep_of_tailOK _ (hopen.append _).tailOK) (backItems g) (')' :: (strCount c ++ tail))
          (by have := hM1 (m' + 1) (by omega); simpa [append_nil'] using this)
          (items_append_length_ne _ _ hopen.ne_nil)
        exact pMore_group T (m' + 1) (strItems T g) (strCount c) tail (backItems g) K (round6 c) rest
          hopen.tailOK.noWs hcy hC hcnt (hM2 (m' + 1 + 1) (by omega))
      refine ⟨N1 + N2 + 3, ?_, ?_⟩
      · intro n hn'
        have := hmore n hn'
        simpa [backFrag, roundFrag, normFrag, wrap, backItems, List.append_assoc] using this
      · intro n m _ hm'
        have hstop : StopHead ('(' :: (strItems T g ++ ')' :: (strCount c ++ tail))) := by
          intro ch hch; simp at hch; subst hch; left; rfl
        rw [pTail_stop T n m _ hstop]
        have := hmore m hm'
        simpa [backFrag, roundFrag, normFrag, wrap, backItems, List.append_assoc] using this
theorem cont_items (T : Table) (hT : T.wf = true) : (s : Items Q) → okItems T s = true →
    ∀ (tail : List Char) (K : Items Cnt) (rest : List Char), TailOK tail → Cont T tail (K, rest) →
    Cont T (strItems T s ++ tail) ((backItems s).append K, rest)
  | .nil, _, tail, K, rest, _, hc => by simpa [strItems, backItems, roundItems, norm] using hc
  | .cons c f r, hs, tail, K, rest, ht, hc => by
    simp only [okItems, Bool.and_eq_true, decide_eq_true_eq] at hs
    have hr := cont_items T hT r hs.2 tail K rest ht hc
    have hf := cont_frag T hT c hs.1.1.1 hs.1.1.2 f hs.1.2 (strItems T r ++ tail)
      ((backItems r).append K) rest (strItems_tailOK T hT r hs.2 tail ht) hr
    simpa [strItems, backItems, roundItems, norm, append_assoc', List.append_assoc] using hf
end

/-- **C13 (parse ∘ print)**: for every table that serves each entry under its own symbol and every
    structure over nameable atoms with positive counts and no empty group, the printed text parses
    back to the same structure with every count rounded to six significant digits, unit-count
    groups spliced into their parent, and no density tag. -/
theorem parse_strItems (T : Table) (hT : T.wf = true) (s : Items Q) (hs : okItems T s = true) :
    parse T (strItems T s) = .ok (norm (roundItems s), none) := by
  cases hn : qisNil s with
  | true =>
    cases s with
    | cons c f r => simp [qisNil] at hn
    | nil =>
      simp [strItems, roundItems, norm, parse, fuelFor, pComposite, pGroup, pImplicit, pCount, pElements,
        pElement, pSymbol, skipWs, pLit, isNil]
  | false =>
    have hopen := strItems_head T hT s hs hn
    obtain ⟨N, hM, _⟩ := cont_items T hT s hs [] .nil [] TailOK.nil
      (cont_close T [] (by intro c h; simp at h))
    simp only [List.append_nil, append_nil'] at hM
    have hC : pComposite T (max N (fuelFor (strItems T s)) + 1) (strItems T s) = .ok (backItems s, []) :=
      pComposite_of_pMore T _ _ (skipSep_of_tailOK _ hopen.tailOK) _ _ (hM _ (by omega))
        (fun e => hopen.ne_nil e.symm)
    rw [pComposite_fuel T _ _ (by omega)] at hC
    unfold parse
    rw [hC]
    simp [pDensity, skipWs]

/-! ## where `norm` is the identity -/

mutual
def noUnitFrag : Frag Cnt → Bool
  | .atom _ => true
  | .group g => noUnit g
/-- no group has a count equal to 1 -/
def noUnit : Items Cnt → Bool
  | .nil => true
  | .cons c (.atom _) r => noUnit r
  | .cons c (.group g) r => !c.isOne && noUnit g && noUnit r
end

theorem norm_id : (s : Items Cnt) → noUnit s = true → norm s = s
  | .nil, _ => by simp [norm]
  | .cons c (.atom x) r, h => by
    simp only [noUnit] at h
    simp [norm, normFrag, norm_id r h]
  | .cons c (.group g) r, h => by
    simp only [noUnit, Bool.and_eq_true, Bool.not_eq_true'] at h
    simp [norm, normFrag, h.1.1, norm_id g h.1.2, norm_id r h.2]

end PtModel.Grammar
