import PtVerif.Proofs.ActivationChains

/-! Mass linearity, rest decay, omission clauses and the sample tally (C14) at `ℝ`. -/
namespace PtModel.Activation

/-! ## linear in the sample mass -/

theorem rootOf_smul (c : Consts ℝ) (flux xs mass k : ℝ) (A : Nat) :
    rootOf c flux xs (k * mass) A = k * rootOf c flux xs mass A := by
  unfold rootOf; ring

theorem bCore_smul (root lam plam T k : ℝ) : bCore (k * root) lam plam T = k * bCore root lam plam T := by
  unfold bCore; ring

theorem twoNCore_smul (root lam plam l2 pa T k : ℝ) :
    twoNCore (k * root) lam plam l2 pa T = k * twoNCore root lam plam l2 pa T := by
  unfold twoNCore; ring

/-- scaling a result: `none` (omitted) stays omitted, an exception stays that exception -/
def scaleRow (k : ℝ) : Except Err (Option ℝ) → Except Err (Option ℝ)
  | .ok (some v) => .ok (some (k * v))
  | other => other

/-- every product's activity is proportional to the sample mass (same omission, same exception) -/
theorem activityRow_linear_in_mass (c : Consts ℝ) (r : Row ℝ) (mass : ℝ) (env : Env ℝ) (T k : ℝ)
    (hk : 0 < k) :
    activityRow c r (k * mass) env T = scaleRow k (activityRow c r mass env T) := by
  unfold activityRow
  by_cases hom : (r.fast && env.fastRatio == 0) = true
  · simp only [hom, if_true, scaleRow]
  · simp only [hom, Bool.false_eq_true, if_false]
    by_cases hth : (r.thalf == 0) = true
    · simp only [hth, if_true, scaleRow]
    · simp only [hth, Bool.false_eq_true, if_false, rootOf_smul]
      cases r.reaction with
      | b =>
        simp only
        by_cases h1 : (r.thalfParent == 0) = true
        · simp only [h1, if_true, scaleRow]
        · simp only [h1, Bool.false_eq_true, if_false]
          by_cases h2 : (c.ln2 / r.thalfParent - c.ln2 / r.thalf == 0) = true
          · simp only [h2, if_true, scaleRow]
          · simp only [h2, Bool.false_eq_true, if_false, bCore_smul, scaleRow]
      | twoN =>
        simp only
        by_cases h1 : (r.thalfParent == 0) = true
        · simp only [h1, if_true, scaleRow]
        · simp only [h1, Bool.false_eq_true, if_false]
          split
          · simp only [scaleRow]
          · split
            · simp only [scaleRow]
            · split
              · simp only [scaleRow]
              · simp only [twoNCore_smul, scaleRow]
      | act =>
        simp only
        have e : ∀ x : ℝ, (k * x < 0) ↔ (x < 0) := fun x =>
          ⟨fun h => by by_contra hx; exact absurd h (not_lt.mpr (mul_nonneg hk.le (not_lt.mp hx))),
           fun h => mul_neg_of_pos_of_neg hk h⟩
        rw [mul_assoc]
        by_cases hneg : rootOf c (fluxOf env r) (initialXS env r) mass r.a *
            actCorrection (c.ln2 / r.thalf) T (actU (fluxOf env r) (initialXS env r) T)
              (actV (c.ln2 / r.thalf) env.fluence (effectiveXS env r) T) < 0
        · rw [if_pos ((e _).mpr hneg), if_pos hneg]; rfl
        · rw [if_neg (fun h => hneg ((e _).mp h)), if_neg hneg]; rfl

/-! ## decay over a rest time -/

/-- `activity·exp(-λ t) = activity·2^(-t/T½)` when `LN2 = log 2` -/
theorem restDecay_eq (thalf act : ℝ) (rests : List ℝ) :
    restDecay (Real.log 2 / thalf) act rests = rests.map fun t => act * (2:ℝ) ^ (-t / thalf) := by
  unfold restDecay
  apply List.map_congr_left
  intro t _
  simp only [transc_exp]
  rw [Real.rpow_def_of_pos (by norm_num : (0:ℝ) < 2)]
  congr 2
  ring

theorem restDecay_zero (lam act : ℝ) : restDecay lam act [0] = [act] := by
  simp [restDecay]

/-! ## omission of fast and epithermal reactions -/

/-- a fast reaction is omitted when the fast ratio is 0 … -/
theorem activityRow_fast_omitted (c : Consts ℝ) (r : Row ℝ) (mass : ℝ) (env : Env ℝ) (T : ℝ)
    (hf : r.fast = true) (h0 : env.fastRatio = 0) : activityRow c r mass env T = .ok none := by
  unfold activityRow
  simp [hf, h0]

/-- … and only then: any other row yields a value or an exception -/
theorem activityRow_none_iff (c : Consts ℝ) (r : Row ℝ) (mass : ℝ) (env : Env ℝ) (T : ℝ) :
    activityRow c r mass env T = .ok none ↔ (r.fast = true ∧ env.fastRatio = 0) := by
  constructor
  · intro h
    by_contra hin
    unfold activityRow at h
    simp only [not_omitted hin, Bool.false_eq_true, if_false] at h
    split at h
    · cases h
    · revert h
      cases r.reaction <;> simp only <;> intro h <;> repeat (first | (split at h) | cases h)
  · rintro ⟨hf, h0⟩
    exact activityRow_fast_omitted c r mass env T hf h0

theorem epithermal_lt_one (cd : ℝ) (h : cd < 1) : epithermal cd = 0 := by
  unfold epithermal; rw [if_neg (not_le.mpr h)]

theorem epithermal_ge_one (cd : ℝ) (h : 1 ≤ cd) : epithermal cd = 1 / cd := by
  unfold epithermal; rw [if_pos h]

/-- below a cadmium ratio of 1 the resonance integrals play no role -/
theorem activityRow_epithermal_omitted (c : Consts ℝ) (r : Row ℝ) (mass : ℝ) (env : Env ℝ) (T : ℝ)
    (x y : ℝ) (hcd : env.cdRatio < 1) :
    activityRow c { r with resonance := x, resonanceParent := y } mass env T = activityRow c r mass env T := by
  have h1 : ∀ r' : Row ℝ, initialXS env r' = r'.thermalXS := fun r' => by
    unfold initialXS; rw [epithermal_lt_one _ hcd]; ring
  have h2 : ∀ r' : Row ℝ, effectiveXS env r' = r'.thermalXSParent := fun r' => by
    unfold effectiveXS; rw [epithermal_lt_one _ hcd]; ring
  unfold activityRow
  simp only [h1, h2, fluxOf]

/-! ## `activity()`: which rows appear -/

/-- the rows in the result are exactly the rows not omitted, in table order -/
theorem activity_keys (c : Consts ℝ) (rows : List (Nat × Row ℝ)) (mass : ℝ) (env : Env ℝ) (T : ℝ)
    (rests : List ℝ) (out : List (Nat × List ℝ)) (h : activity c rows mass env T rests = .ok out) :
    out.map Prod.fst
      = (rows.filter fun kr => !(kr.2.fast && env.fastRatio == 0)).map Prod.fst := by
  induction rows generalizing out with
  | nil => simp [activity] at h; simp [h]
  | cons kr more ih =>
    obtain ⟨k, r⟩ := kr
    unfold activity at h
    split at h
    · cases h
    · rename_i hrow
      have := (activityRow_none_iff c r mass env T).mp hrow
      have hb : (r.fast && env.fastRatio == 0) = true := by simp [this.1, this.2]
      simp only [List.filter_cons, hb, Bool.not_true, Bool.false_eq_true, if_false]
      exact ih out h
    · rename_i act hrow
      have hn : ¬ (r.fast = true ∧ env.fastRatio = 0) := by
        intro hh
        rw [(activityRow_none_iff c r mass env T).mpr hh] at hrow
        cases hrow
      split at h
      · cases h
      · rename_i out' hmore
        cases h
        simp only [List.filter_cons, not_omitted hn, Bool.not_false, if_true, List.map_cons]
        rw [ih out' hmore]

/-- every value list has one entry per requested time, `A·exp(-λ t)` -/
theorem activity_values (c : Consts ℝ) (rows : List (Nat × Row ℝ)) (mass : ℝ) (env : Env ℝ) (T : ℝ)
    (rests : List ℝ) (out : List (Nat × List ℝ)) (h : activity c rows mass env T rests = .ok out) :
    ∀ kv ∈ out, ∃ r act, (kv.1, r) ∈ rows ∧ activityRow c r mass env T = .ok (some act) ∧
      kv.2 = restDecay (c.ln2 / r.thalf) act rests := by
  induction rows generalizing out with
  | nil => simp [activity] at h; simp [h]
  | cons kr more ih =>
    obtain ⟨k, r⟩ := kr
    unfold activity at h
    split at h
    · cases h
    · intro kv hkv
      obtain ⟨r', act, hmem, hrow, hval⟩ := ih out h kv hkv
      exact ⟨r', act, List.mem_cons_of_mem _ hmem, hrow, hval⟩
    · rename_i act hrow
      split at h
      · cases h
      · rename_i out' hmore
        cases h
        intro kv hkv
        rcases List.mem_cons.mp hkv with rfl | hkv
        · exact ⟨r, act, List.mem_cons_self, hrow, rfl⟩
        · obtain ⟨r', act', hmem, hrow', hval⟩ := ih out' hmore kv hkv
          exact ⟨r', act', List.mem_cons_of_mem _ hmem, hrow', hval⟩

end PtModel.Activation
