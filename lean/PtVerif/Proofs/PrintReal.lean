import PtVerif.Proofs.PrintNum
import PtVerif.Model.GrammarSpec
import Mathlib.Algebra.Order.Field.Rat
import Mathlib.Algebra.Order.Field.Power
import Mathlib.Tactic.FieldSimp
import Mathlib.Tactic.Positivity
/-!
# `round6` is the count rounded to six significant digits (statements in ℚ)

For a positive rational `q` with `10^e ≤ q < 10^(e+1)`: the printed count is `m · 10^(e-5)` for an
integer `10^5 ≤ m ≤ 10^6` – a multiple of the unit of the sixth significant digit of `q` – and it is
within half that unit of `q`.  A count that has no more than six significant digits is printed
exactly.
-/
namespace PtModel.Print
open PtModel PtModel.Grammar

/-- the exact value of a Python count -/
def Q.val (q : Q) : ℚ := (q.num : ℚ) / (q.den : ℚ)

theorem ten_zpow_pos (e : ℤ) : (0 : ℚ) < (10 : ℚ) ^ e := by positivity

theorem ten_ne_zero : (10 : ℚ) ≠ 0 := by norm_num

/-- value of the decimal `m · 10^(e-5)` in lowest terms -/
theorem cntOf_toRat (m : ℕ) (e : ℤ) : (cntOf m e).toRat = (m : ℚ) * (10 : ℚ) ^ (e - 5) := by
  unfold cntOf
  split
  · rename_i h
    unfold Cnt.toRat
    simp only [pow_zero, Nat.cast_one, div_one, Nat.cast_mul, Nat.cast_pow, Nat.cast_ofNat]
    congr 1
    have : e - 5 = ((e - 5).toNat : ℤ) := by omega
    conv_rhs => rw [this]
    rw [zpow_natCast]
  · rename_i h
    obtain ⟨h1, _⟩ := strip_value m (5 - e).toNat
    unfold Cnt.toRat
    have hpos : ((10 ^ (strip m (5 - e).toNat).dec : ℕ) : ℚ) ≠ 0 := by positivity
    rw [div_eq_iff hpos]
    have h1' : ((strip m (5 - e).toNat).num : ℚ) * (10 : ℚ) ^ (5 - e).toNat =
        (m : ℚ) * (10 : ℚ) ^ (strip m (5 - e).toNat).dec := by exact_mod_cast h1
    have he : e - 5 = -((5 - e).toNat : ℤ) := by omega
    rw [he, zpow_neg, zpow_natCast]
    have h10 : ((10 : ℚ) ^ (5 - e).toNat) ≠ 0 := by positivity
    field_simp
    push_cast
    linarith [h1']

/-- what `sig6` computes, in ℚ: with `e = ⌊log10 q⌋` the mantissa `m` is an integer in
    `[10^5, 10^6]` nearest to `q / 10^(e-5)`; the pair returned denotes `m · 10^(e-5)` -/
theorem sig6_spec (n d : ℕ) (hn : 0 < n) (hd : 0 < d) :
    ∃ (m : ℕ) (e : ℤ), (10 : ℚ) ^ e ≤ (n : ℚ) / d ∧ (n : ℚ) / d < (10 : ℚ) ^ (e + 1) ∧
      10 ^ 5 ≤ m ∧ m ≤ 10 ^ 6 ∧
      |(m : ℚ) * (10 : ℚ) ^ (e - 5) - (n : ℚ) / d| ≤ (10 : ℚ) ^ (e - 5) / 2 ∧
      ((sig6 n d).1 : ℚ) * (10 : ℚ) ^ ((sig6 n d).2 - 5) = (m : ℚ) * (10 : ℚ) ^ (e - 5) := by
  obtain ⟨N, D, hD, h1, h2, hcase, hs⟩ := sig6_cases n d hn hd
  refine ⟨roundHalfEven N D, exp10 n d, ?_, ?_, ?_, ?_, ?_, ?_⟩
  all_goals
    have hDq : (0 : ℚ) < D := by exact_mod_cast hD
    have hdq : (0 : ℚ) < d := by exact_mod_cast hd
    have hnq : (0 : ℚ) < n := by exact_mod_cast hn
    -- q = (N/D) · 10^(e-5)
    have hq : (n : ℚ) / d = (N : ℚ) / D * (10 : ℚ) ^ (exp10 n d - 5) := by
      rcases hcase with ⟨he, hN, hDd⟩ | ⟨he, hN, hDd⟩
      · obtain ⟨k, hk⟩ : ∃ k : ℕ, (5 - exp10 n d).toNat = k := ⟨_, rfl⟩
        have hk' : exp10 n d - 5 = -(k : ℤ) := by omega
        rw [hk] at hN
        rw [hN, hDd, hk', zpow_neg, zpow_natCast]
        have : ((10 : ℚ) ^ k) ≠ 0 := by positivity
        push_cast
        field_simp
      · obtain ⟨k, hk⟩ : ∃ k : ℕ, (exp10 n d - 5).toNat = k := ⟨_, rfl⟩
        have hk' : exp10 n d - 5 = (k : ℤ) := by omega
        rw [hk] at hDd
        rw [hN, hDd, hk', zpow_natCast]
        have : ((10 : ℚ) ^ k) ≠ 0 := by positivity
        push_cast
        field_simp
    have hlow : (10 : ℚ) ^ 5 ≤ (N : ℚ) / D := by
      rw [le_div_iff₀ hDq]
      have : ((D * 10 ^ 5 : ℕ) : ℚ) ≤ (N : ℚ) := by exact_mod_cast h1
      push_cast at this; linarith
    have hhigh : (N : ℚ) / D < (10 : ℚ) ^ 6 := by
      rw [div_lt_iff₀ hDq]
      have : ((N : ℕ) : ℚ) < ((D * 10 ^ 6 : ℕ) : ℚ) := by exact_mod_cast h2
      push_cast at this; linarith
    have hu : (0 : ℚ) < (10 : ℚ) ^ (exp10 n d - 5) := ten_zpow_pos _
  · -- 10^e ≤ q
    rw [hq]
    have : (10 : ℚ) ^ exp10 n d = (10 : ℚ) ^ (5 : ℤ) * (10 : ℚ) ^ (exp10 n d - 5) := by
      rw [← zpow_add₀ ten_ne_zero]; congr 1; omega
    rw [this]
    have h5 : (10 : ℚ) ^ (5 : ℤ) = (10 : ℚ) ^ 5 := by norm_cast
    rw [h5]
    exact mul_le_mul_of_nonneg_right hlow hu.le
  · -- q < 10^(e+1)
    rw [hq]
    have : (10 : ℚ) ^ (exp10 n d + 1) = (10 : ℚ) ^ (6 : ℤ) * (10 : ℚ) ^ (exp10 n d - 5) := by
      rw [← zpow_add₀ ten_ne_zero]; congr 1; omega
    rw [this]
    have h6 : (10 : ℚ) ^ (6 : ℤ) = (10 : ℚ) ^ 6 := by norm_cast
    rw [h6]
    exact mul_lt_mul_of_pos_right hhigh hu
  · -- 10^5 ≤ m
    have hb := (rhe_bounds N D).1
    have : 10 ^ 5 ≤ N / D := by
      rw [Nat.le_div_iff_mul_le hD]; rw [Nat.mul_comm]; exact h1
    omega
  · -- m ≤ 10^6
    have hb := (rhe_bounds N D).2
    have : N / D < 10 ^ 6 := by
      rw [Nat.div_lt_iff_lt_mul hD]; rw [Nat.mul_comm]; exact h2
    omega
  · -- within half a unit
    rw [hq, ← sub_mul, abs_mul, abs_of_pos hu]
    have herr := rhe_err N D hD
    have hm : |(roundHalfEven N D : ℚ) - (N : ℚ) / D| ≤ 1 / 2 := by
      have e1 : ((2 * (roundHalfEven N D * D) : ℕ) : ℚ) ≤ ((2 * N + D : ℕ) : ℚ) := by exact_mod_cast herr.1
      have e2 : ((2 * N : ℕ) : ℚ) ≤ ((2 * (roundHalfEven N D * D) + D : ℕ) : ℚ) := by exact_mod_cast herr.2
      push_cast at e1 e2
      have a1 : (N : ℚ) / D ≤ (roundHalfEven N D : ℚ) + 1 / 2 := by
        rw [div_le_iff₀ hDq]; nlinarith
      have a2 : (roundHalfEven N D : ℚ) - 1 / 2 ≤ (N : ℚ) / D := by
        rw [le_div_iff₀ hDq]; nlinarith
      rw [abs_le]
      constructor <;> linarith
    calc |(roundHalfEven N D : ℚ) - (N : ℚ) / D| * (10 : ℚ) ^ (exp10 n d - 5)
        ≤ 1 / 2 * (10 : ℚ) ^ (exp10 n d - 5) := mul_le_mul_of_nonneg_right hm hu.le
      _ = (10 : ℚ) ^ (exp10 n d - 5) / 2 := by ring
  · -- the pair returned denotes m·10^(e-5) (also after the carry to 10^6)
    rw [hs]
    split
    · rename_i hc
      simp only
      rw [hc]
      have : exp10 n d + 1 - 5 = 1 + (exp10 n d - 5) := by omega
      rw [this, zpow_add₀ ten_ne_zero]
      push_cast
      ring
    · rfl

/-- **the printed count is the count rounded to six significant digits** -/
theorem round6_spec (q : Q) (hn : 0 < q.num) (hd : 0 < q.den) :
    ∃ (m : ℕ) (e : ℤ), (10 : ℚ) ^ e ≤ q.val ∧ q.val < (10 : ℚ) ^ (e + 1) ∧
      10 ^ 5 ≤ m ∧ m ≤ 10 ^ 6 ∧ (round6 q).toRat = (m : ℚ) * (10 : ℚ) ^ (e - 5) ∧
      |(round6 q).toRat - q.val| ≤ (10 : ℚ) ^ (e - 5) / 2 := by
  obtain ⟨m, e, h1, h2, h3, h4, h5, h6⟩ := sig6_spec q.num q.den hn hd
  refine ⟨m, e, h1, h2, h3, h4, ?_, ?_⟩
  · unfold round6
    have : ¬ q.num = 0 := by omega
    simp only [this, if_false]
    rw [cntOf_toRat, h6]
  · unfold round6
    have : ¬ q.num = 0 := by omega
    simp only [this, if_false]
    rw [cntOf_toRat, h6]
    exact h5

/-- **a count that needs no more than six significant digits is printed exactly**:
    `q = k · 10^p` with `0 < k < 10^6` -/
theorem round6_exact (q : Q) (hd : 0 < q.den) (k : ℕ) (p : ℤ) (hk : 0 < k) (hk6 : k < 10 ^ 6)
    (hq : q.val = (k : ℚ) * (10 : ℚ) ^ p) : (round6 q).toRat = q.val := by
  have hn : 0 < q.num := by
    by_contra h0
    have : q.num = 0 := by omega
    have hv : q.val = 0 := by simp [Q.val, this]
    rw [hv] at hq
    have : (0 : ℚ) < (k : ℚ) * (10 : ℚ) ^ p := mul_pos (by exact_mod_cast hk) (ten_zpow_pos p)
    linarith
  obtain ⟨m, e, h1, h2, _, _, h5, h6⟩ := round6_spec q hn hd
  rw [h5] at h6 ⊢
  have hu : (0 : ℚ) < (10 : ℚ) ^ (e - 5) := ten_zpow_pos _
  -- p ≥ e - 5, so q is a multiple of the unit
  have hp : e - 5 ≤ p := by
    by_contra hlt
    have hlt' : p + 1 ≤ e - 5 := by omega
    -- q = k·10^p < 10^6·10^p = 10^(p+6) ≤ 10^e
    have : q.val < (10 : ℚ) ^ e := by
      rw [hq]
      have hk' : (k : ℚ) < (10 : ℚ) ^ (6 : ℤ) := by
        have : (k : ℚ) < ((10 ^ 6 : ℕ) : ℚ) := by exact_mod_cast hk6
        norm_cast
      calc (k : ℚ) * (10 : ℚ) ^ p < (10 : ℚ) ^ (6 : ℤ) * (10 : ℚ) ^ p :=
            mul_lt_mul_of_pos_right hk' (ten_zpow_pos p)
        _ = (10 : ℚ) ^ (6 + p) := by rw [← zpow_add₀ ten_ne_zero]
        _ ≤ (10 : ℚ) ^ e := zpow_le_zpow_right₀ (by norm_num) (by omega)
    linarith
  obtain ⟨j, hj⟩ : ∃ j : ℕ, p = (e - 5) + (j : ℤ) := ⟨(p - (e - 5)).toNat, by omega⟩
  have hqj : q.val = ((k * 10 ^ j : ℕ) : ℚ) * (10 : ℚ) ^ (e - 5) := by
    rw [hq, hj, zpow_add₀ ten_ne_zero, zpow_natCast]; push_cast; ring
  rw [hqj] at h6 ⊢
  rw [← sub_mul, abs_mul, abs_of_pos hu] at h6
  have hle : |(m : ℚ) - ((k * 10 ^ j : ℕ) : ℚ)| ≤ 1 / 2 := by
    have := (mul_le_mul_iff_of_pos_right hu).1 (by linarith : |(m : ℚ) - ((k * 10 ^ j : ℕ) : ℚ)| * (10 : ℚ) ^ (e - 5) ≤ 1 / 2 * (10 : ℚ) ^ (e - 5))
    exact this
  have hint : (m : ℤ) = ((k * 10 ^ j : ℕ) : ℤ) := by
    have habs : |((m : ℤ) - ((k * 10 ^ j : ℕ) : ℤ) : ℤ)| < 1 := by
      have : ((|((m : ℤ) - ((k * 10 ^ j : ℕ) : ℤ) : ℤ)| : ℤ) : ℚ) < 1 := by
        push_cast
        have := hle
        push_cast at this
        linarith
      exact_mod_cast this
    have := Int.abs_lt_one_iff.1 habs
    omega
  have : (m : ℚ) = ((k * 10 ^ j : ℕ) : ℚ) := by exact_mod_cast hint
  rw [this]

end PtModel.Print
