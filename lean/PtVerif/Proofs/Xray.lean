import PtVerif.Model.Xray
import PtVerif.Proofs.Formula
import Mathlib.Tactic.Ring
import Mathlib.Tactic.FieldSimp
import Mathlib.Tactic.Linarith
import Mathlib.Algebra.Order.Field.Basic

/-! Lemmas about the x-ray model (C05): interpolation, SLD algebra, conversions. -/
namespace PtModel.Xray

/-! ## interpolation -/
section Interp
variable {α : Type} [Field α] [LinearOrder α]

/-- strictly increasing abscissae -/
def Increasing (t : List (α × Option α)) : Prop := (t.map Prod.fst).Pairwise (· < ·)

theorem interpNaN_left (x0 : α) (y0 : Option α) (t : List (α × Option α)) (x : α) (h : x < x0) :
    interpNaN ((x0, y0) :: t) x = none := by
  cases t with
  | nil => simp [interpNaN, ne_of_lt h]
  | cons p r => obtain ⟨x1, y1⟩ := p; simp [interpNaN, h]

theorem interpNaN_skip (p r : α × Option α) (t : List (α × Option α)) (x : α)
    (h0 : p.1 ≤ x) (h1 : r.1 ≤ x) : interpNaN (p :: r :: t) x = interpNaN (r :: t) x := by
  obtain ⟨x0, y0⟩ := p; obtain ⟨x1, y1⟩ := r
  simp only [interpNaN]
  simp [not_lt.mpr h0, not_lt.mpr h1]

/-- right of the last node: NaN -/
theorem interpNaN_right (t : List (α × Option α)) (ht : Increasing t) (x : α)
    (h : ∀ p ∈ t, p.1 < x) : interpNaN t x = none := by
  induction t with
  | nil => simp [interpNaN]
  | cons p r ih =>
    cases r with
    | nil =>
      obtain ⟨x0, y0⟩ := p
      have : x0 < x := h (x0, y0) (by simp)
      simp [interpNaN, ne_of_gt this]
    | cons q s =>
      have hp : p.1 < x := h p (by simp)
      have hq : q.1 < x := h q (by simp)
      rw [interpNaN_skip p q s x hp.le hq.le]
      apply ih
      · unfold Increasing at ht ⊢
        simp only [List.map_cons, List.pairwise_cons] at ht ⊢
        exact ht.2
      · intro p' hp'; exact h p' (List.mem_cons_of_mem _ hp')

/-- between two consecutive nodes (anywhere in an increasing table): the node value on the
    left node, numpy's linear formula strictly inside -/
theorem interpNaN_between (pre post : List (α × Option α)) (x0 x1 : α) (y0 y1 : Option α)
    (ht : Increasing (pre ++ (x0, y0) :: (x1, y1) :: post)) (x : α) (h0 : x0 ≤ x) (h1 : x < x1) :
    interpNaN (pre ++ (x0, y0) :: (x1, y1) :: post) x
      = if x = x0 then y0 else linO x0 y0 x1 y1 x := by
  induction pre with
  | nil =>
    simp only [List.nil_append, interpNaN]
    simp [not_lt.mpr h0, h1]
  | cons p pre' ih =>
    have hinc : Increasing (pre' ++ (x0, y0) :: (x1, y1) :: post) := by
      unfold Increasing at ht ⊢
      simp only [List.cons_append, List.map_cons, List.pairwise_cons] at ht
      exact ht.2
    have hp : p.1 < x0 := by
      unfold Increasing at ht
      simp only [List.cons_append, List.map_cons, List.pairwise_cons] at ht
      exact ht.1 x0 (by simp)
    cases pre' with
    | nil =>
      simp only [List.cons_append, List.nil_append]
      rw [interpNaN_skip p (x0, y0) _ x (le_trans hp.le h0) h0]
      simpa using ih hinc
    | cons q s =>
      have hq : q.1 < x0 := by
        unfold Increasing at hinc
        simp only [List.cons_append, List.map_cons, List.pairwise_cons] at hinc
        exact hinc.1 x0 (by simp)
      simp only [List.cons_append]
      rw [interpNaN_skip p q _ x (le_trans hp.le h0) (le_trans hq.le h0)]
      simpa using ih hinc

/-- on the last node: its value -/
theorem interpNaN_last (pre : List (α × Option α)) (x0 : α) (y0 : Option α)
    (ht : Increasing (pre ++ [(x0, y0)])) : interpNaN (pre ++ [(x0, y0)]) x0 = y0 := by
  induction pre with
  | nil => simp [interpNaN]
  | cons p pre' ih =>
    have hinc : Increasing (pre' ++ [(x0, y0)]) := by
      unfold Increasing at ht ⊢
      simp only [List.cons_append, List.map_cons, List.pairwise_cons] at ht
      exact ht.2
    have hp : p.1 < x0 := by
      unfold Increasing at ht
      simp only [List.cons_append, List.map_cons, List.pairwise_cons] at ht
      exact ht.1 x0 (by simp)
    cases pre' with
    | nil =>
      simp only [List.cons_append, List.nil_append]
      rw [interpNaN_skip p (x0, y0) [] x0 hp.le le_rfl]
      simp [interpNaN]
    | cons q s =>
      have hq : q.1 < x0 := by
        unfold Increasing at hinc
        simp only [List.cons_append, List.map_cons, List.pairwise_cons] at hinc
        exact hinc.1 x0 (by simp)
      simp only [List.cons_append]
      rw [interpNaN_skip p q _ x0 hp.le hq.le]
      simpa using ih hinc

end Interp

/-! ## energy ↔ wavelength -/
section Convert
variable {α : Type} [Field α] [CharZero α]

theorem hc_ne_zero : (PtGen.plancks_constant * PtGen.speed_of_light : α) ≠ 0 := by
  unfold PtGen.plancks_constant PtGen.speed_of_light
  norm_num

theorem xrayEnergy_xrayWavelength (e : α) (he : e ≠ 0) : xrayEnergy (xrayWavelength e) = e := by
  unfold xrayEnergy xrayWavelength
  have h := hc_ne_zero (α := α)
  have h7 : ((10000000 : ℕ) : α) ≠ 0 := by norm_num
  generalize (PtGen.plancks_constant * PtGen.speed_of_light : α) = k at h ⊢
  field_simp

theorem xrayWavelength_xrayEnergy (w : α) (hw : w ≠ 0) : xrayWavelength (xrayEnergy w) = w :=
  xrayEnergy_xrayWavelength w hw

end Convert

end PtModel.Xray
