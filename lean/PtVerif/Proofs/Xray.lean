import PtVerif.Model.Xray
import PtVerif.Proofs.Formula
import Mathlib.Tactic.Ring
import Mathlib.Tactic.FieldSimp
import Mathlib.Tactic.Linarith
import Mathlib.Algebra.Order.Field.Basic

/-! Lemmas about the x-ray model (C05): interpolation, SLD algebra, conversions. -/
namespace PtModel.Xray

/-! ## interpolation -/
section Interp
variable {α : Type} [Field α] [LinearOrder α]

/-- strictly increasing abscissae -/
def Increasing (t : List (α × Option α)) : Prop := (t.map Prod.fst).Pairwise (· < ·)

theorem interpNaN_left (x0 : α) (y0 : Option α) (t : List (α × Option α)) (x : α) (h : x < x0) :
    interpNaN ((x0, y0) :: t) x = none := by
  cases t with
  | nil => simp [interpNaN, ne_of_lt h]
  | cons p r => obtain ⟨x1, y1⟩ := p; simp [interpNaN, h]

theorem interpNaN_skip (p r : α × Option α) (t : List (α × Option α)) (x : α)
    (h0 : p.1 ≤ x) (h1 : r.1 ≤ x) : interpNaN (p :: r :: t) x = interpNaN (r :: t) x := by
  obtain ⟨x0, y0⟩ := p; obtain ⟨x1, y1⟩ := r
  simp only [interpNaN]
  simp [not_lt.mpr h0, not_lt.mpr h1]

/-- right of the last node: NaN -/
theorem interpNaN_right (t : List (α × Option α)) (ht : Increasing t) (x : α)
    (h : ∀ p ∈ t, p.1 < x) : interpNaN t x = none := by
  induction t with
  | nil => simp [interpNaN]
  | cons p r ih =>
    cases r with
    | nil =>
      obtain ⟨x0, y0⟩ := p
      have : x0 < x := h (x0, y0) (by simp)
      simp [interpNaN, ne_of_gt this]
    | cons q s =>
      have hp : p.1 < x := h p (by simp)
      have hq : q.1 < x := h q (by simp)
      rw [interpNaN_skip p q s x hp.le hq.le]
      apply ih
      · unfold Increasing at ht ⊢
        simp only [List.map_cons, List.pairwise_cons] at ht ⊢
        exact ht.2
      · intro p' hp'; exact h p' (List.mem_cons_of_mem _ hp')

/-- between two consecutive nodes (anywhere in an increasing table): the node value on the
    left node, numpy's linear formula strictly inside -/
theorem interpNaN_between (pre post : List (α × Option α)) (x0 x1 : α) (y0 y1 : Option α)
    (ht : Increasing (pre ++ (x0, y0) :: (x1, y1) :: post)) (x : α) (h0 : x0 ≤ x) (h1 : x < x1) :
    interpNaN (pre ++ (x0, y0) :: (x1, y1) :: post) x
      = if x = x0 then y0 else linO x0 y0 x1 y1 x := by
  induction pre with
  | nil =>
    simp only [List.nil_append, interpNaN]
    simp [not_lt.mpr h0, h1]
  | cons p pre' ih =>
    have hinc : Increasing (pre' ++ (x0, y0) :: (x1, y1) :: post) := by
      unfold Increasing at ht ⊢
      simp only [List.cons_append, List.map_cons, List.pairwise_cons] at ht
      exact ht.2
    have hp : p.1 < x0 := by
      unfold Increasing at ht
      simp only [List.cons_append, List.map_cons, List.pairwise_cons] at ht
      exact ht.1 x0 (by simp)
    cases pre' with
    | nil =>
      simp only [List.cons_append, List.nil_append]
      rw [interpNaN_skip p (x0, y0) _ x (le_trans hp.le h0) h0]
      simpa using ih hinc
    | cons q s =>
      have hq : q.1 < x0 := by
        unfold Increasing at hinc
        simp only [List.cons_append, List.map_cons, List.pairwise_cons] at hinc
        exact hinc.1 x0 (by simp)
      simp only [List.cons_append]
      rw [interpNaN_skip p q _ x (le_trans hp.le h0) (le_trans hq.le h0)]
      simpa using ih hinc

/-- on the last node: its value -/
theorem interpNaN_last (pre : List (α × Option α)) (x0 : α) (y0 : Option α)
    (ht : Increasing (pre ++ [(x0, y0)])) : interpNaN (pre ++ [(x0, y0)]) x0 = y0 := by
  induction pre with
  | nil => simp [interpNaN]
  | cons p pre' ih =>
    have hinc : Increasing (pre' ++ [(x0, y0)]) := by
      unfold Increasing at ht ⊢
      simp only [List.cons_append, List.map_cons, List.pairwise_cons] at ht
      exact ht.2
    have hp : p.1 < x0 := by
      unfold Increasing at ht
      simp only [List.cons_append, List.map_cons, List.pairwise_cons] at ht
      exact ht.1 x0 (by simp)
    cases pre' with
    | nil =>
      simp only [List.cons_append, List.nil_append]
      rw [interpNaN_skip p (x0, y0) [] x0 hp.le le_rfl]
      simp [interpNaN]
    | cons q s =>
      have hq : q.1 < x0 := by
        unfold Increasing at hinc
        simp only [List.cons_append, List.map_cons, List.pairwise_cons] at hinc
        exact hinc.1 x0 (by simp)
      simp only [List.cons_append]
      rw [interpNaN_skip p q _ x0 hp.le hq.le]
      simpa using ih hinc

end Interp

/-! ## the loaded table is ordered by energy -/
section Sorted
variable {α : Type} [Field α] [LinearOrder α]

theorem nodeLe_iff (a b : Node α) : nodeLe a b = true ↔ a.e ≤ b.e := by
  simp [nodeLe]

theorem perm_insertBy {β : Type} (le : β → β → Bool) (x : β) (l : List β) :
    (insertBy le x l).Perm (x :: l) := by
  induction l with
  | nil => simp [insertBy]
  | cons y r ih =>
    unfold insertBy
    split
    · exact List.Perm.refl _
    · exact (List.Perm.cons y ih).trans (List.Perm.swap x y r)

theorem perm_sortBy {β : Type} (le : β → β → Bool) (l : List β) : (sortBy le l).Perm l := by
  induction l with
  | nil => simp [sortBy]
  | cons x r ih => exact (perm_insertBy le x _).trans (List.Perm.cons x ih)

theorem pairwise_insertBy (x : Node α) (l : List (Node α))
    (h : l.Pairwise (fun a b => a.e ≤ b.e)) :
    (insertBy nodeLe x l).Pairwise (fun a b => a.e ≤ b.e) := by
  induction l with
  | nil => simp [insertBy]
  | cons y r ih =>
    unfold insertBy
    rw [List.pairwise_cons] at h
    split
    · rename_i hle
      rw [nodeLe_iff] at hle
      refine List.pairwise_cons.mpr ⟨?_, List.pairwise_cons.mpr h⟩
      intro z hz
      rcases List.mem_cons.mp hz with rfl | hz
      · exact hle
      · exact le_trans hle (h.1 z hz)
    · rename_i hle
      have hyx : y.e ≤ x.e := by
        rw [nodeLe_iff] at hle
        exact le_of_lt (not_le.mp hle)
      refine List.pairwise_cons.mpr ⟨?_, ih h.2⟩
      intro z hz
      have hz' : z ∈ x :: r := (perm_insertBy nodeLe x r).mem_iff.mp hz
      rcases List.mem_cons.mp hz' with rfl | hz'
      · exact hyx
      · exact h.1 z hz'

theorem pairwise_sortBy (l : List (Node α)) :
    (sortBy nodeLe l).Pairwise (fun a b => a.e ≤ b.e) := by
  induction l with
  | nil => simp [sortBy]
  | cons x r ih => exact pairwise_insertBy x _ ih

/-- the energies of a raw table are pairwise distinct -/
def DistinctEnergies (rows : List (α × α × α)) : Prop := (rows.map fun r => (loadRow r).e).Nodup

/-- a loaded table with pairwise distinct energies is strictly increasing -/
theorem loadTable_increasing (rows : List (α × α × α)) (hd : DistinctEnergies rows) :
    ((loadTable rows).map (·.e)).Pairwise (· < ·) := by
  have hp : (loadTable rows).Perm (rows.map loadRow) := perm_sortBy _ _
  have hs := pairwise_sortBy (rows.map loadRow)
  have hn : ((loadTable rows).map (·.e)).Nodup := by
    have : ((loadTable rows).map (·.e)).Perm ((rows.map loadRow).map (·.e)) := hp.map _
    rw [this.nodup_iff, List.map_map]
    exact hd
  have hs' : ((loadTable rows).map (·.e)).Pairwise (· ≤ ·) := by
    rw [List.pairwise_map]; exact hs
  have := hs'.and hn
  exact this.imp (fun h => lt_of_le_of_ne h.1 h.2)

theorem increasing_f1Nodes (t : List (Node α)) (h : (t.map (·.e)).Pairwise (· < ·)) :
    Increasing (f1Nodes t) := by
  unfold Increasing f1Nodes; rw [List.map_map]; exact h

theorem increasing_f2Nodes (t : List (Node α)) (h : (t.map (·.e)).Pairwise (· < ·)) :
    Increasing (f2Nodes t) := by
  unfold Increasing f2Nodes; rw [List.map_map]; exact h

/-- in an increasing table every node returns its own value -/
theorem interpNaN_node (t : List (α × Option α)) (ht : Increasing t) (p : α × Option α)
    (hp : p ∈ t) : interpNaN t p.1 = p.2 := by
  obtain ⟨pre, post, rfl⟩ := List.append_of_mem hp
  obtain ⟨x0, y0⟩ := p
  cases post with
  | nil => exact interpNaN_last pre x0 y0 ht
  | cons q post' =>
    obtain ⟨x1, y1⟩ := q
    have hlt : x0 < x1 := by
      unfold Increasing at ht
      rw [List.map_append, List.pairwise_append] at ht
      have := ht.2.1
      simp only [List.map_cons, List.pairwise_cons] at this
      exact this.1 x1 (by simp)
    rw [interpNaN_between pre post' x0 x1 y0 y1 ht x0 le_rfl hlt]
    simp

/-- **every tabulated row is served at its own energy** (whatever the order of the file) -/
theorem scatteringFactors_node (rows : List (α × α × α)) (hd : DistinctEnergies rows)
    (r : α × α × α) (hr : r ∈ rows) :
    scatteringFactors (loadTable rows) (loadRow r).e = ((loadRow r).f1, some (loadRow r).f2) := by
  have hinc := loadTable_increasing rows hd
  have hmem : loadRow r ∈ loadTable rows :=
    (perm_sortBy _ _).mem_iff.mpr (List.mem_map.mpr ⟨r, hr, rfl⟩)
  unfold scatteringFactors
  have h1 := interpNaN_node (f1Nodes (loadTable rows)) (increasing_f1Nodes _ hinc)
    ((loadRow r).e, (loadRow r).f1) (by unfold f1Nodes; exact List.mem_map.mpr ⟨_, hmem, rfl⟩)
  have h2 := interpNaN_node (f2Nodes (loadTable rows)) (increasing_f2Nodes _ hinc)
    ((loadRow r).e, some (loadRow r).f2) (by unfold f2Nodes; exact List.mem_map.mpr ⟨_, hmem, rfl⟩)
  simp only at h1 h2
  rw [h1, h2]

end Sorted

/-! ## `xray_sld` is the documented sum -/
section SldSpec
variable {α : Type} [Field α]

/-- all atoms have a table and the energy is inside every table's numeric range:
    the loop returns the three weighted sums -/
theorem sumLoop_ok (am f1 f2 : Atom → α) (sf : Atom → Option (Option α × Option α))
    (t : List (Atom × α)) (h : ∀ e ∈ t, sf e.1 = some (some (f1 e.1), some (f2 e.1)))
    (m x y : α) :
    sumLoop am sf t (m, some x, some y)
      = .ok (m + wsum am t, some (x + wsum f1 t), some (y + wsum f2 t)) := by
  induction t generalizing m x y with
  | nil => simp [sumLoop, wsum]
  | cons e r ih =>
    obtain ⟨a, n⟩ := e
    have ha := h (a, n) (by simp)
    simp only at ha
    simp only [sumLoop, ha, oadd, omul]
    rw [ih (fun e he => h e (List.mem_cons_of_mem _ he))]
    simp only [wsum, List.map_cons, List.sum_cons]
    congr 2
    · ring
    · congr 1
      · congr 1; ring
      · congr 1; ring

/-- an atom without a table makes the call raise -/
theorem sumLoop_noTable (am : Atom → α) (sf : Atom → Option (Option α × Option α))
    (t : List (Atom × α)) (h : ∃ e ∈ t, sf e.1 = none) (acc : α × Option α × Option α) :
    sumLoop am sf t acc = .error .noTable := by
  induction t generalizing acc with
  | nil => simp at h
  | cons e r ih =>
    obtain ⟨a, n⟩ := e
    obtain ⟨m, s1, s2⟩ := acc
    cases hs : sf a with
    | none => simp [sumLoop, hs]
    | some v =>
      obtain ⟨v1, v2⟩ := v
      simp only [sumLoop, hs]
      apply ih
      obtain ⟨e, he, hne⟩ := h
      rcases List.mem_cons.mp he with rfl | he
      · simp [hs] at hne
      · exact ⟨e, he, hne⟩

end SldSpec

section SldSpec2
variable {α : Type} [Field α] [DecidableEq α]

theorem wsum_atoms (w : Atom → α) (s : Items α) : wsum w s.atoms = s.flatMass w := by
  rw [← massOf_eq_wsum, Items.mass_eq_flat]

/-- the SLD prefactor `N = density/mass*avogadro_number*1e-8` -/
def sldN (d m : α) : α := d / m * PtGen.avogadro_number * (((1 : ℕ) : α) / ((100000000 : ℕ) : α))

/-- **`xray_sld` is r_e·N_A·ρ/m·Σ n f** (all atoms tabulated, energy in range, non-empty) -/
theorem xraySld_eq_spec (am f1 f2 : Atom → α) (sf : Atom → Option (Option α × Option α))
    (s : Items α) (d : α)
    (h : ∀ e ∈ s.atoms, sf e.1 = some (some (f1 e.1), some (f2 e.1)))
    (hm : s.flatMass am ≠ 0) :
    xraySld am sf s.atoms (some d)
      = .ok (some (sldN d (s.flatMass am) * s.flatMass f1 * PtGen.electron_radius),
             some (sldN d (s.flatMass am) * s.flatMass f2 * PtGen.electron_radius)) := by
  unfold xraySld
  simp only
  rw [sumLoop_ok am f1 f2 sf s.atoms h]
  simp only [zero_add, wsum_atoms]
  have : (s.flatMass am == 0) = false := by simpa using hm
  simp only [this, scaleSld, sldN]
  rfl

/-- the empty formula (`mass == 0`) has SLD `(0, 0)` -/
theorem xraySld_mass_zero (am f1 f2 : Atom → α) (sf : Atom → Option (Option α × Option α))
    (s : Items α) (d : α)
    (h : ∀ e ∈ s.atoms, sf e.1 = some (some (f1 e.1), some (f2 e.1)))
    (hm : s.flatMass am = 0) :
    xraySld am sf s.atoms (some d) = .ok (some 0, some 0) := by
  unfold xraySld
  simp only
  rw [sumLoop_ok am f1 f2 sf s.atoms h]
  simp [wsum_atoms, hm]

/-- an atom without a table: `ValueError` -/
theorem xraySld_noTable (am : Atom → α) (sf : Atom → Option (Option α × Option α))
    (t : List (Atom × α)) (d : α) (h : ∃ e ∈ t, sf e.1 = none) :
    xraySld am sf t (some d) = .error .noTable := by
  unfold xraySld
  simp only
  rw [sumLoop_noTable am sf t h]

/-- no density: `AssertionError` -/
theorem xraySld_noDensity (am : Atom → α) (sf : Atom → Option (Option α × Option α))
    (t : List (Atom × α)) : xraySld am sf t none = .error .noDensity := rfl

/-- scaling an SLD pair -/
def scalePair (k : α) (p : Option α × Option α) : Option α × Option α :=
  (p.1.map (k * ·), p.2.map (k * ·))

/-- **linear in density**, NaN and error branches included -/
theorem xraySld_density_scale (am : Atom → α) (sf : Atom → Option (Option α × Option α))
    (t : List (Atom × α)) (d k : α) :
    xraySld am sf t (some (k * d)) = (xraySld am sf t (some d)).map (scalePair k) := by
  unfold xraySld
  simp only
  cases hl : sumLoop am sf t (0, some 0, some 0) with
  | error e => rfl
  | ok acc =>
    obtain ⟨m, s1, s2⟩ := acc
    simp only
    by_cases hm : m = 0
    · simp [hm, Except.map, scalePair]
    · have : (m == 0) = false := by simpa using hm
      simp only [this, Except.map, scalePair]
      congr 1
      cases s1 <;> cases s2 <;> simp [scaleSld] <;> ring_nf <;> try trivial

end SldSpec2

/-! ## a bare element is its one-atom compound -/
section ElementSld
variable {α : Type} [Field α] [DecidableEq α]

/-- `Xray.sld` of an element equals `xray_sld` of the one-atom compound at the element's density,
    given `number_density = N_A·ρ/m` (density.py, C06) -/
theorem elementSld_eq_compound (am : Atom → α) (sf : Atom → Option (Option α × Option α))
    (a : Atom) (f1 f2 rho : α) (hsf : sf a = some (some f1, some f2)) (hm : am a ≠ 0) :
    xraySld am sf [(a, 1)] (some rho)
      = .ok ((elementSld (some f1, some f2) (some (PtGen.avogadro_number * (rho / am a)))).getD (none, none)) := by
  unfold xraySld elementSld
  simp only [sumLoop, hsf, oadd, omul, Option.getD_some]
  have : (am a == 0) = false := by simpa using hm
  simp only [zero_add, mul_one, this, scaleSld, Bool.false_eq_true, if_false]
  refine congrArg Except.ok (Prod.ext ?_ ?_) <;> simp only [Option.some.injEq] <;> field_simp

end ElementSld

/-! ## isotope independence at equal natural density -/
section Isotope
variable {α : Type} [Field α]

mutual
theorem flatMass_mapFrag (w : Atom → α) (ρ : Atom → Atom) (f : Frag α) :
    (mapFrag ρ f).flatMass w = f.flatMass (fun a => w (ρ a)) := by
  cases f with
  | atom a => simp [mapFrag, Frag.flatMass]
  | group is => simp only [mapFrag, Frag.flatMass]; exact flatMass_mapItems w ρ is
theorem flatMass_mapItems (w : Atom → α) (ρ : Atom → Atom) (s : Items α) :
    (mapItems ρ s).flatMass w = s.flatMass (fun a => w (ρ a)) := by
  cases s with
  | nil => simp [mapItems, Items.flatMass]
  | cons c f r =>
    simp only [mapItems, Items.flatMass]
    rw [flatMass_mapFrag w ρ f, flatMass_mapItems w ρ r]
end


theorem densityOfNatural_eq (am nm : Atom → α) (s : Items α) (nd : α) :
    densityOfNatural am nm s.atoms nd = nd / (s.flatMass nm / s.flatMass am) := by
  unfold densityOfNatural
  rw [Items.mass_eq_flat, Items.mass_eq_flat]

/-- at a given natural density the SLD prefactor depends only on the natural mass -/
theorem sldN_natural (nd Mn M : α) (hM : M ≠ 0) (hn : Mn ≠ 0) :
    sldN (nd / (Mn / M)) M = sldN nd Mn := by
  unfold sldN
  field_simp

/-- **the SLD does not depend on which isotopes are present at equal natural density**:
    `ρ` relabels atoms (isotope ↔ natural element) without changing the element-level data
    (scattering factors, natural mass) -/
theorem xraySld_isotope_independent [DecidableEq α] (am nm f1 f2 : Atom → α)
    (sf : Atom → Option (Option α × Option α)) (s : Items α) (ρ : Atom → Atom) (nd : α)
    (h : ∀ e ∈ s.atoms, sf e.1 = some (some (f1 e.1), some (f2 e.1)))
    (h' : ∀ e ∈ (mapItems ρ s).atoms, sf e.1 = some (some (f1 e.1), some (f2 e.1)))
    (hf1 : ∀ a, f1 (ρ a) = f1 a) (hf2 : ∀ a, f2 (ρ a) = f2 a) (hnm : ∀ a, nm (ρ a) = nm a)
    (hm : s.flatMass am ≠ 0) (hm' : (mapItems ρ s).flatMass am ≠ 0) (hn : s.flatMass nm ≠ 0) :
    xraySld am sf (mapItems ρ s).atoms (some (densityOfNatural am nm (mapItems ρ s).atoms nd))
      = xraySld am sf s.atoms (some (densityOfNatural am nm s.atoms nd)) := by
  rw [xraySld_eq_spec am f1 f2 sf (mapItems ρ s) _ h' hm', xraySld_eq_spec am f1 f2 sf s _ h hm,
    densityOfNatural_eq, densityOfNatural_eq]
  have e1 : (mapItems ρ s).flatMass f1 = s.flatMass f1 := by
    rw [flatMass_mapItems]; congr 1; funext a; exact hf1 a
  have e2 : (mapItems ρ s).flatMass f2 = s.flatMass f2 := by
    rw [flatMass_mapItems]; congr 1; funext a; exact hf2 a
  have e3 : (mapItems ρ s).flatMass nm = s.flatMass nm := by
    rw [flatMass_mapItems]; congr 1; funext a; exact hnm a
  rw [e1, e2, e3, sldN_natural _ _ _ hm' hn, sldN_natural _ _ _ hm hn]

end Isotope

/-! ## energy ↔ wavelength -/
section Convert
variable {α : Type} [Field α] [CharZero α]

theorem hc_ne_zero : (PtGen.plancks_constant * PtGen.speed_of_light : α) ≠ 0 := by
  unfold PtGen.plancks_constant PtGen.speed_of_light
  norm_num

theorem xrayEnergy_xrayWavelength (e : α) (he : e ≠ 0) : xrayEnergy (xrayWavelength e) = e := by
  unfold xrayEnergy xrayWavelength
  have h := hc_ne_zero (α := α)
  have h7 : ((10000000 : ℕ) : α) ≠ 0 := by norm_num
  generalize (PtGen.plancks_constant * PtGen.speed_of_light : α) = k at h ⊢
  field_simp

theorem xrayWavelength_xrayEnergy (w : α) (hw : w ≠ 0) : xrayWavelength (xrayEnergy w) = w :=
  xrayEnergy_xrayWavelength w hw

end Convert

/-! ## `fxrayatstol`: the table key of an (element symbol, charge) pair -/
section Resolve

def stripSet : List Char := ['0', '1', '2', '3', '4', '5', '6', '7', '8', '+', '-']

theorem rstripSet_id (sym : List Char) (h : ∀ c ∈ sym, c ∉ stripSet) :
    rstripSet stripSet sym = sym := by
  unfold rstripSet
  have : sym.reverse.dropWhile (fun c => stripSet.contains c) = sym.reverse := by
    cases hr : sym.reverse with
    | nil => rfl
    | cons c r =>
      have hc : c ∈ sym := by
        have : c ∈ sym.reverse := by rw [hr]; simp
        exact List.mem_reverse.mp this
      have hn : c ∉ stripSet := h c hc
      rw [List.dropWhile_cons]
      have : (stripSet.contains c) = false := by simpa using hn
      simp only [this]
      rfl
  rw [this, List.reverse_reverse]

/-- an ion (`q ≠ 0`) resolves to `<symbol><digits of |q| reversed><sign>` … -/
theorem resolveSymbol_ion (sym : List Char) (q : Int) (hq : q ≠ 0) :
    resolveSymbol sym (some q)
      = rstripSet stripSet sym ++ (Nat.toDigits 10 q.natAbs).reverse ++ [if q < 0 then '-' else '+'] := by
  simp [resolveSymbol, hq, fmtPlusI, stripSet, List.append_assoc]

/-- … and a neutral atom to its bare symbol -/
theorem resolveSymbol_neutral (sym : List Char) (h : ∀ c ∈ sym, c ∉ stripSet) :
    resolveSymbol sym (some 0) = sym := by
  have := rstripSet_id sym h
  simpa [resolveSymbol, stripSet] using this

end Resolve

end PtModel.Xray
